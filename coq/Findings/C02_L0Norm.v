(** Finding: L0Norm.prox thresholds at |v| >= lam; the minimiser of lam*||x||_0 + 1/2||x-v||^2
    keeps v_i iff v_i^2 >= 2 lam.  The full statement
      forall lam v, 0 < lam -> IsProx Tr l0f lam v (l0_code lam v)
    is refuted for the faithful model of the code. *)
From Coq Require Import QArith Qcanon Reals Lra.
From SV Require Import Base.Num Base.InnerSpace Prox.ProxTheory C02.Basics C02.Models C02.Norms.

(** executable witness (vm_compute at Qc): v = 5/4, lam = 1: the code keeps v (objective 1),
    while x = 0 has objective 25/32 *)
Definition l0_obj_q (lam v x : Qc) : Qc :=
  (lam * (if Qc_eqb x 0 then 0 else 1) + Q2Qc (1 # 2) * (x - v) * (x - v))%Qc.
Example L0Norm_witness_exec :
  let lam := Q2Qc 1 in let v := Q2Qc (5 # 4) in
  (Qc_eqb (l0_code lam v) v && negb (Qc_leb (l0_obj_q lam v (l0_code lam v)) (l0_obj_q lam v 0%Qc))) = true.
Proof. vm_compute. reflexivity. Qed.
(** second region (lam > 2): v = 5, lam = 8: the code returns 0 (objective 25/2), v has 8 *)
Example L0Norm_witness_exec2 :
  let lam := Q2Qc 8 in let v := Q2Qc 5 in
  (Qc_eqb (l0_code lam v) 0%Qc && negb (Qc_leb (l0_obj_q lam v (l0_code lam v)) (l0_obj_q lam v v))) = true.
Proof. vm_compute. reflexivity. Qed.

Open Scope R_scope.
Theorem L0Norm_prox_refuted :
  exists lam v : R, 0 < lam /\ ~ @IsProx RSpace Tr (@l0f RSpace) lam v (l0_code lam v).
Proof.
  exists 1, (5 / 4). split; [lra|]. rewrite l0_code_hard.
  apply (@l0_code_not_prox RSpace); [lra|]. left.
  rewrite RSpace_norm, RSpace_nsq. rewrite Rabs_right by lra. lra.
Qed.
Theorem L0Norm_prox_refuted_large_lam :
  exists lam v : R, 0 < lam /\ ~ @IsProx RSpace Tr (@l0f RSpace) lam v (l0_code lam v).
Proof.
  exists 8, 5. split; [lra|]. rewrite l0_code_hard.
  apply (@l0_code_not_prox RSpace); [lra|]. right.
  rewrite RSpace_norm, RSpace_nsq. rewrite Rabs_right by lra. lra.
Qed.
Print Assumptions L0Norm_prox_refuted.
