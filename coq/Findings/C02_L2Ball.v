(** Finding: L2BallIndicator.prox returns radius * v / norm(v) for every v: a point inside the
    ball is moved onto the sphere (and v = 0 gives 0/0 = NaN in floating point).  The full
    statement
      forall r lam v, 0 < r -> IsProx (inball r) (fun _ => 0) lam v (ball_code r (norm v) v)
    is refuted for the faithful model of the code. *)
From Coq Require Import QArith Qcanon Reals Lra.
From SV Require Import Base.Num Base.InnerSpace Prox.ProxTheory C02.Basics C02.Models C02.Norms C02.Sets.

(** executable witness: r = 2, v = 1/2 (inside): the code returns 2, at distance 3/2 from v,
    while v itself is feasible at distance 0 *)
Example L2Ball_witness_exec :
  let r := Q2Qc 2 in let v := Q2Qc (1 # 2) in
  (Qc_eqb (ball_code r (kabs v) v) r && Qc_leb (kabs v) r && negb (Qc_eqb (ball_code r (kabs v) v) v)) = true.
Proof. vm_compute. reflexivity. Qed.

Open Scope R_scope.
Theorem L2Ball_prox_refuted :
  exists r lam v : R, 0 < r /\ 0 < lam /\
    ~ @IsProx RSpace (@inball RSpace r) (fun _ => 0) lam v (ball_code r (@norm RSpace v) v).
Proof.
  exists 2, 1, (1 / 2). split; [lra|]. split; [lra|].
  rewrite ball_code_fac. apply (@ball_code_not_prox RSpace 2 1 (1/2)); [lra|].
  rewrite RSpace_norm, Rabs_right by lra. lra.
Qed.
Print Assumptions L2Ball_prox_refuted.
