(** Findings for C08: three places where the capability flags of the unchanged code are not
    truthful.  Each is a witness for the faithful model [C08.Calculus] of the flag logic:
    the hypotheses [wf] / [wf_eval] of the truthfulness theorems cannot be dropped. *)
From Coq Require Import Reals Lra Bool List.
From SV Require Import Base.Num Base.InnerSpace Prox.ProxTheory C02.Basics C02.Norms
  C08.WLS C08.Calculus C08.Exec.
Open Scope R_scope.

(** the squared l2 norm on R as a base functional (prox v/(1+2 lam), proved in C02) *)
Definition sq_base : basefun RSpace :=
  {| bdom := Tr; bf := @nsq RSpace; bprox := fun lam v => @vscale RSpace (/ (1 + 2 * lam)) v;
     b_has_eval := true; b_has_prox := true;
     b_ok := fun _ lam v H => @sql2_prox RSpace lam v H |}.
(** a functional without __call__ (e.g. a denoiser pseudo-functional): has_eval = False *)
Definition noeval_base : basefun RSpace :=
  {| bdom := Tr; bf := fun _ => 0; bprox := fun _ v => v;
     b_has_eval := false; b_has_prox := true;
     b_ok := fun _ lam v _ => @C02.Sets.zero_prox RSpace lam v |}.

(** (1) Loss(y, f = f1 + f2): Loss.__init__ sets has_prox = True (f is not None and A is an
    Identity) although FunctionalSum has no prox: the flag is True and prox raises *)
Theorem Loss_has_prox_ignores_inner_flag_refuted :
  exists e : fexpr RSpace, gen_has_prox e = true /\ forall lam v, gen_prox e lam v = None.
Proof.
  exists (LossOf RSpace FIdentity (fun x => x) (Sum RSpace (Base _ sq_base) (Base _ sq_base)) 0 1).
  split; reflexivity.
Qed.

(** (2) Loss(y, f) with f.has_eval = False: Loss.has_eval is True and __call__ raises *)
Theorem Loss_has_eval_ignores_inner_flag_refuted :
  exists e : fexpr RSpace, gen_has_eval e = true /\ forall x, gen_eval e x = None.
Proof.
  exists (LossOf RSpace FIdentity (fun x => x) (Base _ noeval_base) 0 1). split; reflexivity.
Qed.

(** (3) negative scale: (-1)*SquaredL2Norm has has_prox = True; prox(v, 1) returns
    v/(1 - 2) = -v, but -x^2 + 1/2 (x - v)^2 is unbounded below: no minimiser exists *)
Theorem Scaled_negative_has_prox_refuted :
  exists (e : fexpr RSpace) (lam v p : R), 0 < lam /\ gen_has_prox e = true /\
    gen_prox e lam v = Some p /\ ~ IsProx (ddom e) (deval e) lam v p.
Proof.
  exists (Scaled RSpace (-1) (Base _ sq_base)), 1, 1, (@vscale RSpace (/ (1 + 2 * (1 * -1))) 1).
  split; [lra|]. split; [reflexivity|]. split; [reflexivity|].
  intros [_ H]. specialize (H 10 I). unfold obj, nsq, vsub in H. cbn in H. 
  replace (/ (1 + 2 * (1 * -1))) with (-1) in H by (field). lra.
Qed.
Print Assumptions Scaled_negative_has_prox_refuted.
