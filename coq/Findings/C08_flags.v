(** Finding for C08: the one place where a capability flag of the code is not truthful.
    A witness for the faithful model [C08.Calculus] of the flag logic: the hypothesis
    "scales are positive" of the truthfulness theorem cannot be dropped.
    (The two former findings about Loss.has_prox / Loss.has_eval ignoring the flags of f were
    repaired in /repo; the model now transcribes the repaired __init__ and the corresponding
    well-formedness hypotheses are gone.) *)
From Coq Require Import Reals Lra Bool List.
From SV Require Import Base.Num Base.InnerSpace Prox.ProxTheory C02.Basics C02.Norms
  C08.WLS C08.Calculus C08.Exec.
Open Scope R_scope.

(** the squared l2 norm on R as a base functional (prox v/(1+2 lam), proved in C02) *)
Definition sq_base : basefun RSpace :=
  {| bdom := Tr; bf := @nsq RSpace; bprox := fun lam v => @vscale RSpace (/ (1 + 2 * lam)) v;
     b_has_eval := true; b_has_prox := true;
     b_ok := fun _ lam v H => @sql2_prox RSpace lam v H |}.
(** negative scale: (-1)*SquaredL2Norm has has_prox = True; prox(v, 1) returns
    v/(1 - 2) = -v, but -x^2 + 1/2 (x - v)^2 is unbounded below: no minimiser exists *)
Theorem Scaled_negative_has_prox_refuted :
  exists (e : fexpr RSpace) (lam v p : R), 0 < lam /\ gen_has_prox e = true /\
    gen_prox e lam v = Some p /\ ~ IsProx (ddom e) (deval e) lam v p.
Proof.
  exists (Scaled RSpace (-1) (Base _ sq_base)), 1, 1, (@vscale RSpace (/ (1 + 2 * (1 * -1))) 1).
  split; [lra|]. split; [reflexivity|]. split; [reflexivity|].
  intros [_ H]. specialize (H 10 I). unfold obj, nsq, vsub in H. cbn in H. 
  replace (/ (1 + 2 * (1 * -1))) with (-1) in H by (field). lra.
Qed.
Print Assumptions Scaled_negative_has_prox_refuted.
