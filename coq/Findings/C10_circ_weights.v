(** Finding (C10): CircularConvolveSolver / FBlockCircularConvolveSolver put the weights W of
    the SquaredL2Loss into the right-hand side (compute_rhs) but NOT into the left-hand side
    (A_lhs.h_dft is built from f.A.gram_op; ConvATADSolver solves (A^H A + D) x = b).

    Full statement (FALSE for the code's model):
      forall two_alpha w ga ay bs, den <> 0 ->
        circ_system two_alpha w ga ay bs (circ_x_code two_alpha w ga ay bs).
    Restricted statement that is proved in Properties/C10.v: the same with w = 1.

    Witness (one frequency, already uniform weights W = 2 I suffice): A = I (ga = 1), y^ = 1,
    one block C = I, rho = 1, z - u = 0, scale alpha = 1/2 (two_alpha = 1):
      code:  x = (1*2*1 + 0) / (1 + 1) = 1,  system (1): (1*2*1 + 1) x = 3 <> 2.
    The same input on the real code: see known_findings.d/C10.json (repro). *)
From Coq Require Import List QArith Qcanon.
From SV Require Import C10.FreqDomain.
Import ListNotations.
Open Scope Qc_scope.

Definition qx := circ_x_code Qc 0 Qcplus Qcmult Qcdiv.
Definition qsys := circ_system Qc 0 Qcplus Qcmult.
Definition qden := circ_den_code Qc 0 Qcplus Qcmult.

Lemma Qc_neq (a b : Qc) : Qeq_bool (this a) (this b) = false -> a <> b.
Proof.
  intros H E. rewrite E in H. rewrite (proj2 (Qeq_bool_iff _ _) (Qeq_refl _)) in H. discriminate.
Qed.

Theorem circ_weighted_refuted :
  exists two_alpha w ga ay bs,
    qden two_alpha ga bs <> 0 /\ ~ qsys two_alpha w ga ay bs (qx two_alpha w ga ay bs).
Proof.
  exists 1, (1 + 1), 1, 1, [(1, 1, 0)]. split.
  - apply Qc_neq. vm_compute. reflexivity.
  - unfold qsys, circ_system. apply Qc_neq. vm_compute. reflexivity.
Qed.

(** the repaired denominator on the same input *)
Example circ_weighted_fixed :
  qsys 1 (1 + 1) 1 1 [(1, 1, 0)]
       (Qcdiv (circ_rhs Qc 0 Qcplus Qcmult 1 (1 + 1) 1 [(1, 1, 0)]) (1 * ((1 + 1) * 1) + 1)).
Proof. unfold qsys, circ_system. apply Qc_is_canon. vm_compute. reflexivity. Qed.

(** FBlock solver, one channel, one frequency: a = ac = 1, csum = 1, two_alpha = 1, W = 2 I,
    (A^H y)^ = 1, block rhs 0: rhs = 1*2*1 = 2.  Code: (A^H A + D) x = rhs/1 -> x = 1,
    s = (A x)^ = 1.  System (1) needs two_alpha*w*ac*s + csum*x = 2 + 1 = 3 <> 2. *)
Definition fx := fblock_x_code Qc 0 1 Qcplus Qcmult Qcminus Qcdiv.
Definition fAx := fblock_Ax_code Qc 0 1 Qcplus Qcmult Qcminus Qcdiv.

Theorem fblock_weighted_refuted :
  exists two_alpha w (t : fchan Qc),
    let l := [t] in
    (* the channel carries rhs = two_alpha * w * ay + 0 with ay = 1 *)
    snd t = two_alpha * (w * 1) /\
    ~ (two_alpha * (w * (snd (fst (fst t)) * fAx two_alpha l)) + snd (fst t) * fx two_alpha l t = snd t).
Proof.
  exists 1, (1 + 1), (1, 1, 1, 1 * ((1 + 1) * 1)). cbv zeta. split.
  - reflexivity.
  - apply Qc_neq. vm_compute. reflexivity.
Qed.
