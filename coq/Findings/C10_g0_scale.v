(** Finding (C10): G0BlockCircularConvolveSolver multiplies rho_1 by 2*g_1.scale, both in D
    (divided by 2*omega*rho_1) and in compute_rhs (omega_list = [2*omega, 1, ...]).  The
    ADMM x-update does not depend on g_1 at all: with f = 0 it minimises
    sum_i rho_i/2 ||z_i - u_i - C_i x||^2, whose normal equations carry rho_1, not
    2*omega*rho_1.  The code is right exactly when g_1.scale = 1/2 (the default).

    Full statement (FALSE for the code's model):
      forall omega rho1 l, ... -> forall t in l, g0_system1 rho1 t (Ax code) (x code).
    Restricted statement proved in Properties/C10.v: the same under 2*omega = 1.

    Witness (one channel, one frequency): a = ac = 1, rho_1 = 1, second block identity with
    rho_2 = 1 (csum = 1), (C_1^H (z_1-u_1))^ = 1, rest = 0, omega = 1:
      code solves (2*1*1 + 1) x = 2  -> x = 2/3;  system (1): (1 + 1) x = 1 -> x = 1/2. *)
From Coq Require Import List QArith Qcanon.
From SV Require Import C10.FreqDomain.
Import ListNotations.
Open Scope Qc_scope.

Definition gx := g0_x_code Qc 0 1 Qcplus Qcmult Qcminus Qcdiv.
Definition gAx := g0_Ax_code Qc 0 1 Qcplus Qcmult Qcminus Qcdiv.
Definition gsys := g0_system1 Qc Qcplus Qcmult.

Lemma Qc_neq (a b : Qc) : Qeq_bool (this a) (this b) = false -> a <> b.
Proof.
  intros H E. rewrite E in H. rewrite (proj2 (Qeq_bool_iff _ _) (Qeq_refl _)) in H. discriminate.
Qed.

Theorem g0_scale_refuted :
  exists omega rho1 (t : gchan Qc),
    (1 + 1) * omega * rho1 <> 0 /\ ~ gsys rho1 t (gAx omega rho1 [t]) (gx omega rho1 [t] t).
Proof.
  exists 1, 1, (1, 1, 1, (1, 0)). split.
  - apply Qc_neq. vm_compute. reflexivity.
  - unfold gsys, g0_system1. apply Qc_neq. vm_compute. reflexivity.
Qed.

Example g0_code_value : this (gx 1 1 [(1, 1, 1, (1, 0))] (1, 1, 1, (1, 0))) = (2 # 3)%Q.
Proof. vm_compute. reflexivity. Qed.
