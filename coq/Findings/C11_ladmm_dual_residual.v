(** Finding of C11 on the unchanged tree (witness on the model GENERATED from the source,
    instantiated at the executable signature of C11/Exec.v):

    LinearizedADMM.norm_dual_residual() returns ||C^H (z - z_old)||, the method documents
    ||z - z_old||.  The witness replayed on the real class reproduces it (vf/props/C11.py).

    (The former witnesses "norm_primal_residual(x) ignores x" of ADMM / LinearizedADMM were
    removed when /repo 51ad458 repaired the code; the positive theorems are in Properties/C11.v.) *)
From Coq Require Import List Bool ZArith QArith Qcanon.
From SV Require Import Base.Num C11.Overload C11.Exec.
From SV Require C11.Spec_LADMM.
From SVGen Require C11_Ladmm.
Import ListNotations.

Definition D2 : matrix := [[q 2 1]].

(** C = 2 I, z = [1], z_old = [0]: documented ||z - z_old|| = 1, returned ||C^H (z - z_old)|| = 2 *)
Definition la_s2 : C11_Ladmm.st Qc vec vec :=
  C11_Ladmm.mk_st [q 0 1] [q 1 1] [q 0 1] [q 0 1] (mkF FZero) (mkF FZero) (op_mat D2) (q 1 1) (q 1 1).
Theorem ladmm_dual_residual_doc_refuted :
  exists s : C11_Ladmm.st Qc vec vec,
    C11_Ladmm.norm_dual_residual_gen s <> Spec_LADMM.dual_residual_doc s.
Proof.
  exists la_s2. intro H. apply (f_equal this) in H. vm_compute in H. discriminate H.
Qed.
