(** Findings of C11 on the unchanged tree (witnesses on the model GENERATED from the source,
    instantiated at the executable signature of C11/Exec.v):

    1. LinearizedADMM.norm_primal_residual(x) and ADMM.norm_primal_residual(x) ignore their
       argument (they evaluate the residual at self.x).
    2. LinearizedADMM.norm_dual_residual() returns ||C^H (z - z_old)||, the class documents
       ||z - z_old||.

    Each witness replayed on the real class reproduces the finding (vf/props/C11.py). *)
From Coq Require Import List Bool ZArith QArith Qcanon.
From SV Require Import Base.Num C11.Overload C11.Exec.
From SV Require C11.Spec_LADMM C11.Spec_ADMM.
From SVGen Require C11_Ladmm C11_Admm.
Import ListNotations.

Definition I1 : matrix := [[q 1 1]].
Definition D2 : matrix := [[q 2 1]].

(** state x = [0], z = [0]; argument x = [3]: documented value 3, returned value 0 *)
Definition la_s : C11_Ladmm.st Qc vec vec :=
  C11_Ladmm.mk_st [q 0 1] [q 0 1] [q 0 1] [q 0 1] (mkF FZero) (mkF FZero) (op_mat I1) (q 1 1) (q 1 1).
Theorem ladmm_primal_residual_arg_refuted :
  exists (s : C11_Ladmm.st Qc vec vec) (x : vec),
    C11_Ladmm.norm_primal_residual_gen__x s x <> Spec_LADMM.primal_residual_doc s x.
Proof.
  exists la_s, [q 3 1]. intro H. apply (f_equal this) in H. vm_compute in H. discriminate H.
Qed.

Definition ad_s : C11_Admm.st Qc vec vec :=
  C11_Admm.mk_st [q 0 1] [[q 0 1]] [[q 0 1]] [[q 0 1]] (mkF FZero) true [mkF FZero] [op_mat I1]
                 [q 1 1] (q 1 1) (fun _ _ x => x).
Theorem admm_primal_residual_arg_refuted :
  exists (s : C11_Admm.st Qc vec vec) (x : vec), Spec_ADMM.WF s /\
    C11_Admm.norm_primal_residual_gen__x s x <> Spec_ADMM.primal_residual_doc s x.
Proof.
  exists ad_s, [q 3 1]. split; [repeat split|].
  intro H. apply (f_equal this) in H. vm_compute in H. discriminate H.
Qed.

(** C = 2 I, z = [1], z_old = [0]: documented ||z - z_old|| = 1, returned ||C^H (z - z_old)|| = 2 *)
Definition la_s2 : C11_Ladmm.st Qc vec vec :=
  C11_Ladmm.mk_st [q 0 1] [q 1 1] [q 0 1] [q 0 1] (mkF FZero) (mkF FZero) (op_mat D2) (q 1 1) (q 1 1).
Theorem ladmm_dual_residual_doc_refuted :
  exists s : C11_Ladmm.st Qc vec vec,
    C11_Ladmm.norm_dual_residual_gen s <> Spec_LADMM.dual_residual_doc s.
Proof.
  exists la_s2. intro H. apply (f_equal this) in H. vm_compute in H. discriminate H.
Qed.
