(** C12 -- witnesses: the faithful models violate the full-strength statements on the
    unchanged tree (each witness replayed on the implementation is a known finding). *)
From Coq Require Import List Bool ZArith.
From SV Require Import C12.Slice C12.SliceThm C12.Shape C12.Expr C12.ExprSpec C12.FiniteDiff.
Import ListNotations.
Open Scope Z_scope.

(* C12_slice_length_neg_step_refuted removed: slice_length was repaired in /repo (fix 86d8fbf). *)

Lemma C12_indexed_shape_newaxis_refuted :
  exists sh idx, indexed_shape sh idx <> np_index_shape sh idx.
Proof. exists [4; 5; 6], [IEll; INew; IInt 0]. vm_compute. discriminate. Qed.

Definition r2c := XLeaf true (Plain [3]) (Plain [3]) false F32 None (FPromote C64) AAuto.
Lemma C12_gram_dtype_refuted : exists e v, build e = Some v /\ ~ conforms v.
Proof. exists (XGram r2c). eexists. split; [vm_compute; reflexivity|]. vm_compute. discriminate. Qed.

Lemma C12_T_complex_refuted : exists e v, build e = Some v /\ ~ conforms v.
Proof.
  exists (XT (XLeaf true (Plain [3]) (Plain [3]) false C64 None (FPromote C128) AAuto)).
  eexists. split; [vm_compute; reflexivity|]. vm_compute. discriminate.
Qed.

Lemma C12_matrix_T_cols_refuted : exists e, declared e <> spec e.
Proof. exists (XT (XMat 2 3 4 F64)). vm_compute. discriminate. Qed.

(* C12_diagonal_conj_refuted removed: Diagonal derived forms keep input_shape (fix 440704b). *)

Lemma C12_composite_dtype_refuted : exists e v, build e = Some v /\ ~ conforms v.
Proof.
  exists (XComp (XLeaf false (Plain [3]) (Plain [3]) false C128 None FReal AAuto)
                (XLeaf false (Plain [3]) (Plain [3]) false C128 None (FPromote C64) AAuto)).
  eexists. split; [vm_compute; reflexivity|]. vm_compute. discriminate.
Qed.

(* C12_freeze_refuted removed: Operator.freeze was repaired in /repo (fix 6709411). *)

Lemma C12_stack_mixed_dtype_refuted : exists e v, spec e = None /\ build e = Some v /\ ~ conforms v.
Proof.
  exists (XVStack (XLeaf true (Plain [3]) (Plain [3]) false F32 None (FPromote F32) AAuto) r2c true).
  eexists. split; [vm_compute; reflexivity|]. split; [vm_compute; reflexivity|]. vm_compute. discriminate.
Qed.

(* C12_replicated_default_axis_refuted removed: repaired in /repo (fix 760899e); the positive statement is
   Properties/C12.v C12_replicated_default_axis_rejected. *)

(* C12_fd_negative_axis_refuted removed: repaired in /repo (fix fdc6426); positive statement:
   Properties/C12.v C12_fd_axis_out_of_range_rejected. *)
