(** C13 -- two guards that look equivalent to the ones in scico/numpy/_blockarray.py and are not
    (witnesses; the faithful guards are the ones of coq/theories/C13/Block.v). *)
From Coq Require Import List Bool Arith ZArith.
From SV Require Import C13.Wrap C13.Block.
Import ListNotations.
Open Scope Z_scope.

(** (1) dtype check "the promoted dtype of all blocks is the dtype of block 0" (promotion = max
    of the tags): accepts a mixed list whenever the widest block comes first. *)
Definition promoted (l : list (arr Z)) : Z := fold_right (fun a m => Z.max (a_dtype Z a) m) 0 l.
Definition guard_promoted (l : list (arr Z)) : bool :=
  match l with [] => true | a :: _ => Z.eqb (promoted l) (a_dtype Z a) end.

Theorem promoted_guard_order_dependent_refuted :
  exists l, guard_promoted l = true /\ homog Z l = false /\ guard_promoted (rev l) = false.
Proof. exists [mkarr Z [] 2 [0]; mkarr Z [] 1 [0]]. vm_compute. repeat split; reflexivity. Qed.

(** (2) property wrapper that tests the first per-block value against the concrete array class:
    for traced blocks an array-valued property comes back as a tuple, not as the block array. *)
Theorem concrete_class_test_refuted :
  exists (traced : arr Z -> bool) (b : list (arr Z)),
    let get := fun x : arr Z => IsArr Z Z x in
    attr_wrapper_cls Z Z (fun _ => Raise TypeError) (fun a => negb (traced a)) get b <> Ok (inl (map (fun x => x) b))
    /\ attr_wrapper_cls Z Z (fun _ => Raise TypeError) (fun _ => true) get b = Ok (inl (map (fun x => x) b)).
Proof.
  exists (fun _ => true), [mkarr Z [] 1 [5]]. split; [vm_compute; discriminate|vm_compute; reflexivity].
Qed.
