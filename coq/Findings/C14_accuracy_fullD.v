(** C14 finding -- MatrixATADSolver.accuracy computes  A^H W A @ x + D * x : for a full
    (2-D) D the product "D * x" is numpy's element-wise broadcast, not D @ x, so the reported
    value is not the relative residual of (A^H W A + D) x = b (and for a matrix right-hand
    side the expression does not even broadcast: ValueError).
    Full statement (false): for every full D, if x solves the system exactly the residual
    the code forms, b - (A^H W A x + D * x), is zero.
    Witness: A^H W A = I, D = [[3,1],[1,2]], x = [1,1], b = [5,4]. *)
From Coq Require Import List ZArith QArith Qcanon Bool.
Import ListNotations.

Definition dot (u v : list Qc) : Qc := fold_right Qcplus 0%Qc (map (fun p => (fst p * snd p)%Qc) (combine u v)).
Definition matvec (G : list (list Qc)) (x : list Qc) : list Qc := map (fun row => dot row x) G.
Definition vadd (u v : list Qc) := map (fun p => (fst p + snd p)%Qc) (combine u v).
Definition vsub (u v : list Qc) := map (fun p => (fst p - snd p)%Qc) (combine u v).
(** numpy broadcasting: (M,M) * (M,) multiplies column j by x_j; (M,) + (M,M) adds the
    vector to every row; (M,) - (M,M) likewise *)
Definition bmul (D : list (list Qc)) (x : list Qc) := map (fun row => map (fun p => (fst p * snd p)%Qc) (combine row x)) D.
Definition badd (v : list Qc) (Mx : list (list Qc)) := map (fun row => vadd v row) Mx.
Definition bsub (v : list Qc) (Mx : list (list Qc)) := map (fun row => vsub v row) Mx.
Definition nsq (Mx : list (list Qc)) : Qc := fold_right Qcplus 0%Qc (map (fun r => dot r r) Mx).

(** residual the code forms, and the true one *)
Definition code_residual G0 D x b := bsub b (badd (matvec G0 x) (bmul D x)).
Definition true_residual G0 D x b := vsub b (vadd (matvec G0 x) (matvec D x)).

Definition q (n : Z) (d : positive) : Qc := Q2Qc (n # d).

Theorem accuracy_fullD_refuted :
  exists G0 D x b,
    dot (true_residual G0 D x b) (true_residual G0 D x b) = 0%Qc /\
    nsq (code_residual G0 D x b) <> 0%Qc.
Proof.
  exists [[q 1 1; q 0 1]; [q 0 1; q 1 1]], [[q 3 1; q 1 1]; [q 1 1; q 2 1]], [q 1 1; q 1 1], [q 5 1; q 4 1].
  split.
  - vm_compute. apply Qc_is_canon. reflexivity.
  - intro H. vm_compute in H. discriminate.
Qed.
