(** C14 finding -- scico.solver.cg with a preconditioner M stops on, and reports,
    sqrt(<r, M r>) / ||b|| instead of the true residual ||r|| / ||b||.
    Full statement (false): for every M the loop exits with num_iter = maxiter or
    <r, r> <= max(tol ||b||, atol)^2 where r = b - A x is the TRUE residual.
    Witness: A = [[4,1],[1,3]], M = I/100, b = [1,2], x0 = 0, tol = 1/10, maxiter = 10:
    the model (= the code, see the correspondence check) returns x = 0 after 0 iterations,
    rel_res = 0.1, while ||b - A x|| / ||b|| = 1. *)
From Coq Require Import List ZArith QArith Qcanon Bool.
From SV Require Import C14.Tup C14.CG C14.CGExec.
Import ListNotations.

Definition true_residual_rule n A M b x0 tol atol maxiter : Prop :=
  let s := r_cg n A M b x0 tol atol maxiter in
  let r := tsub Qc Qcminus n (rvec n b) (Af Qc 0%Qc Qcplus Qcmult n (rmat n A) (sx _ _ s)) in
  sii _ _ s = maxiter \/
  Qc_leb (dotc Qc 0%Qc Qcplus Qcmult qid n r r) (r_tolsq n tol atol (rvec n b)) = true.

Theorem cg_precond_true_residual_rule_refuted :
  exists n A M b x0 tol atol maxiter, ~ true_residual_rule n A M b x0 tol atol maxiter.
Proof.
  exists 2%nat, [[4#1; 1#1]; [1#1; 3#1]], (Some [[1#100; 0#1]; [0#1; 1#100]]),
         [1#1; 2#1], [0#1; 0#1], (1#10), 0%Q, 10%nat.
  unfold true_residual_rule. vm_compute. intros [H|H]; discriminate.
Qed.

(** and the reported rel_res^2 * <b,b> = <r, M r> = 1/20 whereas <r, r> = 5 *)
Example cg_precond_reported_vs_true :
  let s := r_cg 2 [[4#1; 1#1]; [1#1; 3#1]] (Some [[1#100; 0#1]; [0#1; 1#100]]) [1#1; 2#1] [0#1; 0#1] (1#10) 0 10 in
  (this (snum _ _ s) == 1 # 20)%Q /\ sii _ _ s = 0%nat.
Proof. vm_compute. split; reflexivity. Qed.
