(** C14 finding -- scico.flax.inverse.cg_solver (lax.scan, no stopping test) divides 0/0 once
    the residual is exactly zero: the returned array is all nan although the exact
    solution had been reached (b = 0 with the default x0 = 0; or exact convergence in fewer
    than maxiter steps).
    Full statement (false): for every SPD A, b, x0, maxiter the result is finite. *)
From Coq Require Import List ZArith QArith Qcanon Bool.
From SV Require Import C14.Tup C14.CG C14.CGExec.
Import ListNotations.

Theorem cg_solver_finite_refuted :
  exists n A b x0 maxiter, r_cg_solver n A b x0 maxiter = None.
Proof.
  exists 2%nat, [[4#1; 1#1]; [1#1; 3#1]], [0#1; 0#1], [0#1; 0#1], 1%nat.
  vm_compute. reflexivity.
Qed.

(** exact convergence after one step (A = 2 I), nan after the second *)
Theorem cg_solver_nan_after_exact_convergence :
  (match r_cg_solver 2 [[2#1; 0#1]; [0#1; 2#1]] [1#1; 2#1] [0#1; 0#1] 1 with
   | Some x => map this (to_list 2 x) = [1 # 2; 1]%Q | None => False end) /\
  r_cg_solver 2 [[2#1; 0#1]; [0#1; 2#1]] [1#1; 2#1] [0#1; 0#1] 2 = None.
Proof. vm_compute. split; reflexivity. Qed.
