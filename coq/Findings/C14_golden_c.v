(** C14 finding -- scico.solver.golden with a user-supplied first interior point c:
    the docstring only asks that c lie in (a, b); the loop assumes c <= d = a + gr (b - a).
    With c > d the comparison f(c) < f(d) discards the part of the bracket containing
    the minimiser.  Full statement (false): for every c0 in (a0, b0) the minimiser of a
    unimodal f stays in the bracket.
    Witness: [0, 1], c0 = 9/10, f(x) = |x - 19/20|: after one pass the bracket is [0, gr],
    gr < 0.62 < 19/20.  (scico: golden(f, [0.], [1.], c=[0.9]) returns 0.618...) *)
From Coq Require Import Reals Lra.
From SV Require Import Base.Num C14.Golden.
Local Open Scope R_scope.

Theorem golden_user_c_refuted :
  forall gr, 0 < gr -> gr * gr = 1 - gr ->
  exists (f : R -> R) a0 b0 c0 m,
    a0 < c0 < b0 /\ unimodal f a0 b0 m /\
    ~ (ga (gold_iter gr f 1 (gold_init gr a0 b0 (Some c0))) <= m
       <= gb (gold_iter gr f 1 (gold_init gr a0 b0 (Some c0)))).
Proof.
  intros gr Hp Hg.
  assert (Hr : 1 / 2 < gr < 1) by (apply golden_ratio_range; auto).
  assert (Hu : gr < 62 / 100) by nra.
  exists (fun x => Rabs (x - 19 / 20)), 0, 1, (9 / 10), (19 / 20).
  split; [lra|]. split.
  - unfold unimodal. split; [lra|]. split; intros x y H1 H2 H3;
      unfold Rabs; destruct (Rcase_abs (x - 19 / 20)), (Rcase_abs (y - 19 / 20)); lra.
  - cbn [gold_iter]. rewrite gold_step_R. cbv zeta.
    unfold gold_init, ga, gb, gc, gd. cbn [fst snd].
    cbn [kadd ksub kmul Num_R].
    destruct (Rlt_dec (Rabs (9 / 10 - 19 / 20)) (Rabs (0 + gr * (1 - 0) - 19 / 20))) as [Hl|Hl].
    + cbn [fst snd]. lra.
    + exfalso. apply Hl. unfold Rabs.
      destruct (Rcase_abs (9 / 10 - 19 / 20)), (Rcase_abs (0 + gr * (1 - 0) - 19 / 20)); lra.
Qed.
