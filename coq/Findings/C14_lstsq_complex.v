(** C14 finding -- scico.solver.lstsq forms Aop.T @ Aop and Aop.T @ b; for complex A the
    transpose is not the adjoint, so the solution of that system is not the least-squares
    solution.  Full statement (false): for every complex A, b: A^T A x = A^T b implies
    ||A x - b|| <= ||A x' - b|| for all x'.
    Witness: A = [[1],[i/2]] (2 x 1), b = [0, 1]: the code's system gives x = 2i/3
    (||Ax-b||^2 = 20/9), the minimiser is x' = -2i/5 (||Ax'-b||^2 = 4/5). *)
From Coq Require Import List ZArith QArith Qcanon Bool.
From SV Require Import C14.Tup C14.CGExec.
Import ListNotations.

(** 2 x 1 complex matrix (a1; a2): A x, the code's "A.T" (plain transpose), squared norm *)
Definition Ax (a1 a2 x : C) : C * C := (Cmul a1 x, Cmul a2 x).
Definition ATy (a1 a2 : C) (y : C * C) : C := Cadd (Cmul a1 (fst y)) (Cmul a2 (snd y)).
Definition nsq2 (y : C * C) : Qc :=
  (fst (Cmul (Cconj (fst y)) (fst y)) + fst (Cmul (Cconj (snd y)) (snd y)))%Qc.
Definition sub2 (u v : C * C) : C * C := (Csub (fst u) (fst v), Csub (snd u) (snd v)).

Definition cq (a b : Q) : C := (Q2Qc a, Q2Qc b).

Definition Ceqb (u v : C) : bool := Qc_eqb (fst u) (fst v) && Qc_eqb (snd u) (snd v).

Definition lstsq_transpose_claim (a1 a2 : C) (b : C * C) (x x' : C) : Prop :=
  Ceqb (ATy a1 a2 (Ax a1 a2 x)) (ATy a1 a2 b) = true ->
  Qc_leb (nsq2 (sub2 (Ax a1 a2 x) b)) (nsq2 (sub2 (Ax a1 a2 x') b)) = true.

Theorem lstsq_complex_refuted :
  exists a1 a2 b x x', ~ lstsq_transpose_claim a1 a2 b x x'.
Proof.
  exists (cq (1) (0)), (cq (0) (1 # 2)), (cq (0) (0), cq (1) (0)), (cq (0) (2 # 3)), (cq (0) ((-2) # 5)).
  unfold lstsq_transpose_claim. intros H.
  assert (E : Ceqb (ATy (cq 1 0) (cq 0 (1 # 2)) (Ax (cq 1 0) (cq 0 (1 # 2)) (cq 0 (2 # 3))))
                   (ATy (cq 1 0) (cq 0 (1 # 2)) (cq 0 0, cq 1 0)) = true).
  { vm_compute. reflexivity. }
  specialize (H E). vm_compute in H. discriminate.
Qed.
