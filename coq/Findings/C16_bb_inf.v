(** FINDING (C16): the Barzilai-Borwein policies accept an infinite quotient.

    Full statement of the property for BBStepSize / AdaptiveBBStepSize ("every returned L is
    finite and > 0 whenever pgm.L is"):
      forall pgmL gg xg, xposfin pgmL = true -> xposfin (bb_update pgmL false gg xg) = true.
    The faithful model violates it: num/0 with num > 0 is +inf, which is neither NaN nor <= 0,
    so the code's test `snp.isnan(L) or L <= 0.0` keeps it.  Properties/C16.v therefore states
    the theorem restricted to quotients different from +inf (C16_bb_posfin_restricted,
    C16_abb_posfin_restricted) together with the exact characterisation C16_bb_unusable_iff.
    The witness below is replayed on the real code by vf/props/C16.py (crafted-state stream
    and the f(x) = x0*x1 trajectory). *)
From Coq Require Import Bool QArith Qcanon Reals Lra.
From SV Require Import Base.Num C16.XR C16.StepSize C16.StepSizeR C16.Exec.

Theorem bb_posfin_refuted :
  exists (pgmL : xq) (gg xg : Qc),
    xposfin pgmL = true /\ xposfin (bb_update pgmL false (Fin gg) (Fin xg)) = false /\
    bb_update pgmL false (Fin gg) (Fin xg) = PInf.
Proof. exists (F 2 1), (q 1 1), (q 0 1). vm_compute. auto. Qed.

(** the same over the reals *)
Theorem bb_posfin_refuted_R :
  exists (pgmL : xr R) (gg xg : R),
    xposfin pgmL = true /\ xposfin (bb_update pgmL false (Fin gg) (Fin xg)) = false.
Proof.
  exists (Fin 2%R), 1%R, 0%R. split.
  - xr_unfold. rcases; auto; lra.
  - rewrite bb_zero_den. destruct (Rlt_dec 0 1); [reflexivity|lra].
Qed.

(** adaptive policy: dx _|_ dg with dg <> 0 gives Lbb2 = +inf; Lbb1/Lbb2 = 0 < kappa selects it,
    and it is stored in the memory *)
Theorem abb_posfin_refuted :
  exists (kappa : Qc) (pgmL : xq) (m : option xq * option xq) (xx xg gg : Qc),
    xposfin pgmL = true /\
    abb_update kappa pgmL false m (Fin xx) (Fin xg) (Fin gg) = (PInf, (fst m, Some PInf)).
Proof.
  exists (q 1 2), (F 2 1), (Some (F 1 1), Some (F 1 1)), (q 1 1), (q 0 1), (q 1 1).
  vm_compute. auto.
Qed.
