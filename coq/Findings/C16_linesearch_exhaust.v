(** FINDING (C16): on budget exhaustion the line searches return gamma_u x the last value tried.

    Full statement of the property ("the last value tried if the search budget runs out"):
      forall acc gu n L, (forall i, i < S n -> acc (geo L gu i) = false) ->
        fst (fst (ls_loop acc gu (S n) L 0)) = geo L gu n.
    The faithful model returns geo L gu (S n) (theorem ls_exhausted): the loop multiplies L
    after the last rejected candidate and never evaluates a candidate for the value it
    returns.  For RobustLineSearchStepSize the Z handed back (and Tk) belong to the last L
    tried, not to the returned L, and Zrb is updated with a mixture of the two.
    Properties/C16.v states the accepted case in full and the exhausted case as the code
    behaves. *)
From Coq Require Import Bool Arith QArith Qcanon.
From SV Require Import Base.Num C16.XR C16.StepSize C16.Exec.

Theorem ls_exhaustion_refuted :
  exists (acc : Qc -> bool) (gu L : Qc) (n : nat),
    (forall i, (i < S n)%nat -> acc (geo L gu i) = false) /\
    keqb (fst (fst (ls_loop acc gu (S n) L 0))) (geo L gu n) = false.
Proof. exists (fun _ => false), (q 2 1), (q 1 1), 0%nat. split; [reflexivity|]. vm_compute. reflexivity. Qed.

(** robust variant: "the Z handed back is the update computed with the returned L".
    Vectors are instantiated by the L they were computed with (x_step(y, L) := L). *)
Theorem rl_candidate_refuted :
  exists (gd gu pgmL Tk : Qc) (maxiter : nat) o,
    rl_update (K:=Qc) Qc (fun a _ => a) (fun a _ => a) (fun _ v => v) (fun _ L => L)
              (fun _ => 1%Qc) (fun _ _ _ => 0%Qc) (fun _ => 1%Qc) gd gu 0%Qc 0%Qc Tk maxiter pgmL = Some o /\
    keqb (rl_Z _ o) (rl_L _ o) = false /\ rl_accepted _ o = false.
Proof.
  exists (q 1 1), (q 2 1), (q 1 1), (q 0 1), 1%nat.
  eexists. split; [vm_compute; reflexivity|]. vm_compute. auto.
Qed.
