(** FINDING (C17): PDHG.estimate_parameters multiplies by the safety factor instead of dividing.

    Documented: tau sigma < ||C||^-2, "factor: safety factor with which to multiply ||C||^-2 to
    ensure strict inequality compliance" (default 1.01).  Full statement of the property:
      forall ratio est c, 0 < ratio -> 0 < est -> est <= c ->
        let (tau, sigma) := pdhg_est sqrt (Some 1.01) ratio est in tau sigma c^2 < 1.
    The faithful model gives tau sigma est^2 = factor = 1.01 (theorem pdhg_product), so the
    statement fails -- for every input (pdhg_default_wrong_side); Properties/C17.v states the
    equivalence `< 1 <-> factor < 1` instead.  The witness is replayed on the real code by
    vf/props/C17.py. *)
From Coq Require Import Reals Lra QArith Qcanon.
From SV Require Import Base.Num C17.Estimators C17.Exec.

Theorem pdhg_documented_inequality_refuted :
  exists ratio est c : R, (0 < ratio /\ 0 < est /\ est <= c)%R /\
    let '(tau, sigma) := pdhg_est sqrt (Some (101 / 100)%R) ratio est in
    ~ (tau * sigma * (c * c) < 1)%R.
Proof.
  exists 1%R, 1%R, 1%R. split; [lra|].
  pose proof (pdhg_default_wrong_side 1 1 1 ltac:(lra) ltac:(lra) ltac:(lra)) as P.
  destruct (pdhg_est sqrt (Some (101 / 100)%R) 1%R 1%R) as [tau sigma]. lra.
Qed.

(** the same by computation on the square-root-free form: tau^2 ratio est^2 = 101/100 > 1 *)
Theorem pdhg_documented_inequality_refuted_Qc :
  kltb 1%Qc (pdhg_tau2 (Some (q 101 100)) (q 2 1) (q 3 1) * q 2 1 * (q 3 1 * q 3 1))%Qc = true.
Proof. vm_compute. reflexivity. Qed.
