(** Finding (C18): on the keyword table generated from the unchanged scico/solver.py the
    unrestricted statement "no accepted keyword is dropped" is false: minimize accepts
    hess, hessp, bounds, constraints, tol, callback and never hands them to SciPy.
    When this file stops compiling the finding no longer reproduces (delete it and drop the
    premise [is_known e = false] of C18_no_keyword_dropped). *)
From Coq Require Import List Bool String.
From SV Require Import C18.KwTable.
From SVGen Require Import C18_kw.
Import ListNotations.
Open Scope string_scope.

Theorem C18_no_keyword_dropped_refuted :
  ~ (forall e, In e kw_table -> kw_disp e <> Dropped).
Proof.
  intros H. apply (H (mk_kw "minimize" "bounds" Dropped)); [|reflexivity].
  vm_compute. tauto.
Qed.

Theorem C18_dropped_keywords_are_exactly_the_known_ones :
  map (fun e => (kw_fun e, kw_name e))
      (filter (fun e => match kw_disp e with Dropped => true | _ => false end) kw_table)
  = [("minimize", "hess"); ("minimize", "hessp"); ("minimize", "bounds");
     ("minimize", "constraints"); ("minimize", "tol"); ("minimize", "callback")].
Proof. vm_compute. reflexivity. Qed.
