(** C01 -- adjoint identity <A x, y> = <x, A^H y> for every linear operator. *)
From Coq Require Import List Bool QArith Qcanon Reals.
From SV Require Import Base.InnerSpace LinAlg.Mat LinAlg.RQ LinAlg.CQ LinAlg.RelCheck LinAlg.AdjCalc LinAlg.AdjStack LinAlg.CInst LinAlg.MExpr.
Import ListNotations.

(** (1) Matrix of the adjoint = transpose of the matrix of the operator (realified spaces: this is
    the conjugate transpose for complex operators and the Re<.,.> adjoint for real-to-complex ones)
    => the adjoint identity holds for ALL x, y.  The hypothesis is what the harness evaluates by
    vm_compute on the matrices extracted from the implementation at each configuration. *)
Theorem C01_matrix_relation_gives_adjoint_identity :
  forall m n sr sc M N,
    rel_ok (0, m, n, sr, sc, None, M, N)%nat = true ->
    forall x y, length x = n -> length y = m -> r_dot (r_mv M x) y = r_dot x (r_mv N y).
Proof. exact rel_ok_adjoint_identity. Qed.
Print Assumptions C01_matrix_relation_gives_adjoint_identity.

(** (2) Sesquilinear form: for every commutative ring with involution, <M x, y> = <x, M^H y>. *)
Theorem C01_conjugate_transpose_is_adjoint :
  forall (K : Type) (r0 r1 : K) (radd rmul rsub : K -> K -> K) (ropp : K -> K),
    ring_theory r0 r1 radd rmul rsub ropp eq ->
  forall cj : K -> K,
    (forall a b, cj (radd a b) = radd (cj a) (cj b)) ->
    (forall a b, cj (rmul a b) = rmul (cj a) (cj b)) ->
    (forall a, cj (cj a) = a) -> cj r0 = r0 ->
  forall m n (M : mat K) x y, wf K m n M -> length x = n -> length y = m ->
    cdot K r0 radd rmul cj (mv K r0 radd rmul M x) y =
    cdot K r0 radd rmul cj x (mv K r0 radd rmul (mH K cj n M) y).
Proof. exact cdot_mv_adjoint. Qed.
Print Assumptions C01_conjugate_transpose_is_adjoint.

(** (3) The closures created by + - scalar* / @ .T .H .conj() .gram_op (scico/linop/_linop.py)
    preserve "linear, complex-linear, adjoint pair"; hence every expression tree over good leaves
    (any depth, any mix) satisfies the adjoint identity for all x, y. *)
Theorem C01_expression_trees_have_true_adjoints :
  forall X Y (e : lexpr X Y), leaves_good e ->
    forall (x : @E (@csp X)) (y : @E (@csp Y)), ip (fwd (denote e) x) y = ip x (adj (denote e) y).
Proof. exact expr_adjoint_identity. Qed.
Print Assumptions C01_expression_trees_have_true_adjoints.

Theorem C01_combinators_preserve_adjointness :
  (forall X Y (A B : Op X Y), Good A -> Good B -> Good (op_add A B)) /\
  (forall X Y (A B : Op X Y), Good A -> Good B -> Good (op_sub A B)) /\
  (forall X Y a b (A : Op X Y), Good A -> Good (op_scale a b A)) /\
  (forall X Y Z (A : Op Y Z) (B : Op X Y), Good A -> Good B -> Good (op_comp A B)) /\
  (forall X Y (A : Op X Y), Good A -> Good (op_H A)) /\
  (forall X Y (A : Op X Y), Good A -> Good (op_T A)) /\
  (forall X Y (A : Op X Y), Good A -> Good (op_conj A)) /\
  (forall X Y (A : Op X Y), Good A -> Good (op_gram A)).
Proof.
  refine (conj _ (conj _ (conj _ (conj _ (conj _ (conj _ (conj _ _))))))).
  - intros; now apply good_add.
  - intros; now apply good_sub.
  - intros; now apply good_scale.
  - intros; now apply good_comp.
  - intros; now apply good_H.
  - intros; now apply good_T.
  - intros; now apply good_conj.
  - intros; now apply good_gram.
Qed.
Print Assumptions C01_combinators_preserve_adjointness.

(** (3b) stacks: the hand-written adjoints of VerticalStack (sum of the block adjoints) and of
    DiagonalStack / DiagonalReplicated (block-wise adjoints) are true adjoints on the product space *)
Theorem C01_stacks_have_true_adjoints :
  (forall (X Y1 Y2 : CSpace) (A : Op X Y1) (B : Op X Y2), Good A -> Good B -> Good (op_vstack A B)) /\
  (forall (X1 X2 Y1 Y2 : CSpace) (A : Op X1 Y1) (B : Op X2 Y2), Good A -> Good B -> Good (op_dstack A B)) /\
  (forall (X Y : CSpace) (A : Op X Y), Good A -> Good (op_dstack A A)).
Proof.
  refine (conj _ (conj _ _)).
  - intros; now apply good_vstack.
  - intros; now apply good_dstack.
  - intros; now apply good_replicated.
Qed.
Print Assumptions C01_stacks_have_true_adjoints.

(** (4) for real operators (commuting with conjugation) transpose and adjoint coincide *)
Theorem C01_real_transpose_is_adjoint :
  forall X Y (A : Op X Y), (forall y, adj A (Cj y) = Cj (adj A y)) ->
    forall y, fwd (op_T A) y = fwd (op_H A) y.
Proof. exact @T_eq_H_real. Qed.
Print Assumptions C01_real_transpose_is_adjoint.

(** (5) hand-written adjoint of a diagonal operator: multiplication by the conjugate *)
Theorem C01_diagonal_adjoint :
  forall (K : Type) (r0 r1 : K) (radd rmul rsub : K -> K -> K) (ropp : K -> K),
    ring_theory r0 r1 radd rmul rsub ropp eq ->
  forall cj : K -> K, (forall a b, cj (rmul a b) = rmul (cj a) (cj b)) -> (forall a, cj (cj a) = a) ->
  forall d x y, cdot K r0 radd rmul cj (vmul K rmul d x) y = cdot K r0 radd rmul cj x (vmul K rmul (vconj K cj d) y).
Proof. exact diag_adjoint. Qed.
Print Assumptions C01_diagonal_adjoint.

(** non-vacuity *)
Example C01_good_leaf_exists : Good (mulc 1 2).
Proof. apply mulc_good. Qed.
Example C01_matrix_example :
  rel_ok (0%nat, 2%nat, 3%nat, 2%nat, 3%nat, None,
          [[qc 1; qc 2; qc 0]; [qc (-1); qc 0; qc (1#2)]],
          [[qc 1; qc (-1)]; [qc 2; qc 0]; [qc 0; qc (1#2)]]) = true.
Proof. vm_compute. reflexivity. Qed.

(** ** Tie to the source.  The closure pairs that scico/linop/_linop.py builds (modules
    SVGen.C05_Linop, C05_LinopComp, C05_LinopNeg, regenerated by tools/py2coq.py on every run),
    read at abstract complex inner-product spaces, are the combinators of LinAlg/AdjCalc.v; hence
    every generated adj_fn is the adjoint of the generated eval_fn (and both closures are linear
    and complex-linear) whenever the operands' are: + - scalar * and /, unary -, .T (both dtype
    branches), .H, .conj(), gram_op, composition. *)
From Coq Require Import List Bool Reals.
From SV Require Import Base.Num C11.Overload LinAlg.GenSig LinAlg.Mat LinAlg.MExpr Base.InnerSpace LinAlg.AdjCalc LinAlg.Gen.
From SVGen Require C05_Linop C05_LinopComp C05_LinopNeg.

Theorem C01_gen_adjoint_closures :
  forall (X Y Z : CSpace) (A B : Op X Y) (C : Op Y Z), @Good X Y A -> @Good X Y B -> @Good Y Z C -> @Good X Y (@to_op X Y (@C05_Linop.__add___gen (R * R) (@E (@csp X)) (@E (@csp Y)) (CLin X) (CLin Y) (@of_op X Y A) (@of_op X Y B))) /\ @Good X Y (@to_op X Y (@C05_Linop.__sub___gen (R * R) (@E (@csp X)) (@E (@csp Y)) (CLin X) (CLin Y) (@of_op X Y A) (@of_op X Y B))) /\ (forall a b : R, @Good X Y (@to_op X Y (@C05_Linop.__mul___gen (R * R) (@E (@csp X)) (@E (@csp Y)) CSc (CLin X) (CLin Y) (@of_op X Y A) (a, b))) /\ @Good X Y (@to_op X Y (@C05_Linop.__rmul___gen (R * R) (@E (@csp X)) (@E (@csp Y)) CSc (CLin X) (CLin Y) (@of_op X Y A) (a, b)))) /\ (forall a b : R, a * a + b * b <> 0 -> @Good X Y (@to_op X Y (@C05_Linop.__truediv___gen (R * R) (@E (@csp X)) (@E (@csp Y)) CSc (CLin X) (CLin Y) (@of_op X Y A) (a, b)))) /\ @Good X Y (@to_op X Y (@C05_LinopNeg.__neg___gen (R * R) (@E (@csp X)) (@E (@csp Y)) CSc (CLin X) (CLin Y) (@of_op X Y A))) /\ (forall cplx : bool, @Good Y X (@to_op Y X (@C05_Linop.T_gen (R * R) (@E (@csp X)) (@E (@csp Y)) (CLin X) (CLin Y) cplx (@of_op X Y A)))) /\ @Good Y X (@to_op Y X (@C05_Linop.H_gen (@E (@csp X)) (@E (@csp Y)) (@of_op X Y A))) /\ @Good X Y (@to_op X Y (@C05_Linop.conj_gen (R * R) (@E (@csp X)) (@E (@csp Y)) (CLin X) (CLin Y) (@of_op X Y A))) /\ @Good X X (@to_op X X (@C05_Linop.gram_op_gen (@E (@csp X)) (@E (@csp Y)) (@of_op X Y A))) /\ (forall jit : bool, @Good X Z (@to_op X Z (@C05_LinopComp.compose_gen (@E (@csp X)) (@E (@csp Y)) (@E (@csp Z)) (@of_op Y Z C) (@of_op X Y A) jit))).
Proof. exact (@Gen.generated_closures_good). Qed.
Print Assumptions C01_gen_adjoint_closures.

(** ** Tie to the source, convolution family: the EXPLICIT adjoint closures that Convolve and
    ConvolveByX pass to their constructor in + - scalar * / (modules SVGen.C05_Conv, C05_ConvX)
    are, for every signature and all operands, the adjoint closures of the generic
    LinearOperator construction (whose adjointness is C01_gen_adjoint_closures). *)
From SV Require Import Base.Num C11.Overload LinAlg.GenSig LinAlg.GenConv.
From SVGen Require C05_Linop C05_Conv C05_ConvX C05_Circ.

Theorem C01_gen_convolve_adjoint_closures :
  forall (Sc Hk X Y : Type) (SS : ScSig Sc) (DK : DiagSig Sc Hk) (LX : LinSig Sc X) (LY : LinSig Sc Y) (conv : Hk -> X -> Y) (A B : kop Hk X Y) (c : Sc), @k_adj Hk X Y (@C05_Conv.__add___gen Sc Hk X Y DK LX A B) = @l_adj X Y (@C05_Linop.__add___gen Sc X Y LX LY (@opk Hk X Y conv A) (@opk Hk X Y conv B)) /\ @k_adj Hk X Y (@C05_Conv.__sub___gen Sc Hk X Y DK LX A B) = @l_adj X Y (@C05_Linop.__sub___gen Sc X Y LX LY (@opk Hk X Y conv A) (@opk Hk X Y conv B)) /\ @k_adj Hk X Y (@C05_Conv.__mul___gen Sc Hk X Y SS DK LX A c) = @l_adj X Y (@C05_Linop.__mul___gen Sc X Y SS LX LY (@opk Hk X Y conv A) c) /\ @k_adj Hk X Y (@C05_Conv.__truediv___gen Sc Hk X Y SS DK LX A c) = @l_adj X Y (@C05_Linop.__truediv___gen Sc X Y SS LX LY (@opk Hk X Y conv A) c).
Proof. exact (@GenConv.conv_adjoint_closures_are_generic). Qed.
Print Assumptions C01_gen_convolve_adjoint_closures.

Theorem C01_gen_convolve_by_x_adjoint_closures :
  forall (Sc Hk X Y : Type) (SS : ScSig Sc) (DK : DiagSig Sc Hk) (LX : LinSig Sc X) (LY : LinSig Sc Y) (conv : Hk -> X -> Y) (A B : kop Hk X Y) (c : Sc), @k_adj Hk X Y (@C05_ConvX.__add___gen Sc Hk X Y DK LX A B) = @l_adj X Y (@C05_Linop.__add___gen Sc X Y LX LY (@opk Hk X Y conv A) (@opk Hk X Y conv B)) /\ @k_adj Hk X Y (@C05_ConvX.__sub___gen Sc Hk X Y DK LX A B) = @l_adj X Y (@C05_Linop.__sub___gen Sc X Y LX LY (@opk Hk X Y conv A) (@opk Hk X Y conv B)) /\ @k_adj Hk X Y (@C05_ConvX.__mul___gen Sc Hk X Y SS DK LX A c) = @l_adj X Y (@C05_Linop.__mul___gen Sc X Y SS LX LY (@opk Hk X Y conv A) c) /\ @k_adj Hk X Y (@C05_ConvX.__truediv___gen Sc Hk X Y SS DK LX A c) = @l_adj X Y (@C05_Linop.__truediv___gen Sc X Y SS LX LY (@opk Hk X Y conv A) c).
Proof. exact (@GenConv.convx_adjoint_closures_are_generic). Qed.
Print Assumptions C01_gen_convolve_by_x_adjoint_closures.
