(** C01 -- adjoint identity <A x, y> = <x, A^H y> for every linear operator. *)
From Coq Require Import List Bool QArith Qcanon Reals.
From SV Require Import Base.InnerSpace LinAlg.Mat LinAlg.RQ LinAlg.CQ LinAlg.RelCheck LinAlg.AdjCalc LinAlg.AdjStack LinAlg.CInst LinAlg.MExpr.
Import ListNotations.

(** (1) Matrix of the adjoint = transpose of the matrix of the operator (realified spaces: this is
    the conjugate transpose for complex operators and the Re<.,.> adjoint for real-to-complex ones)
    => the adjoint identity holds for ALL x, y.  The hypothesis is what the harness evaluates by
    vm_compute on the matrices extracted from the implementation at each configuration. *)
Theorem C01_matrix_relation_gives_adjoint_identity :
  forall m n sr sc M N,
    rel_ok (0, m, n, sr, sc, None, M, N)%nat = true ->
    forall x y, length x = n -> length y = m -> r_dot (r_mv M x) y = r_dot x (r_mv N y).
Proof. exact rel_ok_adjoint_identity. Qed.
Print Assumptions C01_matrix_relation_gives_adjoint_identity.

(** (2) Sesquilinear form: for every commutative ring with involution, <M x, y> = <x, M^H y>. *)
Theorem C01_conjugate_transpose_is_adjoint :
  forall (K : Type) (r0 r1 : K) (radd rmul rsub : K -> K -> K) (ropp : K -> K),
    ring_theory r0 r1 radd rmul rsub ropp eq ->
  forall cj : K -> K,
    (forall a b, cj (radd a b) = radd (cj a) (cj b)) ->
    (forall a b, cj (rmul a b) = rmul (cj a) (cj b)) ->
    (forall a, cj (cj a) = a) -> cj r0 = r0 ->
  forall m n (M : mat K) x y, wf K m n M -> length x = n -> length y = m ->
    cdot K r0 radd rmul cj (mv K r0 radd rmul M x) y =
    cdot K r0 radd rmul cj x (mv K r0 radd rmul (mH K cj n M) y).
Proof. exact cdot_mv_adjoint. Qed.
Print Assumptions C01_conjugate_transpose_is_adjoint.

(** (3) The closures created by + - scalar* / @ .T .H .conj() .gram_op (scico/linop/_linop.py)
    preserve "linear, complex-linear, adjoint pair"; hence every expression tree over good leaves
    (any depth, any mix) satisfies the adjoint identity for all x, y. *)
Theorem C01_expression_trees_have_true_adjoints :
  forall X Y (e : lexpr X Y), leaves_good e ->
    forall (x : @E (@csp X)) (y : @E (@csp Y)), ip (fwd (denote e) x) y = ip x (adj (denote e) y).
Proof. exact expr_adjoint_identity. Qed.
Print Assumptions C01_expression_trees_have_true_adjoints.

Theorem C01_combinators_preserve_adjointness :
  (forall X Y (A B : Op X Y), Good A -> Good B -> Good (op_add A B)) /\
  (forall X Y (A B : Op X Y), Good A -> Good B -> Good (op_sub A B)) /\
  (forall X Y a b (A : Op X Y), Good A -> Good (op_scale a b A)) /\
  (forall X Y Z (A : Op Y Z) (B : Op X Y), Good A -> Good B -> Good (op_comp A B)) /\
  (forall X Y (A : Op X Y), Good A -> Good (op_H A)) /\
  (forall X Y (A : Op X Y), Good A -> Good (op_T A)) /\
  (forall X Y (A : Op X Y), Good A -> Good (op_conj A)) /\
  (forall X Y (A : Op X Y), Good A -> Good (op_gram A)).
Proof.
  refine (conj _ (conj _ (conj _ (conj _ (conj _ (conj _ (conj _ _))))))).
  - intros; now apply good_add.
  - intros; now apply good_sub.
  - intros; now apply good_scale.
  - intros; now apply good_comp.
  - intros; now apply good_H.
  - intros; now apply good_T.
  - intros; now apply good_conj.
  - intros; now apply good_gram.
Qed.
Print Assumptions C01_combinators_preserve_adjointness.

(** (3b) stacks: the hand-written adjoints of VerticalStack (sum of the block adjoints) and of
    DiagonalStack / DiagonalReplicated (block-wise adjoints) are true adjoints on the product space *)
Theorem C01_stacks_have_true_adjoints :
  (forall (X Y1 Y2 : CSpace) (A : Op X Y1) (B : Op X Y2), Good A -> Good B -> Good (op_vstack A B)) /\
  (forall (X1 X2 Y1 Y2 : CSpace) (A : Op X1 Y1) (B : Op X2 Y2), Good A -> Good B -> Good (op_dstack A B)) /\
  (forall (X Y : CSpace) (A : Op X Y), Good A -> Good (op_dstack A A)).
Proof.
  refine (conj _ (conj _ _)).
  - intros; now apply good_vstack.
  - intros; now apply good_dstack.
  - intros; now apply good_replicated.
Qed.
Print Assumptions C01_stacks_have_true_adjoints.

(** (4) for real operators (commuting with conjugation) transpose and adjoint coincide *)
Theorem C01_real_transpose_is_adjoint :
  forall X Y (A : Op X Y), (forall y, adj A (Cj y) = Cj (adj A y)) ->
    forall y, fwd (op_T A) y = fwd (op_H A) y.
Proof. exact @T_eq_H_real. Qed.
Print Assumptions C01_real_transpose_is_adjoint.

(** (5) hand-written adjoint of a diagonal operator: multiplication by the conjugate *)
Theorem C01_diagonal_adjoint :
  forall (K : Type) (r0 r1 : K) (radd rmul rsub : K -> K -> K) (ropp : K -> K),
    ring_theory r0 r1 radd rmul rsub ropp eq ->
  forall cj : K -> K, (forall a b, cj (rmul a b) = rmul (cj a) (cj b)) -> (forall a, cj (cj a) = a) ->
  forall d x y, cdot K r0 radd rmul cj (vmul K rmul d x) y = cdot K r0 radd rmul cj x (vmul K rmul (vconj K cj d) y).
Proof. exact diag_adjoint. Qed.
Print Assumptions C01_diagonal_adjoint.

(** non-vacuity *)
Example C01_good_leaf_exists : Good (mulc 1 2).
Proof. apply mulc_good. Qed.
Example C01_matrix_example :
  rel_ok (0%nat, 2%nat, 3%nat, 2%nat, 3%nat, None,
          [[qc 1; qc 2; qc 0]; [qc (-1); qc 0; qc (1#2)]],
          [[qc 1; qc (-1)]; [qc 2; qc 0]; [qc 0; qc (1#2)]]) = true.
Proof. vm_compute. reflexivity. Qed.
