(** C01 -- adjoint identity.  (extended below as LinAlg/AdjCalc.v grows) *)
From Coq Require Import List Bool QArith Qcanon.
From SV Require Import LinAlg.Mat LinAlg.RQ LinAlg.RelCheck.

(** If the matrix extracted from the adjoint is the transpose of the matrix extracted from the
    operator (realified spaces, so this is the conjugate transpose for complex operators and the
    Re<.,.> adjoint for real-to-complex ones), the adjoint identity holds for ALL x, y. *)
Theorem C01_matrix_relation_gives_adjoint_identity :
  forall m n sr sc M N,
    rel_ok (0, m, n, sr, sc, None, M, N)%nat = true ->
    forall x y, length x = n -> length y = m -> r_dot (r_mv M x) y = r_dot x (r_mv N y).
Proof. exact rel_ok_adjoint_identity. Qed.
Print Assumptions C01_matrix_relation_gives_adjoint_identity.
