(** C02 -- proximal operators return the minimiser of lam*f(x) + 1/2||x - v||^2.
    Only statements; each closed by [exact] of a lemma of coq/theories/C02 (or Prox/ProxTheory).
    [IsProx dom f lam v p]: p is in dom f and no x in dom f has a smaller objective.
    The prox bodies are the functions of [C02.Models] (transcribed from the code, generic over
    [Num K]); the theorems are about their R instance, the harness runs their Qc instance, the
    transfer theorems identify the two. *)
From Coq Require Import Reals Lra QArith Qcanon List.
From SV Require Import Base.Num Base.InnerSpace Prox.ProxTheory
  C02.Basics C02.Models C02.Norms C02.Sets C02.Losses C02.Convex.
Open Scope R_scope.

(** ** General consequences for convex f (any inner-product space: R^n, C^n, block arrays) *)
Theorem C02_convex_prox_iff_subgradient_certificate :
  forall (S : InnerSpace) (dom : E -> Prop) (f : E -> R) lam v p, 0 < lam -> Convex dom f ->
    (IsProx dom f lam v p <-> SubCert dom f lam v p).
Proof. exact @prox_iff_subcert. Qed.
Print Assumptions C02_convex_prox_iff_subgradient_certificate.

Theorem C02_convex_prox_unique :
  forall (S : InnerSpace) (dom : E -> Prop) (f : E -> R) lam v p1 p2, 0 < lam -> Convex dom f ->
    IsProx dom f lam v p1 -> IsProx dom f lam v p2 -> p1 = p2.
Proof. exact @prox_unique. Qed.
Print Assumptions C02_convex_prox_unique.

Theorem C02_convex_prox_firmly_nonexpansive :
  forall (S : InnerSpace) (dom : E -> Prop) (f : E -> R) lam v1 v2 p1 p2, 0 < lam -> Convex dom f ->
    IsProx dom f lam v1 p1 -> IsProx dom f lam v2 p2 ->
    nsq (vsub p1 p2) <= ip (vsub p1 p2) (vsub v1 v2).
Proof. exact @prox_firmly_nonexpansive. Qed.
Print Assumptions C02_convex_prox_firmly_nonexpansive.

(** ** Norms *)
(** block soft threshold on any inner-product space; d is any direction that equals v/||v||
    when v <> 0 (sign(v), exp(1j*angle(v)), no_nan_divide(v, ||v||)): v = 0 included *)
Theorem C02_block_soft_threshold :
  forall (S : InnerSpace) (lam : R) (v d : E), 0 < lam ->
    (norm v <> 0 -> d = vscale (/ norm v) v) ->
    IsProx Tr norm lam v (vscale (relu_code (norm v - lam)) d).
Proof. exact @gsoft_prox. Qed.
Print Assumptions C02_block_soft_threshold.

Theorem C02_L1Norm_real_entry :
  forall lam v : R, 0 < lam -> @IsProx RSpace Tr Rabs lam v (l1_code lam v).
Proof. exact l1_code_prox. Qed.
Print Assumptions C02_L1Norm_real_entry.

Theorem C02_L1Norm_complex_entry :
  forall (lam : R) (v : R * R), 0 < lam ->
    @IsProx CSpace Tr (@norm CSpace) lam v (cl1_code lam (@norm CSpace v) v).
Proof. exact cl1_code_prox. Qed.
Print Assumptions C02_L1Norm_complex_entry.

Theorem C02_L1Norm_real_vector :
  forall (lam : R) (l : list R), 0 < lam ->
    @IsProx (Pow RSpace (length l)) (pall RSpace _ (fun _ => Tr)) (psum RSpace _ (fun _ => Rabs)) lam
      (to_pow RSpace _ l) (to_pow RSpace _ (map (l1_code lam) l)).
Proof. exact l1_vec_prox. Qed.
Print Assumptions C02_L1Norm_real_vector.

Theorem C02_L1Norm_complex_vector :
  forall (lam : R) (l : list (R * R)), 0 < lam ->
    @IsProx (Pow CSpace (length l)) (pall CSpace _ (fun _ => Tr)) (psum CSpace _ (fun _ => @norm CSpace)) lam
      (to_pow CSpace _ l) (to_pow CSpace _ (map (fun v => cl1_code lam (@norm CSpace v) v) l)).
Proof. exact cl1_vec_prox. Qed.
Print Assumptions C02_L1Norm_complex_vector.

Theorem C02_L2Norm :
  forall (S : InnerSpace) (lam : R) (v : E), 0 < lam ->
    IsProx Tr norm lam v (vscale (l2_fac lam (norm v)) v).
Proof. exact @l2_prox. Qed.
Print Assumptions C02_L2Norm.

Theorem C02_L2Norm_firmly_nonexpansive :
  forall (S : InnerSpace) lam (v1 v2 : E), 0 < lam ->
    let p1 := vscale (l2_fac lam (norm v1)) v1 in
    let p2 := vscale (l2_fac lam (norm v2)) v2 in
    nsq (vsub p1 p2) <= ip (vsub p1 p2) (vsub v1 v2).
Proof. exact @l2_prox_firm. Qed.
Print Assumptions C02_L2Norm_firmly_nonexpansive.

Theorem C02_L2Norm_subgradient_inequality :
  forall (S : InnerSpace) lam (v z : E), 0 < lam ->
    let p := vscale (l2_fac lam (norm v)) v in
    lam * norm p + ip (vsub v p) (vsub z p) <= lam * norm z.
Proof. exact @l2_prox_subgradient. Qed.
Print Assumptions C02_L2Norm_subgradient_inequality.

Theorem C02_L21Norm_one_group :
  forall (S : InnerSpace) (lam : R) (v : E), 0 < lam ->
    IsProx Tr norm lam v (vscale (l21_fac lam (norm v)) v).
Proof. exact @l21_prox. Qed.
Print Assumptions C02_L21Norm_one_group.

(** every l2_axis / block arrays with l2_axis = None: the groups are the components of S^n *)
Theorem C02_L21Norm_all_groups :
  forall (S : InnerSpace) (lam : R) (l : list E), 0 < lam ->
    IsProx (pall S (length l) (fun _ => Tr)) (psum S (length l) (fun _ => norm)) lam
      (to_pow S (length l) l)
      (to_pow S (length l) (map (fun v => vscale (l21_fac lam (norm v)) v) l)).
Proof. exact l21_groups_prox. Qed.
Print Assumptions C02_L21Norm_all_groups.

Theorem C02_SquaredL2Norm :
  forall (S : InnerSpace) (lam : R) (v : E), 0 < lam ->
    IsProx Tr nsq lam v (vscale (/ (1 + 2 * lam)) v).
Proof. exact @sql2_prox. Qed.
Print Assumptions C02_SquaredL2Norm.

Theorem C02_HuberNorm_nonseparable :
  forall (S : InnerSpace) (delta lam : R) (v : E), 0 < delta -> 0 < lam ->
    IsProx Tr (huber delta) lam v (vscale (huber_fac delta lam (norm v)) v).
Proof. exact @huber_prox. Qed.
Print Assumptions C02_HuberNorm_nonseparable.

Theorem C02_HuberNorm_separable_vector :
  forall (delta lam : R) (l : list R), 0 < delta -> 0 < lam ->
    @IsProx (Pow RSpace (length l)) (pall RSpace _ (fun _ => Tr))
       (psum RSpace _ (fun _ => @huber RSpace delta)) lam
       (to_pow RSpace _ l) (to_pow RSpace _ (map (fun v => huber_code delta lam (kabs v) v) l)).
Proof. exact huber_sep_vec_prox. Qed.
Print Assumptions C02_HuberNorm_separable_vector.

(** l0: the global minimiser keeps v iff ||v||^2 >= 2 lam (non-convex; direct comparison) *)
Theorem C02_L0Norm_true_minimiser :
  forall (S : InnerSpace) (lam : R) (v : E), 0 < lam -> IsProx Tr l0f lam v (hard_spec lam v).
Proof. exact @l0_spec_prox. Qed.
Print Assumptions C02_L0Norm_true_minimiser.

(** FULL STATEMENT for the code (threshold |v| >= lam), refuted on the unchanged tree
    (Findings/C02_L0Norm.v):  forall lam v, 0 < lam -> IsProx Tr l0f lam v (hard_code lam v).
    Restricted to the region where it holds: *)
Theorem C02_L0Norm_code_restricted :
  forall (S : InnerSpace) (lam : R) (v : E), 0 < lam ->
    ~ (lam <= norm v /\ nsq v < 2 * lam) -> ~ (norm v < lam /\ 2 * lam < nsq v) ->
    IsProx Tr l0f lam v (hard_code lam v).
Proof. exact @l0_code_prox_restricted. Qed.
Print Assumptions C02_L0Norm_code_restricted.

Theorem C02_L0Norm_vector :
  forall (S : InnerSpace) (lam : R) (l : list E), 0 < lam ->
    IsProx (pall S (length l) (fun _ => Tr)) (psum S (length l) (fun _ => l0f)) lam
      (to_pow S (length l) l) (to_pow S (length l) (map (hard_spec lam) l)).
Proof. exact l0_vec_prox. Qed.
Print Assumptions C02_L0Norm_vector.

(** ** Indicators, zero functional *)
Theorem C02_NonNegativeIndicator_vector :
  forall (lam : R) (l : list R),
    @IsProx (Pow RSpace (length l)) (pall RSpace _ (fun _ x => 0 <= x)) (psum RSpace _ (fun _ _ => 0)) lam
      (to_pow RSpace _ l) (to_pow RSpace _ (map nonneg_code l)).
Proof. exact nonneg_vec_prox. Qed.
Print Assumptions C02_NonNegativeIndicator_vector.

(** the projection onto the ball (v inside / on / outside) *)
Theorem C02_L2Ball_projection :
  forall (S : InnerSpace) (r lam : R) (v : E), 0 <= r ->
    IsProx (inball r) (fun _ => 0) lam v (ball_proj r v).
Proof. exact @ball_spec_prox. Qed.
Print Assumptions C02_L2Ball_projection.

(** L2BallIndicator.prox as the code computes it,
    where(nrm <= radius, 1.0, radius / where(nrm > 0, nrm, 1.0)) * v, is the projection for
    ALL v (inside, on, outside the sphere, v = 0) and every radius >= 0 *)
Theorem C02_L2BallIndicator_code :
  forall (S : InnerSpace) (r lam : R) (v : E), 0 <= r ->
    IsProx (inball r) (fun _ => 0) lam v (vscale (ball_fac r (norm v)) v).
Proof. exact @ball_code_prox. Qed.
Print Assumptions C02_L2BallIndicator_code.

Theorem C02_transfer_ball : forall r nv v : Qc,
  inj (ball_code r nv v) = ball_code (inj r) (inj nv) (inj v).
Proof. exact ball_transfer. Qed.
Print Assumptions C02_transfer_ball.

Theorem C02_ZeroFunctional :
  forall (S : InnerSpace) (lam : R) (v : E), IsProx Tr (fun _ => 0) lam v v.
Proof. exact @zero_prox. Qed.
Print Assumptions C02_ZeroFunctional.

(** ** Distances to a closed convex set given its metric projection *)
Theorem C02_SetDistance :
  forall (S : InnerSpace) (C : E -> Prop) (proj : E -> E),
    (forall x, C (proj x)) ->
    (forall x c, C c -> ip (vsub x (proj x)) (vsub c (proj x)) <= 0) ->
    forall (lam : R) (v : E), 0 < lam ->
      IsProx Tr (dist proj) lam v
        (vadd (vscale (sd_th lam (dist proj v)) (proj v)) (vscale (1 - sd_th lam (dist proj v)) v)).
Proof. exact @dist_prox. Qed.
Print Assumptions C02_SetDistance.

Theorem C02_SquaredSetDistance :
  forall (S : InnerSpace) (C : E -> Prop) (proj : E -> E),
    (forall x, C (proj x)) ->
    (forall x c, C c -> ip (vsub x (proj x)) (vsub c (proj x)) <= 0) ->
    forall (lam : R) (v : E), 0 < lam ->
      IsProx Tr (sqdist proj) lam v
        (vadd (vscale (1 / (1 + lam)) v) (vscale (lam * (1 / (1 + lam))) (proj v))).
Proof. exact @sqdist_prox. Qed.
Print Assumptions C02_SquaredSetDistance.

(** ** Losses *)
Theorem C02_Loss_prox_by_translation :
  forall (S : InnerSpace) (dom : E -> Prop) (f : E -> R) (scale : R) (y : E) (lam : R) (v q : E),
    IsProx dom f (scale * lam) (vsub v y) q ->
    IsProx (fun x => dom (vsub x y)) (fun x => scale * f (vsub x y)) lam v (vadd q y).
Proof. exact @loss_translate_prox. Qed.
Print Assumptions C02_Loss_prox_by_translation.

Theorem C02_SquaredL2Loss_diagonal_real_entry :
  forall scale a w y lam v : R, 0 <= scale -> 0 <= w -> 0 <= lam ->
    @IsProx RSpace Tr (fun x => scale * sqloss_r a w y x) lam v (sql2loss_code scale a w y lam v).
Proof. exact sql2loss_code_prox. Qed.
Print Assumptions C02_SquaredL2Loss_diagonal_real_entry.

Theorem C02_SquaredL2Loss_diagonal_complex_vector :
  forall (scale lam : R) (a : nat -> R * R) (w : nat -> R) (y : nat -> R * R) (l : list (R * R)),
    0 <= scale -> 0 <= lam -> (forall i, 0 <= w i) ->
    @IsProx (Pow CSpace (length l)) (pall CSpace _ (fun _ => Tr))
       (psum CSpace _ (fun i x => scale * sqloss_c (a i) (w i) (y i) x)) lam
       (to_pow CSpace _ l)
       (to_pow CSpace _ (mapi (fun i v => csql2loss_code scale (a i) (w i) (y i) lam v) 0 l)).
Proof. exact csql2loss_vec_prox. Qed.
Print Assumptions C02_SquaredL2Loss_diagonal_complex_vector.

(** u: the unit vector the code uses as phase when v = 0 (1 in R and in C) *)
Theorem C02_SquaredL2AbsLoss_entry :
  forall (S : InnerSpace) (u : E), nsq u = 1 ->
    forall (scale w y lam : R) (v : E), 0 <= scale -> 0 <= w -> 0 <= y -> 0 <= lam ->
      IsProx Tr (fun x => scale * absf w y x) lam v
        (vscale (abs_be scale w y lam (norm v)) (dir u v)).
Proof. exact @absloss_prox. Qed.
Print Assumptions C02_SquaredL2AbsLoss_entry.

Theorem C02_SquaredL2SquaredAbsLoss_entry_given_cubic_root :
  forall (S : InnerSpace) (u : E), nsq u = 1 ->
    forall (scale w y lam : R) (v : E) (r : R), 0 <= y ->
      let al := lam * (2 * 2) * scale * w in
      0 < al -> 0 <= r ->
      cubic_res (sqabs_p al y) (sqabs_q al (norm v)) r = 0 ->
      (r = 0 -> al * y <= 1) ->
      IsProx Tr (fun x => scale * sqabsf w y x) lam v (vscale r (dir u v)).
Proof. exact @sqabsloss_prox. Qed.
Print Assumptions C02_SquaredL2SquaredAbsLoss_entry_given_cubic_root.

Theorem C02_SquaredL2SquaredAbsLoss_entry_zero_weight :
  forall (S : InnerSpace) (scale w y lam : R) (v : E), lam * (2 * 2) * scale * w = 0 ->
    IsProx Tr (fun x => scale * sqabsf w y x) lam v v.
Proof. exact @sqabsloss_prox_al0. Qed.
Print Assumptions C02_SquaredL2SquaredAbsLoss_entry_zero_weight.

(** ** Partial results (full statements in C02/Losses.v) *)
Theorem C02_NuclearNorm_spectrum_partial :
  forall lam s : R, 0 < lam ->
    @IsProx RSpace (fun x => 0 <= x) (fun x => x) lam s (svt_code lam s).
Proof. exact svt_prox_partial. Qed.
Print Assumptions C02_NuclearNorm_spectrum_partial.

Theorem C02_L1MinusL2Norm_1d_partial :
  forall beta lam v : R, 0 < lam -> 0 <= beta < 1 ->
    @IsProx RSpace Tr (fun x => Rabs x - beta * Rabs x) lam v (l1l2_code_1d beta lam v).
Proof. exact l1l2_1d_partial. Qed.
Print Assumptions C02_L1MinusL2Norm_1d_partial.

(** ** Separable extension: entry-wise / block-wise prox => prox of the separable sum *)
Theorem C02_separable_extension :
  forall (S : InnerSpace) (lam : R) (n : nat) (dom : nat -> E -> Prop) (f : nat -> E -> R)
         (g : nat -> E -> E),
    (forall i v, (i < n)%nat -> IsProx (dom i) (f i) lam v (g i v)) ->
    forall l : list E, length l = n ->
      IsProx (pall S n dom) (psum S n f) lam (to_pow S n l) (to_pow S n (mapi g 0 l)).
Proof. exact sep_vec_prox. Qed.
Print Assumptions C02_separable_extension.

(** ** Transfer: the Qc function the harness runs is the restriction of the R function *)
Theorem C02_transfer_l1 : forall lam v : Qc, inj (l1_code lam v) = l1_code (inj lam) (inj v).
Proof. exact l1_transfer. Qed.
Print Assumptions C02_transfer_l1.
Theorem C02_transfer_l2 : forall lam nv v : Qc, inj (l2_code lam nv v) = l2_code (inj lam) (inj nv) (inj v).
Proof. exact l2_transfer. Qed.
Print Assumptions C02_transfer_l2.
Theorem C02_transfer_l21 : forall lam len v : Qc, inj (l21_code lam len v) = l21_code (inj lam) (inj len) (inj v).
Proof. exact l21_transfer. Qed.
Print Assumptions C02_transfer_l21.
Theorem C02_transfer_huber : forall delta lam a v : Qc, (0 < delta)%Qc -> (0 <= lam)%Qc ->
  inj (huber_code delta lam a v) = huber_code (inj delta) (inj lam) (inj a) (inj v).
Proof. exact huber_transfer. Qed.
Print Assumptions C02_transfer_huber.
Theorem C02_transfer_l0 : forall lam v : Qc, inj (l0_code lam v) = l0_code (inj lam) (inj v).
Proof. exact l0_transfer. Qed.
Print Assumptions C02_transfer_l0.
Theorem C02_transfer_setdist : forall lam d y v : Qc, (0 < lam)%Qc ->
  inj (sd_code lam d y v) = sd_code (inj lam) (inj d) (inj y) (inj v).
Proof. exact sd_transfer. Qed.
Print Assumptions C02_transfer_setdist.
Theorem C02_transfer_sql2loss : forall scale a w y lam v : Qc,
  (0 <= scale)%Qc -> (0 <= w)%Qc -> (0 <= lam)%Qc ->
  inj (sql2loss_code scale a w y lam v)
  = sql2loss_code (inj scale) (inj a) (inj w) (inj y) (inj lam) (inj v).
Proof. exact sql2loss_transfer. Qed.
Print Assumptions C02_transfer_sql2loss.

(** ** The generic Loss unit as the code computes it: f.prox(v - y, scale*lam) + y is a prox
    of x |-> scale*f(x - y) for EVERY f with a prox (translation + scaling rule), even or not *)
Theorem C02_Loss_code_entry :
  forall (dom : R -> Prop) (f : R -> R) (fprox : R -> R -> R) (scale y lam v : R),
    0 < scale -> 0 < lam ->
    (forall l x, 0 < l -> @IsProx RSpace dom f l x (fprox l x)) ->
    @IsProx RSpace (fun x => dom (x - y)) (fun x => scale * f (x - y)) lam v
      (loss_code fprox scale y lam v).
Proof. exact loss_code_prox. Qed.
Print Assumptions C02_Loss_code_entry.

(** a non-even f: Loss(y, f = NonNegativeIndicator) is the constraint x >= y, prox max(v, y) *)
Theorem C02_Loss_over_NonNegativeIndicator_entry :
  forall scale y lam v : R, 0 < scale -> 0 < lam ->
    @IsProx RSpace (fun x => 0 <= x - y) (fun x => scale * 0) lam v
      (loss_code (fun _ => nonneg_code) scale y lam v).
Proof. exact loss_nonneg_code_prox. Qed.
Print Assumptions C02_Loss_over_NonNegativeIndicator_entry.

(** the reflected form y - f.prox(y - v, scale*lam) agrees with the code's form exactly when
    f.prox is odd (all even f) ... *)
Theorem C02_Loss_reflected_form_agrees_for_odd_prox :
  forall (fprox : R -> R -> R) (scale y lam v : R),
    (forall l x, fprox l (- x) = - fprox l x) ->
    loss_reflected_code fprox scale y lam v = loss_code fprox scale y lam v.
Proof. exact loss_reflected_odd. Qed.
Print Assumptions C02_Loss_reflected_form_agrees_for_odd_prox.

(** ... and is not a prox of scale*f(x - y) for a non-even f (witness: NonNegativeIndicator,
    y = 0, v = -1: it returns -1, outside the domain x >= y) *)
Theorem C02_Loss_reflected_form_refuted :
  exists scale y lam v : R, 0 < scale /\ 0 < lam /\
    ~ @IsProx RSpace (fun x => 0 <= x - y) (fun x => scale * 0) lam v
        (loss_reflected_code (fun _ => nonneg_code) scale y lam v).
Proof. exact loss_reflected_refuted. Qed.
Print Assumptions C02_Loss_reflected_form_refuted.

(** ** Non-vacuity *)
(** the metric-projection hypotheses are satisfiable (C = {0} in R, proj = 0) *)
Example C02_projection_hypotheses_satisfiable :
  (forall x : @E RSpace, (fun c => c = 0) ((fun _ => 0) x)) /\
  (forall x c : @E RSpace, c = 0 ->
     @ip RSpace (@vsub RSpace x 0) (@vsub RSpace c 0) <= 0).
Proof. split; [reflexivity|]. intros x c ->. unfold vsub; cbn. lra. Qed.
(** a cubic root satisfying the hypotheses exists (al = 1, y = 1, ||v|| = 1: r = 1) *)
Example C02_cubic_hypotheses_satisfiable :
  cubic_res (sqabs_p 1 1) (sqabs_q 1 1) (1 : R) = 0.
Proof. unfold cubic_res, sqabs_p, sqabs_q, nnd. rsimp. rcases; lra. Qed.
(** the executable model computes (Qc): soft threshold of 5/4 at 1/2 is 3/4 *)
Example C02_model_computes : l1_code (Q2Qc (1 # 2)) (Q2Qc (5 # 4)) = Q2Qc (3 # 4).
Proof. vm_compute. reflexivity. Qed.
(** the two Loss forms differ at Qc for a non-even f: y = 0, v = -1, scale = 2, lam = 1 *)
Example C02_Loss_forms_differ :
  loss_code (fun _ => nonneg_code) (Q2Qc 2) (Q2Qc 0) (Q2Qc 1) (Q2Qc (-1)) = Q2Qc 0 /\
  loss_reflected_code (fun _ => nonneg_code) (Q2Qc 2) (Q2Qc 0) (Q2Qc 1) (Q2Qc (-1)) = Q2Qc (-1).
Proof. vm_compute. split; reflexivity. Qed.

(** ** Tie to the source.  The left-hand sides (modules SVGen.C02_L0 ... C02_Ball) are the prox
    bodies of scico/functional/_norm.py and _indicator.py as regenerated by tools/py2coq.py on
    every run, read at one element of a real array ([Elem nv]: arrays := scalars, broadcasting
    := identity, norm(v) := nv v); the right-hand sides are the [*_code] models the theorems
    above are about.  Generic in the scalar type. *)
From SV Require Import C11.Overload C02.Gen.
From SVGen Require C02_L0 C02_L1 C02_SqL2 C02_L2 C02_Huber C02_NonNeg C02_Ball.

Theorem C02_gen_l0_prox : forall (K : Type) (NK : Num K) (nv : K -> K) (v lam : K),
  C02_L0.prox_gen (AO := Elem nv) v lam = l0_code lam v.
Proof. exact (@l0_gen_is_model). Qed.
Print Assumptions C02_gen_l0_prox.

Theorem C02_gen_l1_prox : forall (K : Type) (NK : Num K) (nv : K -> K) (v lam : K),
  C02_L1.prox_gen (AO := Elem nv) v lam = l1_code lam v.
Proof. exact (@l1_gen_is_model). Qed.
Print Assumptions C02_gen_l1_prox.

Theorem C02_gen_sql2_prox : forall (K : Type) (NK : Num K) (nv : K -> K) (v lam : K),
  C02_SqL2.prox_gen (AO := Elem nv) v lam = sql2_code lam v.
Proof. exact (@sql2_gen_is_model). Qed.
Print Assumptions C02_gen_sql2_prox.

Theorem C02_gen_l2_prox : forall (K : Type) (NK : Num K) (nv : K -> K) (v lam : K),
  C02_L2.prox_gen (AO := Elem nv) v lam = l2_code lam (nv v) v.
Proof. exact (@l2_gen_is_model). Qed.
Print Assumptions C02_gen_l2_prox.

Theorem C02_gen_huber_prox : forall (K : Type) (NK : Num K) (nv : K -> K) (delta v lam : K),
  C02_Huber._prox_sep_gen (AO := Elem nv) (C02_Huber.mk_st delta) v lam = huber_code delta lam (kabs v) v /\
  C02_Huber._prox_nonsep_gen (AO := Elem nv) (C02_Huber.mk_st delta) v lam = huber_code delta lam (nv v) v.
Proof. exact (@huber_gen_is_model). Qed.
Print Assumptions C02_gen_huber_prox.

Theorem C02_gen_nonneg_prox : forall (K : Type) (NK : Num K) (nv : K -> K) (v lam : K),
  C02_NonNeg.prox_gen (AO := Elem nv) v lam = nonneg_code v.
Proof. exact (@nonneg_gen_is_model). Qed.
Print Assumptions C02_gen_nonneg_prox.

Theorem C02_gen_ball_prox : forall (K : Type) (NK : Num K) (nv : K -> K) (r v lam : K),
  C02_Ball.prox_gen (AO := Elem nv) (C02_Ball.mk_st r) v lam = ball_code r (nv v) v.
Proof. exact (@ball_gen_is_model). Qed.
Print Assumptions C02_gen_ball_prox.
