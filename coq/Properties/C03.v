(** C03 -- optimisers keep an optimal point fixed and converge to the true minimiser.
    Only statements (printed from the lemmas of coq/theories/C03 and closed by them).  All are
    over abstract real inner-product spaces (real, complex as R^2n with Re<.,.>, block arrays),
    arbitrary operators / convex functionals with prox oracles, parameters and iteration counts. *)
From Coq Require Import Reals Lra List.
From SV Require Import Base.Num Base.InnerSpace Prox.ProxTheory C11.Overload C11.SpecBase C03.Setup.
From SV Require C11.Spec_LADMM C11.Spec_PADMM C11.Spec_NLPADMM C11.Spec_PDHG C11.Spec_PGM C11.Spec_ADMM.
From SV Require C03.Fix_LADMM C03.Fix_PADMM C03.Fix_ADMM C03.PGM C03.Lyap_ADMM.
From SVGen Require C11_Functional C11_Ladmm C11_Padmm C11_Nlpadmm C11_Pdhg C11_Pgm C11_Apgm C11_Admm.
Import ListNotations.
Open Scope R_scope.

(** LinearizedADMM: a KKT triple (zs = C xs, us/nu in dg(zs), -(1/nu) C^H us in df(xs)) is unchanged by one documented step *)
Theorem C03_ladmm_fixed_point :
  forall (SX SZ : InnerSpace) (domf : @E SX -> Prop) (f : @E SX -> R) (domg : @E SZ -> Prop) (g : @E SZ -> R) (F : Func R (@E SX)) (G : Func R (@E SZ)) (C : @E SX -> @E SZ) (CH : @E SZ -> @E SX) (vj : @E SX -> @E SZ -> @E SX) (lin : bool), @ProxOracle SX domf f F -> @ProxOracle SZ domg g G -> @Convex SX domf f -> @Convex SZ domg g -> @IsAdj SX SZ C CH -> forall mu nu : R, 0 < mu -> 0 < nu -> forall (xs : @E SX) (zs us : @E SZ), zs = C xs -> @Subgrad SZ domg g zs (@vscale SZ (/ nu) us) -> @Subgrad SX domf f xs (@vscale SX (- / nu) (CH us)) -> forall zo : @E SZ, @Spec_LADMM.step_spec R Num_R (@E SX) (VecOps_IS SX) (@E SZ) (VecOps_IS SZ) (@Fix_LADMM.s_opt SX SZ F G C CH vj lin mu nu xs zs us zo) = @Fix_LADMM.s_opt SX SZ F G C CH vj lin mu nu xs zs us zs.
Proof. exact (@Fix_LADMM.ladmm_fixed_point). Qed.
Print Assumptions C03_ladmm_fixed_point.

(** ... and by the step generated from the source (via C11) *)
Theorem C03_ladmm_fixed_point_gen :
  forall (SX SZ : InnerSpace) (domf : @E SX -> Prop) (f : @E SX -> R) (domg : @E SZ -> Prop) (g : @E SZ -> R) (F : Func R (@E SX)) (G : Func R (@E SZ)) (C : @E SX -> @E SZ) (CH : @E SZ -> @E SX) (vj : @E SX -> @E SZ -> @E SX) (lin : bool), @ProxOracle SX domf f F -> @ProxOracle SZ domg g G -> @Convex SX domf f -> @Convex SZ domg g -> @IsAdj SX SZ C CH -> forall mu nu : R, 0 < mu -> 0 < nu -> forall (xs : @E SX) (zs us : @E SZ), zs = C xs -> @Subgrad SZ domg g zs (@vscale SZ (/ nu) us) -> @Subgrad SX domf f xs (@vscale SX (- / nu) (CH us)) -> forall zo : @E SZ, @C11_Ladmm.step_gen R Num_R (@E SX) (VecOps_IS SX) (@E SZ) (VecOps_IS SZ) (@Fix_LADMM.s_opt SX SZ F G C CH vj lin mu nu xs zs us zo) = @Fix_LADMM.s_opt SX SZ F G C CH vj lin mu nu xs zs us zs.
Proof. exact (@Fix_LADMM.ladmm_fixed_point_gen). Qed.
Print Assumptions C03_ladmm_fixed_point_gen.

(** ... and by any number of generated steps *)
Theorem C03_ladmm_fixed_point_iter :
  forall (SX SZ : InnerSpace) (domf : @E SX -> Prop) (f : @E SX -> R) (domg : @E SZ -> Prop) (g : @E SZ -> R) (F : Func R (@E SX)) (G : Func R (@E SZ)) (C : @E SX -> @E SZ) (CH : @E SZ -> @E SX) (vj : @E SX -> @E SZ -> @E SX) (lin : bool), @ProxOracle SX domf f F -> @ProxOracle SZ domg g G -> @Convex SX domf f -> @Convex SZ domg g -> @IsAdj SX SZ C CH -> forall mu nu : R, 0 < mu -> 0 < nu -> forall (xs : @E SX) (zs us : @E SZ), zs = C xs -> @Subgrad SZ domg g zs (@vscale SZ (/ nu) us) -> @Subgrad SX domf f xs (@vscale SX (- / nu) (CH us)) -> forall n : nat, @iter (C11_Ladmm.st R (@E SX) (@E SZ)) (@C11_Ladmm.step_gen R Num_R (@E SX) (VecOps_IS SX) (@E SZ) (VecOps_IS SZ)) n (@Fix_LADMM.s_opt SX SZ F G C CH vj lin mu nu xs zs us zs) = @Fix_LADMM.s_opt SX SZ F G C CH vj lin mu nu xs zs us zs.
Proof. exact (@Fix_LADMM.ladmm_fixed_point_iter). Qed.
Print Assumptions C03_ladmm_fixed_point_iter.

(** minimizer() then returns xs *)
Theorem C03_ladmm_minimizer :
  forall (SX SZ : InnerSpace) (domf : @E SX -> Prop) (f : @E SX -> R) (domg : @E SZ -> Prop) (g : @E SZ -> R) (F : Func R (@E SX)) (G : Func R (@E SZ)) (C : @E SX -> @E SZ) (CH : @E SZ -> @E SX) (vj : @E SX -> @E SZ -> @E SX) (lin : bool), @ProxOracle SX domf f F -> @ProxOracle SZ domg g G -> @Convex SX domf f -> @Convex SZ domg g -> @IsAdj SX SZ C CH -> forall mu nu : R, 0 < mu -> 0 < nu -> forall (xs : @E SX) (zs us : @E SZ), zs = C xs -> @Subgrad SZ domg g zs (@vscale SZ (/ nu) us) -> @Subgrad SX domf f xs (@vscale SX (- / nu) (CH us)) -> forall n : nat, @C11_Ladmm.minimizer_gen R (@E SX) (@E SZ) (@iter (C11_Ladmm.st R (@E SX) (@E SZ)) (@C11_Ladmm.step_gen R Num_R (@E SX) (VecOps_IS SX) (@E SZ) (VecOps_IS SZ)) n (@Fix_LADMM.s_opt SX SZ F G C CH vj lin mu nu xs zs us zs)) = xs.
Proof. exact (@Fix_LADMM.ladmm_minimizer). Qed.
Print Assumptions C03_ladmm_minimizer.

(** ProximalADMM with any B, c: A xs + B zs = c, -rho A^H us in df(xs), -rho B^H us in dg(zs) is a fixed point (u_old = u) *)
Theorem C03_padmm_fixed_point :
  forall (SX SZ : InnerSpace) (domf : @E SX -> Prop) (f : @E SX -> R) (domg : @E SZ -> Prop) (g : @E SZ -> R) (F : Func R (@E SX)) (G : Func R (@E SZ)) (A : @E SX -> @E SZ) (AH : @E SZ -> @E SX) (vjA : @E SX -> @E SZ -> @E SX) (linA : bool) (B BH : @E SZ -> @E SZ) (vjB : @E SZ -> @E SZ -> @E SZ) (linB : bool) (c : @E SZ), @ProxOracle SX domf f F -> @ProxOracle SZ domg g G -> @Convex SX domf f -> @Convex SZ domg g -> forall rho mu nu : R, 0 < rho -> 0 < mu -> 0 < nu -> forall (fdr : bool) (xs : @E SX) (zs us : @E SZ), @vadd SZ (A xs) (B zs) = c -> @Subgrad SX domf f xs (@vscale SX (- rho) (AH us)) -> @Subgrad SZ domg g zs (@vscale SZ (- rho) (BH us)) -> forall zo : @E SZ, @Spec_PADMM.step_spec R Num_R (@E SX) (VecOps_IS SX) (@E SZ) (VecOps_IS SZ) (@Fix_PADMM.s_opt SX SZ F G A AH vjA linA B BH vjB linB c rho mu nu fdr xs zs us zo us) = @Fix_PADMM.s_opt SX SZ F G A AH vjA linA B BH vjB linB c rho mu nu fdr xs zs us zs us.
Proof. exact (@Fix_PADMM.padmm_fixed_point). Qed.
Print Assumptions C03_padmm_fixed_point.

(** ... for the generated step *)
Theorem C03_padmm_fixed_point_gen :
  forall (SX SZ : InnerSpace) (domf : @E SX -> Prop) (f : @E SX -> R) (domg : @E SZ -> Prop) (g : @E SZ -> R) (F : Func R (@E SX)) (G : Func R (@E SZ)) (A : @E SX -> @E SZ) (AH : @E SZ -> @E SX) (vjA : @E SX -> @E SZ -> @E SX) (linA : bool) (B BH : @E SZ -> @E SZ) (vjB : @E SZ -> @E SZ -> @E SZ) (linB : bool) (c : @E SZ), @ProxOracle SX domf f F -> @ProxOracle SZ domg g G -> @Convex SX domf f -> @Convex SZ domg g -> forall rho mu nu : R, 0 < rho -> 0 < mu -> 0 < nu -> forall (fdr : bool) (xs : @E SX) (zs us : @E SZ), @vadd SZ (A xs) (B zs) = c -> @Subgrad SX domf f xs (@vscale SX (- rho) (AH us)) -> @Subgrad SZ domg g zs (@vscale SZ (- rho) (BH us)) -> forall zo : @E SZ, @C11_Padmm.step_gen R Num_R (@E SX) (VecOps_IS SX) (@E SZ) (VecOps_IS SZ) (@Fix_PADMM.s_opt SX SZ F G A AH vjA linA B BH vjB linB c rho mu nu fdr xs zs us zo us) = @Fix_PADMM.s_opt SX SZ F G A AH vjA linA B BH vjB linB c rho mu nu fdr xs zs us zs us.
Proof. exact (@Fix_PADMM.padmm_fixed_point_gen). Qed.
Print Assumptions C03_padmm_fixed_point_gen.

(** ... for any number of generated steps *)
Theorem C03_padmm_fixed_point_iter :
  forall (SX SZ : InnerSpace) (domf : @E SX -> Prop) (f : @E SX -> R) (domg : @E SZ -> Prop) (g : @E SZ -> R) (F : Func R (@E SX)) (G : Func R (@E SZ)) (A : @E SX -> @E SZ) (AH : @E SZ -> @E SX) (vjA : @E SX -> @E SZ -> @E SX) (linA : bool) (B BH : @E SZ -> @E SZ) (vjB : @E SZ -> @E SZ -> @E SZ) (linB : bool) (c : @E SZ), @ProxOracle SX domf f F -> @ProxOracle SZ domg g G -> @Convex SX domf f -> @Convex SZ domg g -> forall rho mu nu : R, 0 < rho -> 0 < mu -> 0 < nu -> forall (fdr : bool) (xs : @E SX) (zs us : @E SZ), @vadd SZ (A xs) (B zs) = c -> @Subgrad SX domf f xs (@vscale SX (- rho) (AH us)) -> @Subgrad SZ domg g zs (@vscale SZ (- rho) (BH us)) -> forall n : nat, @iter (C11_Padmm.st R (@E SX) (@E SZ)) (@C11_Padmm.step_gen R Num_R (@E SX) (VecOps_IS SX) (@E SZ) (VecOps_IS SZ)) n (@Fix_PADMM.s_opt SX SZ F G A AH vjA linA B BH vjB linB c rho mu nu fdr xs zs us zs us) = @Fix_PADMM.s_opt SX SZ F G A AH vjA linA B BH vjB linB c rho mu nu fdr xs zs us zs us.
Proof. exact (@Fix_PADMM.padmm_fixed_point_iter). Qed.
Print Assumptions C03_padmm_fixed_point_iter.

(** NonLinearPADMM: H(xs, zs) = 0 with the Jacobian adjoints at the point (vjp oracles of H) *)
Theorem C03_nlpadmm_fixed_point :
  forall (SX SZ SU : InnerSpace) (domf : @E SX -> Prop) (f : @E SX -> R) (domg : @E SZ -> Prop) (g : @E SZ -> R) (F : Func R (@E SX)) (G : Func R (@E SZ)) (H : Fun2 (@E SX) (@E SZ) (@E SU)), @ProxOracle SX domf f F -> @ProxOracle SZ domg g G -> @Convex SX domf f -> @Convex SZ domg g -> forall rho mu nu : R, 0 < rho -> 0 < mu -> 0 < nu -> forall (fdr : bool) (xs : @E SX) (zs : @E SZ) (us : @E SU), @f2 (@E SX) (@E SZ) (@E SU) H xs zs = @vzero SU -> @Subgrad SX domf f xs (@vscale SX (- rho) (@vjp0 (@E SX) (@E SZ) (@E SU) H xs zs us)) -> @Subgrad SZ domg g zs (@vscale SZ (- rho) (@vjp1 (@E SX) (@E SZ) (@E SU) H xs zs us)) -> forall zo : @E SZ, @Spec_NLPADMM.step_spec R Num_R (@E SX) (VecOps_IS SX) (@E SZ) (VecOps_IS SZ) (@E SU) (VecOps_IS SU) (@Fix_PADMM.nl_opt SX SZ SU F G H rho mu nu fdr xs zs us zo us) = @Fix_PADMM.nl_opt SX SZ SU F G H rho mu nu fdr xs zs us zs us.
Proof. exact (@Fix_PADMM.nlpadmm_fixed_point). Qed.
Print Assumptions C03_nlpadmm_fixed_point.

(** ... for the generated step *)
Theorem C03_nlpadmm_fixed_point_gen :
  forall (SX SZ SU : InnerSpace) (domf : @E SX -> Prop) (f : @E SX -> R) (domg : @E SZ -> Prop) (g : @E SZ -> R) (F : Func R (@E SX)) (G : Func R (@E SZ)) (H : Fun2 (@E SX) (@E SZ) (@E SU)), @ProxOracle SX domf f F -> @ProxOracle SZ domg g G -> @Convex SX domf f -> @Convex SZ domg g -> forall rho mu nu : R, 0 < rho -> 0 < mu -> 0 < nu -> forall (fdr : bool) (xs : @E SX) (zs : @E SZ) (us : @E SU), @f2 (@E SX) (@E SZ) (@E SU) H xs zs = @vzero SU -> @Subgrad SX domf f xs (@vscale SX (- rho) (@vjp0 (@E SX) (@E SZ) (@E SU) H xs zs us)) -> @Subgrad SZ domg g zs (@vscale SZ (- rho) (@vjp1 (@E SX) (@E SZ) (@E SU) H xs zs us)) -> forall zo : @E SZ, @C11_Nlpadmm.step_gen R Num_R (@E SX) (VecOps_IS SX) (@E SZ) (VecOps_IS SZ) (@E SU) (VecOps_IS SU) (@Fix_PADMM.nl_opt SX SZ SU F G H rho mu nu fdr xs zs us zo us) = @Fix_PADMM.nl_opt SX SZ SU F G H rho mu nu fdr xs zs us zs us.
Proof. exact (@Fix_PADMM.nlpadmm_fixed_point_gen). Qed.
Print Assumptions C03_nlpadmm_fixed_point_gen.

(** ... for any number of generated steps *)
Theorem C03_nlpadmm_fixed_point_iter :
  forall (SX SZ SU : InnerSpace) (domf : @E SX -> Prop) (f : @E SX -> R) (domg : @E SZ -> Prop) (g : @E SZ -> R) (F : Func R (@E SX)) (G : Func R (@E SZ)) (H : Fun2 (@E SX) (@E SZ) (@E SU)), @ProxOracle SX domf f F -> @ProxOracle SZ domg g G -> @Convex SX domf f -> @Convex SZ domg g -> forall rho mu nu : R, 0 < rho -> 0 < mu -> 0 < nu -> forall (fdr : bool) (xs : @E SX) (zs : @E SZ) (us : @E SU), @f2 (@E SX) (@E SZ) (@E SU) H xs zs = @vzero SU -> @Subgrad SX domf f xs (@vscale SX (- rho) (@vjp0 (@E SX) (@E SZ) (@E SU) H xs zs us)) -> @Subgrad SZ domg g zs (@vscale SZ (- rho) (@vjp1 (@E SX) (@E SZ) (@E SU) H xs zs us)) -> forall n : nat, @iter (C11_Nlpadmm.st R (@E SX) (@E SZ) (@E SU)) (@C11_Nlpadmm.step_gen R Num_R (@E SX) (VecOps_IS SX) (@E SZ) (VecOps_IS SZ) (@E SU) (VecOps_IS SU)) n (@Fix_PADMM.nl_opt SX SZ SU F G H rho mu nu fdr xs zs us zs us) = @Fix_PADMM.nl_opt SX SZ SU F G H rho mu nu fdr xs zs us zs us.
Proof. exact (@Fix_PADMM.nlpadmm_fixed_point_iter). Qed.
Print Assumptions C03_nlpadmm_fixed_point_iter.

(** PDHG, linear or non-linear C, any extrapolation alpha: zs in dg(C xs), -C^H zs (adjoint Jacobian for non-linear C) in df(xs) *)
Theorem C03_pdhg_fixed_point :
  forall (SX SZ : InnerSpace) (domf : @E SX -> Prop) (f : @E SX -> R) (domg : @E SZ -> Prop) (g : @E SZ -> R) (F : Func R (@E SX)) (G : Func R (@E SZ)) (C : @E SX -> @E SZ) (CH : @E SZ -> @E SX) (vj : @E SX -> @E SZ -> @E SX) (lin : bool), @ProxOracle SX domf f F -> @ProxOracle SZ domg g G -> @Convex SX domf f -> @Convex SZ domg g -> forall tau sigma alpha : R, 0 < tau -> 0 < sigma -> forall (xs : @E SX) (zs : @E SZ), @Subgrad SZ domg g (C xs) zs -> @Subgrad SX domf f xs (@vscale SX (-1) (@Fix_PADMM.CTz SX SZ CH vj lin xs zs)) -> forall (xo : @E SX) (zo : @E SZ), @Spec_PDHG.step_spec R Num_R (@E SX) (VecOps_IS SX) (@E SZ) (VecOps_IS SZ) (@Fix_PADMM.pd_opt SX SZ F G C CH vj lin tau sigma alpha xs zs xo zo) = @Fix_PADMM.pd_opt SX SZ F G C CH vj lin tau sigma alpha xs zs xs zs.
Proof. exact (@Fix_PADMM.pdhg_fixed_point). Qed.
Print Assumptions C03_pdhg_fixed_point.

(** ... for the generated step *)
Theorem C03_pdhg_fixed_point_gen :
  forall (SX SZ : InnerSpace) (domf : @E SX -> Prop) (f : @E SX -> R) (domg : @E SZ -> Prop) (g : @E SZ -> R) (F : Func R (@E SX)) (G : Func R (@E SZ)) (C : @E SX -> @E SZ) (CH : @E SZ -> @E SX) (vj : @E SX -> @E SZ -> @E SX) (lin : bool), @ProxOracle SX domf f F -> @ProxOracle SZ domg g G -> @Convex SX domf f -> @Convex SZ domg g -> forall tau sigma alpha : R, 0 < tau -> 0 < sigma -> forall (xs : @E SX) (zs : @E SZ), @Subgrad SZ domg g (C xs) zs -> @Subgrad SX domf f xs (@vscale SX (-1) (@Fix_PADMM.CTz SX SZ CH vj lin xs zs)) -> forall (xo : @E SX) (zo : @E SZ), @C11_Pdhg.step_gen R Num_R (@E SX) (VecOps_IS SX) (@E SZ) (VecOps_IS SZ) (@Fix_PADMM.pd_opt SX SZ F G C CH vj lin tau sigma alpha xs zs xo zo) = @Fix_PADMM.pd_opt SX SZ F G C CH vj lin tau sigma alpha xs zs xs zs.
Proof. exact (@Fix_PADMM.pdhg_fixed_point_gen). Qed.
Print Assumptions C03_pdhg_fixed_point_gen.

(** ... for any number of generated steps *)
Theorem C03_pdhg_fixed_point_iter :
  forall (SX SZ : InnerSpace) (domf : @E SX -> Prop) (f : @E SX -> R) (domg : @E SZ -> Prop) (g : @E SZ -> R) (F : Func R (@E SX)) (G : Func R (@E SZ)) (C : @E SX -> @E SZ) (CH : @E SZ -> @E SX) (vj : @E SX -> @E SZ -> @E SX) (lin : bool), @ProxOracle SX domf f F -> @ProxOracle SZ domg g G -> @Convex SX domf f -> @Convex SZ domg g -> forall tau sigma alpha : R, 0 < tau -> 0 < sigma -> forall (xs : @E SX) (zs : @E SZ), @Subgrad SZ domg g (C xs) zs -> @Subgrad SX domf f xs (@vscale SX (-1) (@Fix_PADMM.CTz SX SZ CH vj lin xs zs)) -> forall n : nat, @iter (C11_Pdhg.st R (@E SX) (@E SZ)) (@C11_Pdhg.step_gen R Num_R (@E SX) (VecOps_IS SX) (@E SZ) (VecOps_IS SZ)) n (@Fix_PADMM.pd_opt SX SZ F G C CH vj lin tau sigma alpha xs zs xs zs) = @Fix_PADMM.pd_opt SX SZ F G C CH vj lin tau sigma alpha xs zs xs zs.
Proof. exact (@Fix_PADMM.pdhg_fixed_point_iter). Qed.
Print Assumptions C03_pdhg_fixed_point_iter.

(** Moreau: the generated Functional.conj_prox is the prox of the convex conjugate (characterised by Fenchel-Young) *)
Theorem C03_conj_prox_is_prox_of_conjugate :
  forall (SZ : InnerSpace) (domg : @E SZ -> Prop) (g : @E SZ -> R) (G : Func R (@E SZ)), @ProxOracle SZ domg g G -> @Convex SZ domg g -> forall (domc : @E SZ -> Prop) (gc : @E SZ -> R), (forall x s : @E SZ, domg x -> domc s -> @ip SZ x s <= g x + gc s) -> (forall x s : @E SZ, domg x -> (forall z : @E SZ, domg z -> g x + @ip SZ s (@vsub SZ z x) <= g z) -> domc s /\ @ip SZ x s = g x + gc s) -> forall (v : @E SZ) (lam : R), 0 < lam -> @IsProx SZ domc gc lam v (@C11_Functional.conj_prox_gen R Num_R (@E SZ) (VecOps_IS SZ) G v lam).
Proof. exact (@Fix_PADMM.conj_prox_is_prox_of_conjugate). Qed.
Print Assumptions C03_conj_prox_is_prox_of_conjugate.

(** ADMM, any number of blocks, any relaxation alpha, x-update = unique sub-problem minimiser: a saddle point is a fixed point *)
Theorem C03_admm_fixed_point :
  forall (SX SZ : InnerSpace) (domf : @E SX -> Prop) (f : @E SX -> R) (F : Func R (@E SX)) (hasf : bool) (bl : list (@Fix_ADMM.Blk SX SZ)) (alpha : R) (solver : list (@E SZ) -> list (@E SZ) -> @E SX -> @E SX) (xs : @E SX), @Forall (@Fix_ADMM.Blk SX SZ) (@Fix_ADMM.BlockOK SX SZ xs) bl -> domf xs /\ (forall x : @E SX, domf x -> f xs - Fix_ADMM.sumR (@map (@Fix_ADMM.Blk SX SZ) R (fun b : @Fix_ADMM.Blk SX SZ => @Fix_ADMM.b_rho SX SZ b * @ip SZ (@Fix_ADMM.b_u SX SZ b) (@vsub SZ (@Fix_ADMM.b_C SX SZ b x) (@Fix_ADMM.b_C SX SZ b xs))) bl) <= f x) -> (forall (zl ul : list (@E SZ)) (x0 : @E SX), zl = @map (@Fix_ADMM.Blk SX SZ) (@E SZ) (@Fix_ADMM.b_z SX SZ) bl -> ul = @map (@Fix_ADMM.Blk SX SZ) (@E SZ) (@Fix_ADMM.b_u SX SZ) bl -> @Fix_ADMM.SubMin SX SZ domf f bl (solver zl ul x0)) -> (forall p q : @E SX, @Fix_ADMM.SubMin SX SZ domf f bl p -> @Fix_ADMM.SubMin SX SZ domf f bl q -> p = q) -> forall zold : list (@E SZ), @Spec_ADMM.step_spec R Num_R (@E SX) (@E SZ) (VecOps_IS SZ) (@Fix_ADMM.opt_state SX SZ F hasf bl alpha solver xs zold) = @Fix_ADMM.opt_state SX SZ F hasf bl alpha solver xs (@map (@Fix_ADMM.Blk SX SZ) (@E SZ) (@Fix_ADMM.b_z SX SZ) bl).
Proof. exact (@Fix_ADMM.admm_fixed_point). Qed.
Print Assumptions C03_admm_fixed_point.

(** ... for the generated step (in-place loop over blocks) *)
Theorem C03_admm_fixed_point_gen :
  forall (SX SZ : InnerSpace) (domf : @E SX -> Prop) (f : @E SX -> R) (F : Func R (@E SX)) (hasf : bool) (bl : list (@Fix_ADMM.Blk SX SZ)) (alpha : R) (solver : list (@E SZ) -> list (@E SZ) -> @E SX -> @E SX) (xs : @E SX), @Forall (@Fix_ADMM.Blk SX SZ) (@Fix_ADMM.BlockOK SX SZ xs) bl -> domf xs /\ (forall x : @E SX, domf x -> f xs - Fix_ADMM.sumR (@map (@Fix_ADMM.Blk SX SZ) R (fun b : @Fix_ADMM.Blk SX SZ => @Fix_ADMM.b_rho SX SZ b * @ip SZ (@Fix_ADMM.b_u SX SZ b) (@vsub SZ (@Fix_ADMM.b_C SX SZ b x) (@Fix_ADMM.b_C SX SZ b xs))) bl) <= f x) -> (forall (zl ul : list (@E SZ)) (x0 : @E SX), zl = @map (@Fix_ADMM.Blk SX SZ) (@E SZ) (@Fix_ADMM.b_z SX SZ) bl -> ul = @map (@Fix_ADMM.Blk SX SZ) (@E SZ) (@Fix_ADMM.b_u SX SZ) bl -> @Fix_ADMM.SubMin SX SZ domf f bl (solver zl ul x0)) -> (forall p q : @E SX, @Fix_ADMM.SubMin SX SZ domf f bl p -> @Fix_ADMM.SubMin SX SZ domf f bl q -> p = q) -> forall zold : list (@E SZ), @length (@E SZ) zold = @length (@Fix_ADMM.Blk SX SZ) bl -> @C11_Admm.step_gen R Num_R (@E SX) (@E SZ) (VecOps_IS SZ) (@Fix_ADMM.opt_state SX SZ F hasf bl alpha solver xs zold) = @Fix_ADMM.opt_state SX SZ F hasf bl alpha solver xs (@map (@Fix_ADMM.Blk SX SZ) (@E SZ) (@Fix_ADMM.b_z SX SZ) bl).
Proof. exact (@Fix_ADMM.admm_fixed_point_gen). Qed.
Print Assumptions C03_admm_fixed_point_gen.

(** ... for any number of generated steps *)
Theorem C03_admm_fixed_point_iter :
  forall (SX SZ : InnerSpace) (domf : @E SX -> Prop) (f : @E SX -> R) (F : Func R (@E SX)) (hasf : bool) (bl : list (@Fix_ADMM.Blk SX SZ)) (alpha : R) (solver : list (@E SZ) -> list (@E SZ) -> @E SX -> @E SX) (xs : @E SX), @Forall (@Fix_ADMM.Blk SX SZ) (@Fix_ADMM.BlockOK SX SZ xs) bl -> domf xs /\ (forall x : @E SX, domf x -> f xs - Fix_ADMM.sumR (@map (@Fix_ADMM.Blk SX SZ) R (fun b : @Fix_ADMM.Blk SX SZ => @Fix_ADMM.b_rho SX SZ b * @ip SZ (@Fix_ADMM.b_u SX SZ b) (@vsub SZ (@Fix_ADMM.b_C SX SZ b x) (@Fix_ADMM.b_C SX SZ b xs))) bl) <= f x) -> (forall (zl ul : list (@E SZ)) (x0 : @E SX), zl = @map (@Fix_ADMM.Blk SX SZ) (@E SZ) (@Fix_ADMM.b_z SX SZ) bl -> ul = @map (@Fix_ADMM.Blk SX SZ) (@E SZ) (@Fix_ADMM.b_u SX SZ) bl -> @Fix_ADMM.SubMin SX SZ domf f bl (solver zl ul x0)) -> (forall p q : @E SX, @Fix_ADMM.SubMin SX SZ domf f bl p -> @Fix_ADMM.SubMin SX SZ domf f bl q -> p = q) -> forall n : nat, @iter (C11_Admm.st R (@E SX) (@E SZ)) (@C11_Admm.step_gen R Num_R (@E SX) (@E SZ) (VecOps_IS SZ)) n (@Fix_ADMM.opt_state SX SZ F hasf bl alpha solver xs (@map (@Fix_ADMM.Blk SX SZ) (@E SZ) (@Fix_ADMM.b_z SX SZ) bl)) = @Fix_ADMM.opt_state SX SZ F hasf bl alpha solver xs (@map (@Fix_ADMM.Blk SX SZ) (@E SZ) (@Fix_ADMM.b_z SX SZ) bl).
Proof. exact (@Fix_ADMM.admm_fixed_point_iter). Qed.
Print Assumptions C03_admm_fixed_point_iter.

(** minimizer() then returns xs *)
Theorem C03_admm_minimizer :
  forall (SX SZ : InnerSpace) (domf : @E SX -> Prop) (f : @E SX -> R) (F : Func R (@E SX)) (hasf : bool) (bl : list (@Fix_ADMM.Blk SX SZ)) (alpha : R) (solver : list (@E SZ) -> list (@E SZ) -> @E SX -> @E SX) (xs : @E SX), @Forall (@Fix_ADMM.Blk SX SZ) (@Fix_ADMM.BlockOK SX SZ xs) bl -> domf xs /\ (forall x : @E SX, domf x -> f xs - Fix_ADMM.sumR (@map (@Fix_ADMM.Blk SX SZ) R (fun b : @Fix_ADMM.Blk SX SZ => @Fix_ADMM.b_rho SX SZ b * @ip SZ (@Fix_ADMM.b_u SX SZ b) (@vsub SZ (@Fix_ADMM.b_C SX SZ b x) (@Fix_ADMM.b_C SX SZ b xs))) bl) <= f x) -> (forall (zl ul : list (@E SZ)) (x0 : @E SX), zl = @map (@Fix_ADMM.Blk SX SZ) (@E SZ) (@Fix_ADMM.b_z SX SZ) bl -> ul = @map (@Fix_ADMM.Blk SX SZ) (@E SZ) (@Fix_ADMM.b_u SX SZ) bl -> @Fix_ADMM.SubMin SX SZ domf f bl (solver zl ul x0)) -> (forall p q : @E SX, @Fix_ADMM.SubMin SX SZ domf f bl p -> @Fix_ADMM.SubMin SX SZ domf f bl q -> p = q) -> forall n : nat, @C11_Admm.minimizer_gen R (@E SX) (@E SZ) (@iter (C11_Admm.st R (@E SX) (@E SZ)) (@C11_Admm.step_gen R Num_R (@E SX) (@E SZ) (VecOps_IS SZ)) n (@Fix_ADMM.opt_state SX SZ F hasf bl alpha solver xs (@map (@Fix_ADMM.Blk SX SZ) (@E SZ) (@Fix_ADMM.b_z SX SZ) bl))) = xs.
Proof. exact (@Fix_ADMM.admm_minimizer). Qed.
Print Assumptions C03_admm_minimizer.

(** PGM: -grad f(xs) in dg(xs) implies the proximal-gradient point of xs is xs *)
Theorem C03_pgstep_fixed_point :
  forall (SX : InnerSpace) (domg : @E SX -> Prop) (g : @E SX -> R) (F G : Func R (@E SX)), @ProxOracle SX domg g G -> @Convex SX domg g -> forall L : R, 0 < L -> forall xs : @E SX, @Subgrad SX domg g xs (@vscale SX (-1) (@fgrad R (@E SX) F xs)) -> @PGM.pgstep SX F G L xs = xs.
Proof. exact (@PGM.pgstep_fixed_point). Qed.
Print Assumptions C03_pgstep_fixed_point.

(** PGM generated step keeps the optimum (fixed policy), residual 0 *)
Theorem C03_pgm_fixed_point_gen :
  forall (SX : InnerSpace) (domg : @E SX -> Prop) (g : @E SX -> R) (F G : Func R (@E SX)), @ProxOracle SX domg g G -> @Convex SX domg g -> forall L : R, 0 < L -> forall xs : @E SX, @Subgrad SX domg g xs (@vscale SX (-1) (@fgrad R (@E SX) F xs)) -> forall r : R, @C11_Pgm.step_gen R Num_R Sqrt_R (@E SX) (VecOps_IS SX) (@PGM.pg_state SX F G L xs r) = @PGM.pg_state SX F G L xs 0.
Proof. exact (@PGM.pgm_fixed_point_gen). Qed.
Print Assumptions C03_pgm_fixed_point_gen.

(** AcceleratedPGM generated step keeps v = x = xs for every momentum t *)
Theorem C03_apgm_fixed_point_gen :
  forall (SX : InnerSpace) (domg : @E SX -> Prop) (g : @E SX -> R) (F G : Func R (@E SX)), @ProxOracle SX domg g G -> @Convex SX domg g -> forall L : R, 0 < L -> forall xs : @E SX, @Subgrad SX domg g xs (@vscale SX (-1) (@fgrad R (@E SX) F xs)) -> forall t r : R, let s' := @C11_Apgm.step_gen R Num_R Sqrt_R (@E SX) (VecOps_IS SX) (@PGM.ap_state SX F G L xs xs t r) in @C11_Apgm.ap_x R (@E SX) s' = xs /\ @C11_Apgm.ap_v R (@E SX) s' = xs.
Proof. exact (@PGM.apgm_fixed_point_gen). Qed.
Print Assumptions C03_apgm_fixed_point_gen.

(** PGM with the descent lemma for L: F(x+) + (L/2)||x - x+||^2 <= F(x) (no convexity of f needed) *)
Theorem C03_pgm_objective_decreases :
  forall (SX : InnerSpace) (f : @E SX -> R) (domg : @E SX -> Prop) (g : @E SX -> R) (F G : Func R (@E SX)), @ProxOracle SX domg g G -> @Convex SX domg g -> forall L : R, 0 < L -> (forall x y : @E SX, f y <= f x + @ip SX (@fgrad R (@E SX) F x) (@vsub SX y x) + L / 2 * @nsq SX (@vsub SX y x)) -> forall x : @E SX, domg x -> @PGM.Fobj SX f g (@PGM.pgstep SX F G L x) + L / 2 * @nsq SX (@vsub SX x (@PGM.pgstep SX F G L x)) <= @PGM.Fobj SX f g x.
Proof. exact (@PGM.pgm_objective_decreases). Qed.
Print Assumptions C03_pgm_objective_decreases.

(** strong convexity m >= 0: ||x+ - xs||^2 <= (1 - m/L) ||x - xs||^2 *)
Theorem C03_pgm_contraction :
  forall (SX : InnerSpace) (f : @E SX -> R) (domg : @E SX -> Prop) (g : @E SX -> R) (F G : Func R (@E SX)), @ProxOracle SX domg g G -> @Convex SX domg g -> forall L : R, 0 < L -> (forall x y : @E SX, f y <= f x + @ip SX (@fgrad R (@E SX) F x) (@vsub SX y x) + L / 2 * @nsq SX (@vsub SX y x)) -> forall m : R, (forall x z : @E SX, f x + @ip SX (@fgrad R (@E SX) F x) (@vsub SX z x) + m / 2 * @nsq SX (@vsub SX z x) <= f z) -> forall xs : @E SX, domg xs -> (forall z : @E SX, domg z -> @PGM.Fobj SX f g xs <= @PGM.Fobj SX f g z) -> forall x : @E SX, @nsq SX (@vsub SX (@PGM.pgstep SX F G L x) xs) <= (1 - m / L) * @nsq SX (@vsub SX x xs).
Proof. exact (@PGM.pgm_contraction). Qed.
Print Assumptions C03_pgm_contraction.

(** ||x+ - xs|| <= ||x - xs|| *)
Theorem C03_pgm_nonexpansive :
  forall (SX : InnerSpace) (f : @E SX -> R) (domg : @E SX -> Prop) (g : @E SX -> R) (F G : Func R (@E SX)), @ProxOracle SX domg g G -> @Convex SX domg g -> forall L : R, 0 < L -> (forall x y : @E SX, f y <= f x + @ip SX (@fgrad R (@E SX) F x) (@vsub SX y x) + L / 2 * @nsq SX (@vsub SX y x)) -> forall m : R, 0 <= m -> (forall x z : @E SX, f x + @ip SX (@fgrad R (@E SX) F x) (@vsub SX z x) + m / 2 * @nsq SX (@vsub SX z x) <= f z) -> forall xs : @E SX, domg xs -> (forall z : @E SX, domg z -> @PGM.Fobj SX f g xs <= @PGM.Fobj SX f g z) -> forall x : @E SX, @norm SX (@vsub SX (@PGM.pgstep SX F G L x) xs) <= @norm SX (@vsub SX x xs).
Proof. exact (@PGM.pgm_nonexpansive). Qed.
Print Assumptions C03_pgm_nonexpansive.

(** ||x_k - xs||^2 <= (1 - m/L)^k ||x_0 - xs||^2 for ALL k and x_0 *)
Theorem C03_pgm_linear_rate :
  forall (SX : InnerSpace) (f : @E SX -> R) (domg : @E SX -> Prop) (g : @E SX -> R) (F G : Func R (@E SX)), @ProxOracle SX domg g G -> @Convex SX domg g -> forall L : R, 0 < L -> (forall x y : @E SX, f y <= f x + @ip SX (@fgrad R (@E SX) F x) (@vsub SX y x) + L / 2 * @nsq SX (@vsub SX y x)) -> forall m : R, (forall x z : @E SX, f x + @ip SX (@fgrad R (@E SX) F x) (@vsub SX z x) + m / 2 * @nsq SX (@vsub SX z x) <= f z) -> forall xs : @E SX, domg xs -> (forall z : @E SX, domg z -> @PGM.Fobj SX f g xs <= @PGM.Fobj SX f g z) -> m <= L -> forall (k : nat) (x0 : @E SX), @nsq SX (@vsub SX (@iter (@E SX) (@PGM.pgstep SX F G L) k x0) xs) <= (1 - m / L) ^ k * @nsq SX (@vsub SX x0 xs).
Proof. exact (@PGM.pgm_linear_rate). Qed.
Print Assumptions C03_pgm_linear_rate.

(** the same for minimizer() of the generated solver after k generated steps *)
Theorem C03_pgm_solver_rate :
  forall (SX : InnerSpace) (f : @E SX -> R) (domg : @E SX -> Prop) (g : @E SX -> R) (F G : Func R (@E SX)), @ProxOracle SX domg g G -> @Convex SX domg g -> forall L : R, 0 < L -> (forall x y : @E SX, f y <= f x + @ip SX (@fgrad R (@E SX) F x) (@vsub SX y x) + L / 2 * @nsq SX (@vsub SX y x)) -> forall m : R, (forall x z : @E SX, f x + @ip SX (@fgrad R (@E SX) F x) (@vsub SX z x) + m / 2 * @nsq SX (@vsub SX z x) <= f z) -> forall xs : @E SX, domg xs -> (forall z : @E SX, domg z -> @PGM.Fobj SX f g xs <= @PGM.Fobj SX f g z) -> m <= L -> forall (k : nat) (x0 : @E SX) (r : R), @nsq SX (@vsub SX (@C11_Pgm.minimizer_gen R (@E SX) (@iter (C11_Pgm.st R (@E SX)) (@C11_Pgm.step_gen R Num_R Sqrt_R (@E SX) (VecOps_IS SX)) k (@PGM.pg_state SX F G L x0 r))) xs) <= (1 - m / L) ^ k * @nsq SX (@vsub SX x0 xs).
Proof. exact (@PGM.pgm_solver_rate). Qed.
Print Assumptions C03_pgm_solver_rate.

(** the objective at minimizer() never increases along generated steps *)
Theorem C03_pgm_solver_monotone :
  forall (SX : InnerSpace) (f : @E SX -> R) (domg : @E SX -> Prop) (g : @E SX -> R) (F G : Func R (@E SX)), @ProxOracle SX domg g G -> @Convex SX domg g -> forall L : R, 0 < L -> (forall x y : @E SX, f y <= f x + @ip SX (@fgrad R (@E SX) F x) (@vsub SX y x) + L / 2 * @nsq SX (@vsub SX y x)) -> forall (k : nat) (x0 : @E SX) (r : R), domg x0 -> @PGM.Fobj SX f g (@C11_Pgm.minimizer_gen R (@E SX) (@iter (C11_Pgm.st R (@E SX)) (@C11_Pgm.step_gen R Num_R Sqrt_R (@E SX) (VecOps_IS SX)) (S k) (@PGM.pg_state SX F G L x0 r))) <= @PGM.Fobj SX f g (@C11_Pgm.minimizer_gen R (@E SX) (@iter (C11_Pgm.st R (@E SX)) (@C11_Pgm.step_gen R Num_R Sqrt_R (@E SX) (VecOps_IS SX)) k (@PGM.pg_state SX F G L x0 r))).
Proof. exact (@PGM.pgm_solver_monotone). Qed.
Print Assumptions C03_pgm_solver_monotone.

(** ADMM (one block): every step establishes the invariant rho u in dg(z) *)
Theorem C03_step_establishes_inv :
  forall (SX SZ : InnerSpace) (domf : @E SX -> Prop) (f : @E SX -> R) (domg : @E SZ -> Prop) (g : @E SZ -> R) (G : Func R (@E SZ)) (C : @E SX -> @E SZ), @ProxOracle SZ domg g G -> @Convex SZ domg g -> forall rho : R, 0 < rho -> forall (sol : @E SZ -> @E SZ -> @E SX -> @E SX) (xs : @E SX) (us : @E SZ), domf xs /\ (forall x : @E SX, domf x -> f xs - rho * @ip SZ us (@vsub SZ (C x) (C xs)) <= f x) -> forall t : @Lyap_ADMM.T SX SZ, @Lyap_ADMM.Inv SX SZ domg g rho (@Lyap_ADMM.admm1 SX SZ G C rho sol t).
Proof. exact (@Lyap_ADMM.step_establishes_inv). Qed.
Print Assumptions C03_step_establishes_inv.

(** ADMM (one block) Lyapunov decrease under the invariant: V+ <= V - rho ||r+||^2 - rho ||z+ - z||^2 *)
Theorem C03_admm_lyapunov_one_step :
  forall (SX SZ : InnerSpace) (domf : @E SX -> Prop) (f : @E SX -> R) (domg : @E SZ -> Prop) (g : @E SZ -> R) (G : Func R (@E SZ)) (C : @E SX -> @E SZ), @ProxOracle SZ domg g G -> @Convex SZ domg g -> forall rho : R, 0 < rho -> forall sol : @E SZ -> @E SZ -> @E SX -> @E SX, (forall (z u : @E SZ) (x0 : @E SX), domf (sol z u x0) /\ (forall x : @E SX, domf x -> f (sol z u x0) + rho * @ip SZ (@vsub SZ (@vsub SZ z u) (C (sol z u x0))) (@vsub SZ (C x) (C (sol z u x0))) <= f x)) -> forall (xs : @E SX) (zs us : @E SZ), zs = C xs -> @Subgrad SZ domg g zs (@vscale SZ rho us) -> domf xs /\ (forall x : @E SX, domf x -> f xs - rho * @ip SZ us (@vsub SZ (C x) (C xs)) <= f x) -> forall t : @Lyap_ADMM.T SX SZ, @Lyap_ADMM.Inv SX SZ domg g rho t -> @Lyap_ADMM.V SX SZ rho zs us (@Lyap_ADMM.admm1 SX SZ G C rho sol t) <= @Lyap_ADMM.V SX SZ rho zs us t - rho * @nsq SZ (@Lyap_ADMM.res SX SZ G C rho sol t) - rho * @nsq SZ (@Lyap_ADMM.dz SX SZ G C rho sol t).
Proof. exact (@Lyap_ADMM.admm_lyapunov_one_step). Qed.
Print Assumptions C03_admm_lyapunov_one_step.

(** hence sum of rho(||r||^2 + ||dz||^2) over n steps + V_n <= V_0, all n *)
Theorem C03_admm_residual_summable_partial :
  forall (SX SZ : InnerSpace) (domf : @E SX -> Prop) (f : @E SX -> R) (domg : @E SZ -> Prop) (g : @E SZ -> R) (G : Func R (@E SZ)) (C : @E SX -> @E SZ), @ProxOracle SZ domg g G -> @Convex SZ domg g -> forall rho : R, 0 < rho -> forall sol : @E SZ -> @E SZ -> @E SX -> @E SX, (forall (z u : @E SZ) (x0 : @E SX), domf (sol z u x0) /\ (forall x : @E SX, domf x -> f (sol z u x0) + rho * @ip SZ (@vsub SZ (@vsub SZ z u) (C (sol z u x0))) (@vsub SZ (C x) (C (sol z u x0))) <= f x)) -> forall (xs : @E SX) (zs us : @E SZ), zs = C xs -> @Subgrad SZ domg g zs (@vscale SZ rho us) -> domf xs /\ (forall x : @E SX, domf x -> f xs - rho * @ip SZ us (@vsub SZ (C x) (C xs)) <= f x) -> forall (n : nat) (t : @Lyap_ADMM.T SX SZ), @Lyap_ADMM.Inv SX SZ domg g rho t -> @Lyap_ADMM.sum_res SX SZ G C rho sol n t + @Lyap_ADMM.V SX SZ rho zs us (@iter (@Lyap_ADMM.T SX SZ) (@Lyap_ADMM.admm1 SX SZ G C rho sol) n t) <= @Lyap_ADMM.V SX SZ rho zs us t.
Proof. exact (@Lyap_ADMM.admm_residual_summable_partial). Qed.
Print Assumptions C03_admm_residual_summable_partial.

(** from the first iterate on the residuals are square-summable, bounded by V(s_1) *)
Theorem C03_admm_residual_sum_bounded :
  forall (SX SZ : InnerSpace) (domf : @E SX -> Prop) (f : @E SX -> R) (domg : @E SZ -> Prop) (g : @E SZ -> R) (G : Func R (@E SZ)) (C : @E SX -> @E SZ), @ProxOracle SZ domg g G -> @Convex SZ domg g -> forall rho : R, 0 < rho -> forall sol : @E SZ -> @E SZ -> @E SX -> @E SX, (forall (z u : @E SZ) (x0 : @E SX), domf (sol z u x0) /\ (forall x : @E SX, domf x -> f (sol z u x0) + rho * @ip SZ (@vsub SZ (@vsub SZ z u) (C (sol z u x0))) (@vsub SZ (C x) (C (sol z u x0))) <= f x)) -> forall (xs : @E SX) (zs us : @E SZ), zs = C xs -> @Subgrad SZ domg g zs (@vscale SZ rho us) -> domf xs /\ (forall x : @E SX, domf x -> f xs - rho * @ip SZ us (@vsub SZ (C x) (C xs)) <= f x) -> forall (n : nat) (t0 : @Lyap_ADMM.T SX SZ), @Lyap_ADMM.sum_res SX SZ G C rho sol n (@Lyap_ADMM.admm1 SX SZ G C rho sol t0) <= @Lyap_ADMM.V SX SZ rho zs us (@Lyap_ADMM.admm1 SX SZ G C rho sol t0).
Proof. exact (@Lyap_ADMM.admm_residual_sum_bounded). Qed.
Print Assumptions C03_admm_residual_sum_bounded.

(** V never increases from iteration 1 on *)
Theorem C03_admm_lyapunov_monotone :
  forall (SX SZ : InnerSpace) (domf : @E SX -> Prop) (f : @E SX -> R) (domg : @E SZ -> Prop) (g : @E SZ -> R) (G : Func R (@E SZ)) (C : @E SX -> @E SZ), @ProxOracle SZ domg g G -> @Convex SZ domg g -> forall rho : R, 0 < rho -> forall sol : @E SZ -> @E SZ -> @E SX -> @E SX, (forall (z u : @E SZ) (x0 : @E SX), domf (sol z u x0) /\ (forall x : @E SX, domf x -> f (sol z u x0) + rho * @ip SZ (@vsub SZ (@vsub SZ z u) (C (sol z u x0))) (@vsub SZ (C x) (C (sol z u x0))) <= f x)) -> forall (xs : @E SX) (zs us : @E SZ), zs = C xs -> @Subgrad SZ domg g zs (@vscale SZ rho us) -> domf xs /\ (forall x : @E SX, domf x -> f xs - rho * @ip SZ us (@vsub SZ (C x) (C xs)) <= f x) -> forall (n : nat) (t0 : @Lyap_ADMM.T SX SZ), @Lyap_ADMM.V SX SZ rho zs us (@iter (@Lyap_ADMM.T SX SZ) (@Lyap_ADMM.admm1 SX SZ G C rho sol) (S n) (@Lyap_ADMM.admm1 SX SZ G C rho sol t0)) <= @Lyap_ADMM.V SX SZ rho zs us (@iter (@Lyap_ADMM.T SX SZ) (@Lyap_ADMM.admm1 SX SZ G C rho sol) n (@Lyap_ADMM.admm1 SX SZ G C rho sol t0)).
Proof. exact (@Lyap_ADMM.admm_lyapunov_monotone). Qed.
Print Assumptions C03_admm_lyapunov_monotone.

(** the generated ADMM step on a one-block state is the map the Lyapunov theorems are about *)
Theorem C03_step_gen_is_admm1 :
  forall (SX SZ : InnerSpace) (G : Func R (@E SZ)) (C : @E SX -> @E SZ) (rho : R) (sol : @E SZ -> @E SZ -> @E SX -> @E SX) (F : Func R (@E SX)) (hasf : bool) (CH : @E SZ -> @E SX) (t : @Lyap_ADMM.T SX SZ) (zo : @E SZ), @C11_Admm.step_gen R Num_R (@E SX) (@E SZ) (VecOps_IS SZ) (@Lyap_ADMM.st1 SX SZ G C rho sol F hasf CH t zo) = @Lyap_ADMM.st1 SX SZ G C rho sol F hasf CH (@Lyap_ADMM.admm1 SX SZ G C rho sol t) (@snd (@E SX) (@E SZ) (@fst (@E SX * @E SZ) (@E SZ) t)).
Proof. exact (@Lyap_ADMM.step_gen_is_admm1). Qed.
Print Assumptions C03_step_gen_is_admm1.

(** a minimiser of the x-sub-problem (convex f, linear C) satisfies the first-order condition assumed of the x-update *)
Theorem C03_submin_first_order :
  forall (SX SZ : InnerSpace) (domf : @E SX -> Prop) (f : @E SX -> R) (C : @E SX -> @E SZ) (rho : R) (w : @E SZ), @Convex SX domf f -> @IsLinear SX SZ C -> forall p : @E SX, domf p -> (forall x : @E SX, domf x -> @Lyap_ADMM.phi SX SZ f C rho w p <= @Lyap_ADMM.phi SX SZ f C rho w x) -> forall x : @E SX, domf x -> f p + rho * @ip SZ (@vsub SZ w (C p)) (@vsub SZ (C x) (C p)) <= f x.
Proof. exact (@Lyap_ADMM.submin_first_order). Qed.
Print Assumptions C03_submin_first_order.

(** Non-vacuity: on the real line with f = g = 0 and C = identity every hypothesis of the
    LinearizedADMM fixed-point theorem holds (so the hypotheses are jointly satisfiable). *)
Example C03_hypotheses_satisfiable :
  Spec_LADMM.step_spec (Fix_LADMM.s_opt (SX:=R_space) (SZ:=R_space) zero_func zero_func (fun x => x) (fun y => y) (fun _ y => y) true 1 1 0 0 0 0)
  = Fix_LADMM.s_opt (SX:=R_space) (SZ:=R_space) zero_func zero_func (fun x => x) (fun y => y) (fun _ y => y) true 1 1 0 0 0 0.
Proof.
  apply (@Fix_LADMM.ladmm_fixed_point R_space R_space (fun _ => True) (fun _ => 0) (fun _ => True) (fun _ => 0));
    try exact zero_prox_oracle; try exact zero_convex; try lra; try reflexivity.
  - intros x y. reflexivity.
  - replace (@vscale R_space (/ 1) 0) with (0 : @E R_space) by (cbn; lra). apply zero_subgrad.
  - replace (@vscale R_space (- / 1) 0) with (0 : @E R_space) by (cbn; lra). apply zero_subgrad.
Qed.
