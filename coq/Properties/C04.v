(** C04 -- built-in operators compute exactly their documented mathematical maps. *)
From Coq Require Import List Bool Arith ZArith QArith Qcanon.
From SV Require Import LinAlg.Mat LinAlg.CQ LinAlg.CQExpr C04.Arr C04.Models C04.Theorems C04.Dense C04.FDLink.
Import ListNotations.
Local Open Scope nat_scope.

(** Finite differences (model [fd1] = what `snp.diff` with the prepend/append arrays computes),
    for every length and every value type with a subtraction: output length and, entry-wise,
    the documented banded matrices. *)
Theorem C04_fd_output_length :
  forall (K : Type) (k0 : K) (ksub : K -> K -> K) pre app circ (x : list K), x <> [] ->
    length (fd1 K k0 ksub pre app circ x) = fd_len pre app circ (length x).
Proof. exact fd1_length. Qed.
Print Assumptions C04_fd_output_length.

Theorem C04_fd_interior_rows :
  forall (K : Type) (k0 : K) (ksub : K -> K -> K) apd circ (x : list K) i, S i < length x ->
    nth i (fd1 K k0 ksub None apd circ x) k0 = ksub (nth (S i) x k0) (nth i x k0).
Proof. exact fd_interior. Qed.
Print Assumptions C04_fd_interior_rows.

Theorem C04_fd_interior_rows_prepend :
  forall (K : Type) (k0 : K) (ksub : K -> K -> K) p apd circ (x : list K) i, S i < length x ->
    nth (S i) (fd1 K k0 ksub (Some p) apd circ x) k0 = ksub (nth (S i) x k0) (nth i x k0).
Proof. exact fd_interior_prepend. Qed.
Print Assumptions C04_fd_interior_rows_prepend.

Theorem C04_fd_boundary_rows :
  forall (K : Type) (k0 : K) (ksub : K -> K -> K) (kopp : K -> K),
    (forall a, ksub a a = k0) -> (forall a, ksub a k0 = a) -> (forall a, ksub k0 a = kopp a) ->
    forall x : list K, x <> [] ->
      (forall apd circ, nth 0 (fd1 K k0 ksub (Some 0) apd circ x) k0 = k0) /\
      (forall apd circ, nth 0 (fd1 K k0 ksub (Some 1) apd circ x) k0 = nth 0 x k0) /\
      nth (length x - 1) (fd1 K k0 ksub None None true x) k0 = ksub (nth 0 x k0) (last x k0) /\
      nth (length x - 1) (fd1 K k0 ksub None (Some 0) false x) k0 = k0 /\
      nth (length x - 1) (fd1 K k0 ksub None (Some 1) false x) k0 = kopp (last x k0).
Proof.
  intros K k0 ksub kopp H1 H2 H3 x Hx. repeat split.
  - intros. now apply fd_first_prepend0.
  - intros. now apply fd_first_prepend1.
  - now apply fd_last_circular.
  - now apply fd_last_append0.
  - now apply (fd_last_append1 K k0 ksub kopp).
Qed.
Print Assumptions C04_fd_boundary_rows.

(** The dense matrix that the harness compares with the implementation acts exactly as the
    sparse rows of the model say (every output entry = sum of coefficient * input entry). *)
Theorem C04_dense_model_acts_as_rows :
  forall (n : nat) (R : crows) (x : cvec), length x = n ->
    Forall (fun r => Forall (fun p => snd p < n) r) R -> c_mv (c_dense n R) x = c_apply R x.
Proof. exact dense_acts. Qed.
Print Assumptions C04_dense_model_acts_as_rows.

(** ... and the finite-difference rows are the reference semantics [fd1] (whose entries are the
    documented banded matrices above), for every length, boundary option and row. *)
Theorem C04_fd_stencil_row_is_fd1_entry :
  forall pre apd circ (x : cvec) i, x <> [] -> S i < length (ext pre apd circ x) ->
    c_apply_row (zrow (fd_stencil pre apd circ (length x) i)) x = nth i (fd1 CQ c0 csub pre apd circ x) c0.
Proof. exact fd_stencil_row_is_fd1_entry. Qed.
Print Assumptions C04_fd_stencil_row_is_fd1_entry.

(** row-major indexing is consistent: ravel (unravel k) = k *)
Theorem C04_ravel_unravel : forall s k, k < size s -> ravel s (unravel s k) = k.
Proof. exact ravel_unravel. Qed.
Print Assumptions C04_ravel_unravel.

(** X-ray transform: a pixel whose two bins lie inside the detector deposits its whole weight
    (w + (1 - w) = 1) in every view -- total mass is conserved. *)
Theorem C04_xray_mass_conservation :
  forall (ny : nat) (ind : Z) (w : CQ), (0 <= ind)%Z -> (ind + 1 < Z.of_nat ny)%Z ->
  fold_right (fun b acc =>
     cadd (cadd (if Z.eqb ind (Z.of_nat b) then w else c0)
                (if Z.eqb (ind + 1) (Z.of_nat b) && Z.leb 0 ind then csub c1 w else c0)) acc)
    c0 (seq 0 ny) = c1.
Proof. exact xray_mass_conservation. Qed.
Print Assumptions C04_xray_mass_conservation.

(** stacks are block matrices (shared with C05) *)
Theorem C04_vertical_stack : forall Ms x, c_mv (vstack Ms) x = concat (map (fun M => c_mv M x) Ms).
Proof. exact mv_vstack. Qed.
Print Assumptions C04_vertical_stack.

(** non-vacuity / sanity of the models *)
Example C04_fd_model_example :
  snd (fd_model [3] 0 None (Some 1) false) =
  [[cq (-1) 0; cq 1 0; cq 0 0]; [cq 0 0; cq (-1) 0; cq 1 0]; [cq 0 0; cq 0 0; cq (-1) 0]].
Proof. vm_compute. reflexivity. Qed.
Example C04_dft_model_example :
  snd (dft_model [2] [(true, 2)] c1) = [[cq 1 0; cq 1 0]; [cq 1 0; cq (-1) 0]].
Proof. vm_compute. reflexivity. Qed.
