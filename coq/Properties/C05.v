(** C05 -- operator calculus denotes the pointwise / matrix construction. *)
From Coq Require Import List Bool Ring QArith Qcanon.
From SV Require Import LinAlg.Mat LinAlg.CQ LinAlg.MExpr LinAlg.CQExpr LinAlg.RepStack.
Import ListNotations.

(** For every commutative ring with involution K (R, C, Q, Q[i] ...), every dimension n, every
    expression tree e built with + - scalar* @ .T .H .conj() .gram_op over n x n leaves and every
    vector x: the closure scico builds for e, applied to x, equals the matrix obtained by applying
    the same construction to the operands' matrices, times x -- and likewise for the adjoint
    closure. *)
Theorem C05_expression_tree_is_matrix_construction :
  forall (K : Type) (r0 r1 : K) (radd rmul rsub : K -> K -> K) (ropp : K -> K),
    ring_theory r0 r1 radd rmul rsub ropp eq ->
  forall cj : K -> K,
    (forall a b, cj (radd a b) = radd (cj a) (cj b)) ->
    (forall a b, cj (rmul a b) = rmul (cj a) (cj b)) ->
    (forall a, cj (cj a) = a) -> cj r0 = r0 ->
  forall (n : nat) (e : mexpr K), wfe K n e ->
    wf K n n (fst (mden2 K r0 r1 radd rmul ropp cj n e)) /\
    wf K n n (snd (mden2 K r0 r1 radd rmul ropp cj n e)) /\
    (forall x, length x = n ->
       fden K r0 radd rmul ropp cj n e x = mv K r0 radd rmul (fst (mden2 K r0 r1 radd rmul ropp cj n e)) x) /\
    (forall y, length y = n ->
       fadj K r0 radd rmul ropp cj n e y = mv K r0 radd rmul (snd (mden2 K r0 r1 radd rmul ropp cj n e)) y).
Proof. exact fden_is_matrix. Qed.
Print Assumptions C05_expression_tree_is_matrix_construction.

(** (A + B) x = A x + B x, (c A) x = c (A x), (A B) x = A (B x) for all sizes *)
Theorem C05_sum_scale_product :
  forall (K : Type) (r0 r1 : K) (radd rmul rsub : K -> K -> K) (ropp : K -> K),
    ring_theory r0 r1 radd rmul rsub ropp eq ->
  (forall n A B x, length A = length B -> Forall (fun r => length r = n) A -> Forall (fun r => length r = n) B ->
     mv K r0 radd rmul (madd K radd A B) x = vadd K radd (mv K r0 radd rmul A x) (mv K r0 radd rmul B x)) /\
  (forall c A x, mv K r0 radd rmul (mscale K rmul c A) x = vscale K rmul c (mv K r0 radd rmul A x)) /\
  (forall m k n A B x, wf K m k A -> wf K k n B -> length x = n ->
     mv K r0 radd rmul (mmul K r0 radd rmul n A B) x = mv K r0 radd rmul A (mv K r0 radd rmul B x)).
Proof.
  intros K r0 r1 radd rmul rsub ropp RT. split; [|split].
  - exact (fun n => mv_madd K r0 r1 radd rmul rsub ropp RT n).
  - exact (mv_mscale K r0 r1 radd rmul rsub ropp RT).
  - exact (mv_mmul K r0 r1 radd rmul rsub ropp RT).
Qed.
Print Assumptions C05_sum_scale_product.

(** closed-form shortcuts of the diagonal family equal the generic construction *)
Theorem C05_diagonal_shortcuts :
  forall (K : Type) (r0 r1 : K) (radd rmul rsub : K -> K -> K) (ropp : K -> K),
    ring_theory r0 r1 radd rmul rsub ropp eq ->
  (forall d1 d2 x, length d1 = length d2 ->
     vmul K rmul (vadd K radd d1 d2) x = vadd K radd (vmul K rmul d1 x) (vmul K rmul d2 x)) /\
  (forall d1 d2 x, vmul K rmul (vmul K rmul d1 d2) x = vmul K rmul d1 (vmul K rmul d2 x)) /\
  (forall c d x, vmul K rmul (vscale K rmul c d) x = vscale K rmul c (vmul K rmul d x)) /\
  (forall c x, vmul K rmul (repeat c (length x)) x = vscale K rmul c x).
Proof.
  intros K r0 r1 radd rmul rsub ropp RT. repeat split.
  - exact (diag_add K r0 r1 radd rmul rsub ropp RT).
  - exact (diag_comp K r0 r1 radd rmul rsub ropp RT).
  - exact (diag_scale K r0 r1 radd rmul rsub ropp RT).
  - exact (scaled_identity_is_diag K rmul).
Qed.
Print Assumptions C05_diagonal_shortcuts.

(** stacks are block matrices *)
Theorem C05_vertical_stack : forall Ms x, c_mv (vstack Ms) x = concat (map (fun M => c_mv M x) Ms).
Proof. exact mv_vstack. Qed.
Print Assumptions C05_vertical_stack.
Theorem C05_diagonal_stack : forall (A B : cmat) n1 n2 x y,
  length x = n1 -> length y = n2 ->
  Forall (fun r => length r = n1) A -> Forall (fun r => length r = n2) B ->
  c_mv (blockdiag [(n1, A); (n2, B)] 0 (n1 + n2)%nat) (x ++ y) = c_mv A x ++ c_mv B y.
Proof. exact mv_blockdiag2. Qed.
Print Assumptions C05_diagonal_stack.

(** non-vacuity: a concrete tree over Q[i] evaluates as the theorem says *)
Example C05_example :
  let A := [[cq 1 2; cq 0 1]; [cq 3 0; cq (-1) 1]] in
  let B := [[cq 0 1; cq 2 0]; [cq 1 1; cq 0 0]] in
  let e : c_mexpr := MAdd (MT (MComp (MLeaf A) (MConj (MLeaf B)))) (MScale (cq 3 (-1)) (MGram (MLeaf A))) in
  c_fden 2 e [cq 1 1; cq 2 (-1)] = c_mv (fst (c_mden2 2 e)) [cq 1 1; cq 2 (-1)].
Proof. vm_compute. reflexivity. Qed.

(** replicated stack: row o of the replicated operator is row j of A applied to slice r of the input, for every
    number of replicates, operand size and (input axis, output axis) combination *)
Theorem C05_replicated_stack : forall k m n ia oa (A : cmat) (x : cvec) o,
  (0 < k)%nat -> (0 < m)%nat -> (0 < n)%nat ->
  length A = m -> Forall (fun row => length row = n) A -> length x = (k * n)%nat -> (o < k * m)%nat ->
  let '(r, j) := rep_split k m oa o in
  nth o (c_mv (rep_mat k m n ia oa A) x) c0 = c_dot (nth j A []) (rep_slice k n ia r x).
Proof. exact rep_mat_acts. Qed.
Print Assumptions C05_replicated_stack.
Theorem C05_replicated_stack_blockdiag : forall k m n (A : cmat) (xs : list cvec),
  (0 < k)%nat -> (0 < m)%nat -> (0 < n)%nat ->
  length A = m -> Forall (fun row => length row = n) A ->
  length xs = k -> Forall (fun v => length v = n) xs ->
  c_mv (rep_mat k m n 0 0 A) (concat xs) = concat (map (c_mv A) xs).
Proof. exact rep_mat_blockdiag. Qed.
Print Assumptions C05_replicated_stack_blockdiag.
