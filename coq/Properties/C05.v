(** C05 -- operator calculus denotes the pointwise / matrix construction. *)
From Coq Require Import List Bool Ring QArith Qcanon.
From SV Require Import LinAlg.Mat LinAlg.CQ LinAlg.MExpr LinAlg.CQExpr LinAlg.RepStack LinAlg.RepStack3.
Import ListNotations.

(** For every commutative ring with involution K (R, C, Q, Q[i] ...), every dimension n, every
    expression tree e built with + - scalar* @ .T .H .conj() .gram_op over n x n leaves and every
    vector x: the closure scico builds for e, applied to x, equals the matrix obtained by applying
    the same construction to the operands' matrices, times x -- and likewise for the adjoint
    closure. *)
Theorem C05_expression_tree_is_matrix_construction :
  forall (K : Type) (r0 r1 : K) (radd rmul rsub : K -> K -> K) (ropp : K -> K),
    ring_theory r0 r1 radd rmul rsub ropp eq ->
  forall cj : K -> K,
    (forall a b, cj (radd a b) = radd (cj a) (cj b)) ->
    (forall a b, cj (rmul a b) = rmul (cj a) (cj b)) ->
    (forall a, cj (cj a) = a) -> cj r0 = r0 ->
  forall (n : nat) (e : mexpr K), wfe K n e ->
    wf K n n (fst (mden2 K r0 r1 radd rmul ropp cj n e)) /\
    wf K n n (snd (mden2 K r0 r1 radd rmul ropp cj n e)) /\
    (forall x, length x = n ->
       fden K r0 radd rmul ropp cj n e x = mv K r0 radd rmul (fst (mden2 K r0 r1 radd rmul ropp cj n e)) x) /\
    (forall y, length y = n ->
       fadj K r0 radd rmul ropp cj n e y = mv K r0 radd rmul (snd (mden2 K r0 r1 radd rmul ropp cj n e)) y).
Proof. exact fden_is_matrix. Qed.
Print Assumptions C05_expression_tree_is_matrix_construction.

(** (A + B) x = A x + B x, (c A) x = c (A x), (A B) x = A (B x) for all sizes *)
Theorem C05_sum_scale_product :
  forall (K : Type) (r0 r1 : K) (radd rmul rsub : K -> K -> K) (ropp : K -> K),
    ring_theory r0 r1 radd rmul rsub ropp eq ->
  (forall n A B x, length A = length B -> Forall (fun r => length r = n) A -> Forall (fun r => length r = n) B ->
     mv K r0 radd rmul (madd K radd A B) x = vadd K radd (mv K r0 radd rmul A x) (mv K r0 radd rmul B x)) /\
  (forall c A x, mv K r0 radd rmul (mscale K rmul c A) x = vscale K rmul c (mv K r0 radd rmul A x)) /\
  (forall m k n A B x, wf K m k A -> wf K k n B -> length x = n ->
     mv K r0 radd rmul (mmul K r0 radd rmul n A B) x = mv K r0 radd rmul A (mv K r0 radd rmul B x)).
Proof.
  intros K r0 r1 radd rmul rsub ropp RT. split; [|split].
  - exact (fun n => mv_madd K r0 r1 radd rmul rsub ropp RT n).
  - exact (mv_mscale K r0 r1 radd rmul rsub ropp RT).
  - exact (mv_mmul K r0 r1 radd rmul rsub ropp RT).
Qed.
Print Assumptions C05_sum_scale_product.

(** closed-form shortcuts of the diagonal family equal the generic construction *)
Theorem C05_diagonal_shortcuts :
  forall (K : Type) (r0 r1 : K) (radd rmul rsub : K -> K -> K) (ropp : K -> K),
    ring_theory r0 r1 radd rmul rsub ropp eq ->
  (forall d1 d2 x, length d1 = length d2 ->
     vmul K rmul (vadd K radd d1 d2) x = vadd K radd (vmul K rmul d1 x) (vmul K rmul d2 x)) /\
  (forall d1 d2 x, vmul K rmul (vmul K rmul d1 d2) x = vmul K rmul d1 (vmul K rmul d2 x)) /\
  (forall c d x, vmul K rmul (vscale K rmul c d) x = vscale K rmul c (vmul K rmul d x)) /\
  (forall c x, vmul K rmul (repeat c (length x)) x = vscale K rmul c x).
Proof.
  intros K r0 r1 radd rmul rsub ropp RT. repeat split.
  - exact (diag_add K r0 r1 radd rmul rsub ropp RT).
  - exact (diag_comp K r0 r1 radd rmul rsub ropp RT).
  - exact (diag_scale K r0 r1 radd rmul rsub ropp RT).
  - exact (scaled_identity_is_diag K rmul).
Qed.
Print Assumptions C05_diagonal_shortcuts.

(** stacks are block matrices *)
Theorem C05_vertical_stack : forall Ms x, c_mv (vstack Ms) x = concat (map (fun M => c_mv M x) Ms).
Proof. exact mv_vstack. Qed.
Print Assumptions C05_vertical_stack.
Theorem C05_diagonal_stack : forall (A B : cmat) n1 n2 x y,
  length x = n1 -> length y = n2 ->
  Forall (fun r => length r = n1) A -> Forall (fun r => length r = n2) B ->
  c_mv (blockdiag [(n1, A); (n2, B)] 0 (n1 + n2)%nat) (x ++ y) = c_mv A x ++ c_mv B y.
Proof. exact mv_blockdiag2. Qed.
Print Assumptions C05_diagonal_stack.

(** non-vacuity: a concrete tree over Q[i] evaluates as the theorem says *)
Example C05_example :
  let A := [[cq 1 2; cq 0 1]; [cq 3 0; cq (-1) 1]] in
  let B := [[cq 0 1; cq 2 0]; [cq 1 1; cq 0 0]] in
  let e : c_mexpr := MAdd (MT (MComp (MLeaf A) (MConj (MLeaf B)))) (MScale (cq 3 (-1)) (MGram (MLeaf A))) in
  c_fden 2 e [cq 1 1; cq 2 (-1)] = c_mv (fst (c_mden2 2 e)) [cq 1 1; cq 2 (-1)].
Proof. vm_compute. reflexivity. Qed.

(** replicated stack: row o of the replicated operator is row j of A applied to slice r of the input, for every
    number of replicates, operand size and (input axis, output axis) combination *)
Theorem C05_replicated_stack : forall k m n ia oa (A : cmat) (x : cvec) o,
  (0 < k)%nat -> (0 < m)%nat -> (0 < n)%nat ->
  length A = m -> Forall (fun row => length row = n) A -> length x = (k * n)%nat -> (o < k * m)%nat ->
  let '(r, j) := rep_split k m oa o in
  nth o (c_mv (rep_mat k m n ia oa A) x) c0 = c_dot (nth j A []) (rep_slice k n ia r x).
Proof. exact rep_mat_acts. Qed.
Print Assumptions C05_replicated_stack.
Theorem C05_replicated_stack_blockdiag : forall k m n (A : cmat) (xs : list cvec),
  (0 < k)%nat -> (0 < m)%nat -> (0 < n)%nat ->
  length A = m -> Forall (fun row => length row = n) A ->
  length xs = k -> Forall (fun v => length v = n) xs ->
  c_mv (rep_mat k m n 0 0 A) (concat xs) = concat (map (c_mv A) xs).
Proof. exact rep_mat_blockdiag. Qed.
Print Assumptions C05_replicated_stack_blockdiag.

(** ** Tie to the source.  The closure pairs (eval_fn, adj_fn) that scico/linop/_linop.py builds
    (modules SVGen.C05_Linop, C05_LinopComp, C05_LinopNeg, regenerated by tools/py2coq.py on
    every run), read at K^n over any ring with involution ([MatLin]: + is vadd, - is adding the
    opposite, c * v is vscale, v / c is vscale (rinv c), v.conj() is vconj), are the one-step
    clauses of the model [fden] / [fadj] the theorems above are about.  [F e] = (fden e, fadj e). *)
From Coq Require Import List Bool Reals.
From SV Require Import Base.Num C11.Overload LinAlg.GenSig LinAlg.Mat LinAlg.MExpr Base.InnerSpace LinAlg.AdjCalc LinAlg.Gen.
From SVGen Require C05_Linop C05_LinopComp C05_LinopNeg.

(** __add__: (self(x) + other(x), self.adj(x) + other.adj(x)) is the MAdd clause of fden / fadj *)
Theorem C05_gen_add :
  forall (K : Type) (r0 : K) (radd rmul : K -> K -> K) (ropp cj rinv : K -> K) (n : nat) (a b : mexpr K), @C05_Linop.__add___gen K (vec K) (vec K) (MatLin K radd rmul ropp cj rinv) (MatLin K radd rmul ropp cj rinv) (F K r0 radd rmul ropp cj n a) (F K r0 radd rmul ropp cj n b) = F K r0 radd rmul ropp cj n (@MAdd K a b).
Proof. exact (@Gen.add_is_clause). Qed.
Print Assumptions C05_gen_add.

(** __sub__ is the MSub clause *)
Theorem C05_gen_sub :
  forall (K : Type) (r0 : K) (radd rmul : K -> K -> K) (ropp cj rinv : K -> K) (n : nat) (a b : mexpr K), @C05_Linop.__sub___gen K (vec K) (vec K) (MatLin K radd rmul ropp cj rinv) (MatLin K radd rmul ropp cj rinv) (F K r0 radd rmul ropp cj n a) (F K r0 radd rmul ropp cj n b) = F K r0 radd rmul ropp cj n (@MSub K a b).
Proof. exact (@Gen.sub_is_clause). Qed.
Print Assumptions C05_gen_sub.

(** __mul__ / __rmul__ by a scalar c: (c * self(x), conj(c) * self.adj(x)) is the MScale clause *)
Theorem C05_gen_mul :
  forall (K : Type) (r0 r1 : K) (radd rmul : K -> K -> K) (ropp cj rinv : K -> K) (n : nat) (c : K) (a : mexpr K), @C05_Linop.__mul___gen K (vec K) (vec K) (MatSc K r1 ropp cj) (MatLin K radd rmul ropp cj rinv) (MatLin K radd rmul ropp cj rinv) (F K r0 radd rmul ropp cj n a) c = F K r0 radd rmul ropp cj n (@MScale K c a) /\ @C05_Linop.__rmul___gen K (vec K) (vec K) (MatSc K r1 ropp cj) (MatLin K radd rmul ropp cj rinv) (MatLin K radd rmul ropp cj rinv) (F K r0 radd rmul ropp cj n a) c = F K r0 radd rmul ropp cj n (@MScale K c a).
Proof. exact (@Gen.mul_is_clause). Qed.
Print Assumptions C05_gen_mul.

(** __neg__ = (-1.0) * self is MScale (-1) *)
Theorem C05_gen_neg :
  forall (K : Type) (r0 r1 : K) (radd rmul : K -> K -> K) (ropp cj rinv : K -> K) (n : nat) (a : mexpr K), @C05_LinopNeg.__neg___gen K (vec K) (vec K) (MatSc K r1 ropp cj) (MatLin K radd rmul ropp cj rinv) (MatLin K radd rmul ropp cj rinv) (F K r0 radd rmul ropp cj n a) = F K r0 radd rmul ropp cj n (@MScale K (ropp r1) a).
Proof. exact (@Gen.neg_is_clause). Qed.
Print Assumptions C05_gen_neg.

(** __truediv__: (self(x) / c, self.adj(x) / conj(c)) is MScale (1/c), division being multiplication by the inverse *)
Theorem C05_gen_truediv :
  forall (K : Type) (r0 r1 : K) (radd rmul : K -> K -> K) (ropp cj rinv : K -> K) (n : nat) (c : K) (a : mexpr K), cj (rinv c) = rinv (cj c) -> (forall x : vec K, @l_eval (vec K) (vec K) (@C05_Linop.__truediv___gen K (vec K) (vec K) (MatSc K r1 ropp cj) (MatLin K radd rmul ropp cj rinv) (MatLin K radd rmul ropp cj rinv) (F K r0 radd rmul ropp cj n a) c) x = fden K r0 radd rmul ropp cj n (@MScale K (rinv c) a) x) /\ (forall y : vec K, @l_adj (vec K) (vec K) (@C05_Linop.__truediv___gen K (vec K) (vec K) (MatSc K r1 ropp cj) (MatLin K radd rmul ropp cj rinv) (MatLin K radd rmul ropp cj rinv) (F K r0 radd rmul ropp cj n a) c) y = fadj K r0 radd rmul ropp cj n (@MScale K (rinv c) a) y).
Proof. exact (@Gen.truediv_is_clause). Qed.
Print Assumptions C05_gen_truediv.

(** .T: for a complex input dtype conj(adj(conj x)) / conj(self(conj x)) (the MT clause), else (adj, eval) (= MH) *)
Theorem C05_gen_T :
  forall (K : Type) (r0 : K) (radd rmul : K -> K -> K) (ropp cj rinv : K -> K) (n : nat) (cplx : bool) (a : mexpr K), @C05_Linop.T_gen K (vec K) (vec K) (MatLin K radd rmul ropp cj rinv) (MatLin K radd rmul ropp cj rinv) cplx (F K r0 radd rmul ropp cj n a) = (if cplx then F K r0 radd rmul ropp cj n (@MT K a) else F K r0 radd rmul ropp cj n (@MH K a)).
Proof. exact (@Gen.T_is_clause). Qed.
Print Assumptions C05_gen_T.

(** .H is the MH clause (closures swapped) *)
Theorem C05_gen_H :
  forall (K : Type) (r0 : K) (radd rmul : K -> K -> K) (ropp cj : K -> K) (n : nat) (a : mexpr K), @C05_Linop.H_gen (vec K) (vec K) (F K r0 radd rmul ropp cj n a) = F K r0 radd rmul ropp cj n (@MH K a).
Proof. exact (@Gen.H_is_clause). Qed.
Print Assumptions C05_gen_H.

(** .conj() is the MConj clause *)
Theorem C05_gen_conj :
  forall (K : Type) (r0 : K) (radd rmul : K -> K -> K) (ropp cj rinv : K -> K) (n : nat) (a : mexpr K), @C05_Linop.conj_gen K (vec K) (vec K) (MatLin K radd rmul ropp cj rinv) (MatLin K radd rmul ropp cj rinv) (F K r0 radd rmul ropp cj n a) = F K r0 radd rmul ropp cj n (@MConj K a).
Proof. exact (@Gen.conj_is_clause). Qed.
Print Assumptions C05_gen_conj.

(** gram_op / gram: x -> adj(self(x)) in both directions (MGram) *)
Theorem C05_gen_gram :
  forall (K : Type) (r0 : K) (radd rmul : K -> K -> K) (ropp cj : K -> K) (n : nat) (a : mexpr K), @C05_Linop.gram_op_gen (vec K) (vec K) (F K r0 radd rmul ropp cj n a) = F K r0 radd rmul ropp cj n (@MGram K a) /\ (forall x : vec K, @C05_Linop.gram_gen (vec K) (vec K) (F K r0 radd rmul ropp cj n a) x = fadj K r0 radd rmul ropp cj n a (fden K r0 radd rmul ropp cj n a x)).
Proof. exact (@Gen.gram_is_clause). Qed.
Print Assumptions C05_gen_gram.

(** ComposedLinearOperator (A(B x), B.adj(A.adj z)) is the MComp clause *)
Theorem C05_gen_compose :
  forall (K : Type) (r0 : K) (radd rmul : K -> K -> K) (ropp cj : K -> K) (n : nat) (a b : mexpr K) (jit : bool), @C05_LinopComp.compose_gen (vec K) (vec K) (vec K) (F K r0 radd rmul ropp cj n a) (F K r0 radd rmul ropp cj n b) jit = F K r0 radd rmul ropp cj n (@MComp K a b).
Proof. exact (@Gen.compose_is_clause). Qed.
Print Assumptions C05_gen_compose.

(** hence, by induction: the closure pair scico builds for ANY expression tree is (fden, fadj) of the tree *)
Theorem C05_gen_expression :
  forall (K : Type) (r0 r1 : K) (radd rmul : K -> K -> K) (ropp cj rinv : K -> K) (n : nat) (e : mexpr K), build K r0 r1 radd rmul ropp cj rinv n e = F K r0 radd rmul ropp cj n e.
Proof. exact (@Gen.build_is_fden_fadj). Qed.
Print Assumptions C05_gen_expression.

(** ** Tie to the source, diagonal family.  The class-specific overrides of scico/linop/_diag.py
    (modules SVGen.C05_Diag, C05_ScaledId, C05_ScaledIdDiag, regenerated by tools/py2coq.py on
    every run as functions on diagonals / scalars) denote the same operator ([same]: forward and
    adjoint closures agree at every vector) as the GENERIC construction of scico/linop/_linop.py
    (module SVGen.C05_Linop) applied to the same operands.  [dop d] = Diagonal(d), [sop c] =
    ScaledIdentity(c); any commutative ring with involution; x / c is multiplication by rinv c. *)
From SV Require Import Base.Num C11.Overload LinAlg.GenSig LinAlg.Gen LinAlg.GenDiag.
From SVGen Require C05_Diag C05_ScaledId C05_ScaledIdDiag.

(** Diagonal overrides: + - (equal lengths), * and / by a scalar, @, conj, H, T (complex-dtype construction; the real-dtype one when the diagonal is real), gram_op *)
Theorem C05_gen_diagonal_shortcuts :
  forall (K : Type) (r0 r1 : K) (radd rmul rsub : K -> K -> K) (ropp : K -> K), @ring_theory K r0 r1 radd rmul rsub ropp (@eq K) -> forall cj : K -> K, (forall a b : K, cj (radd a b) = radd (cj a) (cj b)) -> (forall a b : K, cj (rmul a b) = rmul (cj a) (cj b)) -> (forall a : K, cj (cj a) = a) -> cj r0 = r0 -> forall rinv : K -> K, (forall c : K, cj (rinv c) = rinv (cj c)) -> (forall d1 d2 : list K, @length K d1 = @length K d2 -> same K (dop K rmul cj (@C05_Diag.__add___gen K (list K) (KDiag K radd rmul ropp cj rinv) d1 d2)) (@C05_Linop.__add___gen K (vec K) (vec K) (MLin K radd rmul ropp cj rinv) (MLin K radd rmul ropp cj rinv) (dop K rmul cj d1) (dop K rmul cj d2)) /\ same K (dop K rmul cj (@C05_Diag.__sub___gen K (list K) (KDiag K radd rmul ropp cj rinv) d1 d2)) (@C05_Linop.__sub___gen K (vec K) (vec K) (MLin K radd rmul ropp cj rinv) (MLin K radd rmul ropp cj rinv) (dop K rmul cj d1) (dop K rmul cj d2))) /\ (forall (d : vec K) (c : K), same K (dop K rmul cj (@C05_Diag.__mul___gen K (vec K) (KDiag K radd rmul ropp cj rinv) d c)) (@C05_Linop.__mul___gen K (vec K) (vec K) (MSc K r1 ropp cj) (MLin K radd rmul ropp cj rinv) (MLin K radd rmul ropp cj rinv) (dop K rmul cj d) c) /\ same K (dop K rmul cj (@C05_Diag.__truediv___gen K (vec K) (KDiag K radd rmul ropp cj rinv) d c)) (@C05_Linop.__truediv___gen K (vec K) (vec K) (MSc K r1 ropp cj) (MLin K radd rmul ropp cj rinv) (MLin K radd rmul ropp cj rinv) (dop K rmul cj d) c)) /\ (forall (d1 d2 : vec K) (jit : bool), same K (dop K rmul cj (@C05_Diag.__matmul___gen K (vec K) (KDiag K radd rmul ropp cj rinv) d1 d2)) (@C05_LinopComp.compose_gen (vec K) (vec K) (vec K) (dop K rmul cj d1) (dop K rmul cj d2) jit)) /\ (forall d : vec K, same K (dop K rmul cj (@C05_Diag.conj_gen K (vec K) (KDiag K radd rmul ropp cj rinv) d)) (@C05_Linop.conj_gen K (vec K) (vec K) (MLin K radd rmul ropp cj rinv) (MLin K radd rmul ropp cj rinv) (dop K rmul cj d)) /\ same K (dop K rmul cj (@C05_Diag.H_gen K (vec K) (KDiag K radd rmul ropp cj rinv) d)) (@C05_Linop.H_gen (vec K) (vec K) (dop K rmul cj d)) /\ same K (dop K rmul cj (@C05_Diag.T_gen (vec K) d)) (@C05_Linop.T_gen K (vec K) (vec K) (MLin K radd rmul ropp cj rinv) (MLin K radd rmul ropp cj rinv) true (dop K rmul cj d)) /\ (vconj K cj d = d -> same K (dop K rmul cj (@C05_Diag.T_gen (vec K) d)) (@C05_Linop.T_gen K (vec K) (vec K) (MLin K radd rmul ropp cj rinv) (MLin K radd rmul ropp cj rinv) false (dop K rmul cj d))) /\ same K (dop K rmul cj (@C05_Diag.gram_op_gen K (vec K) (KDiag K radd rmul ropp cj rinv) d)) (@C05_Linop.gram_op_gen (vec K) (vec K) (dop K rmul cj d))).
Proof. exact (@GenDiag.diagonal_shortcuts_are_generic). Qed.
Print Assumptions C05_gen_diagonal_shortcuts.

(** ScaledIdentity overrides: + -, * and / by a scalar, @ ScaledIdentity, @ Diagonal, conj, gram_op; and ScaledIdentity(c) acts as Diagonal(c, ..., c) *)
Theorem C05_gen_scaled_identity_shortcuts :
  forall (K : Type) (r0 r1 : K) (radd rmul rsub : K -> K -> K) (ropp : K -> K), @ring_theory K r0 r1 radd rmul rsub ropp (@eq K) -> forall cj : K -> K, (forall a b : K, cj (radd a b) = radd (cj a) (cj b)) -> (forall a b : K, cj (rmul a b) = rmul (cj a) (cj b)) -> (forall a : K, cj (cj a) = a) -> cj r0 = r0 -> forall rinv : K -> K, (forall c : K, cj (rinv c) = rinv (cj c)) -> (forall c1 c2 : K, same K (sop K rmul cj (@C05_ScaledId.__add___gen K (vec K) (KDiag K radd rmul ropp cj rinv) c1 c2)) (@C05_Linop.__add___gen K (vec K) (vec K) (MLin K radd rmul ropp cj rinv) (MLin K radd rmul ropp cj rinv) (sop K rmul cj c1) (sop K rmul cj c2)) /\ same K (sop K rmul cj (@C05_ScaledId.__sub___gen K (vec K) (KDiag K radd rmul ropp cj rinv) c1 c2)) (@C05_Linop.__sub___gen K (vec K) (vec K) (MLin K radd rmul ropp cj rinv) (MLin K radd rmul ropp cj rinv) (sop K rmul cj c1) (sop K rmul cj c2))) /\ (forall c s : K, same K (sop K rmul cj (@C05_ScaledId.__mul___gen K (vec K) (KDiag K radd rmul ropp cj rinv) c s)) (@C05_Linop.__mul___gen K (vec K) (vec K) (MSc K r1 ropp cj) (MLin K radd rmul ropp cj rinv) (MLin K radd rmul ropp cj rinv) (sop K rmul cj c) s) /\ same K (sop K rmul cj (@C05_ScaledId.__truediv___gen K (vec K) (KDiag K radd rmul ropp cj rinv) c s)) (@C05_Linop.__truediv___gen K (vec K) (vec K) (MSc K r1 ropp cj) (MLin K radd rmul ropp cj rinv) (MLin K radd rmul ropp cj rinv) (sop K rmul cj c) s)) /\ (forall (c1 c2 : K) (jit : bool), same K (sop K rmul cj (@C05_ScaledId.matmul_scaled_gen K (vec K) (KDiag K radd rmul ropp cj rinv) c1 c2)) (@C05_LinopComp.compose_gen (vec K) (vec K) (vec K) (sop K rmul cj c1) (sop K rmul cj c2) jit)) /\ (forall (c : K) (d : vec K) (jit : bool), same K (dop K rmul cj (@C05_ScaledIdDiag.matmul_diag_gen K (vec K) (KDiag K radd rmul ropp cj rinv) c d)) (@C05_LinopComp.compose_gen (vec K) (vec K) (vec K) (sop K rmul cj c) (dop K rmul cj d) jit)) /\ (forall c : K, same K (sop K rmul cj (@C05_ScaledId.conj_gen K (vec K) (KDiag K radd rmul ropp cj rinv) c)) (@C05_Linop.conj_gen K (vec K) (vec K) (MLin K radd rmul ropp cj rinv) (MLin K radd rmul ropp cj rinv) (sop K rmul cj c)) /\ same K (sop K rmul cj (@C05_ScaledId.gram_op_gen K (vec K) (KDiag K radd rmul ropp cj rinv) c)) (@C05_Linop.gram_op_gen (vec K) (vec K) (sop K rmul cj c)) /\ (forall x : vec K, @l_eval (vec K) (vec K) (sop K rmul cj c) x = @l_eval (vec K) (vec K) (dop K rmul cj (@repeat K c (@length K x))) x)).
Proof. exact (@GenDiag.scaled_identity_shortcuts_are_generic). Qed.
Print Assumptions C05_gen_scaled_identity_shortcuts.

(** ** Tie to the source, convolution family.  The overrides of + - and scalar * / in Convolve,
    ConvolveByX (scico/linop/_convolve.py) and CircularConvolve (scico/linop/_circconv.py),
    regenerated by tools/py2coq.py (modules SVGen.C05_Conv, C05_ConvX, C05_Circ): over ANY
    signature of scalars / kernels / vectors, the forward map of the combined kernel is the
    generic forward closure whenever convolution is bilinear in the kernel (resp. the element-wise
    product distributes and the inverse DFT is linear). *)
From SV Require Import Base.Num C11.Overload LinAlg.GenSig LinAlg.GenConv.
From SVGen Require C05_Linop C05_Conv C05_ConvX C05_Circ.

Theorem C05_gen_convolve_shortcuts :
  forall (Sc Hk X Y : Type) (SS : ScSig Sc) (DK : DiagSig Sc Hk) (LX : LinSig Sc X) (LY : LinSig Sc Y) (conv : Hk -> X -> Y), (forall (h1 h2 : Hk) (x : X), conv (@dg_add Sc Hk DK h1 h2) x = @l_add Sc Y LY (conv h1 x) (conv h2 x)) -> (forall (h1 h2 : Hk) (x : X), conv (@dg_sub Sc Hk DK h1 h2) x = @l_sub Sc Y LY (conv h1 x) (conv h2 x)) -> (forall (h : Hk) (c : Sc) (x : X), conv (@dg_muls Sc Hk DK h c) x = @l_smul Sc Y LY c (conv h x)) -> (forall (h : Hk) (c : Sc) (x : X), conv (@dg_divs Sc Hk DK h c) x = @l_sdiv Sc Y LY (conv h x) c) -> forall (A B : kop Hk X Y) (c : Sc) (x : X), @l_eval X Y (@opk Hk X Y conv (@C05_Conv.__add___gen Sc Hk X Y DK LX A B)) x = @l_eval X Y (@C05_Linop.__add___gen Sc X Y LX LY (@opk Hk X Y conv A) (@opk Hk X Y conv B)) x /\ @l_eval X Y (@opk Hk X Y conv (@C05_Conv.__sub___gen Sc Hk X Y DK LX A B)) x = @l_eval X Y (@C05_Linop.__sub___gen Sc X Y LX LY (@opk Hk X Y conv A) (@opk Hk X Y conv B)) x /\ @l_eval X Y (@opk Hk X Y conv (@C05_Conv.__mul___gen Sc Hk X Y SS DK LX A c)) x = @l_eval X Y (@C05_Linop.__mul___gen Sc X Y SS LX LY (@opk Hk X Y conv A) c) x /\ @l_eval X Y (@opk Hk X Y conv (@C05_Conv.__truediv___gen Sc Hk X Y SS DK LX A c)) x = @l_eval X Y (@C05_Linop.__truediv___gen Sc X Y SS LX LY (@opk Hk X Y conv A) c) x /\ @l_eval X Y (@opk Hk X Y conv (@C05_ConvX.__add___gen Sc Hk X Y DK LX A B)) x = @l_eval X Y (@C05_Linop.__add___gen Sc X Y LX LY (@opk Hk X Y conv A) (@opk Hk X Y conv B)) x /\ @l_eval X Y (@opk Hk X Y conv (@C05_ConvX.__sub___gen Sc Hk X Y DK LX A B)) x = @l_eval X Y (@C05_Linop.__sub___gen Sc X Y LX LY (@opk Hk X Y conv A) (@opk Hk X Y conv B)) x /\ @l_eval X Y (@opk Hk X Y conv (@C05_ConvX.__mul___gen Sc Hk X Y SS DK LX A c)) x = @l_eval X Y (@C05_Linop.__mul___gen Sc X Y SS LX LY (@opk Hk X Y conv A) c) x /\ @l_eval X Y (@opk Hk X Y conv (@C05_ConvX.__truediv___gen Sc Hk X Y SS DK LX A c)) x = @l_eval X Y (@C05_Linop.__truediv___gen Sc X Y SS LX LY (@opk Hk X Y conv A) c) x.
Proof. exact (@GenConv.conv_forward_is_generic). Qed.
Print Assumptions C05_gen_convolve_shortcuts.

Theorem C05_gen_circular_convolve_shortcuts :
  forall (Sc V X : Type) (SS : ScSig Sc) (DS : DiagSig Sc V) (LX : LinSig Sc X) (F : X -> V) (Fi : V -> X), (forall h1 h2 v : V, @dg_mul Sc V DS (@dg_add Sc V DS h1 h2) v = @dg_add Sc V DS (@dg_mul Sc V DS h1 v) (@dg_mul Sc V DS h2 v)) -> (forall h1 h2 v : V, @dg_mul Sc V DS (@dg_sub Sc V DS h1 h2) v = @dg_sub Sc V DS (@dg_mul Sc V DS h1 v) (@dg_mul Sc V DS h2 v)) -> (forall (h : V) (c : Sc) (v : V), @dg_mul Sc V DS (@dg_muls Sc V DS h c) v = @dg_smul Sc V DS c (@dg_mul Sc V DS h v)) -> (forall (h : V) (c : Sc) (v : V), @dg_mul Sc V DS (@dg_divs Sc V DS h c) v = @dg_divs Sc V DS (@dg_mul Sc V DS h v) c) -> (forall u v : V, Fi (@dg_add Sc V DS u v) = @l_add Sc X LX (Fi u) (Fi v)) -> (forall u v : V, Fi (@dg_sub Sc V DS u v) = @l_sub Sc X LX (Fi u) (Fi v)) -> (forall (c : Sc) (v : V), Fi (@dg_smul Sc V DS c v) = @l_smul Sc X LX c (Fi v)) -> (forall (c : Sc) (v : V), Fi (@dg_divs Sc V DS v c) = @l_sdiv Sc X LX (Fi v) c) -> forall (h1 h2 : V) (c : Sc) (a1 a2 : X -> X) (x : X), @cc Sc V X DS F Fi (@C05_Circ.__add___gen Sc V DS h1 h2) x = @l_eval X X (@C05_Linop.__add___gen Sc X X LX LX {| l_eval := @cc Sc V X DS F Fi h1; l_adj := a1 |} {| l_eval := @cc Sc V X DS F Fi h2; l_adj := a2 |}) x /\ @cc Sc V X DS F Fi (@C05_Circ.__sub___gen Sc V DS h1 h2) x = @l_eval X X (@C05_Linop.__sub___gen Sc X X LX LX {| l_eval := @cc Sc V X DS F Fi h1; l_adj := a1 |} {| l_eval := @cc Sc V X DS F Fi h2; l_adj := a2 |}) x /\ @cc Sc V X DS F Fi (@C05_Circ.__mul___gen Sc V DS h1 c) x = @l_eval X X (@C05_Linop.__mul___gen Sc X X SS LX LX {| l_eval := @cc Sc V X DS F Fi h1; l_adj := a1 |} c) x /\ @cc Sc V X DS F Fi (@C05_Circ.__truediv___gen Sc V DS h1 c) x = @l_eval X X (@C05_Linop.__truediv___gen Sc X X SS LX LX {| l_eval := @cc Sc V X DS F Fi h1; l_adj := a1 |} c) x.
Proof. exact (@GenConv.circ_forward_is_generic). Qed.
Print Assumptions C05_gen_circular_convolve_shortcuts.

(** replicated stack over an operand that changes the rank, replicate axis at any position of the input and of the
    output array (outer part / k / inner part of bi resp. bo entries): row o is row j of A applied to slice r *)
Theorem C05_replicated_stack_general : forall k m n ao bo ai bi (A : cmat) (x : cvec) o,
  (0 < k)%nat -> (0 < ao)%nat -> (0 < bo)%nat -> (0 < ai)%nat -> (0 < bi)%nat -> m = (ao * bo)%nat -> n = (ai * bi)%nat ->
  length A = m -> Forall (fun row => length row = n) A -> length x = (k * n)%nat -> (o < k * m)%nat ->
  let '(r, j) := rep_split3 k bo o in
  nth o (c_mv (rep_mat3 k m n bo bi A) x) c0 = c_dot (nth j A []) (rep_slice3 k n bi r x).
Proof. exact rep_mat3_acts. Qed.
Print Assumptions C05_replicated_stack_general.
Theorem C05_replicated_stack_general_extends : forall k m n (A : cmat), rep_mat3 k m n m n A = rep_mat k m n 0 0 A.
Proof. exact rep_mat3_first. Qed.
Print Assumptions C05_replicated_stack_general_extends.
