(** C06 -- everything presented as a linear operator is linear. *)
From Coq Require Import List Bool String Reals.
From SV Require Import Base.InnerSpace LinAlg.Jaxpr LinAlg.AdjCalc LinAlg.Mat LinAlg.RQ LinAlg.CInst.
Import ListNotations.

(** Soundness of the linearity type system: if [lin_check] (with the concrete per-primitive
    table, in real- or complex-linear mode) accepts the traced program of an operator, then
    for ALL inputs x, y and ALL scalars a, b the program maps a x + b y to a A(x) + b A(y) --
    for any value module and any primitive semantics respecting the table. *)
Theorem C06_accepted_jaxpr_is_linear :
  forall (cplx : bool) (V S : Type) (vzero : V) (vadd : V -> V -> V) (vscale : S -> V -> V) (lit : V)
         (a b a' b' : S), vadd (vscale a vzero) (vscale b vzero) = vzero ->
  forall (sem : string -> list V -> V),
    (forall p ks k lx ly ls, rule_tbl cplx p ks = Some k ->
       Rel V S vzero vadd vscale a b a' b' ks lx ly ls ->
       relk V S vzero vadd vscale a b a' b' k (sem p lx) (sem p ly) (sem p ls)) ->
  forall eqs o x y,
    accepts (rule_tbl cplx) eqs o = true ->
    out V vzero lit sem eqs o (vadd (vscale a x) (vscale b y)) =
    vadd (vscale a (out V vzero lit sem eqs o x)) (vscale b (out V vzero lit sem eqs o y)).
Proof. exact jaxpr_linear_if_accepted. Qed.
Print Assumptions C06_accepted_jaxpr_is_linear.

(** Every operator expression (sums, differences, complex scalar multiples, compositions,
    transposes, Hermitian and conjugate views, Gram operators, to any depth) over linear leaves
    is linear, with complex scalars a + i b. *)
Theorem C06_expression_trees_are_linear :
  forall X Y (e : lexpr X Y), leaves_good e -> forall (a b : R) (x y : @E (@csp X)),
    fwd (denote e) (InnerSpace.vadd (cscale a b x) y) = InnerSpace.vadd (cscale a b (fwd (denote e) x)) (fwd (denote e) y).
Proof. exact expr_linear. Qed.
Print Assumptions C06_expression_trees_are_linear.

(** A map given by a matrix is linear, so a linear implementation that agrees with its matrix
    on the basis agrees with it everywhere ("determined by its action on a basis"). *)
Theorem C06_matrix_maps_are_linear :
  forall M a (x y : rvec), List.length x = List.length y ->
    r_mv M (r_vadd (r_vscale a x) y) = r_vadd (r_vscale a (r_mv M x)) (r_mv M y).
Proof. exact r_mv_linear. Qed.
Print Assumptions C06_matrix_maps_are_linear.

(** non-vacuity: a linear program is accepted, an affine and a quadratic one are rejected *)
Open Scope string_scope.
Example C06_accepts_linear_program :
  accepts (rule_tbl true)
    [mkeqn "const" []; mkeqn "mul" [AVar 0; AVar 1]; mkeqn "neg" [AVar 2]; mkeqn "add" [AVar 3; AVar 2]] 4 = true.
Proof. vm_compute. reflexivity. Qed.
Example C06_rejects_affine_program :
  accepts (rule_tbl true) [mkeqn "const" []; mkeqn "add" [AVar 0; AVar 1]] 2 = false.
Proof. vm_compute. reflexivity. Qed.
Example C06_rejects_quadratic_program :
  accepts (rule_tbl false) [mkeqn "mul" [AVar 0; AVar 0]] 1 = false.
Proof. vm_compute. reflexivity. Qed.
Example C06_conj_is_antilinear_in_complex_mode :
  accepts (rule_tbl true) [mkeqn "conj" [AVar 0]] 1 = false /\
  accepts (rule_tbl true) [mkeqn "conj" [AVar 0]; mkeqn "fft" [AVar 1]; mkeqn "conj" [AVar 2]] 3 = true /\
  accepts (rule_tbl true) [mkeqn "conj" [AVar 0]; mkeqn "add" [AVar 0; AVar 1]] 2 = false /\
  accepts (rule_tbl false) [mkeqn "conj" [AVar 0]] 1 = true.
Proof. vm_compute. repeat split; reflexivity. Qed.
Example C06_tree_hypotheses_satisfiable :
  leaves_good (EAdd (ET (EComp (ELeaf (mulc 1 2)) (EConj (ELeaf (mulc 0 1)))))
                    (EScale 3 (-1) (EGram (ELeaf (mulc 2 5))))).
Proof. exact tree_example. Qed.
