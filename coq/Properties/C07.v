(** C07 -- gradients and Jacobian products are the true derivatives.
    Only statements; each closed by [exact] of a lemma of coq/theories/C07/*.v.

    Spaces: [InnerSpace] = abstract real inner-product space (R^n; C^n with Re<.,.>; block
    arrays).  [ConjSpace] = such a space with a conjugation [cj] ([RealC]: cj = id; [CplxC S]:
    pairs (re, im), cj (a, b) = (a, -b), ip = Re<.,.>; [ProdC]: blocks / argument tuples,
    cj block-wise = tree_map conj).  [bil a b = ip (cj a) b] = Re sum a_k b_k (unconjugated).
    The JAX conventions appear as hypotheses of the statements (they are Section hypotheses in
    the model files and are exercised one by one by vf/props/C07.py). *)
From Coquelicot Require Import Coquelicot.
From Coq Require Import Reals Lra List.
From SV Require Import Base.InnerSpace C07.CSpace C07.Wrappers C07.ArgSel C07.Quadratic
  C07.ObjModel C07.Chain C07.Deriv.
Import ListNotations.
Open Scope R_scope.

(** * 1. Conjugation wrappers *)

(** scico.grad, complex argument as a pair (re, im): if D f(x)[d] = <gx, Re d> + <gy, Im d> and
    jax.grad returns gx - i gy, then g = conj(jax.grad f x) satisfies D f(x)[d] = Re<g, d> for
    EVERY complex direction d. *)
Theorem C07_grad_complex_is_gradient :
  forall (S : InnerSpace) (Df : @E S * @E S -> @E S * @E S -> R) (gx gy : @E S * @E S -> @E S),
    (forall x d, Df x d = ip (gx x) (fst d) + ip (gy x) (snd d)) ->
    forall jax_grad : @E S * @E S -> @E S * @E S,
      (forall x, jax_grad x = (gx x, vopp (gy x))) ->
      forall x d, Df x d = @ip (ProdSpace S S) (scico_grad_c jax_grad x) d.
Proof. exact @scico_grad_c_is_gradient. Qed.
Print Assumptions C07_grad_complex_is_gradient.

(** the same for any array kind (real, complex, block, tuple of arguments) *)
Theorem C07_grad_is_gradient :
  forall (X : ConjSpace) (Df : CE X -> CE X -> R) (g : CE X -> CE X),
    (forall x d, Df x d = ip (g x) d) ->
    forall jax_grad : CE X -> CE X,
      (forall x, jax_grad x = cj (g x)) ->
      forall x d, Df x d = ip (scico_grad jax_grad x) d.
Proof. exact @scico_grad_is_gradient. Qed.
Print Assumptions C07_grad_is_gradient.

Theorem C07_grad_aux_and_value_and_grad :
  (forall (X : ConjSpace) (A : Type) (aux : CE X -> A) (Df : CE X -> CE X -> R) (g : CE X -> CE X),
    (forall x d, Df x d = ip (g x) d) ->
    forall jax_grad_aux : CE X -> CE X * A,
      (forall x, jax_grad_aux x = (cj (g x), aux x)) ->
      forall x, snd (scico_grad_aux A jax_grad_aux x) = aux x /\
                (forall d, Df x d = ip (fst (scico_grad_aux A jax_grad_aux x)) d)) /\
  (forall (X : ConjSpace) (f : CE X -> R) (Df : CE X -> CE X -> R) (g : CE X -> CE X),
    (forall x d, Df x d = ip (g x) d) ->
    forall jax_val_grad : CE X -> R * CE X,
      (forall x, jax_val_grad x = (f x, cj (g x))) ->
      forall x, fst (scico_val_grad jax_val_grad x) = f x /\
                (forall d, Df x d = ip (snd (scico_val_grad jax_val_grad x)) d)) /\
  (forall (X : ConjSpace) (A : Type) (f : CE X -> R) (aux : CE X -> A) (Df : CE X -> CE X -> R)
         (g : CE X -> CE X),
    (forall x d, Df x d = ip (g x) d) ->
    forall jax_val_grad_aux : CE X -> R * A * CE X,
      (forall x, jax_val_grad_aux x = (f x, aux x, cj (g x))) ->
      forall x, fst (scico_val_grad_aux A jax_val_grad_aux x) = (f x, aux x) /\
                (forall d, Df x d = ip (snd (scico_val_grad_aux A jax_val_grad_aux x)) d)).
Proof. exact (conj (@scico_grad_aux_spec) (conj (@scico_val_grad_spec) (@scico_val_grad_aux_spec))). Qed.
Print Assumptions C07_grad_aux_and_value_and_grad.

(** block arguments: the result is the block array of per-block (conjugated) gradients, and
    each block is the gradient with respect to that block *)
Theorem C07_grad_blockwise :
  forall (X Y : ConjSpace) (Df : CE (ProdC X Y) -> CE (ProdC X Y) -> R)
         (g : CE (ProdC X Y) -> CE (ProdC X Y)),
    (forall x d, Df x d = ip (g x) d) ->
    forall jax_grad : CE (ProdC X Y) -> CE (ProdC X Y),
      (forall x, jax_grad x = cj (g x)) ->
      forall x : CE (ProdC X Y),
        scico_grad jax_grad x = (cj (fst (jax_grad x)), cj (snd (jax_grad x))) /\
        (forall d1 : CE X, Df x (d1, vzero) = ip (fst (scico_grad jax_grad x)) d1) /\
        (forall d2 : CE Y, Df x (vzero, d2) = ip (snd (scico_grad jax_grad x)) d2).
Proof. exact @scico_grad_blockwise. Qed.
Print Assumptions C07_grad_blockwise.

Theorem C07_jacrev_rows :
  forall (X : ConjSpace) (K : Type) (DF : CE X -> CE X -> K -> R) (G : CE X -> K -> CE X),
    (forall x d k, DF x d k = ip (G x k) d) ->
    forall jax_jacrev : CE X -> K -> CE X,
      (forall x k, jax_jacrev x k = cj (G x k)) ->
      forall x d k, DF x d k = ip (scico_jacrev K jax_jacrev x k) d.
Proof. exact @scico_jacrev_rows. Qed.
Print Assumptions C07_jacrev_rows.

(** Operator.vjp(u, conjugate=True) is the Hermitian adjoint of v |-> Operator.jvp(u, v)[1];
    conjugate=False gives the plain transpose *)
Theorem C07_vjp_is_adjoint_or_transpose_of_jvp :
  (forall (X Y : ConjSpace) (F : CE X -> CE Y) (DF : CE X -> CE X -> CE Y)
         (jax_jvp : CE X -> CE X -> CE Y * CE Y),
    (forall u v, jax_jvp u v = (F u, DF u v)) ->
    forall jax_vjp : CE X -> CE Y * (CE Y -> CE X),
      (forall u v w, bil (DF u v) w = bil v (snd (jax_vjp u) w)) ->
      forall u, IsAdj (fun v => snd (op_jvp jax_jvp u v)) (snd (op_vjp jax_vjp u true))) /\
  (forall (X Y : ConjSpace) (F : CE X -> CE Y) (DF : CE X -> CE X -> CE Y)
         (jax_jvp : CE X -> CE X -> CE Y * CE Y),
    (forall u v, jax_jvp u v = (F u, DF u v)) ->
    forall jax_vjp : CE X -> CE Y * (CE Y -> CE X),
      (forall u v w, bil (DF u v) w = bil v (snd (jax_vjp u) w)) ->
      forall u v w, bil (snd (op_jvp jax_jvp u v)) w = bil v (snd (op_vjp jax_vjp u false) w)).
Proof. exact (conj (@op_vjp_conj_is_adjoint) (@op_vjp_plain_is_transpose)). Qed.
Print Assumptions C07_vjp_is_adjoint_or_transpose_of_jvp.

Theorem C07_cvjp_is_adjoint :
  forall (X Y : ConjSpace) (F : CE X -> CE Y) (DF : CE X -> CE X -> CE Y)
         (jax_vjp : CE X -> CE Y * (CE Y -> CE X)),
    (forall u, fst (jax_vjp u) = F u) ->
    (forall u v w, bil (DF u v) w = bil v (snd (jax_vjp u) w)) ->
    forall u, fst (cvjp jax_vjp u) = F u /\ IsAdj (DF u) (snd (cvjp jax_vjp u)).
Proof. exact @cvjp_is_adjoint. Qed.
Print Assumptions C07_cvjp_is_adjoint.

Theorem C07_linear_adjoint :
  forall (X Y : ConjSpace) (jax_linear_transpose : (CE X -> CE Y) -> CE Y -> CE X),
    (forall h, IsLinear h -> forall v w, bil (h v) w = bil v (jax_linear_transpose h w)) ->
    forall h, IsLinear h -> IsAdj h (linear_adjoint jax_linear_transpose h).
Proof. exact @linear_adjoint_is_adjoint. Qed.
Print Assumptions C07_linear_adjoint.

(** linop.jacobian(F, u): eval/adj are an adjoint pair; with include_eval=True the first blocks
    are F(u) on both sides and the second blocks are an adjoint pair *)
Theorem C07_jacobian_operator_adjoint_pair :
  (forall (X Y : ConjSpace) (F : CE X -> CE Y) (DF : CE X -> CE X -> CE Y)
         (jax_jvp : CE X -> CE X -> CE Y * CE Y),
    (forall u v, jax_jvp u v = (F u, DF u v)) ->
    forall jax_vjp : CE X -> CE Y * (CE Y -> CE X),
      (forall u v w, bil (DF u v) w = bil v (snd (jax_vjp u) w)) ->
      forall u, IsAdj (jac_eval jax_jvp u) (jac_adj jax_vjp u)) /\
  (forall (X Y : ConjSpace) (F : CE X -> CE Y) (DF : CE X -> CE X -> CE Y)
         (jax_jvp : CE X -> CE X -> CE Y * CE Y),
    (forall u v, jax_jvp u v = (F u, DF u v)) ->
    forall jax_vjp : CE X -> CE Y * (CE Y -> CE X),
      (forall u, fst (jax_vjp u) = F u) ->
      (forall u v w, bil (DF u v) w = bil v (snd (jax_vjp u) w)) ->
      forall u,
        (forall v, fst (jac_eval_ie jax_jvp u v) = F u) /\
        (forall w, fst (jac_adj_ie jax_vjp u w) = F u) /\
        IsAdj (fun v => snd (jac_eval_ie jax_jvp u v)) (fun w => snd (jac_adj_ie jax_vjp u w))).
Proof. exact (conj (@jacobian_adjoint_pair) (@jacobian_include_eval)). Qed.
Print Assumptions C07_jacobian_operator_adjoint_pair.

(** Function.jvp / vjp / jacobian: the slice evaluated at args[index] is the function at args,
    at any other v it is the function with argument [index] replaced by v; the list identity
    behind it; cvjp with jidx: scico.util.partial fixes every primal except position jidx *)
Theorem C07_argument_selection :
  (forall (A : Type) (dflt : A) (B : Type) (eval : list A -> B) (index : nat) (args : list A),
    (index < length args)%nat ->
    let '(var_arg, fix_args) := fn_select A dflt index args in
    fn_slice A B eval index fix_args var_arg = eval args /\
    (forall v, fn_slice A B eval index fix_args v = eval (update_at A index v args))) /\
  (forall (A : Type) (dflt : A) (i : nat) (l : list A),
    (i < length l)%nat -> insert_at A i (nth i l dflt) (remove_at A i l) = l) /\
  (forall (A : Type) (dflt : A) (B : Type) (func : list A -> B) (jidx : nat) (primals : list A) (x : A),
    (jidx < length primals)%nat ->
    partial A dflt B func (cvjp_fixidx jidx (length primals)) (remove_at A jidx primals) [x]
    = func (update_at A jidx x primals)).
Proof. exact (conj fn_slice_select (conj insert_remove_nth cvjp_partial_plumbing)). Qed.
Print Assumptions C07_argument_selection.

(** * 2. Closed forms for the weighted squared-l2 loss *)

(** f(x + t d) = f(x) + t Re<g,d> + t^2 alpha ||A d||_W^2 for all real t; hence (oracle of the
    harness) the central difference of the quadratic loss is exactly Re<g,d> *)
Theorem C07_quadratic_expansion_and_central_difference :
  (forall (S1 S2 : InnerSpace) (A : @E S1 -> @E S2) (AH : @E S2 -> @E S1) (W : @E S2 -> @E S2)
         (y : @E S2) (alpha : R),
    IsLinear A -> IsAdj A AH -> IsLinear W -> IsAdj W W ->
    forall (x d : @E S1) (t : R),
      qloss A W y alpha (vadd x (vscale t d)) =
      qloss A W y alpha x + t * ip (qgrad A AH W y alpha x) d + t * t * (alpha * nsqW W (A d))) /\
  (forall (S1 S2 : InnerSpace) (A : @E S1 -> @E S2) (AH : @E S2 -> @E S1) (W : @E S2 -> @E S2)
         (y : @E S2) (alpha : R),
    IsLinear A -> IsAdj A AH -> IsLinear W -> IsAdj W W ->
    forall x d : @E S1,
      (qloss A W y alpha (vadd x d) - qloss A W y alpha (vsub x d)) / 2
      = ip (qgrad A AH W y alpha x) d).
Proof. exact (conj (@qloss_expand) (@qloss_central_difference)). Qed.
Print Assumptions C07_quadratic_expansion_and_central_difference.

(** the model of SquaredL2Loss.hessian (2 alpha A^H W A) is self-adjoint and is D g *)
Theorem C07_hessian_self_adjoint_and_derivative_of_gradient :
  (forall (S1 S2 : InnerSpace) (A : @E S1 -> @E S2) (AH : @E S2 -> @E S1) (W : @E S2 -> @E S2)
         (alpha : R),
    IsAdj A AH -> IsAdj W W -> IsAdj (qhess A AH W alpha) (qhess A AH W alpha)) /\
  (forall (S1 S2 : InnerSpace) (A : @E S1 -> @E S2) (AH : @E S2 -> @E S1) (W : @E S2 -> @E S2)
         (y : @E S2) (alpha : R),
    IsLinear A -> IsAdj A AH -> IsLinear W ->
    forall x d : @E S1,
      qgrad A AH W y alpha (vadd x d) = vadd (qgrad A AH W y alpha x) (qhess A AH W alpha d)).
Proof. exact (conj (@qhess_self_adjoint) (@qgrad_affine)). Qed.
Print Assumptions C07_hessian_self_adjoint_and_derivative_of_gradient.

(** * 3. True derivatives (Coquelicot) *)

Theorem C07_squared_l2_norm_gradient :
  forall (S : InnerSpace) (x d : @E S),
    is_derive (fun t : R => nsq (vadd x (vscale t d))) 0 (ip (vscale 2 x) d).
Proof. exact @has_grad_nsq. Qed.
Print Assumptions C07_squared_l2_norm_gradient.

(** Huber, non-separable: everywhere -- inside, outside, ON the sphere ||x|| = delta, at 0 *)
Theorem C07_huber_gradient :
  forall (S : InnerSpace) (delta : R), 0 < delta ->
    forall x d : @E S,
      is_derive (fun t : R => huber delta (vadd x (vscale t d))) 0 (ip (huber_grad delta x) d).
Proof. exact @huber_has_grad. Qed.
Print Assumptions C07_huber_gradient.

(** Huber, separable: sum over components (each component a real or a complex number) *)
Theorem C07_huber_separable_gradient :
  forall (S : InnerSpace) (delta : R), 0 < delta ->
    forall xs ds : list (@E S),
      is_derive (fun t : R => huber_sep delta (lines xs ds t)) 0
                (ips (map (huber_grad delta) xs) ds).
Proof. exact @huber_sep_has_grad. Qed.
Print Assumptions C07_huber_separable_gradient.

Theorem C07_poisson_gradient :
  forall (S : InnerSpace) (alpha : R) (rows : list (@row S)) (x : @E S),
    all_pos rows x ->
    forall d, is_derive (fun t : R => poisson alpha rows (vadd x (vscale t d))) 0
                        (ip (poisson_grad alpha rows x) d).
Proof. exact @poisson_has_grad. Qed.
Print Assumptions C07_poisson_gradient.

(** * 4. Derived objects *)

(** Loss.__mul__ / __rmul__ / __truediv__: copy, re-bind the gradient closure to the copy,
    set_scale; also (c * L) * d.  The original object is unchanged. *)
Theorem C07_scaled_loss_copies :
  (forall (S : InnerSpace) (X : Type) (base : X -> R) (gbase : X -> @E S)
         (grad_of : (X -> R) -> X -> @E S),
    (forall c x, grad_of (fun x' => c * base x') x = vscale c (gbase x)) ->
    forall (h : heap) (o : nat) (c : R),
      wf h o ->
      let '(h', n) := loss_mul h o c in
      n <> o /\ wf h' n /\ wf h' o /\ objs h' o = objs h o /\
      (forall x, call X base h' n x = c * call X base h o x) /\
      (forall x, grad X base grad_of h' n x = vscale c (grad X base grad_of h o x)) /\
      (forall x, grad X base grad_of h' o x = grad X base grad_of h o x) /\
      (forall k, (k < next h)%nat -> objs h' k = objs h k)) /\
  (forall (S : InnerSpace) (X : Type) (base : X -> R) (gbase : X -> @E S)
         (grad_of : (X -> R) -> X -> @E S),
    (forall c x, grad_of (fun x' => c * base x') x = vscale c (gbase x)) ->
    forall (h : heap) (o : nat) (c : R),
      wf h o -> c <> 0 ->
      let '(h', n) := loss_div h o c in
      n <> o /\ wf h' n /\ wf h' o /\ objs h' o = objs h o /\
      (forall x, call X base h' n x = call X base h o x / c) /\
      (forall x, grad X base grad_of h' n x = vscale (/ c) (grad X base grad_of h o x)) /\
      (forall x, grad X base grad_of h' o x = grad X base grad_of h o x)) /\
  (forall (S : InnerSpace) (X : Type) (base : X -> R) (gbase : X -> @E S)
         (grad_of : (X -> R) -> X -> @E S),
    (forall c x, grad_of (fun x' => c * base x') x = vscale c (gbase x)) ->
    forall (h : heap) (o : nat) (c d : R),
      wf h o ->
      let '(h1, n1) := loss_mul h o c in
      let '(h2, n2) := loss_mul h1 n1 d in
      (forall x, grad X base grad_of h2 n2 x = vscale (c * d) (grad X base grad_of h o x)) /\
      (forall x, grad X base grad_of h2 n1 x = vscale c (grad X base grad_of h o x)) /\
      (forall x, grad X base grad_of h2 o x = grad X base grad_of h o x)).
Proof. exact (conj (@loss_mul_spec) (conj (@loss_div_spec) (@loss_mul_mul))). Qed.
Print Assumptions C07_scaled_loss_copies.

(** the mutation this catches: without the re-binding the copy returns the ORIGINAL gradient,
    and that violates grad (c L) = c grad L *)
Theorem C07_stale_closure_mutation_refuted :
  (forall (S : InnerSpace) (X : Type) (base : X -> R) (grad_of : (X -> R) -> X -> @E S)
         (h : heap) (o : nat) (c : R),
    wf h o ->
    let '(h', n) := loss_mul_stale h o c in
    (forall x, call X base h' n x = c * call X base h o x) /\
    (forall x, grad X base grad_of h' n x = grad X base grad_of h o x)) /\
  (exists (h : heap) (o : nat) (c : R) (x : R),
    wf h o /\
    let '(h', n) := loss_mul_stale h o c in
    @grad RSpace R (fun x => x) (fun f _ => f 1) h' n x <>
    @vscale RSpace c (@grad RSpace R (fun x => x) (fun f _ => f 1) h o x)).
Proof. exact (conj (@loss_mul_stale_returns_unscaled) loss_mul_stale_refuted). Qed.
Print Assumptions C07_stale_closure_mutation_refuted.

(** ScaledFunctional, FunctionalSum, and a loss composed with a linear operator
    (scale * f(A x - y) has gradient scale * A^H grad f): gradient of the denoted function *)
Theorem C07_scaled_sum_and_linear_loss_gradients :
  (forall (S : InnerSpace) (f : @E S -> R) (x g : @E S) (c : R),
    has_grad f x g -> has_grad (fun x' => c * f x') x (vscale c g)) /\
  (forall (S : InnerSpace) (f1 f2 : @E S -> R) (x g1 g2 : @E S),
    has_grad f1 x g1 -> has_grad f2 x g2 -> has_grad (fun x' => f1 x' + f2 x') x (vadd g1 g2)) /\
  (forall (S1 S2 : InnerSpace) (A : @E S1 -> @E S2) (AH : @E S2 -> @E S1),
    IsLinear A -> IsAdj A AH ->
    forall (f : @E S2 -> R) (y : @E S2) (scale : R) (x : @E S1) (g : @E S2),
      has_grad f (vsub (A x) y) g ->
      has_grad (fun x' => scale * f (vsub (A x') y)) x (vscale scale (AH g))).
Proof. exact (conj (@has_grad_scale) (conj (@has_grad_sum) (@has_grad_loss_linear))). Qed.
Print Assumptions C07_scaled_sum_and_linear_loss_gradients.

(** loss composed with a non-linear operator (Frechet chain rule): the gradient is
    scale * vjp(x, conjugate=True)(grad f (A x - y)) *)
Theorem C07_loss_operator_chain_rule :
  forall (S1 S2 : InnerSpace) (A : @E S1 -> @E S2) (DA : @E S1 -> @E S1 -> @E S2)
         (VJ : @E S1 -> @E S2 -> @E S1) (f : @E S2 -> R) (y : @E S2) (scale : R)
         (x : @E S1) (g : @E S2),
    FDiff f (vsub (A x) y) g -> FDiffOp A x (DA x) -> IsAdj (DA x) (VJ x) ->
    FDiff (fun x' => scale * f (vsub (A x') y)) x (vscale scale (VJ x g)) /\
    has_grad (fun x' => scale * f (vsub (A x') y)) x (vscale scale (VJ x g)).
Proof.
  exact (fun S1 S2 A DA VJ f y scale x g Hf HA Hadj =>
           conj (@loss_operator_gradient S1 S2 A DA VJ f y scale x g Hf HA Hadj)
                (@loss_operator_has_grad S1 S2 A DA VJ f y scale x g Hf HA Hadj)).
Qed.
Print Assumptions C07_loss_operator_chain_rule.

(** * Non-vacuity: the hypotheses are satisfiable and the models compute non-trivial values *)

(** C (pairs over the real line): f(z) = |z|^2 has gx = 2 re z, gy = 2 im z; a JAX-convention
    gradient (2 re, -2 im) exists and the wrapper returns 2 z. *)
Example C07_ex_grad_complex :
  let gx (z : R * R) := 2 * fst z in
  let gy (z : R * R) := 2 * snd z in
  let jax_grad (z : R * R) : @E RSpace * @E RSpace := (gx z, - gy z) in
  @scico_grad_c RSpace jax_grad (3, 4) = (6, 8).
Proof. cbn. unfold scico_grad_c, cconj; cbn. f_equal; lra. Qed.

(** a map satisfying convention (V) on C: F(z) = conj z, DF v = conj v, plain transpose = conj;
    cvjp returns w |-> conj w, the adjoint of conj in Re<.,.> *)
Example C07_ex_vjp_convention :
  let X := CplxC RSpace in
  forall v w : CE X, @bil X (@cj X v) w = @bil X v (@cj X w).
Proof. intros X v w. unfold bil. rewrite cj_invol. symmetry. apply cj_ip. Qed.

(** argument plumbing on a concrete list *)
Example C07_ex_partial :
  partial nat 0%nat (list nat) (fun l => l) (cvjp_fixidx 1 3) [10; 30]%nat [20%nat] = [10; 20; 30]%nat.
Proof. reflexivity. Qed.

(** the heap hypotheses hold in a concrete instance (used by the refutation witness) *)
Example C07_ex_heap_instance :
  forall c x : R, (fun (f : R -> R) (_ : R) => f 1) (fun x' => c * (fun x => x) x') x
                  = @vscale RSpace c ((fun _ => 1) x).
Proof. exact heap_instance_ok. Qed.

(** Huber on the real line at the junction |x| = delta = 1: gradient 1 from both closed forms *)
Example C07_ex_huber_junction :
  @huber_grad RSpace 1 1 = 1 /\ @vscale RSpace (1 / 1) 1 = 1.
Proof.
  split.
  - unfold huber_grad. destruct (Rle_dec _ _) as [_|n]; [reflexivity|].
    exfalso. apply n. unfold norm, nsq. cbn. rewrite Rmult_1_r, sqrt_1. lra.
  - cbn. lra.
Qed.

(** The dtype cases are instances of one statement.  Real input / complex output (x |-> A x with
    complex A and real x) is X = RealC S1, Y = CplxC S2: the input conjugation is the identity,
    the cotangent conjugation is not, and vjp(conjugate=True) is the adjoint with respect to
    Re<.,.>, i.e. w |-> Re(J^H w).  Skipping the conjugation because the INPUT is real is wrong. *)
Example C07_ex_vjp_real_input_complex_output :
  forall (S1 S2 : InnerSpace) (F : @E S1 -> @E S2 * @E S2) (DF : @E S1 -> @E S1 -> @E S2 * @E S2)
         (jax_jvp : @E S1 -> @E S1 -> (@E S2 * @E S2) * (@E S2 * @E S2)),
    (forall u v, jax_jvp u v = (F u, DF u v)) ->
    forall jax_vjp : @E S1 -> (@E S2 * @E S2) * (@E S2 * @E S2 -> @E S1),
      (forall u v w, @bil (CplxC S2) (DF u v) w = @bil (RealC S1) v (snd (jax_vjp u) w)) ->
      forall u,
        @IsAdj S1 (ProdSpace S2 S2)
               (fun v => snd (@op_jvp (RealC S1) (CplxC S2) jax_jvp u v))
               (snd (@op_vjp (RealC S1) (CplxC S2) jax_vjp u true)) /\
        (forall w, snd (@op_vjp (RealC S1) (CplxC S2) jax_vjp u true) w
                   = snd (jax_vjp u) (cconj w)).
Proof.
  intros S1 S2 F DF jax_jvp Hj jax_vjp Hv u. split.
  - exact (@op_vjp_conj_is_adjoint (RealC S1) (CplxC S2) F DF jax_jvp Hj jax_vjp Hv u).
  - intros w. unfold op_vjp. destruct (jax_vjp u). reflexivity.
Qed.
