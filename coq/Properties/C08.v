(** C08 -- proximal calculus rules and capability flags.
    Only statements; each closed by [exact] of a lemma of coq/theories/C08 (or Prox/ProxTheory).
    [fexpr S]: expressions built from base functionals by scaling, separable stacking, sum,
    Loss(y, A, f, scale), SquaredL2Loss(y, A, W, scale); [deval]/[ddom]: what they denote;
    [gen_prox]/[gen_eval] (None = raises), [gen_has_prox]/[gen_has_eval]: faithful models of
    scico/functional/_functional.py and scico/loss.py. *)
From Coq Require Import Reals Lra Bool List.
From SV Require Import Base.Num Base.InnerSpace Prox.ProxTheory C02.Basics C02.Models C02.Norms C02.Losses
  C08.WLS C08.Calculus C08.Exec.
Import ListNotations.
Open Scope R_scope.

(** ** Calculus rules *)
Theorem C08_prox_of_scaled_functional :
  forall (S : InnerSpace) (dom : E -> Prop) (f : E -> R) c lam v p,
    IsProx dom (fun x => c * f x) lam v p <-> IsProx dom f (c * lam) v p.
Proof. exact @prox_scale. Qed.
Print Assumptions C08_prox_of_scaled_functional.

Theorem C08_prox_of_separable_sum_is_blockwise :
  forall (S1 S2 : InnerSpace) dom1 (f1 : @E S1 -> R) dom2 (f2 : @E S2 -> R) lam v1 v2 p1 p2,
    IsProx dom1 f1 lam v1 p1 -> IsProx dom2 f2 lam v2 p2 ->
    @IsProx (ProdSpace S1 S2) (fun x => dom1 (fst x) /\ dom2 (snd x))
            (fun x => f1 (fst x) + f2 (snd x)) lam (v1, v2) (p1, p2).
Proof. exact prox_separable. Qed.
Print Assumptions C08_prox_of_separable_sum_is_blockwise.

Theorem C08_prox_of_translated_scaled_functional :
  forall (S : InnerSpace) (dom : E -> Prop) (f : E -> R) alpha y lam v p,
    IsProx (fun x => dom (vsub x y)) (fun x => alpha * f (vsub x y)) lam v p <->
    IsProx dom f (alpha * lam) (vsub v y) (vsub p y).
Proof. exact @prox_translate. Qed.
Print Assumptions C08_prox_of_translated_scaled_functional.

(** Functional.conj_prox: v - lam * prox(v/lam, 1/lam) is a prox of the conjugate, which is
    characterised by the Fenchel-Young inequality and its equality case *)
Theorem C08_conj_prox_is_prox_of_conjugate :
  forall (S : InnerSpace) (dom : E -> Prop) (f : E -> R) (domc : E -> Prop) (fc : E -> R),
    Convex dom f ->
    (forall x s, dom x -> domc s -> ip x s <= f x + fc s) ->
    (forall x s, dom x -> (forall z, dom z -> f x + ip s (vsub z x) <= f z) ->
                 domc s /\ ip x s = f x + fc s) ->
    forall prox : R -> E -> E,
      (forall lam v, 0 < lam -> IsProx dom f lam v (prox lam v)) ->
      forall lam v, 0 < lam -> IsProx domc fc lam v (conj_prox_model prox lam v).
Proof. exact @conj_prox_correct. Qed.
Print Assumptions C08_conj_prox_is_prox_of_conjugate.

Theorem C08_moreau_identity :
  forall (S : InnerSpace) (prox : R -> E -> E) lam (v : E),
    v = vadd (conj_prox_model prox lam v) (vscale lam (prox (/ lam) (vscale (/ lam) v))).
Proof. exact @moreau_identity. Qed.
Print Assumptions C08_moreau_identity.

(** ** Every nesting: flag true => prox available and correct; flag false => unavailable.
    [wf e]: every scale is positive, an operator tagged Identity is the identity map, the
    SquaredL2Loss solver returns a solution of the system it is handed (nothing about the
    flags of inner functionals: Loss.__init__ now propagates them).
    [wf_eval e]: e contains no abstract Loss(y, f=None). *)
Theorem C08_has_prox_true_prox_correct_all_nestings :
  forall S (e : fexpr S), wf e -> gen_has_prox e = true ->
    forall lam v, 0 < lam ->
      exists p, gen_prox e lam v = Some p /\ IsProx (ddom e) (deval e) lam v p.
Proof. exact gen_prox_correct. Qed.
Print Assumptions C08_has_prox_true_prox_correct_all_nestings.

Theorem C08_has_prox_false_prox_unavailable :
  forall S (e : fexpr S), gen_has_prox e = false -> forall lam v, gen_prox e lam v = None.
Proof. exact gen_prox_unavailable. Qed.
Print Assumptions C08_has_prox_false_prox_unavailable.

Theorem C08_has_eval_true_eval_correct :
  forall S (e : fexpr S), wf_eval e -> gen_has_eval e = true ->
    forall x, gen_eval e x = Some (deval e x).
Proof. exact gen_eval_correct. Qed.
Print Assumptions C08_has_eval_true_eval_correct.

Theorem C08_has_eval_false_eval_unavailable :
  forall S (e : fexpr S), gen_has_eval e = false -> forall x, gen_eval e x = None.
Proof. exact gen_eval_unavailable. Qed.
Print Assumptions C08_has_eval_false_eval_unavailable.

(** a flag is set exactly when the operation is available (no side conditions for prox) *)
Theorem C08_has_prox_set_exactly_when_prox_available :
  forall S (e : fexpr S) lam v, is_some (gen_prox e lam v) = gen_has_prox e.
Proof. exact has_prox_exact. Qed.
Print Assumptions C08_has_prox_set_exactly_when_prox_available.

Theorem C08_has_eval_set_exactly_when_eval_available :
  forall S (e : fexpr S), wf_eval e -> forall x, is_some (gen_eval e x) = gen_has_eval e.
Proof. exact has_eval_exact. Qed.
Print Assumptions C08_has_eval_set_exactly_when_eval_available.

(** the flag logic the harness evaluates on syntax trees is the flag logic of the expressions *)
Theorem C08_executable_flags_agree :
  forall S (e : fexpr S),
    gen_has_eval e = sh_has_eval (shape_of e) /\ gen_has_prox e = sh_has_prox (shape_of e) /\
    (forall lam v, is_some (gen_prox e lam v) = sh_prox_defined (shape_of e)) /\
    (forall x, is_some (gen_eval e x) = sh_eval_defined (shape_of e)).
Proof.
  intros S e. split; [apply shape_has_eval|]. split; [apply shape_has_prox|].
  split; [apply shape_prox_defined | apply shape_eval_defined].
Qed.
Print Assumptions C08_executable_flags_agree.

Theorem C08_loss_flags_by_forward_operator_class :
  map is_identity all_fwd = [true; false; false; false; false; false] /\
  map is_linop all_fwd = [true; true; true; true; false; false] /\
  map is_diagonal all_fwd = [true; true; true; false; false; false] /\
  (forall c, is_diagonal c = true -> is_linop c = true) /\
  (forall c, is_identity c = true -> is_diagonal c = true).
Proof. exact loss_flags_table. Qed.
Print Assumptions C08_loss_flags_by_forward_operator_class.

(** ** Weighted least squares *)
Theorem C08_weighted_least_squares_normal_equation :
  forall (S1 S2 : InnerSpace) (A : @E S1 -> @E S2) (B : @E S2 -> @E S1) (W : @E S2 -> @E S2),
    IsLinear A -> IsLinear B -> IsLinear W -> IsAdj A B ->
    (forall a b, ip (W a) b = ip a (W b)) -> (forall a, 0 <= ip (W a) a) ->
    forall (y : @E S2) (v : @E S1) (mu : R), 0 <= mu ->
    forall x, (forall z, wobj A W y v mu x <= wobj A W y v mu z) <->
              sys_lhs A B W mu x = sys_rhs B W y v mu.
Proof. exact @wls_iff. Qed.
Print Assumptions C08_weighted_least_squares_normal_equation.

Theorem C08_weighted_least_squares_unique :
  forall (S1 S2 : InnerSpace) (A : @E S1 -> @E S2) (B : @E S2 -> @E S1) (W : @E S2 -> @E S2),
    IsLinear A -> IsLinear B -> IsLinear W -> IsAdj A B ->
    (forall a b, ip (W a) b = ip a (W b)) -> (forall a, 0 <= ip (W a) a) ->
    forall (y : @E S2) (v : @E S1) (mu : R), 0 <= mu ->
    forall x1 x2, sys_lhs A B W mu x1 = sys_rhs B W y v mu ->
                  sys_lhs A B W mu x2 = sys_rhs B W y v mu -> x1 = x2.
Proof. exact @wls_unique. Qed.
Print Assumptions C08_weighted_least_squares_unique.

(** the lhs operator and rhs handed to CG in the general branch are the two sides of it *)
Theorem C08_cg_branch_solves_the_normal_equation :
  forall (S1 S2 : InnerSpace) (A : @E S1 -> @E S2) (B : @E S2 -> @E S1) (W : @E S2 -> @E S2)
         alpha lam y v x,
    cg_lhs A B W alpha lam x = sys_lhs A B W (alpha * lam) x /\
    cg_rhs B W alpha lam y v = sys_rhs B W y v (alpha * lam).
Proof. exact @cg_system_is_wls. Qed.
Print Assumptions C08_cg_branch_solves_the_normal_equation.

(** the diagonal closed form as the code computes it solves the system; denominator >= 1 *)
Theorem C08_diagonal_closed_form_solves_the_normal_equation :
  forall alpha lam w (a y v : R * R), 0 <= alpha -> 0 <= lam -> 0 <= w ->
    let x := csql2loss_code alpha a w y lam v in
    @sys_lhs CSpace CSpace (cmul a) (cmul (cconj a)) (@vscale CSpace w) (alpha * lam) x
    = @sys_rhs CSpace CSpace (cmul (cconj a)) (@vscale CSpace w) y v (alpha * lam).
Proof. exact diag_closed_form_solves_system. Qed.
Print Assumptions C08_diagonal_closed_form_solves_the_normal_equation.

Theorem C08_diagonal_denominator_nonzero :
  forall alpha lam w (a : R * R), 0 <= alpha -> 0 <= lam -> 0 <= w ->
    1 <= 2 * alpha * lam * w * cabs2 a + 1.
Proof. exact diag_denominator_pos. Qed.
Print Assumptions C08_diagonal_denominator_nonzero.

Theorem C08_diagonal_closed_form_is_prox :
  forall alpha lam w (a y v : R * R), 0 <= alpha -> 0 <= lam -> 0 <= w ->
    @IsProx CSpace Tr (fun x => alpha * @wfun CSpace CSpace (cmul a) (@vscale CSpace w) y x) lam v
      (csql2loss_code alpha a w y lam v).
Proof. exact diag_closed_form_is_prox. Qed.
Print Assumptions C08_diagonal_closed_form_is_prox.

(** ** Non-vacuity: a nested expression (scaled loss inside a separable functional inside a
    scaling) is well-formed and its flag is true *)
Definition C08_sq_base : basefun RSpace :=
  {| bdom := Tr; bf := @nsq RSpace; bprox := fun lam v => @vscale RSpace (/ (1 + 2 * lam)) v;
     b_has_eval := true; b_has_prox := true;
     b_ok := fun _ lam v H => @sql2_prox RSpace lam v H |}.
Definition C08_nested : fexpr (ProdSpace RSpace (ProdSpace RSpace UnitSpace)) :=
  Scaled _ 3 (SepCons _ _ (Scaled _ 2 (LossOf RSpace FIdentity (fun x => x) (Base _ C08_sq_base) 1 (1/2)))
                          (SepCons _ _ (Base _ C08_sq_base) SepNil)).
Example C08_nested_wellformed : wf C08_nested /\ gen_has_prox C08_nested = true.
Proof. cbn. repeat split; auto; lra. Qed.
