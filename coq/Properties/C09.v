(** C09 -- functionals, losses and metrics evaluate to their definitions.
    Only statements; each closed by [exact] of a lemma of coq/theories/C09/Thm.v.
    [*_spec]: the documented formula (C09/Spec.v); [*_impl]: the model of the code (C09/Impl.v);
    both generic over the scalar class and instantiated here at [R] with [sqrt].
    Arrays are shape + row-major flat data of complex pairs; [ext] adds [+inf]. *)
From Coq Require Import List Bool Arith Reals QArith Qcanon.
From SV Require Import Base.Num C09.Defs C09.Spec C09.Impl C09.Thm C09.Exec C09.ExecThm C09.GenSig C09.Gen.
From SVGen Require Import C09_Metric.
From SVGen Require C09_L0 C09_L1 C09_SqL2 C09_L2 C09_L1mL2 C09_SqL2Loss C09_SqL2AbsLoss C09_SqL2SqAbsLoss C09_Scaled C09_FSum C09_Zero.
Import ListNotations.
Open Scope R_scope.

Local Notation cxR := (cx (K:=R)).
Local Notation arrR := (arr (K:=R)).

(** norms: for every input (any length, real or complex entries), every parameter, every l2_axis / shape *)
Theorem C09_norms :
  (* modulus_is_modulus *)
  (forall z : cxR, cmod sqrt z = sqrt (fst z * fst z + snd z * snd z)) /\
  (* l0 *)
  (forall d : list cxR, l0_impl d = l0_spec d) /\
  (* l1 *)
  (forall d : list cxR, l1_impl sqrt d = l1_spec sqrt d) /\
  (* squared_l2 *)
  (forall d : list cxR, sql2_impl sqrt d = sql2_spec d) /\
  (* l2 *)
  (forall d : list cxR, l2_impl sqrt d = l2_spec sqrt d) /\
  (* l21_every_axis *)
  (forall (axes : list nat) (a : arrR), l21_impl sqrt axes a = l21_spec sqrt axes a) /\
  (* l21_all_axes_is_l2 *)
  (forall a : arrR,
   length (adata a) = prod (ashape a) ->
   l21_spec sqrt (all_axes (ashape a)) a = l2_spec sqrt (adata a)) /\
  (* l21_block *)
  (forall blocks : list arrR,
   l21_block_impl sqrt blocks = l21_block_spec sqrt blocks /\
   l21_block_spec sqrt blocks = ksum (map (fun b => l2_spec sqrt (adata b)) blocks)) /\
  (* l21 default on an M x N matrix given by rows: sum_n sqrt (sum_m |A_{m,n}|^2) *)
  (forall (N : nat) (rows : list (list cxR)),
   Forall (fun r => length r = N) rows ->
   l21_spec sqrt [0%nat] (mkarr [length rows; N] (concat rows))
   = ksum (map (fun n => sqrt (ksum (map (fun r => cabs2 (nth n r c0)) rows))) (seq 0 N))) /\
  (* ZeroFunctional *)
  (forall d : list cxR, zero_impl d = zero_spec d /\ zero_spec d = 0) /\
  (* l1_minus_l2 *)
  (forall beta (d : list cxR), l1ml2_impl sqrt beta d = l1ml2_spec sqrt beta d) /\
  (* huber_separable *)
  (forall delta (d : list cxR), huber_sep_impl sqrt delta d = huber_sep_spec sqrt delta d) /\
  (* huber_nonseparable *)
  (forall delta (d : list cxR),
   huber_nonsep_impl sqrt delta d = huber_nonsep_spec sqrt delta d) /\
  (* huber_tie *)
  (forall delta, 0 <= delta ->
   huber_h delta delta = delta * delta / 2 /\ delta * (delta - delta / k2) = delta * delta / 2) /\
  (* nuclear *)
  (forall (svd : arrR -> list R) (a : arrR), nuclear_impl svd a = nuclear_spec svd a).
Proof.
  exact (conj cmod_R (conj l0_ok (conj l1_ok (conj sql2_ok (conj l2_ok (conj l21_ok (conj l21_all_axes (conj (fun b => conj (l21_block_ok b) (l21_block_is_sum_of_block_l2 b)) (conj l21_matrix_default (conj (fun d => conj (zero_ok d) eq_refl) (conj l1ml2_ok (conj huber_sep_ok (conj huber_nonsep_ok (conj huber_tie nuclear_ok)))))))))))))).
Qed.
Print Assumptions C09_norms.

(** indicators: evaluation, range {0,+inf}, 0 exactly on the set (boundary included), transfer to the executed Qc instance *)
Theorem C09_indicators :
  (* nonneg_eval *)
  (forall d : list cxR, nonneg_impl d = nonneg_spec d) /\
  (* nonneg_range *)
  (forall d : list cxR, nonneg_spec d = Fin 0 \/ nonneg_spec d = PInf) /\
  (* nonneg_zero_iff_in_orthant *)
  (forall d : list cxR,
   nonneg_spec d = Fin 0 <-> Forall (fun z => 0 <= fst z) d) /\
  (* nonneg_transfer *)
  (forall d : list (cx (K:=Qc)),
   nonneg_spec d = Fin 0%Qc <-> nonneg_spec (map injc d) = Fin 0) /\
  (* l2ball_eval *)
  (forall r (d : list cxR), l2ball_impl sqrt r d = l2ball_spec sqrt r d) /\
  (* l2ball_range *)
  (forall r (d : list cxR), l2ball_spec sqrt r d = Fin 0 \/ l2ball_spec sqrt r d = PInf) /\
  (* l2ball_zero_iff_in_ball *)
  (forall r (d : list cxR),
   l2ball_spec sqrt r d = Fin 0 <-> sqrt (sumsq d) <= r) /\
  (* l2ball_exec *)
  (forall r (d : list cxR), l2ball_spec sqrt r d = l2ball_exec r d) /\
  (* l2ball_transfer *)
  (forall (r : Qc) (d : list (cx (K:=Qc))),
   l2ball_exec r d = Fin 0%Qc <-> sqrt (sumsq (map injc d)) <= inj r).
Proof.
  exact (conj nonneg_ok (conj nonneg_range (conj nonneg_zero_iff (conj nonneg_transfer (conj l2ball_ok (conj (l2ball_range sqrt) (conj l2ball_zero_iff (conj l2ball_spec_exec l2ball_exec_Qc_iff)))))))).
Qed.
Print Assumptions C09_indicators.

(** distances to a set (any projection); scaled / summed / separable / proximal-average functionals are the arithmetic combination *)
Theorem C09_distances_and_calculus :
  (* set_distance *)
  (forall proj (d : list cxR), setdist_impl sqrt proj d = setdist_spec sqrt proj d) /\
  (* squared_set_distance *)
  (forall proj (d : list cxR), sqsetdist_impl sqrt proj d = sqsetdist_spec proj d) /\
  (* scaled *)
  (forall c (v : ext R) a,
   scaled_impl c v = scaled_spec c v /\ scaled_impl c (Fin a) = Fin (c * a) /\ scaled_impl c PInf = PInf) /\
  (* sum *)
  (forall (u v : ext R) a b,
   fsum_impl u v = fsum_spec u v /\ fsum_impl (Fin a) (Fin b) = Fin (a + b) /\
   fsum_impl PInf v = PInf /\ fsum_impl u PInf = PInf) /\
  (* separable *)
  (forall (A : Type) (fs : list (A -> ext R)) (xs : list A),
   (length xs = length fs -> separable_impl fs xs = Some (separable_spec fs xs)) /\
   (length xs <> length fs -> separable_impl fs xs = None)) /\
  (* proximal_average *)
  (forall no_inf (alphas : list R) (vals : list (ext R)),
   proxavg_impl no_inf alphas vals = proxavg_spec no_inf alphas vals) /\
  (* proximal_average_default_weights *)
  (forall no_inf n (vals : list (ext R)),
   proxavg_call no_inf (proxavg_default_alphas n) vals = proxavg_spec no_inf (repeat 1 n) vals).
Proof.
  exact (conj setdist_ok (conj sqsetdist_ok (conj (fun c v a => conj (scaled_ok c v) (conj (scaled_fin c a) eq_refl)) (conj fsum_full (conj (fun A fs xs => conj (separable_ok A fs xs) (separable_mismatch A fs xs)) (conj proxavg_ok proxavg_default_ok)))))).
Qed.
Print Assumptions C09_distances_and_calculus.

(** losses.  The code evaluates f(A x - y); the documentation states f(y - A x): equal for every even f
    (the statement for all f is refuted by f = NonNegativeIndicator, Example C09_ex_loss_not_even -- known finding) *)
Theorem C09_losses :
  (* loss_even_f *)
  (forall (f : list cxR -> ext R) alpha y ax,
   (forall v, f (map cneg v) = f v) -> loss_impl f alpha y ax = loss_spec f alpha y ax) /\
  (* squared_l2_loss *)
  (forall alpha (w : list R) (y ax : list cxR),
   sql2loss_impl sqrt alpha w y ax = sql2loss_spec alpha w y ax) /\
  (* poisson_loss *)
  (forall ln lgam alpha (y ax : list cxR),
   poisson_impl ln lgam alpha y ax = poisson_spec ln lgam alpha y ax) /\
  (* squared_l2_abs_loss *)
  (forall alpha (w : list R) (y ax : list cxR),
   sql2abs_impl sqrt alpha w y ax = sql2abs_spec sqrt alpha w y ax) /\
  (* squared_l2_squared_abs_loss *)
  (forall alpha (w : list R) (y ax : list cxR),
   sql2sqabs_impl sqrt alpha w y ax = sql2sqabs_spec alpha w y ax).
Proof.
  exact (conj loss_ok_even (conj sql2loss_ok (conj poisson_ok (conj sql2abs_ok sql2sqabs_ok)))).
Qed.
Print Assumptions C09_losses.

(** total variation: np.diff with the first (circular) / last (append=0) entry appended is the documented
    difference matrix (every length); TV norm = the norm of D x on the requested axes (every shape) *)
Theorem C09_total_variation :
  (* diff_is_documented_matrix *)
  (forall circ (x : list cxR),
   diff_impl circ x = map (fun i => rdot (drow circ (length x) i) x) (seq 0 (length x))) /\
  (* tv_norm_is_norm_of_D *)
  (forall (nrm : arrR -> R) circ axes (a : arrR),
   tv_impl nrm circ axes a = nrm (D_stack circ axes a)) /\
  (* anisotropic_tv *)
  (forall circ axes (a : arrR),
   atv_impl sqrt circ axes a = l1_spec sqrt (adata (D_stack circ axes a))) /\
  (* isotropic_tv *)
  (forall circ axes (a : arrR),
   itv_impl sqrt circ axes a = l21_spec sqrt [0%nat] (D_stack circ axes a)) /\
  (* isotropic TV pixel by pixel: sum_j sqrt (sum_{k in axes} |(D_k x)_j|^2) *)
  (forall circ axes (a : arrR),
   Forall (fun k => (k < length (ashape a))%nat) axes ->
   itv_spec sqrt circ axes a
   = ksum (map (fun j => sqrt (ksum (map (fun k => cabs2 (nth j (D_axis circ (ashape a) k (adata a)) c0)) axes)))
               (seq 0 (prod (ashape a))))).
Proof.
  exact (conj diff_is_D (conj (fun nrm circ axes a => tv_ok nrm nrm circ axes a (fun b => eq_refl)) (conj atv_ok (conj itv_ok itv_pixelwise)))).
Qed.
Print Assumptions C09_total_variation.

(** metrics *)
Theorem C09_metrics :
  (* mae *)
  (forall r c : list cxR, mae_impl sqrt r c = mae_spec sqrt r c) /\
  (* mse *)
  (forall r c : list cxR, mse_impl sqrt r c = mse_spec r c) /\
  (* snr *)
  (forall lg (r c : list cxR), snr_impl sqrt lg r c = snr_spec lg r c) /\
  (* psnr *)
  (forall lg range (r c : list cxR),
   psnr_impl sqrt lg range r c = psnr_spec lg range r c /\ range_impl r = range_of r) /\
  (* isnr *)
  (forall lg (r deg rst : list cxR), isnr_impl sqrt lg r deg rst = isnr_spec lg r deg rst) /\
  (* bsnr *)
  (forall lg (b n : list cxR), bsnr_impl lg b n = bsnr_spec lg b n) /\
  (* rel_res *)
  (forall ax b : list cxR,
   relres_impl sqrt ax b = relres_spec sqrt ax b /\
   (l2_spec sqrt ax = 0 -> l2_spec sqrt b = 0 -> relres_spec sqrt ax b = 0)).
Proof.
  exact (conj mae_ok (conj mse_ok (conj snr_ok (conj (fun lg range r c => conj (psnr_ok lg range r c) (psnr_range_ok r)) (conj isnr_ok (conj bsnr_ok (fun ax b => conj (relres_ok ax b) (relres_zero ax b)))))))).
Qed.
Print Assumptions C09_metrics.

(** block arrays: element-wise steps mapped over the blocks + full reduction of the concatenated
    ravelled blocks = the Spec on the concatenation *)
Theorem C09_block_arrays :
  (* block_values *)
  (forall (blocks : list arrR) delta,
   let bd := map (@adata R) blocks in
   a_sum (concat (map (map (fun z : cxR => if czerob z then k0 else k1)) bd)) = l0_spec (flat blocks) /\
   a_sum (concat (map (a_abs sqrt) bd)) = l1_spec sqrt (flat blocks) /\
   a_sum (concat (map (fun b => a_sqr (a_abs sqrt b)) bd)) = sql2_spec (flat blocks) /\
   a_norm sqrt (concat bd) = l2_spec sqrt (flat blocks) /\
   a_sum (concat (map (fun b => map (fun xa => if kleb xa delta then khalf * (xa * xa)
                                               else delta * (xa - delta / k2)) (a_abs sqrt b)) bd))
     = huber_sep_spec sqrt delta (flat blocks) /\
   (if existsb (fun b : bool => b) (concat (map (map (fun z : cxR => kltb (cre z) k0)) bd))
    then PInf else Fin k0) = nonneg_spec (flat blocks)).
Proof.
  exact block_values.
Qed.
Print Assumptions C09_block_arrays.

(** the square root used when the models are executed at Qc: sentinel -1, or within 2^-64 below
    the real square root (so every tolerance comparison of the harness is against the real value) *)
Theorem C09_executable_sqrt : forall s : Qc,
  qrt s = (- (1))%Qc \/
  (0 <= inj (qrt s) /\ inj (qrt s) <= sqrt (inj s) /\ sqrt (inj s) < inj (qrt s) + inj sqrt_eps).
Proof. exact qrt_bracket. Qed.
Print Assumptions C09_executable_sqrt.

(** scico/metric.py as REGENERATED FROM THE SOURCE on every run (coq/gen/C09_Metric.v, tools/py2coq.py), with the library
    routines it calls interpreted by the array operations of C09/Impl.v ([MS_impl]), computes the documented
    definitions: for all arrays of every length, real or complex, every [signal_range] (given or defaulted), every log10 *)
Theorem C09_gen_metric : forall lg : R -> R,
  (forall r c : list cxR, mae_gen (MS:=MS_impl sqrt lg) r c = mae_spec sqrt r c) /\
  (forall r c : list cxR, mse_gen (MS:=MS_impl sqrt lg) r c = mse_spec r c) /\
  (forall r c : list cxR, snr_gen (MS:=MS_impl sqrt lg) r c = snr_spec lg r c) /\
  (forall range (r c : list cxR), psnr_gen__signal_range (MS:=MS_impl sqrt lg) r c range = psnr_spec lg range r c) /\
  (forall r c : list cxR, psnr_gen__none (MS:=MS_impl sqrt lg) r c = psnr_spec lg (range_of r) r c) /\
  (forall r d s : list cxR, isnr_gen (MS:=MS_impl sqrt lg) r d s = isnr_spec lg r d s) /\
  (forall b n : list cxR, bsnr_gen (MS:=MS_impl sqrt lg) b n = bsnr_spec lg b n) /\
  (forall ax b : list cxR, rel_res_gen (MS:=MS_impl sqrt lg) ax b = relres_spec sqrt ax b).
Proof. exact gen_metric_spec. Qed.
Print Assumptions C09_gen_metric.

(** the executable [*_impl] metric functions which the correspondence check runs against scico (at [Qc]) are
    the source-generated definitions, for every input: the hand transcription cannot drift from the source *)
Theorem C09_gen_metric_exec : forall rt lg : Qc -> Qc,
  (forall r c : list (cx (K:=Qc)), mae_impl rt r c = mae_gen (MS:=MS_impl rt lg) r c) /\
  (forall r c : list (cx (K:=Qc)), mse_impl rt r c = mse_gen (MS:=MS_impl rt lg) r c) /\
  (forall r c : list (cx (K:=Qc)), snr_impl rt lg r c = snr_gen (MS:=MS_impl rt lg) r c) /\
  (forall range (r c : list (cx (K:=Qc))), psnr_impl rt lg range r c = psnr_gen__signal_range (MS:=MS_impl rt lg) r c range) /\
  (forall r c : list (cx (K:=Qc)), psnr_impl rt lg (range_impl r) r c = psnr_gen__none (MS:=MS_impl rt lg) r c) /\
  (forall r d s : list (cx (K:=Qc)), isnr_impl rt lg r d s = isnr_gen (MS:=MS_impl rt lg) r d s) /\
  (forall b n : list (cx (K:=Qc)), bsnr_impl lg b n = bsnr_gen (MS:=MS_impl rt lg) b n) /\
  (forall ax b : list (cx (K:=Qc)), relres_impl rt ax b = rel_res_gen (MS:=MS_impl rt lg) ax b).
Proof. exact gen_metric_exec. Qed.
Print Assumptions C09_gen_metric_exec.

(** the [__call__] methods of L0Norm, L1Norm, SquaredL2Norm, L2Norm and L1MinusL2Norm as REGENERATED FROM scico/functional/_norm.py
    on every run (coq/gen/C09_{L0,L1,SqL2,L2,L1mL2}.v), with count_nonzero / snp.sum / snp.abs / norm interpreted by the
    array operations of C09/Impl.v ([NS_impl]): equal to the documented norms for all arrays and every beta (over R) ... *)
Theorem C09_gen_norms :
  (forall d : list cxR, C09_L0.call_gen (NS:=NS_impl sqrt) d = l0_spec d) /\
  (forall d : list cxR, C09_L1.call_gen (NS:=NS_impl sqrt) d = l1_spec sqrt d) /\
  (forall d : list cxR, C09_SqL2.call_gen (NS:=NS_impl sqrt) d = sql2_spec d) /\
  (forall d : list cxR, C09_L2.call_gen (NS:=NS_impl sqrt) d = l2_spec sqrt d) /\
  (forall (beta : R) (d : list cxR), C09_L1mL2.call_gen (NS:=NS_impl sqrt) (C09_L1mL2.mk_st beta) d = l1ml2_spec sqrt beta d).
Proof. exact gen_norm_spec. Qed.
Print Assumptions C09_gen_norms.

(** ... and identical to the [*_impl] functions the correspondence check executes at [Qc] *)
Theorem C09_gen_norms_exec : forall rt : Qc -> Qc,
  (forall d : list (cx (K:=Qc)), l0_impl d = C09_L0.call_gen (NS:=NS_impl rt) d) /\
  (forall d : list (cx (K:=Qc)), l1_impl rt d = C09_L1.call_gen (NS:=NS_impl rt) d) /\
  (forall d : list (cx (K:=Qc)), sql2_impl rt d = C09_SqL2.call_gen (NS:=NS_impl rt) d) /\
  (forall d : list (cx (K:=Qc)), l2_impl rt d = C09_L2.call_gen (NS:=NS_impl rt) d) /\
  (forall (beta : Qc) (d : list (cx (K:=Qc))), l1ml2_impl rt beta d = C09_L1mL2.call_gen (NS:=NS_impl rt) (C09_L1mL2.mk_st beta) d).
Proof. exact gen_norm_exec. Qed.
Print Assumptions C09_gen_norms_exec.

(** [__call__] of SquaredL2Loss, SquaredL2AbsLoss and SquaredL2SquaredAbsLoss as REGENERATED FROM scico/loss.py on every run
    (coq/gen/C09_SqL2*Loss.v; [w] = W.diagonal, [A] any forward map): the documented weighted sums, for all data *)
Theorem C09_gen_losses :
  (forall alpha (w : list R) (y : list cxR) (A : list cxR -> list cxR) x,
     C09_SqL2Loss.call_gen (NS:=NS_impl sqrt) (LS:=LS_impl) w (C09_SqL2Loss.mk_st alpha y A) x = sql2loss_spec alpha w y (A x)) /\
  (forall alpha (w : list R) (y : list cxR) (A : list cxR -> list cxR) x,
     C09_SqL2AbsLoss.call_gen (NS:=NS_impl sqrt) (LS:=LS_impl) w (C09_SqL2AbsLoss.mk_st alpha y A) x = sql2abs_spec sqrt alpha w y (A x)) /\
  (forall alpha (w : list R) (y : list cxR) (A : list cxR -> list cxR) x,
     C09_SqL2SqAbsLoss.call_gen (NS:=NS_impl sqrt) (LS:=LS_impl) w (C09_SqL2SqAbsLoss.mk_st alpha y A) x = sql2sqabs_spec alpha w y (A x)).
Proof. exact gen_loss_spec. Qed.
Print Assumptions C09_gen_losses.

Theorem C09_gen_losses_exec : forall rt : Qc -> Qc,
  (forall alpha (w : list Qc) (y : list (cx (K:=Qc))) (A : list (cx (K:=Qc)) -> list (cx (K:=Qc))) x,
     sql2loss_impl rt alpha w y (A x) = C09_SqL2Loss.call_gen (NS:=NS_impl rt) (LS:=LS_impl) w (C09_SqL2Loss.mk_st alpha y A) x) /\
  (forall alpha (w : list Qc) (y : list (cx (K:=Qc))) (A : list (cx (K:=Qc)) -> list (cx (K:=Qc))) x,
     sql2abs_impl rt alpha w y (A x) = C09_SqL2AbsLoss.call_gen (NS:=NS_impl rt) (LS:=LS_impl) w (C09_SqL2AbsLoss.mk_st alpha y A) x) /\
  (forall alpha (w : list Qc) (y : list (cx (K:=Qc))) (A : list (cx (K:=Qc)) -> list (cx (K:=Qc))) x,
     sql2sqabs_impl rt alpha w y (A x) = C09_SqL2SqAbsLoss.call_gen (NS:=NS_impl rt) (LS:=LS_impl) w (C09_SqL2SqAbsLoss.mk_st alpha y A) x).
Proof. exact gen_loss_exec. Qed.
Print Assumptions C09_gen_losses_exec.

(** [__call__] of ScaledFunctional, FunctionalSum and ZeroFunctional as REGENERATED FROM scico/functional/_functional.py on every
    run (coq/gen/C09_{Scaled,FSum,Zero}.v), for arbitrary component functionals with values in [ext] (so [+inf] included) *)
Theorem C09_gen_algebra :
  (forall (X : Type) (c : R) (f : X -> ext R) x,
     C09_Scaled.call_gen (ES:=ES_impl) (C09_Scaled.mk_st c f) x = scaled_spec c (f x)) /\
  (forall (X : Type) (f g : X -> ext R) x,
     C09_FSum.call_gen (ES:=ES_impl) (C09_FSum.mk_st f g) x = fsum_spec (f x) (g x)) /\
  (forall d : list cxR, C09_Zero.call_gen d = zero_spec d).
Proof. exact gen_algebra_spec. Qed.
Print Assumptions C09_gen_algebra.

Theorem C09_gen_algebra_exec :
  (forall (X : Type) (c : Qc) (f : X -> ext Qc) x,
     scaled_impl c (f x) = C09_Scaled.call_gen (ES:=ES_impl) (C09_Scaled.mk_st c f) x) /\
  (forall (X : Type) (f g : X -> ext Qc) x,
     fsum_impl (f x) (g x) = C09_FSum.call_gen (ES:=ES_impl) (C09_FSum.mk_st f g) x) /\
  (forall d : list (cx (K:=Qc)), zero_impl d = C09_Zero.call_gen d).
Proof. exact gen_algebra_exec. Qed.
Print Assumptions C09_gen_algebra_exec.

(** *** non-vacuity: the executable instance evaluates the same definitions on concrete data *)
Example C09_ex_l2ball_boundary :
  l2ball_exec (q (5 # 1)) (LR [3 # 1; (-4) # 1]) = Fin 0%Qc /\
  l2ball_exec (q (5 # 1)) (LR [3 # 1; (-4) # 1; 1 # 4]) = PInf /\
  nonneg_spec (LR [0 # 1; 2 # 1]) = Fin 0%Qc /\ nonneg_spec (LR [0 # 1; (-1) # 8]) = PInf.
Proof. vm_compute. repeat split; reflexivity. Qed.

Example C09_ex_tv :
  let im := A [2%nat; 3%nat] (LR [1 # 1; 2 # 1; 4 # 1; 0 # 1; 4 # 1; 1 # 1]) in
  map (@this) [atv_spec qrt false [0%nat; 1%nat] im; atv_impl qrt false [0%nat; 1%nat] im;
               atv_spec qrt true [0%nat; 1%nat] im; atv_impl qrt true [0%nat; 1%nat] im]
  = [16 # 1; 16 # 1; 26 # 1; 26 # 1]%Q.
Proof. vm_compute. reflexivity. Qed.

Example C09_ex_drow :
  map (@this) (drow (K:=Qc) true 3 2) = [1; 0; -1]%Q /\ map (@this) (drow (K:=Qc) false 3 2) = [0; 0; 0]%Q
  /\ map (@this) (drow (K:=Qc) false 3 0) = [-1; 1; 0]%Q.
Proof. vm_compute. repeat split; reflexivity. Qed.

Example C09_ex_loss_not_even :
  loss_impl (nonneg_impl (K:=Qc)) 1%Qc (LR [1 # 1]) (LR [0 # 1]) = PInf /\
  loss_spec (nonneg_spec (K:=Qc)) 1%Qc (LR [1 # 1]) (LR [0 # 1]) = Fin 0%Qc.
Proof. vm_compute. split; reflexivity. Qed.

Example C09_ex_gen_metric :
  let lg := fun x : Qc => x in
  map (@this) [mse_gen (MS:=MS_impl qrt lg) (LR [1 # 1; 2 # 1]) (LR [0 # 1; 0 # 1]); mse_impl qrt (LR [1 # 1; 2 # 1]) (LR [0 # 1; 0 # 1]);
               rel_res_gen (MS:=MS_impl qrt lg) (LR [0 # 1]) (LR [0 # 1]);
               bsnr_gen (MS:=MS_impl qrt lg) (LR [1 # 1; 3 # 1]) (LR [2 # 1; 3 # 1]); bsnr_impl lg (LR [1 # 1; 3 # 1]) (LR [2 # 1; 3 # 1])]
  = [5 # 2; 5 # 2; 0 # 1; 40 # 1; 40 # 1]%Q.
Proof. vm_compute. reflexivity. Qed.

Example C09_ex_gen_norms :
  map (@this) [C09_L0.call_gen (NS:=NS_impl qrt) (LR [3 # 1; 0 # 1; (-4) # 1]); C09_L1.call_gen (NS:=NS_impl qrt) (LR [3 # 1; 0 # 1; (-4) # 1]);
               C09_SqL2.call_gen (NS:=NS_impl qrt) (LR [3 # 1; 0 # 1; (-4) # 1])]
  = [2 # 1; 7 # 1; 25 # 1]%Q.
Proof. vm_compute. reflexivity. Qed.
