(** C10 -- every ADMM x-update solver returns the sub-problem minimiser.
    Only statements; each closed by [exact] of a lemma of coq/theories/C10/*.v.
    "System (1)" is  (2 alpha A^H W A + sum_i rho_i C_i^H C_i) x = 2 alpha A^H W y + sum_i rho_i C_i^H (z_i - u_i)
    = [sys_lhs f bs x = sys_rhs f bs] of C10/NormalEq.v. *)
From Coq Require Import Reals Lra List Field QArith Qcanon.
From SV Require Import Base.InnerSpace C10.NormalEq C10.Woodbury C10.FreqDomain C10.SolverModels
                       C10.Circulant C10.Instance.
Import ListNotations.
Open Scope R_scope.

(** (1) For every inner-product space, optional data term (A with adjoint, W self-adjoint PSD,
    alpha >= 0) and ANY LIST of blocks (C_i with adjoint, rho_i >= 0): x minimises
    alpha||Ax-y||_W^2 + sum_i rho_i/2 ||z_i-u_i-C_i x||^2  <->  x solves system (1). *)
Theorem C10_minimiser_iff_normal_equations :
       forall (X : InnerSpace) (f : option DataTerm) (bs : list Block),
       odata_ok f ->
       Forall block_ok bs ->
       forall x : E,
       (forall x' : E, sub_obj f bs x <= sub_obj f bs x') <-> sys_lhs f bs x = sys_rhs f bs.
Proof. exact (@subproblem_min_iff_system). Qed.
Print Assumptions C10_minimiser_iff_normal_equations.

(** (6) uniqueness: two solutions of system (1) coincide when the lhs operator is definite;
    so all solvers applicable to one problem return the same x *)
Theorem C10_system_solution_unique :
       forall (X : InnerSpace) (f : option DataTerm) (bs : list Block),
       odata_ok f ->
       Forall block_ok bs ->
       Definite (sys_lhs f bs) ->
       forall x1 x2 : E,
       sys_lhs f bs x1 = sys_rhs f bs -> sys_lhs f bs x2 = sys_rhs f bs -> x1 = x2.
Proof. exact (@system_solution_unique). Qed.
Print Assumptions C10_system_solution_unique.

(** a block with rho > 0 and ||C d|| >= ||d|| (e.g. Identity) makes system (1) definite *)
Theorem C10_definite_with_injective_block :
       forall (X : InnerSpace) (f : option DataTerm) (bs : list Block) (b : Block),
       odata_ok f ->
       Forall block_ok bs ->
       In b bs -> 0 < brho b -> (forall d : E, nsq d <= nsq (bC b d)) -> Definite (sys_lhs f bs).
Proof. exact (@definite_of_block). Qed.
Print Assumptions C10_definite_with_injective_block.

(** approximate solutions: mu ||x - xmin|| <= ||residual of system (1) at x||  (strongly convex case);
    this is what a relative-residual accuracy statement of a solver buys *)
Theorem C10_stability :
       forall (X : InnerSpace) (f : option DataTerm) (bs : list Block) (mu : R),
       odata_ok f ->
       Forall block_ok bs ->
       0 < mu ->
       (forall d : E, mu * nsq d <= ip (sys_lhs f bs d) d) ->
       forall xs x : E,
       sys_lhs f bs xs = sys_rhs f bs ->
       mu * norm (vsub x xs) <= norm (vsub (sys_lhs f bs x) (sys_rhs f bs)).
Proof. exact (@system_stability). Qed.
Print Assumptions C10_stability.

(** (2) LinearSubproblemSolver.internal_init: reduce(+, rho_i * C_i.gram_op) (+ f.hessian) is
    the left-hand operator of system (1) -- with the loss scale and the weights *)
Theorem C10_linear_lhs_op_is_system_lhs :
       forall (X : InnerSpace) (f : option DataTerm) (bs : list Block),
       bs <> nil ->
       exists L : Op, lhs_op_model f bs = Some L /\ (forall x : E, L x = sys_lhs f bs x).
Proof. exact (@lhs_op_model_spec). Qed.
Print Assumptions C10_linear_lhs_op_is_system_lhs.

(** (2) compute_rhs() is the right-hand side of system (1) -- with the loss scale and the weights *)
Theorem C10_linear_compute_rhs_is_system_rhs :
       forall (X : InnerSpace) (f : option DataTerm) (bs : list Block),
       compute_rhs_model f bs = sys_rhs f bs.
Proof. exact (@compute_rhs_model_spec). Qed.
Print Assumptions C10_linear_compute_rhs_is_system_rhs.

(** an exact solve of lhs_op x = compute_rhs() is the sub-problem minimiser *)
Theorem C10_linear_exact_solve_is_minimiser :
       forall (X : InnerSpace) (f : option DataTerm) (bs : list Block) (L : Op) (x : E),
       odata_ok f ->
       Forall block_ok bs ->
       lhs_op_model f bs = Some L ->
       L x = compute_rhs_model f bs -> forall x' : E, sub_obj f bs x <= sub_obj f bs x'.
Proof. exact (@linear_solver_exact_is_minimiser). Qed.
Print Assumptions C10_linear_exact_solve_is_minimiser.

(** (3) MatrixATADSolver, Woodbury path, in the rectangular ring of additive maps between two
    abelian groups: with G = W^-1 + A D^-1 A^H and fact_solve inverting G,
    x = D^-1 (b - A^H fact_solve(A D^-1 b)) satisfies (A^H W A + D) x = b.  No axioms. *)
Theorem C10_woodbury :
       forall (V U : Type) (vplus : V -> V -> V) (vneg : V -> V) (v0 : V) 
         (uplus : U -> U -> U) (uneg : U -> U) (u0 : U),
       (forall a b : V, vplus a b = vplus b a) ->
       (forall a b c : V, vplus a (vplus b c) = vplus (vplus a b) c) ->
       (forall a : V, vplus a v0 = a) ->
       (forall a : V, vplus a (vneg a) = v0) ->
       (forall a b c : U, uplus a (uplus b c) = uplus (uplus a b) c) ->
       (forall a : U, uplus a u0 = a) ->
       (forall a : U, uplus a (uneg a) = u0) ->
       forall (A : V -> U) (AH : U -> V) (W Winv : U -> U) (D Dinv : V -> V) (fact_solve : U -> U),
       (forall a b : V, A (vminus V vplus vneg a b) = uminus U uplus uneg (A a) (A b)) ->
       (forall a b : V, Dinv (vminus V vplus vneg a b) = vminus V vplus vneg (Dinv a) (Dinv b)) ->
       (forall a : V, D (Dinv a) = a) ->
       (forall a : U, W (Winv a) = a) ->
       (forall u : U, G V U uplus A AH Winv Dinv (fact_solve u) = u) ->
       forall b : V,
       vplus (AH (W (A (woodbury_solve V U vplus vneg A AH Dinv fact_solve b))))
         (D (woodbury_solve V U vplus vneg A AH Dinv fact_solve b)) = b.
Proof. exact (@woodbury_solve_correct). Qed.
Print Assumptions C10_woodbury.

(** (3) MatrixSubproblemSolver: MatrixATADSolver(A, sum rho_i C_i^H C_i, 2 alpha W) with
    b = compute_rhs() is system (1) *)
Theorem C10_matrix_system_is_system1 :
       forall (X : InnerSpace) (d : DataTerm) (bs : list Block),
       data_ok d ->
       forall (Cs : Op) (x : E),
       reduce_add (rho_grams bs) = Some Cs ->
       matrix_system d bs Cs x <-> sys_lhs (Some d) bs x = sys_rhs (Some d) bs.
Proof. exact (@matrix_system_is_system1). Qed.
Print Assumptions C10_matrix_system_is_system1.

(** (3) ... and the x of the Woodbury path solves system (1) *)
Theorem C10_matrix_woodbury_solves_system1 :
       forall (X : InnerSpace) (d : DataTerm) (bs : list Block),
       data_ok d ->
       forall (Cs Dinv : Op) (Winv fact_solve : E -> E),
       reduce_add (rho_grams bs) = Some Cs ->
       (forall a b : E, Dinv (vsub a b) = vsub (Dinv a) (Dinv b)) ->
       (forall a : E, Cs (Dinv a) = a) ->
       (forall a : E, Wscaled d (Winv a) = a) ->
       (forall u : E, vadd (Winv (fact_solve u)) (dA d (Dinv (dAH d (fact_solve u)))) = u) ->
       sys_lhs (Some d) bs (matrix_woodbury_x d bs Dinv fact_solve) = sys_rhs (Some d) bs.
Proof. exact (@matrix_woodbury_solves_system1). Qed.
Print Assumptions C10_matrix_woodbury_solves_system1.

(** (3) accuracy() = ||b - (A^H W' A + D) x|| / ||b|| is the relative residual of system (1) *)
Theorem C10_matrix_accuracy_is_relative_residual :
       forall (X : InnerSpace) (d : DataTerm) (bs : list Block),
       data_ok d ->
       forall Cs : Op,
       reduce_add (rho_grams bs) = Some Cs ->
       forall x : E,
       matrix_accuracy_model d bs Cs x = rel_res (sys_lhs (Some d) bs x) (sys_rhs (Some d) bs).
Proof. exact (@matrix_accuracy_is_relative_residual). Qed.
Print Assumptions C10_matrix_accuracy_is_relative_residual.

(** (4) circulant case: if every C_i^H C_i and A^H W A is F^-1 diag(.) F for one invertible linear F,
    the transform-domain division by the symbol of the whole lhs solves system (1) *)
Theorem C10_circ_division_solves_system1 :
       forall (X : InnerSpace) (T : Type) (tadd : T -> T -> T) (tscale : R -> T -> T)
         (tmul tdiv : T -> T -> T),
       (forall h1 h2 t : T, tmul (tadd h1 h2) t = tadd (tmul h1 t) (tmul h2 t)) ->
       (forall (a : R) (h t : T), tmul (tscale a h) t = tscale a (tmul h t)) ->
       forall (F : E -> T) (Finv : T -> E),
       (forall x : E, Finv (F x) = x) ->
       (forall t : T, F (Finv t) = t) ->
       (forall x y : E, F (vadd x y) = tadd (F x) (F y)) ->
       (forall (a : R) (x : E), F (vscale a x) = tscale a (F x)) ->
       forall (d : DataTerm) (bs : list Block) (cs : list T),
       symbols_ok T tmul F Finv bs cs ->
       forall (Cs : Op) (hs aw : T),
       reduce_add (rho_grams bs) = Some Cs ->
       treduce_add T tadd (rho_symbols T tscale bs cs) = Some hs ->
       Diag T tmul F Finv (fun x : E => dAH d (dW d (dA d x))) aw ->
       let h := tadd hs (tscale (2 * dalpha d) aw) in
       (forall t : T, tmul h (tdiv t h) = t) ->
       sys_lhs (Some d) bs (circ_solve T tdiv F Finv d bs h) = sys_rhs (Some d) bs.
Proof. exact (@circ_division_solves_system1). Qed.
Print Assumptions C10_circ_division_solves_system1.

(** (4) the code's denominator (A.gram_op, no W): its x solves system (1) with W dropped on the left *)
Theorem C10_circ_code_solves_system_without_W_on_lhs :
       forall (X : InnerSpace) (T : Type) (tadd : T -> T -> T) (tscale : R -> T -> T)
         (tmul tdiv : T -> T -> T),
       (forall h1 h2 t : T, tmul (tadd h1 h2) t = tadd (tmul h1 t) (tmul h2 t)) ->
       (forall (a : R) (h t : T), tmul (tscale a h) t = tscale a (tmul h t)) ->
       forall (F : E -> T) (Finv : T -> E),
       (forall x : E, Finv (F x) = x) ->
       (forall t : T, F (Finv t) = t) ->
       (forall x y : E, F (vadd x y) = tadd (F x) (F y)) ->
       (forall (a : R) (x : E), F (vscale a x) = tscale a (F x)) ->
       forall (d : DataTerm) (bs : list Block) (cs : list T),
       symbols_ok T tmul F Finv bs cs ->
       forall (Cs : Op) (hs a : T),
       reduce_add (rho_grams bs) = Some Cs ->
       treduce_add T tadd (rho_symbols T tscale bs cs) = Some hs ->
       Diag T tmul F Finv (fun x : E => dAH d (dA d x)) a ->
       let h := tadd hs (tscale (2 * dalpha d) a) in
       (forall t : T, tmul h (tdiv t h) = t) ->
       vadd (vscale (2 * dalpha d) (dAH d (dA d (circ_solve T tdiv F Finv d bs h))))
         (blocks_lhs bs (circ_solve T tdiv F Finv d bs h)) = sys_rhs (Some d) bs.
Proof. exact (@Circulant.circ_code_solves_unweighted_lhs). Qed.
Print Assumptions C10_circ_code_solves_system_without_W_on_lhs.

(** (4) RESTRICTED property for CircularConvolveSolver (unit weights).  Full statement (any W,
    with the code's denominator) is refuted: Findings/C10_circ_weights.v *)
Theorem C10_circ_code_correct_unweighted :
       forall (X : InnerSpace) (T : Type) (tadd : T -> T -> T) (tscale : R -> T -> T)
         (tmul tdiv : T -> T -> T),
       (forall h1 h2 t : T, tmul (tadd h1 h2) t = tadd (tmul h1 t) (tmul h2 t)) ->
       (forall (a : R) (h t : T), tmul (tscale a h) t = tscale a (tmul h t)) ->
       forall (F : E -> T) (Finv : T -> E),
       (forall x : E, Finv (F x) = x) ->
       (forall t : T, F (Finv t) = t) ->
       (forall x y : E, F (vadd x y) = tadd (F x) (F y)) ->
       (forall (a : R) (x : E), F (vscale a x) = tscale a (F x)) ->
       forall (d : DataTerm) (bs : list Block) (cs : list T),
       symbols_ok T tmul F Finv bs cs ->
       forall (Cs : Op) (hs a : T),
       (forall v : E, dW d v = v) ->
       reduce_add (rho_grams bs) = Some Cs ->
       treduce_add T tadd (rho_symbols T tscale bs cs) = Some hs ->
       Diag T tmul F Finv (fun x : E => dAH d (dA d x)) a ->
       let h := tadd hs (tscale (2 * dalpha d) a) in
       (forall t : T, tmul h (tdiv t h) = t) ->
       sys_lhs (Some d) bs (circ_solve T tdiv F Finv d bs h) = sys_rhs (Some d) bs.
Proof. exact (@circ_code_solves_system1_unweighted). Qed.
Print Assumptions C10_circ_code_correct_unweighted.

(** (4) f = None *)
Theorem C10_circ_code_correct_no_f :
       forall (X : InnerSpace) (T : Type) (tadd : T -> T -> T) (tscale : R -> T -> T)
         (tmul tdiv : T -> T -> T),
       (forall h1 h2 t : T, tmul (tadd h1 h2) t = tadd (tmul h1 t) (tmul h2 t)) ->
       (forall (a : R) (h t : T), tmul (tscale a h) t = tscale a (tmul h t)) ->
       forall (F : E -> T) (Finv : T -> E),
       (forall x : E, Finv (F x) = x) ->
       (forall t : T, F (Finv t) = t) ->
       (forall x y : E, F (vadd x y) = tadd (F x) (F y)) ->
       (forall (a : R) (x : E), F (vscale a x) = tscale a (F x)) ->
       forall (bs : list Block) (cs : list T) (Cs : Op) (hs : T),
       symbols_ok T tmul F Finv bs cs ->
       reduce_add (rho_grams bs) = Some Cs ->
       treduce_add T tadd (rho_symbols T tscale bs cs) = Some hs ->
       (forall t : T, tmul hs (tdiv t hs) = t) ->
       let x := Finv (tdiv (F (compute_rhs_model None bs)) hs) in
       sys_lhs None bs x = sys_rhs None bs.
Proof. exact (@circ_code_solves_system1_no_f). Qed.
Print Assumptions C10_circ_code_correct_no_f.

(** (4) per frequency over any field: the code's x solves system (1) iff 2 alpha (w-1) ga x = 0 *)
Theorem C10_circ_freq_code_iff :
       forall (K : Type) (k0 k1 : K) (kadd kmul ksub : K -> K -> K) (kopp : K -> K)
         (kdiv : K -> K -> K) (kinv : K -> K),
       field_theory k0 k1 kadd kmul ksub kopp kdiv kinv eq ->
       forall (two_alpha w ga ay : K) (bs : list (cblock K)),
       circ_den_code K k0 kadd kmul two_alpha ga bs <> k0 ->
       circ_system K k0 kadd kmul two_alpha w ga ay bs
         (circ_x_code K k0 kadd kmul kdiv two_alpha w ga ay bs) <->
       kmul (kmul two_alpha (kmul (ksub w k1) ga))
         (circ_x_code K k0 kadd kmul kdiv two_alpha w ga ay bs) = k0.
Proof. exact (@circ_code_system_iff). Qed.
Print Assumptions C10_circ_freq_code_iff.

(** (4) per frequency, unit weights *)
Theorem C10_circ_freq_code_correct_unweighted :
       forall (K : Type) (k0 k1 : K) (kadd kmul ksub : K -> K -> K) (kopp : K -> K)
         (kdiv : K -> K -> K) (kinv : K -> K),
       field_theory k0 k1 kadd kmul ksub kopp kdiv kinv eq ->
       forall (two_alpha ga ay : K) (bs : list (cblock K)),
       circ_den_code K k0 kadd kmul two_alpha ga bs <> k0 ->
       circ_system K k0 kadd kmul two_alpha k1 ga ay bs
         (circ_x_code K k0 kadd kmul kdiv two_alpha k1 ga ay bs).
Proof. exact (@circ_code_correct_unweighted). Qed.
Print Assumptions C10_circ_freq_code_correct_unweighted.

(** (4) per frequency, the repaired denominator 2 alpha w ga + sum rho_i g_i is right for every w *)
Theorem C10_circ_freq_fixed_correct :
       forall (K : Type) (k0 k1 : K) (kadd kmul ksub : K -> K -> K) (kopp : K -> K)
         (kdiv : K -> K -> K) (kinv : K -> K),
       field_theory k0 k1 kadd kmul ksub kopp kdiv kinv eq ->
       forall (two_alpha w ga ay : K) (bs : list (cblock K)),
       kadd (kmul two_alpha (kmul w ga)) (circ_csum K k0 kadd kmul bs) <> k0 ->
       circ_system K k0 kadd kmul two_alpha w ga ay bs
         (kdiv (circ_rhs K k0 kadd kmul two_alpha w ay bs)
            (kadd (kmul two_alpha (kmul w ga)) (circ_csum K k0 kadd kmul bs))).
Proof. exact (@circ_fixed_correct). Qed.
Print Assumptions C10_circ_freq_fixed_correct.

(** (5) ConvATADSolver at one frequency, any number of channels, over any field:
    conj(Ahat_k) (A x)^ + Dhat_k xhat_k = bhat_k *)
Theorem C10_convatad_sherman_morrison :
       forall (K : Type) (k0 k1 : K) (kadd kmul ksub : K -> K -> K) (kopp : K -> K)
         (kdiv : K -> K -> K) (kinv : K -> K),
       field_theory k0 k1 kadd kmul ksub kopp kdiv kinv eq ->
       forall l : list (chan K),
       Forall (fun t : chan K => ch_d K t <> k0) l ->
       kadd k1 (S1 K k0 kadd kmul kdiv l) <> k0 ->
       forall t : chan K,
       In t l ->
       kadd (kmul (ch_ac K t) (Ax K k0 kadd kmul l (convatad_x K k0 k1 kadd kmul ksub kdiv l)))
         (kmul (ch_d K t) (convatad_x K k0 k1 kadd kmul ksub kdiv l t)) = 
       ch_b K t.
Proof. exact (@convatad_solves). Qed.
Print Assumptions C10_convatad_sherman_morrison.

(** (5) FBlock solver end to end at one frequency: division of D and rhs by 2 alpha gives
    2 alpha conj(a_k) (Ax)^ + csum_k x_k = rhs_k  (system (1) for unit weights) *)
Theorem C10_fblock_code_solves :
       forall (K : Type) (k0 k1 : K) (kadd kmul ksub : K -> K -> K) (kopp : K -> K)
         (kdiv : K -> K -> K) (kinv : K -> K),
       field_theory k0 k1 kadd kmul ksub kopp kdiv kinv eq ->
       forall (two_alpha : K) (l : list (fchan K)),
       two_alpha <> k0 ->
       Forall (fun t : chan K => ch_d K t <> k0) l ->
       kadd k1 (S1 K k0 kadd kmul kdiv (map (fblock_chan K kdiv two_alpha) l)) <> k0 ->
       forall t : fchan K,
       In t l ->
       kadd
         (kmul two_alpha
            (kmul (ch_ac K t) (fblock_Ax_code K k0 k1 kadd kmul ksub kdiv two_alpha l)))
         (kmul (ch_d K t) (fblock_x_code K k0 k1 kadd kmul ksub kdiv two_alpha l t)) = 
       ch_b K t.
Proof. exact (@fblock_code_solves). Qed.
Print Assumptions C10_fblock_code_solves.

(** (5) FBlock solver, operator level, RESTRICTED to unit weights (full statement refuted:
    Findings/C10_circ_weights.v, fblock_weighted_refuted) *)
Theorem C10_fblock_operator_scaling_unweighted :
       forall (X : InnerSpace) (d : DataTerm) (bs : list Block),
       2 * dalpha d <> 0 ->
       forall (Cs : Op) (x : E),
       (forall v : E, dW d v = v) ->
       reduce_add (rho_grams bs) = Some Cs ->
       fblock_system d bs Cs x <-> sys_lhs (Some d) bs x = sys_rhs (Some d) bs.
Proof. exact (@fblock_system_is_system1_unweighted). Qed.
Print Assumptions C10_fblock_operator_scaling_unweighted.

(** (5) FBlock solver, operator level, any W: what is solved is system (1) with W dropped on the left *)
Theorem C10_fblock_operator_scaling :
       forall (X : InnerSpace) (d : DataTerm) (bs : list Block),
       2 * dalpha d <> 0 ->
       forall (Cs : Op) (x : E),
       reduce_add (rho_grams bs) = Some Cs ->
       fblock_system d bs Cs x <->
       vadd (vscale (2 * dalpha d) (dAH d (dA d x))) (blocks_lhs bs x) = sys_rhs (Some d) bs.
Proof. exact (@SolverModels.fblock_system_iff). Qed.
Print Assumptions C10_fblock_operator_scaling.

(** (5) ... which is system (1) iff 2 alpha (w-1) conj(a)(Ax)^ = 0 *)
Theorem C10_fblock_freq_weighted_iff :
       forall (K : Type) (k0 k1 : K) (kadd kmul ksub : K -> K -> K) (kopp : K -> K)
         (kdiv : K -> K -> K) (kinv : K -> K),
       field_theory k0 k1 kadd kmul ksub kopp kdiv kinv eq ->
       forall two_alpha w ac s x csum ay rsum : K,
       kadd (kmul two_alpha (kmul ac s)) (kmul csum x) = kadd (kmul two_alpha (kmul w ay)) rsum ->
       kadd (kmul two_alpha (kmul w (kmul ac s))) (kmul csum x) =
       kadd (kmul two_alpha (kmul w ay)) rsum <->
       kmul two_alpha (kmul (ksub w k1) (kmul ac s)) = k0.
Proof. exact (@FreqDomain.fblock_system_iff). Qed.
Print Assumptions C10_fblock_freq_weighted_iff.

(** (5) G0 solver end to end at one frequency: what the code solves carries 2 omega rho_1 *)
Theorem C10_g0_code_solves :
       forall (K : Type) (k0 k1 : K) (kadd kmul ksub : K -> K -> K) (kopp : K -> K)
         (kdiv : K -> K -> K) (kinv : K -> K),
       field_theory k0 k1 kadd kmul ksub kopp kdiv kinv eq ->
       forall (omega rho1 : K) (l : list (gchan K)),
       kmul (kmul (kadd k1 k1) omega) rho1 <> k0 ->
       Forall (fun t : K * K * K * (K * K) => snd (fst t) <> k0) l ->
       kadd k1 (S1 K k0 kadd kmul kdiv (map (g0_chan K k1 kadd kmul kdiv omega rho1) l)) <> k0 ->
       forall t : gchan K,
       In t l ->
       kadd
         (kmul (kmul (kmul (kadd k1 k1) omega) rho1)
            (kmul (snd (fst (fst t))) (g0_Ax_code K k0 k1 kadd kmul ksub kdiv omega rho1 l)))
         (kmul (snd (fst t)) (g0_x_code K k0 k1 kadd kmul ksub kdiv omega rho1 l t)) =
       kadd (kmul (kmul (kmul (kadd k1 k1) omega) rho1) (fst (snd t))) (snd (snd t)).
Proof. exact (@g0_code_solves). Qed.
Print Assumptions C10_g0_code_solves.

(** (5) RESTRICTED property for the G0 solver (g_1.scale = 1/2).  Full statement (any scale) is
    refuted: Findings/C10_g0_scale.v *)
Theorem C10_g0_code_correct_when_scale_half :
       forall (K : Type) (k0 k1 : K) (kadd kmul ksub : K -> K -> K) (kopp : K -> K)
         (kdiv : K -> K -> K) (kinv : K -> K),
       field_theory k0 k1 kadd kmul ksub kopp kdiv kinv eq ->
       forall (omega rho1 : K) (l : list (gchan K)),
       kmul (kadd k1 k1) omega = k1 ->
       rho1 <> k0 ->
       Forall (fun t : K * K * K * (K * K) => snd (fst t) <> k0) l ->
       kadd k1 (S1 K k0 kadd kmul kdiv (map (g0_chan K k1 kadd kmul kdiv omega rho1) l)) <> k0 ->
       forall t : gchan K,
       In t l ->
       g0_system1 K kadd kmul rho1 t (g0_Ax_code K k0 k1 kadd kmul ksub kdiv omega rho1 l)
         (g0_x_code K k0 k1 kadd kmul ksub kdiv omega rho1 l t).
Proof. exact (@g0_code_correct_when_scale_half). Qed.
Print Assumptions C10_g0_code_correct_when_scale_half.

(** (5) G0 solver, operator level, any scale *)
Theorem C10_g0_operator_scaling :
       forall (X : InnerSpace) (b1 : Block) (rest : list Block) (omega : R),
       2 * omega * brho b1 <> 0 ->
       forall (Cs : Op) (x : E),
       reduce_add (rho_grams rest) = Some Cs ->
       g0_system b1 rest omega Cs x <->
       vadd (vscale (2 * omega * brho b1) (gram_op b1 x)) (blocks_lhs rest x) =
       vadd (vscale (2 * omega * brho b1) (bCH b1 (bv b1))) (blocks_rhs rest).
Proof. exact (@SolverModels.g0_system_iff). Qed.
Print Assumptions C10_g0_operator_scaling.

(** (5) G0 solver, operator level, scale 1/2: system (1) of the problem (f = 0) *)
Theorem C10_g0_operator_scaling_scale_half :
       forall (X : InnerSpace) (b1 : Block) (rest : list Block) (omega : R),
       2 * omega * brho b1 <> 0 ->
       forall (Cs : Op) (x : E),
       2 * omega = 1 ->
       reduce_add (rho_grams rest) = Some Cs ->
       g0_system b1 rest omega Cs x <-> sys_lhs None (b1 :: rest) x = sys_rhs None (b1 :: rest).
Proof. exact (@g0_system_is_system1_when_scale_half). Qed.
Print Assumptions C10_g0_operator_scaling_scale_half.

(** ** Non-vacuity: the hypotheses are satisfiable and the conclusions non-trivial *)
Definition ex_data : @DataTerm RSpace :=
  @mkData RSpace RSpace (fun x => 2 * x) (fun y => 2 * y) (fun v => 3 * v) 1 (3 / 4).
Definition ex_block : @Block RSpace :=
  @mkBlock RSpace RSpace (fun x => x) (fun x => x) 2 5 1.

(** alpha = 3/4, A = 2, W = 3, y = 1, one identity block with rho = 2, z = 5, u = 1:
    system (1) is 20 x = 17 *)
Example C10_example_problem :
  @odata_ok RSpace (Some ex_data) /\ Forall (@block_ok RSpace) [ex_block] /\
  @sys_lhs RSpace (Some ex_data) [ex_block] (17 / 20) = @sys_rhs RSpace (Some ex_data) [ex_block] /\
  @Definite RSpace (@sys_lhs RSpace (Some ex_data) [ex_block]) /\
  (forall x' : R, @sub_obj RSpace (Some ex_data) [ex_block] (17 / 20)
                  <= @sub_obj RSpace (Some ex_data) [ex_block] x').
Proof.
  assert (Hd : @odata_ok RSpace (Some ex_data)).
  { cbn. unfold data_ok, IsAdj; cbn. repeat split; intros; try lra. nra. }
  assert (Hb : Forall (@block_ok RSpace) [ex_block]).
  { constructor; [|constructor]. unfold block_ok, IsAdj; cbn. split; intros; lra. }
  assert (Hs : @sys_lhs RSpace (Some ex_data) [ex_block] (17 / 20) = @sys_rhs RSpace (Some ex_data) [ex_block]).
  { unfold sys_lhs, sys_rhs, data_lhs, data_rhs, data_lhs0, data_rhs0, blocks_lhs, blocks_rhs,
      block_lhs, block_rhs, block_lhs0, block_rhs0, bv, vsub. cbn. lra. }
  split; [exact Hd|]. split; [exact Hb|]. split; [exact Hs|]. split.
  - apply (@definite_of_block RSpace (Some ex_data) [ex_block] ex_block); auto.
    + now left.
    + cbn; lra.
    + intros d; cbn; lra.
  - apply (C10_minimiser_iff_normal_equations RSpace (Some ex_data) [ex_block] Hd Hb). exact Hs.
Qed.

(** the assembled operator of LinearSubproblemSolver on this problem *)
Example C10_example_lhs_op :
  exists L, @lhs_op_model RSpace (Some ex_data) [ex_block] = Some L /\ L 1 = 20.
Proof.
  eexists. split; [reflexivity|]. unfold op_add, op_scale, gram_op, hessian; cbn. lra.
Qed.

(** Woodbury path on 1x1 matrices: A = 2, W = 3, D = 5, G = 1/3 + 2*2/5 = 17/15;
    (2*3*2 + 5) x = 17 has the solution x = 1 *)
Example C10_example_woodbury :
  woodbury_solve R R Rplus Ropp (fun v => 2 * v) (fun u => 2 * u) (fun v => v / 5)
                 (fun u => 15 / 17 * u) 17 = 1.
Proof. unfold woodbury_solve, vminus. field. Qed.

(** the circulant theorem with T = R, F = identity, on the unit-weight version of the problem *)
Definition ex_data1 : @DataTerm RSpace :=
  @mkData RSpace RSpace (fun x => 2 * x) (fun y => 2 * y) (fun v => v) 1 (3 / 4).
Example C10_example_circulant :
  @sys_lhs RSpace (Some ex_data1) [ex_block]
     (@circ_solve RSpace R Rdiv (fun x => x) (fun t => t) ex_data1 [ex_block] (2 * 1 + 2 * (3 / 4) * 4))
  = @sys_rhs RSpace (Some ex_data1) [ex_block].
Proof.
  eapply (C10_circ_code_correct_unweighted RSpace R Rplus Rmult Rmult Rdiv
            ltac:(intros; lra) ltac:(intros; lra) (fun x => x) (fun t => t)
            ltac:(reflexivity) ltac:(reflexivity) ltac:(reflexivity) ltac:(reflexivity)
            ex_data1 [ex_block] [1]).
  - cbn. split; auto. intros x. unfold gram_op; cbn. lra.
  - reflexivity.
  - reflexivity.
  - reflexivity.
  - intros x. cbn. lra.
  - intros t. cbn. field.
Qed.

(** Sherman-Morrison at one frequency with two channels over Qc:
    channels (a, conj a, d, b) = (1,1,2,3), (2,2,1,1): conj(a_k) (Ax)^ + d_k x_k = b_k *)
Example C10_example_convatad :
  let l := [(1%Qc, 1%Qc, Q2Qc 2, Q2Qc 3); (Q2Qc 2, Q2Qc 2, 1%Qc, 1%Qc)] in
  let x := convatad_x Qc 0%Qc 1%Qc Qcplus Qcmult Qcminus Qcdiv l in
  let s := Ax Qc 0%Qc Qcplus Qcmult l x in
  map (fun t => this (Qcplus (Qcmult (ch_ac Qc t) s) (Qcmult (ch_d Qc t) (x t)))) l = [3%Q; 1%Q]
  /\ map (fun t => this (x t)) l = [(13 # 11)%Q; (-3 # 11)%Q].
Proof. vm_compute. split; reflexivity. Qed.
