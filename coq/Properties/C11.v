(** C11 -- solver iterations follow the documented update equations.
    Only statements; each is closed by a lemma of coq/theories/C11/Spec_*.v.  The left-hand
    sides (modules SVGen.C11_Ladmm etc.) are regenerated from /repo's working tree by tools/py2coq.py on every
    run; the right-hand sides are the class docstrings transcribed by hand.  All theorems are
    for every scalar type, every vector-space structure (real, complex, block arrays alike),
    every operator / functional / parameter value and every state. *)
From Coq Require Import List Bool ZArith.
From SV Require Import Base.Num C11.Overload C11.SpecBase.
From SV Require C11.Spec_LADMM C11.Spec_PADMM C11.Spec_NLPADMM C11.Spec_PDHG C11.Spec_PGM C11.Spec_ADMM.
From SVGen Require C11_Functional C11_Ladmm C11_Padmm C11_Nlpadmm C11_Pdhg C11_Pgm C11_Apgm C11_Admm.
Import ListNotations.
Local Open Scope spec_scope.

(** LinearizedADMM: one generated step() is the documented update, for all states and parameter values *)
Theorem C11_ladmm_step : forall (K : Type) (NK : Num K) (SK : Sqrt K) (X : Type) (VX : VecOps K X) (Z : Type) (VZ : VecOps K Z) (s : C11_Ladmm.st K X Z),
  C11_Ladmm.step_gen s = Spec_LADMM.step_spec s.
Proof. intros. apply Spec_LADMM.step_follows_doc; assumption. Qed.
Print Assumptions C11_ladmm_step.

(** LinearizedADMM: hence after any number n of iterations *)
Theorem C11_ladmm_history : forall (K : Type) (NK : Num K) (SK : Sqrt K) (X : Type) (VX : VecOps K X) (Z : Type) (VZ : VecOps K Z) (n : nat) (s : C11_Ladmm.st K X Z),
  iter C11_Ladmm.step_gen n s = iter Spec_LADMM.step_spec n s.
Proof. intros. apply Spec_LADMM.history_follows_doc; assumption. Qed.
Print Assumptions C11_ladmm_history.

(** ProximalADMM (any B, c): one generated step() is the documented update, for all states and parameter values *)
Theorem C11_padmm_step : forall (K : Type) (NK : Num K) (SK : Sqrt K) (X : Type) (VX : VecOps K X) (Z : Type) (VZ : VecOps K Z) (s : C11_Padmm.st K X Z),
  C11_Padmm.step_gen s = Spec_PADMM.step_spec s.
Proof. intros. apply Spec_PADMM.step_follows_doc; assumption. Qed.
Print Assumptions C11_padmm_step.

(** ProximalADMM (any B, c): hence after any number n of iterations *)
Theorem C11_padmm_history : forall (K : Type) (NK : Num K) (SK : Sqrt K) (X : Type) (VX : VecOps K X) (Z : Type) (VZ : VecOps K Z) (n : nat) (s : C11_Padmm.st K X Z),
  iter C11_Padmm.step_gen n s = iter Spec_PADMM.step_spec n s.
Proof. intros. apply Spec_PADMM.history_follows_doc; assumption. Qed.
Print Assumptions C11_padmm_history.

(** NonLinearPADMM (Jacobian adjoints = vjp oracles of H): one generated step() is the documented update, for all states and parameter values *)
Theorem C11_nlpadmm_step : forall (K : Type) (NK : Num K) (SK : Sqrt K) (X : Type) (VX : VecOps K X) (Z : Type) (VZ : VecOps K Z) (U : Type) (VU : VecOps K U) (jvpZ : JvpOracle Z U) (cvjpX : CvjpOracle X U) (s : C11_Nlpadmm.st K X Z U),
  C11_Nlpadmm.step_gen s = Spec_NLPADMM.step_spec s.
Proof. intros. apply Spec_NLPADMM.step_follows_doc; assumption. Qed.
Print Assumptions C11_nlpadmm_step.

(** NonLinearPADMM (Jacobian adjoints = vjp oracles of H): hence after any number n of iterations *)
Theorem C11_nlpadmm_history : forall (K : Type) (NK : Num K) (SK : Sqrt K) (X : Type) (VX : VecOps K X) (Z : Type) (VZ : VecOps K Z) (U : Type) (VU : VecOps K U) (jvpZ : JvpOracle Z U) (cvjpX : CvjpOracle X U) (n : nat) (s : C11_Nlpadmm.st K X Z U),
  iter C11_Nlpadmm.step_gen n s = iter Spec_NLPADMM.step_spec n s.
Proof. intros. apply Spec_NLPADMM.history_follows_doc; assumption. Qed.
Print Assumptions C11_nlpadmm_history.

(** PDHG (linear and non-linear C, any extrapolation alpha): one generated step() is the documented update, for all states and parameter values *)
Theorem C11_pdhg_step : forall (K : Type) (NK : Num K) (SK : Sqrt K) (X : Type) (VX : VecOps K X) (Z : Type) (VZ : VecOps K Z) (s : C11_Pdhg.st K X Z),
  C11_Pdhg.step_gen s = Spec_PDHG.step_spec s.
Proof. intros. apply Spec_PDHG.step_follows_doc; assumption. Qed.
Print Assumptions C11_pdhg_step.

(** PDHG (linear and non-linear C, any extrapolation alpha): hence after any number n of iterations *)
Theorem C11_pdhg_history : forall (K : Type) (NK : Num K) (SK : Sqrt K) (X : Type) (VX : VecOps K X) (Z : Type) (VZ : VecOps K Z) (n : nat) (s : C11_Pdhg.st K X Z),
  iter C11_Pdhg.step_gen n s = iter Spec_PDHG.step_spec n s.
Proof. intros. apply Spec_PDHG.history_follows_doc; assumption. Qed.
Print Assumptions C11_pdhg_history.

(** PGM: x+ = prox_{g/L}(x - grad f(x)/L) with L = policy.update(x); residual ||x - x+|| *)
Theorem C11_pgm_step : forall (K : Type) (NK : Num K) (SK : Sqrt K) (X : Type) (VX : VecOps K X) (s : C11_Pgm.st K X),
  C11_Pgm.step_gen s = Spec_PGM.pgm_step_spec s.
Proof. intros. apply Spec_PGM.pgm_step_follows_doc; assumption. Qed.
Print Assumptions C11_pgm_step.

(** PGM: any number of iterations *)
Theorem C11_pgm_history : forall (K : Type) (NK : Num K) (SK : Sqrt K) (X : Type) (VX : VecOps K X) (n : nat) (s : C11_Pgm.st K X),
  iter C11_Pgm.step_gen n s = iter Spec_PGM.pgm_step_spec n s.
Proof. intros. apply Spec_PGM.pgm_history_follows_doc; assumption. Qed.
Print Assumptions C11_pgm_history.

(** PGMStepSize.update (fixed policy) returns the solver's L unchanged *)
Theorem C11_pgm_fixed_policy : forall (K : Type) (NK : Num K) (SK : Sqrt K) (X : Type) (VX : VecOps K X) (L : K) (v : X),
  C11_Pgm.fixed_update_gen L v = L.
Proof. intros. apply Spec_PGM.fixed_update_follows_doc; assumption. Qed.
Print Assumptions C11_pgm_fixed_policy.

(** AcceleratedPGM: FISTA update with momentum t; BB policies receive x, the others v; robust policy takes x+ = Z *)
Theorem C11_apgm_step : forall (K : Type) (NK : Num K) (SK : Sqrt K) (X : Type) (VX : VecOps K X) (s : C11_Apgm.st K X),
  C11_Apgm.step_gen s = Spec_PGM.apgm_step_spec s.
Proof. intros. apply Spec_PGM.apgm_step_follows_doc; assumption. Qed.
Print Assumptions C11_apgm_step.

(** AcceleratedPGM: any number of iterations *)
Theorem C11_apgm_history : forall (K : Type) (NK : Num K) (SK : Sqrt K) (X : Type) (VX : VecOps K X) (n : nat) (s : C11_Apgm.st K X),
  iter C11_Apgm.step_gen n s = iter Spec_PGM.apgm_step_spec n s.
Proof. intros. apply Spec_PGM.apgm_history_follows_doc; assumption. Qed.
Print Assumptions C11_apgm_history.

(** ADMM, any number of blocks, any relaxation alpha, abstract x-update solver: the generated in-place loop over enumerate(zip(...)) is the block-wise documented update, on every state with one g, C, rho, z, u per block *)
Theorem C11_admm_step : forall (K : Type) (NK : Num K) (SK : Sqrt K) (X : Type) (VX : VecOps K X) (Z : Type) (VZ : VecOps K Z) (s : C11_Admm.st K X Z),
  Spec_ADMM.WF s -> C11_Admm.step_gen s = Spec_ADMM.step_spec s.
Proof. intros. apply Spec_ADMM.step_follows_doc; assumption. Qed.
Print Assumptions C11_admm_step.

(** ADMM: any number of iterations (the invariant is preserved) *)
Theorem C11_admm_history : forall (K : Type) (NK : Num K) (SK : Sqrt K) (X : Type) (VX : VecOps K X) (Z : Type) (VZ : VecOps K Z) (n : nat) (s : C11_Admm.st K X Z),
  Spec_ADMM.WF s -> iter C11_Admm.step_gen n s = iter Spec_ADMM.step_spec n s.
Proof. intros. apply Spec_ADMM.history_follows_doc; assumption. Qed.
Print Assumptions C11_admm_history.

(** ADMM: the constructor's length checks make the initial state well formed *)
Theorem C11_admm_init_wf : forall (K : Type) (NK : Num K) (SK : Sqrt K) (X : Type) (VX : VecOps K X) (Z : Type) (VZ : VecOps K Z) (s : C11_Admm.st K X Z) (x0 : option X),
  length (C11_Admm.ad_g_list s) = length (C11_Admm.ad_C_list s) -> length (C11_Admm.ad_rho_list s) = length (C11_Admm.ad_C_list s) -> Spec_ADMM.WF (Spec_ADMM.init_spec s x0).
Proof. intros. apply Spec_ADMM.init_establishes_WF; assumption. Qed.
Print Assumptions C11_admm_init_wf.

(** LinearizedADMM.__init__: z = z_old = C x0, u = 0 (x0 defaults to zeros) *)
Theorem C11_ladmm_init : forall (K : Type) (NK : Num K) (SK : Sqrt K) (X : Type) (VX : VecOps K X) (Z : Type) (VZ : VecOps K Z) (s : C11_Ladmm.st K X Z) f g C mu nu x0,
  C11_Ladmm.init_gen__x0 s f g C mu nu x0 = Spec_LADMM.init_spec f g C mu nu (Some x0) /\ C11_Ladmm.init_gen__none s f g C mu nu = Spec_LADMM.init_spec f g C mu nu None.
Proof. intros. apply Spec_LADMM.init_follows_doc; assumption. Qed.
Print Assumptions C11_ladmm_init.

(** ADMM.__init__: z_i = C_i x0 (z_list_old a copy), u_i = 0 *)
Theorem C11_admm_init : forall (K : Type) (NK : Num K) (SK : Sqrt K) (X : Type) (VX : VecOps K X) (Z : Type) (VZ : VecOps K Z) (s : C11_Admm.st K X Z) Cl x0,
  C11_Admm.init_gen__x0 s Cl x0 = Spec_ADMM.init_spec s (Some x0) /\ C11_Admm.init_gen__none s Cl = Spec_ADMM.init_spec s None.
Proof. intros. apply Spec_ADMM.init_follows_doc; assumption. Qed.
Print Assumptions C11_admm_init.

(** ProximalADMM.__init__: B defaults to -I, c to 0 *)
Theorem C11_padmm_init_defaults : forall (K : Type) (NK : Num K) (SK : Sqrt K) (X : Type) (VX : VecOps K X) (Z : Type) (VZ : VecOps K Z) (s : C11_Padmm.st K X Z) A B c,
  C11_Padmm.init_ABc_gen__none s A = Spec_PADMM.init_ABc_spec s A None None /\ C11_Padmm.init_ABc_gen__B s A B = Spec_PADMM.init_ABc_spec s A (Some B) None /\ C11_Padmm.init_ABc_gen__c s A c = Spec_PADMM.init_ABc_spec s A None (Some c) /\ C11_Padmm.init_ABc_gen__B_c s A B c = Spec_PADMM.init_ABc_spec s A (Some B) (Some c).
Proof. intros. apply Spec_PADMM.init_ABc_follows_doc; assumption. Qed.
Print Assumptions C11_padmm_init_defaults.

(** ProximalADMMBase.__init__: x, z, u default to zeros, z_old / u_old are copies (all eight patterns of supplied / defaulted x0, z0, u0; a..h are the shape / dtype arguments) *)
Theorem C11_padmm_init_state : forall (K : Type) (NK : Num K) (SK : Sqrt K) (X : Type) (VX : VecOps K X) (Z : Type) (VZ : VecOps K Z) (s : C11_Padmm.st K X Z) f g rho mu nu x0 z0 u0 fdr (a b c d e h : unit),
  C11_Padmm.init_base_gen__none s f g rho mu nu a b c d e h fdr = Spec_PADMM.init_base_spec s f g rho mu nu None None None fdr /\
  C11_Padmm.init_base_gen__x0 s f g rho mu nu a b c d e h x0 fdr = Spec_PADMM.init_base_spec s f g rho mu nu (Some x0) None None fdr /\
  C11_Padmm.init_base_gen__z0 s f g rho mu nu a b c d e h z0 fdr = Spec_PADMM.init_base_spec s f g rho mu nu None (Some z0) None fdr /\
  C11_Padmm.init_base_gen__u0 s f g rho mu nu a b c d e h u0 fdr = Spec_PADMM.init_base_spec s f g rho mu nu None None (Some u0) fdr /\
  C11_Padmm.init_base_gen__x0_z0 s f g rho mu nu a b c d e h x0 z0 fdr = Spec_PADMM.init_base_spec s f g rho mu nu (Some x0) (Some z0) None fdr /\
  C11_Padmm.init_base_gen__x0_u0 s f g rho mu nu a b c d e h x0 u0 fdr = Spec_PADMM.init_base_spec s f g rho mu nu (Some x0) None (Some u0) fdr /\
  C11_Padmm.init_base_gen__z0_u0 s f g rho mu nu a b c d e h z0 u0 fdr = Spec_PADMM.init_base_spec s f g rho mu nu None (Some z0) (Some u0) fdr /\
  C11_Padmm.init_base_gen__x0_z0_u0 s f g rho mu nu a b c d e h x0 z0 u0 fdr = Spec_PADMM.init_base_spec s f g rho mu nu (Some x0) (Some z0) (Some u0) fdr.
Proof. intros. apply Spec_PADMM.init_base_follows_doc; assumption. Qed.
Print Assumptions C11_padmm_init_state.

(** PDHG.__init__: x_old = x = x0, z_old = z = z0 (zeros by default) *)
Theorem C11_pdhg_init : forall (K : Type) (NK : Num K) (SK : Sqrt K) (X : Type) (VX : VecOps K X) (Z : Type) (VZ : VecOps K Z) (s : C11_Pdhg.st K X Z) f g C tau sigma alpha x0 z0,
  C11_Pdhg.init_gen__none s f g C tau sigma alpha = Spec_PDHG.init_spec f g C tau sigma alpha None None /\ C11_Pdhg.init_gen__x0 s f g C tau sigma alpha x0 = Spec_PDHG.init_spec f g C tau sigma alpha (Some x0) None /\ C11_Pdhg.init_gen__z0 s f g C tau sigma alpha z0 = Spec_PDHG.init_spec f g C tau sigma alpha None (Some z0) /\ C11_Pdhg.init_gen__x0_z0 s f g C tau sigma alpha x0 z0 = Spec_PDHG.init_spec f g C tau sigma alpha (Some x0) (Some z0).
Proof. intros. apply Spec_PDHG.init_follows_doc; assumption. Qed.
Print Assumptions C11_pdhg_init.

(** AcceleratedPGM.__init__: v = x0, t = 1 *)
Theorem C11_apgm_init : forall (K : Type) (NK : Num K) (SK : Sqrt K) (X : Type) (VX : VecOps K X) (s : C11_Apgm.st K X) x0,
  C11_Apgm.ap_v (C11_Apgm.init_vt_gen s x0) = x0 /\ C11_Apgm.ap_t (C11_Apgm.init_vt_gen s x0) = k1 /\ C11_Apgm.ap_x (C11_Apgm.init_vt_gen s x0) = C11_Apgm.ap_x s.
Proof. intros. apply Spec_PGM.apgm_init_follows_doc; assumption. Qed.
Print Assumptions C11_apgm_init.

(** Functional.conj_prox is the documented extended Moreau formula v - lam prox_{g/lam}(v/lam) *)
Theorem C11_conj_prox : forall (K : Type) (NK : Num K) (SK : Sqrt K) (X : Type) (VX : VecOps K X) (g : Func K X) v lam,
  C11_Functional.conj_prox_gen g v lam = Spec_PDHG.conj_prox_doc g v lam.
Proof. intros. apply Spec_PDHG.conj_prox_follows_doc; assumption. Qed.
Print Assumptions C11_conj_prox.

(** objective(): f(x) + g(z) at the current iterate; objective(x, z): at the arguments; one argument alone raises *)
Theorem C11_ladmm_objective : forall (K : Type) (NK : Num K) (SK : Sqrt K) (X : Type) (VX : VecOps K X) (Z : Type) (VZ : VecOps K Z) (s : C11_Ladmm.st K X Z),
  C11_Ladmm.objective_gen__none s = Spec_LADMM.objective_doc s (C11_Ladmm.la_x s) (C11_Ladmm.la_z s) /\ (forall x z, C11_Ladmm.objective_gen__x_z s x z = Spec_LADMM.objective_doc s x z) /\ C11_Ladmm.objective_gen__x__raises = tt /\ C11_Ladmm.objective_gen__z__raises = tt.
Proof. intros. apply Spec_LADMM.objective_follows_doc; assumption. Qed.
Print Assumptions C11_ladmm_objective.

(** objective(): f(x) + g(z) at the current iterate; objective(x, z): at the arguments; one argument alone raises *)
Theorem C11_padmm_objective : forall (K : Type) (NK : Num K) (SK : Sqrt K) (X : Type) (VX : VecOps K X) (Z : Type) (VZ : VecOps K Z) (s : C11_Padmm.st K X Z),
  C11_Padmm.objective_gen__none s = Spec_PADMM.objective_doc s (C11_Padmm.pa_x s) (C11_Padmm.pa_z s) /\ (forall x z, C11_Padmm.objective_gen__x_z s x z = Spec_PADMM.objective_doc s x z) /\ C11_Padmm.objective_gen__x__raises = tt /\ C11_Padmm.objective_gen__z__raises = tt.
Proof. intros. apply Spec_PADMM.objective_follows_doc; assumption. Qed.
Print Assumptions C11_padmm_objective.

(** objective(): f(x) + g(z) at the current iterate; objective(x, z): at the arguments; one argument alone raises *)
Theorem C11_nlpadmm_objective : forall (K : Type) (NK : Num K) (SK : Sqrt K) (X : Type) (VX : VecOps K X) (Z : Type) (VZ : VecOps K Z) (U : Type) (VU : VecOps K U) (jvpZ : JvpOracle Z U) (cvjpX : CvjpOracle X U) (s : C11_Nlpadmm.st K X Z U),
  C11_Nlpadmm.objective_gen__none s = Spec_NLPADMM.objective_doc s (C11_Nlpadmm.nl_x s) (C11_Nlpadmm.nl_z s) /\ (forall x z, C11_Nlpadmm.objective_gen__x_z s x z = Spec_NLPADMM.objective_doc s x z) /\ C11_Nlpadmm.objective_gen__x__raises = tt /\ C11_Nlpadmm.objective_gen__z__raises = tt.
Proof. intros. apply Spec_NLPADMM.objective_follows_doc; assumption. Qed.
Print Assumptions C11_nlpadmm_objective.

(** norm_primal_residual as a function of its arguments *)
Theorem C11_padmm_primal_residual : forall (K : Type) (NK : Num K) (SK : Sqrt K) (X : Type) (VX : VecOps K X) (Z : Type) (VZ : VecOps K Z) (s : C11_Padmm.st K X Z),
  C11_Padmm.norm_primal_residual_gen__none s = Spec_PADMM.primal_residual_doc s (C11_Padmm.pa_x s) (C11_Padmm.pa_z s) /\ (forall x z, C11_Padmm.norm_primal_residual_gen__x_z s x z = Spec_PADMM.primal_residual_doc s x z) /\ C11_Padmm.norm_primal_residual_gen__x__raises = tt /\ C11_Padmm.norm_primal_residual_gen__z__raises = tt.
Proof. intros. apply Spec_PADMM.primal_residual_follows_doc; assumption. Qed.
Print Assumptions C11_padmm_primal_residual.

(** norm_dual_residual, fast_dual_residual on and off *)
Theorem C11_padmm_dual_residual : forall (K : Type) (NK : Num K) (SK : Sqrt K) (X : Type) (VX : VecOps K X) (Z : Type) (VZ : VecOps K Z) (s : C11_Padmm.st K X Z),
  C11_Padmm.norm_dual_residual_gen s = Spec_PADMM.dual_residual_doc s.
Proof. intros. apply Spec_PADMM.dual_residual_follows_doc; assumption. Qed.
Print Assumptions C11_padmm_dual_residual.

(** norm_primal_residual as a function of its arguments *)
Theorem C11_nlpadmm_primal_residual : forall (K : Type) (NK : Num K) (SK : Sqrt K) (X : Type) (VX : VecOps K X) (Z : Type) (VZ : VecOps K Z) (U : Type) (VU : VecOps K U) (jvpZ : JvpOracle Z U) (cvjpX : CvjpOracle X U) (s : C11_Nlpadmm.st K X Z U),
  C11_Nlpadmm.norm_primal_residual_gen__none s = Spec_NLPADMM.primal_residual_doc s (C11_Nlpadmm.nl_x s) (C11_Nlpadmm.nl_z s) /\ (forall x z, C11_Nlpadmm.norm_primal_residual_gen__x_z s x z = Spec_NLPADMM.primal_residual_doc s x z) /\ C11_Nlpadmm.norm_primal_residual_gen__x__raises = tt /\ C11_Nlpadmm.norm_primal_residual_gen__z__raises = tt.
Proof. intros. apply Spec_NLPADMM.primal_residual_follows_doc; assumption. Qed.
Print Assumptions C11_nlpadmm_primal_residual.

(** norm_dual_residual, fast_dual_residual on and off *)
Theorem C11_nlpadmm_dual_residual : forall (K : Type) (NK : Num K) (SK : Sqrt K) (X : Type) (VX : VecOps K X) (Z : Type) (VZ : VecOps K Z) (U : Type) (VU : VecOps K U) (jvpZ : JvpOracle Z U) (cvjpX : CvjpOracle X U) (s : C11_Nlpadmm.st K X Z U),
  C11_Nlpadmm.norm_dual_residual_gen s = Spec_NLPADMM.dual_residual_doc s.
Proof. intros. apply Spec_NLPADMM.dual_residual_follows_doc; assumption. Qed.
Print Assumptions C11_nlpadmm_dual_residual.

(** LinearizedADMM / ADMM norm_primal_residual: without argument the documented expression at
    the current iterate; with an argument the documented expression AT THAT ARGUMENT, for every
    state and every x (ADMM: sqrt(sum_i rho_i ||C_i x - z_i||^2)).  /repo 51ad458 repaired the
    code, which evaluated the residual at self.x whatever was passed. *)

(** || C x - z || at the iterate / at the argument *)
Theorem C11_ladmm_primal_residual : forall (K : Type) (NK : Num K) (SK : Sqrt K) (X : Type) (VX : VecOps K X) (Z : Type) (VZ : VecOps K Z) (s : C11_Ladmm.st K X Z),
  C11_Ladmm.norm_primal_residual_gen__none s = Spec_LADMM.primal_residual_doc s (C11_Ladmm.la_x s) /\
  (forall x : X, C11_Ladmm.norm_primal_residual_gen__x s x = Spec_LADMM.primal_residual_doc s x).
Proof. intros. apply Spec_LADMM.primal_residual_follows_doc; assumption. Qed.
Print Assumptions C11_ladmm_primal_residual.

(** sqrt(sum_i rho_i || C_i x - z_i ||^2) at the iterate / at the argument *)
Theorem C11_admm_primal_residual : forall (K : Type) (NK : Num K) (SK : Sqrt K) (X : Type) (VX : VecOps K X) (Z : Type) (VZ : VecOps K Z) (s : C11_Admm.st K X Z),
  C11_Admm.norm_primal_residual_gen__none s = Spec_ADMM.primal_residual_doc s (C11_Admm.ad_x s) /\
  (forall x : X, C11_Admm.norm_primal_residual_gen__x s x = Spec_ADMM.primal_residual_doc s x).
Proof. intros. apply Spec_ADMM.primal_residual_follows_doc; assumption. Qed.
Print Assumptions C11_admm_primal_residual.

(** LinearizedADMM norm_dual_residual.  FULL STATEMENT (refuted, Findings/C11_ladmm_dual_residual.v):
      forall s, norm_dual_residual_gen s = || z - z_old ||   (the documented expression).
    The code returns || C^H (z - z_old) ||. *)
(** documented value where C^H preserves the norm of z - z_old *)
Theorem C11_ladmm_dual_residual_restricted : forall (K : Type) (NK : Num K) (SK : Sqrt K) (X : Type) (VX : VecOps K X) (Z : Type) (VZ : VecOps K Z) (s : C11_Ladmm.st K X Z),
  vnorm_ (adj (C11_Ladmm.la_C s) (C11_Ladmm.la_z s -v C11_Ladmm.la_z_old s)) = vnorm_ (C11_Ladmm.la_z s -v C11_Ladmm.la_z_old s) -> C11_Ladmm.norm_dual_residual_gen s = Spec_LADMM.dual_residual_doc s.
Proof. intros. apply Spec_LADMM.dual_residual_restricted; assumption. Qed.
Print Assumptions C11_ladmm_dual_residual_restricted.

(** ADMM objective: f(x) + sum_i g_i(z_i) *)
Theorem C11_admm_objective : forall (K : Type) (NK : Num K) (SK : Sqrt K) (X : Type) (VX : VecOps K X) (Z : Type) (VZ : VecOps K Z) (s : C11_Admm.st K X Z),
  C11_Admm.objective_gen__none s = Spec_ADMM.objective_doc s (C11_Admm.ad_x s) (C11_Admm.ad_z_list s) /\ (forall x zl, C11_Admm.objective_gen__x_z_list s x zl = Spec_ADMM.objective_doc s x zl) /\ C11_Admm.objective_gen__x__raises = tt /\ C11_Admm.objective_gen__z_list__raises = tt.
Proof. intros. apply Spec_ADMM.objective_follows_doc; assumption. Qed.
Print Assumptions C11_admm_objective.

(** ADMM dual residual || sum_i rho_i C_i^H (z_i - z_i_old) || *)
Theorem C11_admm_dual_residual : forall (K : Type) (NK : Num K) (SK : Sqrt K) (X : Type) (VX : VecOps K X) (Z : Type) (VZ : VecOps K Z) (s : C11_Admm.st K X Z),
  C11_Admm.norm_dual_residual_gen s = Spec_ADMM.dual_residual_doc s.
Proof. intros. apply Spec_ADMM.dual_residual_follows_doc; assumption. Qed.
Print Assumptions C11_admm_dual_residual.

(** PDHG objective f(x) + g(C x) *)
Theorem C11_pdhg_objective : forall (K : Type) (NK : Num K) (SK : Sqrt K) (X : Type) (VX : VecOps K X) (Z : Type) (VZ : VecOps K Z) (s : C11_Pdhg.st K X Z),
  C11_Pdhg.objective_gen__none s = Spec_PDHG.objective_doc s (C11_Pdhg.pd_x s) /\ (forall x, C11_Pdhg.objective_gen__x s x = Spec_PDHG.objective_doc s x).
Proof. intros. apply Spec_PDHG.objective_follows_doc; assumption. Qed.
Print Assumptions C11_pdhg_objective.

(** PDHG residuals ||x - x_old|| / tau, ||z - z_old|| / sigma *)
Theorem C11_pdhg_residuals : forall (K : Type) (NK : Num K) (SK : Sqrt K) (X : Type) (VX : VecOps K X) (Z : Type) (VZ : VecOps K Z) (s : C11_Pdhg.st K X Z),
  C11_Pdhg.norm_primal_residual_gen s = Spec_PDHG.primal_residual_doc s /\ C11_Pdhg.norm_dual_residual_gen s = Spec_PDHG.dual_residual_doc s.
Proof. intros. apply Spec_PDHG.residuals_follow_doc; assumption. Qed.
Print Assumptions C11_pdhg_residuals.

(** PGM objective, quadratic approximation, residual, minimizer *)
Theorem C11_pgm_accessors : forall (K : Type) (NK : Num K) (SK : Sqrt K) (X : Type) (VX : VecOps K X) (s : C11_Pgm.st K X),
  C11_Pgm.objective_gen__none s = Spec_PGM.pgm_objective_doc s (C11_Pgm.pg_x s) /\ (forall x, C11_Pgm.objective_gen__x s x = Spec_PGM.pgm_objective_doc s x) /\ (forall x y L, C11_Pgm.f_quad_approx_gen s x y L = Spec_PGM.quad_approx_doc s x y L) /\ C11_Pgm.norm_residual_gen s = C11_Pgm.pg_fixed_point_residual s /\ C11_Pgm.minimizer_gen s = C11_Pgm.pg_x s.
Proof. intros. apply Spec_PGM.pgm_accessors_follow_doc; assumption. Qed.
Print Assumptions C11_pgm_accessors.

(** AcceleratedPGM accessors *)
Theorem C11_apgm_accessors : forall (K : Type) (NK : Num K) (SK : Sqrt K) (X : Type) (VX : VecOps K X) (s : C11_Apgm.st K X),
  C11_Apgm.objective_gen__none s = Spec_PGM.apgm_objective_doc s (C11_Apgm.ap_x s) /\ (forall x, C11_Apgm.objective_gen__x s x = Spec_PGM.apgm_objective_doc s x) /\ C11_Apgm.norm_residual_gen s = C11_Apgm.ap_fixed_point_residual s /\ C11_Apgm.minimizer_gen s = C11_Apgm.ap_x s.
Proof. intros. apply Spec_PGM.apgm_accessors_follow_doc; assumption. Qed.
Print Assumptions C11_apgm_accessors.

(** minimizer() returns x *)
Theorem C11_ladmm_minimizer : forall (K : Type) (NK : Num K) (SK : Sqrt K) (X : Type) (VX : VecOps K X) (Z : Type) (VZ : VecOps K Z) (s : C11_Ladmm.st K X Z),
  C11_Ladmm.minimizer_gen s = C11_Ladmm.la_x s.
Proof. intros. apply Spec_LADMM.minimizer_is_x; assumption. Qed.
Print Assumptions C11_ladmm_minimizer.

(** minimizer() returns x *)
Theorem C11_padmm_minimizer : forall (K : Type) (NK : Num K) (SK : Sqrt K) (X : Type) (VX : VecOps K X) (Z : Type) (VZ : VecOps K Z) (s : C11_Padmm.st K X Z),
  C11_Padmm.minimizer_gen s = C11_Padmm.pa_x s.
Proof. intros. apply Spec_PADMM.minimizer_is_x; assumption. Qed.
Print Assumptions C11_padmm_minimizer.

(** minimizer() returns x *)
Theorem C11_nlpadmm_minimizer : forall (K : Type) (NK : Num K) (SK : Sqrt K) (X : Type) (VX : VecOps K X) (Z : Type) (VZ : VecOps K Z) (U : Type) (VU : VecOps K U) (jvpZ : JvpOracle Z U) (cvjpX : CvjpOracle X U) (s : C11_Nlpadmm.st K X Z U),
  C11_Nlpadmm.minimizer_gen s = C11_Nlpadmm.nl_x s.
Proof. intros. apply Spec_NLPADMM.minimizer_is_x; assumption. Qed.
Print Assumptions C11_nlpadmm_minimizer.

(** minimizer() returns x *)
Theorem C11_pdhg_minimizer : forall (K : Type) (NK : Num K) (SK : Sqrt K) (X : Type) (VX : VecOps K X) (Z : Type) (VZ : VecOps K Z) (s : C11_Pdhg.st K X Z),
  C11_Pdhg.minimizer_gen s = C11_Pdhg.pd_x s.
Proof. intros. apply Spec_PDHG.minimizer_is_x; assumption. Qed.
Print Assumptions C11_pdhg_minimizer.

(** minimizer() returns x *)
Theorem C11_admm_minimizer : forall (K : Type) (NK : Num K) (SK : Sqrt K) (X : Type) (VX : VecOps K X) (Z : Type) (VZ : VecOps K Z) (s : C11_Admm.st K X Z),
  C11_Admm.minimizer_gen s = C11_Admm.ad_x s.
Proof. intros. apply Spec_ADMM.minimizer_is_x; assumption. Qed.
Print Assumptions C11_admm_minimizer.

(** Non-vacuity: the executable instance (C11/Exec.v) inhabits every signature above, and the
    ADMM invariant holds of a concrete two-block state. *)
From SV Require C11.Exec.
Example C11_wf_inhabited :
  Spec_ADMM.WF (C11_Admm.mk_st (X:=Exec.vec) (Z:=Exec.vec) (K:=Qcanon.Qc) [] [[]; []] [[]; []] [[]; []] (Exec.mkF Exec.FZero) true
                 [Exec.mkF Exec.FZero; Exec.mkF Exec.FNonNeg] [Exec.op_mat []; Exec.op_mat []]
                 [Exec.q 1 1; Exec.q 1 1] (Exec.q 1 1) (fun _ _ x => x)).
Proof. repeat split. Qed.
