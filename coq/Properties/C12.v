(** C12 -- declared shapes and dtypes match actual behaviour; bad inputs are rejected.
    Only statements; each closed by [exact] of a lemma of coq/theories/C12. *)
From Coq Require Import List Bool ZArith Lia.
From SV Require Import C12.Slice C12.SliceThm C12.Shape C12.Expr C12.ExprSpec C12.ExprThm C12.Replicated C12.FiniteDiff.
Import ListNotations.
Open Scope Z_scope.

(** * Python slices *)

(** The length CPython computes for a range is the number of elements the range enumerates,
    for every start, stop and non-zero step. *)
Theorem C12_range_len_counts_elements : forall a b k : Z, k <> 0 ->
  Z.of_nat (length (py_range a b k)) = range_len a b k.
Proof. exact py_range_length. Qed.
Print Assumptions C12_range_len_counts_elements.

Theorem C12_range_elements : forall (a b k : Z) (i : nat), k <> 0 ->
  (i < length (py_range a b k))%nat -> nth_error (py_range a b k) i = Some (a + Z.of_nat i * k).
Proof. exact py_range_nth. Qed.
Print Assumptions C12_range_elements.

(** For every axis length n and every slice (None / negative / out-of-range start and stop,
    negative steps): the specified sliced length is the number of selected indices ... *)
Theorem C12_slice_len_counts_elements : forall (n : Z) (s : pslice) (len : Z),
  slice_len_spec n s = Some len ->
  exists l, slice_elems n s = Some l /\ Z.of_nat (length l) = len.
Proof. exact slice_len_spec_counts. Qed.
Print Assumptions C12_slice_len_counts_elements.

(** ... every selected index is a valid index, and the length is between 0 and n. *)
Theorem C12_slice_elems_in_bounds : forall (n : Z) (s : pslice) (l : list Z),
  0 <= n -> slice_elems n s = Some l -> Forall (fun i => 0 <= i < n) l.
Proof. exact slice_elems_in_bounds. Qed.
Print Assumptions C12_slice_elems_in_bounds.

Theorem C12_slice_len_bounds : forall (n : Z) (s : pslice) (len : Z),
  0 <= n -> slice_len_spec n s = Some len -> 0 <= len <= n.
Proof. exact slice_len_spec_bounds. Qed.
Print Assumptions C12_slice_len_bounds.

(** scico.numpy.util.slice_length (transcribed from the current tree) returns the number of
    selected indices for every slice, including negative steps. *)
Theorem C12_slice_length_correct : forall (n : Z) (s : pslice),
  slice_length n (ISlice s) = match slice_len_spec n s with Some l => SLLen l | None => SLErr end.
Proof. exact slice_length_counts. Qed.
Print Assumptions C12_slice_length_correct.

(** indexed_shape = shape of NumPy basic indexing, for index tuples of integers and
    positive-step slices no longer than the rank (Ellipsis / newaxis: correspondence only;
    defects recorded as known findings). *)
Theorem C12_indexed_shape_plain : forall (shape : list Z) (idx : list aidx),
  Forall (fun d => 0 <= d) shape -> Forall plain_idx idx ->
  (length idx <= length shape)%nat ->
  indexed_shape shape idx = np_index_shape shape idx.
Proof. exact indexed_shape_plain. Qed.
Print Assumptions C12_indexed_shape_plain.

(** * Shape calculus *)

(** collapse_shapes follows the documented rule on plain shapes ... *)
Theorem C12_collapse_rule : forall (ps : list shape) (allow : bool),
  ps <> [] ->
  let l := map Plain ps in
  (is_collapsible l && allow = true ->
     collapse_shapes l allow = Some (Plain (Z.of_nat (length ps) :: hd [] ps), true)) /\
  (is_collapsible l && allow = false -> collapse_shapes l allow = Some (Block ps, false)).
Proof. exact collapse_shapes_plain. Qed.
Print Assumptions C12_collapse_rule.

Theorem C12_collapse_rejects_nested : forall l allow,
  is_collapsible l && allow = false -> is_blockable l = false -> collapse_shapes l allow = None.
Proof. exact collapse_shapes_nested_rejected. Qed.
Print Assumptions C12_collapse_rejects_nested.

(** ... and the element count of a stacked shape is the sum of the component counts. *)
Theorem C12_collapse_size : forall l allow s b,
  collapse_shapes l allow = Some (s, b) -> size s = sumZ (map size l).
Proof. exact collapse_shapes_size. Qed.
Print Assumptions C12_collapse_size.

Theorem C12_is_collapsible_spec : forall l,
  is_collapsible l = true <-> forall s, In s l -> Some s = hd_error l.
Proof. exact is_collapsible_spec. Qed.
Print Assumptions C12_is_collapsible_spec.

Theorem C12_is_blockable_spec : forall l,
  is_blockable l = true <-> forall s, In s l -> exists p, s = Plain p.
Proof. exact is_blockable_spec. Qed.
Print Assumptions C12_is_blockable_spec.

Theorem C12_broadcast_comm : forall a b, broadcast a b = broadcast b a.
Proof. exact broadcast_comm. Qed.
Print Assumptions C12_broadcast_comm.

Theorem C12_broadcast_absorb : forall a b c,
  bc_rev a b = Some c -> bc_rev c a = Some c /\ bc_rev c b = Some c.
Proof. exact bc_rev_absorb. Qed.
Print Assumptions C12_broadcast_absorb.

Theorem C12_replicate_size : forall k r s, prodZ (insert_at k r s) = r * prodZ s.
Proof. exact size_insert_at. Qed.
Print Assumptions C12_replicate_size.

(** * Operator expressions *)

(** For every well-formed expression tree (leaves, T, H, conj, gram_op, scalar multiples,
    sums/differences, compositions, vertical stacks; induction on the tree): evaluating on
    the declared input yields exactly the declared output shape and dtype, the adjoint maps
    the declared output to the declared input, and any other shape is rejected. *)
Theorem C12_declared_eq_actual : forall (e : ox) (v : opv),
  wfx e -> build e = Some v -> good v.
Proof. exact declared_eq_actual. Qed.
Print Assumptions C12_declared_eq_actual.

Theorem C12_declared_eq_actual_fn : forall (e : ox) (m : meta),
  wfx e -> declared e = Some m -> actual e = Some (Some (osh m, odt m)).
Proof. exact declared_actual_fn. Qed.
Print Assumptions C12_declared_eq_actual_fn.

Theorem C12_declared_eq_actual_adj : forall (e : ox) (v : opv),
  wfx e -> build e = Some v -> is_lin v = true ->
  actual_adj e = Some (Some (ish (o_m v), idt (o_m v))).
Proof. exact declared_actual_adj_fn. Qed.
Print Assumptions C12_declared_eq_actual_adj.

(** ... and the declared metadata are those of the documented operator calculus. *)
Theorem C12_declared_eq_spec : forall (e : ox) (v : opv),
  wfx e -> build e = Some v -> spec e = Some (o_m v).
Proof. exact declared_eq_spec. Qed.
Print Assumptions C12_declared_eq_spec.

Theorem C12_identity_conforms : forall i id v, mk_id i id = Some v ->
  conforms v /\ conforms_adj v /\ rejects v /\ o_m v = mkmeta i i id id.
Proof. exact mk_id_conforms. Qed.
Print Assumptions C12_identity_conforms.

Theorem C12_scaled_identity_conforms : forall s i id v, mk_sid_scalar s i id = Some v ->
  rt_scal id s = id -> conforms v /\ conforms_adj v /\ rejects v /\ o_m v = mkmeta i i id id.
Proof. exact mk_sid_conforms. Qed.
Print Assumptions C12_scaled_identity_conforms.

Theorem C12_diagonal_conforms : forall dsh ddt i id v, mk_diag dsh ddt i id = Some v ->
  join (odflt id ddt) ddt = odflt id ddt -> conforms v /\ conforms_adj v /\ rejects v.
Proof. exact mk_diag_conforms. Qed.
Print Assumptions C12_diagonal_conforms.

Theorem C12_matrix_conforms : forall r c cols adt v, mk_mat r c cols adt = Some v ->
  conforms v /\ conforms_adj v /\ spec (XMat r c cols adt) = Some (o_m v).
Proof. exact mk_mat_conforms. Qed.
Print Assumptions C12_matrix_conforms.

Theorem C12_matrix_shape_counts : forall r c cols adt v, mk_mat r c cols adt = Some v ->
  matrix_shape (osh (o_m v)) (ish (o_m v)) = if cols =? 0 then (r, c) else (r * cols, c * cols).
Proof. exact mat_matrix_shape. Qed.
Print Assumptions C12_matrix_shape_counts.

(** * Replicated stacks (DiagonalReplicated) *)

(** The constructor accepts exactly the axes of range(-(rank+1), rank+1); a negative axis
    denotes position rank+1+a of the replicated shape. *)
Theorem C12_replicated_axis_normalisation : forall (rank : nat) (a : Z) (k : nat),
  norm_axis rank a = Some k <->
  (- (Z.of_nat rank + 1) <= a <= Z.of_nat rank /\
   Z.of_nat k = if a <? 0 then Z.of_nat rank + 1 + a else a).
Proof. exact norm_axis_spec. Qed.
Print Assumptions C12_replicated_axis_normalisation.

(** For every conforming operand, replicate count and pair of axes the constructor accepts
    (negative or not, output axis explicit or defaulted to the input axis): the declared shapes
    carry the replicate count at the normalised positions and equal the shapes of the vmap
    result and of adj on the declared output; other shapes are rejected. *)
Theorem C12_replicated_declared_eq_actual : forall (v w : opv) (n ia : Z) (oa : option Z) (si so : shape) (ki ko : nat),
  ish (o_m v) = Plain si -> osh (o_m v) = Plain so ->
  conforms v -> conforms_adj v ->
  drep_axes (length si) (length so) ia oa = Some (ki, ko) ->
  op_drep_z v n ia oa = Some w ->
  o_m w = mkmeta (Plain (insert_at ki n si)) (Plain (insert_at ko n so)) (idt (o_m v)) (odt (o_m v)) /\
  conforms w /\ conforms_adj w /\ rejects w.
Proof. exact drep_declared_eq_actual. Qed.
Print Assumptions C12_replicated_declared_eq_actual.

(** Accepted axes are in range of the operand's input / output rank ... *)
Theorem C12_replicated_axes_in_range : forall ri ro ia oa ki ko,
  drep_axes ri ro ia oa = Some (ki, ko) -> (ki <= ri)%nat /\ (ko <= ro)%nat.
Proof. exact drep_axes_in_range. Qed.
Print Assumptions C12_replicated_axes_in_range.

(** ... in particular a defaulted output axis (= input position) that does not exist in the
    operand's output is rejected at construction (the former finding, repaired by 760899e). *)
Theorem C12_replicated_default_axis_rejected : forall (v : opv) (n ia : Z) (si so : shape) (ki : nat),
  ish (o_m v) = Plain si -> osh (o_m v) = Plain so ->
  norm_axis (length si) ia = Some ki -> (length so < ki)%nat ->
  op_drep_z v n ia None = None.
Proof. exact drep_default_axis_rejected. Qed.
Print Assumptions C12_replicated_default_axis_rejected.

Theorem C12_replicated_declared_eq_spec : forall (e : ox) (v w : opv) (n ia : Z) (oa : option Z) (si so : shape) (ki ko : nat),
  build e = Some v -> spec e = Some (o_m v) ->
  ish (o_m v) = Plain si -> osh (o_m v) = Plain so ->
  drep_axes (length si) (length so) ia oa = Some (ki, ko) ->
  build (XDRep e n ia oa) = Some w ->
  spec (XDRep e n ia oa) = Some (o_m w).
Proof. exact drep_declared_eq_spec. Qed.
Print Assumptions C12_replicated_declared_eq_spec.

(** non-vacuity: a (3,4)->(3,) operand replicated 5 times at input axis -2 (middle), output axis -1 (last) *)
Example C12_example_replicated :
  option_map (fun v => (o_m v, o_call v (ish (o_m v), idt (o_m v)), o_adj v (osh (o_m v), odt (o_m v))))
    (build (XDRep (XLeaf true (Plain [3; 4]) (Plain [3]) false F32 None (FPromote F32) AAuto) 5 (-2) (Some (-1))))
  = Some (mkmeta (Plain [3; 5; 4]) (Plain [3; 5]) F32 F32, Some (Plain [3; 5], F32), Some (Plain [3; 5; 4], F32)).
Proof. vm_compute. reflexivity. Qed.

(** * Finite differences and DFT *)

(** On the difference axis, for every length >= 1 and every admissible (prepend, append,
    circular) -- None, 0 (falsy!) or 1 -- the declared length n + [prepend is not None] +
    [append is not None] - 1 (n when circular) is the length snp.diff produces in _eval. *)
Theorem C12_fd_len_declared_eq_actual : forall n p a circ,
  1 <= n -> fd_args_ok p a circ = true -> fd_decl_len n p a circ = fd_eval_len n p a circ.
Proof. exact fd_len_declared_eq_actual. Qed.
Print Assumptions C12_fd_len_declared_eq_actual.

(** SingleAxisFiniteDifference: for every shape with positive dimensions, EVERY axis and every
    boundary setting, declared output shape = documented rule = shape of the evaluation; axes
    outside [-rank, rank) and inadmissible settings are rejected by all three. *)
Theorem C12_fd_declared_eq_spec : forall s ax p a circ,
  Forall (fun d => 1 <= d) s ->
  safd_declared s ax p a circ = safd_spec s ax p a circ /\
  safd_declared s ax p a circ = safd_actual s ax p a circ.
Proof. exact safd_declared_eq_spec_eq_actual. Qed.
Print Assumptions C12_fd_declared_eq_spec.

(** An axis outside [-rank, rank) is rejected at construction (the former finding
    fd-negative-axis-range, repaired by fdc6426). *)
Theorem C12_fd_axis_out_of_range_rejected : forall s ax p a circ,
  ax < - Z.of_nat (length s) \/ Z.of_nat (length s) <= ax -> safd_declared s ax p a circ = None.
Proof. exact safd_axis_out_of_range_rejected. Qed.
Print Assumptions C12_fd_axis_out_of_range_rejected.

(** FiniteDifference (vertical stack over the axes): declared element count = sum over the axes *)
Theorem C12_fd_stack_size : forall s axes p a circ outs o,
  mapo (fun ax => safd_declared s ax p a circ) axes = Some outs ->
  fd_stack_declared s axes p a circ = Some o ->
  size o = sumZ (map prodZ outs).
Proof. exact fd_stack_size. Qed.
Print Assumptions C12_fd_stack_size.

(** DFT: the declared output shape has the rank of the input *)
Theorem C12_dft_shape : forall s axes ash o,
  dft_declared s axes ash = Some o -> length o = length s.
Proof. exact dft_declared_rank. Qed.
Print Assumptions C12_dft_shape.

Example C12_example_fd :
  safd_declared [6] 0 (Some 0) None false = Some [6] /\ safd_actual [6] 0 (Some 0) None false = Some [6]
  /\ fd_declared [3; 4] None None (Some 0) false = Some (Plain [2; 3; 4])
  /\ fd_declared [3; 4] None None None false = Some (Block [[2; 4]; [3; 3]])
  /\ dft_declared [3; 4] None (Some [8]) = Some [3; 8] /\ dft_inv_shape [3; 4] [3; 8] None (Some [8]) = Some [3; 4]
  /\ safd_declared [3; 4] (-3) None None false = None /\ fd_declared [3; 4] (Some [-3]) None None false = None.
Proof. vm_compute. repeat split; reflexivity. Qed.

Example C12_example_replicated_rejected :
  build (XDRep (XLeaf true (Plain [3; 4]) (Plain [3]) false F32 None (FPromote F32) AAuto) 5 (-1) None) = None
  /\ spec (XDRep (XLeaf true (Plain [3; 4]) (Plain [3]) false F32 None (FPromote F32) AAuto) 5 (-1) None) = None.
Proof. vm_compute. split; reflexivity. Qed.

(** non-vacuity: a well-formed tree with every generic form; hypotheses are satisfiable *)
Definition ex_leaf := XLeaf true (Plain [3; 4]) (Plain [3; 4]) false C64 None (FPromote F32) AAuto.
Example C12_example_wf :
  wfx (XVStack (XAdd (XGram ex_leaf) (XScal SWeakC (XConj ex_leaf))) (XComp (XH ex_leaf) (XT (XH ex_leaf))) true).
Proof.
  cbn [wfx ex_leaf]. repeat split; intros;
    repeat match goal with H : build _ = Some _ |- _ => vm_compute in H; inversion H; clear H; subst end;
    vm_compute; repeat split; intros; try discriminate; auto.
Qed.
Example C12_example_observed :
  option_map (fun v => (o_m v, o_call v (ish (o_m v), idt (o_m v))))
    (build (XVStack (XAdd (XGram ex_leaf) (XScal SWeakC (XConj ex_leaf))) (XComp (XH ex_leaf) (XT (XH ex_leaf))) true))
  = Some (mkmeta (Plain [3; 4]) (Plain [2; 3; 4]) C64 C64, Some (Plain [2; 3; 4], C64)).
Proof. vm_compute. reflexivity. Qed.
Example C12_example_slice : slice_elems 7 (mkslice (Some (-2)) None (Some (-3))) = Some [5; 2]
  /\ slice_len_spec 7 (mkslice (Some (-2)) None (Some (-3))) = Some 2.
Proof. vm_compute. split; reflexivity. Qed.

(** ** Tie to the source.  The left-hand sides (module SVGen.C12_Stack) are is_collapsible and
    is_blockable of scico/operator/_stack.py as regenerated by tools/py2coq.py on every run;
    the right-hand sides are the models of C12/Shape.v used by the theorems above. *)
From SV Require Import C12.GenSig C12.Gen.
From SVGen Require C12_Stack.

Theorem C12_gen_is_collapsible : forall l : list nshape, C12_Stack.is_collapsible_gen l = is_collapsible l.
Proof. exact is_collapsible_gen_is_model. Qed.
Print Assumptions C12_gen_is_collapsible.

Theorem C12_gen_is_blockable : forall l : list nshape, C12_Stack.is_blockable_gen l = is_blockable l.
Proof. exact is_blockable_gen_is_model. Qed.
Print Assumptions C12_gen_is_blockable.
