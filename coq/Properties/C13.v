(** C13 -- block arrays and the wrapped numpy namespace act block-wise.
    Only statements; each closed by [exact] of a lemma of coq/theories/C13/{Wrap,Block}.v.
    (Statements generated from the lemmas by Check; F / mkB / jnp_array / ravelA / concatA are
    universally quantified: the theorems hold for every wrapped library function.) *)
From Coq Require Import List Bool Arith ZArith.
From SV Require Import C13.Wrap C13.Block C13.Exec.

(** map_func_over_blocks, general form: when every block argument (positional or keyword) has n > 0 blocks, the library function F is applied n times, call i receiving block i of every block argument and every other argument unchanged, in the original positions / under the original keywords; the results are handed to the BlockArray constructor in block order. *)
Theorem C13_map_blocks_spec :
  forall (A R : Type) (F : list (arg A) -> list (key * arg A) -> R)
         (mkB : list R -> res (list R)) (n : nat) 
         (args : list (arg A)) (kw : list (key * arg A)),
       wf A n (args ++ map snd kw) ->
       (0 < n)%nat ->
       has_blk A (args ++ map snd kw) = true ->
       map_func_over_blocks A R F mkB args kw =
       as_block
         (mkB
            (map
               (fun i : nat => F (map (pick A i) args) (fmap (pick A i) kw))
               (seq 0 n))).
Proof. exact (@map_blocks_spec). Qed.
Print Assumptions C13_map_blocks_spec.

(** no block argument: the wrapper is transparent (one call of F with the original arguments). *)
Theorem C13_map_blocks_noblock :
  forall (A R : Type) (F : list (arg A) -> list (key * arg A) -> R)
         (mkB : list R -> res (list R)) (args : list (arg A))
         (kw : list (key * arg A)),
       has_blk A (args ++ map snd kw) = false ->
       map_func_over_blocks A R F mkB args kw = Ok (RPlain (F args kw)).
Proof. exact (@map_blocks_noblock). Qed.
Print Assumptions C13_map_blocks_noblock.

(** one positional block argument: lifted = map of the per-block call. *)
Theorem C13_map_blocks_unary :
  forall (A R : Type) (F : list (arg A) -> list (key * arg A) -> R)
         (mkB : list R -> res (list R)) (bs : list A),
       bs <> nil ->
       map_func_over_blocks A R F mkB (Blk bs :: nil) nil =
       as_block (mkB (map (fun b : A => F (Pln b :: nil) nil) bs)).
Proof. exact (@map_blocks_unary). Qed.
Print Assumptions C13_map_blocks_unary.

(** the same with the block passed by keyword. *)
Theorem C13_map_blocks_unary_kw :
  forall (A R : Type) (F : list (arg A) -> list (key * arg A) -> R)
         (mkB : list R -> res (list R)) (k : key) 
         (bs : list A),
       bs <> nil ->
       map_func_over_blocks A R F mkB nil ((k, Blk bs) :: nil) =
       as_block (mkB (map (fun b : A => F nil ((k, Pln b) :: nil)) bs)).
Proof. exact (@map_blocks_unary_kw). Qed.
Print Assumptions C13_map_blocks_unary_kw.

(** two block arguments: map2 over corresponding blocks. *)
Theorem C13_map_blocks_zip :
  forall (A R : Type) (F : list (arg A) -> list (key * arg A) -> R)
         (mkB : list R -> res (list R)) (xs ys : list A),
       xs <> nil ->
       length xs = length ys ->
       map_func_over_blocks A R F mkB (Blk xs :: Blk ys :: nil) nil =
       as_block
         (mkB
            (map
               (fun xy : A * A => F (Pln (fst xy) :: Pln (snd xy) :: nil) nil)
               (combine xs ys))).
Proof. exact (@map_blocks_zip). Qed.
Print Assumptions C13_map_blocks_zip.

(** block and plain array/scalar: the plain operand is passed to every per-block call. *)
Theorem C13_map_blocks_broadcast_r :
  forall (A R : Type) (F : list (arg A) -> list (key * arg A) -> R)
         (mkB : list R -> res (list R)) (xs : list A) 
         (c : A),
       xs <> nil ->
       map_func_over_blocks A R F mkB (Blk xs :: Pln c :: nil) nil =
       as_block (mkB (map (fun x : A => F (Pln x :: Pln c :: nil) nil) xs)).
Proof. exact (@map_blocks_broadcast_r). Qed.
Print Assumptions C13_map_blocks_broadcast_r.

(** plain operand on the left. *)
Theorem C13_map_blocks_broadcast_l :
  forall (A R : Type) (F : list (arg A) -> list (key * arg A) -> R)
         (mkB : list R -> res (list R)) (xs : list A) 
         (c : A),
       xs <> nil ->
       map_func_over_blocks A R F mkB (Pln c :: Blk xs :: nil) nil =
       as_block (mkB (map (fun x : A => F (Pln c :: Pln x :: nil) nil) xs)).
Proof. exact (@map_blocks_broadcast_l). Qed.
Print Assumptions C13_map_blocks_broadcast_l.

(** for a library function that sees its arguments through its signature (F = G o bind), two calls that bind to the same arguments -- whichever of them are passed positionally or by keyword, block or not -- give the same result. *)
Theorem C13_map_blocks_pos_kw_indep :
  forall (A R : Type) (F : list (arg A) -> list (key * arg A) -> R)
         (mkB : list R -> res (list R)) (sg : sig)
         (G : option (list (key * arg A)) -> R),
       (forall (a : list (arg A)) (k : list (key * arg A)),
        F a k = G (bind sg a k)) ->
       forall (n : nat) (args : list (arg A)) (kw : list (key * arg A))
         (args' : list (arg A)) (kw' : list (key * arg A)),
       wf A n (args ++ map snd kw) ->
       wf A n (args' ++ map snd kw') ->
       NoDup (map fst kw) ->
       NoDup (map fst kw') ->
       bind sg args kw = bind sg args' kw' ->
       bind sg args kw <> None ->
       map_func_over_blocks A R F mkB args kw =
       map_func_over_blocks A R F mkB args' kw'.
Proof. exact (@map_blocks_pos_kw_indep). Qed.
Print Assumptions C13_map_blocks_pos_kw_indep.

(** add_full_reduction, no axis argument, one block argument (bound to parameter k): F is called once with that argument replaced by concatenate(map ravel blocks); all other arguments as bound. *)
Theorem C13_full_reduction_no_axis :
  forall (A R : Type) (F : list (arg A) -> list (key * arg A) -> R)
         (mkB : list R -> res (list R)) (sg : sig) 
         (ravelA : A -> A) (concatA : list A -> A) 
         (axis : key) (args : list (arg A)) (kw B : list (key * arg A))
         (k : key) (bs : list A) (pa : list (arg A))
         (pk : list (key * arg A)),
       bind sg args kw = Some B ->
       filter (blk_entry A) B = (k, Blk bs) :: nil ->
       split_args (s_pos sg)
         (filter (fun kv : key * arg A => negb (blk_entry A kv)) B) =
       (pa, pk) ->
       memk axis
         (map fst (filter (fun kv : key * arg A => negb (blk_entry A kv)) B)) =
       false ->
       full_reduction A R F mkB sg ravelA concatA axis args kw =
       Ok (RPlain (F pa (pk ++ (k, Pln (concatA (map ravelA bs))) :: nil))).
Proof. exact (@full_reduction_no_axis). Qed.
Print Assumptions C13_full_reduction_no_axis.

(** an axis argument is present: F per block (through map_func_over_blocks), other arguments unchanged. *)
Theorem C13_full_reduction_axis :
  forall (A R : Type) (F : list (arg A) -> list (key * arg A) -> R)
         (mkB : list R -> res (list R)) (sg : sig) 
         (ravelA : A -> A) (concatA : list A -> A) 
         (axis : key) (args : list (arg A)) (kw B : list (key * arg A))
         (k : key) (bs : list A) (pa : list (arg A))
         (pk : list (key * arg A)),
       bind sg args kw = Some B ->
       filter (blk_entry A) B = (k, Blk bs) :: nil ->
       bs <> nil ->
       split_args (s_pos sg)
         (filter (fun kv : key * arg A => negb (blk_entry A kv)) B) =
       (pa, pk) ->
       memk axis
         (map fst (filter (fun kv : key * arg A => negb (blk_entry A kv)) B)) =
       true ->
       full_reduction A R F mkB sg ravelA concatA axis args kw =
       as_block (mkB (map (fun b : A => F pa (pk ++ (k, Pln b) :: nil)) bs)).
Proof. exact (@full_reduction_axis). Qed.
Print Assumptions C13_full_reduction_axis.

(** no axis and more than one block argument: ValueError. *)
Theorem C13_full_reduction_two_blocks :
  forall (A R : Type) (F : list (arg A) -> list (key * arg A) -> R)
         (mkB : list R -> res (list R)) (sg : sig) 
         (ravelA : A -> A) (concatA : list A -> A) 
         (axis : key) (args : list (arg A)) (kw B : list (key * arg A)),
       bind sg args kw = Some B ->
       (1 < length (filter (blk_entry A) B))%nat ->
       memk axis
         (map fst (filter (fun kv : key * arg A => negb (blk_entry A kv)) B)) =
       false ->
       full_reduction A R F mkB sg ravelA concatA axis args kw =
       Raise ValueError.
Proof. exact (@full_reduction_two_blocks). Qed.
Print Assumptions C13_full_reduction_two_blocks.

(** the reduction wrapper depends on the call only through the bound arguments. *)
Theorem C13_full_reduction_pos_kw_indep :
  forall (A R : Type) (F : list (arg A) -> list (key * arg A) -> R)
         (mkB : list R -> res (list R)) (sg : sig) 
         (ravelA : A -> A) (concatA : list A -> A) 
         (axis : key) (args : list (arg A)) (kw : list (key * arg A))
         (args' : list (arg A)) (kw' : list (key * arg A)),
       bind sg args kw = bind sg args' kw' ->
       full_reduction A R F mkB sg ravelA concatA axis args kw =
       full_reduction A R F mkB sg ravelA concatA axis args' kw'.
Proof. exact (@full_reduction_pos_kw_indep). Qed.
Print Assumptions C13_full_reduction_pos_kw_indep.

(** map_func_over_tuple_of_tuples: nested shape => block array of one creation per element, other arguments unchanged. *)
Theorem C13_creation_nested :
  forall (X R : Type) (F : list X -> list (key * X) -> R)
         (mkB : list R -> res (list R)) (nested : X -> option (list X))
         (sg : sig) (shape : key) (args : list X) 
         (kw B : list (key * X)) (v : X) (xs pa : list X)
         (pk : list (key * X)),
       bind sg args kw = Some B ->
       assoc shape B = Some v ->
       nested v = Some xs ->
       split_args (s_pos sg) (remove_key X shape B) = (pa, pk) ->
       tuple_of_tuples X R F mkB nested sg shape args kw =
       as_block (mkB (map (fun x : X => F pa (pk ++ (shape, x) :: nil)) xs)).
Proof. exact (@creation_nested). Qed.
Print Assumptions C13_creation_nested.

(** non-nested shape: transparent. *)
Theorem C13_creation_plain :
  forall (X R : Type) (F : list X -> list (key * X) -> R)
         (mkB : list R -> res (list R)) (nested : X -> option (list X))
         (sg : sig) (shape : key) (args : list X) 
         (kw B : list (key * X)) (v : X),
       bind sg args kw = Some B ->
       assoc shape B = Some v ->
       nested v = None ->
       tuple_of_tuples X R F mkB nested sg shape args kw =
       Ok (RPlain (F args kw)).
Proof. exact (@creation_plain). Qed.
Print Assumptions C13_creation_plain.

(** shape (and everything else) may be passed positionally or by keyword. *)
Theorem C13_creation_pos_kw_indep :
  forall (X R : Type) (F : list X -> list (key * X) -> R)
         (mkB : list R -> res (list R)) (nested : X -> option (list X))
         (sg : sig) (G : option (list (key * X)) -> R) 
         (shape : key) (args : list X) (kw : list (key * X)) 
         (args' : list X) (kw' : list (key * X)),
       (forall (a : list X) (k : list (key * X)), F a k = G (bind sg a k)) ->
       bind sg args kw = bind sg args' kw' ->
       tuple_of_tuples X R F mkB nested sg shape args kw =
       tuple_of_tuples X R F mkB nested sg shape args' kw'.
Proof. exact (@creation_pos_kw_indep). Qed.
Print Assumptions C13_creation_pos_kw_indep.

(** scico.random wrappers with a nested shape: every block is drawn by the library generator with the same key (given or PRNGKey(seed)); the returned key is split(key)[0]. *)
Theorem C13_random_nested :
  forall (X R : Type) (F : list X -> list (key * X) -> R)
         (mkB : list R -> res (list R)) (nested : X -> option (list X))
         (sg : sig) (prngkey : option X -> X) (split0 : X -> X) 
         (np : nat) (shape kparam : key) (v : X) (xs : list X)
         (rest : list key) (kopt seed : option X) 
         (k : X),
       s_pos sg = kparam :: shape :: rest ->
       s_kwonly sg = nil ->
       s_req sg = kparam :: nil ->
       kparam <> shape ->
       nested v = Some xs ->
       np = length (s_pos sg) ->
       k = match kopt with
           | Some k0 => k0
           | None => prngkey seed
           end ->
       kopt = None \/ seed = None ->
       add_seed X R F mkB nested sg prngkey split0 np shape 
         (v :: nil) kopt seed nil =
       match
         as_block
           (mkB (map (fun x : X => F (k :: nil) ((shape, x) :: nil)) xs))
       with
       | Ok r => Ok (r, split0 k)
       | Raise e => Raise e
       end.
Proof. exact (@random_nested). Qed.
Print Assumptions C13_random_nested.

(** signature binding commutes with any map on the argument values (it looks at positions and names only). *)
Theorem C13_bind_fmap :
  forall (X Y : Type) (f : X -> Y) (sg : sig) 
         (args : list X) (kw : list (key * X)),
       bind sg (map f args) (fmap f kw) =
       option_map (fmap f) (bind sg args kw).
Proof. exact (@bind_fmap). Qed.
Print Assumptions C13_bind_fmap.

(** concrete arrays: the data of concatenate(map ravel blocks) is the concatenation of the row-major entries of all blocks in block order. *)
Theorem C13_full_ravel_data :
  forall (K : Type) (bs : list (arr K)),
       a_data K (concatenate K (map (ravel K) bs)) = flat_map (a_data K) bs.
Proof. exact (@full_ravel_data). Qed.
Print Assumptions C13_full_ravel_data.

(** and its shape is (total size,). *)
Theorem C13_full_ravel_shape :
  forall (K : Type) (bs : list (arr K)),
       a_shape K (concatenate K (map (ravel K) bs)) =
       fold_right
         (fun (a : arr K) (n : nat) => (length (a_data K a) + n)%nat) 0%nat
         bs :: nil.
Proof. exact (@full_ravel_shape). Qed.
Print Assumptions C13_full_ravel_shape.

(** every block array the constructor returns has one dtype. *)
Theorem C13_constructor_homogeneous :
  forall (K O : Type) (jnp_array : O -> res (arr K))
         (inputs : list (obj K O)) (b : list (arr K)),
       BlockArray K O jnp_array inputs = Ok b -> homog K b = true.
Proof. exact (@constructor_homogeneous). Qed.
Print Assumptions C13_constructor_homogeneous.

(** arrays of one dtype are stored unchanged. *)
Theorem C13_constructor_arrays :
  forall (K O : Type) (jnp_array : O -> res (arr K)) (b : list (arr K)),
       homog K b = true ->
       BlockArray K O jnp_array (map (IsArr K O) b) = Ok b.
Proof. exact (@constructor_arrays). Qed.
Print Assumptions C13_constructor_arrays.

(** mixed dtypes are rejected (ValueError). *)
Theorem C13_constructor_rejects_mixed :
  forall (K O : Type) (jnp_array : O -> res (arr K)) (b : list (arr K)),
       homog K b = false ->
       BlockArray K O jnp_array (map (IsArr K O) b) = Raise ValueError.
Proof. exact (@constructor_rejects_mixed). Qed.
Print Assumptions C13_constructor_rejects_mixed.

(** iterating a block array through __getitem__ until IndexError yields exactly its blocks, in order. *)
Theorem C13_py_iter_id :
  forall (K : Type) (b : list (arr K)), py_iter K b = b.
Proof. exact (@py_iter_id). Qed.
Print Assumptions C13_py_iter_id.

(** unary operators: lifted = map of the per-block operator (and the dtype invariant is kept). *)
Theorem C13_unary_lifted :
  forall (K O : Type) (jnp_array : O -> res (arr K))
         (op : arr K -> arr K) (b : list (arr K)),
       (forall x y : arr K,
        a_dtype K x = a_dtype K y -> a_dtype K (op x) = a_dtype K (op y)) ->
       homog K b = true ->
       unary_op_wrapper K O jnp_array op b = Ok (map op b).
Proof. exact (@unary_lifted). Qed.
Print Assumptions C13_unary_lifted.

(** block OP block = map2 of the per-block operator. *)
Theorem C13_binop_block_block :
  forall (K O : Type) (jnp_array : O -> res (arr K)) 
         (o : binop K O) (f : arr K -> arr K -> arr K) 
         (xs ys : list (arr K)),
       (forall x y : arr K,
        In (x, y) (combine xs ys) ->
        b_fwd K O o x (IsArr K O y) = Some (f x y)) ->
       (forall x y x' y' : arr K,
        a_dtype K x = a_dtype K x' ->
        a_dtype K y = a_dtype K y' -> a_dtype K (f x y) = a_dtype K (f x' y')) ->
       homog K xs = true ->
       homog K ys = true ->
       py_binop K O jnp_array o (OBlk K O xs) (OBlk K O ys) =
       Ok
         (map (fun xy : arr K * arr K => f (fst xy) (snd xy)) (combine xs ys)).
Proof. exact (@binop_block_block). Qed.
Print Assumptions C13_binop_block_block.

(** block OP (array | scalar) = map (fun x => x OP c). *)
Theorem C13_binop_block_other :
  forall (K O : Type) (jnp_array : O -> res (arr K)) 
         (o : binop K O) (f : arr K -> arr K) (xs : list (arr K))
         (c : obj K O),
       (forall x : arr K, In x xs -> b_fwd K O o x c = Some (f x)) ->
       (forall x y : arr K,
        a_dtype K x = a_dtype K y -> a_dtype K (f x) = a_dtype K (f y)) ->
       homog K xs = true ->
       py_binop K O jnp_array o (OBlk K O xs) (OOth K O c) = Ok (map f xs).
Proof. exact (@binop_block_other). Qed.
Print Assumptions C13_binop_block_other.

(** reflected: (array | scalar) OP block = map of the reflected per-block operator. *)
Theorem C13_binop_other_block :
  forall (K O : Type) (jnp_array : O -> res (arr K)) 
         (o : binop K O) (r : opfun K O) (g : arr K -> arr K)
         (xs : list (arr K)) (c : obj K O),
       b_rfl K O o = Some r ->
       (forall x : arr K, In x xs -> r x c = Some (g x)) ->
       (forall x y : arr K,
        a_dtype K x = a_dtype K y -> a_dtype K (g x) = a_dtype K (g y)) ->
       homog K xs = true ->
       py_binop K O jnp_array o (OOth K O c) (OBlk K O xs) = Ok (map g xs).
Proof. exact (@binop_other_block). Qed.
Print Assumptions C13_binop_other_block.

(** an operator without reflected method in the class fails with the block on the right. *)
Theorem C13_binop_no_reflected :
  forall (K O : Type) (jnp_array : O -> res (arr K)) 
         (o : binop K O) (xs : list (arr K)) (c : obj K O),
       b_rfl K O o = None ->
       py_binop K O jnp_array o (OOth K O c) (OBlk K O xs) = Raise TypeError.
Proof. exact (@binop_no_reflected). Qed.
Print Assumptions C13_binop_no_reflected.

(** operands the per-block operator rejects give TypeError, never a block array of NotImplemented. *)
Theorem C13_binop_not_implemented :
  forall (K O : Type) (jnp_array : O -> res (arr K)) 
         (o : binop K O) (x : arr K) (xs : list (arr K)) 
         (c : obj K O),
       b_fwd K O o x c = None ->
       py_binop K O jnp_array o (OBlk K O (x :: xs)) (OOth K O c) =
       Raise TypeError.
Proof. exact (@binop_not_implemented). Qed.
Print Assumptions C13_binop_not_implemented.

(** array-valued property / method => block array of the per-block values. *)
Theorem C13_attr_array_valued :
  forall (K O : Type) (jnp_array : O -> res (arr K))
         (get : arr K -> obj K O) (f : arr K -> arr K) 
         (b : list (arr K)),
       (forall x : arr K, get x = IsArr K O (f x)) ->
       (forall x y : arr K,
        a_dtype K x = a_dtype K y -> a_dtype K (f x) = a_dtype K (f y)) ->
       valid K b -> attr_wrapper K O jnp_array get b = Ok (inl (map f b)).
Proof. exact (@attr_array_valued). Qed.
Print Assumptions C13_attr_array_valued.

(** otherwise => tuple of the per-block values. *)
Theorem C13_attr_other_valued :
  forall (K O : Type) (jnp_array : O -> res (arr K))
         (get : arr K -> obj K O) (h : arr K -> O) 
         (b : list (arr K)),
       (forall x : arr K, get x = NotArr K O (h x)) ->
       b <> nil -> attr_wrapper K O jnp_array get b = Ok (inr (map get b)).
Proof. exact (@attr_other_valued). Qed.
Print Assumptions C13_attr_other_valued.

(** __setitem__ with a value of the block dtype keeps the invariant. *)
Theorem C13_setitem_same_dtype :
  forall (K : Type) (b : list (arr K)) (k : nat) (v a : arr K),
       homog K b = true ->
       In a b ->
       a_dtype K v = a_dtype K a -> homog K (setitem K b k v) = true.
Proof. exact (@setitem_same_dtype). Qed.
Print Assumptions C13_setitem_same_dtype.

(** pytree: unflatten (flatten b) = b. *)
Theorem C13_unflatten_flatten :
  forall (K O : Type) (jnp_array : O -> res (arr K)) (b : list (arr K)),
       homog K b = true ->
       tree_unflatten K O jnp_array (snd (tree_flatten K b))
         (map (IsArr K O) (fst (tree_flatten K b))) = 
       Ok b.
Proof. exact (@unflatten_flatten). Qed.
Print Assumptions C13_unflatten_flatten.

(** pytree: flatten (unflatten aux xs) = (xs, aux) for array leaves of one dtype. *)
Theorem C13_flatten_unflatten :
  forall (K O : Type) (jnp_array : O -> res (arr K)) 
         (aux : unit) (xs : list (arr K)),
       homog K xs = true ->
       exists b : list (arr K),
         tree_unflatten K O jnp_array aux (map (IsArr K O) xs) = Ok b /\
         tree_flatten K b = (xs, aux).
Proof. exact (@flatten_unflatten). Qed.
Print Assumptions C13_flatten_unflatten.

(** whenever unflatten of array leaves succeeds, flattening gives the leaves back. *)
Theorem C13_flatten_of_unflatten :
  forall (K O : Type) (jnp_array : O -> res (arr K)) 
         (aux : unit) (xs b : list (arr K)),
       tree_unflatten K O jnp_array aux (map (IsArr K O) xs) = Ok b ->
       fst (tree_flatten K b) = xs.
Proof. exact (@flatten_of_unflatten). Qed.
Print Assumptions C13_flatten_of_unflatten.

(** every block array returned by a function wrapper is homogeneous. *)
Theorem C13_wrapper_result_homogeneous :
  forall (K O : Type) (jnp_array : O -> res (arr K))
         (rs : list (obj K O)) (b : list (arr K)),
       as_block (BlockArray K O jnp_array rs) = Ok (RBlock b) ->
       homog K b = true.
Proof. exact (@wrapper_result_homogeneous). Qed.
Print Assumptions C13_wrapper_result_homogeneous.
(** * Non-vacuity: the hypotheses are satisfiable and the models compute non-trivial results *)
Import ListNotations.
Open Scope Z_scope.

(** snp.f(x, c) with x a 2-block array: two calls, c passed unchanged *)
Example C13_ex_map_blocks :
  run_blocks 0 ([], [], []) 0 [Blk [VObj 1; VObj 2]; Pln (VObj 9)] [(7, Blk [VObj 3; VObj 4])]
  = (1, 0, [([Pln (VObj 1); Pln (VObj 9)], [(7, Pln (VObj 3))]);
            ([Pln (VObj 2); Pln (VObj 9)], [(7, Pln (VObj 4))])]).
Proof. vm_compute. reflexivity. Qed.

(** signature (a=1, axis=2, dtype=3 | kwonly where=4), required a.  snp.sum(x) : one call on the
    concatenation of the ravelled blocks; snp.sum(x, 0) : per block, arguments by keyword *)
Example C13_ex_full_reduction :
  run_blocks 1 ([1; 2; 3], [4], [1]) 2 [Blk [VObj 1; VObj 2]] [(3, Pln (VObj 8))]
  = (0, 0, [([], [(3, Pln (VObj 8)); (1, Pln (VConcat [VRavel (VObj 1); VRavel (VObj 2)]))])])
  /\ run_blocks 1 ([1; 2; 3], [4], [1]) 2 [Blk [VObj 1; VObj 2]; Pln (VObj 5)] []
  = (1, 0, [([], [(2, Pln (VObj 5)); (1, Pln (VObj 1))]); ([], [(2, Pln (VObj 5)); (1, Pln (VObj 2))])])
  /\ run_blocks 1 ([1; 2; 3], [4], [1]) 2 [] [(1, Blk [VObj 1; VObj 2])]
  = run_blocks 1 ([1; 2; 3], [4], [1]) 2 [Blk [VObj 1; VObj 2]] [].
Proof. vm_compute. repeat split; reflexivity. Qed.

(** the hypotheses of the positional/keyword theorem hold for f(x, y) vs f(x, y=y) *)
Example C13_ex_bind :
  bind (mksig [1; 2] [] [1]) [Blk [VObj 1]; Pln (VObj 2)] []
  = bind (mksig [1; 2] [] [1]) [Blk [VObj 1]] [(2, Pln (VObj 2))]
  /\ bind (mksig [1; 2] [] [1]) [Blk [VObj 1]; Pln (VObj 2)] [] <> None.
Proof. split; [vm_compute; reflexivity|vm_compute; discriminate]. Qed.

(** zeros(((2,3),(3,)), dtype) : two creations, dtype unchanged, shape by keyword *)
Example C13_ex_creation :
  creation_case_ok (([1; 2], [3], [1]), 1, [VTuple [VObj 10; VObj 11]; VObj 5], [],
                    (1, 0, [([], [(2, VObj 5); (1, VObj 10)]); ([], [(2, VObj 5); (1, VObj 11)])])) = true.
Proof. vm_compute. reflexivity. Qed.

(** x + y (blocks), 2 * x (reflected), 2 % x (no reflected method in the class) *)
Example C13_ex_operators :
  op_case_ok (1, Some 2, XB [10; 11], XB [20; 21], [], (1, 0, [[1; 10; 20]; [1; 11; 21]])) = true
  /\ op_case_ok (3, Some 4, XO 7, XB [10; 11], [], (1, 0, [[4; 10; 7]; [4; 11; 7]])) = true
  /\ op_case_ok (5, None, XO 7, XB [10; 11], [], (2, 1, [])) = true
  /\ op_case_ok (1, Some 2, XB [10; 11], XO 99, [99], (2, 1, [])) = true.
Proof. vm_compute. repeat split; reflexivity. Qed.

(** concrete arrays: full ravel of ((2,2) block, (3,) block) *)
Example C13_ex_full_ravel :
  a_data Z (concatenate Z (map (ravel Z) [mkarr Z [2%nat; 2%nat] 0 [1; 2; 3; 4]; mkarr Z [3%nat] 0 [5; 6; 7]]))
  = [1; 2; 3; 4; 5; 6; 7].
Proof. reflexivity. Qed.

(** a homogeneous two-block array exists and mixed dtypes are rejected *)
Example C13_ex_homog :
  BlockArray Z Z no_array [IsArr Z Z (mkarr Z [] 1 [5]); IsArr Z Z (mkarr Z [2%nat] 1 [6; 7])]
  = Ok [mkarr Z [] 1 [5]; mkarr Z [2%nat] 1 [6; 7]]
  /\ BlockArray Z Z no_array [IsArr Z Z (mkarr Z [] 1 [5]); IsArr Z Z (mkarr Z [] 2 [6])] = Raise ValueError.
Proof. split; reflexivity. Qed.

(** * Round 3: guards stated over the whole block list / in every execution mode *)

(** the constructor accepts a list of arrays exactly when every two blocks have the same dtype *)
Theorem C13_constructor_guard_all_blocks :
  forall (K O : Type) (jnp_array : O -> res (arr K)) (b : list (arr K)),
    BlockArray K O jnp_array (map (IsArr K O) b) = Ok b <->
    (forall x y, In x b -> In y b -> a_dtype K x = a_dtype K y).
Proof. exact constructor_guard_all_blocks. Qed.
Print Assumptions C13_constructor_guard_all_blocks.

(** acceptance does not depend on the order of the blocks *)
Theorem C13_constructor_guard_order_independent :
  forall (K O : Type) (jnp_array : O -> res (arr K)) (b b' : list (arr K)),
    (forall x, In x b <-> In x b') ->
    (exists r, BlockArray K O jnp_array (map (IsArr K O) b) = Ok r) <->
    (exists r, BlockArray K O jnp_array (map (IsArr K O) b') = Ok r).
Proof. exact constructor_guard_order_independent. Qed.
Print Assumptions C13_constructor_guard_order_independent.

(** an array-valued property / method gives the block array of the per-block values whether or
    not the blocks are tracers ([traced] arbitrary) *)
Theorem C13_attr_mode_independent :
  forall (K O : Type) (jnp_array : O -> res (arr K)) (traced : arr K -> bool)
         (get : arr K -> obj K O) (f : arr K -> arr K) (b : list (arr K)),
    (forall x, get x = IsArr K O (f x)) ->
    (forall x y, a_dtype K x = a_dtype K y -> a_dtype K (f x) = a_dtype K (f y)) ->
    valid K b ->
    attr_wrapper_cls K O jnp_array (fun _ => true) get b = Ok (inl (map f b)).
Proof. exact attr_mode_independent. Qed.
Print Assumptions C13_attr_mode_independent.

Example C13_ex_traced_attr :
  attr_case_ok (true, true, [10; 11], (1, 2)) = true /\ attr_case_ok (false, false, [10; 11], (0, 2)) = true
  /\ ctor_case_ok ([1; 1], true) = true /\ ctor_case_ok ([2; 1], false) = true /\ ctor_case_ok ([1; 2; 1], false) = true.
Proof. vm_compute. repeat split; reflexivity. Qed.

(** * Round 4: the void wrappers (numpy.testing assertions) have an outcome *)

(** the wrapped assertion returns iff the library assertion returns for EVERY block *)
Theorem C13_map_void_passes_iff :
  forall (A Exn : Type) (V : list (arg A) -> list (key * arg A) -> option Exn)
         (n : nat) (args : list (arg A)) (kw : list (key * arg A)),
    wf A n (args ++ map snd kw) -> (0 < n)%nat -> has_blk A (args ++ map snd kw) = true ->
    (map_void_func_over_blocks A Exn V args kw = Ok None <->
     forall i, (i < n)%nat -> V (map (pick A i) args) (fmap (pick A i) kw) = None).
Proof. exact map_void_passes_iff. Qed.
Print Assumptions C13_map_void_passes_iff.

(** and raises iff it raises for SOME block *)
Theorem C13_map_void_raises_iff :
  forall (A Exn : Type) (V : list (arg A) -> list (key * arg A) -> option Exn)
         (n : nat) (args : list (arg A)) (kw : list (key * arg A)),
    wf A n (args ++ map snd kw) -> (0 < n)%nat -> has_blk A (args ++ map snd kw) = true ->
    ((exists e, map_void_func_over_blocks A Exn V args kw = Ok (Some e)) <->
     exists i, (i < n)%nat /\ V (map (pick A i) args) (fmap (pick A i) kw) <> None).
Proof. exact map_void_raises_iff. Qed.
Print Assumptions C13_map_void_raises_iff.

(** block-block: conjunction over corresponding blocks, independent of the block order *)
Theorem C13_map_void_order_independent :
  forall (A Exn : Type) (V : list (arg A) -> list (key * arg A) -> option Exn) (xs ys xs' ys' : list A),
    xs <> nil -> xs' <> nil -> length xs = length ys -> length xs' = length ys' ->
    (forall p, In p (combine xs ys) <-> In p (combine xs' ys')) ->
    (map_void_func_over_blocks A Exn V (Blk xs :: Blk ys :: nil) nil = Ok None <->
     map_void_func_over_blocks A Exn V (Blk xs' :: Blk ys' :: nil) nil = Ok None).
Proof. exact map_void_order_independent. Qed.
Print Assumptions C13_map_void_order_independent.

Example C13_ex_void :
  void_case_ok ([Blk [VObj 1; VObj 2; VObj 3]; Blk [VObj 4; VObj 5; VObj 6]], [], [5; 6], (1, 5)) = true
  /\ void_case_ok ([Blk [VObj 1; VObj 2]], [(2, Pln (VObj 9))], [], (0, 0)) = true.
Proof. vm_compute. split; reflexivity. Qed.
