(** C14 -- linear-system and scalar solver primitives (cg, cg_solver, lstsq, MatrixATADSolver,
    ConvATADSolver, bisect, golden).  Only statements; each closed by [exact] of a lemma of
    coq/theories/C14.  Refuted full statements of the units that are still defective (cg with a
    preconditioner, flax cg_solver, golden with a user c): coq/Findings/C14_*.v. *)
From Coq Require Import List Bool ZArith QArith Qcanon Reals Lra.
From SV Require Import Base.Num C14.Tup C14.CG C14.CGExec C14.CGReal C14.Lstsq C14.LstsqMat C14.Woodbury C14.Bisect C14.Golden.
Import ListNotations.

(** scico.solver.cg, abstract module (any scalars K, vectors V, linear A, ANY preconditioner M, ANY inner
    product ip, ANY comparison test), every maxiter/b/x0: at exit r = b - A x, z = M r, num = <r,z>; num_iter <= maxiter;
    exit iff num_iter = maxiter or the test num > termination_tol_sq failed, and it held at every earlier iterate. *)
Theorem C14_cg_invariant_and_exit :
  forall (K V : Type) (vadd vsub : V -> V -> V) (vscale : K -> V -> V) (kdiv : K -> K -> K)
         (ip : V -> V -> K) (test : K -> bool) (A M : V -> V),
       (forall u v : V, A (vadd u v) = vadd (A u) (A v)) ->
       (forall (a : K) (v : V), A (vscale a v) = vscale a (A v)) ->
       (forall u v w : V, vsub u (vadd v w) = vsub (vsub u v) w) ->
       forall (maxiter : nat) (b x0 : V),
       let s := cg K V vadd vsub vscale kdiv ip test A M maxiter b x0 in
       sr K V s = vsub b (A (sx K V s)) /\
       sz K V s = M (sr K V s) /\
       snum K V s = ip (sr K V s) (sz K V s) /\
       (sii K V s <= maxiter)%nat /\
       (sii K V s = maxiter \/ test (snum K V s) = false) /\
       s = iter K V vadd vsub vscale kdiv ip A M (sii K V s) (cg_init K V vsub ip A M b x0) /\
       (forall j : nat,
        (j < sii K V s)%nat ->
        test (snum K V (iter K V vadd vsub vscale kdiv ip A M j (cg_init K V vsub ip A M b x0))) = true).
Proof. exact cg_spec. Qed.
Print Assumptions C14_cg_invariant_and_exit.

(** the same for the executable instance (n-tuples over any commutative ring with involution, A a matrix):
    no hypothesis left -- this is the function the correspondence harness runs at Qc and Qc x Qc. *)
Theorem C14_cg_matrix_instance :
  forall (K : Type) (k0 k1 : K) (kadd kmul ksub : K -> K -> K) (kopp conj : K -> K) (kdiv : K -> K -> K),
       ring_theory k0 k1 kadd kmul ksub kopp eq ->
       forall (test : K -> bool) (n : nat) (A : mat K n n) (Mf : tup K n -> tup K n) 
         (maxiter : nat) (b x0 : Vn K n),
       let s := cg_mat K k0 kadd kmul ksub conj kdiv test n A Mf maxiter b x0 in
       sr K (Vn K n) s = tsub K ksub n b (Af K k0 kadd kmul n A (sx K (Vn K n) s)) /\
       sz K (Vn K n) s = Mf (sr K (Vn K n) s) /\
       snum K (Vn K n) s = ipn K k0 kadd kmul conj n (sr K (Vn K n) s) (sz K (Vn K n) s) /\
       (sii K (Vn K n) s <= maxiter)%nat /\
       (sii K (Vn K n) s = maxiter \/ test (snum K (Vn K n) s) = false) /\
       s = iter_mat K k0 kadd kmul ksub conj kdiv n A Mf (sii K (Vn K n) s) b x0 /\
       (forall j : nat,
        (j < sii K (Vn K n) s)%nat ->
        test (snum K (Vn K n) (iter_mat K k0 kadd kmul ksub conj kdiv n A Mf j b x0)) = true).
Proof. exact cg_mat_spec. Qed.
Print Assumptions C14_cg_matrix_instance.

(** M = None, real scalars: exit => num_iter = maxiter or ||b - A x|| <= max(tol ||b||, atol); and
    info['rel_res'] = sqrt(num)/||b|| = ||b - A x|| / ||b||  (ip assumed positive: ip v v >= 0, so sqrt is the norm). *)
Theorem C14_cg_reports_true_residual_real :
  forall (V : Type) (vadd vsub : V -> V -> V) (vscale : R -> V -> V) (ip : V -> V -> R) (A : V -> V),
       (forall u v : V, A (vadd u v) = vadd (A u) (A v)) ->
       (forall (a : R) (v : V), A (vscale a v) = vscale a (A v)) ->
       (forall u v w : V, vsub u (vadd v w) = vsub (vsub u v) w) ->
       forall tol atol : R,
       (0 <= atol)%R ->
       forall (b : V) (maxiter : nat) (x0 : V),
       let s := cg R V vadd vsub vscale Rdiv ip (rtest V ip tol atol b) A (fun v : V => v) maxiter b x0 in
       (sii R V s = maxiter \/ (rnorm V ip (vsub b (A (sx R V s))) <= Rmax (tol * rnorm V ip b) atol)%R) /\
       (sqrt (snum R V s) / rnorm V ip b)%R = (rnorm V ip (vsub b (A (sx R V s))) / rnorm V ip b)%R.
Proof. exact cg_real_rule. Qed.
Print Assumptions C14_cg_reports_true_residual_real.

(** M = None, complex scalars (pairs, lexicographic '>' as in jax, <v,v> has zero imaginary part). *)
Theorem C14_cg_reports_true_residual_complex :
  forall (V : Type) (vadd vsub : V -> V -> V) (vscale : R * R -> V -> V)
         (cdiv : R * R -> R * R -> R * R) (ip : V -> V -> R * R) (A : V -> V),
       (forall u v : V, A (vadd u v) = vadd (A u) (A v)) ->
       (forall (a : R * R) (v : V), A (vscale a v) = vscale a (A v)) ->
       (forall u v w : V, vsub u (vadd v w) = vsub (vsub u v) w) ->
       (forall v : V, snd (ip v v) = 0%R) ->
       forall tol atol : R,
       (0 <= atol)%R ->
       forall (b : V) (maxiter : nat) (x0 : V),
       let s := cg (R * R) V vadd vsub vscale cdiv ip (ctest V ip tol atol b) A (fun v : V => v) maxiter b x0
         in
       (sii (R * R) V s = maxiter \/
        (cnorm V ip (vsub b (A (sx (R * R) V s))) <= Rmax (tol * cnorm V ip b) atol)%R) /\
       (sqrt (fst (snum (R * R) V s)) / cnorm V ip b)%R =
       (cnorm V ip (vsub b (A (sx (R * R) V s))) / cnorm V ip b)%R.
Proof. exact cg_complex_rule. Qed.
Print Assumptions C14_cg_reports_true_residual_complex.

(** maximum(tol*||b||, atol)**2 = max(tol^2 <b,b>, atol^2): the form the exact model evaluates. *)
Theorem C14_cg_threshold_squared_form :
  forall tol atol bb : R,
       (0 <= tol)%R ->
       (0 <= atol)%R ->
       (0 <= bb)%R ->
       (Rmax (tol * sqrt bb) atol * Rmax (tol * sqrt bb) atol)%R = Rmax (tol * tol * bb) (atol * atol).
Proof. exact tolsq_sq. Qed.
Print Assumptions C14_cg_threshold_squared_form.

(** RESTRICTED statement for a preconditioner M: what the code stops on / reports is sqrt(<r, M r>), r the true residual.
    FULL statement (exit => ||b - A x|| <= max(tol ||b||, atol), rel_res = ||b - A x||/||b||) is FALSE for M <> I:
    Findings/C14_cg_precond.v (cg_precond_true_residual_rule_refuted). *)
Theorem C14_cg_precond_reports_M_weighted_residual :
  forall (V : Type) (vadd vsub : V -> V -> V) (vscale : R -> V -> V) (ip : V -> V -> R) (A M : V -> V),
       (forall u v : V, A (vadd u v) = vadd (A u) (A v)) ->
       (forall (a : R) (v : V), A (vscale a v) = vscale a (A v)) ->
       (forall u v w : V, vsub u (vadd v w) = vsub (vsub u v) w) ->
       forall (tol atol : R) (b : V) (maxiter : nat) (x0 : V),
       let s := cg R V vadd vsub vscale Rdiv ip (rtest V ip tol atol b) A M maxiter b x0 in
       let r := vsub b (A (sx R V s)) in
       (sii R V s = maxiter \/ (ip r (M r) <= rthr V ip tol atol b * rthr V ip tol atol b)%R) /\
       (sqrt (snum R V s) / rnorm V ip b)%R = (sqrt (ip r (M r)) / rnorm V ip b)%R.
Proof. exact cg_real_precond_rule. Qed.
Print Assumptions C14_cg_precond_reports_M_weighted_residual.

(** M = None, any scalar type with a real part: additionally every iterate before the exit had a true
    residual above the threshold (the loop does not stop late). *)
Theorem C14_cg_identity_rule_all_iterates :
  forall (K V : Type) (vadd vsub : V -> V -> V) (vscale : K -> V -> V) (kdiv : K -> K -> K)
         (ip : V -> V -> K) (test : K -> bool) (A : V -> V) (re : K -> R),
       (forall u v : V, A (vadd u v) = vadd (A u) (A v)) ->
       (forall (a : K) (v : V), A (vscale a v) = vscale a (A v)) ->
       (forall u v w : V, vsub u (vadd v w) = vsub (vsub u v) w) ->
       forall tol atol : R,
       (0 <= atol)%R ->
       forall b : V,
       (forall v : V, test (ip v v) = true <-> (tsq K V ip re tol atol b < re (ip v v))%R) ->
       forall (maxiter : nat) (x0 : V),
       let s := cgI K V vadd vsub vscale kdiv ip test A maxiter b x0 in
       (sii K V s <= maxiter)%nat /\
       (sii K V s = maxiter \/ (norm K V ip re (vsub b (A (sx K V s))) <= thr K V ip re tol atol b)%R) /\
       (forall j : nat,
        (j < sii K V s)%nat ->
        (thr K V ip re tol atol b <
         norm K V ip re
           (vsub b
              (A
                 (sx K V
                    (iter K V vadd vsub vscale kdiv ip A (fun v : V => v) j
                       (cg_init K V vsub ip A (fun v : V => v) b x0))))))%R).
Proof. exact cg_identity_rule. Qed.
Print Assumptions C14_cg_identity_rule_all_iterates.

(** flax/inverse.py cg_solver (lax.scan, every maxiter): a finite result satisfies r = b - A x, num = <r,r>.
    FULL statement (the result is always finite for SPD A) is FALSE: Findings/C14_cg_solver_nan.v. *)
Theorem C14_cg_solver_scan_invariant :
  forall (K V : Type) (vadd vsub : V -> V -> V) (vscale : K -> V -> V) (ip : V -> V -> K) (A : V -> V),
       (forall u v : V, A (vadd u v) = vadd (A u) (A v)) ->
       (forall (a : K) (v : V), A (vscale a v) = vscale a (A v)) ->
       (forall u v w : V, vsub u (vadd v w) = vsub (vsub u v) w) ->
       forall (kdivo : K -> K -> option K) (maxiter : nat) (b x0 x : V),
       cg_solver K V vadd vsub vscale ip A kdivo maxiter b x0 = Some x ->
       exists s : st2 K V,
         scan K V vadd vsub vscale ip A kdivo maxiter (scan_init K V vsub ip A b x0) = Some s /\
         x = tx K V s /\ tr K V s = vsub b (A x) /\ tnum K V s = ip (tr K V s) (tr K V s).
Proof. exact cg_solver_spec. Qed.
Print Assumptions C14_cg_solver_scan_invariant.

(** the defect for all inputs: if x0 already solves the system exactly (e.g. b = 0, x0 = 0), any scan of >= 2
    steps returns nan (division 0/0). *)
Theorem C14_cg_solver_nan_after_exact_convergence :
  forall (K V : Type) (vadd vsub : V -> V -> V) (vscale : K -> V -> V) (ip : V -> V -> K) 
         (A : V -> V) (kdivo : K -> K -> option K) (kzero : K),
       (forall a : K, kdivo a kzero = None) ->
       forall (b x0 : V) (n : nat),
       ip (vsub b (A x0)) (vsub b (A x0)) = kzero ->
       cg_solver K V vadd vsub vscale ip A kdivo (S (S n)) b x0 = None.
Proof. exact cg_solver_nan_at_solution. Qed.
Print Assumptions C14_cg_solver_nan_after_exact_convergence.

(** lstsq (ATA = Aop.H @ Aop, ATb = Aop.H @ b): in abstract real inner-product spaces (a complex space with
    Re<.,.> is one), AH the adjoint of A:  AH(A x) = AH b  <->  x minimises ||A x - b||^2. *)
Theorem C14_lstsq_normal_equations_iff_minimiser :
  forall (X Y : Type) (xadd xsub : X -> X -> X) (xscale : R -> X -> X) (yadd ysub : Y -> Y -> Y)
         (yscale : R -> Y -> Y) (ipX : X -> X -> R) (ipY : Y -> Y -> R) (A : X -> Y) 
         (AH : Y -> X),
       (forall u v : X, A (xsub u v) = ysub (A u) (A v)) ->
       (forall (t : R) (u : X), A (xscale t u) = yscale t (A u)) ->
       (forall u v : Y, AH (ysub u v) = xsub (AH u) (AH v)) ->
       (forall u v : Y, ipY u v = ipY v u) ->
       (forall u v w : Y, ipY (yadd u v) w = (ipY u w + ipY v w)%R) ->
       (forall (t : R) (u w : Y), ipY (yscale t u) w = (t * ipY u w)%R) ->
       (forall u : Y, (0 <= ipY u u)%R) ->
       (forall h u v : X, ipX h (xsub u v) = (ipX h u - ipX h v)%R) ->
       (forall u v : X, ipX (xsub u v) (xsub u v) = 0%R -> u = v) ->
       (forall u v b : Y, ysub u b = yadd (ysub v b) (ysub u v)) ->
       (forall x h : X, xsub (xadd x h) x = h) ->
       (forall (u : X) (w : Y), ipY (A u) w = ipX u (AH w)) ->
       forall (b : Y) (x : X),
       lstsq_lhs X Y A AH x = lstsq_rhs X Y AH b <->
       (forall x' : X, (obj X Y ysub ipY A b x <= obj X Y ysub ipY A b x')%R).
Proof. exact normal_equations_iff_minimiser. Qed.
Print Assumptions C14_lstsq_normal_equations_iff_minimiser.

(** the conjugate transpose is the adjoint of the sesquilinear product sum(conj(u) * v): for every matrix over
    every commutative ring with involution (real: conj = id; complex), <A x, y> = <x, A^H y>.  Closed. *)
Theorem C14_conjugate_transpose_is_adjoint :
  forall (K : Type) (k0 k1 : K) (kadd kmul ksub : K -> K -> K) (kopp conj : K -> K),
       ring_theory k0 k1 kadd kmul ksub kopp eq ->
       (forall a b : K, conj (kadd a b) = kadd (conj a) (conj b)) ->
       (forall a b : K, conj (kmul a b) = kmul (conj a) (conj b)) ->
       conj k0 = k0 ->
       forall (m n : nat) (A : mat K m n) (x : tup K n) (y : tup K m),
       dotc K k0 kadd kmul conj m (mv K k0 kadd kmul m n A x) y =
       dotc K k0 kadd kmul conj n x (mvH K k0 kadd kmul conj m n A y).
Proof. exact dotc_mvH. Qed.
Print Assumptions C14_conjugate_transpose_is_adjoint.

(** lstsq on matrices, real AND complex, every size, no hypothesis left (scalars = complex numbers over R as
    pairs, a real matrix has zero imaginary parts; rip = Re<.,.>): the system lstsq hands to cg,
    A^H A x = A^H b, is solved by x exactly when x minimises ||A x - b||^2. *)
Theorem C14_lstsq_matrix_real_and_complex :
  forall (m n : nat) (A : mat CR m n) (b : cvecn m) (x : cvecn n),
       cmvH m n A (cmv m n A x) = cmvH m n A b <->
       (forall x' : cvecn n,
        (rip m (csub_n m (cmv m n A x) b) (csub_n m (cmv m n A x) b) <=
         rip m (csub_n m (cmv m n A x') b) (csub_n m (cmv m n A x') b))%R).
Proof. exact lstsq_matrix. Qed.
Print Assumptions C14_lstsq_matrix_real_and_complex.

(** MatrixATADSolver, Woodbury path: G = W^-1 + A D^-1 A^H, fact_solve inverts G (Section variable):
    x = D^-1 (b - A^H G^-1 A D^-1 b) solves (A^H W A + D) x = b.  Additive maps on abelian groups: vector and matrix
    right-hand sides, real and complex, non-commutative. *)
Theorem C14_matrixATAD_woodbury_path :
  forall (X Y : Type) (xadd xsub : X -> X -> X) (yadd ysub : Y -> Y -> Y),
       (forall a t : Y, ysub (yadd a t) t = a) ->
       (forall a b : X, xadd a (xsub b a) = b) ->
       forall (A : X -> Y) (AH : Y -> X) (W Winv : Y -> Y) (D Dinv : X -> X),
       (forall u v : X, A (xsub u v) = ysub (A u) (A v)) ->
       (forall u v : X, Dinv (xsub u v) = xsub (Dinv u) (Dinv v)) ->
       (forall u : X, D (Dinv u) = u) ->
       (forall u : Y, W (Winv u) = u) ->
       forall fact_solve_w : Y -> Y,
       (forall y : Y, Gw X Y yadd A AH Winv Dinv (fact_solve_w y) = y) ->
       forall b : X, sysop X Y xadd A AH W D (solve_woodbury X Y xsub A AH Dinv fact_solve_w b) = b.
Proof. exact woodbury_solves. Qed.
Print Assumptions C14_matrixATAD_woodbury_path.

(** direct path: fact_solve inverts A^H W A + D. *)
Theorem C14_matrixATAD_direct_path :
  forall (X Y : Type) (xadd : X -> X -> X) (A : X -> Y) (AH : Y -> X) (W : Y -> Y)
         (D fact_solve_d : X -> X),
       (forall b : X, sysop X Y xadd A AH W D (fact_solve_d b) = b) ->
       forall b : X, sysop X Y xadd A AH W D (solve_direct X fact_solve_d b) = b.
Proof. exact direct_solves. Qed.
Print Assumptions C14_matrixATAD_direct_path.

(** accuracy (Dx = D * x for a D stored as its diagonal, Dx = D @ x for a full 2-D D: in both cases the action
    of D) is the relative residual rel_res of (A^H W A + D) x = b, for vector and matrix right-hand sides. *)
Theorem C14_matrixATAD_accuracy :
  forall (X Y : Type) (xadd : X -> X -> X) (A : X -> Y) (AH : Y -> X) (W : Y -> Y)
         (D : X -> X) (S : Type) (relres : X -> X -> S) (x b : X),
       accuracy X Y xadd A AH W D S relres x b = relres (sysop X Y xadd A AH W D x) b.
Proof. exact accuracy_is_system_residual. Qed.
Print Assumptions C14_matrixATAD_accuracy.

(** hence on the value solve returns (Woodbury path) accuracy = rel_res(b, b) (= 0 for scico.metric.rel_res) *)
Theorem C14_matrixATAD_accuracy_of_solution :
  forall (X Y : Type) (xadd xsub : X -> X -> X) (yadd ysub : Y -> Y -> Y),
       (forall a t : Y, ysub (yadd a t) t = a) ->
       (forall a b : X, xadd a (xsub b a) = b) ->
       forall (A : X -> Y) (AH : Y -> X) (W Winv : Y -> Y) (D Dinv : X -> X),
       (forall u v : X, A (xsub u v) = ysub (A u) (A v)) ->
       (forall u v : X, Dinv (xsub u v) = xsub (Dinv u) (Dinv v)) ->
       (forall u : X, D (Dinv u) = u) ->
       (forall u : Y, W (Winv u) = u) ->
       forall fact_solve_w : Y -> Y,
       (forall y : Y, Gw X Y yadd A AH Winv Dinv (fact_solve_w y) = y) ->
       forall (S : Type) (relres : X -> X -> S) (b : X),
       accuracy X Y xadd A AH W D S relres (solve_woodbury X Y xsub A AH Dinv fact_solve_w b) b = relres b b.
Proof. exact accuracy_of_woodbury_solution. Qed.
Print Assumptions C14_matrixATAD_accuracy_of_solution.

(** ConvATADSolver in the DFT domain = Woodbury with W = I (Einv = division by 1 + sum Ahat conj(Ahat)/Dhat). *)
Theorem C14_convATAD_solves :
  forall (X Y : Type) (xadd xsub : X -> X -> X) (yadd ysub : Y -> Y -> Y),
       (forall a t : Y, ysub (yadd a t) t = a) ->
       (forall a b : X, xadd a (xsub b a) = b) ->
       forall (A : X -> Y) (AH : Y -> X) (D Dinv : X -> X),
       (forall u v : X, A (xsub u v) = ysub (A u) (A v)) ->
       (forall u v : X, Dinv (xsub u v) = xsub (Dinv u) (Dinv v)) ->
       (forall u : X, D (Dinv u) = u) ->
       forall Einv : Y -> Y,
       (forall y : Y, yadd (Einv y) (A (Dinv (AH (Einv y)))) = y) ->
       forall b : X,
       xadd (AH (A (conv_solve X Y xsub A AH Dinv Einv b))) (D (conv_solve X Y xsub A AH Dinv Einv b)) = b.
Proof. exact conv_solves. Qed.
Print Assumptions C14_convATAD_solves.

(** bisect, element-wise, every n: sign f(a_n) <> sign f(b_n) strictly, or an endpoint is a root. *)
Theorem C14_bisect_sign_invariant :
  forall (f : R -> R) (n : nat) (a0 b0 : R),
       brackets f a0 b0 -> brackets f (fst (bis_iter f n (a0, b0))) (snd (bis_iter f n (a0, b0))).
Proof. exact bis_iter_brackets. Qed.
Print Assumptions C14_bisect_sign_invariant.

(** bisect: from a strict sign change, b_n - a_n = (b_0 - a_0)/2^n exactly, or the bracket collapsed on an exact root. *)
Theorem C14_bisect_halving :
  forall (f : R -> R) (n : nat) (L a0 b0 : R),
       halved f L a0 b0 -> halved f (L / 2 ^ n) (fst (bis_iter f n (a0, b0))) (snd (bis_iter f n (a0, b0))).
Proof. exact bis_iter_halved. Qed.
Print Assumptions C14_bisect_halving.

(** bisect main theorem (continuous f, IVT): nested brackets, a root z in the last bracket, returned point in the initial
    bracket within (b_0 - a_0)/2^n of z. *)
Theorem C14_bisect_elementwise :
  forall (f : R -> R) (n : nat) (a0 b0 : R),
       continuity f ->
       (a0 <= b0)%R ->
       (f a0 * f b0 < 0)%R ->
       let ab := bis_iter f n (a0, b0) in
       let x := bis_pick f ab in
       (a0 <= fst ab)%R /\
       (fst ab <= snd ab)%R /\
       (snd ab <= b0)%R /\
       (snd ab - fst ab <= (b0 - a0) / 2 ^ n)%R /\
       (a0 <= x <= b0)%R /\
       (exists z : R, (fst ab <= z <= snd ab)%R /\ f z = 0%R /\ (Rabs (x - z) <= (b0 - a0) / 2 ^ n)%R).
Proof. exact bisect_elementwise. Qed.
Print Assumptions C14_bisect_elementwise.

(** the vectorised loop performs one common number k <= maxiter of passes = element-wise iteration; an early break
    means every bracket is shorter than xtol. *)
Theorem C14_bisect_vectorised_loop :
  forall (maxiter : nat) (xtol ftol : R) (st : list (@elem R)),
       exists k : nat,
         (k <= maxiter)%nat /\
         bis_loop maxiter xtol ftol st 0 =
         (map (fun e : (R -> R) * (R * R) => (fst e, bis_iter (fst e) k (snd e))) st, k) /\
         (k = maxiter \/
          (forall e : @elem R,
           In e st -> (Rabs (snd (bis_iter (fst e) k (snd e)) - fst (bis_iter (fst e) k (snd e))) <= xtol)%R)).
Proof. exact bisect_vector. Qed.
Print Assumptions C14_bisect_vectorised_loop.

(** gr > 0, gr^2 = 1 - gr  =>  1/2 < gr < 1. *)
Theorem C14_golden_constant :
  forall gr : R, (0 < gr)%R -> (gr * gr)%R = (1 - gr)%R -> (1 / 2 < gr < 1)%R.
Proof. exact golden_ratio_range. Qed.
Print Assumptions C14_golden_constant.

(** golden (default c), every n: nested brackets, length gr^n (b_0 - a_0), the minimiser of a unimodal f stays inside,
    returned point in the initial bracket within gr^n (b_0 - a_0) of it.  With a user c > a + gr (b - a) this is FALSE:
    Findings/C14_golden_c.v. *)
Theorem C14_golden_elementwise :
  forall gr : R,
       (0 < gr)%R ->
       (gr * gr)%R = (1 - gr)%R ->
       forall (f : R -> R) (n : nat) (a0 b0 m : R),
       (a0 <= b0)%R ->
       unimodal f a0 b0 m ->
       let s := gold_iter gr f n (gold_init gr a0 b0 None) in
       let x := gold_pick f s in
       (a0 <= ga s)%R /\
       (ga s <= gb s)%R /\
       (gb s <= b0)%R /\
       (gb s - ga s)%R = (gr ^ n * (b0 - a0))%R /\
       (ga s <= m <= gb s)%R /\ (a0 <= x <= b0)%R /\ (Rabs (x - m) <= gr ^ n * (b0 - a0))%R.
Proof. exact golden_elementwise. Qed.
Print Assumptions C14_golden_elementwise.

(** the vectorised golden loop: common pass count; early break => every bracket shorter than xtol. *)
Theorem C14_golden_vectorised_loop :
  forall (gr : R) (maxiter : nat) (xtol : R) (st : list (@gelem R)),
       exists k : nat,
         (k <= maxiter)%nat /\
         gold_loop gr maxiter xtol st 0 =
         (map (fun e : (R -> R) * @gst R => (fst e, gold_iter gr (fst e) k (snd e))) st, k) /\
         (k = maxiter \/
          (forall e : @gelem R,
           In e st ->
           (Rabs (gb (gold_iter gr (fst e) k (snd e)) - ga (gold_iter gr (fst e) k (snd e))) <= xtol)%R)).
Proof. exact golden_vector. Qed.
Print Assumptions C14_golden_vectorised_loop.

(** bisect, root exactly ON an end point of the initial bracket (f(a0) = 0 or f(b0) = 0; accepted by
    range_check), every n, no continuity: the update conditions [sign(fa) sign(fc) == 1 or fc == 0] never move
    an end point whose f-value is 0 (unless the midpoint is itself an exact root and the bracket collapses on
    it), so that end point is still an end point after n passes, and the returned point is an EXACT root inside
    the initial bracket.  (A "simplified" condition sign(fa) sign(fc) >= 0 violates exactly this.) *)
Theorem C14_bisect_endpoint_root :
  forall (f : R -> R) (n : nat) (a0 b0 : R),
       (a0 <= b0)%R ->
       f a0 = 0%R \/ f b0 = 0%R ->
       let ab := bis_iter f n (a0, b0) in
       let x := bis_pick f ab in
       (f a0 = 0%R -> fst ab = a0 \/ fst ab = snd ab /\ f (fst ab) = 0%R) /\
       (f b0 = 0%R -> snd ab = b0 \/ fst ab = snd ab /\ f (fst ab) = 0%R) /\ f x = 0%R /\ (a0 <= x <= b0)%R.
Proof. exact bisect_endpoint_root. Qed.
Print Assumptions C14_bisect_endpoint_root.

(** flax cg_solver IS conjugate gradient: a finite result of the scan (any scalars, real or complex) is the
    maxiter-th iterate of the SAME loop body [cg_step] that scico.solver.cg runs, with M = identity -- so num is
    sum(conj(r) * r) (with the conjugation), and alpha, beta are the CG coefficients. [kdivo] = [kdiv] where defined. *)
Theorem C14_cg_solver_is_cg_iterate :
  forall (K V : Type) (vadd vsub : V -> V -> V) (vscale : K -> V -> V) (kdiv : K -> K -> K)
         (ip : V -> V -> K) (A M : V -> V) (kdivo : K -> K -> option K),
       (forall v : V, M v = v) ->
       (forall a c q : K, kdivo a c = Some q -> q = kdiv a c) ->
       forall (maxiter : nat) (b x0 x : V),
       cg_solver K V vadd vsub vscale ip A kdivo maxiter b x0 = Some x ->
       x = sx K V (iter K V vadd vsub vscale kdiv ip A M maxiter (cg_init K V vsub ip A M b x0)).
Proof. exact cg_solver_is_cg_iterate. Qed.
Print Assumptions C14_cg_solver_is_cg_iterate.

(** the same for the executable complex instance the harness runs (Gaussian rationals): nothing assumed. *)
Theorem C14_cg_solver_complex_instance :
  forall (n : nat) (A : list (list (Q * Q))) (b x0 : list (Q * Q)) (maxiter : nat) (x : Vn C n),
       c_cg_solver n A b x0 maxiter = Some x ->
       x =
       sx C (Vn C n)
         (iter_mat C C0 Cadd Cmul Csub Cconj Cdiv n (cmat n A) (fun v : tup C n => v) maxiter 
            (cvec n b) (cvec n x0)).
Proof. exact c_cg_solver_is_cg_iterate. Qed.
Print Assumptions C14_cg_solver_complex_instance.

(** MatrixATADSolver.__init__/solve: for EVERY value of the constructor flags (cho_factor, lower) the stored
    factorisation, used through fact_solve, inverts the factorised matrix -- because the flag kept with the Cholesky
    factor is the one it was computed with (library contract cho_contract: cho_solve((cho_factor(G, lower), lower), .)
    inverts G; lu likewise).  check_finite only validates input. *)
Theorem C14_matrixATAD_factorisation_flags :
  forall (Z F : Type) (G : Z -> Z) (cho_fac : bool -> F) (cho_solve : F -> bool -> Z -> Z) 
         (lu_fac : F) (lu_solve : F -> Z -> Z),
       (forall (lower : bool) (y : Z), G (cho_solve (cho_fac lower) lower y) = y) ->
       (forall y : Z, G (lu_solve lu_fac y) = y) ->
       forall (cho lower : bool) (y : Z),
       G (fact_solve Z F cho_solve lu_solve (atad_init F cho_fac lu_fac cho lower) y) = y.
Proof. exact fact_solve_inverts. Qed.
Print Assumptions C14_matrixATAD_factorisation_flags.

(** Woodbury path solves (A^H W A + D) x = b for every (cho_factor, lower). *)
Theorem C14_matrixATAD_woodbury_all_flags :
  forall (X Y F : Type) (xadd xsub : X -> X -> X) (yadd ysub : Y -> Y -> Y),
       (forall a t : Y, ysub (yadd a t) t = a) ->
       (forall a b : X, xadd a (xsub b a) = b) ->
       forall (A : X -> Y) (AH : Y -> X) (W Winv : Y -> Y) (D Dinv : X -> X),
       (forall u v : X, A (xsub u v) = ysub (A u) (A v)) ->
       (forall u v : X, Dinv (xsub u v) = xsub (Dinv u) (Dinv v)) ->
       (forall u : X, D (Dinv u) = u) ->
       (forall u : Y, W (Winv u) = u) ->
       forall (cho_fac_w : bool -> F) (cho_solve_w : F -> bool -> Y -> Y) (lu_fac_w : F)
         (lu_solve_w : F -> Y -> Y),
       (forall (lower : bool) (y : Y), Gw X Y yadd A AH Winv Dinv (cho_solve_w (cho_fac_w lower) lower y) = y) ->
       (forall y : Y, Gw X Y yadd A AH Winv Dinv (lu_solve_w lu_fac_w y) = y) ->
       forall (cho lower : bool) (b : X),
       sysop X Y xadd A AH W D
         (solve_woodbury X Y xsub A AH Dinv
            (fact_solve Y F cho_solve_w lu_solve_w (atad_init F cho_fac_w lu_fac_w cho lower)) b) = b.
Proof. exact atad_woodbury_all_flags. Qed.
Print Assumptions C14_matrixATAD_woodbury_all_flags.

(** direct path solves (A^H W A + D) x = b for every (cho_factor, lower). *)
Theorem C14_matrixATAD_direct_all_flags :
  forall (X Y F : Type) (xadd : X -> X -> X) (A : X -> Y) (AH : Y -> X) (W : Y -> Y) 
         (D : X -> X) (cho_fac_d : bool -> F) (cho_solve_d : F -> bool -> X -> X) 
         (lu_fac_d : F) (lu_solve_d : F -> X -> X),
       (forall (lower : bool) (b : X), sysop X Y xadd A AH W D (cho_solve_d (cho_fac_d lower) lower b) = b) ->
       (forall b : X, sysop X Y xadd A AH W D (lu_solve_d lu_fac_d b) = b) ->
       forall (cho lower : bool) (b : X),
       sysop X Y xadd A AH W D
         (solve_direct X (fact_solve X F cho_solve_d lu_solve_d (atad_init F cho_fac_d lu_fac_d cho lower)) b) =
       b.
Proof. exact atad_direct_all_flags. Qed.
Print Assumptions C14_matrixATAD_direct_all_flags.

(** ------------------------------------------------------------------ non-vacuity *)
Local Open Scope R_scope.

(** the hypotheses of the CG theorems are jointly satisfiable (V = R, A x = 2 x) *)
Example C14_cg_hypotheses_satisfiable :
  exists (V : Type) (vadd vsub : V -> V -> V) (vscale : R -> V -> V) (ip : V -> V -> R) (A : V -> V),
    (forall u v : V, A (vadd u v) = vadd (A u) (A v)) /\
    (forall (a : R) (v : V), A (vscale a v) = vscale a (A v)) /\
    (forall u v w : V, vsub u (vadd v w) = vsub (vsub u v) w) /\
    (forall v, 0 <= ip v v).
Proof.
  exists R, Rplus, Rminus, Rmult, Rmult, (fun x => 2 * x).
  repeat split; intros; try ring. nra.
Qed.

(** the executable instance computes a non-trivial run: A = [[4,1],[1,3]], b = [1,2]:
    two iterations, x = [1/11, 7/11], residual exactly 0 *)
Example C14_cg_exec_example :
  let s := r_cg 2 [[4#1; 1#1]; [1#1; 3#1]] None [1#1; 2#1] [0#1; 0#1] (1#1024) 0 5 in
  map this (to_list 2 (sx _ _ s)) = [1 # 11; 7 # 11]%Q /\ sii _ _ s = 2%nat /\ this (snum _ _ s) = 0%Q.
Proof. vm_compute. repeat split; reflexivity. Qed.

(** complex instance: Hermitian A = [[4, 1+i],[1-i, 3]], b = [1, 2+i] *)
Example C14_cg_exec_example_complex :
  let s := c_cg 2 [[(4#1, 0#1); (1#1, 1#1)]; [(1#1, (-1)#1); (3#1, 0#1)]] None
                [(1#1, 0#1); (2#1, 1#1)] [(0#1, 0#1); (0#1, 0#1)] (1#1024) 0 5 in
  map (fun z => (this (fst z), this (snd z))) (to_list 2 (sx _ _ s))
    = [(1 # 5, (-3) # 10); (7 # 10, 1 # 2)]%Q /\ sii _ _ s = 2%nat.
Proof. vm_compute. split; reflexivity. Qed.

Example C14_lstsq_hypotheses_satisfiable :
  exists (A At : R -> R),
    (forall u v, A (u - v) = A u - A v) /\ (forall t u, A (t * u) = t * A u) /\
    (forall u v, At (u - v) = At u - At v) /\
    (forall u v : R, (u - v) * (u - v) = 0 -> u = v) /\
    (forall u w, A u * w = u * At w).
Proof.
  exists (fun x => 3 * x), (fun y => 3 * y). repeat split; intros; try ring. nra.
Qed.

(** Woodbury hypotheses at X = Y = R: A = AH = 1, W = 2, D = 3, G = 1/2 + 1/3 *)
Example C14_woodbury_example :
  forall b : R,
    sysop R R Rplus (fun x => x) (fun y => y) (fun y => 2 * y) (fun x => 3 * x)
      (solve_woodbury R R Rminus (fun x => x) (fun y => y) (fun x => x / 3) (fun y => 6 * y / 5) b) = b.
Proof.
  intros b.
  apply (woodbury_solves R R Rplus Rminus Rplus Rminus) with (Winv := fun y => y / 2);
    intros; unfold Gw; try field; try ring.
Qed.

(** complex least squares on the former counterexample A = [[1],[i/2]], b = [0,1] (Gaussian rationals, by
    computation): x = -2i/5 solves A^H A x = A^H b, and ||A x - b||^2 = 4/5 is below the 20/9 attained by
    x = 2i/3, the solution of the transposed system the code formed before commit 247d4df. *)
Example C14_lstsq_complex_example :
  let cq (a b : Q) : C := (Q2Qc a, Q2Qc b) in
  let A : mat C 2 1 := ((cq 1%Q 0%Q, tt), ((cq 0%Q (1 # 2)%Q, tt), tt)) in
  let b : tup C 2 := (cq 0%Q 0%Q, (cq 1%Q 0%Q, tt)) in
  let x : tup C 1 := (cq 0%Q ((-2) # 5)%Q, tt) in
  let xT : tup C 1 := (cq 0%Q (2 # 3)%Q, tt) in
  let pr (v : tup C 1) := map (fun z => (this (fst z), this (snd z))) (to_list 1 v) in
  let nsq (v : tup C 1) :=
    let r := tsub C Csub 2 (mv C C0 Cadd Cmul 2 1 A v) b in this (fst (dotc C C0 Cadd Cmul Cconj 2 r r)) in
  pr (mvH C C0 Cadd Cmul Cconj 2 1 A (mv C C0 Cadd Cmul 2 1 A x)) = pr (mvH C C0 Cadd Cmul Cconj 2 1 A b) /\
  nsq x = (4 # 5)%Q /\ nsq xT = (20 # 9)%Q.
Proof. vm_compute. repeat split; reflexivity. Qed.

(** accuracy with a full D on the former counterexample A^H W A = I, D = [[3,1],[1,2]], x = [1,1], b = [5,4]:
    the residual b - (A^H W A x + D @ x) the repaired code forms is exactly zero. *)
Example C14_accuracy_fullD_example :
  let G0 := rmat 2 [[1#1; 0#1]; [0#1; 1#1]] in
  let D := rmat 2 [[3#1; 1#1]; [1#1; 2#1]] in
  let x := rvec 2 [1#1; 1#1] in
  let b := rvec 2 [5#1; 4#1] in
  map this (to_list 2 (tsub Qc Qcminus 2 b
     (tadd Qc Qcplus 2 (mv Qc 0%Qc Qcplus Qcmult 2 2 G0 x) (mv Qc 0%Qc Qcplus Qcmult 2 2 D x))))
  = [0; 0]%Q.
Proof. vm_compute. reflexivity. Qed.

Example C14_bisect_hypotheses_satisfiable :
  exists f : R -> R, continuity f /\ f 0 * f 1 < 0.
Proof.
  exists (id - fct_cte (1 / 3))%F. split.
  - apply continuity_minus; [apply derivable_continuous, derivable_id | apply continuity_const; intros x y; reflexivity].
  - unfold minus_fct, id, fct_cte. lra.
Qed.

Example C14_golden_unimodal_example : unimodal (fun x => Rabs (x - 1 / 3)) 0 1 (1 / 3).
Proof.
  unfold unimodal. split; [lra|]. split; intros x y H1 H2 H3;
    unfold Rabs; destruct (Rcase_abs (x - 1 / 3)), (Rcase_abs (y - 1 / 3)); lra.
Qed.

(** ** Tie to the source.  The left-hand side (module SVGen.C14_CG) is the initialisation and
    the `while (ii < maxiter) and (num > termination_tol_sq)` loop of scico.solver.cg as
    regenerated by tools/py2coq.py on every run (x, r, z, p, num, ii at loop exit); the
    right-hand side is the loop model [CG.cg] the theorems above are about, instantiated with
    the operations the code uses.  Generic in scalars, vectors, A, the preconditioner M, the
    inner product snp.sum(u.conj() * v) and the norm. *)
From SV Require Import C11.Overload C14.Gen.
From SVGen Require C14_CG.

Theorem C14_gen_cg_loop :
  forall (K : Type) (NK : Num K) (V : Type) (VV : VecOps K V) (CD : CDot V K) (NO : NormOracle V K)
         (A M : V -> V) (tol atol : K) (b x0 : V) (maxiter : nat),
    C14_CG.cg_loop_gen A b x0 tol atol maxiter M = st_tuple (cg_model A M tol atol maxiter b x0).
Proof. exact (@cg_gen_is_model). Qed.
Print Assumptions C14_gen_cg_loop.

(** end-point root: f(x) = x on [0, 4] (root on the left end), f(x) = 4 - x (root on the right end) *)
Example C14_bisect_endpoint_example :
  (fun x : R => x) 0 = 0 /\ (fun x : R => 4 - x) 4 = 0 /\ 0 <= 4.
Proof. repeat split; lra. Qed.

(** cg_solver on a complex Hermitian system: 2 scan steps give the exact solution [1/5 - 3i/10, 7/10 + i/2]
    (the same values as C14_cg_exec_example_complex: it is the same CG) *)
Example C14_cg_solver_complex_example :
  match c_cg_solver 2 [[(4#1, 0#1); (1#1, 1#1)]; [(1#1, (-1)#1); (3#1, 0#1)]]
                    [(1#1, 0#1); (2#1, 1#1)] [(0#1, 0#1); (0#1, 0#1)] 2 with
  | Some x => map (fun z => (this (fst z), this (snd z))) (to_list 2 x) = [(1 # 5, (-3) # 10); (7 # 10, 1 # 2)]%Q
  | None => False
  end.
Proof. vm_compute. reflexivity. Qed.
