(** C15 -- solver driver: iteration count, statistics, callbacks, resumption, NaN stop, timer.
    Only statements; each closed by [exact] of a lemma of the model files. *)
From Coq Require Import List Bool ZArith QArith Qcanon.
From SV Require Import Opt.Timer Opt.Driver Opt.DriverExec.
Import ListNotations.
Open Scope Z_scope.

(** For every optimiser (step, accessors, callback, finiteness predicate arbitrary), every
    clock, every initial counter and every maxiter: exactly maxiter iterations numbered
    consecutively from the initial counter; one statistics row per iteration, in order, whose
    fields are the accessor values after that iteration; the callback runs once after each
    iteration, between timer.stop and timer.start. *)
Theorem C15_solve_counts_rows_callbacks :
  forall (T : Type) (tzero : T) (tadd tsub : T -> T -> T) (S U : Type) (step : S -> S)
         (finite : S -> bool) (user : S -> U) (cb : Z -> S -> S) (clk : nat -> T)
         nanstop usecb maxiter (d : dst T S U),
    (nanstop = true ->
     first_bad S step finite cb usecb (Z.to_nat maxiter) (d_itnum _ _ _ d) (d_w _ _ _ d) = None) ->
    let '(d', raised) := solve T tzero tadd tsub S U step finite user cb clk nanstop usecb maxiter d in
    let m := Z.to_nat maxiter in
    raised = false /\
    d_itnum _ _ _ d' = d_itnum _ _ _ d + Z.of_nat m /\
    d_w _ _ _ d' = wstate S step cb usecb m (d_itnum _ _ _ d) (d_w _ _ _ d) /\
    d_log _ _ _ d' = d_log _ _ _ d ++ ETStart :: exp_evs usecb m (d_itnum _ _ _ d) ++ [ETStop] /\
    map (notime T U) (d_rows _ _ _ d') =
      map (notime T U) (d_rows _ _ _ d) ++ exp_rows S U step user cb usecb m (d_itnum _ _ _ d) (d_w _ _ _ d) /\
    length (d_rows _ _ _ d') = (length (d_rows _ _ _ d) + m)%nat.
Proof. exact solve_spec. Qed.
Print Assumptions C15_solve_counts_rows_callbacks.

(** solve(n1); solve(n2) is one longer run solve(n1+n2) (all n1, n2 >= 0, including 0). *)
Theorem C15_resumption :
  forall (T : Type) (tzero : T) (tadd tsub : T -> T -> T) (S U : Type) (step : S -> S)
         (finite : S -> bool) (user : S -> U) (cb : Z -> S -> S) (clk : nat -> T)
         usecb n1 n2 (d : dst T S U),
    0 <= n1 -> 0 <= n2 ->
    let sv := solve T tzero tadd tsub S U step finite user cb clk false usecb in
    let d1 := fst (sv n1 d) in
    let d2 := fst (sv n2 d1) in
    let d3 := fst (sv (n1 + n2) d) in
    d_itnum _ _ _ d2 = d_itnum _ _ _ d3 /\ d_w _ _ _ d2 = d_w _ _ _ d3 /\
    map (notime T U) (d_rows _ _ _ d2) = map (notime T U) (d_rows _ _ _ d3) /\
    core (d_log _ _ _ d2) = core (d_log _ _ _ d3).
Proof. exact solve_resume. Qed.
Print Assumptions C15_resumption.

(** NaN stop: the exception is raised in the first iteration after which the working
    variables are not finite; rows exist for exactly the earlier iterations. *)
Theorem C15_nanstop :
  forall (T : Type) (tzero : T) (tadd tsub : T -> T -> T) (S U : Type) (step : S -> S)
         (finite : S -> bool) (user : S -> U) (cb : Z -> S -> S) (clk : nat -> T)
         usecb maxiter (d : dst T S U) kb,
    first_bad S step finite cb usecb (Z.to_nat maxiter) (d_itnum _ _ _ d) (d_w _ _ _ d) = Some kb ->
    let '(d', raised) := solve T tzero tadd tsub S U step finite user cb clk true usecb maxiter d in
    raised = true /\ d_itnum _ _ _ d' = kb /\ d_itnum _ _ _ d <= kb < d_itnum _ _ _ d + maxiter /\
    map (notime T U) (d_rows _ _ _ d') =
      map (notime T U) (d_rows _ _ _ d) ++
      exp_rows S U step user cb usecb (Z.to_nat (kb - d_itnum _ _ _ d)) (d_itnum _ _ _ d) (d_w _ _ _ d).
Proof. exact solve_nanstop. Qed.
Print Assumptions C15_nanstop.

Theorem C15_first_bad_is_first :
  forall (S : Type) (step : S -> S) (finite : S -> bool) (cb : Z -> S -> S) usecb m k w kb,
    first_bad S step finite cb usecb m k w = Some kb ->
    exists j : nat, kb = k + Z.of_nat j /\ (j < m)%nat /\
      finite (step (wstate S step cb usecb j k w)) = false /\
      forall i, (i < j)%nat -> finite (step (wstate S step cb usecb i k w)) = true.
Proof. exact first_bad_spec. Qed.
Print Assumptions C15_first_bad_is_first.

(** Timer: for every sequence of start/stop/reset/elapsed/labels calls over any labels and
    every clock (times in any abelian group), the class reports what the ideal stopwatch
    (sum of the closed running intervals since the last reset, plus the open one) reports. *)
Theorem C15_timer_refines_ideal_stopwatch :
  forall (T : Type) (tzero : T) (tadd tsub : T -> T -> T) (dflt allb : label)
         (h : list (op * T)),
    snd (crun T tzero tadd tsub dflt allb [] h) = snd (irun T tzero tadd tsub dflt allb [] h).
Proof. exact timer_fresh_refines. Qed.
Print Assumptions C15_timer_refines_ideal_stopwatch.

(** non-vacuity: a concrete history meets the hypotheses and produces non-trivial output *)
Example C15_timer_example :
  map out_code (snd (qcrun [] [(Start SelNone, q 1 1); (Elapsed None true, q 3 1);
                               (Stop SelNone, q 4 1); (Start SelNone, q 6 1);
                               (Elapsed None true, q 13 2)]))
  = [(0, 0%Q, []); (2, 2%Q, []); (0, 0%Q, []); (0, 0%Q, []); (2, (7 # 2)%Q, [])].
Proof. vm_compute. reflexivity. Qed.
