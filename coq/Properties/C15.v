(** C15 -- solver driver: iteration count, statistics, callbacks, resumption, NaN stop, timer.
    Only statements; each closed by [exact] of a lemma of the model files. *)
From Coq Require Import List Bool ZArith QArith Qcanon.
From SV Require Import Opt.Timer Opt.Driver Opt.DriverExec.
Import ListNotations.
Open Scope Z_scope.

(** For every optimiser (step, accessors, callback, finiteness predicate arbitrary), every
    clock, every initial counter and every maxiter: exactly maxiter iterations numbered
    consecutively from the initial counter; one statistics row per iteration, in order, whose
    fields are the accessor values after that iteration; the callback runs once after each
    iteration, between timer.stop and timer.start. *)
Theorem C15_solve_counts_rows_callbacks :
  forall (T : Type) (tzero : T) (tadd tsub : T -> T -> T) (S U : Type) (step : S -> S)
         (finite : S -> bool) (user : S -> U) (cb : Z -> S -> S) (clk : nat -> T)
         nanstop usecb maxiter (d : dst T S U),
    (nanstop = true ->
     first_bad S step finite cb usecb (Z.to_nat maxiter) (d_itnum _ _ _ d) (d_w _ _ _ d) = None) ->
    let '(d', raised) := solve T tzero tadd tsub S U step finite user cb clk nanstop usecb maxiter d in
    let m := Z.to_nat maxiter in
    raised = false /\
    d_itnum _ _ _ d' = d_itnum _ _ _ d + Z.of_nat m /\
    d_w _ _ _ d' = wstate S step cb usecb m (d_itnum _ _ _ d) (d_w _ _ _ d) /\
    d_log _ _ _ d' = d_log _ _ _ d ++ ETStart :: exp_evs usecb m (d_itnum _ _ _ d) ++ [ETStop] /\
    map (notime T U) (d_rows _ _ _ d') =
      map (notime T U) (d_rows _ _ _ d) ++ exp_rows S U step user cb usecb m (d_itnum _ _ _ d) (d_w _ _ _ d) /\
    length (d_rows _ _ _ d') = (length (d_rows _ _ _ d) + m)%nat.
Proof. exact solve_spec. Qed.
Print Assumptions C15_solve_counts_rows_callbacks.

(** solve(n1); solve(n2) is one longer run solve(n1+n2) (all n1, n2 >= 0, including 0). *)
Theorem C15_resumption :
  forall (T : Type) (tzero : T) (tadd tsub : T -> T -> T) (S U : Type) (step : S -> S)
         (finite : S -> bool) (user : S -> U) (cb : Z -> S -> S) (clk : nat -> T)
         usecb n1 n2 (d : dst T S U),
    0 <= n1 -> 0 <= n2 ->
    let sv := solve T tzero tadd tsub S U step finite user cb clk false usecb in
    let d1 := fst (sv n1 d) in
    let d2 := fst (sv n2 d1) in
    let d3 := fst (sv (n1 + n2) d) in
    d_itnum _ _ _ d2 = d_itnum _ _ _ d3 /\ d_w _ _ _ d2 = d_w _ _ _ d3 /\
    map (notime T U) (d_rows _ _ _ d2) = map (notime T U) (d_rows _ _ _ d3) /\
    core (d_log _ _ _ d2) = core (d_log _ _ _ d3).
Proof. exact solve_resume. Qed.
Print Assumptions C15_resumption.

(** NaN stop: the exception is raised in the first iteration after which the working
    variables are not finite; rows exist for exactly the earlier iterations. *)
Theorem C15_nanstop :
  forall (T : Type) (tzero : T) (tadd tsub : T -> T -> T) (S U : Type) (step : S -> S)
         (finite : S -> bool) (user : S -> U) (cb : Z -> S -> S) (clk : nat -> T)
         usecb maxiter (d : dst T S U) kb,
    first_bad S step finite cb usecb (Z.to_nat maxiter) (d_itnum _ _ _ d) (d_w _ _ _ d) = Some kb ->
    let '(d', raised) := solve T tzero tadd tsub S U step finite user cb clk true usecb maxiter d in
    raised = true /\ d_itnum _ _ _ d' = kb /\ d_itnum _ _ _ d <= kb < d_itnum _ _ _ d + maxiter /\
    map (notime T U) (d_rows _ _ _ d') =
      map (notime T U) (d_rows _ _ _ d) ++
      exp_rows S U step user cb usecb (Z.to_nat (kb - d_itnum _ _ _ d)) (d_itnum _ _ _ d) (d_w _ _ _ d).
Proof. exact solve_nanstop. Qed.
Print Assumptions C15_nanstop.

Theorem C15_first_bad_is_first :
  forall (S : Type) (step : S -> S) (finite : S -> bool) (cb : Z -> S -> S) usecb m k w kb,
    first_bad S step finite cb usecb m k w = Some kb ->
    exists j : nat, kb = k + Z.of_nat j /\ (j < m)%nat /\
      finite (step (wstate S step cb usecb j k w)) = false /\
      forall i, (i < j)%nat -> finite (step (wstate S step cb usecb i k w)) = true.
Proof. exact first_bad_spec. Qed.
Print Assumptions C15_first_bad_is_first.

(** Timer: for every sequence of start/stop/reset/elapsed/labels calls over any labels and
    every clock (times in any abelian group), the class reports what the ideal stopwatch
    (sum of the closed running intervals since the last reset, plus the open one) reports. *)
Theorem C15_timer_refines_ideal_stopwatch :
  forall (T : Type) (tzero : T) (tadd tsub : T -> T -> T) (dflt allb : label)
         (h : list (op * T)),
    snd (crun T tzero tadd tsub dflt allb [] h) = snd (irun T tzero tadd tsub dflt allb [] h).
Proof. exact timer_fresh_refines. Qed.
Print Assumptions C15_timer_refines_ideal_stopwatch.

(** non-vacuity: a concrete history meets the hypotheses and produces non-trivial output *)
Example C15_timer_example :
  map out_code (snd (qcrun [] [(Start SelNone, q 1 1); (Elapsed None true, q 3 1);
                               (Stop SelNone, q 4 1); (Start SelNone, q 6 1);
                               (Elapsed None true, q 13 2)]))
  = [(0, 0%Q, []); (2, 2%Q, []); (0, 0%Q, []); (0, 0%Q, []); (2, (7 # 2)%Q, [])].
Proof. vm_compute. reflexivity. Qed.

(** ** Tie to the source.  The left-hand sides (modules SVGen.C15_Solve, C15_Fin..., C15_Itstat)
    are regenerated from scico/optimize/_common.py and the optimiser classes by tools/py2coq.py
    on every run; the right-hand sides are the hand models the theorems above are about.  A
    change of the source that changes the computation breaks these obligations. *)
From Coq Require Import String.
From SV Require Import Base.Num C11.Overload Opt.GenSig Opt.Gen.
From SVGen Require C15_Timer C15_Solve C15_FinAdmm C15_FinLadmm C15_FinPadmm C15_FinNlpadmm C15_FinPdhg C15_FinPgm C15_FinApgm C15_Itstat.

(** Optimizer.solve (timer start/stop, the `for self.itnum in range(...)` loop as recursion on
    maxiter, step, NaN stop = (state at the raise, raised), statistics insertion, callback
    between timer.stop and timer.start, the guarded final increment, minimizer()), read at the
    driver state, IS Driver's [solve]: without and with a callback, for every state, budget,
    nanstop flag, step / finiteness / accessor / callback functions and clock. *)
Theorem C15_gen_solve :
  forall (T : Type) (tzero : T) (tadd tsub : T -> T -> T) (S U : Type) (step : S -> S)
         (finite : S -> bool) (user : S -> U) (cb : Z -> S -> S) (clk : nat -> T)
         (nanstop : bool) (maxiter : Z) (V : Type) (minimizer : S -> V) (d : dst T S U),
    C15_Solve.solve_gen__none
      (OS := DriverSig T tzero tadd tsub S U step finite user cb clk nanstop maxiter V minimizer) d
    = with_value T S U V minimizer (solve T tzero tadd tsub S U step finite user cb clk nanstop false maxiter d) /\
    C15_Solve.solve_gen__callback
      (OS := DriverSig T tzero tadd tsub S U step finite user cb clk nanstop maxiter V minimizer) d tt
    = with_value T S U V minimizer (solve T tzero tadd tsub S U step finite user cb clk nanstop true maxiter d).
Proof. intros. split; [apply solve_gen_none_is_model | apply solve_gen_callback_is_model]. Qed.
Print Assumptions C15_gen_solve.

(** _working_vars_finite of each optimiser class, over working variables given as blocks of
    entry codes: true iff every entry of every block of every variable the class lists is finite
    ([vars_finite]); the list on the right is the list of attributes the code inspects. *)
Theorem C15_gen_finite_ADMM : forall x zl ul,
  C15_FinAdmm.finite_gen (FS := CodeSig) (C15_FinAdmm.mk_st x zl ul) = vars_finite (x :: zl ++ ul).
Proof. exact finite_admm. Qed.
Print Assumptions C15_gen_finite_ADMM.
Theorem C15_gen_finite_LinearizedADMM : forall x z u,
  C15_FinLadmm.finite_gen (FS := CodeSig) (C15_FinLadmm.mk_st x z u) = vars_finite [x; z; u].
Proof. exact finite_ladmm. Qed.
Print Assumptions C15_gen_finite_LinearizedADMM.
Theorem C15_gen_finite_ProximalADMM : forall x z u,
  C15_FinPadmm.finite_gen (FS := CodeSig) (C15_FinPadmm.mk_st x z u) = vars_finite [x; z; u].
Proof. exact finite_padmm. Qed.
Print Assumptions C15_gen_finite_ProximalADMM.
Theorem C15_gen_finite_NonLinearPADMM : forall x z u,
  C15_FinNlpadmm.finite_gen (FS := CodeSig) (C15_FinNlpadmm.mk_st x z u) = vars_finite [x; z; u].
Proof. exact finite_nlpadmm. Qed.
Print Assumptions C15_gen_finite_NonLinearPADMM.
Theorem C15_gen_finite_PDHG : forall x z,
  C15_FinPdhg.finite_gen (FS := CodeSig) (C15_FinPdhg.mk_st x z) = vars_finite [x; z].
Proof. exact finite_pdhg. Qed.
Print Assumptions C15_gen_finite_PDHG.
Theorem C15_gen_finite_PGM : forall x,
  C15_FinPgm.finite_gen (FS := CodeSig) (C15_FinPgm.mk_st x) = vars_finite [x].
Proof. exact finite_pgm. Qed.
Print Assumptions C15_gen_finite_PGM.
Theorem C15_gen_finite_AcceleratedPGM : forall x v,
  C15_FinApgm.finite_gen (FS := CodeSig) (C15_FinApgm.mk_st x v) = vars_finite [x; v].
Proof. exact finite_apgm. Qed.
Print Assumptions C15_gen_finite_AcceleratedPGM.

(** itstat_func_and_object (the option merge), read at association-list dictionaries: it is the
    model [itstat_model]; the caller's dict is returned unchanged; the insertion function is the
    user's when the user's dict has one, else the default. *)
Theorem C15_gen_itstat_options :
  forall (Val Obj : Type) (vb : bool -> Val) (mkobj : dict Val -> Obj) (dflt_func fields : Val) (opts : option (dict Val)),
    let r := C15_Itstat.itstat_func_and_object_gen (DS := ListDict Val Obj vb mkobj) dflt_func fields opts in
    r = itstat_model Val Obj vb mkobj dflt_func fields opts /\
    snd r = opts /\
    fst (fst r) = match opts with
                  | Some u => match dget Val (rev u) "itstat_func" with Some f => Some f | None => Some dflt_func end
                  | None => Some dflt_func
                  end.
Proof.
  intros. split; [apply itstat_gen_is_model | split; [apply itstat_caller_dict_unchanged | apply itstat_insert_func_rule]].
Qed.
Print Assumptions C15_gen_itstat_options.

(** scico.util.Timer.start / stop / reset / elapsed, regenerated from scico/util.py (one
    definition per way the label argument is given: None, one label, a list; KeyError = the state
    reached so far with PyRaise), read at association-list dictionaries t0 / td, ARE the step
    function [tstep] of Opt/Timer.v about which the refinement theorem above is proved: for every
    state, clock reading, label argument, default / all label.  [R] maps the model's dictionary of
    (t0, td) pairs to the two dictionaries of the code. *)
Theorem C15_gen_timer_start :
  forall (T : Type) (tzero : T) (tadd tsub : T -> T -> T) (dflt allb : nat) (s : list (label * (option T * T))) (now : T),
    (C15_Timer.start_gen__none (TS := ListTimer T tzero tadd tsub) now (R T dflt allb s)
       = (R T dflt allb (fst (tstep T tzero dflt allb (option T * T) (c_init T tzero) (c_start T) (c_stop T tadd tsub) (c_elapsed T tzero tadd tsub) s (Start SelNone) now)), conv T (snd (tstep T tzero dflt allb (option T * T) (c_init T tzero) (c_start T) (c_stop T tadd tsub) (c_elapsed T tzero tadd tsub) s (Start SelNone) now)))) /\
    (forall l : nat, C15_Timer.start_gen__one (TS := ListTimer T tzero tadd tsub) now (R T dflt allb s) l
       = (R T dflt allb (fst (tstep T tzero dflt allb (option T * T) (c_init T tzero) (c_start T) (c_stop T tadd tsub) (c_elapsed T tzero tadd tsub) s (Start (SelOne l)) now)), conv T (snd (tstep T tzero dflt allb (option T * T) (c_init T tzero) (c_start T) (c_stop T tadd tsub) (c_elapsed T tzero tadd tsub) s (Start (SelOne l)) now)))) /\
    (forall ls : list nat, C15_Timer.start_gen__list (TS := ListTimer T tzero tadd tsub) now (R T dflt allb s) ls
       = (R T dflt allb (fst (tstep T tzero dflt allb (option T * T) (c_init T tzero) (c_start T) (c_stop T tadd tsub) (c_elapsed T tzero tadd tsub) s (Start (SelList ls)) now)), conv T (snd (tstep T tzero dflt allb (option T * T) (c_init T tzero) (c_start T) (c_stop T tadd tsub) (c_elapsed T tzero tadd tsub) s (Start (SelList ls)) now)))).
Proof. intros. apply timer_start_gen_is_model. Qed.
Print Assumptions C15_gen_timer_start.

Theorem C15_gen_timer_stop :
  forall (T : Type) (tzero : T) (tadd tsub : T -> T -> T) (dflt allb : nat) (s : list (label * (option T * T))) (now : T),
    (C15_Timer.stop_gen__none (TS := ListTimer T tzero tadd tsub) now (R T dflt allb s)
       = (R T dflt allb (fst (tstep T tzero dflt allb (option T * T) (c_init T tzero) (c_start T) (c_stop T tadd tsub) (c_elapsed T tzero tadd tsub) s (Stop SelNone) now)), conv T (snd (tstep T tzero dflt allb (option T * T) (c_init T tzero) (c_start T) (c_stop T tadd tsub) (c_elapsed T tzero tadd tsub) s (Stop SelNone) now)))) /\
    (forall l : nat, C15_Timer.stop_gen__one (TS := ListTimer T tzero tadd tsub) now (R T dflt allb s) l
       = (R T dflt allb (fst (tstep T tzero dflt allb (option T * T) (c_init T tzero) (c_start T) (c_stop T tadd tsub) (c_elapsed T tzero tadd tsub) s (Stop (SelOne l)) now)), conv T (snd (tstep T tzero dflt allb (option T * T) (c_init T tzero) (c_start T) (c_stop T tadd tsub) (c_elapsed T tzero tadd tsub) s (Stop (SelOne l)) now)))) /\
    (forall ls : list nat, C15_Timer.stop_gen__list (TS := ListTimer T tzero tadd tsub) now (R T dflt allb s) ls
       = (R T dflt allb (fst (tstep T tzero dflt allb (option T * T) (c_init T tzero) (c_start T) (c_stop T tadd tsub) (c_elapsed T tzero tadd tsub) s (Stop (SelList ls)) now)), conv T (snd (tstep T tzero dflt allb (option T * T) (c_init T tzero) (c_start T) (c_stop T tadd tsub) (c_elapsed T tzero tadd tsub) s (Stop (SelList ls)) now)))).
Proof. intros. apply timer_stop_gen_is_model. Qed.
Print Assumptions C15_gen_timer_stop.

Theorem C15_gen_timer_reset :
  forall (T : Type) (tzero : T) (tadd tsub : T -> T -> T) (dflt allb : nat) (s : list (label * (option T * T))) (now : T),
    (C15_Timer.reset_gen__none (TS := ListTimer T tzero tadd tsub) now (R T dflt allb s)
       = (R T dflt allb (fst (tstep T tzero dflt allb (option T * T) (c_init T tzero) (c_start T) (c_stop T tadd tsub) (c_elapsed T tzero tadd tsub) s (Reset SelNone) now)), conv T (snd (tstep T tzero dflt allb (option T * T) (c_init T tzero) (c_start T) (c_stop T tadd tsub) (c_elapsed T tzero tadd tsub) s (Reset SelNone) now)))) /\
    (forall l : nat, C15_Timer.reset_gen__one (TS := ListTimer T tzero tadd tsub) now (R T dflt allb s) l
       = (R T dflt allb (fst (tstep T tzero dflt allb (option T * T) (c_init T tzero) (c_start T) (c_stop T tadd tsub) (c_elapsed T tzero tadd tsub) s (Reset (SelOne l)) now)), conv T (snd (tstep T tzero dflt allb (option T * T) (c_init T tzero) (c_start T) (c_stop T tadd tsub) (c_elapsed T tzero tadd tsub) s (Reset (SelOne l)) now)))) /\
    (forall ls : list nat, C15_Timer.reset_gen__list (TS := ListTimer T tzero tadd tsub) now (R T dflt allb s) ls
       = (R T dflt allb (fst (tstep T tzero dflt allb (option T * T) (c_init T tzero) (c_start T) (c_stop T tadd tsub) (c_elapsed T tzero tadd tsub) s (Reset (SelList ls)) now)), conv T (snd (tstep T tzero dflt allb (option T * T) (c_init T tzero) (c_start T) (c_stop T tadd tsub) (c_elapsed T tzero tadd tsub) s (Reset (SelList ls)) now)))).
Proof. intros. apply timer_reset_gen_is_model. Qed.
Print Assumptions C15_gen_timer_reset.

Theorem C15_gen_timer_elapsed :
  forall (T : Type) (tzero : T) (tadd tsub : T -> T -> T) (dflt allb : nat) (s : list (label * (option T * T))) (now : T) (total : bool),
    (C15_Timer.elapsed_gen__none (TS := ListTimer T tzero tadd tsub) now (R T dflt allb s) total
       = (R T dflt allb (fst (tstep T tzero dflt allb (option T * T) (c_init T tzero) (c_start T) (c_stop T tadd tsub) (c_elapsed T tzero tadd tsub) s (Elapsed None total) now)), conv T (snd (tstep T tzero dflt allb (option T * T) (c_init T tzero) (c_start T) (c_stop T tadd tsub) (c_elapsed T tzero tadd tsub) s (Elapsed None total) now)))) /\
    (forall l : nat, C15_Timer.elapsed_gen__label (TS := ListTimer T tzero tadd tsub) now (R T dflt allb s) l total
       = (R T dflt allb (fst (tstep T tzero dflt allb (option T * T) (c_init T tzero) (c_start T) (c_stop T tadd tsub) (c_elapsed T tzero tadd tsub) s (Elapsed (Some l) total) now)), conv T (snd (tstep T tzero dflt allb (option T * T) (c_init T tzero) (c_start T) (c_stop T tadd tsub) (c_elapsed T tzero tadd tsub) s (Elapsed (Some l) total) now)))).
Proof. intros. apply timer_elapsed_gen_is_model. Qed.
Print Assumptions C15_gen_timer_elapsed.
