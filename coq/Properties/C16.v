(** C16 -- PGM step-size policies return the documented, usable step sizes.
    Only statements; each closed by [exact] of a lemma of coq/theories/C16.
    Models: C16/XR.v (IEEE extended scalar), C16/StepSize.v (the four [update] methods and the
    point PGM / AcceleratedPGM hand to them).  Defect of the unchanged tree (line-search exhaustion): Findings/C16_linesearch_exhaust.v. *)
From Coq Require Import Bool Arith Reals Lra List.
Import ListNotations.
From SV Require Import Base.Num C16.XR C16.StepSize C16.StepSizeR C16.QuadGen.
From SVGen Require Import C16_fquad.
Local Open Scope R_scope.

(** ** Barzilai-Borwein *)

(** For all finite inner products with a non-zero denominator: the policy returns the
    documented ratio <dg,dg>/<dx,dg> when it is positive and the previous L otherwise. *)
Theorem C16_bb_ratio_or_previous :
  forall (pgmL : xr R) (gg xg : R), xg <> 0 ->
    bb_update pgmL false (Fin gg) (Fin xg) = if Rlt_dec 0 (gg / xg) then Fin (gg / xg) else pgmL.
Proof. exact bb_ratio. Qed.
Print Assumptions C16_bb_ratio_or_previous.

(** For all extended inputs (nan, +-inf, signed zeros): fall back to the previous L iff the
    IEEE quotient is not finite or <= 0. *)
Theorem C16_bb_fallback_iff :
  forall (pgmL gg xg : xr R),
    let r := xdiv gg xg in
    bb_update pgmL false gg xg = if negb (xisfinite r) || xle0 r then pgmL else r.
Proof. exact bb_fallback_iff. Qed.
Print Assumptions C16_bb_fallback_iff.

Theorem C16_bb_first_call :
  forall (pgmL gg xg : xr R), bb_update pgmL true gg xg = pgmL.
Proof. exact bb_first. Qed.
Print Assumptions C16_bb_first_call.

(** zero denominator (+0 or -0): 0/0 = nan and num/0 = +-inf all fall back *)
Theorem C16_bb_zero_denominator :
  forall (pgmL : xr R) (gg : R) (z : xr R),
    z = Fin 0 \/ z = NZ -> bb_update pgmL false (Fin gg) z = pgmL.
Proof. exact bb_zero_den. Qed.
Print Assumptions C16_bb_zero_denominator.

Theorem C16_bb_nonfinite_falls_back :
  forall (pgmL gg xg : xr R), xisfinite (xdiv gg xg) = false -> bb_update pgmL false gg xg = pgmL.
Proof. exact bb_nonfinite_falls_back. Qed.
Print Assumptions C16_bb_nonfinite_falls_back.

(** FULL statement: for all extended inputs the returned L is finite and > 0 whenever pgm.L is. *)
Theorem C16_bb_posfin :
  forall (pgmL gg xg : xr R) first,
    xposfin pgmL = true -> xposfin (bb_update pgmL first gg xg) = true.
Proof. exact bb_posfin. Qed.
Print Assumptions C16_bb_posfin.

(** ... hence along every run (every sequence of points, every value of the inner products) *)
Theorem C16_bb_run_posfin :
  forall P (ipxg ipgg : P -> P -> xr R) vs pgmL mem,
    xposfin pgmL = true -> List.Forall (fun L => xposfin L = true) (bb_run P ipxg ipgg pgmL mem vs).
Proof. exact bb_run_posfin. Qed.
Print Assumptions C16_bb_run_posfin.

(** the stored previous point: after ANY update (first call, accepted ratio, fall-back) it is the
    current argument, so every ratio is formed from the differences between the current argument
    and the immediately preceding one *)
Theorem C16_bb_memory_is_current :
  forall (K : Type) (NK : Num K) P (ipxg ipgg : P -> P -> xr K) pgmL mem cur,
    snd (bb_step P ipxg ipgg pgmL mem cur) = Some cur.
Proof. intros K NK. exact (@bb_step_memory K NK). Qed.
Print Assumptions C16_bb_memory_is_current.

Theorem C16_bb_consecutive_differences :
  forall (K : Type) (NK : Num K) P (ipxg ipgg : P -> P -> xr K) pgmL mem u v r,
    bb_run P ipxg ipgg pgmL mem (u :: v :: r) =
    let L0 := fst (bb_step P ipxg ipgg pgmL mem u) in
    let L1 := bb_update L0 false (ipgg u v) (ipxg u v) in
    L0 :: L1 :: bb_run P ipxg ipgg L1 (Some v) r.
Proof. intros K NK. exact (@bb_run_consecutive K NK). Qed.
Print Assumptions C16_bb_consecutive_differences.

(** ** Adaptive Barzilai-Borwein *)

(** individual fall-backs of Lbb1 = <dx,dg>/<dx,dx> and Lbb2 = <dg,dg>/<dx,dg> to the stored
    values, selection by Lbb1/Lbb2 < kappa, pgm.L when an estimate is missing; new memory *)
Theorem C16_abb_structure :
  forall kappa (pgmL : xr R) m xx xg gg,
    let r1 := xdiv xg xx in let r2 := xdiv gg xg in
    let L1 := if negb (xisfinite r1) || xle0 r1 then fst m else Some r1 in
    let L2 := if negb (xisfinite r2) || xle0 r2 then snd m else Some r2 in
    abb_update kappa pgmL false m xx xg gg =
    (match L1, L2 with
     | Some a, Some b => if xltk (xdiv a b) kappa then b else a
     | _, _ => pgmL end, (L1, L2)).
Proof. exact abb_structure. Qed.
Print Assumptions C16_abb_structure.

Theorem C16_abb_documented_ratios :
  forall kappa (pgmL : xr R) m (xx xg gg : R),
    xx <> 0 -> xg <> 0 -> 0 < xg / xx -> 0 < gg / xg ->
    abb_update kappa pgmL false m (Fin xx) (Fin xg) (Fin gg) =
    (if Rlt_dec ((xg / xx) / (gg / xg)) kappa then Fin (gg / xg) else Fin (xg / xx),
     (Some (Fin (xg / xx)), Some (Fin (gg / xg)))).
Proof. exact abb_ratios. Qed.
Print Assumptions C16_abb_documented_ratios.

Theorem C16_abb_missing_estimate :
  forall kappa (pgmL : xr R) m xx xg gg,
    (fst m = None /\ bb_reject (xdiv xg xx) = true) \/ (snd m = None /\ bb_reject (xdiv gg xg) = true) ->
    fst (abb_update kappa pgmL false m xx xg gg) = pgmL.
Proof. exact abb_missing. Qed.
Print Assumptions C16_abb_missing_estimate.

(** FULL statement, for every history (invariant of the memory) and all extended inputs *)
Theorem C16_abb_posfin :
  forall kappa (pgmL : xr R) first m xx xg gg,
    xposfin pgmL = true -> mem_ok m ->
    let '(L, m') := abb_update kappa pgmL first m xx xg gg in
    xposfin L = true /\ mem_ok m'.
Proof. exact abb_posfin. Qed.
Print Assumptions C16_abb_posfin.

Theorem C16_abb_memory_is_current :
  forall (K : Type) (NK : Num K) P (ipxx ipxg ipgg : P -> P -> xr K) kappa pgmL mem m cur,
    fst (snd (abb_step P ipxx ipxg ipgg kappa pgmL mem m cur)) = Some cur.
Proof. intros K NK. exact (@abb_step_memory K NK). Qed.
Print Assumptions C16_abb_memory_is_current.

Theorem C16_abb_consecutive_differences :
  forall (K : Type) (NK : Num K) P (ipxx ipxg ipgg : P -> P -> xr K) kappa pgmL mem m u v r,
    abb_run P ipxx ipxg ipgg kappa pgmL mem m (u :: v :: r) =
    let '(L0, (_, m0)) := abb_step P ipxx ipxg ipgg kappa pgmL mem m u in
    let '(L1, m1) := abb_update kappa L0 false m0 (ipxx u v) (ipxg u v) (ipgg u v) in
    L0 :: L1 :: abb_run P ipxx ipxg ipgg kappa L1 (Some v) m1 r.
Proof. intros K NK. exact (@abb_run_consecutive K NK). Qed.
Print Assumptions C16_abb_consecutive_differences.

(** ** Line search (f(z_L) and the quadratic model are arbitrary functions of L) *)

(** Returns the first L_j = L gamma_u^j, j < maxiter, whose candidate passes
    f(z_j) <= fquad_{L_j}(z_j), after evaluating exactly j+1 candidates. *)
Theorem C16_ls_first_accepted :
  forall (fz fq : R -> R) gu maxiter L j,
    let acc := fun L => R_leb (fz L) (fq L) in
    (j < maxiter)%nat -> acc (geo L gu j) = true ->
    (forall i, (i < j)%nat -> acc (geo L gu i) = false) ->
    ls_update fz fq gu maxiter L = (geo L gu j, S j, true).
Proof. intros fz fq gu maxiter L j. exact (ls_first_accepted _ gu maxiter L j). Qed.
Print Assumptions C16_ls_first_accepted.

(** Complete characterisation of the loop for any acceptance predicate and scalar type. *)
Theorem C16_ls_loop_spec :
  forall (K : Type) (NK : Num K) (acc : K -> bool) gu n L it L' it' b,
    ls_loop acc gu n L it = (L', it', b) ->
    if b then exists j, (j < n)%nat /\ L' = geo L gu j /\ acc L' = true /\
                        (forall i, (i < j)%nat -> acc (geo L gu i) = false) /\ it' = (it + j + 1)%nat
    else (forall i, (i < n)%nat -> acc (geo L gu i) = false) /\ L' = geo L gu n /\ it' = (it + n)%nat.
Proof. intros K NK. exact (@ls_loop_spec K NK). Qed.
Print Assumptions C16_ls_loop_spec.

(** AS THE CODE BEHAVES (the property asks for the last value tried, geo L gu n; refuted by
    SVFind.C16_linesearch_exhaust.ls_exhaustion_refuted): budget exhausted => gamma_u times the
    last value for which a candidate was evaluated. *)
Theorem C16_ls_exhausted_returns_gu_times_last_tried :
  forall (K : Type) (NK : Num K) (acc : K -> bool) gu n L,
    (forall i, (i < S n)%nat -> acc (geo L gu i) = false) ->
    fst (fst (ls_loop acc gu (S n) L 0)) = kmul (geo L gu n) gu.
Proof. intros K NK. exact (@ls_exhausted_is_gu_times_last_tried K NK). Qed.
Print Assumptions C16_ls_exhausted_returns_gu_times_last_tried.

Theorem C16_geometric_sequence :
  forall (L gu : R) j, geo L gu j = L * gu ^ j.
Proof. exact geo_pow. Qed.
Print Assumptions C16_geometric_sequence.

(** every L returned by the line search is > 0 (and finite) when pgm.L and gamma_u are *)
Theorem C16_ls_positive :
  forall (acc : R -> bool) gu n L it,
    0 < L -> 0 < gu -> 0 < fst (fst (ls_loop acc gu n L it)).
Proof. exact ls_positive. Qed.
Print Assumptions C16_ls_positive.

(** the quadratic model the searches test against: the definition regenerated from
    PGM.f_quad_approx on every run is the documented f(y) + Re<grad f(y), x-y> + L/2 ||x-y||^2,
    the norm being the Euclidean norm of the flattened array (all entries of an image-shaped iterate) *)
Theorem C16_fquad_generated_is_documented :
  forall (K : Type) (NK : Num K) (V : Type) (vsub : V -> V -> V) (fval : V -> K) (fgrad : V -> V)
         (re_ip : V -> V -> K) (norm2 : V -> K) x y L,
    f_quad_approx_gen V vsub fval fgrad re_ip norm2 x y L =
    kadd (kadd (fval y) (re_ip (fgrad y) (vsub x y)))
         (kmul (kmul khalf L) (kmul (norm2 (vsub x y)) (norm2 (vsub x y)))).
Proof. intros K NK V vsub fval fgrad re_ip norm2. exact (fquad_gen_is_documented V vsub fval fgrad re_ip norm2). Qed.
Print Assumptions C16_fquad_generated_is_documented.

(** ** Robust line search (arbitrary vector type, x_step, f, f_quad_approx, sqrt) *)

(** accepted within the budget: L is the first accepted value of the sequence started at
    gamma_d L; T = Tk + t(L); Zrb += t L (z - y); and the Z handed back is x_step(y(L), L) *)
Theorem C16_rl_accepted :
  forall (K : Type) (NK : Num K) (V : Type) (vadd vsub : V -> V -> V) (vscale : K -> V -> V)
         (xstep : V -> K -> V) (f : V -> K) (fquad : V -> V -> K -> K) (ksqrt : K -> K)
         (gd gu : K) (x Zrb : V) (Tk : K) maxiter pgmL j,
    let acc := rl_acc V vadd vscale xstep f fquad ksqrt x Zrb Tk in
    let t := rl_t ksqrt Tk in
    let y := rl_y V vadd vscale ksqrt x Zrb Tk in
    (j < maxiter)%nat -> acc (geo (kmul pgmL gd) gu j) = true ->
    (forall i, (i < j)%nat -> acc (geo (kmul pgmL gd) gu i) = false) ->
    let L := geo (kmul pgmL gd) gu j in
    rl_update V vadd vsub vscale xstep f fquad ksqrt gd gu x Zrb Tk maxiter pgmL =
    Some (mk_rl V L (S j) true (kadd Tk (t L))
                (vadd Zrb (vscale (kmul (t L) L) (vsub (xstep (y L) L) (y L))))
                (xstep (y L) L)).
Proof.
  intros K NK V vadd vsub vscale xstep f fquad ksqrt gd gu x Zrb Tk maxiter pgmL j.
  exact (@rl_update_accepted K NK V vadd vsub vscale xstep f fquad ksqrt gd gu x Zrb Tk maxiter pgmL j).
Qed.
Print Assumptions C16_rl_accepted.

(** AS THE CODE BEHAVES (the property asks for Z = x_step(y(L), L) at the returned L; refuted by
    SVFind.C16_linesearch_exhaust.rl_candidate_refuted): budget exhausted => the returned L is
    gamma_u Lt while Tk and Z are those of Lt, the last value tried. *)
Theorem C16_rl_exhausted :
  forall (K : Type) (NK : Num K) (V : Type) (vadd vsub : V -> V -> V) (vscale : K -> V -> V)
         (xstep : V -> K -> V) (f : V -> K) (fquad : V -> V -> K -> K) (ksqrt : K -> K)
         (gd gu : K) (x Zrb : V) (Tk : K) m pgmL,
    let acc := rl_acc V vadd vscale xstep f fquad ksqrt x Zrb Tk in
    let t := rl_t ksqrt Tk in
    let y := rl_y V vadd vscale ksqrt x Zrb Tk in
    (forall i, (i < S m)%nat -> acc (geo (kmul pgmL gd) gu i) = false) ->
    let Lt := geo (kmul pgmL gd) gu m in
    rl_update V vadd vsub vscale xstep f fquad ksqrt gd gu x Zrb Tk (S m) pgmL =
    Some (mk_rl V (kmul Lt gu) (S m) false (kadd Tk (t Lt))
                (vadd Zrb (vscale (kmul (t Lt) (kmul Lt gu)) (vsub (xstep (y Lt) Lt) (y Lt))))
                (xstep (y Lt) Lt)).
Proof.
  intros K NK V vadd vsub vscale xstep f fquad ksqrt gd gu x Zrb Tk m pgmL.
  exact (@rl_update_exhausted K NK V vadd vsub vscale xstep f fquad ksqrt gd gu x Zrb Tk m pgmL).
Qed.
Print Assumptions C16_rl_exhausted.

Theorem C16_rl_positive :
  forall V vadd vsub vscale xstep f fquad ksqrt gd gu x Zrb Tk maxiter pgmL o,
    0 < pgmL -> 0 < gd -> 0 < gu ->
    rl_update (K:=R) V vadd vsub vscale xstep f fquad ksqrt gd gu x Zrb Tk maxiter pgmL = Some o ->
    0 < rl_L V o.
Proof. exact rl_positive. Qed.
Print Assumptions C16_rl_positive.

(** the auxiliary sequence: t is the positive root of L t^2 = t + Tk (Florea & Vorobyov) *)
Theorem C16_rl_auxiliary_t :
  forall (L Tk : R), 0 < L -> 0 <= Tk ->
    let t := rl_t (K:=R) sqrt Tk L in 0 < t /\ L * t * t = t + Tk.
Proof. exact rl_t_root. Qed.
Print Assumptions C16_rl_auxiliary_t.

(** ** Which point the solvers hand to the policy *)
Theorem C16_apgm_point :
  forall (V : Type) p (x v : V),
    apgm_arg p x v = (if match p with PBB | PABB => true | _ => false end then x else v).
Proof. intros V. exact (@apgm_arg_spec V). Qed.
Print Assumptions C16_apgm_point.

(** non-vacuity *)
Example C16_bb_example :
  bb_update (Fin 1) false (Fin 6) (Fin 2) = (Fin (6 / 2) : xr R).
Proof. rewrite bb_ratio by lra. destruct (Rlt_dec 0 (6 / 2)); [reflexivity|lra]. Qed.

(** ** Tie to the source.  The left-hand sides (modules SVGen.C16_BB, C16_ABB, C16_LS) are
    regenerated from scico/optimize/_pgmaux.py by tools/py2coq.py on every run; the right-hand
    sides are the models the theorems above are about.  A change of the source that changes the
    computation breaks these obligations. *)
From SV Require Import C11.Overload C16.GenSig C16.Gen.
From SVGen Require C16_BB C16_ABB C16_LS.

(** BBStepSize.update: first call / ratio / fall-back / memory update, for every scalar type,
    vector type, gradient oracle, well-formed memory and argument *)
Theorem C16_gen_bb_update :
  forall (K : Type) (NK : Num K) (X : Type) (VX : VecOps (xr K) X) (pgm_f : Func (xr K) X)
         (pgmL : xr K) (mem : option (X * X)) (v : X),
    C16_BB.update_gen pgmL pgm_f (C16_BB.mk_st (option_map fst mem) (option_map snd mem)) v
    = let '(L, m') := bb_step (X * X) (ipxg) (ipgg) pgmL mem (cur pgm_f v) in
      (L, C16_BB.mk_st (option_map fst m') (option_map snd m')).
Proof. exact (@bb_update_gen_is_model). Qed.
Print Assumptions C16_gen_bb_update.

(** AdaptiveBBStepSize.update: both ratios, their fall-backs to the remembered values, the
    kappa rule, the missing-estimate case and all four memory updates *)
Theorem C16_gen_abb_update :
  forall (K : Type) (NK : Num K) (X : Type) (VX : VecOps (xr K) X) (pgm_f : Func (xr K) X)
         (kappa : K) (pgmL : xr K) (mem : option (X * X)) (m : abb_mem) (v : X),
    C16_ABB.update_gen pgmL pgm_f
      (C16_ABB.mk_st kappa (option_map fst mem) (option_map snd mem) (fst m) (snd m)) v
    = let '(L, (mem', m')) := abb_step (X * X) ipxx ipxg ipgg kappa pgmL mem m (cur pgm_f v) in
      (L, C16_ABB.mk_st kappa (option_map fst mem') (option_map snd mem') (fst m') (snd m')).
Proof. exact (@abb_update_gen_is_model). Qed.
Print Assumptions C16_gen_abb_update.

(** LineSearchStepSize.update: the `while it < self.maxiter` loop (fuel = maxiter) returns the L
    of [ls_update], with the candidate / f / quadratic model as the code computes them *)
Theorem C16_gen_ls_update :
  forall (K : Type) (NK : Num K) (X : Type) (VX : VecOps K X)
         (pgm_f pgm_g : Func K X) (fquad : X -> X -> K -> K) (pgmL : K) (s : C16_LS.st K) (v : X),
    C16_LS.update_gen pgmL pgm_f pgm_g fquad s v
    = fst (fst (ls_update (ls_fz pgm_f pgm_g s v) (ls_fq pgm_f pgm_g fquad s v)
                          (C16_LS.ls_gamma_u s) (C16_LS.ls_maxiter s) pgmL)).
Proof. exact (@ls_update_gen_is_model). Qed.
Print Assumptions C16_gen_ls_update.
