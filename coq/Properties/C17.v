(** C17 -- norm estimates and parameter estimators satisfy their documented inequalities.
    Only statements; each closed by [exact] of a lemma of coq/theories/C17.
    (Remaining defects of the unchanged tree concern Diagonal.norm: known_findings.d/C17.json.) *)
From Coq Require Import Reals Lra List Arith.
From SV Require Import Base.Num Base.InnerSpace C17.Rayleigh C17.Estimators C17.DiagNorm.
Import ListNotations.
Local Open Scope R_scope.

(** ** operator_norm / power_iteration *)

(** For every pair of inner-product spaces, every A with adjoint A^H and ||A x|| <= c ||x||,
    and every v <> 0: the Rayleigh quotient of A^H A is at most c^2. *)
Theorem C17_rayleigh_quotient_le_norm_sq :
  forall (S1 S2 : InnerSpace) (A : @E S1 -> @E S2) (AH : @E S2 -> @E S1),
    IsAdj A AH -> forall c, 0 <= c -> (forall x, norm (A x) <= c * norm x) ->
    forall v, v <> vzero -> rq (fun x => AH (A x)) v <= c * c.
Proof. intros S1 S2 A AH adj c Hc Hb. exact (gram_rq_le A AH adj c Hb). Qed.
Print Assumptions C17_rayleigh_quotient_le_norm_sq.

(** ... so the value operator_norm returns (sqrt of what the power-iteration loop returns for
    A^H A, with its early exit) never exceeds ||A||, for every budget and start vector. *)
Theorem C17_operator_norm_never_exceeds :
  forall (S1 S2 : InnerSpace) (A : @E S1 -> @E S2) (AH : @E S2 -> @E S1),
    IsAdj A AH -> forall c, 0 <= c -> (forall x, norm (A x) <= c * norm x) ->
    forall n v, v <> vzero -> sqrt (fst (pi_loop (fun x => AH (A x)) (S n) v 0)) <= c.
Proof. intros S1 S2 A AH adj c Hc Hb. exact (operator_norm_le A AH adj c Hc Hb). Qed.
Print Assumptions C17_operator_norm_never_exceeds.

(** any bounded operator: Rayleigh quotient <= bound (Cauchy-Schwarz) *)
Theorem C17_rayleigh_le_bound :
  forall (SP : InnerSpace) (B : E -> E) M, 0 <= M -> (forall x, norm (B x) <= M * norm x) ->
    forall v, v <> vzero -> rq B v <= M.
Proof. intros SP. exact (@rq_le_bound SP). Qed.
Print Assumptions C17_rayleigh_le_bound.

Theorem C17_cauchy_schwarz :
  forall (SP : InnerSpace) (x y : E), ip x y * ip x y <= nsq x * nsq y.
Proof. intros SP. exact (@cauchy_schwarz SP). Qed.
Print Assumptions C17_cauchy_schwarz.

(** along the power iterates of a self-adjoint PSD operator the quotient never decreases:
    a larger budget never gives a smaller estimate (same start vector) *)
Theorem C17_rayleigh_monotone :
  forall (SP : InnerSpace) (B : E -> E), IsLinear B -> (forall x y, ip (B x) y = ip x (B y)) ->
    (forall x, 0 <= ip x (B x)) ->
    forall x j k, (j <= k)%nat -> iter B k x <> vzero -> rq B (iter B j x) <= rq B (iter B k x).
Proof. intros SP. exact (@rq_monotone SP). Qed.
Print Assumptions C17_rayleigh_monotone.

(** the normalisation v/||v|| of the code does not change the quotient *)
Theorem C17_rayleigh_scale_invariant :
  forall (SP : InnerSpace) (B : E -> E), IsLinear B -> forall s x, s <> 0 -> rq B (vscale s x) = rq B x.
Proof. intros SP. exact (@rq_scale SP). Qed.
Print Assumptions C17_rayleigh_scale_invariant.

(** zero operator: the loop exits early with exactly 0 *)
Theorem C17_zero_operator :
  forall (SP : InnerSpace) (B : E -> E) n v mu0, (forall x, B x = vzero) -> pi_loop B (S n) v mu0 = (0, vzero).
Proof. intros SP. exact (@pi_zero_operator SP). Qed.
Print Assumptions C17_zero_operator.

(** the early exit `normAv == 0.0` is taken ONLY when A^H A v is exactly the zero vector ... *)
Theorem C17_early_exit_only_on_kernel :
  forall (S1 S2 : InnerSpace) (A : @E S1 -> @E S2) (AH : @E S2 -> @E S1) n v mu,
    AH (A v) <> vzero ->
    pi_loop (fun x => AH (A x)) (S n) v mu =
    pi_loop (fun x => AH (A x)) n (vscale (/ norm (AH (A v))) (AH (A v))) (rq (fun x => AH (A x)) v).
Proof. intros S1 S2 A AH. exact (pi_no_exit_off_kernel A AH). Qed.
Print Assumptions C17_early_exit_only_on_kernel.

(** ... the estimate is 0 only if some iterate was a non-zero kernel vector ... *)
Theorem C17_estimate_zero_only_on_kernel :
  forall (S1 S2 : InnerSpace) (A : @E S1 -> @E S2) (AH : @E S2 -> @E S1), IsAdj A AH ->
    forall n v mu0, v <> vzero -> fst (pi_loop (fun x => AH (A x)) (S n) v mu0) = 0 ->
    exists w, w <> vzero /\ AH (A w) = vzero.
Proof. intros S1 S2 A AH adj. exact (pi_zero_only_on_kernel A AH adj). Qed.
Print Assumptions C17_estimate_zero_only_on_kernel.

(** ... and it is strictly positive for every operator with trivial kernel, whatever its scale *)
Theorem C17_estimate_positive :
  forall (S1 S2 : InnerSpace) (A : @E S1 -> @E S2) (AH : @E S2 -> @E S1), IsAdj A AH ->
    forall n v mu0, (forall w, AH (A w) = vzero -> w = vzero) -> v <> vzero ->
    0 < fst (pi_loop (fun x => AH (A x)) (S n) v mu0).
Proof. intros S1 S2 A AH adj. exact (pi_positive_trivial_kernel A AH adj). Qed.
Print Assumptions C17_estimate_positive.

(** ** Diagonal.norm / ScaledIdentity.norm *)

(** ord = 2 (induced 2-norm) is max |d_i|: upper bound for every x, attained at a basis vector *)
Theorem C17_diag_two_norm_bound :
  forall d x, length x = length d ->
    d_sumsq (dapply d x) <= d_maxabs d * d_maxabs d * d_sumsq x.
Proof. exact diag_two_norm_bound. Qed.
Print Assumptions C17_diag_two_norm_bound.

Theorem C17_diag_two_norm_attained :
  forall d, d <> [] ->
    exists x, length x = length d /\ d_sumsq x = 1 /\ d_sumsq (dapply d x) = d_maxabs d * d_maxabs d.
Proof. exact diag_two_norm_attained. Qed.
Print Assumptions C17_diag_two_norm_attained.

(** ord = -2 (smallest singular value) is min |d_i| *)
Theorem C17_diag_min_norm_bound :
  forall d x, length x = length d ->
    d_minabs d * d_minabs d * d_sumsq x <= d_sumsq (dapply d x).
Proof. exact diag_min_norm_bound. Qed.
Print Assumptions C17_diag_min_norm_bound.

(** ord = +-inf / +-1: absolute row (= column) sums of the dense matrix are the |d_i| *)
Theorem C17_diag_row_abs_sum :
  forall d i, (i < length d)%nat -> sumn (length d) (fun j => Rabs (dent d i j)) = Rabs (nth i d 0).
Proof. exact diag_row_abs_sum. Qed.
Print Assumptions C17_diag_row_abs_sum.

Theorem C17_diag_symmetric : forall d i j, dent d i j = dent d j i.
Proof. exact diag_symmetric. Qed.
Print Assumptions C17_diag_symmetric.

(** ord = None / 'fro': sum of all squared entries of the dense matrix = sum d_i^2 *)
Theorem C17_diag_frobenius_sq :
  forall d, sumn (length d) (fun i => sumn (length d) (fun j => dent d i j * dent d i j)) = d_sumsq d.
Proof. exact diag_frobenius_sq. Qed.
Print Assumptions C17_diag_frobenius_sq.

(** 'nuc', 2, -2: D = diag(|d|) . (isometry), i.e. the singular values are the |d_i| *)
Theorem C17_diag_singular_values :
  forall d x, length x = length d ->
    dapply d x = dapply (map Rabs d) (dapply (map sgn d) x) /\
    d_sumsq (dapply (map sgn d) x) = d_sumsq x.
Proof. exact diag_svd. Qed.
Print Assumptions C17_diag_singular_values.

(** ScaledIdentity.norm = Diagonal.norm of the constant diagonal, for every ord *)
Theorem C17_scaled_identity_norm :
  forall (o : ord) (s : R) N, sid_norm o s (S N) = diag_norm o (repeat s (S N)).
Proof. exact sid_norm_eq_diag_norm. Qed.
Print Assumptions C17_scaled_identity_norm.

Theorem C17_invalid_ord_raises :
  forall (d : list R) s N, diag_norm OrdOther d = None /\ sid_norm OrdOther s N = None.
Proof. exact invalid_ord_raises. Qed.
Print Assumptions C17_invalid_ord_raises.

(** ** estimate_parameters *)

Theorem C17_padmm_returns :
  forall f a b : R, padmm_est (Some f) a b = (f * (a * a), f * (b * b)) /\ padmm_est None a b = (a * a, b * b).
Proof. intros; split; reflexivity. Qed.
Print Assumptions C17_padmm_returns.

(** mu > est^2 iff factor > 1 (and est <> 0) *)
Theorem C17_padmm_strict_iff :
  forall f e : R, e * e < f * (e * e) <-> (1 < f /\ e <> 0).
Proof. exact padmm_strict_iff. Qed.
Print Assumptions C17_padmm_strict_iff.

(** PDHG: sigma = ratio tau and tau sigma est^2 = 1/factor *)
Theorem C17_pdhg_ratio_and_product :
  forall factor ratio est, 0 < ratio -> 0 < est -> 0 < eff_factor factor ->
    let '(tau, sigma) := pdhg_est sqrt factor ratio est in
    sigma = ratio * tau /\ tau * sigma * (est * est) = / eff_factor factor.
Proof.
  intros factor ratio est Hr He Hf.
  pose proof (pdhg_product factor ratio est Hr He Hf) as P.
  destruct (pdhg_est sqrt factor ratio est) as [tau sigma] eqn:E. split; [|exact P].
  unfold pdhg_est in E. inversion E; subst. reflexivity.
Qed.
Print Assumptions C17_pdhg_ratio_and_product.

(** FULL statement: the documented strict inequality tau sigma ||C||^2 < 1 holds w.r.t. the
    estimate iff factor > 1 ... *)
Theorem C17_pdhg_strict_iff :
  forall factor ratio est, 0 < ratio -> 0 < est -> 0 < eff_factor factor ->
    (fst (pdhg_est sqrt factor ratio est) * snd (pdhg_est sqrt factor ratio est) * (est * est) < 1
     <-> 1 < eff_factor factor).
Proof. exact pdhg_strict_iff. Qed.
Print Assumptions C17_pdhg_strict_iff.

(** ... in particular for the default factor 1.01, for every ratio and estimate *)
Theorem C17_pdhg_default_strict :
  forall ratio est, 0 < ratio -> 0 < est ->
    let '(tau, sigma) := pdhg_est sqrt (Some (101 / 100)) ratio est in tau * sigma * (est * est) < 1.
Proof. exact pdhg_default_strict. Qed.
Print Assumptions C17_pdhg_default_strict.

(** w.r.t. any norm c (the true one): holds iff c^2 < factor est^2 *)
Theorem C17_pdhg_true_norm_iff :
  forall factor ratio est, 0 < ratio -> 0 < est -> 0 < eff_factor factor ->
    forall c,
    (fst (pdhg_est sqrt factor ratio est) * snd (pdhg_est sqrt factor ratio est) * (c * c) < 1
     <-> c * c < eff_factor factor * (est * est)).
Proof. exact pdhg_strict_true_norm_iff. Qed.
Print Assumptions C17_pdhg_true_norm_iff.

(** factor = None: the bare value, product exactly 1 *)
Theorem C17_pdhg_factor_none :
  forall ratio est, 0 < ratio -> 0 < est ->
    let '(tau, sigma) := pdhg_est sqrt None ratio est in tau * sigma * (est * est) = 1.
Proof. exact pdhg_none_product. Qed.
Print Assumptions C17_pdhg_factor_none.

(** non-vacuity: the hypotheses of the Rayleigh theorems are satisfiable (R as a 1-d space
    would need an instance; here: the estimator hypotheses) *)
Example C17_pdhg_example :
  fst (pdhg_est sqrt (Some 2) 1 1) * snd (pdhg_est sqrt (Some 2) 1 1) * (1 * 1) < 1.
Proof. apply (pdhg_strict_iff (Some 2) 1 1); cbn; lra. Qed.

(** the hypotheses of the Rayleigh theorems are satisfiable *)
Example C17_rayleigh_nonvacuous :
  exists (SP : InnerSpace) (B : @E SP -> @E SP) (x : @E SP),
    IsLinear B /\ (forall x y, ip (B x) y = ip x (B y)) /\ (forall x, 0 <= ip x (B x)) /\
    x <> vzero /\ rq B x = 3.
Proof.
  exists R1, (fun x : @E R1 => 3 * x), (1 : @E R1).
  destruct R1_operator_ok as (H1 & H2 & H3 & H4). repeat split; auto; try apply H1.
  all: try (cbn; lra).
Qed.

(** ** Tie to the source.  The left-hand sides (modules SVGen.C17_EstPdhg, C17_EstPadmm,
    C17_EstNlpadmm) are regenerated from scico/optimize/_primaldual.py and _padmm.py by
    tools/py2coq.py on every run; the right-hand sides are the estimator models the theorems
    above are about, applied to the value the operator_norm oracle returns. *)
From SV Require Import C11.Overload C17.Gen.
From SVGen Require C17_EstPdhg C17_EstPadmm C17_EstNlpadmm.

(** PDHG.estimate_parameters (x given or defaulted, factor None or a number, linear or non-linear C) *)
Theorem C17_gen_pdhg_estimate :
  forall (K : Type) (NK : Num K) (SK : Sqrt K) (X : Type) (VX : VecOps K X) (Z : Type) (Key : Type)
         (ON : OpNormOracle (Op X Z) K Key) (JO : JacOracle (Op X Z) X)
         (C : Op X Z) (x : X) (ratio : K) (factor : option K) (maxiter : nat) (key : option Key),
    C17_EstPdhg.estimate_parameters_gen__none C ratio factor maxiter key
      = pdhg_est ksqrt factor ratio (opnorm_ (pdhg_J C None) maxiter key) /\
    C17_EstPdhg.estimate_parameters_gen__x C x ratio factor maxiter key
      = pdhg_est ksqrt factor ratio (opnorm_ (pdhg_J C (Some x)) maxiter key).
Proof. intros. apply pdhg_estimate_gen_is_model. Qed.
Print Assumptions C17_gen_pdhg_estimate.

(** ProximalADMM.estimate_parameters (B given, or the default -I) *)
Theorem C17_gen_padmm_estimate :
  forall (K : Type) (NK : Num K) (X : Type) (Z : Type) (VZ : VecOps K Z) (Key : Type)
         (ONA : OpNormOracle (Op X Z) K Key) (ONB : OpNormOracle (Op Z Z) K Key)
         (A : Op X Z) (B : Op Z Z) (factor : option K) (maxiter : nat) (key : option Key),
    C17_EstPadmm.estimate_parameters_gen__B A B factor maxiter key
      = padmm_est factor (opnorm_ A maxiter key) (opnorm_ B maxiter key) /\
    C17_EstPadmm.estimate_parameters_gen__none A factor maxiter key
      = padmm_est factor (opnorm_ A maxiter key) (opnorm_ (hneg (@op_identity Z)) maxiter key).
Proof. intros. apply padmm_estimate_gen_is_model. Qed.
Print Assumptions C17_gen_padmm_estimate.

(** NonLinearPADMM.estimate_parameters (all four patterns of supplied / defaulted x, z) *)
Theorem C17_gen_nlpadmm_estimate :
  forall (K : Type) (NK : Num K) (X : Type) (VX : VecOps K X) (Z : Type) (VZ : VecOps K Z) (Key : Type)
         (U : Type) (ONA : OpNormOracle (Op X U) K Key) (ONB : OpNormOracle (Op Z U) K Key)
         (J0 : Jac0Oracle (Fun2 X Z U) X Z (Op X U)) (J1 : Jac1Oracle (Fun2 X Z U) X Z (Op Z U))
         (H : Fun2 X Z U) (x : X) (z : Z) (factor : option K) (maxiter : nat) (key : option Key),
    C17_EstNlpadmm.estimate_parameters_gen__none H factor maxiter key = nl_est H None None factor maxiter key /\
    C17_EstNlpadmm.estimate_parameters_gen__x H x factor maxiter key = nl_est H (Some x) None factor maxiter key /\
    C17_EstNlpadmm.estimate_parameters_gen__z H z factor maxiter key = nl_est H None (Some z) factor maxiter key /\
    C17_EstNlpadmm.estimate_parameters_gen__x_z H x z factor maxiter key = nl_est H (Some x) (Some z) factor maxiter key.
Proof. intros. apply nlpadmm_estimate_gen_is_model. Qed.
Print Assumptions C17_gen_nlpadmm_estimate.
