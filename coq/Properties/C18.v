(** C18 -- scipy.optimize wrappers are transparent to shape, dtype and options.
    Only statements; each closed by [exact] of a lemma of coq/theories/C18. *)
From Coq Require Import List Bool Arith String.
From SV Require Import C18.Containers C18.Minimize C18.KwTable C18.KwCheck C18.Exec.
From SVGen Require Import C18_kw.
Import ListNotations.

(** _join_real_imag (_split_real_imag x) = x for every complex array (any shape, any rank) *)
Theorem C18_join_split :
  forall (A : Type) (x : arr (A * A)), wf x -> join (split x) = x.
Proof. exact join_split. Qed.
Print Assumptions C18_join_split.

(** _split_real_imag (_join_real_imag y) = y on real arrays of leading dimension 2 *)
Theorem C18_split_join :
  forall (A : Type) (y : arr A) (s : list nat), ashape y = 2 :: s -> wf y -> split (join y) = y.
Proof. exact split_join. Qed.
Print Assumptions C18_split_join.

(** the same per block for block arrays *)
Theorem C18_block_join_split :
  forall (A : Type) (x : list (arr (A * A))), Forall wf x -> bjoin (bsplit x) = x.
Proof. exact bjoin_bsplit. Qed.
Print Assumptions C18_block_join_split.

Theorem C18_block_split_join :
  forall (A : Type) (y : list (arr A)),
    Forall (fun b => lead2 b /\ wf b) y -> bsplit (bjoin y) = y.
Proof. exact bsplit_bjoin. Qed.
Print Assumptions C18_block_split_join.

(** reshape (ravel x) shape = x, for plain and for nested shapes, and conversely *)
Theorem C18_reshape_ravel :
  forall (E : Type) (c : cont E), cwf c -> creshape (cravel c) (cshape_of c) = c.
Proof. exact creshape_cravel. Qed.
Print Assumptions C18_reshape_ravel.

Theorem C18_ravel_reshape :
  forall (E : Type) (v : list E) (sh : cshape),
    List.length v = csize sh ->
    cravel (creshape v sh) = v /\ cshape_of (creshape v sh) = sh /\ cwf (creshape v sh).
Proof.
  exact (fun E v sh H => conj (cravel_creshape v sh H) (conj (creshape_shape v sh) (creshape_wf v sh H))).
Qed.
Print Assumptions C18_ravel_reshape.

(** For every objective, SciPy (arbitrary function [spmin]), cast, gradient operator, method,
    options and extra args: the function SciPy receives is func o join o reshape o astype,
    its start vector is the ravelled (split) x0, args/method/options are handed over
    unchanged, the result x is rebuilt from SciPy's x and the other fields are SciPy's. *)
Theorem C18_function_handed_to_scipy :
  forall (A V Args Meth Opts Rest : Type) (rnd : prec -> A -> A)
         (spmin : (list A -> Args -> V) -> option (list A -> Args -> list A) ->
                  list A -> Args -> Meth -> Opts -> spres A Rest)
         (uses_grad : Meth -> bool) (grad : (list A -> Args -> V) -> list A -> Args -> list A)
         (func : xval A -> Args -> V) (x0 : xval A) (args : Args) (m : Meth) (o : Opts),
    minimize rnd spmin uses_grad grad func x0 args m o =
      let f := fun v a => func (rebuild rnd (sig_of x0) v) a in
      let r := spmin f (if uses_grad m then Some (grad f) else None) (flat_of x0) args m o in
      (rebuild rnd (sig_of x0) (sp_x r), sp_rest r).
Proof. exact handed_function. Qed.
Print Assumptions C18_function_handed_to_scipy.

(** at SciPy's start vector that function takes the value func x0 *)
Theorem C18_start_value :
  forall (A V Args : Type) (rnd : prec -> A -> A) (func : xval A -> Args -> V) (x0 : xval A) (a : Args),
    xwf x0 -> in_prec rnd x0 ->
    min_func rnd func (sig_of x0) (flat_of x0) a = func x0 a.
Proof. exact start_value. Qed.
Print Assumptions C18_start_value.

(** flat real vectors of the right length <-> containers of x0's signature (bijection) *)
Theorem C18_flatten_bijection :
  forall (A : Type) (rnd : prec -> A -> A),
    (forall (g : xsig) (v : list A), List.length v = nvars g ->
        flat_of (rebuild rnd g v) = map (rnd (snd (fst g))) v /\
        sig_of (rebuild rnd g v) = g /\ xwf (rebuild rnd g v)) /\
    (forall x : xval A, xwf x -> in_prec rnd x -> rebuild rnd (sig_of x) (flat_of x) = x).
Proof.
  exact (fun A rnd => conj (fun g v H => conj (flat_rebuild rnd g v H) (rebuild_sig rnd g v H))
                           (rebuild_flat rnd)).
Qed.
Print Assumptions C18_flatten_bijection.

(** rank 0 (shape ()): all the theorems here quantify over every shape, the empty one
    included; spelled out: a 0-d real start is 1 real variable, a 0-d complex start 2, and the
    value rebuilt from SciPy's length-1 / length-2 vector has shape [] again (not [1]) *)
Theorem C18_rank0 :
  forall (A : Type) (rnd : prec -> A -> A) (p : prec) (a b : A),
    (nvars (false, p, SPlain []) = 1 /\
     rebuild rnd (false, p, SPlain []) [a] = XR p (Plain (mkarr [] [rnd p a])) /\
     flat_of (XR p (Plain (mkarr [] [a]))) = [a] /\
     sig_of (rebuild rnd (false, p, SPlain []) [a]) = (false, p, SPlain [])) /\
    (nvars (true, p, SPlain []) = 2 /\
     rebuild rnd (true, p, SPlain []) [a; b] = XC p (Plain (mkarr [] [(rnd p a, rnd p b)])) /\
     flat_of (XC p (Plain (mkarr [] [(a, b)]))) = [a; b] /\
     sig_of (rebuild rnd (true, p, SPlain []) [a; b]) = (true, p, SPlain [])).
Proof. exact (fun A rnd p a b => conj (rank0_real rnd p a) (rank0_complex rnd p a b)). Qed.
Print Assumptions C18_rank0.

(** the value returned has the container type (plain/block, real/complex), the dtype and
    the (nested) shape of x0 *)
Theorem C18_result_signature :
  forall (A V Args Meth Opts Rest : Type) (rnd : prec -> A -> A)
         (spmin : (list A -> Args -> V) -> option (list A -> Args -> list A) ->
                  list A -> Args -> Meth -> Opts -> spres A Rest)
         (uses_grad : Meth -> bool) (grad : (list A -> Args -> V) -> list A -> Args -> list A)
         (func : xval A -> Args -> V) (x0 : xval A) (args : Args) (m : Meth) (o : Opts),
    sp_keeps_size spmin -> xwf x0 ->
    sig_of (fst (minimize rnd spmin uses_grad grad func x0 args m o)) = sig_of x0 /\
    xwf (fst (minimize rnd spmin uses_grad grad func x0 args m o)).
Proof. exact result_signature. Qed.
Print Assumptions C18_result_signature.

(** if SciPy's x minimises the flattened objective over all real vectors of that length,
    the returned container minimises func over all containers of x0's signature *)
Theorem C18_minimiser_transfer :
  forall (A V Args Meth Opts Rest : Type) (rnd : prec -> A -> A)
         (spmin : (list A -> Args -> V) -> option (list A -> Args -> list A) ->
                  list A -> Args -> Meth -> Opts -> spres A Rest)
         (uses_grad : Meth -> bool) (grad : (list A -> Args -> V) -> list A -> Args -> list A)
         (le : V -> V -> Prop)
         (func : xval A -> Args -> V) (x0 : xval A) (args : Args) (m : Meth) (o : Opts),
    sp_keeps_size spmin -> xwf x0 ->
    let f := min_func rnd func (sig_of x0) in
    let r := spmin f (if uses_grad m then Some (grad f) else None) (flat_of x0) args m o in
    (forall v, List.length v = nvars (sig_of x0) -> le (f (sp_x r) args) (f v args)) ->
    forall y, sig_of y = sig_of x0 -> xwf y -> in_prec rnd y ->
      le (func (fst (minimize rnd spmin uses_grad grad func x0 args m o)) args) (func y args).
Proof. exact minimiser_transfer. Qed.
Print Assumptions C18_minimiser_transfer.

(** Keyword table of the *current* source (coq/gen/C18_kw.v, <= 64 entries, checked by
    vm_compute): every parameter accepted by minimize / minimize_scalar reaches the SciPy
    parameter of the same meaning or is rejected; none is dropped.
    Full statement: without the premise [is_known e = false].  The unchanged tree violates it
    for minimize's hess, hessp, bounds, constraints, tol, callback (known finding). *)
Theorem C18_no_keyword_dropped :
  forall e, In e kw_table -> is_known e = false ->
    kw_disp e <> Dropped /\
    (forall ts, kw_disp e = Forwarded ts -> In (expected_target (kw_name e)) ts).
Proof. exact no_keyword_dropped. Qed.
Print Assumptions C18_no_keyword_dropped.

(** Every forwarded parameter other than the objective and the starting point reaches SciPy
    *unmodified* (bare parameter at the call, never re-bound in the wrapper -- generated list
    [kw_identity]): bracket and bounds tuples keep their arity and entries, tol / options /
    method / args are the caller's objects. *)
Theorem C18_forwarded_values_unmodified :
  forall e ts, In e kw_table -> kw_disp e = Forwarded ts ->
    kw_name e <> "func"%string -> kw_name e <> "x0"%string ->
    In (kw_fun e, kw_name e) kw_identity.
Proof. exact forwarded_values_unmodified. Qed.
Print Assumptions C18_forwarded_values_unmodified.

Theorem C18_keyword_table_complete_and_bounded :
  table_complete kw_table = true /\ (List.length kw_table <= 64)%nat.
Proof. exact (conj kw_table_complete kw_table_bound). Qed.
Print Assumptions C18_keyword_table_complete_and_bounded.

(** non-vacuity: a concrete complex 2x2 array, its split and the round trip *)
Example C18_split_example :
  let x := mkarr [2; 2]%nat [(1, 5); (2, 6); (3, 7); (4, 8)]%nat in
  split x = mkarr [2; 2; 2]%nat [1; 2; 3; 4; 5; 6; 7; 8]%nat /\ join (split x) = x /\ wf x.
Proof. vm_compute. repeat split; reflexivity. Qed.

Example C18_nested_example :
  let x := Block [mkarr [2; 1]%nat [1; 2]%nat; mkarr [3]%nat [3; 4; 5]%nat] in
  cravel x = [1; 2; 3; 4; 5]%nat /\ creshape (cravel x) (cshape_of x) = x.
Proof. vm_compute. split; reflexivity. Qed.
