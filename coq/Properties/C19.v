(** C19 -- results do not depend on execution mode or call history; randomness is explicit.
    Only statements; each closed by [exact] of a lemma of coq/theories/C19/*.v.

    NOT covered by any theorem here (no executable model has two execution modes): agreement
    of eager / jax.jit / constructor-jit / jax.disable_jit evaluation.  That clause is decided
    by correspondence only (vf/props/C19.py). *)
From Coq Require Import List Bool Arith ZArith.
From SV Require Import C19.Cache C19.TVNorm C19.Loss C19.Random C19.Defaults C19.SharedDefault C19.Reattach C19.ParamState.
Import ListNotations.

(** (1) Cache transparency, abstract.  For every object whose calls consult / refresh a keyed
    cache (one entry per slot), if the key determines the built value on the admissible
    arguments and the cache invariant holds initially, then for EVERY history every result is
    the result of that call on a fresh (empty-cache) object. *)
Theorem C19_cache_transparent :
  forall (P A S K V R : Type) (slot : A -> S) (keyof : A -> K)
         (S_eqb : S -> S -> bool) (K_eqb : K -> K -> bool),
    (forall a b, S_eqb a b = true <-> a = b) -> (forall a b, K_eqb a b = true <-> a = b) ->
    forall (buildA : P -> A -> V) (use : P -> V -> A -> R) (ok : A -> Prop) (p : P),
      key_sufficient P A S K V slot keyof buildA ok p ->
      forall h s, Cache.inv P A S K V slot keyof buildA ok p s -> Forall ok h ->
        fst (Cache.run P A S K V R slot keyof S_eqb K_eqb buildA use p h s)
        = map (fresh_result P A V R buildA use p) h.
Proof. exact cache_transparent. Qed.
Print Assumptions C19_cache_transparent.

(** (1a) TV-norm logic with the dtype added to the cache test (proposed fix): every history,
    every constructor declaration: results = results of a fresh object.
    This is the FULL statement the property asks of scico/functional/_tvnorm.py; the code as
    it is (shape-only test) does not satisfy it: TVNorm.tv_shapekey_refuted. *)
Theorem C19_tvnorm_fullkey_transparent :
  forall decl h, tv_results true decl h = map (tv_fresh true decl) h.
Proof. exact tv_fullkey_transparent. Qed.
Print Assumptions C19_tvnorm_fullkey_transparent.

(** (1b) the code as it is, restricted to the region where the property holds: histories in
    which all arrays have one dtype (equal to the declared one, if any) *)
Theorem C19_tvnorm_shapekey_transparent_one_dtype :
  forall d decl h, decl_dt_ok decl d -> Forall (fun a : arg => snd a = d) h ->
    tv_results false decl h = map (tv_fresh false decl) h.
Proof. exact tv_shapekey_transparent_one_dtype. Qed.
Print Assumptions C19_tvnorm_shapekey_transparent_one_dtype.

(** (1c) the code as it is: __call__ never depends on the cache state *)
Theorem C19_tvnorm_call_history_free :
  forall full o sh d, fst (fst (tv_call full (MCall, sh, d) o)) = RVal sh d.
Proof. exact tv_call_method_history_free. Qed.
Print Assumptions C19_tvnorm_call_history_free.

(** (1d) the code as it is: a cached group is rebuilt iff empty or built for another shape *)
Theorem C19_tvnorm_rebuild_iff_shape_changes :
  forall a o, snd (fst (tv_call false a o)) =
    match get_m (a_slot a) o with
    | Some g => negb (shape_eqb (o_shape g) (snd (fst a)))
    | None => true
    end.
Proof. exact tv_rebuild_iff_shape_changes. Qed.
Print Assumptions C19_tvnorm_rebuild_iff_shape_changes.

(** (2) Loss rescaling (copy, re-bind, set_scale on the copy).  For every history of
    rescalings (of any objects) and set_scale calls on other objects, an existing loss, its
    scale, value and gradient closure are unchanged ... *)
Theorem C19_loss_history_keeps_original :
  forall (K X : Type) (kone : K) (kmul kdiv : K -> K -> K) (body : X -> K) (D : (X -> K) -> X -> X),
    (forall f g x, (forall z, f z = g z) -> D f x = D g x) ->
    forall ops h l0 x, Loss.wf K kone h -> l0 < length h -> (forall o, In o ops -> ~ touches K l0 o) ->
      let h' := Loss.run K kone kmul kdiv Real ops h in
      Loss.wf K kone h' /\ obj K kone h' l0 = obj K kone h l0 /\
      call_at K X kone kmul body h' l0 x = call_at K X kone kmul body h l0 x /\
      grad_at K X kone kmul body D h' l0 x = grad_at K X kone kmul body D h l0 x.
Proof. exact history_keeps_original. Qed.
Print Assumptions C19_loss_history_keeps_original.

(** ... and grad (L * c) = c * grad L, the new loss has scale (scale L) * c *)
Theorem C19_loss_grad_of_rescaled :
  forall (K X : Type) (kone : K) (kmul : K -> K -> K) (smul : K -> X -> X) (body : X -> K)
         (D : (X -> K) -> X -> X),
    (forall f g x, (forall z, f z = g z) -> D f x = D g x) ->
    (forall c f x, D (fun z => kmul c (f z)) x = smul c (D f x)) ->
    (forall a b c, kmul a (kmul b c) = kmul (kmul a b) c) -> (forall a b, kmul a b = kmul b a) ->
    forall h l c x, Loss.wf K kone h -> l < length h ->
      let '(h', n) := rescale K kone Real h l (kmul (scale_at K kone h l) c) in
      scale_at K kone h' n = kmul (scale_at K kone h l) c /\
      grad_at K X kone kmul body D h' n x = smul c (grad_at K X kone kmul body D h l x).
Proof. exact grad_of_rescaled. Qed.
Print Assumptions C19_loss_grad_of_rescaled.

(** (3) scico.random wrappers: outputs are a function of (shape, dtype, effective key) only,
    whichever way key / seed were passed (jax.random = pure Section variables) *)
Theorem C19_random_function_of_shape_dtype_key :
  forall (Key Seed Shape Dtype Arr : Type) (prngkey : Seed -> Key) (split0 : Key -> Key)
         (seed0 : Seed) (gen : Key -> Shape -> Dtype -> Arr)
         sh d pk1 ps1 kk1 ks1 pk2 ps2 kk2 ks2 o1 k1 o2 k2,
    fun_alt Key Seed Shape Dtype Arr prngkey split0 seed0 gen sh d pk1 ps1 kk1 ks1 = Ret Key Arr o1 k1 ->
    fun_alt Key Seed Shape Dtype Arr prngkey split0 seed0 gen sh d pk2 ps2 kk2 ks2 = Ret Key Arr o2 k2 ->
    eff_key Key Seed prngkey seed0 (eff pk1 kk1) (eff ps1 ks1)
    = eff_key Key Seed prngkey seed0 (eff pk2 kk2) (eff ps2 ks2) ->
    o1 = o2 /\ k1 = k2.
Proof. exact output_function_of_shape_dtype_key. Qed.
Print Assumptions C19_random_function_of_shape_dtype_key.

(** key and seed together raise; neither => seed 0; a seed acts through PRNGKey(seed);
    the result is fun(key, ...) and the returned key is split(key)[0] *)
Theorem C19_random_key_seed_rules :
  forall (Key Seed Shape Dtype Arr : Type) (prngkey : Seed -> Key) (split0 : Key -> Key)
         (seed0 : Seed) (gen : Key -> Shape -> Dtype -> Arr) sh d k s,
    let F := fun_alt Key Seed Shape Dtype Arr prngkey split0 seed0 gen sh d None None in
    F (Some k) (Some s) = Raise Key Arr /\
    F None None = F None (Some seed0) /\
    F None (Some s) = F (Some (prngkey s)) None /\
    F (Some k) None = Ret Key Arr (sample Key Shape Dtype Arr gen k sh d) (split0 k).
Proof. exact key_seed_rules. Qed.
Print Assumptions C19_random_key_seed_rules.

(** however key and seed are bound (keyword, both positional, key as the last positional
    argument), the call is the same call *)
Theorem C19_random_binder_independent :
  forall (Key Seed Shape Dtype Arr : Type) (prngkey : Seed -> Key) (split0 : Key -> Key)
         (seed0 : Seed) (gen : Key -> Shape -> Dtype -> Arr) sh d key seed,
    let F := fun_alt Key Seed Shape Dtype Arr prngkey split0 seed0 gen sh d in
    F (Some key) None None seed = F None None key seed /\
    F (Some key) (Some seed) None None = F None None key seed /\
    F (Some None) (Some None) key seed = F None None None None.
Proof. exact binder_independent. Qed.
Print Assumptions C19_random_binder_independent.

(** nested shape => block array, one block per inner shape, block i = the flat draw of
    shape s_i with the same key *)
Theorem C19_random_nested_gives_blocks :
  forall (Key Seed Shape Dtype Arr : Type) (prngkey : Seed -> Key) (split0 : Key -> Key)
         (seed0 : Seed) (gen : Key -> Shape -> Dtype -> Arr) l d k,
    fun_alt Key Seed Shape Dtype Arr prngkey split0 seed0 gen (Nested Shape l) d None None (Some k) None
    = Ret Key Arr (OBlock Arr (map (fun s => gen k s d) l)) (split0 k) /\
    length (map (fun s => gen k s d) l) = length l /\
    forall i s, nth_error l i = Some s ->
      nth_error (map (fun s => gen k s d) l) i = Some (gen k s d) /\
      fun_alt Key Seed Shape Dtype Arr prngkey split0 seed0 gen (Flat Shape s) d None None (Some k) None
      = Ret Key Arr (OArr Arr (gen k s d)) (split0 k).
Proof. exact nested_gives_blocks. Qed.
Print Assumptions C19_random_nested_gives_blocks.

(** threading the returned key: the n-th draw depends on (shape, dtype, first key, n) only *)
Theorem C19_random_threaded_keys :
  forall (Key Seed Shape Dtype Arr : Type) (prngkey : Seed -> Key) (split0 : Key -> Key)
         (seed0 : Seed) (gen : Key -> Shape -> Dtype -> Arr) n k sh d,
    chain Key Seed Shape Dtype Arr prngkey split0 seed0 gen n k sh d
    = map (fun i => sample Key Shape Dtype Arr gen (adv Key split0 i k) sh d) (seq 0 n).
Proof. exact chain_spec. Qed.
Print Assumptions C19_random_threaded_keys.

(** (4) No writes to shared defaults / attached objects: if the flow-insensitive checker
    accepts the statements of a unit, then on EVERY execution path over those statements no
    field of a protected object (default-argument object or attached object, closed under
    reachability) changes. *)
Theorem C19_no_write_to_protected :
  forall (prot : loc -> bool) vars0 prog, verdict vars0 prog = true ->
    forall tr, (forall s, In s tr -> In s prog) ->
    forall st,
      (forall x, prot (Defaults.env st x) = true -> In x vars0) ->
      (forall l f, prot l = false -> prot (Defaults.heap st l f) = false) ->
      (forall l f, prot l = true -> prot (Defaults.heap st l f) = true) ->
      (forall l, Defaults.next st <= l -> prot l = false) -> prot 0 = false ->
      forall l f, prot l = true -> Defaults.heap (Defaults.run tr st) l f = Defaults.heap st l f.
Proof. exact verdict_sound. Qed.
Print Assumptions C19_no_write_to_protected.

(** (5) Default helper objects evaluated per constructor call (PGM's default step-size policy
    with its back-reference): for EVERY interleaving of constructions and steps of any solvers,
    an existing solver keeps its own L and its policy reports its own L.  A shared (module-level
    / default-argument) helper object does not satisfy this: SharedDefault.shared_interferes. *)
Theorem C19_percall_default_no_interference :
  forall (K : Type) (k0 : K) ops w, SharedDefault.wf K w ->
    SharedDefault.wf K (SharedDefault.run K k0 PerCall ops w) /\
    forall i, i < length (Ls K w) ->
      nth i (Ls K (SharedDefault.run K k0 PerCall ops w)) k0 = nth i (Ls K w) k0 /\
      update K k0 (SharedDefault.run K k0 PerCall ops w) i = nth i (Ls K w) k0.
Proof. exact percall_no_interference. Qed.
Print Assumptions C19_percall_default_no_interference.

(** (5b) Helper objects with contents created per constructor call (GenericSubproblemSolver's
    default minimize_kwargs since 181f4c4): for EVERY history of constructions and writes no two
    objects share a helper, and a write through one object's helper is read back through that
    object and through no other.  (A mutable default ARGUMENT -- one object for all calls -- does
    not satisfy this: SharedDefault.shared_write_visible, kept as documentation only.) *)
Theorem C19_percall_helpers_not_shared :
  forall (V : Type) (d0 : V) ops w, hwf V w -> hwf V (hrun V d0 PerCall ops w).
Proof. exact percall_helpers_not_shared. Qed.
Print Assumptions C19_percall_helpers_not_shared.

Theorem C19_percall_write_invisible :
  forall (V : Type) (d0 : V) w i j v, hwf V w -> i < length (hloc V w) -> j < length (hloc V w) -> i <> j ->
    hread V d0 (hwrite V w i v) i = v /\ hread V d0 (hwrite V w i v) j = hread V d0 w j.
Proof. exact percall_write_invisible. Qed.
Print Assumptions C19_percall_write_invisible.

(** (6) Re-attaching one sub-problem solver object: internal_init rebuilds the derived data on
    every attachment, so for EVERY attachment history the solver state is a function of the ADMM
    attached now, and the x-step equals the x-step of a solver attached only to that ADMM.
    A solver that keeps its data while the operator OBJECTS are the same (identity-keyed cache,
    ignoring rho_list / f.scale / f.W) does not satisfy this: Reattach.idkeyed_refuted. *)
Theorem C19_reattach_state_function_of_current :
  forall (Ops Par Fac Res : Type) (build : Ops -> Par -> Fac) (solve : Fac -> Ops -> Par -> Res)
         (h : list (admm Ops Par)) (st : option Fac) (a : admm Ops Par),
    attach_hist Ops Par Fac build st (h ++ [a]) = Some (build (fst a) (snd a)) /\
    xstep Ops Par Fac Res solve (attach_hist Ops Par Fac build st (h ++ [a])) a
    = xstep Ops Par Fac Res solve (attach_hist Ops Par Fac build None [a]) a.
Proof. exact reattach_spec. Qed.
Print Assumptions C19_reattach_state_function_of_current.

(** (7) A method that reads the object when it is called (Functional.grad = scico.grad of the
    bound __call__, Loss.__call__, Loss.prox): for EVERY history of calls and public parameter
    updates (Loss.set_scale), a call returns what a fresh object in the current state returns.
    The same method behind a trace cache (jax.jit of a closure over self) does not:
    ParamState.traced_refuted. *)
Theorem C19_result_function_of_current_state :
  forall (St X R : Type) (F : St -> X -> R) (h : list (pop St X)) (st : St) (x : X),
    run_real St X R F st (h ++ [PCall St X x])
    = run_real St X R F st h ++ run_real St X R F (state_after St X st h) [PCall St X x].
Proof. exact real_result_function_of_current_state. Qed.
Print Assumptions C19_result_function_of_current_state.

(** ---- non-vacuity ---- *)
(* a history with changing shapes and dtypes through the fixed logic: rebuilds happen, results are fresh *)
Example C19_tv_example :
  let h := [(MProx, [3; 4], F64); (MCall, [3; 4], F32); (MProx, [3; 4], C128); (MProx, [5], C128); (MProx, [3; 4], F64)] in
  tv_results true None h = [RVal [3; 4] F64; RVal [3; 4] F32; RVal [3; 4] C128; RVal [5] C128; RVal [3; 4] F64] /\
  tv_rebuilds true None h = [true; true; true; true; true] /\
  tv_rebuilds false None h = [true; true; false; true; true] /\
  tv_results false None h = [RVal [3; 4] F64; RVal [3; 4] F32; RRaise; RVal [5] C128; RVal [3; 4] F64].
Proof. vm_compute. repeat split. Qed.

(* the hypotheses of the loss theorems are met by a concrete ring / derivative *)
Example C19_loss_example :
  (forall f g x, (forall z, f z = g z) -> zD f x = zD g x) /\
  (forall c f x, zD (fun z => Z.mul c (f z)) x = Z.mul c (zD f x)) /\
  Loss.wf Z 1%Z zheap0 /\
  (let '(h', n) := rescale Z 1%Z Real zheap0 0 3%Z in zgrad h' n 0%Z = 3%Z /\ scale_at Z 1%Z h' 0 = 1%Z).
Proof.
  split; [exact zD_ext|]. split; [exact zD_scale|]. split.
  - intros l H. cbn in H. destruct l; [reflexivity|]. inversion H as [|? H']. inversion H'.
  - vm_compute. split; reflexivity.
Qed.

(* the checker accepts a shallow copy followed by a write to the copy and rejects a write
   through an alias of a default *)
Example C19_defaults_example :
  verdict [0] [SCopy 1 0; SStore 1 0 2] = true /\ verdict [0] [SMove 1 0; SStore 1 0 2] = false.
Proof. vm_compute. split; reflexivity. Qed.

(* two solvers built with default policies, the first stepped afterwards: per-call defaults keep
   L = 8, a shared default gives 20 *)
Example C19_shared_default_example :
  SharedDefault.wf Z (SharedDefault.empty Z) /\
  Ls Z (SharedDefault.run Z 0%Z PerCall witness_ops (SharedDefault.empty Z)) = [8%Z; 20%Z] /\
  Ls Z (SharedDefault.run Z 0%Z Shared witness_ops (SharedDefault.empty Z)) = [20%Z; 20%Z].
Proof. split; [apply wf_empty|]. vm_compute. split; reflexivity. Qed.

(* same operator objects, rho 1 then rho 3: the identity-keyed solver steps with the factor of
   rho 1, the real logic with the factor of rho 3 *)
Example C19_reattach_example :
  fst (keyed_run nat Z Z (Z * Z) w_build w_solve nat fst Nat.eqb w_hist (Cache.empty unit nat Z))
    = [(1%Z, 1%Z); (1%Z, 3%Z)] /\
  xstep nat Z Z (Z * Z) w_solve (attach_hist nat Z Z w_build None w_hist) (7, 3%Z) = Some (3%Z, 3%Z).
Proof. vm_compute. split; reflexivity. Qed.

(* K(); K(); write through the first: per-call defaults keep the second at the default value *)
Example C19_helper_content_example :
  hwf Z (hempty Z) /\
  (let w := hrun Z 100%Z PerCall [HConstruct Z; HConstruct Z; HWrite Z 0 1%Z] (hempty Z) in
   hread Z 100%Z w 0 = 1%Z /\ hread Z 100%Z w 1 = 100%Z).
Proof. split; [apply hwf_empty|]. vm_compute. split; reflexivity. Qed.

(* grad(x); set_scale(2); grad(x): reading the object at call time gives [3; 6], a trace cache [3; 3] *)
Example C19_param_state_example :
  run_real Z Z Z Z.mul 1%Z ps_witness = [3%Z; 6%Z] /\
  run_traced Z Z unit Z Z.mul (fun _ => tt) (fun _ _ => true) [] 1%Z ps_witness = [3%Z; 3%Z].
Proof. vm_compute. split; reflexivity. Qed.
