(** C20 -- learned-model support: application, data iteration and persistence.
    Only statements; each closed by [exact] of a lemma of coq/theories/C20. *)
From Coq Require Import List Arith Bool Permutation.
From SV Require Import C20.FlaxMap C20.IterateData C20.Checkpoint C20.Sharding C20.Exec.
Import ListNotations.

(** (a) FlaxMap.__call__, any network [apply], any data: rank 2 *)
Theorem C20_flaxmap_rank2 :
  forall (E : Type) (apply : tens E -> tens E) (d : list E) (h w : nat),
    let x := mkt [h; w] d in
    let xin := mkt [1; h; w; 1] d in
    snd (call apply x) = xin /\
    forall h' w', tshape (apply xin) = [1; h'; w'; 1] ->
                  fst (call apply x) = Ok (mkt [h'; w'] (tdata (apply xin))).
Proof. exact call_rank2. Qed.
Print Assumptions C20_flaxmap_rank2.

Theorem C20_flaxmap_rank3 :
  forall (E : Type) (apply : tens E -> tens E) (d : list E) (h w c : nat),
    let x := mkt [h; w; c] d in
    let xin := mkt [1; h; w; c] d in
    snd (call apply x) = xin /\
    forall h' w' c', tshape (apply xin) = [1; h'; w'; c'] ->
                     fst (call apply x) = Ok (mkt [h'; w'; c'] (tdata (apply xin))).
Proof. exact call_rank3. Qed.
Print Assumptions C20_flaxmap_rank3.

Theorem C20_flaxmap_rank4 :
  forall (E : Type) (apply : tens E -> tens E) (d : list E) (k h w c : nat),
    let x := mkt [k; h; w; c] d in
    snd (call apply x) = x /\
    (length (tshape (apply x)) = 4 -> fst (call apply x) = Ok (apply x)).
Proof. exact call_rank4. Qed.
Print Assumptions C20_flaxmap_rank4.

(** rank-2 input but the network returns c' <> 1 channels: the squeeze of axis 3 raises *)
Theorem C20_flaxmap_rank2_multichannel :
  forall (E : Type) (apply : tens E -> tens E) (d : list E) (h w h' w' c' : nat),
    tshape (apply (mkt [1; h; w; 1] d)) = [1; h'; w'; c'] -> c' <> 1 ->
    fst (call apply (mkt [h; w] d)) = SqueezeError E.
Proof. exact call_rank2_multichannel. Qed.
Print Assumptions C20_flaxmap_rank2_multichannel.

(** (b) IterateData.  For every key type, split and permutation function that returns
    permutations, all n >= b >= 1, training or evaluation mode, every initial key, every
    epoch: floor(n/b) batches of b indices, all distinct (pairwise disjoint batches), all
    < n, covering floor(n/b)*b samples. *)
Theorem C20_epoch_structure :
  forall (Key : Type) (split : Key -> Key * Key) (perm : Key -> nat -> list nat),
    (forall k n, Permutation (perm k n) (seq 0 n)) ->
    forall (n b : nat), 1 <= b -> b <= n ->
    forall (train : bool) (k0 : Key) (e : nat),
      let R := rows split perm n b train k0 e in
      length R = n / b /\
      Forall (fun r => length r = b) R /\
      NoDup (concat R) /\
      Forall (fun i => i < n) (concat R) /\
      length (concat R) = (n / b) * b /\
      (forall i j x, i < j -> In x (nth i R []) -> In x (nth j R []) -> False).
Proof. exact epoch_structure. Qed.
Print Assumptions C20_epoch_structure.

(** any number k of __next__ calls after construction yields the first k batches of the
    concatenated epochs; epoch e is cut from perm(subkey_e, n) where (key_{e+1}, subkey_e) =
    split(key_e): a function of the initial key only (reset on exhaustion included) *)
Theorem C20_batches_closed_form :
  forall (Key : Type) (split : Key -> Key * Key) (perm : Key -> nat -> list nat),
    forall (n b : nat), 1 <= b -> b <= n ->
    forall (train : bool) (k0 : Key) (k E : nat),
      k <= S E * (n / b) ->
      fst (nexts split perm n b train k (init split perm n b train k0)) =
      firstn k (concat (map (rows split perm n b train k0) (seq 0 (S E)))).
Proof. exact batches_closed_form. Qed.
Print Assumptions C20_batches_closed_form.

(** evaluation iterator: every epoch is 0 .. floor(n/b)*b - 1 in dataset order *)
Theorem C20_eval_order :
  forall (Key : Type) (split : Key -> Key * Key) (perm : Key -> nat -> list nat),
    (forall k n, Permutation (perm k n) (seq 0 n)) ->
    forall (n b : nat), 1 <= b -> b <= n ->
    forall (train : bool) (k0 : Key) (e : nat),
      train = false ->
      concat (rows split perm n b train k0 e) = seq 0 ((n / b) * b).
Proof. exact eval_order. Qed.
Print Assumptions C20_eval_order.

(** image and label rows of a batch are selected by the same index vector: any row-wise
    relation label_i = g(image_i) of the dataset holds in every batch *)
Theorem C20_pairing :
  forall (X Y : Type) (g : X -> Y) (dx : X) (images : list X) (idx : list nat),
    Forall (fun i => i < length images) idx ->
    select (g dx) (map g images) idx = map g (select dx images idx).
Proof. exact (fun X Y => @pairing X Y). Qed.
Print Assumptions C20_pairing.

(** sharding of a host batch over D devices (prepare_data): D shards of m rows, device d holds
    the contiguous block d*m .. d*m+m-1, un-sharding (device order) is the identity: the row
    order -- dataset order for the evaluation iterator -- survives sharding *)
Theorem C20_sharding :
  forall (A : Type) (D m : nat) (l : list A),
    length l = D * m ->
    unshard (shard D m l) = l /\
    length (shard D m l) = D /\
    Forall (fun s => length s = m) (shard D m l) /\
    (forall d, d < D -> nth d (shard D m l) [] = firstn m (skipn (d * m) l)).
Proof.
  exact (fun A D m l H => conj (@unshard_shard A D m l H) (conj (@shard_count A D m l)
          (conj (@shard_sizes A D m l H) (@shard_block A D m l)))).
Qed.
Print Assumptions C20_sharding.

Theorem C20_sharding_rows :
  forall (A : Type) (D m : nat) (l : list A) (dflt : A) (i : nat),
    0 < m -> length l = D * m -> i < D * m ->
    nth (i mod m) (nth (i / m) (shard D m l) []) dflt = nth i l dflt.
Proof. exact (fun A D m l dflt i => @shard_row A D m l dflt i). Qed.
Print Assumptions C20_sharding_rows.

(** (c) checkpoints: after saves at strictly increasing steps (above anything already in
    the directory) the directory holds the last three, restore returns the last one *)
Theorem C20_checkpoint_keeps_last_three :
  forall (S : Type) (step_of : S -> nat) (vs : list S) (v0 : S) (d : option (store S)),
    increasing step_of v0 vs -> dir_above (step_of v0) d ->
    saves step_of (v0 :: vs) d =
    Some (firstn 3 (rev (map (ent step_of) (v0 :: vs)) ++ contents d)).
Proof. exact saves_contents. Qed.
Print Assumptions C20_checkpoint_keeps_last_three.

Theorem C20_restore_latest :
  forall (S : Type) (step_of : S -> nat) (vs : list S) (v0 : S) (d : option (store S))
         (input : S) (ok : bool),
    increasing step_of v0 vs -> dir_above (step_of v0) d ->
    restore input (saves step_of (v0 :: vs) d) ok = Restored (last vs v0).
Proof. exact restore_latest. Qed.
Print Assumptions C20_restore_latest.

(** over the full training-state record: a restore into ANY fresh target returns step, params,
    batch_stats and opt_state of the last saved state, and the next training step
    ([apply_gradients], arbitrary) equals that of the uninterrupted run *)
Theorem C20_restore_full_state :
  forall (P B O G : Type) (apply_gradients : tstate P B O -> G -> tstate P B O)
         (vs : list (tstate P B O)) (v0 : tstate P B O) (d : option (store (tstate P B O)))
         (fresh : tstate P B O) (ok : bool),
    increasing (@ts_step P B O) v0 vs -> dir_above (ts_step v0) d ->
    exists r, restore fresh (saves (@ts_step P B O) (v0 :: vs) d) ok = Restored r /\
      let s := last vs v0 in
      ts_step r = ts_step s /\ ts_params r = ts_params s /\
      ts_batch_stats r = ts_batch_stats s /\ ts_opt_state r = ts_opt_state s /\
      forall g, apply_gradients r g = apply_gradients s g.
Proof. exact restore_full_state. Qed.
Print Assumptions C20_restore_full_state.

Theorem C20_restore_missing :
  forall (S : Type) (input : S) (ok : bool),
    restore input None ok = (if ok then Restored input else FileNotFound S) /\
    restore input (Some []) ok = Restored input.
Proof. exact (fun S input ok => conj (restore_missing input ok) (restore_empty input ok)). Qed.
Print Assumptions C20_restore_missing.

(** trainer resume offset = step of the restored (= last saved) state; the loop performs
    exactly the steps offset .. num_steps-1 *)
Theorem C20_resume_offset :
  forall (S : Type) (step_of : S -> nat) (vs : list S) (v0 : S) (d : option (store S))
         (input : S) (num_steps : nat),
    increasing step_of v0 vs -> dir_above (step_of v0) d ->
    let d' := saves step_of (v0 :: vs) d in
    resume_offset step_of input d' = step_of (last vs v0) /\
    length (loop_steps step_of input d' num_steps) = num_steps - step_of (last vs v0) /\
    (forall k, In k (loop_steps step_of input d' num_steps) <-> step_of (last vs v0) <= k < num_steps).
Proof. exact resume_after_saves. Qed.
Print Assumptions C20_resume_offset.

(** non-vacuity *)
Example C20_iter_example :
  let split := fun k : nat => (S k, k) in
  let perm := fun (k n : nat) => if Nat.even k then rev (seq 0 n) else seq 0 n in
  fst (nexts split perm 5 2 true 5 (init split perm 5 2 true 0))
  = [[4; 3]; [2; 1]; [0; 1]; [2; 3]; [4; 3]].
Proof. vm_compute. reflexivity. Qed.

Example C20_ckpt_example :
  map fst (contents (saves (@fst nat nat) [(2, 0); (5, 1); (7, 2); (11, 3)] None)) = [11; 7; 5]
  /\ restore (0, 9) (saves (@fst nat nat) [(2, 0); (5, 1); (7, 2); (11, 3)] None) false
     = Restored (11, 3).
Proof. vm_compute. split; reflexivity. Qed.
