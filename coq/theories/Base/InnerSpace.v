(** Abstract real inner-product spaces.  C^n is an instance as R^(2n) with Re<.,.>,
    block arrays as products; theorems proved here hold for all of them at once. *)
From Coq Require Import Reals Lra Psatz.
Open Scope R_scope.

Class InnerSpace := {
  E : Type;
  vzero : E;
  vadd : E -> E -> E;
  vopp : E -> E;
  vscale : R -> E -> E;
  ip : E -> E -> R;
  vadd_comm : forall x y, vadd x y = vadd y x;
  vadd_assoc : forall x y z, vadd x (vadd y z) = vadd (vadd x y) z;
  vadd_0_r : forall x, vadd x vzero = x;
  vadd_opp_r : forall x, vadd x (vopp x) = vzero;
  vscale_1 : forall x, vscale 1 x = x;
  vscale_scale : forall a b x, vscale a (vscale b x) = vscale (a * b) x;
  vscale_add_r : forall a x y, vscale a (vadd x y) = vadd (vscale a x) (vscale a y);
  vscale_add_l : forall a b x, vscale (a + b) x = vadd (vscale a x) (vscale b x);
  ip_sym : forall x y, ip x y = ip y x;
  ip_add_l : forall x y z, ip (vadd x y) z = ip x z + ip y z;
  ip_scale_l : forall a x y, ip (vscale a x) y = a * ip x y;
  ip_pos : forall x, 0 <= ip x x;
  ip_def : forall x, ip x x = 0 -> x = vzero
}.

Section Facts.
  Context {S : InnerSpace}.

  Definition vsub (x y : E) : E := vadd x (vopp y).
  Definition nsq (x : E) : R := ip x x.
  Definition norm (x : E) : R := sqrt (nsq x).

  Lemma vadd_0_l x : vadd vzero x = x.
  Proof. rewrite vadd_comm. apply vadd_0_r. Qed.
  Lemma vadd_opp_l x : vadd (vopp x) x = vzero.
  Proof. rewrite vadd_comm. apply vadd_opp_r. Qed.

  Lemma vadd_cancel_l x y z : vadd x y = vadd x z -> y = z.
  Proof.
    intros H. rewrite <- (vadd_0_l y), <- (vadd_0_l z), <- (vadd_opp_l x), <- !vadd_assoc.
    now rewrite H.
  Qed.

  Lemma vscale_0_l x : vscale 0 x = vzero.
  Proof.
    apply (vadd_cancel_l (vscale 0 x)). rewrite <- vscale_add_l, vadd_0_r. f_equal. lra.
  Qed.

  Lemma vopp_scale x : vopp x = vscale (-1) x.
  Proof.
    apply (vadd_cancel_l x). rewrite vadd_opp_r.
    rewrite <- (vscale_1 x) at 1. rewrite <- vscale_add_l.
    replace (1 + -1) with 0 by lra. now rewrite vscale_0_l.
  Qed.

  Lemma ip_add_r x y z : ip x (vadd y z) = ip x y + ip x z.
  Proof. rewrite ip_sym, ip_add_l, (ip_sym y), (ip_sym z). reflexivity. Qed.
  Lemma ip_scale_r a x y : ip x (vscale a y) = a * ip x y.
  Proof. rewrite ip_sym, ip_scale_l, ip_sym. reflexivity. Qed.
  Lemma ip_opp_l x y : ip (vopp x) y = - ip x y.
  Proof. rewrite vopp_scale, ip_scale_l. lra. Qed.
  Lemma ip_opp_r x y : ip x (vopp y) = - ip x y.
  Proof. rewrite ip_sym, ip_opp_l, ip_sym. reflexivity. Qed.
  Lemma ip_sub_l x y z : ip (vsub x y) z = ip x z - ip y z.
  Proof. unfold vsub. rewrite ip_add_l, ip_opp_l. lra. Qed.
  Lemma ip_sub_r x y z : ip x (vsub y z) = ip x y - ip x z.
  Proof. unfold vsub. rewrite ip_add_r, ip_opp_r. lra. Qed.
  Lemma ip_0_l x : ip vzero x = 0.
  Proof. rewrite <- (vscale_0_l x), ip_scale_l. lra. Qed.
  Lemma ip_0_r x : ip x vzero = 0.
  Proof. rewrite ip_sym. apply ip_0_l. Qed.

  Lemma vsub_self x : vsub x x = vzero.
  Proof. apply vadd_opp_r. Qed.
  Lemma vsub_0_r x : vsub x vzero = x.
  Proof.
    unfold vsub. rewrite vopp_scale.
    replace (vscale (-1) vzero) with vzero; [apply vadd_0_r|].
    rewrite <- (vscale_0_l vzero), vscale_scale. f_equal. lra.
  Qed.
  Lemma vsub_eq_0 x y : vsub x y = vzero -> x = y.
  Proof.
    intros H. unfold vsub in H.
    assert (vadd (vadd x (vopp y)) y = vadd vzero y) by now rewrite H.
    rewrite <- vadd_assoc, vadd_opp_l, vadd_0_r, vadd_0_l in H0. exact H0.
  Qed.

  Lemma nsq_pos x : 0 <= nsq x.
  Proof. apply ip_pos. Qed.
  Lemma nsq_0 x : nsq x = 0 -> x = vzero.
  Proof. apply ip_def. Qed.
  Lemma nsq_vzero : nsq vzero = 0.
  Proof. apply ip_0_l. Qed.
  Lemma nsq_sub x y : nsq (vsub x y) = nsq x - 2 * ip x y + nsq y.
  Proof. unfold nsq. rewrite ip_sub_l, !ip_sub_r, (ip_sym y x). lra. Qed.
  Lemma nsq_add x y : nsq (vadd x y) = nsq x + 2 * ip x y + nsq y.
  Proof. unfold nsq. rewrite ip_add_l, !ip_add_r, (ip_sym y x). lra. Qed.
  Lemma nsq_scale a x : nsq (vscale a x) = a * a * nsq x.
  Proof. unfold nsq. rewrite ip_scale_l, ip_scale_r. lra. Qed.
  Lemma nsq_sub_sym x y : nsq (vsub x y) = nsq (vsub y x).
  Proof. rewrite !nsq_sub, (ip_sym y x). lra. Qed.

  (** Cauchy-Schwarz *)
  Lemma cauchy_schwarz x y : ip x y * ip x y <= nsq x * nsq y.
  Proof.
    destruct (Req_dec (nsq y) 0) as [Hy|Hy].
    - apply nsq_0 in Hy. subst. rewrite ip_0_r, nsq_vzero. lra.
    - pose proof (nsq_pos y) as Hp.
      pose proof (nsq_pos (vsub (vscale (nsq y) x) (vscale (ip x y) y))) as H.
      rewrite nsq_sub, !nsq_scale, ip_scale_l, ip_scale_r in H.
      fold (nsq y) in H.
      assert (0 <= nsq y * (nsq x * nsq y - ip x y * ip x y)) by nra.
      assert (0 < nsq y) by lra.
      nra.
  Qed.

  Lemma norm_pos x : 0 <= norm x.
  Proof. apply sqrt_pos. Qed.
  Lemma norm_sq x : norm x * norm x = nsq x.
  Proof. apply sqrt_sqrt, nsq_pos. Qed.
  Lemma cauchy_schwarz_norm x y : ip x y <= norm x * norm y.
  Proof.
    pose proof (cauchy_schwarz x y) as H. rewrite <- !norm_sq in H.
    pose proof (norm_pos x). pose proof (norm_pos y).
    destruct (Rle_dec (ip x y) 0); [nra|].
    assert (0 <= norm x * norm y) by nra. nra.
  Qed.

  (** A map pair (A, B) between two spaces is an adjoint pair *)
End Facts.

Definition IsAdj {S1 S2 : InnerSpace} (A : @E S1 -> @E S2) (B : @E S2 -> @E S1) : Prop :=
  forall x y, ip (A x) y = ip x (B y).
Definition IsLinear {S1 S2 : InnerSpace} (A : @E S1 -> @E S2) : Prop :=
  (forall x y, A (vadd x y) = vadd (A x) (A y)) /\ (forall a x, A (vscale a x) = vscale a (A x)).

(** Expansion tactic: push [ip] / [nsq] through add, sub, scale, opp. *)
Ltac ip_expand :=
  unfold nsq, vsub in *;
  repeat first
    [ rewrite ip_add_l | rewrite ip_add_r | rewrite ip_scale_l | rewrite ip_scale_r
    | rewrite ip_opp_l | rewrite ip_opp_r | rewrite ip_0_l | rewrite ip_0_r ].
