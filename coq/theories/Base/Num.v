(** Scalars: one class of operations, two instances.
    - [Qc]  : exact, executable ([vm_compute]); what the correspondence harness runs.
    - [R]   : what the order-dependent theorems are about.
    [inj : Qc -> R] is a field/order homomorphism, so an executable function is the
    restriction of the real function the theorem talks about (transfer lemmas). *)
From Coq Require Import QArith Qcanon Reals Qreals Lra Bool List ZArith.
Import ListNotations.

Class Num (K : Type) := {
  k0 : K; k1 : K;
  kadd : K -> K -> K; kmul : K -> K -> K; kopp : K -> K; ksub : K -> K -> K;
  kinv : K -> K; kdiv : K -> K -> K;
  kleb : K -> K -> bool;          (* a <= b *)
  keqb : K -> K -> bool
}.

Declare Scope num_scope.
Delimit Scope num_scope with num.
Infix "+" := kadd : num_scope.
Infix "*" := kmul : num_scope.
Infix "-" := ksub : num_scope.
Infix "/" := kdiv : num_scope.
Notation "- x" := (kopp x) : num_scope.
Infix "<=?" := kleb : num_scope.
Infix "=?" := keqb : num_scope.

Definition kltb {K} `{Num K} (a b : K) : bool := negb (kleb b a).
Infix "<?" := kltb : num_scope.
Definition kmax {K} `{Num K} (a b : K) : K := if kleb a b then b else a.
Definition kmin {K} `{Num K} (a b : K) : K := if kleb a b then a else b.
Definition kabs {K} `{Num K} (a : K) : K := if kleb k0 a then a else kopp a.
Definition ksign {K} `{Num K} (a : K) : K :=
  if keqb a k0 then k0 else if kleb k0 a then k1 else kopp k1.
Definition k2 {K} `{Num K} : K := kadd k1 k1.
Definition khalf {K} `{Num K} : K := kinv k2.
Fixpoint kofnat {K} `{Num K} (n : nat) : K :=
  match n with O => k0 | S m => kadd k1 (kofnat m) end.

(** Instance: canonical rationals *)
Definition Qc_leb (a b : Qc) : bool := Qle_bool (this a) (this b).
Definition Qc_eqb (a b : Qc) : bool := Qeq_bool (this a) (this b).
#[export] Instance Num_Qc : Num Qc := {|
  k0 := 0%Qc; k1 := 1%Qc; kadd := Qcplus; kmul := Qcmult; kopp := Qcopp; ksub := Qcminus;
  kinv := Qcinv; kdiv := Qcdiv; kleb := Qc_leb; keqb := Qc_eqb |}.

(** Instance: reals (not executable) *)
Definition R_leb (a b : R) : bool := if Rle_dec a b then true else false.
Definition R_eqb (a b : R) : bool := if Req_EM_T a b then true else false.
#[export] Instance Num_R : Num R := {|
  k0 := 0%R; k1 := 1%R; kadd := Rplus; kmul := Rmult; kopp := Ropp; ksub := Rminus;
  kinv := Rinv; kdiv := Rdiv; kleb := R_leb; keqb := R_eqb |}.

Lemma R_leb_true a b : R_leb a b = true <-> (a <= b)%R.
Proof. unfold R_leb; destruct (Rle_dec a b); split; intros; try easy. Qed.
Lemma R_leb_false a b : R_leb a b = false <-> (b < a)%R.
Proof. unfold R_leb; destruct (Rle_dec a b); split; intros; try easy; lra. Qed.
Lemma R_eqb_true a b : R_eqb a b = true <-> a = b.
Proof. unfold R_eqb; destruct (Req_EM_T a b); split; intros; try easy. Qed.
Lemma R_eqb_false a b : R_eqb a b = false <-> a <> b.
Proof. unfold R_eqb; destruct (Req_EM_T a b); split; intros; try easy. Qed.

(** Case analysis helper for goals over R containing [R_leb]/[R_eqb]. *)
Ltac rcases :=
  repeat match goal with
  | |- context [R_leb ?a ?b] =>
      let H := fresh "Hle" in destruct (R_leb a b) eqn:H;
      [apply R_leb_true in H | apply R_leb_false in H]
  | |- context [R_eqb ?a ?b] =>
      let H := fresh "Heq" in destruct (R_eqb a b) eqn:H;
      [apply R_eqb_true in H | apply R_eqb_false in H]
  | H0 : context [R_leb ?a ?b] |- _ =>
      let H := fresh "Hle" in destruct (R_leb a b) eqn:H;
      [apply R_leb_true in H | apply R_leb_false in H]
  | H0 : context [R_eqb ?a ?b] |- _ =>
      let H := fresh "Heq" in destruct (R_eqb a b) eqn:H;
      [apply R_eqb_true in H | apply R_eqb_false in H]
  end.

Ltac runfold := unfold kmax, kmin, kabs, ksign, kltb, k2, khalf in *; cbn [k0 k1 kadd kmul kopp ksub kinv kdiv kleb keqb Num_R] in *.

(** The embedding Qc -> R and its homomorphism lemmas *)
Definition inj (q : Qc) : R := Q2R (this q).

Lemma inj_0 : inj 0%Qc = 0%R. Proof. unfold inj; cbn. unfold Q2R; cbn; lra. Qed.
Lemma inj_1 : inj 1%Qc = 1%R. Proof. unfold inj; cbn. unfold Q2R; cbn; lra. Qed.
Lemma inj_add a b : inj (a + b)%Qc = (inj a + inj b)%R.
Proof. unfold inj, Qcplus, Q2Qc; cbn [this]. rewrite <- Q2R_plus. apply Qeq_eqR, Qred_correct. Qed.
Lemma inj_mul a b : inj (a * b)%Qc = (inj a * inj b)%R.
Proof. unfold inj, Qcmult, Q2Qc; cbn [this]. rewrite <- Q2R_mult. apply Qeq_eqR, Qred_correct. Qed.
Lemma inj_opp a : inj (- a)%Qc = (- inj a)%R.
Proof. unfold inj, Qcopp, Q2Qc; cbn [this]. rewrite <- Q2R_opp. apply Qeq_eqR, Qred_correct. Qed.
Lemma inj_sub a b : inj (a - b)%Qc = (inj a - inj b)%R.
Proof. unfold Qcminus. rewrite inj_add, inj_opp. lra. Qed.
Lemma inj_inv a : a <> 0%Qc -> inj (/ a)%Qc = (/ inj a)%R.
Proof.
  intros Ha. unfold inj, Qcinv, Q2Qc; cbn [this]. rewrite <- Q2R_inv.
  - apply Qeq_eqR, Qred_correct.
  - intro H. apply Ha. apply Qc_is_canon. exact H.
Qed.
Lemma inj_div a b : b <> 0%Qc -> inj (a / b)%Qc = (inj a / inj b)%R.
Proof. intros Hb. unfold Qcdiv, Rdiv. rewrite inj_mul, inj_inv; auto. Qed.
Lemma inj_le a b : (a <= b)%Qc <-> (inj a <= inj b)%R.
Proof. unfold inj, Qcle. split; [apply Qle_Rle | apply Rle_Qle]. Qed.
Lemma inj_lt a b : (a < b)%Qc <-> (inj a < inj b)%R.
Proof. unfold inj, Qclt. split; [apply Qlt_Rlt | apply Rlt_Qlt]. Qed.
Lemma inj_inj a b : inj a = inj b -> a = b.
Proof. unfold inj. intros H. apply Qc_is_canon. apply eqR_Qeq. exact H. Qed.
Lemma inj_leb a b : Qc_leb a b = R_leb (inj a) (inj b).
Proof.
  unfold Qc_leb. destruct (R_leb (inj a) (inj b)) eqn:E.
  - apply R_leb_true in E. apply Qle_bool_iff. apply (proj2 (inj_le a b)). exact E.
  - apply R_leb_false in E. destruct (Qle_bool (this a) (this b)) eqn:F; auto.
    apply Qle_bool_iff in F. apply (proj1 (inj_le a b)) in F. lra.
Qed.
Lemma inj_eqb a b : Qc_eqb a b = R_eqb (inj a) (inj b).
Proof.
  unfold Qc_eqb. destruct (R_eqb (inj a) (inj b)) eqn:E.
  - apply R_eqb_true in E. apply inj_inj in E. subst. apply Qeq_bool_iff. reflexivity.
  - apply R_eqb_false in E. destruct (Qeq_bool (this a) (this b)) eqn:F; auto.
    apply Qeq_bool_iff in F. apply Qc_is_canon in F. subst. congruence.
Qed.
Lemma inj_nonzero a : a <> 0%Qc <-> inj a <> 0%R.
Proof. rewrite <- inj_0. split; intros H E; apply H; [apply inj_inj in E|subst]; auto. Qed.

(** Tactic: push [inj] through a generic scalar function instantiated at Qc. *)
Ltac inj_push :=
  cbn [k0 k1 kadd kmul kopp ksub kinv kdiv kleb keqb Num_R Num_Qc];
  repeat first
    [ rewrite inj_add | rewrite inj_sub | rewrite inj_mul | rewrite inj_opp
    | rewrite inj_0 | rewrite inj_1 | rewrite inj_leb | rewrite inj_eqb ].
