(** C02 basics: facts about [norm] in an abstract inner-product space, the concrete spaces
    R, C = R x R, the trivial space and finite powers S^n (block arrays / vectors), and the
    lifting of a per-component prox to the separable sum over S^n. *)
From Coq Require Import Reals Lra Psatz List.
From SV Require Import Base.InnerSpace Prox.ProxTheory.
Import ListNotations.
Open Scope R_scope.

Section NormFacts.
  Context {S : InnerSpace}.

  Lemma norm_unique c x : 0 <= c -> c * c = nsq x -> norm x = c.
  Proof.
    intros Hc H. unfold norm. rewrite <- H. apply sqrt_square. exact Hc.
  Qed.

  Lemma norm_0 : norm vzero = 0.
  Proof. apply norm_unique; [lra | rewrite nsq_vzero; lra]. Qed.

  Lemma norm_eq_0 x : norm x = 0 -> x = vzero.
  Proof.
    intros H. apply nsq_0. rewrite <- norm_sq, H. lra.
  Qed.

  Lemma norm_scale a x : norm (vscale a x) = Rabs a * norm x.
  Proof.
    apply norm_unique.
    - apply Rmult_le_pos; [apply Rabs_pos | apply norm_pos].
    - rewrite nsq_scale. pose proof (norm_sq x) as H.
      replace (Rabs a * norm x * (Rabs a * norm x)) with ((Rabs a * Rabs a) * (norm x * norm x)) by ring.
      rewrite H. f_equal. unfold Rabs. destruct (Rcase_abs a); ring.
  Qed.

  Lemma norm_scale_pos a x : 0 <= a -> norm (vscale a x) = a * norm x.
  Proof. intros Ha. rewrite norm_scale, Rabs_right; auto. lra. Qed.

  Lemma norm_triangle x y : norm (vadd x y) <= norm x + norm y.
  Proof.
    pose proof (norm_pos x) as Hx. pose proof (norm_pos y) as Hy.
    pose proof (norm_pos (vadd x y)) as Hxy.
    pose proof (cauchy_schwarz_norm x y) as Hcs.
    pose proof (norm_sq (vadd x y)) as H1. rewrite nsq_add, <- !norm_sq in H1.
    destruct (Rle_dec (norm (vadd x y)) (norm x + norm y)) as [|Hn]; auto.
    apply Rnot_le_lt in Hn. nra.
  Qed.

  Lemma norm_opp x : norm (vopp x) = norm x.
  Proof. rewrite vopp_scale, norm_scale, Rabs_left by lra. lra. Qed.

  Lemma norm_sub_sym x y : norm (vsub x y) = norm (vsub y x).
  Proof. unfold norm. now rewrite nsq_sub_sym. Qed.

  Lemma vscale_0_r a : vscale a vzero = vzero.
  Proof. rewrite <- (vscale_0_l vzero), vscale_scale. f_equal. lra. Qed.

  Lemma vsub_add_cancel x y : vsub (vadd x y) y = x.
  Proof. unfold vsub. rewrite <- vadd_assoc, vadd_opp_r. apply vadd_0_r. Qed.

  Lemma vadd_sub_cancel x y : vadd (vsub x y) y = x.
  Proof. unfold vsub. rewrite <- vadd_assoc, vadd_opp_l. apply vadd_0_r. Qed.

  (** two vectors whose difference has zero norm are equal *)
  Lemma nsq_sub_0 x y : nsq (vsub x y) = 0 -> x = y.
  Proof. intros H. apply vsub_eq_0, nsq_0, H. Qed.

  (** equality of vectors through inner products: x = y iff ||x - y||^2 = 0, usable with
      [ip_expand] *)
  Lemma veq_by_ip x y : nsq (vsub x y) <= 0 -> x = y.
  Proof. intros H. apply nsq_sub_0. pose proof (nsq_pos (vsub x y)). lra. Qed.

  Lemma ip_le_norm x y : ip x y <= norm x * norm y.
  Proof. apply cauchy_schwarz_norm. Qed.

  Lemma norm_nsq_le x c : 0 <= c -> nsq x <= c * c -> norm x <= c.
  Proof.
    intros Hc H. pose proof (norm_pos x). pose proof (norm_sq x).
    destruct (Rle_dec (norm x) c); auto. apply Rnot_le_lt in n. nra.
  Qed.
End NormFacts.

(** ** The space R *)
Local Obligation Tactic := idtac.
Program Definition RSpace : InnerSpace := {|
  E := R; vzero := 0; vadd := Rplus; vopp := Ropp; vscale := Rmult; ip := Rmult |}.
Next Obligation. intros; lra. Qed.
Next Obligation. intros; lra. Qed.
Next Obligation. intros; lra. Qed.
Next Obligation. intros; lra. Qed.
Next Obligation. intros; lra. Qed.
Next Obligation. intros; lra. Qed.
Next Obligation. intros; lra. Qed.
Next Obligation. intros; lra. Qed.
Next Obligation. intros; lra. Qed.
Next Obligation. intros; lra. Qed.
Next Obligation. intros; lra. Qed.
Next Obligation. intros; nra. Qed.
Next Obligation. intros x H. nra. Qed.

Lemma RSpace_norm (x : @E RSpace) : @norm RSpace x = Rabs x.
Proof.
  apply (@norm_unique RSpace); [apply Rabs_pos|]. unfold nsq; cbn.
  unfold Rabs; destruct (Rcase_abs x); ring.
Qed.
Lemma RSpace_nsq (x : @E RSpace) : @nsq RSpace x = x * x.
Proof. reflexivity. Qed.
Lemma RSpace_vsub (x y : @E RSpace) : @vsub RSpace x y = x - y.
Proof. unfold vsub; cbn. lra. Qed.

(** ** The trivial space (empty block array) *)
Program Definition UnitSpace : InnerSpace := {|
  E := unit; vzero := tt; vadd := fun _ _ => tt; vopp := fun _ => tt;
  vscale := fun _ _ => tt; ip := fun _ _ => 0 |}.
Next Obligation. reflexivity. Qed.
Next Obligation. reflexivity. Qed.
Next Obligation. intros []; reflexivity. Qed.
Next Obligation. reflexivity. Qed.
Next Obligation. intros []; reflexivity. Qed.
Next Obligation. reflexivity. Qed.
Next Obligation. reflexivity. Qed.
Next Obligation. reflexivity. Qed.
Next Obligation. reflexivity. Qed.
Next Obligation. intros; cbn; lra. Qed.
Next Obligation. intros; cbn; lra. Qed.
Next Obligation. intros; cbn; lra. Qed.
Next Obligation. intros []; reflexivity. Qed.

(** ** C as R x R with <x,y> = Re(conj x * y) *)
Definition CSpace : InnerSpace := ProdSpace RSpace RSpace.
Definition cmul (a b : R * R) : R * R := (fst a * fst b - snd a * snd b, fst a * snd b + snd a * fst b).
Definition cconj (a : R * R) : R * R := (fst a, - snd a).
Definition cabs2 (a : R * R) : R := fst a * fst a + snd a * snd a.
Definition cofR (a : R) : R * R := (a, 0).

Lemma CSpace_nsq (x : @E CSpace) : @nsq CSpace x = cabs2 x.
Proof. destruct x; reflexivity. Qed.
Lemma cmul_adj a (x y : @E CSpace) : @ip CSpace (cmul a x) y = @ip CSpace x (cmul (cconj a) y).
Proof. destruct a, x, y; unfold CSpace, cmul, cconj; cbn. ring. Qed.
Lemma cmul_add a (x y : @E CSpace) : cmul a (@vadd CSpace x y) = @vadd CSpace (cmul a x) (cmul a y).
Proof. destruct a, x, y; unfold CSpace, cmul; cbn. f_equal; ring. Qed.
Lemma cmul_scale a t (x : @E CSpace) : cmul a (@vscale CSpace t x) = @vscale CSpace t (cmul a x).
Proof. destruct a, x; unfold CSpace, cmul; cbn. f_equal; ring. Qed.
Lemma cmul_real t (x : @E CSpace) : cmul (cofR t) x = @vscale CSpace t x.
Proof. destruct x; unfold CSpace, cmul, cofR; cbn. f_equal; ring. Qed.

(** ** Finite powers S^n: vectors / block arrays with n components in S *)
Fixpoint Pow (S : InnerSpace) (n : nat) : InnerSpace :=
  match n with O => UnitSpace | Datatypes.S m => ProdSpace S (Pow S m) end.

Section Separable.
  Variable S : InnerSpace.
  (** component i has its own functional (dom i, f i) and its own map (px i): weights,
      data y_i etc. may differ per component *)
  Fixpoint pall (n : nat) (dom : nat -> @E S -> Prop) : @E (Pow S n) -> Prop :=
    match n with
    | O => fun _ => True
    | Datatypes.S m => fun x => dom O (fst x) /\ pall m (fun i => dom (Datatypes.S i)) (snd x)
    end.
  Fixpoint psum (n : nat) (f : nat -> @E S -> R) : @E (Pow S n) -> R :=
    match n with
    | O => fun _ => 0
    | Datatypes.S m => fun x => f O (fst x) + psum m (fun i => f (Datatypes.S i)) (snd x)
    end.
  Fixpoint pmap (n : nat) (g : nat -> @E S -> @E S) : @E (Pow S n) -> @E (Pow S n) :=
    match n with
    | O => fun x => x
    | Datatypes.S m => fun x => (g O (fst x), pmap m (fun i => g (Datatypes.S i)) (snd x))
    end.

  Lemma unit_prox lam (v : @E UnitSpace) : @IsProx UnitSpace (fun _ => True) (fun _ => 0) lam v v.
  Proof. split; auto. intros [] _. destruct v. lra. Qed.

  (** Separable extension (Beck Thm 6.6) by induction over the number of components: if every
      component map is a prox of its component functional, the component-wise map is a prox of
      the sum. *)
  Theorem prox_separable_pow lam n : forall dom f g,
    (forall i v, (i < n)%nat -> IsProx (dom i) (f i) lam v (g i v)) ->
    forall v, @IsProx (Pow S n) (pall n dom) (psum n f) lam v (pmap n g v).
  Proof.
    induction n as [|m IH]; intros dom f g H v.
    - cbn. apply unit_prox.
    - destruct v as [v1 v2]. cbn [pall psum pmap Pow fst snd].
      apply (prox_separable S (Pow S m)).
      + apply H. apply PeanoNat.Nat.lt_0_succ.
      + apply IH. intros i w Hi. apply H. now apply -> PeanoNat.Nat.succ_lt_mono.
  Qed.
End Separable.

(** lists <-> S^n, to connect the list-based executable models with the theorems *)
Fixpoint to_pow (S : InnerSpace) (n : nat) (l : list (@E S)) : @E (Pow S n) :=
  match n with
  | O => tt
  | Datatypes.S m => (hd vzero l, to_pow S m (tl l))
  end.

Fixpoint mapi {A B} (g : nat -> A -> B) (k : nat) (l : list A) : list B :=
  match l with [] => [] | x :: r => g k x :: mapi g (Datatypes.S k) r end.

Lemma mapi_const {A B} (g : A -> B) k l : mapi (fun _ => g) k l = map g l.
Proof. revert k; induction l; intros; cbn; f_equal; auto. Qed.

Lemma pmap_ext S n : forall (g g' : nat -> @E S -> @E S) x,
  (forall i y, g i y = g' i y) -> pmap S n g x = pmap S n g' x.
Proof.
  induction n as [|m IH]; intros g g' x H; cbn; auto.
  rewrite H. f_equal. apply IH. intros; apply H.
Qed.

(** the component-wise list map is the component-wise map on S^n *)
Lemma pmap_to_pow S n : forall (g : nat -> @E S -> @E S) k l, length l = n ->
  to_pow S n (mapi g k l) = pmap S n (fun i => g (k + i)%nat) (to_pow S n l).
Proof.
  induction n as [|m IH]; intros g k l Hl; cbn; auto.
  destruct l as [|x r]; [discriminate|]. cbn. f_equal.
  - now rewrite PeanoNat.Nat.add_0_r.
  - cbn in Hl. rewrite (IH g (Datatypes.S k) r) by (now injection Hl).
    apply pmap_ext. intros i y. now rewrite PeanoNat.Nat.add_succ_r.
Qed.
