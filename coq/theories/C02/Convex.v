(** C02: convexity of the norm and of the squared norm, so that the general consequences of
    [ProxTheory] (subgradient certificate, uniqueness, firm non-expansiveness) apply to the
    proved prox maps. *)
From Coq Require Import Reals Lra Psatz.
From SV Require Import Base.Num Base.InnerSpace Prox.ProxTheory C02.Basics C02.Models C02.Norms.
Open Scope R_scope.

Section Cvx.
  Context {S : InnerSpace}.

  Lemma segment_form x y t : vadd x (vscale t (vsub y x)) = vadd (vscale (1 - t) x) (vscale t y).
  Proof.
    apply veq_by_ip. ip_expand. rewrite ?(ip_sym y x).
    generalize (ip x x) (ip x y) (ip y y). intros. nra.
  Qed.

  Lemma norm_convex : Convex Tr norm.
  Proof.
    intros x y t _ _ Ht. split; [exact I|]. rewrite segment_form.
    pose proof (norm_triangle (vscale (1 - t) x) (vscale t y)) as H.
    rewrite !norm_scale_pos in H by lra. exact H.
  Qed.

  Lemma nsq_convex : Convex Tr nsq.
  Proof.
    intros x y t _ _ Ht. split; [exact I|]. rewrite segment_form.
    pose proof (nsq_pos (vsub x y)) as Hp. revert Hp. ip_expand. rewrite ?(ip_sym y x).
    generalize (ip x x) (ip x y) (ip y y). intros a b c Hp.
    assert (0 <= t * (1 - t) * (a + - b + (- b + c))) by (apply Rmult_le_pos; nra). nra.
  Qed.

  (** the l2 / block soft threshold as the code computes it is firmly non-expansive in v and
      satisfies the subgradient inequality *)
  Corollary l2_prox_firm lam v1 v2 : 0 < lam ->
    let p1 := vscale (l2_fac lam (norm v1)) v1 in
    let p2 := vscale (l2_fac lam (norm v2)) v2 in
    nsq (vsub p1 p2) <= ip (vsub p1 p2) (vsub v1 v2).
  Proof.
    intros Hl p1 p2. apply (prox_firmly_nonexpansive Tr norm lam v1 v2 p1 p2 Hl norm_convex);
      now apply l2_prox.
  Qed.
  Corollary l2_prox_subgradient lam v z : 0 < lam ->
    let p := vscale (l2_fac lam (norm v)) v in
    lam * norm p + ip (vsub v p) (vsub z p) <= lam * norm z.
  Proof.
    intros Hl p. destruct (prox_subcert Tr norm lam v p Hl norm_convex (l2_prox lam v Hl)) as [_ H].
    now apply H.
  Qed.
  Corollary sql2_prox_firm lam v1 v2 : 0 < lam ->
    let p1 := vscale (/ (1 + 2 * lam)) v1 in
    let p2 := vscale (/ (1 + 2 * lam)) v2 in
    nsq (vsub p1 p2) <= ip (vsub p1 p2) (vsub v1 v2).
  Proof.
    intros Hl p1 p2. apply (prox_firmly_nonexpansive Tr nsq lam v1 v2 p1 p2 Hl nsq_convex);
      now apply sql2_prox.
  Qed.
End Cvx.
