(** C02 correspondence: evaluation of the [C02.Models] functions at Qc on the cases written by
    vf/props/C02.py, and comparison with the implementation's outputs INSIDE Coq.

    A case is (kind, params, groups); a group is (nv, rows) where nv is the value of the
    norm / modulus the implementation computed for that group (checked here through its
    square), and a row is (inputs, implementation outputs).  The vector-level model is the
    entry-wise application of the scalar model with the group's norm. *)
From Coq Require Import QArith Qabs Qcanon Bool List.
From SV Require Import Base.Num C02.Models.
Import ListNotations.

Definition qc (q : Q) : Qc := Q2Qc q.
Definition nthq (l : list Qc) (i : nat) : Qc := nth i l 0%Qc.

Definition Qmax1 (x : Q) : Q := (if Qle_bool 1 x then x else 1)%Q.
Definition tol_val : Q := (1 # 1073741824)%Q.          (* 2^-30 *)
Definition tol_norm : Q := (1 # 1099511627776)%Q.      (* 2^-40 *)
Definition Qclose (tol a b : Q) : bool := (Qle_bool (Qabs (a - b)) (tol * Qmax1 (Qabs b)))%Q.

Local Open Scope nat_scope.
Definition sumsq (l : list Qc) : Qc := fold_right (fun x s => (x * x + s)%Qc) 0%Qc l.

(** is nv the (rounded) square root of s ? *)
Definition norm_ok (nv s : Qc) : bool :=
  Qle_bool 0%Q (this nv) && Qclose tol_norm (this (nv * nv)%Qc) (this s)
  && implb (Qeq_bool (this s) 0%Q) (Qeq_bool (this nv) 0%Q).

Definition pair_list (p : Qc * Qc) : list Qc := [fst p; snd p].

(** model of one row: inputs -> outputs *)
Definition row_model (kind : nat) (ps : list Qc) (nv : Qc) (r : list Qc) : list Qc :=
  let p := nthq ps in let x := nthq r in
  match kind with
  | 0 => map (l1_code (p 0)) r
  | 1 => pair_list (cl1_code (p 0) nv (x 0, x 1))
  | 2 => map (l0_code_n (p 0) nv) r
  | 3 => map (l0_spec_n (p 0) (sumsq r)) r
  | 4 => map (sql2_code (p 0)) r
  | 5 => map (l2_code (p 0) nv) r
  | 6 => map (l21_code (p 0) nv) r
  | 7 => map (huber_code (p 0) (p 1) nv) r
  | 8 => map nonneg_code r
  | 9 => map (ball_code (p 0) nv) r
  | 11 => r
  | 12 => [sd_code (p 0) nv (x 1) (x 0)]
  | 13 => [ssd_code (p 0) (x 1) (x 0)]
  | 14 => [loss_code l1_code (p 0) (x 1) (p 1) (x 0)]
  | 15 => [loss_code sql2_code (p 0) (x 1) (p 1) (x 0)]
  | 16 => [sql2loss_code (p 0) (x 1) (x 2) (x 3) (p 1) (x 0)]
  | 17 => pair_list (csql2loss_code (p 0) (x 2, x 3) (x 4) (x 5, x 6) (p 1) (x 0, x 1))
  | 18 => [absloss_code (p 0) (x 1) (x 2) (p 1) nv (x 0)]
  | 19 => pair_list (cabsloss_code (p 0) (x 2) (x 3) (p 1) nv (x 0, x 1))
  | 20 => [sqabsloss_code (sqabs_alpha (p 0) (x 1) (p 1)) nv (x 3) (x 0)]
  | 21 => pair_list (csqabsloss_code (sqabs_alpha (p 0) (x 2) (p 1)) nv (x 4) (x 0, x 1))
  | 22 => map (svt_code (p 0)) r
  (* generic Loss(y, f, scale) over a NON-EVEN f: f.prox(v - y, scale*lam) + y.
     rows [v; y] (23), [v; y; proj(v - y)] (24, 25), [v; y; y2] (26) *)
  | 23 => [loss_code (fun _ => nonneg_code) (p 0) (x 1) (p 1) (x 0)]
  | 24 => [loss_code (fun l z => sd_code l nv (x 2) z) (p 0) (x 1) (p 1) (x 0)]
  | 25 => [loss_code (fun l z => ssd_code l (x 2) z) (p 0) (x 1) (p 1) (x 0)]
  | 26 => [loss_code (loss_code (fun _ => nonneg_code) (p 2) (x 2)) (p 0) (x 1) (p 1) (x 0)]
  | _ => []
  end.

(** the components whose sum of squares must equal nv^2 (None: no norm involved) *)
Definition row_norm_src (kind : nat) (r : list Qc) : option (list Qc) :=
  let x := nthq r in
  match kind with
  | 1 | 2 | 5 | 6 | 7 | 9 => Some r
  | 12 => let a := x 0 in let b := x 1 in Some [(a - b)%Qc]
  | 24 => let a := x 0 in let b := x 1 in let c := x 2 in Some [(a - b - c)%Qc]
  | 18 | 20 => Some [x 0]
  | 19 | 21 => Some [x 0; x 1]
  | _ => None
  end.

(** extra side conditions of a row (hypotheses of the theorem checked on the implementation):
    for the phase-retrieval loss, the returned root satisfies the cubic (to 2^-20, the code's
    own _check_root uses 1e-4), is >= 0, and is 0 only when al*y <= 1 *)
Definition tol_root : Q := (1 # 1048576)%Q.
Definition root_ok (al y beta r : Qc) : bool :=
  if Qc_leb al 0%Qc then true else
  Qle_bool (Qabs (this (cubic_res (sqabs_p al y) (sqabs_q al beta) r))) tol_root
  && Qle_bool (- tol_root)%Q (this r)
  && (negb (Qle_bool (this r) tol_root) || Qle_bool (this (al * y)%Qc) (1 + tol_root)%Q).
Definition row_side (kind : nat) (ps : list Qc) (nv : Qc) (r : list Qc) : bool :=
  let p := nthq ps in let x := nthq r in
  match kind with
  | 20 => root_ok (sqabs_alpha (p 0) (x 1) (p 1)) (x 2) nv (x 3)
  | 21 => root_ok (sqabs_alpha (p 0) (x 2) (p 1)) (x 3) nv (x 4)
  | _ => true
  end.

Definition exact_kind (kind : nat) : bool :=
  match kind with 0 | 2 | 3 | 8 | 11 | 14 | 23 | 26 => true | _ => false end.

Fixpoint outs_ok (exact : bool) (m : list Qc) (o : list Q) : bool :=
  match m, o with
  | [], [] => true
  | a :: m', b :: o' =>
      (if exact then Qeq_bool (this a) b else Qclose tol_val b (this a)) && outs_ok exact m' o'
  | _, _ => false
  end.

Definition group := (Qc * list (list Qc * list Q))%type.

Definition group_norm_ok (kind : nat) (g : group) : bool :=
  let '(nv, rows) := g in
  match kind with
  | 5 | 6 | 7 | 9 | 12 | 24 =>     (* one norm for the whole group *)
      let src := flat_map (fun r => match row_norm_src kind (fst r) with Some l => l | None => [] end) rows in
      norm_ok nv (sumsq src)
  | _ =>                            (* one norm per row (the group has one row) or none *)
      forallb (fun r => match row_norm_src kind (fst r) with
                        | Some l => norm_ok nv (sumsq l) | None => true end) rows
  end.

Definition group_ok (kind : nat) (ps : list Qc) (g : group) : bool :=
  group_norm_ok kind g &&
  forallb (fun r => row_side kind ps (fst g) (fst r)
                    && outs_ok (exact_kind kind) (row_model kind ps (fst g) (fst r)) (snd r)) (snd g).

(** L1MinusL2Norm (real dtype): the whole case analysis on one array; nv = ||u|| of branch 1 *)
Definition kabsq (x : Qc) : Qc := kabs x.
Definition vmax (l : list Qc) : Qc := fold_right (fun x m => kmax (kabsq x) m) 0%Qc l.
Fixpoint argmax_from (l : list Qc) (m : Qc) (i : nat) : nat :=
  match l with
  | [] => i
  | x :: r => if Qc_eqb (kabsq x) m then i else argmax_from r m (S i)
  end.
Fixpoint set_at (l : list Qc) (i : nat) (f : Qc -> Qc) : list Qc :=
  match l, i with
  | [], _ => []
  | x :: r, O => f x :: map (fun _ => 0%Qc) r
  | x :: r, S j => 0%Qc :: set_at r j f
  end.
Definition l1l2_vec (beta lam l2u : Qc) (v : list Qc) : list Qc :=
  let vamx := vmax v in
  match l1l2_case beta lam vamx with
  | 1%nat => map (l1l2_gt beta lam l2u) v
  | 2%nat => set_at v (argmax_from v vamx 0) (l1l2_one beta lam)
  | _ => map (fun _ => 0%Qc) v
  end.
Definition l1l2_ok (ps : list Qc) (l2u : Qc) (v : list Qc) (o : list Q) : bool :=
  let beta := nthq ps 0 in let lam := nthq ps 1 in
  (match l1l2_case beta lam (vmax v) with
   | 1%nat => norm_ok l2u (sumsq (map (l1l2_soft lam) v))
   | _ => true end)
  && outs_ok false (l1l2_vec beta lam l2u v) o.

Inductive ccase :=
| Grouped (kind : nat) (ps : list Qc) (gs : list group)
| L1L2 (ps : list Qc) (l2u : Qc) (v : list Qc) (o : list Q).

Definition case_ok (c : ccase) : bool :=
  match c with
  | Grouped kind ps gs => forallb (group_ok kind ps) gs
  | L1L2 ps l2u v o => l1l2_ok ps l2u v o
  end.

Fixpoint bad_idx {A} (ok : A -> bool) (l : list A) (i : nat) : list nat :=
  match l with
  | [] => []
  | x :: r => if ok x then bad_idx ok r (S i) else i :: bad_idx ok r (S i)
  end.

(** ** Branch signatures for the designed (always-run) cases.
    For each piecewise closed form, the position of a probe relative to every threshold that the
    corresponding [*_code] model branches on, computed from the SAME expressions the model uses
    (for L1MinusL2Norm: the model's own [l1l2_case]).  The harness asserts that the designed set
    realises every reachable signature (strictly inside each branch, on each boundary, outside),
    so the set stays in sync with the model. *)
Definition cmp3 (a t : Qc) : nat := if Qc_eqb a t then 1 else if Qc_leb a t then 0 else 2.
Definition sig_of (ds : list nat) : nat := fold_left (fun acc d => acc * 4 + d) ds 0.

Definition branch_sig (unit : nat) (ps xs : list Qc) : nat :=
  let p0 := nthq ps 0 in let p1 := nthq ps 1 in
  let x0 := nthq xs 0 in let x1 := nthq xs 1 in let x2 := nthq xs 2 in
  let z := 0%Qc in
  sig_of
  match unit with
  | 0 => (* soft / block soft threshold (L1, L2, L21): relu(nv - lam), nv =? 0 *)
      [cmp3 x0 p0; cmp3 x0 z]
  | 1 => (* L0: code threshold lam <=? nv and true threshold 2 lam <=? nv^2 *)
      [cmp3 x0 p0; cmp3 (x0 * x0)%Qc (k2 * p0)%Qc]
  | 2 => (* Huber: kmax a (delta (1 + lam)) *)
      [cmp3 x0 (p0 * (1 + p1))%Qc; cmp3 x0 z]
  | 3 => (* L2 ball: nv <=? r, 0 <? nv *)
      [cmp3 x0 p0; cmp3 x0 z]
  | 4 => (* SetDistance: lam <=? d *)
      [cmp3 x0 p0; cmp3 x0 z]
  | 5 => (* singular value thresholding: kmax 0 (s - lam) *)
      [cmp3 x0 p0; cmp3 x0 z]
  | 6 => (* SquaredL2AbsLoss: 0 <? r ; weight w = 0 (alpha = 0) *)
      [cmp3 x0 z; cmp3 x1 z]
  | 7 => (* SquaredL2SquaredAbsLoss: 0 <? al, 0 <? beta, and al*y vs 1 (number of roots) *)
      let al := sqabs_alpha p0 x0 p1 in
      [cmp3 al z; cmp3 x1 z; cmp3 (al * x2)%Qc 1%Qc]
  | 8 => (* L1MinusL2Norm: the model's case analysis and the position of max|v| in the windows *)
      [l1l2_case p0 p1 x0; cmp3 x0 p1; cmp3 x0 ((1 - p0) * p1)%Qc; cmp3 x0 z]
  | _ => []
  end.
Definition probe := (nat * list Qc * list Qc)%type.
Definition probe_sig (pr : probe) : nat := let '(u, ps, xs) := pr in branch_sig u ps xs.
