(** C02 theorems, losses: Loss.prox (translation), SquaredL2Loss.prox diagonal closed form
    (real and complex entries), SquaredL2AbsLoss.prox, SquaredL2SquaredAbsLoss.prox (given a
    root of the depressed cubic), the spectrum-level statement for NuclearNorm, the
    one-dimensional statement for L1MinusL2Norm, and the lifting of all entry-wise results to
    vectors / block arrays. *)
From Coq Require Import Reals Lra Psatz List.
From SV Require Import Base.Num Base.InnerSpace Prox.ProxTheory
  C02.Basics C02.Models C02.Norms C02.Sets.
Import ListNotations.
Open Scope R_scope.

Lemma sq_nonneg t : 0 <= t * t.
Proof. nra. Qed.
Lemma sq2_nonneg a b : 0 <= a * a + b * b.
Proof. nra. Qed.

(** ** Loss.prox: f.prox(v - y, scale*lam) + y is a prox of x |-> scale * f(x - y) *)
Theorem loss_translate_prox {S : InnerSpace} dom (f : @E S -> R) scale y lam v q :
  IsProx dom f (scale * lam) (vsub v y) q ->
  IsProx (fun x => dom (vsub x y)) (fun x => scale * f (vsub x y)) lam v (vadd q y).
Proof.
  intros H. apply prox_translate. now rewrite vsub_add_cancel.
Qed.

(** ** SquaredL2Loss.prox, Diagonal branch.  One entry: f(x) = w |a x - y|^2 *)
Definition sqloss_r (a w y : R) (x : R) : R := w * ((a * x - y) * (a * x - y)).
Definition sqloss_c (a : R * R) (w : R) (y : R * R) (x : R * R) : R :=
  w * cabs2 (fst (cmul a x) - fst y, snd (cmul a x) - snd y).

Theorem sql2loss_code_prox (scale a w y lam v : R) : 0 <= scale -> 0 <= w -> 0 <= lam ->
  @IsProx RSpace Tr (fun x => scale * sqloss_r a w y x) lam v (sql2loss_code scale a w y lam v).
Proof.
  intros Hs Hw Hl. split; [exact I|]. intros x _. unfold obj, nsq, vsub, sqloss_r, sql2loss_code.
  cbn [ip vadd vopp RSpace]. change (@E RSpace) with R in *. rsimp.
  assert (Hc : 0 <= scale * lam * w) by (apply Rmult_le_pos; [apply Rmult_le_pos|]; assumption).
  set (den := (1 + 1) * scale * lam * a * w * a + 1).
  assert (Hden : 1 <= den) by (unfold den; nra).
  set (p := ((1 + 1) * scale * lam * a * w * y + v) / den).
  assert (Hv : v = den * p - (1 + 1) * scale * lam * a * w * y) by (unfold p; field; lra).
  clearbody p. rewrite Hv.
  assert (Hid : lam * (scale * (w * ((a * x - y) * (a * x - y)))) +
      / 2 * ((x + - (den * p - (1 + 1) * scale * lam * a * w * y)) * (x + - (den * p - (1 + 1) * scale * lam * a * w * y)))
    - (lam * (scale * (w * ((a * p - y) * (a * p - y)))) +
      / 2 * ((p + - (den * p - (1 + 1) * scale * lam * a * w * y)) * (p + - (den * p - (1 + 1) * scale * lam * a * w * y))))
    = / 2 * den * ((x - p) * (x - p))) by (unfold den; field).
  clearbody den.
  assert (0 <= / 2 * den * ((x - p) * (x - p))) by (apply Rmult_le_pos; [lra | apply sq_nonneg]).
  lra.
Qed.

Theorem csql2loss_code_prox (scale : R) (a : R * R) (w : R) (y : R * R) (lam : R) (v : R * R) : 0 <= scale -> 0 <= w -> 0 <= lam ->
  @IsProx CSpace Tr (fun x => scale * sqloss_c a w y x) lam v (csql2loss_code scale a w y lam v).
Proof.
  intros Hs Hw Hl. split; [exact I|]. intros x _.
  destruct a as [a1 a2], y as [y1 y2], v as [v1 v2], x as [x1 x2].
  unfold obj, nsq, vsub, sqloss_c, csql2loss_code, cabs2, cmul, kcadd, kcscale, kcmul, kcconj, CSpace.
  cbn [ip vadd vopp RSpace ProdSpace fst snd]. rsimp.
  assert (Hc : 0 <= scale * lam * w) by (apply Rmult_le_pos; [apply Rmult_le_pos|]; assumption).
  set (den := (1 + 1) * scale * lam * w * (a1 * a1 - - a2 * a2) + 1).
  assert (Hden : 1 <= den) by (unfold den; nra).
  set (p1 := ((1 + 1) * scale * lam * w * (a1 * y1 - - a2 * y2) + v1) / den).
  set (p2 := ((1 + 1) * scale * lam * w * (a1 * y2 + - a2 * y1) + v2) / den).
  assert (Hv1 : v1 = den * p1 - (1 + 1) * scale * lam * w * (a1 * y1 - - a2 * y2)) by (unfold p1; field; lra).
  assert (Hv2 : v2 = den * p2 - (1 + 1) * scale * lam * w * (a1 * y2 + - a2 * y1)) by (unfold p2; field; lra).
  clearbody p1 p2. rewrite Hv1, Hv2.
  match goal with |- ?L <= ?Rr =>
    assert (Hid : Rr - L = / 2 * den * ((x1 - p1) * (x1 - p1) + (x2 - p2) * (x2 - p2))) by (unfold den; field)
  end.
  clearbody den.
  assert (0 <= / 2 * den * ((x1 - p1) * (x1 - p1) + (x2 - p2) * (x2 - p2))) by (apply Rmult_le_pos; [lra | apply sq2_nonneg]).
  lra.
Qed.

(** ** Phase-retrieval losses on an abstract space E with a fixed unit vector u (E = C: u = 1;
    E = R: u = 1): the direction the code uses when v = 0. *)
Section Phase.
  Context {S : InnerSpace}.
  Variable u : E.
  Hypothesis u_unit : nsq u = 1.

  Lemma norm_u : norm u = 1.
  Proof. apply norm_unique; lra. Qed.

  (** for every x: ||x - v||^2 >= (||x|| - ||v||)^2 *)
  Lemma reverse_triangle_sq x v : (norm x - norm v) * (norm x - norm v) <= nsq (vsub x v).
  Proof.
    rewrite nsq_sub, <- !norm_sq. pose proof (cauchy_schwarz_norm x v). lra.
  Qed.

  (** a point rho * (direction of v) is at distance |rho - ||v||| from v *)
  Definition R_ltb_dec (v : E) : bool := negb (R_leb (norm v) 0).
  Definition dir (v : E) : E := if R_ltb_dec v then vscale (/ norm v) v else u.
  Lemma dir_norm v : norm (dir v) = 1.
  Proof.
    unfold dir, R_ltb_dec. pose proof (norm_pos v). rcases; cbn [negb]; [apply norm_u|].
    rewrite norm_scale_pos by (apply Rlt_le, Rinv_0_lt_compat; lra). field; lra.
  Qed.
  Lemma dir_dist v rho : 0 <= rho ->
    nsq (vsub (vscale rho (dir v)) v) = (rho - norm v) * (rho - norm v).
  Proof.
    intros Hr. unfold dir, R_ltb_dec. pose proof (norm_pos v) as Hn. rcases; cbn [negb].
    - assert (norm v = 0) by lra. pose proof (norm_eq_0 v H) as Hv. subst v.
      rewrite vsub_0_r, nsq_scale, u_unit, norm_0. ring.
    - rewrite vscale_scale. rewrite nsq_sub, nsq_scale, ip_scale_l. fold (nsq v).
      rewrite <- norm_sq. field; lra.
  Qed.

  (** *** SquaredL2AbsLoss: f(x) = w (y - ||x||)^2, y >= 0, w >= 0 *)
  Definition absf (w y : R) (x : E) : R := w * ((y - norm x) * (y - norm x)).
  Definition abs_be (scale w y lam r : R) : R := (lam * 2 * scale * w * y + r) / (lam * 2 * scale * w + 1).

  Theorem absloss_prox scale w y lam v : 0 <= scale -> 0 <= w -> 0 <= y -> 0 <= lam ->
    IsProx Tr (fun x => scale * absf w y x) lam v
      (vscale (abs_be scale w y lam (norm v)) (dir v)).
  Proof.
    intros Hs Hw Hy Hl. split; [exact I|]. intros x _. unfold obj, absf.
    pose proof (norm_pos v) as Hn. pose proof (norm_pos x) as Hx.
    set (al := lam * 2 * scale * w).
    assert (Hal : 0 <= al) by (unfold al; repeat apply Rmult_le_pos; lra).
    set (be := abs_be scale w y lam (norm v)).
    assert (Hbe : (al + 1) * be = al * y + norm v) by (unfold be, abs_be; fold al; field; lra).
    assert (Hbe0 : 0 <= be).
    { apply Rmult_le_reg_l with (al + 1); [lra|]. rewrite Hbe. nra. }
    rewrite dir_dist by auto. rewrite norm_scale_pos, dir_norm by auto.
    pose proof (reverse_triangle_sq x v) as Hrt.
    replace (lam * (scale * (w * ((y - be * 1) * (y - be * 1))))) with (/ 2 * al * ((y - be) * (y - be))) by (unfold al; field).
    replace (lam * (scale * (w * ((y - norm x) * (y - norm x))))) with (/ 2 * al * ((y - norm x) * (y - norm x))) by (unfold al; field).
    remember (norm x) as rho. remember (norm v) as r. remember (nsq (vsub x v)) as dx.
    (* g(rho) - g(be) = 1/2 (al+1) (rho - be)^2 *)
    assert (Hid : / 2 * al * ((y - rho) * (y - rho)) + / 2 * ((rho - r) * (rho - r))
                  - (/ 2 * al * ((y - be) * (y - be)) + / 2 * ((be - r) * (be - r)))
                  = / 2 * (al + 1) * ((rho - be) * (rho - be)) + (rho - be) * ((al + 1) * be - (al * y + r))) by field.
    rewrite Hbe in Hid.
    assert (0 <= / 2 * (al + 1) * ((rho - be) * (rho - be))) by (apply Rmult_le_pos; [lra | apply sq_nonneg]).
    lra.
  Qed.

  (** *** SquaredL2SquaredAbsLoss: f(x) = w (y - ||x||^2)^2.  With al = 4 lam scale w > 0,
      beta = ||v||, p = (1 - al y)/al, q = -beta/al, the code returns r * dir(v) for the root r
      returned by _dep_cubic_root.  Hypotheses on r: it is a root (what _check_root tests),
      it is non-negative, and when it is 0 the cubic has no positive root (al y <= 1). *)
  Definition sqabsf (w y : R) (x : E) : R := w * ((y - nsq x) * (y - nsq x)).

  Theorem sqabsloss_prox scale w y lam v r :
    0 <= y ->
    let al := lam * (2 * 2) * scale * w in
    0 < al -> 0 <= r ->
    cubic_res (sqabs_p al y) (sqabs_q al (norm v)) r = 0 ->
    (r = 0 -> al * y <= 1) ->
    IsProx Tr (fun x => scale * sqabsf w y x) lam v (vscale r (dir v)).
  Proof.
    intros Hy al Hal Hr Hroot Hsel. split; [exact I|]. intros x _. unfold obj, sqabsf.
    pose proof (norm_pos v) as Hn. pose proof (norm_pos x) as Hx.
    rewrite dir_dist by auto. rewrite nsq_scale, <- (norm_sq (dir v)), dir_norm.
    pose proof (reverse_triangle_sq x v) as Hrt.
    rewrite <- (norm_sq x).
    (* the cubic, multiplied by al *)
    assert (Hcub : al * (r * r * r) + (1 - al * y) * r - norm v = 0).
    { revert Hroot. unfold cubic_res, sqabs_p, sqabs_q, nnd. rsimp. rcases; [lra|].
      intros H. assert (al * (r * r * r + (1 - al * y) / al * r + - norm v / al) = 0) by (rewrite H; ring).
      rewrite <- H0. field; lra. }
    replace (lam * (scale * (w * ((y - r * r * (1 * 1)) * (y - r * r * (1 * 1))))))
      with (/ 4 * al * ((y - r * r) * (y - r * r))) by (unfold al; field).
    replace (lam * (scale * (w * ((y - norm x * norm x) * (y - norm x * norm x)))))
      with (/ 4 * al * ((y - norm x * norm x) * (y - norm x * norm x))) by (unfold al; field).
    remember (norm x) as rho. remember (norm v) as be. remember (nsq (vsub x v)) as dx.
    clearbody al.
    (* g(rho) - g(r) = (rho-r)^2 * [al (rho^2+2 r rho+3 r^2)/4 + (1 - al y)/2] + (rho - r) * cubic *)
    assert (Hid : / 4 * al * ((y - rho * rho) * (y - rho * rho)) + / 2 * ((rho - be) * (rho - be))
                  - (/ 4 * al * ((y - r * r) * (y - r * r)) + / 2 * ((r - be) * (r - be)))
                  = (rho - r) * (rho - r) * (/ 4 * al * (rho * rho + 2 * r * rho + 3 * (r * r)) + / 2 * (1 - al * y))
                    + (rho - r) * (al * (r * r * r) + (1 - al * y) * r - be)) by field.
    rewrite Hcub in Hid.
    assert (HQ : 0 <= / 4 * al * (rho * rho + 2 * r * rho + 3 * (r * r)) + / 2 * (1 - al * y)).
    { destruct (Req_dec r 0) as [Hr0|Hr0].
      - subst r. specialize (Hsel eq_refl). nra.
      - assert (Hrp : 0 < r) by lra.
        assert (Hk : 0 <= al * (r * r) + (1 - al * y)).
        { apply Rmult_le_reg_l with r; auto. nra. }
        assert (0 <= al * (rho * rho)) by (apply Rmult_le_pos; [lra | apply sq_nonneg]).
        assert (0 <= al * (r * rho)) by (apply Rmult_le_pos; [lra | apply Rmult_le_pos; lra]).
        assert (0 <= al * (r * r)) by (apply Rmult_le_pos; [lra | apply sq_nonneg]). lra. }
    assert (0 <= (rho - r) * (rho - r) * (/ 4 * al * (rho * rho + 2 * r * rho + 3 * (r * r)) + / 2 * (1 - al * y))).
    { apply Rmult_le_pos; auto. apply sq_nonneg. }
    lra.
  Qed.

  (** al = 0 (zero weight): the code returns v *)
  Theorem sqabsloss_prox_al0 scale w y lam v : lam * (2 * 2) * scale * w = 0 ->
    IsProx Tr (fun x => scale * sqabsf w y x) lam v v.
  Proof.
    intros Hal. split; [exact I|]. intros x _. unfold obj, sqabsf.
    rewrite vsub_self, nsq_vzero. pose proof (nsq_pos (vsub x v)).
    assert (forall t, lam * (scale * (w * t)) = 0).
    { intros t. replace (lam * (scale * (w * t))) with (/ 4 * (lam * (2 * 2) * scale * w) * t) by field.
      rewrite Hal. ring. }
    rewrite !H0. lra.
  Qed.
End Phase.

(** the code forms on real entries *)
Lemma R_unit : @nsq RSpace 1 = 1.
Proof. unfold nsq; cbn. ring. Qed.
Lemma C_unit : @nsq CSpace (1, 0) = 1.
Proof. unfold nsq, CSpace; cbn. ring. Qed.

Lemma absloss_code_R scale w y lam (v : R) :
  absloss_code scale w y lam (Rabs v) v
  = @vscale RSpace (abs_be scale w y lam (@norm RSpace v)) (@dir RSpace 1 v).
Proof.
  unfold absloss_code, abs_beta, abs_be, dir, R_ltb_dec. rewrite RSpace_norm. rsimp. cbn [vscale RSpace].
  replace (1 + 1) with 2 by lra.
  destruct (R_leb (Rabs v) 0); cbn [negb]; unfold Rdiv; ring.
Qed.
Lemma cabsloss_code_C scale w y lam (v : R * R) :
  cabsloss_code scale w y lam (@norm CSpace v) v
  = @vscale CSpace (abs_be scale w y lam (@norm CSpace v)) (@dir CSpace (1, 0) v).
Proof.
  unfold cabsloss_code, abs_beta, abs_be, dir, R_ltb_dec, kcscale. rsimp.
  replace (1 + 1) with 2 by lra.
  destruct v as [v1 v2]. destruct (R_leb (@norm CSpace (v1, v2)) 0); unfold CSpace; cbn; f_equal; unfold Rdiv; ring.
Qed.
Lemma sqabsloss_code_R al (r v : R) : 0 < al ->
  sqabsloss_code al (Rabs v) r v = @vscale RSpace r (@dir RSpace 1 v).
Proof.
  intros Hal. unfold sqabsloss_code, dir, R_ltb_dec. rewrite RSpace_norm. rsimp. cbn [vscale RSpace].
  destruct (R_leb al 0) eqn:Ea; [apply R_leb_true in Ea; lra|]. cbn [negb].
  destruct (R_leb (Rabs v) 0); cbn [negb]; unfold Rdiv; ring.
Qed.
Lemma csqabsloss_code_C al r (v : R * R) : 0 < al ->
  csqabsloss_code al (@norm CSpace v) r v = @vscale CSpace r (@dir CSpace (1, 0) v).
Proof.
  intros Hal. unfold csqabsloss_code, dir, R_ltb_dec, kcscale. rsimp.
  destruct (R_leb al 0) eqn:Ea; [apply R_leb_true in Ea; lra|]. cbn [negb].
  destruct v as [v1 v2]. destruct (R_leb (@norm CSpace (v1, v2)) 0); unfold CSpace; cbn; f_equal; unfold Rdiv; ring.
Qed.

(** ** NuclearNorm: the code thresholds the singular values with maximum(0, s - lam).  On the
    spectrum (s_i >= 0) this is the prox of the sum restricted to the non-negative orthant,
    and coincides with the l1 soft threshold.
    PARTIAL: the matrix-level statement
      forall V lam, 0 < lam -> IsProx Tr nuclear lam V (U diag(svt lam s) V^H)  with (U,s,V^H) = svd V
    needs von Neumann's trace inequality and the SVD contract; not proved. *)
Theorem svt_prox_partial lam s : 0 < lam ->
  @IsProx RSpace (fun x => 0 <= x) (fun x => x) lam s (svt_code lam s).
Proof.
  intros Hlam. unfold svt_code. rsimp. split.
  - rcases; lra.
  - intros x Hx. unfold obj, nsq, vsub. cbn [ip vadd vopp RSpace]. change (@E RSpace) with R in x.
    rcases.
    + pose proof (Rle_0_sqr (x - (s - lam))) as Hq. unfold Rsqr in Hq. nra.
    + assert (0 <= x * (lam - s)) by (apply Rmult_le_pos; lra).
      pose proof (Rle_0_sqr x) as Hq. unfold Rsqr in Hq. nra.
Qed.
Lemma svt_is_soft lam s : 0 < lam -> 0 <= s -> svt_code lam s = l1_code lam s.
Proof.
  intros Hl Hs. unfold svt_code, l1_code, relu_code. rsimp. rcases; try lra.
Qed.

(** ** L1MinusL2Norm (non-convex).
    FULL STATEMENT (not proved; Lou & Yan 2018): for all n, v in R^n, lam > 0, 0 <= beta <= 1,
      IsProx Tr (fun x => ||x||_1 - beta ||x||_2) lam v (code's case analysis).
    PARTIAL: in one dimension (where ||x||_1 - beta||x||_2 = (1-beta)|x|) every branch of the
    code's case analysis returns the global minimiser. *)
Definition l1l2_code_1d (beta lam v : R) : R :=
  match l1l2_case beta lam (kabs v) with
  | 1%nat => l1l2_gt beta lam (kabs (l1l2_soft lam v)) v
  | 2%nat => l1l2_one beta lam v
  | _ => 0
  end.

Theorem l1l2_1d_partial beta lam v : 0 < lam -> 0 <= beta < 1 ->
  @IsProx RSpace Tr (fun x => Rabs x - beta * Rabs x) lam v (l1l2_code_1d beta lam v).
Proof.
  intros Hlam Hb.
  assert (Hsoft : l1l2_code_1d beta lam v = l1_code ((1 - beta) * lam) v).
  { unfold l1l2_code_1d, l1l2_case, l1l2_gt, l1l2_soft, l1l2_one, l1_code, relu_code. rsimp.
    rcases; cbn [negb]; try lra; try nra; try (field; lra). }
  rewrite Hsoft.
  assert (Hl : 0 < (1 - beta) * lam) by nra.
  pose proof (l1_code_prox ((1 - beta) * lam) v Hl) as [_ H]. split; [exact I|].
  intros x Hx. specialize (H x Hx). unfold obj in *. nra.
Qed.

(** ** Lifting to vectors and block arrays: an entry-wise (or block-wise) prox is a prox of
    the separable sum (induction over the number of components, via [prox_separable]) *)
Theorem sep_vec_prox (S : InnerSpace) lam n dom f g :
  (forall i v, (i < n)%nat -> IsProx (dom i) (f i) lam v (g i v)) ->
  forall l, length l = n ->
    @IsProx (Pow S n) (pall S n dom) (psum S n f) lam (to_pow S n l) (to_pow S n (mapi g 0 l)).
Proof.
  intros H l Hl. rewrite pmap_to_pow by auto. cbn. now apply prox_separable_pow.
Qed.

(** instances used by the harness: uniform entry maps over lists *)
Corollary l1_vec_prox lam (l : list R) : 0 < lam ->
  @IsProx (Pow RSpace (length l)) (pall RSpace _ (fun _ => Tr)) (psum RSpace _ (fun _ => Rabs)) lam
    (to_pow RSpace _ l) (to_pow RSpace _ (map (l1_code lam) l)).
Proof.
  intros Hl. rewrite <- (mapi_const (l1_code lam) 0).
  apply sep_vec_prox; auto. intros; now apply l1_code_prox.
Qed.

Corollary cl1_vec_prox lam (l : list (R * R)) : 0 < lam ->
  @IsProx (Pow CSpace (length l)) (pall CSpace _ (fun _ => Tr)) (psum CSpace _ (fun _ => @norm CSpace)) lam
    (to_pow CSpace _ l) (to_pow CSpace _ (map (fun v => cl1_code lam (@norm CSpace v) v) l)).
Proof.
  intros Hl. rewrite <- (mapi_const (fun v => cl1_code lam (@norm CSpace v) v) 0).
  apply sep_vec_prox; auto. intros; now apply cl1_code_prox.
Qed.

(** L21Norm over groups in any space S (a column of a matrix, a block of a block array) *)
Corollary l21_groups_prox (S : InnerSpace) lam (l : list (@E S)) : 0 < lam ->
  @IsProx (Pow S (length l)) (pall S _ (fun _ => Tr)) (psum S _ (fun _ => norm)) lam
    (to_pow S _ l) (to_pow S _ (map (fun v => vscale (l21_fac lam (norm v)) v) l)).
Proof.
  intros Hl. rewrite <- (mapi_const (fun v => vscale (l21_fac lam (norm v)) v) 0).
  apply sep_vec_prox; auto. intros; now apply l21_prox.
Qed.

Corollary l0_vec_prox (S : InnerSpace) lam (l : list (@E S)) : 0 < lam ->
  @IsProx (Pow S (length l)) (pall S _ (fun _ => Tr)) (psum S _ (fun _ => l0f)) lam
    (to_pow S _ l) (to_pow S _ (map (hard_spec lam) l)).
Proof.
  intros Hl. rewrite <- (mapi_const (hard_spec lam) 0).
  apply sep_vec_prox; auto. intros; now apply l0_spec_prox.
Qed.

Corollary nonneg_vec_prox lam (l : list R) :
  @IsProx (Pow RSpace (length l)) (pall RSpace _ (fun _ x => 0 <= x)) (psum RSpace _ (fun _ _ => 0)) lam
    (to_pow RSpace _ l) (to_pow RSpace _ (map nonneg_code l)).
Proof.
  rewrite <- (mapi_const nonneg_code 0).
  apply sep_vec_prox; auto. intros; apply nonneg_code_prox.
Qed.

Corollary huber_sep_vec_prox delta lam (l : list R) : 0 < delta -> 0 < lam ->
  @IsProx (Pow RSpace (length l)) (pall RSpace _ (fun _ => Tr)) (psum RSpace _ (fun _ => @huber RSpace delta)) lam
    (to_pow RSpace _ l) (to_pow RSpace _ (map (fun v => huber_code delta lam (kabs v) v) l)).
Proof.
  intros Hd Hl. rewrite <- (mapi_const (fun v => huber_code delta lam (kabs v) v) 0).
  apply sep_vec_prox; auto. intros; now apply huber_sep_code_prox.
Qed.

(** SquaredL2Loss with diagonal A, weights W and data y given per entry (complex entries) *)
Corollary csql2loss_vec_prox scale lam (a : nat -> R * R) (w : nat -> R) (y : nat -> R * R) (l : list (R * R)) :
  0 <= scale -> 0 <= lam -> (forall i, 0 <= w i) ->
  @IsProx (Pow CSpace (length l)) (pall CSpace _ (fun _ => Tr))
     (psum CSpace _ (fun i x => scale * sqloss_c (a i) (w i) (y i) x)) lam
     (to_pow CSpace _ l) (to_pow CSpace _ (mapi (fun i v => csql2loss_code scale (a i) (w i) (y i) lam v) 0 l)).
Proof.
  intros Hs Hl Hw. apply sep_vec_prox; auto. intros; now apply csql2loss_code_prox.
Qed.

(** ** The generic Loss unit as the code computes it (one real entry; vectors by [sep_vec_prox]):
    Loss.__call__ is scale * f(x - y), Loss.prox is f.prox(v - y, scale*lam) + y.  By the
    translation + scaling rule this is a prox for EVERY f with a prox -- even or not. *)
Theorem loss_code_prox (dom : R -> Prop) (f : R -> R) (fprox : R -> R -> R) (scale y lam v : R) :
  0 < scale -> 0 < lam ->
  (forall l x, 0 < l -> @IsProx RSpace dom f l x (fprox l x)) ->
  @IsProx RSpace (fun x => dom (x - y)) (fun x => scale * f (x - y)) lam v (loss_code fprox scale y lam v).
Proof.
  intros Hs Hl Hf. unfold loss_code. rsimp.
  assert (Hq : @IsProx RSpace dom f (scale * lam) (@vsub RSpace v y) (fprox (scale * lam) (v - y))).
  { rewrite RSpace_vsub. apply Hf. nra. }
  pose proof (@loss_translate_prox RSpace dom f scale y lam v _ Hq) as H.
  destruct H as [Hd Hm]. split.
  - rewrite RSpace_vsub in Hd. exact Hd.
  - intros x Hx. specialize (Hm x). rewrite RSpace_vsub in Hm. specialize (Hm Hx).
    unfold obj in *. rewrite RSpace_vsub in Hm. exact Hm.
Qed.

(** instance with a NON-EVEN f: Loss(y, f = NonNegativeIndicator) is the constraint x >= y *)
Corollary loss_nonneg_code_prox (scale y lam v : R) : 0 < scale -> 0 < lam ->
  @IsProx RSpace (fun x => 0 <= x - y) (fun x => scale * 0) lam v
    (loss_code (fun _ => nonneg_code) scale y lam v).
Proof.
  intros Hs Hl. apply (loss_code_prox (fun x => 0 <= x) (fun _ => 0) (fun _ => nonneg_code)); auto.
  intros l x _. apply nonneg_code_prox.
Qed.

(** The reflected form  y - f.prox(y - v, scale*lam)  (the prox of x |-> scale*f(y - x)):
    it coincides with the code's form when f.prox is odd (every even f), and is NOT a prox of
    scale*f(x - y) for a non-even f -- concrete witness with f = NonNegativeIndicator. *)
Definition loss_reflected_code {K} `{Num K} (fprox : K -> K -> K) (scale y lam v : K) : K :=
  (y - fprox (scale * lam) (y - v))%num.

Lemma loss_reflected_odd (fprox : R -> R -> R) (scale y lam v : R) :
  (forall l x, fprox l (- x) = - fprox l x) ->
  loss_reflected_code fprox scale y lam v = loss_code fprox scale y lam v.
Proof.
  intros Hodd. unfold loss_reflected_code, loss_code. rsimp.
  replace (y - v) with (- (v - y)) by ring. rewrite Hodd. ring.
Qed.

Theorem loss_reflected_refuted :
  exists scale y lam v : R, 0 < scale /\ 0 < lam /\
    ~ @IsProx RSpace (fun x => 0 <= x - y) (fun x => scale * 0) lam v
        (loss_reflected_code (fun _ => nonneg_code) scale y lam v).
Proof.
  exists 2, 0, 1, (-1). split; [lra|]. split; [lra|]. intros [Hd _]. revert Hd.
  unfold loss_reflected_code, nonneg_code. rsimp. rcases; lra.
Qed.
