(** C02 executable models: each scalar function is written once over [Num K], transcribing
    the body of the corresponding scico [prox] AS THE CODE COMPUTES IT (same sub-expressions,
    same guards).  Library functions that are not field operations enter as arguments:
    the value of a norm / modulus ([nv], [len], [d], [r] below; computed by the
    implementation with sqrt, checked by its square in the harness) and, for the complex
    phase, the documented meaning of exp(1j*angle(v)) (= v/|v|, and 1 at v = 0).
    For every function the transfer lemma [inj (f_Qc q) = f_R (inj q)] shows that the
    function the harness runs on rationals is the restriction of the real function the
    theorems are about. *)
From Coq Require Import QArith Qcanon Reals Qreals Lra Bool List.
From SV Require Import Base.Num.
Import ListNotations.

Section Models.
  Context {K : Type} `{Num K}.
  Local Open Scope num_scope.

  (** 0.5 * (t + |t|): branch-free positive part used by L1Norm.prox and L21Norm.prox *)
  Definition relu_code (t : K) : K := khalf * (t + kabs t).

  (** scico.numpy.util.no_nan_divide: where(y != 0, x / where(y != 0, y, 1), 0) *)
  Definition nnd (x y : K) : K := if y =? k0 then k0 else x / y.

  (** L1Norm.prox, real dtype: tmp = |v| - lam; tmp = 0.5*(tmp + |tmp|); sign(v) * tmp *)
  Definition l1_code (lam v : K) : K := ksign v * relu_code (kabs v - lam).

  (** L1Norm.prox, complex dtype: exp(1j*angle(v)) * tmp with |v| = nv *)
  Definition phase_re (nv re : K) : K := if nv =? k0 then k1 else re / nv.
  Definition phase_im (nv im : K) : K := if nv =? k0 then k0 else im / nv.
  Definition cl1_code (lam nv : K) (v : K * K) : K * K :=
    let t := relu_code (nv - lam) in (phase_re nv (fst v) * t, phase_im nv (snd v) * t).

  (** L0Norm.prox: where(|v| >= lam, v, 0); [l0_spec] is the proved minimiser *)
  Definition l0_code (lam v : K) : K := if lam <=? kabs v then v else k0.
  Definition l0_code_n (lam nv v : K) : K := if lam <=? nv then v else k0.   (* complex / given |v| *)
  Definition l0_spec (lam v : K) : K := if (k2 * lam) <=? (v * v) then v else k0.
  Definition l0_spec_n (lam n2 v : K) : K := if (k2 * lam) <=? n2 then v else k0.

  (** SquaredL2Norm.prox: v / (1.0 + 2.0*lam) *)
  Definition sql2_code (lam v : K) : K := v / (k1 + k2 * lam).

  (** L2Norm.prox: where(nv == 0, 0*v, maximum(1 - lam/nv, 0) * v) *)
  Definition l2_code (lam nv v : K) : K :=
    if nv =? k0 then k0 * v else kmax (k1 - lam / nv) k0 * v.

  (** L21Norm.prox: direction = no_nan_divide(v, length);
      new_length = 0.5*((length-lam) + |length-lam|); new_length * direction *)
  Definition l21_code (lam len v : K) : K := relu_code (len - lam) * nnd v len.

  (** HuberNorm._prox_sep / _prox_nonsep: den = maximum(a, delta*(1+lam));
      (1 - (delta*lam)/den) * v  with a = |v_i| resp. ||v|| *)
  Definition huber_code (delta lam a v : K) : K :=
    (k1 - (delta * lam) / kmax a (delta * (k1 + lam))) * v.

  (** NonNegativeIndicator.prox: maximum(v, 0) *)
  Definition nonneg_code (v : K) : K := kmax v k0.

  (** L2BallIndicator.prox: nrm = norm(v);
      where(nrm <= radius, 1.0, radius / where(nrm > 0, nrm, 1.0)) * v *)
  Definition ball_fac_code (r nv : K) : K :=
    if nv <=? r then k1 else r / (if k0 <? nv then nv else k1).
  Definition ball_code (r nv v : K) : K := ball_fac_code r nv * v.

  (** SetDistance.prox: theta = lam/d if d >= lam else 1.0; theta*y + (1-theta)*v *)
  Definition sd_theta (lam d : K) : K := if lam <=? d then lam / d else k1.
  Definition sd_code (lam d y v : K) : K := sd_theta lam d * y + (k1 - sd_theta lam d) * v.

  (** SquaredSetDistance.prox: a = 1/(1+lam); a*v + lam*a*y *)
  Definition ssd_code (lam y v : K) : K :=
    let a := k1 / (k1 + lam) in a * v + lam * a * y.

  (** Loss.prox: f.prox(v - y, scale*lam) + y *)
  Definition loss_code (fprox : K -> K -> K) (scale y lam v : K) : K :=
    fprox (scale * lam) (v - y) + y.

  (** SquaredL2Loss.prox, Diagonal branch, real dtype:
      c = 2*scale*lam; lhs = c*conj(A)*W*y + v; ATWA = c*conj(A)*W*A; lhs/(ATWA + 1) *)
  Definition sql2loss_code (scale a w y lam v : K) : K :=
    let c := k2 * scale * lam in (c * a * w * y + v) / (c * a * w * a + k1).

  (** complex arithmetic on pairs, for the complex dtype of the same branch *)
  Definition kcmul (a b : K * K) : K * K :=
    (fst a * fst b - snd a * snd b, fst a * snd b + snd a * fst b).
  Definition kcconj (a : K * K) : K * K := (fst a, - snd a).
  Definition kcadd (a b : K * K) : K * K := (fst a + fst b, snd a + snd b).
  Definition kcscale (t : K) (a : K * K) : K * K := (t * fst a, t * snd a).
  (** [ATWA + 1] is real (conj(a)*a has exactly zero imaginary part): division by its real part *)
  Definition csql2loss_code (scale : K) (a : K * K) (w : K) (y : K * K) (lam : K) (v : K * K) : K * K :=
    let c := k2 * scale * lam in
    let lhs := kcadd (kcscale (c * w) (kcmul (kcconj a) y)) v in
    let den := fst (kcscale (c * w) (kcmul (kcconj a) a)) + k1 in
    (fst lhs / den, snd lhs / den).

  (** SquaredL2AbsLoss.prox: al = lam*2*scale*w; r = |v|; beta = (al*y + r)/(al + 1);
      where(r > 0, (beta/r)*v, beta) *)
  Definition abs_beta (scale w y lam r : K) : K :=
    let al := lam * k2 * scale * w in (al * y + r) / (al + k1).
  Definition absloss_code (scale w y lam r v : K) : K :=
    if k0 <? r then (abs_beta scale w y lam r / r) * v else abs_beta scale w y lam r.
  Definition cabsloss_code (scale w y lam r : K) (v : K * K) : K * K :=
    if k0 <? r then kcscale (abs_beta scale w y lam r / r) v else (abs_beta scale w y lam r, k0).

  (** SquaredL2SquaredAbsLoss.prox: al = lam*4*scale*w; beta = |v|;
      p = no_nan_divide(1 - al*y, al); q = no_nan_divide(-beta, al);
      r = _dep_cubic_root(p, q) (an argument here: the property the code itself tests with
      _check_root is r^3 + p r + q = 0); phi = where(beta > 0, v/|v|, 1);
      x = where(al > 0, r*phi, v) *)
  Definition sqabs_alpha (scale w lam : K) : K := lam * (k2 * k2) * scale * w.
  Definition sqabs_p (al y : K) : K := nnd (k1 - al * y) al.
  Definition sqabs_q (al beta : K) : K := nnd (- beta) al.
  Definition cubic_res (p q r : K) : K := r * r * r + p * r + q.
  Definition sqabsloss_code (al beta r v : K) : K :=
    if k0 <? al then r * (if k0 <? beta then v / beta else k1) else v.
  Definition csqabsloss_code (al beta r : K) (v : K * K) : K * K :=
    if k0 <? al then (if k0 <? beta then kcscale r (fst v / beta, snd v / beta) else (r, k0)) else v.

  (** NuclearNorm.prox acts on the singular values by maximum(0, s - lam) *)
  Definition svt_code (lam s : K) : K := kmax k0 (s - lam).

  (** L1MinusL2Norm.prox case analysis (alpha = lam, vamx = max|v_i|):
      0: v = 0 -> 0;  1: vamx > alpha -> rescaled soft threshold;
      2: (1-beta)*alpha <= vamx <= alpha -> 1-sparse;  3: vamx < (1-beta)*alpha -> 0 *)
  Definition l1l2_case (beta lam vamx : K) : nat :=
    if k0 <? vamx then
      if lam <? vamx then 1%nat
      else if vamx <? (k1 - beta) * lam then 3%nat else 2%nat
    else 0%nat.
  (** case 1 entries: u = max(|v|-alpha,0)*sign v; u * (l2u + alpha*beta)/l2u with l2u = ||u|| *)
  Definition l1l2_soft (lam v : K) : K := kmax (kabs v - lam) k0 * ksign v.
  Definition l1l2_gt (beta lam l2u v : K) : K := l1l2_soft lam v * ((l2u + lam * beta) / l2u).
  (** case 2 entry at the argmax index: (|v| + (beta-1)*alpha) * sign v *)
  Definition l1l2_one (beta lam v : K) : K := (kabs v + (beta - k1) * lam) * ksign v.
End Models.

(** ** Transfer lemmas: Qc model = restriction of the R model *)
Lemma inj_if (b : bool) x y : inj (if b then x else y) = if b then inj x else inj y.
Proof. now destruct b. Qed.
Lemma inj_negb_if (b : bool) x y : inj (if negb b then x else y) = if negb b then inj x else inj y.
Proof. now destruct b. Qed.

Lemma inj_k2 : inj k2 = k2.
Proof. unfold k2; cbn. now rewrite inj_add, inj_1. Qed.
Lemma Qc2_neq0 : (1 + 1)%Qc <> 0%Qc.
Proof. intro H. apply (f_equal inj) in H. rewrite inj_add, inj_1, inj_0 in H. lra. Qed.
Lemma inj_khalf : inj khalf = khalf.
Proof.
  unfold khalf, k2; cbn. rewrite inj_inv by apply Qc2_neq0. now rewrite inj_add, inj_1.
Qed.

Lemma Qc_eqb_false_neq a : Qc_eqb a 0%Qc = false -> a <> 0%Qc.
Proof.
  intros H E. subst. unfold Qc_eqb in H. cbn in H. discriminate.
Qed.
Lemma R_eqb_inj_0 a : R_eqb (inj a) 0%R = Qc_eqb a 0%Qc.
Proof. now rewrite inj_eqb, inj_0. Qed.

Lemma R_leb_inj_0 a : R_leb (inj a) 0%R = Qc_leb a 0%Qc.
Proof. now rewrite inj_leb, inj_0. Qed.
Lemma Qc_leb_0_false_neq a : Qc_leb a 0%Qc = false -> a <> 0%Qc.
Proof. intros H E. subst. unfold Qc_leb in H. cbn in H. discriminate. Qed.

(** [runfold] of Base.Num followed by the unfolding of [k2] inside [khalf] *)
Ltac rsimp := runfold; unfold k2 in *;
  cbn [k0 k1 kadd kmul kopp ksub kinv kdiv kleb keqb Num_R] in *.

Ltac tr_unfold :=
  unfold kmax, kmin, kabs, ksign, kltb;
  cbn [k0 k1 kadd kmul kopp ksub kinv kdiv kleb keqb Num_R Num_Qc].
Ltac tr_push :=
  repeat first
    [ rewrite inj_if | rewrite inj_add | rewrite inj_sub | rewrite inj_mul | rewrite inj_opp
    | rewrite inj_0 | rewrite inj_1 | rewrite inj_leb | rewrite inj_eqb
    | rewrite inj_khalf | rewrite inj_k2 ].
Ltac tr := tr_unfold; tr_push; tr_unfold; try reflexivity.

Lemma inj_kabs a : inj (kabs a) = kabs (inj a).
Proof. tr. Qed.
Lemma inj_ksign a : inj (ksign a) = ksign (inj a).
Proof. tr. Qed.
Lemma inj_kmax a b : inj (kmax a b) = kmax (inj a) (inj b).
Proof. tr. Qed.

Lemma relu_transfer t : inj (relu_code t) = relu_code (inj t).
Proof. unfold relu_code. tr. Qed.

Lemma nnd_transfer x y : inj (nnd x y) = nnd (inj x) (inj y).
Proof.
  unfold nnd. cbn [keqb k0 kdiv Num_Qc Num_R]. rewrite R_eqb_inj_0.
  destruct (Qc_eqb y 0%Qc) eqn:E; [apply inj_0|].
  apply inj_div. now apply Qc_eqb_false_neq.
Qed.

Lemma l1_transfer lam v : inj (l1_code lam v) = l1_code (inj lam) (inj v).
Proof.
  unfold l1_code. cbn [kmul ksub Num_Qc Num_R].
  now rewrite inj_mul, inj_ksign, relu_transfer, inj_sub, inj_kabs.
Qed.

Lemma l0_transfer lam v : inj (l0_code lam v) = l0_code (inj lam) (inj v).
Proof. unfold l0_code. cbn [kleb k0 Num_Qc Num_R]. now rewrite inj_if, inj_0, inj_leb, inj_kabs. Qed.
Lemma l0n_transfer lam nv v : inj (l0_code_n lam nv v) = l0_code_n (inj lam) (inj nv) (inj v).
Proof. unfold l0_code_n. cbn [kleb k0 Num_Qc Num_R]. now rewrite inj_if, inj_0, inj_leb. Qed.
Lemma l0_spec_transfer lam v : inj (l0_spec lam v) = l0_spec (inj lam) (inj v).
Proof.
  unfold l0_spec. cbn [kleb k0 kmul Num_Qc Num_R].
  now rewrite inj_if, inj_0, inj_leb, !inj_mul, inj_k2.
Qed.

Lemma sql2_transfer lam v : (0 <= lam)%Qc -> inj (sql2_code lam v) = sql2_code (inj lam) (inj v).
Proof.
  intros Hl. unfold sql2_code. cbn [kdiv kadd kmul k1 Num_Qc Num_R].
  rewrite inj_div; [now rewrite inj_add, inj_mul, inj_1, inj_k2|].
  intro E. apply (f_equal inj) in E. rewrite inj_add, inj_mul, inj_1, inj_0, inj_k2 in E.
  apply inj_le in Hl. rewrite inj_0 in Hl. unfold k2 in E; cbn in E. lra.
Qed.

Lemma l2_transfer lam nv v : inj (l2_code lam nv v) = l2_code (inj lam) (inj nv) (inj v).
Proof.
  unfold l2_code. cbn [keqb k0 k1 kmul ksub kdiv Num_Qc Num_R].
  rewrite R_eqb_inj_0.
  destruct (Qc_eqb nv 0%Qc) eqn:E.
  - now rewrite inj_mul, inj_0.
  - rewrite inj_mul, inj_kmax, inj_sub, inj_1, inj_0, inj_div; auto. now apply Qc_eqb_false_neq.
Qed.

Lemma l21_transfer lam len v : inj (l21_code lam len v) = l21_code (inj lam) (inj len) (inj v).
Proof.
  unfold l21_code. cbn [kmul ksub Num_Qc Num_R].
  now rewrite inj_mul, relu_transfer, inj_sub, nnd_transfer.
Qed.

Lemma cl1_transfer lam nv re im :
  (inj (fst (cl1_code lam nv (re, im))), inj (snd (cl1_code lam nv (re, im))))
  = cl1_code (inj lam) (inj nv) (inj re, inj im).
Proof.
  unfold cl1_code, phase_re, phase_im. cbn [fst snd keqb k0 k1 kmul ksub kdiv Num_Qc Num_R].
  rewrite !R_eqb_inj_0.
  rewrite !inj_mul, !relu_transfer, inj_sub.
  destruct (Qc_eqb nv 0%Qc) eqn:E.
  - now rewrite inj_1, inj_0.
  - pose proof (Qc_eqb_false_neq _ E). now rewrite !inj_div.
Qed.

Lemma huber_transfer delta lam a v :
  (0 < delta)%Qc -> (0 <= lam)%Qc ->
  inj (huber_code delta lam a v) = huber_code (inj delta) (inj lam) (inj a) (inj v).
Proof.
  intros Hd Hl. unfold huber_code. cbn [kmul ksub kdiv kadd k1 Num_Qc Num_R].
  rewrite inj_mul, inj_sub, inj_1, inj_div.
  - now rewrite inj_kmax, !inj_mul, inj_add, inj_1.
  - intro E. apply (f_equal inj) in E. rewrite inj_kmax, inj_mul, inj_add, inj_1, inj_0 in E.
    apply inj_lt in Hd. apply inj_le in Hl. rewrite inj_0 in *.
    revert E. unfold kmax. cbn [kleb kmul kadd k1 Num_R]. rcases; nra.
Qed.

Lemma nonneg_transfer v : inj (nonneg_code v) = nonneg_code (inj v).
Proof. unfold nonneg_code. rewrite inj_kmax. cbn [k0 Num_Qc Num_R]. now rewrite inj_0. Qed.

Lemma ball_transfer r nv v : inj (ball_code r nv v) = ball_code (inj r) (inj nv) (inj v).
Proof.
  unfold ball_code, ball_fac_code, kltb. cbn [kmul kdiv kleb k0 k1 Num_Qc Num_R].
  rewrite inj_mul. f_equal. rewrite inj_if, inj_1, inj_leb. rewrite R_leb_inj_0.
  destruct (R_leb (inj nv) (inj r)); auto.
  destruct (Qc_leb nv 0%Qc) eqn:E; cbn [negb].
  - rewrite inj_div, inj_1; auto. intro H. apply (f_equal inj) in H. rewrite inj_1, inj_0 in H. lra.
  - apply inj_div. now apply Qc_leb_0_false_neq.
Qed.

Lemma sd_theta_transfer lam d : (0 < lam)%Qc -> inj (sd_theta lam d) = sd_theta (inj lam) (inj d).
Proof.
  intros Hl. unfold sd_theta. cbn [kleb kdiv k1 Num_Qc Num_R]. rewrite inj_if, inj_1, inj_leb.
  destruct (R_leb (inj lam) (inj d)) eqn:E; auto. apply R_leb_true in E.
  apply inj_div. intro Hd; subst. apply inj_lt in Hl. rewrite inj_0 in *. lra.
Qed.
Lemma sd_transfer lam d y v : (0 < lam)%Qc ->
  inj (sd_code lam d y v) = sd_code (inj lam) (inj d) (inj y) (inj v).
Proof.
  intros Hl. unfold sd_code. cbn [kadd kmul ksub k1 Num_Qc Num_R].
  now rewrite inj_add, !inj_mul, inj_sub, inj_1, !sd_theta_transfer.
Qed.

Lemma ssd_transfer lam y v : (0 <= lam)%Qc -> inj (ssd_code lam y v) = ssd_code (inj lam) (inj y) (inj v).
Proof.
  intros Hl. unfold ssd_code. cbn [kadd kmul kdiv k1 Num_Qc Num_R].
  assert ((1 + lam)%Qc <> 0%Qc).
  { intro E. apply (f_equal inj) in E. rewrite inj_add, inj_1, inj_0 in E.
    apply inj_le in Hl. rewrite inj_0 in Hl. lra. }
  now rewrite inj_add, !inj_mul, !inj_div, inj_add, inj_1.
Qed.

Lemma loss_transfer (fq : Qc -> Qc -> Qc) (fr : R -> R -> R) scale y lam v :
  (forall l x, inj (fq l x) = fr (inj l) (inj x)) ->
  inj (loss_code fq scale y lam v) = loss_code fr (inj scale) (inj y) (inj lam) (inj v).
Proof.
  intros Hf. unfold loss_code. cbn [kadd kmul ksub Num_Qc Num_R].
  now rewrite inj_add, Hf, inj_mul, inj_sub.
Qed.

Lemma sql2loss_transfer scale a w y lam v :
  (0 <= scale)%Qc -> (0 <= w)%Qc -> (0 <= lam)%Qc ->
  inj (sql2loss_code scale a w y lam v)
  = sql2loss_code (inj scale) (inj a) (inj w) (inj y) (inj lam) (inj v).
Proof.
  intros Hs Hw Hl. unfold sql2loss_code. cbn [kadd kmul kdiv k1 Num_Qc Num_R].
  rewrite inj_div.
  - now rewrite !inj_add, !inj_mul, inj_1, inj_k2.
  - intro E. apply (f_equal inj) in E. rewrite inj_add, !inj_mul, inj_1, inj_0, inj_k2 in E.
    apply inj_le in Hs; apply inj_le in Hw; apply inj_le in Hl; rewrite inj_0 in *. unfold k2 in E; cbn in E.
    pose proof (Rle_0_sqr (inj a)) as Ha. unfold Rsqr in Ha.
    assert (0 <= inj scale * inj lam * inj w)%R by (apply Rmult_le_pos; [apply Rmult_le_pos|]; assumption).
    nra.
Qed.

Lemma abs_beta_transfer scale w y lam r :
  (0 <= scale)%Qc -> (0 <= w)%Qc -> (0 <= lam)%Qc ->
  inj (abs_beta scale w y lam r) = abs_beta (inj scale) (inj w) (inj y) (inj lam) (inj r).
Proof.
  intros Hs Hw Hl. unfold abs_beta. cbn [kadd kmul kdiv k1 Num_Qc Num_R].
  rewrite inj_div.
  - now rewrite !inj_add, !inj_mul, inj_1, inj_k2.
  - intro E. apply (f_equal inj) in E. rewrite inj_add, !inj_mul, inj_1, inj_0, inj_k2 in E.
    apply inj_le in Hs; apply inj_le in Hw; apply inj_le in Hl; rewrite inj_0 in *. unfold k2 in E; cbn in E.
    assert (0 <= inj lam * inj scale * inj w)%R by (apply Rmult_le_pos; [apply Rmult_le_pos|]; assumption).
    nra.
Qed.

Lemma absloss_transfer scale w y lam r v :
  (0 <= scale)%Qc -> (0 <= w)%Qc -> (0 <= lam)%Qc ->
  inj (absloss_code scale w y lam r v)
  = absloss_code (inj scale) (inj w) (inj y) (inj lam) (inj r) (inj v).
Proof.
  intros Hs Hw Hl. unfold absloss_code, kltb. cbn [kleb k0 kmul kdiv Num_Qc Num_R].
  rewrite R_leb_inj_0.
  destruct (Qc_leb r 0%Qc) eqn:E; cbn [negb].
  - now apply abs_beta_transfer.
  - rewrite inj_mul, inj_div, abs_beta_transfer; auto.
    now apply Qc_leb_0_false_neq.
Qed.

Lemma svt_transfer lam s : inj (svt_code lam s) = svt_code (inj lam) (inj s).
Proof. unfold svt_code. cbn [k0 ksub Num_Qc Num_R]. now rewrite inj_kmax, inj_0, inj_sub. Qed.

Lemma sqabsloss_transfer al beta r v :
  inj (sqabsloss_code al beta r v) = sqabsloss_code (inj al) (inj beta) (inj r) (inj v).
Proof.
  unfold sqabsloss_code, kltb. cbn [kleb k0 k1 kmul kdiv Num_Qc Num_R].
  rewrite !R_leb_inj_0.
  destruct (Qc_leb al 0%Qc); cbn [negb]; auto.
  rewrite inj_mul. f_equal.
  destruct (Qc_leb beta 0%Qc) eqn:E; cbn [negb]; [apply inj_1|].
  apply inj_div. now apply Qc_leb_0_false_neq.
Qed.

Lemma cubic_res_transfer p q r : inj (cubic_res p q r) = cubic_res (inj p) (inj q) (inj r).
Proof. unfold cubic_res. cbn [kadd kmul Num_Qc Num_R]. now rewrite !inj_add, !inj_mul. Qed.

Lemma l1l2_case_transfer beta lam vamx :
  l1l2_case beta lam vamx = l1l2_case (inj beta) (inj lam) (inj vamx).
Proof.
  unfold l1l2_case, kltb. cbn [kleb k0 k1 kmul ksub Num_Qc Num_R].
  rewrite !inj_leb, inj_mul, inj_sub, inj_0, inj_1. reflexivity.
Qed.
Lemma l1l2_one_transfer beta lam v : inj (l1l2_one beta lam v) = l1l2_one (inj beta) (inj lam) (inj v).
Proof.
  unfold l1l2_one. cbn [kadd kmul ksub k1 Num_Qc Num_R].
  now rewrite inj_mul, inj_add, inj_mul, inj_sub, inj_1, inj_kabs, inj_ksign.
Qed.
Lemma l1l2_soft_transfer lam v : inj (l1l2_soft lam v) = l1l2_soft (inj lam) (inj v).
Proof.
  unfold l1l2_soft. cbn [kmul ksub k0 Num_Qc Num_R].
  now rewrite inj_mul, inj_kmax, inj_sub, inj_0, inj_kabs, inj_ksign.
Qed.
