(** C02 theorems, norms: the prox bodies of L1Norm (real and complex), L2Norm, L21Norm,
    SquaredL2Norm, HuberNorm (separable and non-separable) and the hard threshold of L0Norm,
    in the form the code computes them ([C02.Models] at the R instance), return the global
    minimiser of lam*f(x) + 1/2||x - v||^2 for all v, all lam > 0 and all parameters.
    Everything that is a statement about a norm is proved once in an abstract inner-product
    space E (so E = R, C, R^n, C^n, a block of a block array ... are instances). *)
From Coq Require Import Reals Lra Psatz.
From SV Require Import Base.Num Base.InnerSpace Prox.ProxTheory C02.Basics C02.Models.
Open Scope R_scope.

Definition Tr {S : InnerSpace} : @E S -> Prop := fun _ => True.

(** *** real-number facts about the branch-free pieces of the code *)
Lemma relu_code_pos t : 0 <= t -> relu_code t = t.
Proof. intros. unfold relu_code. rsimp. rcases; lra. Qed.
Lemma relu_code_neg t : t <= 0 -> relu_code t = 0.
Proof. intros. unfold relu_code. rsimp. rcases; lra. Qed.
Lemma relu_code_nonneg t : 0 <= relu_code t.
Proof. destruct (Rle_dec 0 t); [rewrite relu_code_pos | rewrite relu_code_neg]; lra. Qed.
Lemma kabs_R x : kabs x = Rabs x.
Proof. rsimp. unfold Rabs. rcases; destruct (Rcase_abs x); lra. Qed.
Lemma kmax_R a b : kmax a b = Rmax a b.
Proof. rsimp. unfold Rmax. rcases; destruct (Rle_dec a b); lra. Qed.

Lemma div_le_1 a b : 0 < b -> a <= b -> a / b <= 1.
Proof.
  intros Hb H. apply Rmult_le_reg_r with b; [lra|].
  replace (a / b * b) with a by (field; lra). lra.
Qed.
Lemma div_gt_1 a b : 0 < b -> b < a -> 1 < a / b.
Proof.
  intros Hb H. apply Rmult_lt_reg_r with b; [lra|].
  replace (a / b * b) with a by (field; lra). lra.
Qed.

Section Abstract.
  Context {S : InnerSpace}.

  (** the certificate term for a point on the ray through v *)
  Lemma ip_ray c v z :
    ip (vsub v (vscale c v)) (vsub z (vscale c v)) = (1 - c) * (ip v z - c * nsq v).
  Proof. ip_expand. generalize (ip v v) (ip v z). intros. ring. Qed.

  (** ** Block soft threshold (l2 norm; l1 is the case E = R or C) *)
  Theorem gsoft_prox lam v d :
    0 < lam -> (norm v <> 0 -> d = vscale (/ norm v) v) ->
    IsProx Tr norm lam v (vscale (relu_code (norm v - lam)) d).
  Proof.
    intros Hlam Hd. apply subcert_prox. split; [exact I|]. intros z _.
    pose proof (norm_pos v) as Hn. pose proof (norm_pos z) as Hm.
    pose proof (cauchy_schwarz_norm v z) as Hcs.
    destruct (Rle_dec (norm v) lam) as [Hle|Hgt].
    - rewrite relu_code_neg by lra. rewrite vscale_0_l, norm_0, !vsub_0_r.
      assert (norm v * norm z <= lam * norm z) by (apply Rmult_le_compat_r; lra). lra.
    - apply Rnot_le_lt in Hgt. rewrite relu_code_pos by lra.
      rewrite Hd by lra. rewrite vscale_scale.
      remember (lam / norm v) as t eqn:Ht.
      assert (Hl : lam = t * norm v) by (subst t; field; lra).
      assert (Hc : (norm v - lam) * / norm v = 1 - t) by (subst t; field; lra).
      assert (Ht0 : 0 < t) by (subst t; apply Rdiv_lt_0_compat; lra).
      rewrite Hc. rewrite ip_ray, norm_scale_pos.
      2:{ assert (t * norm v < 1 * norm v) by lra. assert (t < 1) by (apply Rmult_lt_reg_r with (norm v); lra). lra. }
      rewrite <- norm_sq.
      assert (t * ip v z <= t * (norm v * norm z)) by (apply Rmult_le_compat_l; lra).
      rewrite Hl. generalize dependent (ip v z). generalize dependent (norm v).
      generalize dependent (norm z). intros. nra.
  Qed.

  (** L2Norm.prox as the code computes it: where(nv == 0, 0*v, maximum(1 - lam/nv, 0)*v) *)
  Definition l2_fac (lam nv : R) : R := if R_eqb nv 0 then 0 else Rmax (1 - lam / nv) 0.
  Theorem l2_prox lam v : 0 < lam -> IsProx Tr norm lam v (vscale (l2_fac lam (norm v)) v).
  Proof.
    intros Hlam. pose proof (norm_pos v) as Hn. unfold l2_fac. rcases.
    - replace (vscale 0 v) with (vscale (relu_code (norm v - lam)) vzero).
      + apply gsoft_prox; auto. intros; lra.
      + now rewrite vscale_0_r, vscale_0_l.
    - replace (vscale (Rmax (1 - lam / norm v) 0) v)
        with (vscale (relu_code (norm v - lam)) (vscale (/ norm v) v)).
      + apply gsoft_prox; auto.
      + rewrite vscale_scale. f_equal.
        destruct (Rle_dec lam (norm v)).
        * rewrite relu_code_pos by lra. rewrite Rmax_left; [field; lra|].
          assert (lam / norm v <= 1) by (apply div_le_1; lra). lra.
        * rewrite relu_code_neg by lra. rewrite Rmax_right; [lra|].
          assert (1 < lam / norm v) by (apply div_gt_1; lra). lra.
  Qed.

  (** L21Norm.prox on one group (and on a whole array / block when l2_axis = None):
      0.5*((len-lam)+|len-lam|) * no_nan_divide(v, len) *)
  Definition l21_fac (lam len : R) : R := relu_code (len - lam) * nnd 1 len.
  Theorem l21_prox lam v : 0 < lam -> IsProx Tr norm lam v (vscale (l21_fac lam (norm v)) v).
  Proof.
    intros Hlam. unfold l21_fac. rewrite <- vscale_scale. apply gsoft_prox; auto.
    intros Hn. unfold nnd. rsimp. rcases; [lra|]. f_equal. unfold Rdiv. lra.
  Qed.

  (** ** Squared l2 norm: v / (1 + 2 lam) *)
  Theorem sql2_prox lam v : 0 < lam -> IsProx Tr nsq lam v (vscale (/ (1 + 2 * lam)) v).
  Proof.
    intros Hlam. apply subcert_prox. split; [exact I|]. intros z _.
    set (c := / (1 + 2 * lam)).
    assert (Hc : 1 - c = 2 * lam * c) by (unfold c; field; lra).
    rewrite ip_ray, nsq_scale, Hc.
    pose proof (nsq_pos (vsub z (vscale c v))) as Hp. rewrite nsq_sub, nsq_scale, ip_scale_r in Hp.
    rewrite (ip_sym z v) in Hp.
    generalize dependent (ip v z). generalize dependent (nsq v). generalize dependent (nsq z).
    intros. nra.
  Qed.

  (** ** Huber norm (non-separable form on E; the separable form is E = R / C per entry) *)
  Definition huber (delta : R) (x : E) : R :=
    if R_leb (norm x) delta then / 2 * nsq x else delta * (norm x - delta / 2).
  Definition huber_fac (delta lam a : R) : R := 1 - (delta * lam) / Rmax a (delta * (1 + lam)).

  Lemma huber_lower delta s m z : 0 < delta -> 0 <= s <= delta -> m = norm z ->
    s * m - / 2 * (s * s) <= huber delta z.
  Proof.
    intros Hd Hs Hm. unfold huber. rewrite <- norm_sq, <- Hm. pose proof (norm_pos z).
    rcases.
    - pose proof (Rle_0_sqr (m - s)) as Hq. unfold Rsqr in Hq. nra.
    - nra.
  Qed.

  Theorem huber_prox delta lam v : 0 < delta -> 0 < lam ->
    IsProx Tr (huber delta) lam v (vscale (huber_fac delta lam (norm v)) v).
  Proof.
    intros Hd Hlam. apply subcert_prox. split; [exact I|]. intros z _.
    pose proof (norm_pos v) as Hn. pose proof (norm_pos z) as Hm.
    pose proof (cauchy_schwarz_norm v z) as Hcs.
    unfold huber_fac. rewrite ip_ray.
    destruct (Rle_dec (norm v) (delta * (1 + lam))) as [Hle|Hgt].
    - rewrite Rmax_right by lra.
      set (c := / (1 + lam)).
      assert (Hc : 1 - delta * lam / (delta * (1 + lam)) = c) by (unfold c; field; lra).
      rewrite Hc.
      assert (Hc0 : 0 < c) by (apply Rinv_0_lt_compat; lra).
      assert (Hc1 : 1 - c = lam * c) by (unfold c; field; lra).
      assert (Hs : c * norm v <= delta).
      { apply Rmult_le_reg_l with (1 + lam); [lra|].
        replace ((1 + lam) * (c * norm v)) with (norm v) by (unfold c; field; lra). lra. }
      pose proof (huber_lower delta (c * norm v) (norm z) z Hd ltac:(split; nra) eq_refl) as Hz.
      unfold huber at 1. rewrite norm_scale_pos by lra.
      destruct (R_leb (c * norm v) delta) eqn:Eb; [|apply R_leb_false in Eb; lra].
      rewrite nsq_scale, Hc1. rewrite <- norm_sq.
      assert (c * ip v z <= c * (norm v * norm z)) by (apply Rmult_le_compat_l; lra).
      remember (ip v z) as a. remember (huber delta z) as hz.
      remember (norm v) as n. remember (norm z) as m.
      assert (lam * (c * a - / 2 * (c * n * (c * n))) <= lam * hz) by (apply Rmult_le_compat_l; nra).
      nra.
    - apply Rnot_le_lt in Hgt. rewrite Rmax_left by lra.
      assert (Hn0 : 0 < norm v) by nra.
      remember (delta / norm v) as t eqn:Ht.
      assert (Hl : delta = t * norm v) by (subst t; field; lra).
      assert (Ht0 : 0 < t) by (subst t; apply Rdiv_lt_0_compat; lra).
      assert (Hc : 1 - delta * lam / norm v = 1 - lam * t) by (subst t; field; lra).
      rewrite Hc.
      assert (Hc0 : 0 < 1 - lam * t).
      { apply Rmult_lt_reg_r with (norm v); auto. nra. }
      pose proof (huber_lower delta delta (norm z) z Hd ltac:(lra) eq_refl) as Hz.
      unfold huber at 1. rewrite norm_scale_pos by lra.
      destruct (R_leb ((1 - lam * t) * norm v) delta) eqn:Eb; [apply R_leb_true in Eb; nra|].
      rewrite <- norm_sq.
      assert (t * ip v z <= t * (norm v * norm z)) by (apply Rmult_le_compat_l; lra).
      replace (1 - (1 - lam * t)) with (lam * t) by ring.
      remember (ip v z) as a. remember (huber delta z) as hz.
      remember (norm v) as n. remember (norm z) as m.
      rewrite Hl in *.
      assert (lam * (t * a - / 2 * (t * n * (t * n))) <= lam * hz).
      { apply Rmult_le_compat_l; [lra|]. nra. }
      nra.
  Qed.

  (** ** l0 "norm": hard threshold.  f(x) = 0 if x = 0, 1 otherwise; non-convex, so global
      optimality is proved by direct comparison.  The minimiser keeps v iff ||v||^2 >= 2 lam. *)
  Definition l0f (x : E) : R := if R_eqb (nsq x) 0 then 0 else 1.
  Lemma l0f_01 x : 0 <= l0f x <= 1.
  Proof. unfold l0f. rcases; lra. Qed.
  Lemma l0f_zero : l0f vzero = 0.
  Proof. unfold l0f. rewrite nsq_vzero. rcases; lra. Qed.

  Definition hard_spec (lam : R) (v : E) : E := if R_leb (2 * lam) (nsq v) then v else vzero.

  Theorem l0_spec_prox lam v : 0 < lam -> IsProx Tr l0f lam v (hard_spec lam v).
  Proof.
    intros Hlam. split; [exact I|]. intros x _. unfold obj, hard_spec.
    pose proof (l0f_01 v) as Hv. pose proof (nsq_pos (vsub x v)) as Hx.
    rcases.
    - rewrite vsub_self, nsq_vzero. unfold l0f at 2. rcases.
      + apply nsq_0 in Heq. subst x.
        replace (nsq (vsub vzero v)) with (nsq v).
        * assert (lam * l0f v <= lam * 1) by (apply Rmult_le_compat_l; lra). lra.
        * rewrite nsq_sub_sym, vsub_0_r. reflexivity.
      + assert (lam * l0f v <= lam * 1) by (apply Rmult_le_compat_l; lra). lra.
    - rewrite l0f_zero. replace (nsq (vsub vzero v)) with (nsq v) by (now rewrite nsq_sub_sym, vsub_0_r).
      unfold l0f. rcases.
      + apply nsq_0 in Heq. subst x. rewrite nsq_sub_sym, vsub_0_r. lra.
      + lra.
  Qed.

  (** L0Norm.prox as the code computes it: where(|v| >= lam, v, 0), with nv = ||v||.
      FULL STATEMENT (refuted for the unchanged code, see Findings/C02_L0Norm.v):
        forall lam v, 0 < lam -> IsProx Tr l0f lam v (hard_code lam v).
      It holds exactly outside the two regions lam <= |v| < sqrt(2 lam) and
      sqrt(2 lam) < |v| < lam: *)
  Definition hard_code (lam : R) (v : E) : E := if R_leb lam (norm v) then v else vzero.

  Theorem l0_code_prox_restricted lam v : 0 < lam ->
    ~ (lam <= norm v /\ nsq v < 2 * lam) -> ~ (norm v < lam /\ 2 * lam < nsq v) ->
    IsProx Tr l0f lam v (hard_code lam v).
  Proof.
    intros Hlam H1 H2. pose proof (l0_spec_prox lam v Hlam) as Hs.
    unfold hard_code, hard_spec in *. rcases; auto.
    - exfalso. apply H1. lra.
    - (* tie or both zero: ||v||^2 = 2 lam with |v| < lam: both points are minimisers *)
      assert (nsq v = 2 * lam) by (destruct (Rle_dec (nsq v) (2 * lam)); [lra | exfalso; apply H2; lra]).
      destruct Hs as [_ Hs]. split; [exact I|]. intros x Hx. specialize (Hs x Hx).
      unfold obj in *. rewrite vsub_self, nsq_vzero in Hs. rewrite l0f_zero.
      replace (nsq (vsub vzero v)) with (nsq v) by (now rewrite nsq_sub_sym, vsub_0_r).
      pose proof (l0f_01 v). assert (l0f v = 1).
      { unfold l0f. rcases; lra. }
      rewrite H3 in Hs. lra.
  Qed.

  (** and it fails everywhere inside them *)
  Theorem l0_code_not_prox lam v : 0 < lam ->
    (lam <= norm v /\ nsq v < 2 * lam) \/ (norm v < lam /\ 2 * lam < nsq v) ->
    ~ IsProx Tr l0f lam v (hard_code lam v).
  Proof.
    intros Hlam Hreg [_ Hp]. unfold hard_code in Hp. pose proof (norm_pos v) as Hn.
    destruct Hreg as [[Ha Hb]|[Ha Hb]].
    - destruct (R_leb lam (norm v)) eqn:Eb; [|apply R_leb_false in Eb; lra].
      clear Eb. specialize (Hp vzero I). unfold obj in Hp.
      rewrite vsub_self, nsq_vzero, l0f_zero in Hp.
      replace (nsq (vsub vzero v)) with (nsq v) in Hp by (now rewrite nsq_sub_sym, vsub_0_r).
      assert (l0f v = 1).
      { unfold l0f. rcases; auto. rewrite <- norm_sq in Heq. nra. }
      rewrite H in Hp. lra.
    - destruct (R_leb lam (norm v)) eqn:Eb; [apply R_leb_true in Eb; lra|].
      clear Eb. specialize (Hp v I). unfold obj in Hp.
      rewrite vsub_self, nsq_vzero, l0f_zero in Hp.
      replace (nsq (vsub vzero v)) with (nsq v) in Hp by (now rewrite nsq_sub_sym, vsub_0_r).
      pose proof (l0f_01 v). nra.
  Qed.
End Abstract.

(** ** Instances: the scalar code forms on E = R and E = C *)

(** L1Norm.prox, real dtype *)
Theorem l1_code_prox lam (v : R) : 0 < lam ->
  @IsProx RSpace Tr Rabs lam v (l1_code lam v).
Proof.
  intros Hlam.
  assert (Hf : forall x : @E RSpace, Rabs x = @norm RSpace x) by (intros; now rewrite RSpace_norm).
  assert (Hg : @IsProx RSpace Tr (@norm RSpace) lam v (l1_code lam v)).
  { unfold l1_code. rewrite kabs_R, <- RSpace_norm.
    replace (ksign v * relu_code (@norm RSpace v - lam))%num
      with (@vscale RSpace (relu_code (@norm RSpace v - lam)) (ksign v)) by (cbn; ring).
    apply (@gsoft_prox RSpace); auto.
    intros Hn. rewrite RSpace_norm in *. cbn. rsimp. unfold Rabs in *.
    rcases; destruct (Rcase_abs v); try lra; field; lra. }
  destruct Hg as [Hd Hg]. split; auto. intros x Hx. specialize (Hg x Hx).
  unfold obj in *. now rewrite !Hf.
Qed.

(** L1Norm.prox, complex dtype: exp(1j*angle(v)) * tmp with nv = |v| *)
Theorem cl1_code_prox lam (v : R * R) : 0 < lam ->
  @IsProx CSpace Tr (@norm CSpace) lam v (cl1_code lam (@norm CSpace v) v).
Proof.
  intros Hlam. unfold cl1_code, phase_re, phase_im.
  set (n := @norm CSpace v).
  replace (_, _) with (@vscale CSpace (relu_code (n - lam))
     ((if R_eqb n 0 then 1 else fst v / n), (if R_eqb n 0 then 0 else snd v / n))).
  - apply (@gsoft_prox CSpace); auto. fold n. intros Hn. rcases; [lra|].
    destruct v; unfold CSpace; cbn. f_equal; unfold Rdiv; ring.
  - rsimp. unfold CSpace; cbn. f_equal; ring.
Qed.

(** l1_code is linear in the factor form used for L21 on real scalars: used by the harness
    correspondence (the vector model is [map (kmul fac)]). *)
Lemma l2_code_fac lam nv (x : R) : l2_code lam nv x = l2_fac lam nv * x.
Proof. unfold l2_code, l2_fac. rewrite kmax_R. rsimp. rcases; ring. Qed.
Lemma l21_code_fac lam len (x : R) : l21_code lam len x = l21_fac lam len * x.
Proof. unfold l21_code, l21_fac, nnd. rsimp. rcases; unfold Rdiv; ring. Qed.
Lemma huber_code_fac delta lam a (x : R) : huber_code delta lam a x = huber_fac delta lam a * x.
Proof. unfold huber_code, huber_fac. rewrite kmax_R. rsimp. reflexivity. Qed.
Lemma sql2_code_fac lam (x : R) : sql2_code lam x = / (1 + 2 * lam) * x.
Proof. unfold sql2_code. rsimp. unfold Rdiv. replace (1 + (1 + 1) * lam) with (1 + 2 * lam) by ring. ring. Qed.
Lemma l0_spec_hard lam (v : R) : l0_spec lam v = @hard_spec RSpace lam v.
Proof. unfold l0_spec, hard_spec. rsimp. reflexivity. Qed.
Lemma l0_code_hard lam (v : R) : l0_code lam v = @hard_code RSpace lam v.
Proof. unfold l0_code, hard_code. rewrite kabs_R, RSpace_norm. reflexivity. Qed.

(** Huber, separable form, one real entry: (1 - delta*lam/max(|v|, delta(1+lam))) v *)
Theorem huber_sep_code_prox delta lam (v : R) : 0 < delta -> 0 < lam ->
  @IsProx RSpace Tr (@huber RSpace delta) lam v (huber_code delta lam (kabs v) v).
Proof.
  intros. rewrite huber_code_fac, kabs_R, <- RSpace_norm. apply (@huber_prox RSpace); auto.
Qed.
