(** C02 theorems, indicators and distances: NonNegativeIndicator, L2BallIndicator (the proved
    projection, the code's formula restricted to where it is right), ZeroFunctional,
    SetDistance and SquaredSetDistance given a metric projection. *)
From Coq Require Import Reals Lra Psatz.
From SV Require Import Base.Num Base.InnerSpace Prox.ProxTheory C02.Basics C02.Models C02.Norms.
Open Scope R_scope.

(** ** ZeroFunctional.prox: v *)
Theorem zero_prox {S : InnerSpace} lam (v : @E S) : IsProx Tr (fun _ => 0) lam v v.
Proof.
  split; [exact I|]. intros x _. unfold obj. rewrite vsub_self, nsq_vzero.
  pose proof (nsq_pos (vsub x v)). lra.
Qed.

(** ** NonNegativeIndicator.prox: maximum(v, 0), one real entry; dom = [0, inf), f = 0 *)
Theorem nonneg_code_prox lam (v : R) :
  @IsProx RSpace (fun x => 0 <= x) (fun _ => 0) lam v (nonneg_code v).
Proof.
  unfold nonneg_code. rsimp. split.
  - rcases; lra.
  - intros x Hx. unfold obj, nsq, vsub. cbn [ip vadd vopp RSpace]. change (@E RSpace) with R in x. rcases.
    + assert (0 <= x * (-v)) by (apply Rmult_le_pos; lra). nra.
    + pose proof (Rle_0_sqr (x + - v)) as Hq. unfold Rsqr in Hq. nra.
Qed.

Section Ball.
  Context {S : InnerSpace}.
  Variable r : R.
  Definition inball (x : E) : Prop := norm x <= r.

  (** the projection onto the ball: v inside / on the sphere -> v; outside -> r v/||v|| *)
  Definition ball_proj (v : E) : E := if R_leb (norm v) r then v else vscale (r / norm v) v.

  Theorem ball_spec_prox lam v : 0 <= r -> IsProx inball (fun _ => 0) lam v (ball_proj v).
  Proof.
    intros Hr. apply subcert_prox. unfold ball_proj, inball. pose proof (norm_pos v) as Hn.
    rcases.
    - split; auto. intros z Hz. rewrite vsub_self, ip_0_l. lra.
    - assert (Hc : 0 <= r / norm v) by (apply Rmult_le_pos; [lra | apply Rlt_le, Rinv_0_lt_compat; lra]).
      assert (Hrn : r / norm v * norm v = r) by (field; lra).
      split.
      + rewrite norm_scale_pos by auto. lra.
      + intros z Hz. rewrite ip_ray, <- norm_sq.
        pose proof (cauchy_schwarz_norm v z) as Hcs. pose proof (norm_pos z) as Hm.
        assert (Hc1 : r / norm v <= 1) by (apply div_le_1; lra).
        remember (r / norm v) as c. remember (norm v) as n. remember (norm z) as m.
        remember (ip v z) as a.
        assert (a - c * (n * n) <= 0) by nra.
        assert (0 <= 1 - c) by lra. nra.
  Qed.

  (** L2BallIndicator.prox as the code computes it:
      where(nrm <= radius, 1.0, radius / where(nrm > 0, nrm, 1.0)) * v  -- for ALL v
      (inside, on, outside the sphere, v = 0) it is the projection *)
  Definition ball_fac (nv : R) : R :=
    if R_leb nv r then 1 else r / (if negb (R_leb nv 0) then nv else 1).

  Lemma ball_code_is_proj v : 0 <= r -> vscale (ball_fac (norm v)) v = ball_proj v.
  Proof.
    intros Hr. unfold ball_fac, ball_proj. pose proof (norm_pos v).
    destruct (R_leb (norm v) r) eqn:E1; [apply vscale_1|]. apply R_leb_false in E1.
    destruct (R_leb (norm v) 0) eqn:E2; [apply R_leb_true in E2; lra|]. reflexivity.
  Qed.

  Theorem ball_code_prox lam v : 0 <= r ->
    IsProx inball (fun _ => 0) lam v (vscale (ball_fac (norm v)) v).
  Proof. intros Hr. rewrite ball_code_is_proj by auto. now apply ball_spec_prox. Qed.
End Ball.

Lemma ball_code_fac r nv (x : R) : ball_code r nv x = ball_fac r nv * x.
Proof. unfold ball_code, ball_fac_code, ball_fac. rsimp. reflexivity. Qed.

(** ** Distance and squared distance to a closed convex set, given its metric projection *)
Section SetDist.
  Context {S : InnerSpace}.
  Variable C : E -> Prop.
  Variable proj : E -> E.
  Hypothesis proj_in : forall x, C (proj x).
  Hypothesis proj_obtuse : forall x c, C c -> ip (vsub x (proj x)) (vsub c (proj x)) <= 0.

  Definition dist (x : E) : R := norm (vsub x (proj x)).
  Definition sqdist (x : E) : R := / 2 * nsq (vsub x (proj x)).

  (** a point of the form proj v + t (v - proj v), t >= 0, has the same projection *)
  Lemma proj_ray v t : 0 <= t ->
    proj (vadd (proj v) (vscale t (vsub v (proj v)))) = proj v.
  Proof.
    intros Ht. set (y := proj v). set (p := vadd y (vscale t (vsub v y))).
    symmetry. apply veq_by_ip.
    pose proof (proj_obtuse p y (proj_in v)) as H1.
    pose proof (proj_obtuse v (proj p) (proj_in p)) as H2. fold y in H2.
    assert (H3 : t * ip (vsub v y) (vsub (proj p) y) <= 0) by nra.
    unfold p in H1 at 1. revert H1 H3. clear H2. ip_expand.
    rewrite ?(ip_sym (proj p) y), ?(ip_sym v y), ?(ip_sym (proj p) v).
    generalize (ip y y) (ip y v) (ip y (proj p)) (ip v (proj p)) (ip (proj p) (proj p)).
    intros. lra.
  Qed.

  Lemma proj_fix c : C c -> proj c = c.
  Proof.
    intros Hc. apply veq_by_ip. pose proof (proj_obtuse c c Hc) as H.
    rewrite nsq_sub_sym. exact H.
  Qed.

  (** ||v - proj v||^2 <= <v - proj v, (z - proj z) + (v - z)>: the distance to C is
      1-Lipschitz, in inner-product form *)
  Lemma dist_key v z :
    nsq (vsub v (proj v)) <= ip (vsub v (proj v)) (vadd (vsub z (proj z)) (vsub v z)).
  Proof.
    pose proof (proj_obtuse v (proj z) (proj_in z)) as H. revert H. ip_expand.
    intros. lra.
  Qed.

  Lemma dist_lower v z : dist v <= dist z + norm (vsub v z).
  Proof.
    unfold dist. pose proof (dist_key v z) as H.
    pose proof (cauchy_schwarz_norm (vsub v (proj v)) (vadd (vsub z (proj z)) (vsub v z))) as Hcs.
    pose proof (norm_triangle (vsub z (proj z)) (vsub v z)) as Htr.
    rewrite <- norm_sq in H. pose proof (norm_pos (vsub v (proj v))) as Hn.
    pose proof (norm_pos (vadd (vsub z (proj z)) (vsub v z))).
    remember (norm (vsub v (proj v))) as n.
    destruct (Req_dec n 0) as [Hz|Hz].
    - pose proof (norm_pos (vsub z (proj z))). pose proof (norm_pos (vsub v z)). lra.
    - assert (n <= norm (vadd (vsub z (proj z)) (vsub v z))).
      { apply Rmult_le_reg_l with n; [lra|]. lra. }
      lra.
  Qed.

  (** SquaredSetDistance.prox: a*v + lam*a*proj(v), a = 1/(1+lam)   (Beck Ex. 6.65) *)
  Theorem sqdist_prox lam v : 0 < lam ->
    IsProx Tr sqdist lam v
      (vadd (vscale (1 / (1 + lam)) v) (vscale (lam * (1 / (1 + lam))) (proj v))).
  Proof.
    intros Hlam. set (a := 1 / (1 + lam)). set (y := proj v).
    assert (Ha : 0 < a) by (unfold a; apply Rdiv_lt_0_compat; lra).
    assert (Ha1 : lam * a = 1 - a) by (unfold a; field; lra).
    assert (Hp : vadd (vscale a v) (vscale (lam * a) y) = vadd y (vscale a (vsub v y))).
    { apply veq_by_ip. rewrite Ha1. ip_expand.
      rewrite ?(ip_sym y v). generalize (ip v v) (ip v y) (ip y y). intros. nra. }
    rewrite Hp. split; [exact I|]. intros z _. unfold obj, sqdist.
    pose proof (proj_ray v a ltac:(lra)) as Hpr. fold y in Hpr. rewrite Hpr.
    pose proof (dist_key v z) as Hk. fold y in Hk.
    set (A := vsub z (proj z)) in *. set (B := vsub v z) in *.
    (* objective at p in terms of e = v - y *)
    replace (vsub (vadd y (vscale a (vsub v y))) y) with (vscale a (vsub v y)).
    2:{ apply veq_by_ip. ip_expand. generalize (ip v v) (ip v y) (ip y v) (ip y y). intros. nra. }
    replace (nsq (vsub (vadd y (vscale a (vsub v y))) v)) with ((1 - a) * (1 - a) * nsq (vsub v y)).
    2:{ ip_expand. rewrite ?(ip_sym y v). generalize (ip v v) (ip v y) (ip y y). intros. ring. }
    rewrite nsq_scale.
    replace (nsq (vsub z v)) with (nsq B) by (unfold B; apply nsq_sub_sym).
    (* (1+lam)(lam|A|^2+|B|^2) >= lam |A+B|^2 >= lam |e|^2 *)
    pose proof (nsq_pos (vsub (vscale lam A) B)) as H1. rewrite nsq_sub, nsq_scale, ip_scale_l in H1.
    pose proof (nsq_pos (vsub (vadd A B) (vsub v y))) as H2.
    rewrite nsq_sub, nsq_add, (ip_sym (vadd A B)) in H2.
    rewrite ip_add_r in *.
    assert (Hb : lam = (1 - a) / a) by (unfold a; field; lra).
    remember (nsq (vsub v y)) as e2. remember (nsq A) as a2. remember (nsq B) as b2.
    remember (ip A B) as ab. remember (ip (vsub v y) A) as ea. remember (ip (vsub v y) B) as eb.
    assert (He : e2 <= a2 + 2 * ab + b2) by lra.
    assert (Hq : lam * e2 <= (1 + lam) * (lam * a2 + b2)) by nra.
    assert (Ha2 : a * (1 + lam) = 1) by (unfold a; field; lra).
    clear - Hlam Ha Ha1 Hq Ha2.
    assert (a * (lam * e2) <= a * ((1 + lam) * (lam * a2 + b2))) by (apply Rmult_le_compat_l; lra).
    replace (a * ((1 + lam) * (lam * a2 + b2))) with (lam * a2 + b2) in H by (rewrite <- Rmult_assoc, Ha2; ring).
    assert (E2 : a * a * (1 + lam) = a) by (rewrite Rmult_assoc, Ha2; ring).
    assert (E3 : lam * a * a * e2 + lam * lam * a * a * e2 = lam * a * e2).
    { replace (lam * a * a * e2 + lam * lam * a * a * e2) with (lam * e2 * (a * a * (1 + lam))) by ring.
      rewrite E2. ring. }
    replace (1 - a) with (lam * a) by lra.
    nra.
  Qed.

  (** SetDistance.prox: theta = lam/d if d >= lam else 1; theta*proj(v) + (1-theta)*v
      (Beck Lemma 6.43), including d = 0 *)
  Definition sd_th (lam d : R) : R := if R_leb lam d then lam / d else 1.

  Theorem dist_prox lam v : 0 < lam ->
    IsProx Tr dist lam v
      (vadd (vscale (sd_th lam (dist v)) (proj v)) (vscale (1 - sd_th lam (dist v)) v)).
  Proof.
    intros Hlam. set (y := proj v). set (d := dist v).
    assert (Hd : 0 <= d) by apply norm_pos.
    assert (Hform : forall th, vadd (vscale th y) (vscale (1 - th) v) = vadd y (vscale (1 - th) (vsub v y))).
    { intros th. apply veq_by_ip. ip_expand. rewrite ?(ip_sym y v).
      generalize (ip v v) (ip v y) (ip y y). intros. nra. }
    rewrite Hform. split; [exact I|]. intros z _. unfold obj.
    pose proof (dist_lower v z) as Hlow. fold d in Hlow.
    pose proof (norm_pos (vsub z (proj z))) as Hs. fold (dist z) in Hs.
    pose proof (norm_pos (vsub v z)) as Ht.
    rewrite (nsq_sub_sym z v), <- (norm_sq (vsub v z)).
    assert (Hdd : d * d = nsq (vsub v y)) by (unfold d, dist; apply norm_sq).
    unfold sd_th. rcases.
    - (* d >= lam: p = y + (1 - lam/d)(v - y) *)
      assert (Hc : 0 <= 1 - lam / d).
      { assert (lam / d <= 1) by (apply div_le_1; lra). lra. }
      unfold dist at 1.
      pose proof (proj_ray v (1 - lam / d) Hc) as Hpr. fold y in Hpr. rewrite Hpr.
      replace (vsub (vadd y (vscale (1 - lam / d) (vsub v y))) y) with (vscale (1 - lam / d) (vsub v y)).
      2:{ apply veq_by_ip. ip_expand. generalize (ip v v) (ip v y) (ip y v) (ip y y). intros. nra. }
      rewrite norm_scale_pos by auto. change (norm (vsub v y)) with d.
      replace (nsq (vsub (vadd y (vscale (1 - lam / d) (vsub v y))) v))
        with ((lam / d) * (lam / d) * nsq (vsub v y)).
      2:{ ip_expand. rewrite ?(ip_sym y v). generalize (ip v v) (ip v y) (ip y y). intros. ring. }
      rewrite <- Hdd.
      replace ((1 - lam / d) * d) with (d - lam) by (field; lra).
      replace (lam / d * (lam / d) * (d * d)) with (lam * lam) by (field; lra).
      remember (dist z) as s. remember (norm (vsub v z)) as t.
      pose proof (Rle_0_sqr (t - lam)) as Hq. unfold Rsqr in Hq.
      assert (lam * (d - t) <= lam * s) by (apply Rmult_le_compat_l; lra). nra.
    - (* d < lam: p = y *)
      replace (1 - 1) with 0 by ring. rewrite vscale_0_l, vadd_0_r.
      unfold dist at 1. rewrite (proj_fix y) by apply proj_in. rewrite vsub_self, norm_0.
      rewrite (nsq_sub_sym y v), <- Hdd.
      remember (dist z) as s. remember (norm (vsub v z)) as t.
      destruct (Rle_dec d t) as [Hdt|Hdt].
      + assert (0 <= lam * s) by (apply Rmult_le_pos; lra). nra.
      + apply Rnot_le_lt in Hdt.
        assert (lam * (d - t) <= lam * s) by (apply Rmult_le_compat_l; lra).
        assert (d * (d - t) <= lam * (d - t)) by (apply Rmult_le_compat_r; lra).
        pose proof (Rle_0_sqr (d - t)) as Hq. unfold Rsqr in Hq. nra.
  Qed.
End SetDist.

Lemma sd_code_R lam d (y v : R) : sd_code lam d y v = sd_th lam d * y + (1 - sd_th lam d) * v.
Proof. unfold sd_code, sd_theta, sd_th. rsimp. reflexivity. Qed.
Lemma ssd_code_R lam (y v : R) : ssd_code lam y v = 1 / (1 + lam) * v + lam * (1 / (1 + lam)) * y.
Proof. unfold ssd_code. rsimp. reflexivity. Qed.
