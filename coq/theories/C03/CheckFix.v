(** Executable cross-checks for the C03 correspondence (scalars Qc, vectors list Qc, C11/Exec.v):
    the manufactured optimum is (i) a fixed point of the documented step evaluated exactly in
    Coq -- i.e. it satisfies the KKT conditions in prox form -- components 1..9, and (ii) left
    unchanged by one REAL step() of the optimiser object -- components 11..19. *)
From Coq Require Import List Bool ZArith QArith Qcanon.
From SV Require Import Base.Num C11.Overload C11.Exec.
From SV Require C11.Spec_LADMM C11.Spec_PADMM C11.Spec_NLPADMM C11.Spec_PDHG C11.Spec_PGM C11.Spec_ADMM.
From SVGen Require C11_Ladmm C11_Padmm C11_Nlpadmm C11_Pdhg C11_Pgm C11_Apgm C11_Admm.
Import ListNotations.
Local Open Scope nat_scope.

(** H(x, z) = M (x + d.x.x) - (z + e.z.z) - h0 *)
Definition fun2_quad_off (M : matrix) (d e h0 : vec) : Fun2 vec vec vec :=
  let H := fun2_quad M d e in
  mkFun2 (fun x z => vsub_ (f2 H x z) h0) (vjp0 H) (vjp1 H).

Module LAF.
  Import C11_Ladmm Spec_LADMM.
  Definition check (case : nat) (opt post : st Qc vec vec) : list nat :=
    let s' := step_spec opt in
    fails case [(1, vclose (la_x s') (la_x opt)); (2, vclose (la_z s') (la_z opt)); (3, vclose (la_u s') (la_u opt));
                (11, vclose (la_x post) (la_x opt)); (12, vclose (la_z post) (la_z opt)); (13, vclose (la_u post) (la_u opt))].
End LAF.
Module PAF.
  Import C11_Padmm Spec_PADMM.
  Definition check (case : nat) (opt post : st Qc vec vec) : list nat :=
    let s' := step_spec opt in
    fails case [(1, vclose (pa_x s') (pa_x opt)); (2, vclose (pa_z s') (pa_z opt)); (3, vclose (pa_u s') (pa_u opt));
                (11, vclose (pa_x post) (pa_x opt)); (12, vclose (pa_z post) (pa_z opt)); (13, vclose (pa_u post) (pa_u opt))].
End PAF.
Module NLF.
  Import C11_Nlpadmm Spec_NLPADMM.
  Definition check (case : nat) (opt post : st Qc vec vec vec) : list nat :=
    let s' := step_spec opt in
    fails case [(1, vclose (nl_x s') (nl_x opt)); (2, vclose (nl_z s') (nl_z opt)); (3, vclose (nl_u s') (nl_u opt));
                (11, vclose (nl_x post) (nl_x opt)); (12, vclose (nl_z post) (nl_z opt)); (13, vclose (nl_u post) (nl_u opt))].
End NLF.
Module PDF.
  Import C11_Pdhg Spec_PDHG.
  Definition check (case : nat) (opt post : st Qc vec vec) : list nat :=
    let s' := step_spec opt in
    fails case [(1, vclose (pd_x s') (pd_x opt)); (2, vclose (pd_z s') (pd_z opt));
                (11, vclose (pd_x post) (pd_x opt)); (12, vclose (pd_z post) (pd_z opt))].
End PDF.
Module PGF.
  Import C11_Pgm Spec_PGM.
  Definition check (case : nat) (opt post : st Qc vec) : list nat :=
    let s' := pgm_step_spec opt in
    fails case [(1, vclose (pg_x s') (pg_x opt)); (11, vclose (pg_x post) (pg_x opt))].
End PGF.
Module APF.
  Import C11_Apgm Spec_PGM.
  Definition check (case : nat) (opt post : st Qc vec) : list nat :=
    let s' := apgm_step_spec opt in
    fails case [(1, vclose (ap_x s') (ap_x opt)); (2, vclose (ap_v s') (ap_x opt));
                (11, vclose (ap_x post) (ap_x opt)); (12, vclose (ap_v post) (ap_x opt))].
End APF.
Module ADF.
  Import C11_Admm Spec_ADMM.
  (** [grad] = gradient of f at the optimum (computed by [fgrad]); x-sub-problem optimality:
      grad f(xs) + sum_i rho_i C_i^T (C_i xs - z_i + u_i) = 0 *)
  Definition sub_grad (s : st Qc vec vec) : vec :=
    fold_left (fun a b => vadd_ a (vscale_ (fst b) (adj (fst (snd b))
                 (vadd_ (vsub_ (fwd (fst (snd b)) (ad_x s)) (fst (snd (snd b)))) (snd (snd (snd b)))))))
              (combine (ad_rho_list s) (combine (ad_C_list s) (combine (ad_z_list s) (ad_u_list s))))
              (fgrad (ad_f s) (ad_x s)).
  Definition check (case : nat) (opt post : st Qc vec vec) : list nat :=
    let s' := step_spec opt in
    fails case [(1, vclose (sub_grad opt) []); (2, lclose (ad_z_list s') (ad_z_list opt)); (3, lclose (ad_u_list s') (ad_u_list opt));
                (11, vclose (ad_x post) (ad_x opt)); (12, lclose (ad_z_list post) (ad_z_list opt));
                (13, lclose (ad_u_list post) (ad_u_list opt))].
End ADF.
