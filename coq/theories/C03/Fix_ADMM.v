(** Fixed points: ADMM with any number of blocks, relaxation alpha, and an x-update that
    returns the (unique) minimiser of the documented sub-problem
        f(x) + sum_i rho_i/2 || z_i - u_i - C_i x ||^2 .
    A saddle point  z_i = C_i xs,  rho_i u_i in dg_i(z_i),  -sum_i rho_i C_i^H u_i in df(xs)
    is left unchanged by one documented step, hence by the generated step (C11). *)
From Coq Require Import Reals Lra Psatz List.
From SV Require Import Base.Num Base.InnerSpace Prox.ProxTheory C11.Overload C11.SpecBase C03.Setup.
From SV Require C11.Spec_ADMM.
From SVGen Require C11_Admm.
Import ListNotations.
Open Scope R_scope.

Section ADMM.
  Import C11_Admm Spec_ADMM.
  Context {SX SZ : InnerSpace}.
  Notation X := (@E SX). Notation Z := (@E SZ).

  (** one block: penalty, functional (domain, values, prox oracle), operator, split and dual variable *)
  Record Blk := mkBlk {
    b_rho : R; b_dom : Z -> Prop; b_g : Z -> R; b_G : Func R Z;
    b_C : X -> Z; b_CH : Z -> X; b_z : Z; b_u : Z }.

  Variables (domf : X -> Prop) (f : X -> R) (F : Func R X) (hasf : bool).
  Variable bl : list Blk.
  Variable alpha : R.
  Variable solver : list Z -> list Z -> X -> X.
  Variable xs : X.

  Definition sumR (l : list R) : R := fold_right Rplus 0 l.
  Definition subobjL (l : list Blk) (x : X) : R :=
    sumR (map (fun b => b_rho b / 2 * nsq (vsub (vsub (b_z b) (b_u b)) (b_C b x))) l).
  Definition subobj (x : X) : R := subobjL bl x.
  Definition SubMin (p : X) : Prop := domf p /\ forall x, domf x -> f p + subobj p <= f x + subobj x.

  Definition opt_state (zold : list Z) : st R X Z :=
    mk_st xs (map b_z bl) zold (map b_u bl) F hasf (map b_G bl)
          (map (fun b => mkOp (b_C b) (b_CH b) (fun _ => b_CH b) true) bl) (map b_rho bl) alpha solver.

  (** saddle-point conditions *)
  Definition BlockOK (b : Blk) : Prop :=
    0 < b_rho b /\ Convex (b_dom b) (b_g b) /\ ProxOracle (b_dom b) (b_g b) (b_G b) /\
    b_z b = b_C b xs /\ Subgrad (b_dom b) (b_g b) (b_z b) (vscale (b_rho b) (b_u b)).
  Hypothesis Hblocks : Forall BlockOK bl.
  (** -sum_i rho_i C_i^H u_i in df(xs), written with the adjoint moved to the other side *)
  Hypothesis Hx : domf xs /\ forall x, domf x ->
    f xs - sumR (map (fun b => b_rho b * ip (b_u b) (vsub (b_C b x) (b_C b xs))) bl) <= f x.
  (** the x-update returns a minimiser of the sub-problem, which is unique *)
  Hypothesis solver_min : forall zl ul x0, zl = map b_z bl -> ul = map b_u bl -> SubMin (solver zl ul x0).
  Hypothesis sub_unique : forall p q, SubMin p -> SubMin q -> p = q.

  Lemma block_ineq x b : BlockOK b ->
    b_rho b * ip (b_u b) (vsub (b_C b x) (b_C b xs))
    <= b_rho b / 2 * nsq (vsub (vsub (b_z b) (b_u b)) (b_C b x))
       - b_rho b / 2 * nsq (vsub (vsub (b_z b) (b_u b)) (b_C b xs)).
  Proof.
    intros (Hrho & _ & _ & Hz & _).
    rewrite Hz. pose proof (nsq_pos (vsub (b_C b x) (b_C b xs))) as Hp. revert Hp.
    generalize (b_rho b) Hrho. intros rho Hrho'. ipn. ip_atoms. intros Hp.
    match type of Hp with 0 <= ?e => assert (0 <= rho / 2 * e) by (apply Rmult_le_pos; lra) end. lra.
  Qed.

  Lemma sub_ineq x : forall l, Forall BlockOK l ->
    sumR (map (fun b => b_rho b * ip (b_u b) (vsub (b_C b x) (b_C b xs))) l) <= subobjL l x - subobjL l xs.
  Proof.
    induction 1 as [|b r Hb Hr IH]; unfold subobjL, sumR in *; cbn [map fold_right]; [lra|].
    pose proof (block_ineq x b Hb). unfold nsq in *. lra.
  Qed.

  Lemma xs_submin : SubMin xs.
  Proof.
    destruct Hx as [Hd Hs]. split; auto. intros x Hdx. specialize (Hs x Hdx).
    pose proof (sub_ineq x bl Hblocks). unfold subobj. lra.
  Qed.

  Lemma combine_blk : forall l : list Blk,
    combine (map b_rho l) (combine (map b_G l)
      (combine (map (fun b => mkOp (b_C b) (b_CH b) (fun _ : X => b_CH b) true) l) (combine (map b_z l) (map b_u l))))
    = map (fun b => (b_rho b, (b_G b, (mkOp (b_C b) (b_CH b) (fun _ => b_CH b) true, (b_z b, b_u b))))) l.
  Proof. induction l as [|a l IH]; cbn; [reflexivity|]. f_equal. exact IH. Qed.
  Lemma blocks_opt zold :
    blocks (opt_state zold) =
    map (fun b => (b_rho b, (b_G b, (mkOp (b_C b) (b_CH b) (fun _ => b_CH b) true, (b_z b, b_u b))))) bl.
  Proof. unfold blocks, opt_state. cbn. apply combine_blk. Qed.

  Lemma block_unchanged b : BlockOK b ->
    block_update alpha xs (b_rho b, (b_G b, (mkOp (b_C b) (b_CH b) (fun _ => b_CH b) true, (b_z b, b_u b))))
    = (b_z b, b_u b).
  Proof.
    intros (Hrho & Hc & Ho & Hz & Hs). unfold block_update. fold_vec.
    assert (Hrel : relaxed alpha (b_C b xs) (b_z b) = b_z b).
    { unfold relaxed. fold_vec. match goal with |- context [if ?c then _ else _] => destruct c end; [symmetry; exact Hz|].
      rewrite Hz. vec_eq. }
    rewrite Hrel.
    assert (Hp : fprox (b_G b) (vadd (b_z b) (b_u b)) (1 / b_rho b) = b_z b).
    { apply (prox_fix (b_dom b) (b_g b)); auto; [pos|].
      eapply subgrad_subcert; [pos | exact Hs |]. intros w. ipn. ip_atoms. field. lra. }
    rewrite Hp. f_equal. vec_eq.
  Qed.

  Theorem admm_fixed_point : forall zold, step_spec (opt_state zold) = opt_state (map b_z bl).
  Proof.
    intros zold. unfold step_spec. rewrite blocks_opt. unfold opt_state.
    cbn [ad_alpha ad_x ad_z_list ad_u_list ad_subproblem_solver ad_f ad_has_f ad_g_list ad_C_list ad_rho_list].
    assert (Hsol : solver (map b_z bl) (map b_u bl) xs = xs).
    { apply sub_unique; [apply solver_min; reflexivity | apply xs_submin]. }
    rewrite Hsol.
    assert (Hzu : map (block_update alpha xs)
                    (map (fun b => (b_rho b, (b_G b, (mkOp (b_C b) (b_CH b) (fun _ => b_CH b) true, (b_z b, b_u b))))) bl)
                  = map (fun b => (b_z b, b_u b)) bl).
    { rewrite map_map. apply map_ext_in. intros b Hb. apply block_unchanged.
      rewrite Forall_forall in Hblocks. auto. }
    rewrite Hzu, !map_map. reflexivity.
  Qed.

  Lemma opt_state_WF zold : length zold = length bl -> WF (opt_state zold).
  Proof. intros H. unfold WF, opt_state. cbn. rewrite !map_length. auto. Qed.

  Corollary admm_fixed_point_gen : forall zold, length zold = length bl ->
    step_gen (opt_state zold) = opt_state (map b_z bl).
  Proof. intros zold H. rewrite step_follows_doc by (apply opt_state_WF, H). apply admm_fixed_point. Qed.
  Corollary admm_fixed_point_iter : forall n, iter step_gen n (opt_state (map b_z bl)) = opt_state (map b_z bl).
  Proof.
    induction n; cbn; [reflexivity|]. rewrite admm_fixed_point_gen by apply map_length. exact IHn.
  Qed.
  Corollary admm_minimizer : forall n, minimizer_gen (iter step_gen n (opt_state (map b_z bl))) = xs.
  Proof. intros n. rewrite admm_fixed_point_iter. reflexivity. Qed.
End ADMM.
