(** Fixed points: LinearizedADMM.  A KKT triple (xs, zs = C xs, us) with
      us/nu in dg(zs),   -(1/nu) C^H us in df(xs)
    is left unchanged by one documented step (hence, by C11, by the generated step). *)
From Coq Require Import Reals Lra Psatz List.
From SV Require Import Base.Num Base.InnerSpace Prox.ProxTheory C11.Overload C11.SpecBase C03.Setup.
From SV Require C11.Spec_LADMM.
From SVGen Require C11_Ladmm.
Open Scope R_scope.

Section LADMM.
  Import C11_Ladmm Spec_LADMM.
  Context {SX SZ : InnerSpace}.
  Notation X := (@E SX). Notation Z := (@E SZ).
  Variables (domf : X -> Prop) (f : X -> R) (domg : Z -> Prop) (g : Z -> R).
  Variables (F : Func R X) (G : Func R Z).
  Variables (C : X -> Z) (CH : Z -> X) (vj : X -> Z -> X) (lin : bool).
  Hypothesis HF : ProxOracle domf f F.
  Hypothesis HG : ProxOracle domg g G.
  Hypothesis Cf : Convex domf f.
  Hypothesis Cg : Convex domg g.
  Hypothesis HA : IsAdj C CH.
  Hypothesis HL : IsLinear C.
  Variables mu nu : R.
  Hypothesis Hmu : 0 < mu.
  Hypothesis Hnu : 0 < nu.
  Variables (xs : X) (zs us : Z).
  Hypothesis K1 : zs = C xs.
  Hypothesis K2 : Subgrad domg g zs (vscale (/ nu) us).
  Hypothesis K3 : Subgrad domf f xs (vscale (- / nu) (CH us)).

  Definition s_opt (zo : Z) : st R X Z := mk_st xs zs zo us F G (mkOp C CH vj lin) mu nu.

  Lemma adjl y w : ip (CH y) w = ip y (C w).
  Proof. rewrite ip_sym, <- HA, ip_sym. reflexivity. Qed.

  Theorem ladmm_fixed_point : forall zo, step_spec (s_opt zo) = s_opt zs.
  Proof.
    intros zo. unfold step_spec, s_opt. cbn [la_x la_z la_z_old la_u la_f la_g la_C la_mu la_nu]. fold_vec.
    assert (Hx : fprox F (vsub xs (vscale (mu / nu) (CH (vadd (vsub (C xs) zs) us)))) mu = xs).
    { apply (prox_fix domf f); auto. eapply subgrad_subcert; eauto.
      intros w. subst zs. ipn. rewrite ?adjl. ipn. ip_atoms. field. lra. }
    rewrite Hx.
    assert (Hz : fprox G (vadd (C xs) us) nu = zs).
    { apply (prox_fix domg g); auto. eapply subgrad_subcert; eauto.
      intros w. subst zs. ipn. ip_atoms. field. lra. }
    rewrite Hz.
    replace (vsub (vadd us (C xs)) zs) with us; [reflexivity|].
    subst zs. symmetry. apply vadd_vsub_cancel.
  Qed.

  (** transport to the step generated from the source (C11) *)
  Corollary ladmm_fixed_point_gen : forall zo, step_gen (s_opt zo) = s_opt zs.
  Proof. intros zo. rewrite step_follows_doc. apply ladmm_fixed_point. Qed.
  Corollary ladmm_fixed_point_iter : forall n, iter step_gen n (s_opt zs) = s_opt zs.
  Proof. induction n; cbn; [reflexivity|]. rewrite ladmm_fixed_point_gen. exact IHn. Qed.
  Corollary ladmm_minimizer : forall n, minimizer_gen (iter step_gen n (s_opt zs)) = xs.
  Proof. intros n. rewrite ladmm_fixed_point_iter. reflexivity. Qed.
End LADMM.
