(** Fixed points: ProximalADMM (any B, c), NonLinearPADMM (Jacobian adjoints at the point are
    the vjp oracles of H), PDHG (linear and non-linear C; extrapolation irrelevant at the
    optimum; conj_prox is the prox of the conjugate by Moreau). *)
From Coq Require Import Reals Lra Psatz List.
From SV Require Import Base.Num Base.InnerSpace Prox.ProxTheory C11.Overload C11.SpecBase C03.Setup.
From SV Require C11.Spec_PADMM C11.Spec_NLPADMM C11.Spec_PDHG.
From SVGen Require C11_Padmm C11_Nlpadmm C11_Pdhg C11_Functional.
Open Scope R_scope.

Section PADMM.
  Import C11_Padmm Spec_PADMM.
  Context {SX SZ : InnerSpace}.
  Notation X := (@E SX). Notation Z := (@E SZ).
  Variables (domf : X -> Prop) (f : X -> R) (domg : Z -> Prop) (g : Z -> R).
  Variables (F : Func R X) (G : Func R Z).
  Variables (A : X -> Z) (AH : Z -> X) (vjA : X -> Z -> X) (linA : bool).
  Variables (B : Z -> Z) (BH : Z -> Z) (vjB : Z -> Z -> Z) (linB : bool).
  Variable c : Z.
  Hypothesis HF : ProxOracle domf f F.
  Hypothesis HG : ProxOracle domg g G.
  Hypothesis Cf : Convex domf f.
  Hypothesis Cg : Convex domg g.
  Variables rho mu nu : R.
  Hypothesis Hrho : 0 < rho.
  Hypothesis Hmu : 0 < mu.
  Hypothesis Hnu : 0 < nu.
  Variable fdr : bool.
  Variables (xs : X) (zs us : Z).
  (** KKT: A xs + B zs = c, -rho A^H us in df(xs), -rho B^H us in dg(zs) *)
  Hypothesis K1 : vadd (A xs) (B zs) = c.
  Hypothesis K2 : Subgrad domf f xs (vscale (- rho) (AH us)).
  Hypothesis K3 : Subgrad domg g zs (vscale (- rho) (BH us)).

  Definition s_opt (zo uo : Z) : st R X Z :=
    mk_st xs zs zo us uo F G (mkOp A AH vjA linA) (mkOp B BH vjB linB) c rho mu nu fdr.

  (** the x-update reads u_old: the fixed point has u_old = u *)
  Theorem padmm_fixed_point : forall zo, step_spec (s_opt zo us) = s_opt zs us.
  Proof.
    intros zo. unfold step_spec, s_opt.
    cbn [pa_x pa_z pa_z_old pa_u pa_u_old pa_f pa_g pa_A pa_B pa_c pa_rho pa_mu pa_nu pa_fast_dual_residual].
    fold_vec. rewrite klit_2_R.
    replace (vsub (vscale 2 us) us) with us by (symmetry; vec_eq).
    fix_prox F xs domf f.
    { eapply subgrad_subcert; [pos | exact K2 |]. intros w. ipn. ip_atoms. field. lra. }
    replace (vsub (vadd (vadd (A xs) (B zs)) us) c) with us
      by (rewrite K1; unfold vsub; rewrite (vadd_comm c us), <- vadd_assoc, vadd_opp_r, vadd_0_r; reflexivity).
    assert (Hr : vadd (vsub (vadd (A xs) (B zs)) c) us = us).
    { rewrite K1, vsub_self. apply vadd_0_l. }
    rewrite Hr.
    fix_prox G zs domg g.
    { eapply subgrad_subcert; [pos | exact K3 |]. intros w. ipn. ip_atoms. field. lra. }
    replace (vsub (vadd (vadd us (A xs)) (B zs)) c) with us; [reflexivity|].
    rewrite <- vadd_assoc, K1. symmetry. apply vadd_vsub_cancel.
  Qed.

  Corollary padmm_fixed_point_gen : forall zo, step_gen (s_opt zo us) = s_opt zs us.
  Proof. intros zo. rewrite step_follows_doc. apply padmm_fixed_point. Qed.
  Corollary padmm_fixed_point_iter : forall n, iter step_gen n (s_opt zs us) = s_opt zs us.
  Proof. induction n; cbn; [reflexivity|]. rewrite padmm_fixed_point_gen. exact IHn. Qed.
End PADMM.

Section NLPADMM.
  Import C11_Nlpadmm Spec_NLPADMM.
  Context {SX SZ SU : InnerSpace}.
  Notation X := (@E SX). Notation Z := (@E SZ). Notation U := (@E SU).
  Context {jvpZ : JvpOracle Z U} {cvjpX : CvjpOracle X U}.
  Variables (domf : X -> Prop) (f : X -> R) (domg : Z -> Prop) (g : Z -> R).
  Variables (F : Func R X) (G : Func R Z) (H : Fun2 X Z U).
  Hypothesis HF : ProxOracle domf f F.
  Hypothesis HG : ProxOracle domg g G.
  Hypothesis Cf : Convex domf f.
  Hypothesis Cg : Convex domg g.
  Variables rho mu nu : R.
  Hypothesis Hrho : 0 < rho.
  Hypothesis Hmu : 0 < mu.
  Hypothesis Hnu : 0 < nu.
  Variable fdr : bool.
  Variables (xs : X) (zs : Z) (us : U).
  (** KKT with the Jacobian adjoints at the point: H(xs, zs) = 0,
      -rho [J_x H]^H us in df(xs), -rho [J_z H]^H us in dg(zs) *)
  Hypothesis K1 : f2 H xs zs = vzero.
  Hypothesis K2 : Subgrad domf f xs (vscale (- rho) (vjp0 H xs zs us)).
  Hypothesis K3 : Subgrad domg g zs (vscale (- rho) (vjp1 H xs zs us)).

  Definition nl_opt (zo : Z) (uo : U) : st R X Z U := mk_st xs zs zo us uo F G H rho mu nu fdr.

  Theorem nlpadmm_fixed_point : forall zo, step_spec (nl_opt zo us) = nl_opt zs us.
  Proof.
    intros zo. unfold step_spec, nl_opt.
    cbn [nl_x nl_z nl_z_old nl_u nl_u_old nl_f nl_g nl_H nl_rho nl_mu nl_nu nl_fast_dual_residual].
    fold_vec. rewrite klit_2_R.
    replace (vsub (vscale 2 us) us) with us by (symmetry; vec_eq).
    fix_prox F xs domf f.
    { eapply subgrad_subcert; [pos | exact K2 |]. intros w. ipn. ip_atoms. field. lra. }
    rewrite K1, vadd_0_l.
    fix_prox G zs domg g.
    { eapply subgrad_subcert; [pos | exact K3 |]. intros w. ipn. ip_atoms. field. lra. }
    rewrite K1, vadd_0_r. reflexivity.
  Qed.
  Corollary nlpadmm_fixed_point_gen : forall zo, step_gen (nl_opt zo us) = nl_opt zs us.
  Proof. intros zo. rewrite step_follows_doc. apply nlpadmm_fixed_point. Qed.
  Corollary nlpadmm_fixed_point_iter : forall n, iter step_gen n (nl_opt zs us) = nl_opt zs us.
  Proof. induction n; cbn; [reflexivity|]. rewrite nlpadmm_fixed_point_gen. exact IHn. Qed.
End NLPADMM.

Section PDHG.
  Import C11_Pdhg Spec_PDHG.
  Context {SX SZ : InnerSpace}.
  Notation X := (@E SX). Notation Z := (@E SZ).
  Variables (domf : X -> Prop) (f : X -> R) (domg : Z -> Prop) (g : Z -> R).
  Variables (F : Func R X) (G : Func R Z).
  Variables (C : X -> Z) (CH : Z -> X) (vj : X -> Z -> X) (lin : bool).
  Hypothesis HF : ProxOracle domf f F.
  Hypothesis HG : ProxOracle domg g G.
  Hypothesis Cf : Convex domf f.
  Hypothesis Cg : Convex domg g.
  Variables tau sigma alpha : R.
  Hypothesis Htau : 0 < tau.
  Hypothesis Hsigma : 0 < sigma.
  Variables (xs : X) (zs : Z).
  (** primal-dual optimality: zs in dg(C xs), and -C^H zs in df(xs) where C^H is the adjoint
      (linear C) or the adjoint Jacobian at xs (non-linear C) *)
  Definition CTz : X := if lin then CH zs else vj xs zs.
  Hypothesis K1 : Subgrad domg g (C xs) zs.
  Hypothesis K2 : Subgrad domf f xs (vscale (-1) CTz).

  Definition pd_opt (xo : X) (zo : Z) : st R X Z :=
    mk_st xs xo zs zo F G (mkOp C CH vj lin) tau sigma alpha.

  Theorem pdhg_fixed_point : forall xo zo, step_spec (pd_opt xo zo) = pd_opt xs zs.
  Proof.
    intros xo zo. unfold step_spec, pd_opt, conj_prox_doc.
    cbn [pd_x pd_x_old pd_z pd_z_old pd_f pd_g pd_C pd_tau pd_sigma pd_alpha]. fold_vec.
    fold CTz.
    fix_prox F xs domf f.
    { eapply subgrad_subcert; [pos | exact K2 |]. intros w. ipn. ip_atoms. ring. }
    replace (vsub (vscale (1 + alpha) xs) (vscale alpha xs)) with xs by (symmetry; vec_eq).
    fix_prox G (C xs) domg g.
    { eapply subgrad_subcert; [pos | exact K1 |]. intros w. ipn. ip_atoms. field. lra. }
    f_equal. vec_eq.
  Qed.
  Corollary pdhg_fixed_point_gen : forall xo zo, step_gen (pd_opt xo zo) = pd_opt xs zs.
  Proof. intros. rewrite step_follows_doc. apply pdhg_fixed_point. Qed.
  Corollary pdhg_fixed_point_iter : forall n, iter step_gen n (pd_opt xs zs) = pd_opt xs zs.
  Proof. induction n; cbn; [reflexivity|]. rewrite pdhg_fixed_point_gen. exact IHn. Qed.

  (** Moreau: the z-update really is the prox of the convex conjugate g* (characterised by the
      Fenchel-Young (in)equalities), as the class documents. *)
  Variables (domc : Z -> Prop) (gc : Z -> R).
  Hypothesis fenchel_young : forall x s, domg x -> domc s -> ip x s <= g x + gc s.
  Hypothesis fenchel_eq : forall x s, domg x ->
    (forall z, domg z -> g x + ip s (vsub z x) <= g z) -> domc s /\ ip x s = g x + gc s.
  Theorem conj_prox_is_prox_of_conjugate : forall v lam, 0 < lam ->
    IsProx domc gc lam v (C11_Functional.conj_prox_gen G v lam).
  Proof.
    intros v lam Hl. rewrite conj_prox_follows_doc. unfold conj_prox_doc. fold_vec.
    replace (1 / lam) with (/ lam) by (field; lra).
    apply (moreau domg g domc gc fenchel_young fenchel_eq); auto.
    apply prox_cert; auto. apply Rinv_0_lt_compat; lra.
  Qed.
End PDHG.
