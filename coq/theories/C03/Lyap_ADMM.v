(** ADMM Lyapunov decrease (Appendix E of DESIGN.md; Boyd et al. 2010, App. A) in SCICO's form
    (constraint C x = z, scaled dual u, penalty rho, no relaxation).

    FULL STATEMENT (N blocks):  with  V(s) = sum_i rho_i (||u_i - us_i||^2 + ||z_i - zs_i||^2),
    r_i+ = C_i x+ - z_i+,  and the invariant  Inv(s) := forall i, rho_i u_i in dg_i(z_i)
    (established by any one step):
        Inv(s) -> V(s+) <= V(s) - sum_i rho_i ||r_i+||^2 - sum_i rho_i ||z_i+ - z_i||^2,
    hence  sum_{1<=k<=n} sum_i rho_i ||r_i^k||^2 <= V(s_1)  for all n.

    PROVED HERE ([..._partial]): the statement for ONE block (N = 1), for all problems,
    penalties, states satisfying the invariant, and all n; together with the N-block fixed
    point (Fix_ADMM.v).  Missing for the full statement: the same algebra summed over a list of
    blocks (the N-block case is the one-block case in the product space with the rho-weighted
    inner product; that product construction over lists is not formalised). *)
From Coq Require Import Reals Lra Psatz List.
From SV Require Import Base.Num Base.InnerSpace Prox.ProxTheory C11.Overload C11.SpecBase C03.Setup.
From SV Require C11.Spec_ADMM.
From SVGen Require C11_Admm.
Import ListNotations.
Open Scope R_scope.

Section Lyap.
  Context {SX SZ : InnerSpace}.
  Notation X := (@E SX). Notation Z := (@E SZ).
  Variables (domf : X -> Prop) (f : X -> R) (domg : Z -> Prop) (g : Z -> R) (G : Func R Z).
  Variables (C : X -> Z).
  Hypothesis HG : ProxOracle domg g G.
  Hypothesis Cg : Convex domg g.
  Variable rho : R.
  Hypothesis Hrho : 0 < rho.
  (** x-update: first-order optimality of the sub-problem
        x+ in argmin f(x) + rho/2 ||z - u - C x||^2
      (for convex f and linear C equivalent to being a minimiser: [submin_first_order] below) *)
  Variable sol : Z -> Z -> X -> X.
  Hypothesis sol_opt : forall z u x0, domf (sol z u x0) /\ forall x, domf x ->
    f (sol z u x0) + rho * ip (vsub (vsub z u) (C (sol z u x0))) (vsub (C x) (C (sol z u x0))) <= f x.
  (** saddle point *)
  Variables (xs : X) (zs us : Z).
  Hypothesis K1 : zs = C xs.
  Hypothesis K2 : Subgrad domg g zs (vscale rho us).
  Hypothesis K3 : domf xs /\ forall x, domf x -> f xs - rho * ip us (vsub (C x) (C xs)) <= f x.

  Definition T := (X * Z * Z)%type.
  Definition admm1 (t : T) : T :=
    let '(x, z, u) := t in
    let xp := sol z u x in
    let zp := fprox G (vadd (C xp) u) (1 / rho) in
    (xp, zp, vsub (vadd u (C xp)) zp).

  Definition V (t : T) : R := let '(_, z, u) := t in rho * (nsq (vsub u us) + nsq (vsub z zs)).
  Definition Inv (t : T) : Prop := let '(_, z, u) := t in Subgrad domg g z (vscale rho u).
  (** primal residual of the new iterate and change of z *)
  Definition res (t : T) : Z := let '(x, z, _) := admm1 t in vsub (C x) z.
  Definition dz (t : T) : Z := let '(_, z, _) := t in let '(_, zp, _) := admm1 t in vsub zp z.

  Lemma step_establishes_inv t : Inv (admm1 t).
  Proof.
    destruct t as [[x z] u]. unfold admm1, Inv.
    set (xp := sol z u x). set (zp := fprox G (vadd (C xp) u) (1 / rho)).
    destruct (prox_cert domg g G (1 / rho) (vadd (C xp) u) Cg HG ltac:(pos)) as [Hd Hc]. fold zp in Hd, Hc.
    split; auto. intros w Hw. specialize (Hc w Hw).
    assert (H : rho * (1 / rho * g zp + ip (vsub (vadd (C xp) u) zp) (vsub w zp)) <= rho * (1 / rho * g w))
      by (apply Rmult_le_compat_l; lra).
    revert H. generalize (g zp) (g w). intros a b. ipn. ip_atoms. intros H.
    match type of H with ?l <= ?r => match goal with |- ?l' <= ?r' =>
      replace l' with l by (field; lra); replace r' with r by (field; lra) end end.
    exact H.
  Qed.

  Theorem admm_lyapunov_one_step t : Inv t ->
    V (admm1 t) <= V t - rho * nsq (res t) - rho * nsq (dz t).
  Proof.
    intros HI. pose proof (step_establishes_inv t) as HI'.
    destruct t as [[x z] u]. unfold V, res, dz, admm1 in *. unfold Inv in HI, HI'.
    set (xp := sol z u x) in *. set (zp := fprox G (vadd (C xp) u) (1 / rho)) in *.
    destruct (sol_opt z u x) as [Hdx Hx]. fold xp in Hdx, Hx.
    destruct K3 as [Hdxs HK3]. destruct K2 as [Hdzs HK2]. destruct HI as [Hdz HIz]. destruct HI' as [Hdzp HIzp].
    pose proof (Hx xs Hdxs) as A. pose proof (HK3 xp Hdx) as B.
    pose proof (HIzp zs Hdzs) as Cc. pose proof (HK2 zp Hdzp) as D.
    pose proof (HIz zp Hdzp) as E1. pose proof (HIzp z Hdz) as E2.
    rewrite <- K1 in A, B. clear Hx HK3 HK2 HIz HIzp.
    revert A B Cc D E1 E2.
    generalize (f xs) (f xp) (g zs) (g zp) (g z) (C xp). intros fxs fxp gzs gzp gz cxp.
    ipn. ip_atoms. intros. lra.
  Qed.

  (** all iteration counts: from the first iterate on, the residuals are square-summable *)
  Fixpoint sum_res (n : nat) (t : T) : R :=
    match n with O => 0 | S k => rho * nsq (res t) + rho * nsq (dz t) + sum_res k (admm1 t) end.

  Theorem admm_residual_summable_partial : forall n t, Inv t -> sum_res n t + V (iter admm1 n t) <= V t.
  Proof.
    induction n; intros t HI; cbn [sum_res iter]; [lra|].
    pose proof (admm_lyapunov_one_step t HI). pose proof (IHn (admm1 t) (step_establishes_inv t)). lra.
  Qed.
  Lemma V_nonneg t : 0 <= V t.
  Proof.
    destruct t as [[x z] u]. unfold V. pose proof (nsq_pos (vsub u us)). pose proof (nsq_pos (vsub z zs)). nra.
  Qed.
  Corollary admm_residual_sum_bounded : forall n t0, sum_res n (admm1 t0) <= V (admm1 t0).
  Proof.
    intros n t0. pose proof (admm_residual_summable_partial n (admm1 t0) (step_establishes_inv t0)).
    pose proof (V_nonneg (iter admm1 n (admm1 t0))). lra.
  Qed.
  Corollary admm_lyapunov_monotone : forall n t0, V (iter admm1 (S n) (admm1 t0)) <= V (iter admm1 n (admm1 t0)).
  Proof.
    intros n t0.
    assert (Hinv : forall k t, Inv t -> Inv (iter admm1 k t)).
    { induction k; intros t Ht; cbn [iter]; auto. apply IHk, step_establishes_inv. }
    assert (Hs : forall k t, iter admm1 (S k) t = admm1 (iter admm1 k t)).
    { induction k; intros t; [reflexivity|]. cbn [iter] in *. apply IHk. }
    rewrite Hs. pose proof (admm_lyapunov_one_step _ (Hinv n _ (step_establishes_inv t0))) as H.
    pose proof (nsq_pos (res (iter admm1 n (admm1 t0)))). pose proof (nsq_pos (dz (iter admm1 n (admm1 t0)))). nra.
  Qed.

  (** the one-block documented step of C11 is [admm1] *)
  Section Link.
    Import C11_Admm Spec_ADMM.
    Variables (F : Func R X) (hasf : bool) (CH : Z -> X).
    Definition st1 (t : T) (zo : Z) : st R X Z :=
      let '(x, z, u) := t in
      mk_st x [z] [zo] [u] F hasf [G] [mkOp C CH (fun _ => CH) true] [rho] 1
            (fun zl ul x0 => sol (hd vzero zl) (hd vzero ul) x0).
    Lemma R_eqb_refl a : R_eqb a a = true.
    Proof. apply R_eqb_true. reflexivity. Qed.
    Theorem step_spec_is_admm1 : forall t zo,
      step_spec (st1 t zo) = st1 (admm1 t) (snd (fst t)).
    Proof.
      intros [[x z] u] zo. unfold step_spec, st1, admm1, blocks, block_update, relaxed.
      cbn [ad_x ad_z_list ad_u_list ad_alpha ad_g_list ad_C_list ad_rho_list ad_subproblem_solver ad_f ad_has_f
           combine map fst snd hd]. fold_vec.
      cbn [keqb Num_R]. rewrite R_eqb_refl. reflexivity.
    Qed.
    Corollary step_gen_is_admm1 : forall t zo, step_gen (st1 t zo) = st1 (admm1 t) (snd (fst t)).
    Proof.
      intros t zo. rewrite step_follows_doc; [apply step_spec_is_admm1|].
      destruct t as [[x z] u]. repeat split.
    Qed.
  End Link.
End Lyap.

(** first-order optimality of a sub-problem minimiser (convex f, linear C) *)
Section FirstOrder.
  Context {SX SZ : InnerSpace}.
  Notation X := (@E SX). Notation Z := (@E SZ).
  Variables (domf : X -> Prop) (f : X -> R) (C : X -> Z) (rho : R) (w : Z).
  Hypothesis Cf : Convex domf f.
  Hypothesis HL : IsLinear C.
  Hypothesis Hrho : 0 < rho.
  Definition phi (x : X) : R := f x + rho / 2 * nsq (vsub w (C x)).
  Theorem submin_first_order p : domf p -> (forall x, domf x -> phi p <= phi x) ->
    forall x, domf x -> f p + rho * ip (vsub w (C p)) (vsub (C x) (C p)) <= f x.
  Proof.
    intros Hp Hmin x Hx.
    cut (0 <= f x - (f p + rho * ip (vsub w (C p)) (vsub (C x) (C p)))); [lra|].
    apply lim_step with (b := rho / 2 * nsq (vsub (C x) (C p))). intros t Ht.
    destruct (Cf p x t Hp Hx ltac:(lra)) as [Hd Hf].
    specialize (Hmin _ Hd). unfold phi in Hmin.
    assert (Hkey : 0 <= t * (f x - (f p + rho * ip (vsub w (C p)) (vsub (C x) (C p))) + t * (rho / 2 * nsq (vsub (C x) (C p))))).
    { revert Hmin Hf. generalize (f (vadd p (vscale t (vsub x p)))) (f p) (f x). intros ft fp fx.
      ipn. ip_atoms. intros. nra. }
    destruct Ht as [Ht0 Ht1]. apply Rmult_le_reg_l with t; auto. lra.
  Qed.
End FirstOrder.
