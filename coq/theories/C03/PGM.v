(** PGM / AcceleratedPGM: fixed points; PGM with L >= K (descent lemma holds with L):
    objective decrease, non-expansiveness towards a minimiser, and under strong convexity
    the linear rate ||x_k - xs||^2 <= (1 - mu/L)^k ||x_0 - xs||^2 for ALL k and x_0. *)
From Coq Require Import Reals Lra Psatz List.
From SV Require Import Base.Num Base.InnerSpace Prox.ProxTheory C11.Overload C11.SpecBase C03.Setup.
From SV Require C11.Spec_PGM.
From SVGen Require C11_Pgm C11_Apgm.
Open Scope R_scope.

Section PGM.
  Import Spec_PGM.
  Context {SX : InnerSpace}.
  Notation X := (@E SX).
  Variables (f : X -> R) (domg : X -> Prop) (g : X -> R).
  Variables (F G : Func R X).
  Hypothesis HG : ProxOracle domg g G.
  Hypothesis Cg : Convex domg g.
  Notation grad := (fgrad F).
  Variable L : R.
  Hypothesis HL : 0 < L.

  (** one proximal-gradient point *)
  Definition pgstep (x : X) : X := pg_point F G x L.
  Definition Fobj (x : X) : R := f x + g x.

  Lemma pgstep_dom x : domg (pgstep x).
  Proof. unfold pgstep, pg_point. fold_vec. destruct (HG (vsub x (vscale (1 / L) (grad x))) (1 / L)) as [H _]; [pos|exact H]. Qed.

  (** certificate of the prox, scaled by L:
      g(p) + L <x - p, z - p> - <grad f(x), z - p> <= g(z) *)
  Lemma pgstep_cert x z : domg z ->
    g (pgstep x) + L * ip (vsub x (pgstep x)) (vsub z (pgstep x)) - ip (grad x) (vsub z (pgstep x)) <= g z.
  Proof.
    intros Hz. unfold pgstep, pg_point. fold_vec. replace (1 / L) with (/ L) by (field; lra).
    destruct (prox_cert domg g G (/ L) (vsub x (vscale (/ L) (grad x))) Cg HG ltac:(pos)) as [_ Hc].
    specialize (Hc z Hz).
    set (p := fprox G (vsub x (vscale (/ L) (grad x))) (/ L)) in *.
    assert (H : L * (/ L * g p + ip (vsub (vsub x (vscale (/ L) (grad x))) p) (vsub z p)) <= L * (/ L * g z))
      by (apply Rmult_le_compat_l; lra).
    replace (L * (/ L * g z)) with (g z) in H by (field; lra).
    revert H. generalize (g p) (g z). intros gp gz. ipn. ip_atoms. intros H.
    match type of H with ?l <= _ => match goal with |- ?l' <= _ => replace l' with l by (field; lra) end end.
    exact H.
  Qed.

  (** descent lemma for the L in use (L >= Lipschitz constant of grad f) *)
  Hypothesis descent : forall x y, f y <= f x + ip (grad x) (vsub y x) + L / 2 * nsq (vsub y x).

  (** Key inequality (Appendix E): if f(z) >= f(x) + <grad f(x), z - x> + (m/2)||z - x||^2 then
      F(z) - F(x+) >= (L/2)||z - x+||^2 - (L/2)||z - x||^2 + (m/2)||z - x||^2 *)
  Lemma pg_key x z m : domg z ->
    f x + ip (grad x) (vsub z x) + m / 2 * nsq (vsub z x) <= f z ->
    L / 2 * nsq (vsub z (pgstep x)) - L / 2 * nsq (vsub z x) + m / 2 * nsq (vsub z x)
      <= Fobj z - Fobj (pgstep x).
  Proof.
    intros Hz Hlow. pose proof (pgstep_cert x z Hz) as Hc. pose proof (descent x (pgstep x)) as Hd.
    unfold Fobj. set (p := pgstep x) in *. revert Hc Hd Hlow.
    generalize (f x) (f z) (f p) (g p) (g z). intros fx fz fp gp gz.
    ipn. ip_atoms. intros. lra.
  Qed.

  (** (a) the objective does not increase (no convexity of f needed) *)
  Theorem pgm_objective_decreases x : domg x ->
    Fobj (pgstep x) + L / 2 * nsq (vsub x (pgstep x)) <= Fobj x.
  Proof.
    intros Hx. pose proof (pg_key x x 0 Hx) as H.
    rewrite vsub_self in H. rewrite nsq_vzero, ip_0_r in H.
    assert (H0 : f x + 0 + 0 / 2 * 0 <= f x) by lra. specialize (H H0). lra.
  Qed.
  Corollary pgm_monotone x : domg x -> Fobj (pgstep x) <= Fobj x.
  Proof. intros Hx. pose proof (pgm_objective_decreases x Hx). pose proof (nsq_pos (vsub x (pgstep x))). nra. Qed.

  (** (b), (c): distance to a minimiser xs; m-strong convexity of f (m = 0: plain convexity) *)
  Variable m : R.
  Hypothesis Hm : 0 <= m.
  Hypothesis strong : forall x z, f x + ip (grad x) (vsub z x) + m / 2 * nsq (vsub z x) <= f z.
  Variable xs : X.
  Hypothesis Hxs : domg xs.
  Hypothesis Hmin : forall z, domg z -> Fobj xs <= Fobj z.

  Theorem pgm_contraction x :
    nsq (vsub (pgstep x) xs) <= (1 - m / L) * nsq (vsub x xs).
  Proof.
    pose proof (pg_key x xs m Hxs (strong x xs)) as H.
    pose proof (Hmin (pgstep x) (pgstep_dom x)) as Hopt.
    rewrite (nsq_sub_sym (pgstep x) xs), (nsq_sub_sym x xs).
    assert (Hk : L / 2 * nsq (vsub xs (pgstep x)) <= (L / 2 - m / 2) * nsq (vsub xs x)) by lra.
    assert (E : (1 - m / L) * nsq (vsub xs x) = / (L / 2) * ((L / 2 - m / 2) * nsq (vsub xs x))) by (field; lra).
    rewrite E. apply Rmult_le_reg_l with (L / 2); [lra|].
    rewrite <- Rmult_assoc, Rinv_r, Rmult_1_l by lra. exact Hk.
  Qed.

  Corollary pgm_nonexpansive_sq x : nsq (vsub (pgstep x) xs) <= nsq (vsub x xs).
  Proof.
    pose proof (pgm_contraction x) as H. pose proof (nsq_pos (vsub x xs)) as Hp.
    assert (0 <= m / L) by (apply Rmult_le_pos; [lra | left; apply Rinv_0_lt_compat; lra]). nra.
  Qed.
  Corollary pgm_nonexpansive x : norm (vsub (pgstep x) xs) <= norm (vsub x xs).
  Proof. unfold norm. apply sqrt_le_1_alt, pgm_nonexpansive_sq. Qed.

  (** all iteration counts, all starting points *)
  Hypothesis HmL : m <= L.
  Theorem pgm_linear_rate : forall k x0,
    nsq (vsub (iter pgstep k x0) xs) <= (1 - m / L) ^ k * nsq (vsub x0 xs).
  Proof.
    assert (Hq : 0 <= 1 - m / L).
    { assert (m / L <= 1); [|lra]. apply Rmult_le_reg_l with L; [lra|]. field_simplify; lra. }
    induction k; intros x0; cbn [iter pow]; [lra|].
    eapply Rle_trans; [apply IHk|]. rewrite (Rmult_comm (1 - m / L)), Rmult_assoc.
    apply Rmult_le_compat_l; [apply pow_le; exact Hq|]. apply pgm_contraction.
  Qed.

  (** fixed point: a minimiser in the sense -grad f(xs) in dg(xs) is unchanged *)
  Hypothesis KKT : Subgrad domg g xs (vscale (-1) (grad xs)).
  Theorem pgstep_fixed_point : pgstep xs = xs.
  Proof.
    unfold pgstep, pg_point. fold_vec.
    apply (prox_fix domg g); auto; [pos|].
    eapply subgrad_subcert; [pos | exact KKT |]. intros w. ipn. ip_atoms. ring.
  Qed.

  (** the solver state: fixed step-size policy *)
  Section Solver.
    Import C11_Pgm.
    Definition pg_state (x : X) (r : R) : st R X := mk_st x L r F G fixed_policy.

    Lemma pgm_step_is_pgstep x r : pgm_step_spec (pg_state x r) = pg_state (pgstep x) (norm (vsub x (pgstep x))).
    Proof. reflexivity. Qed.
    Lemma pgm_iter_state : forall k x r, exists r', iter step_gen k (pg_state x r) = pg_state (iter pgstep k x) r'.
    Proof.
      induction k; intros x r; cbn [iter]; [eexists; reflexivity|].
      rewrite pgm_step_follows_doc, pgm_step_is_pgstep. apply IHk.
    Qed.

    Theorem pgm_fixed_point : forall r, pgm_step_spec (pg_state xs r) = pg_state xs 0.
    Proof.
      intros r. rewrite pgm_step_is_pgstep, pgstep_fixed_point, vsub_self.
      unfold norm, nsq. rewrite ip_0_l, sqrt_0. reflexivity.
    Qed.
    Corollary pgm_fixed_point_gen : forall r, step_gen (pg_state xs r) = pg_state xs 0.
    Proof. intros. rewrite pgm_step_follows_doc. apply pgm_fixed_point. Qed.

    (** the generated solver, any number of iterations, any start: minimizer() obeys the rate *)
    Theorem pgm_solver_rate : forall k x0 r,
      nsq (vsub (minimizer_gen (iter step_gen k (pg_state x0 r))) xs) <= (1 - m / L) ^ k * nsq (vsub x0 xs).
    Proof. intros k x0 r. destruct (pgm_iter_state k x0 r) as [r' ->]. apply pgm_linear_rate. Qed.
    Theorem pgm_solver_monotone : forall k x0 r, domg x0 ->
      Fobj (minimizer_gen (iter step_gen (S k) (pg_state x0 r))) <= Fobj (minimizer_gen (iter step_gen k (pg_state x0 r))).
    Proof.
      intros k x0 r Hx. destruct (pgm_iter_state (S k) x0 r) as [r1 ->]. destruct (pgm_iter_state k x0 r) as [r2 ->].
      cbn [minimizer_gen pg_x pg_state].
      assert (Hit : forall j y, iter pgstep (S j) y = pgstep (iter pgstep j y)).
      { induction j; intros y; [reflexivity|]. cbn [iter] in *. apply IHj. }
      rewrite Hit. apply pgm_monotone.
      destruct k; [exact Hx|]. rewrite Hit. apply pgstep_dom.
    Qed.
  End Solver.

  (** AcceleratedPGM: v = x = xs is a fixed point for every momentum value t *)
  Section Accel.
    Import C11_Apgm.
    Definition ap_state (x v : X) (t r : R) : st R X := mk_st x v t L r F G fixed_policy.
    Theorem apgm_fixed_point : forall t r,
      let s' := apgm_step_spec (ap_state xs xs t r) in
      ap_x s' = xs /\ ap_v s' = xs /\ ap_L s' = L /\ ap_fixed_point_residual s' = 0.
    Proof.
      intros t r. unfold apgm_step_spec, ap_state.
      cbn [ap_x ap_v ap_t ap_L ap_f ap_g ap_step_size fixed_policy ss_bb ss_robust ss_update].
      fold (pgstep xs). rewrite pgstep_fixed_point. fold_vec. repeat split.
      - rewrite vsub_self, vscale_0_r. apply vadd_0_r.
      - unfold vnorm_, vnsq_. fold_vec. rewrite vsub_self, ip_0_l. apply sqrt_0.
    Qed.
    Corollary apgm_fixed_point_gen : forall t r,
      let s' := step_gen (ap_state xs xs t r) in ap_x s' = xs /\ ap_v s' = xs.
    Proof. intros t r. cbn zeta. rewrite apgm_step_follows_doc. pose proof (apgm_fixed_point t r) as H. cbn zeta in H. tauto. Qed.
  End Accel.
End PGM.
