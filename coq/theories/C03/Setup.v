(** C03 set-up: the optimiser specifications of C11 instantiated at an abstract real
    inner-product space (Base/InnerSpace.v), prox oracles with their contract, subgradients,
    and the expansion tactics used by all the proofs (bilinearity -> real atoms -> lra/nra). *)
From Coq Require Import Reals Lra Psatz List.
From SV Require Import Base.Num Base.InnerSpace Prox.ProxTheory C11.Overload.
Open Scope R_scope.

#[export] Instance Sqrt_R : Sqrt R := sqrt.
#[export] Instance VecOps_IS (S : InnerSpace) : VecOps R (@E S) := {|
  vz := vzero; vadd_ := vadd; vsub_ := vsub; vneg_ := vopp; vscale_ := vscale; vdot_ := ip |}.

(** [fold_vec]: turn the VecOps / Num projections at this instance back into InnerSpace / R operations *)
Ltac fold_vec :=
  cbn [vz vadd_ vsub_ vneg_ vscale_ vdot_ VecOps_IS k0 k1 kadd kmul kopp ksub kinv kdiv Num_R
       fwd adj vjp is_linear feval fprox fgrad f2 vjp0 vjp1] in *.

Section Sub.
  Context {S : InnerSpace}.
  Variable dom : E -> Prop.
  Variable f : E -> R.

  (** s is a subgradient of f at x *)
  Definition Subgrad (x s : E) : Prop :=
    dom x /\ forall z, dom z -> f x + ip s (vsub z x) <= f z.

  Lemma subgrad_subcert x s lam v : 0 < lam -> Subgrad x s ->
    (forall w, ip (vsub v x) w = lam * ip s w) -> SubCert dom f lam v x.
  Proof.
    intros Hl [Hd Hs] Hv. split; auto. intros z Hz. rewrite Hv. specialize (Hs z Hz).
    assert (lam * (f x + ip s (vsub z x)) <= lam * f z) by (apply Rmult_le_compat_l; lra). lra.
  Qed.

  Lemma subcert_subgrad x lam v : 0 < lam -> SubCert dom f lam v x ->
    Subgrad x (vscale (/ lam) (vsub v x)).
  Proof.
    intros Hl [Hd Hc]. split; auto. intros z Hz. specialize (Hc z Hz). rewrite ip_scale_l.
    assert (/ lam * (lam * f x + ip (vsub v x) (vsub z x)) <= / lam * (lam * f z))
      by (apply Rmult_le_compat_l; [left; apply Rinv_0_lt_compat; lra | lra]).
    replace (/ lam * (lam * f z)) with (f z) in H by (field; lra).
    replace (/ lam * (lam * f x + ip (vsub v x) (vsub z x))) with (f x + / lam * ip (vsub v x) (vsub z x)) in H
      by (field; lra).
    exact H.
  Qed.

  (** contract of a prox oracle, and the resulting fixed-point rule *)
  Definition ProxOracle (F : Func R E) : Prop :=
    forall v lam, 0 < lam -> IsProx dom f lam v (fprox F v lam).

  Lemma prox_fix F lam v p : Convex dom f -> ProxOracle F -> 0 < lam ->
    SubCert dom f lam v p -> fprox F v lam = p.
  Proof.
    intros Hc Ho Hl Hp. apply (cert_unique dom f lam v); auto.
    apply prox_subcert; auto.
  Qed.

  Lemma prox_cert F lam v : Convex dom f -> ProxOracle F -> 0 < lam ->
    SubCert dom f lam v (fprox F v lam).
  Proof. intros Hc Ho Hl. apply prox_subcert; auto. Qed.
End Sub.

(** vector identities used to close the fixed-point computations *)
Section VecFacts.
  Context {S : InnerSpace}.
  Lemma vadd_vsub_cancel u a : vsub (vadd u a) a = u.
  Proof. unfold vsub. rewrite <- vadd_assoc, vadd_opp_r. apply vadd_0_r. Qed.
  Lemma vsub_vadd_cancel u a : vadd (vsub u a) a = u.
  Proof. unfold vsub. rewrite <- vadd_assoc, vadd_opp_l. apply vadd_0_r. Qed.
  Lemma vscale_0_r a : vscale a vzero = (vzero : E).
  Proof. rewrite <- (vscale_0_l vzero), vscale_scale. f_equal. lra. Qed.
  Lemma vopp_0 : vopp vzero = (vzero : E).
  Proof. rewrite vopp_scale. apply vscale_0_r. Qed.
  Lemma eq_by_ip (a b : E) : (forall w, ip (vsub a b) w = 0) -> a = b.
  Proof. intros H. apply vsub_eq_0, nsq_0. apply H. Qed.
  Lemma lin_0 {S2 : InnerSpace} (A : E -> @E S2) : IsLinear A -> A vzero = vzero.
  Proof.
    intros [_ H]. transitivity (A (vscale 0 vzero)); [f_equal; symmetry; apply vscale_0_l|].
    rewrite H. apply vscale_0_l.
  Qed.
  Lemma lin_sub {S2 : InnerSpace} (A : E -> @E S2) x y : IsLinear A -> A (vsub x y) = vsub (A x) (A y).
  Proof. intros [H1 H2]. unfold vsub. rewrite H1, !vopp_scale, H2. reflexivity. Qed.
End VecFacts.

(** push everything to sums of scaled atoms, then [ip] to real atoms *)
Ltac lin_push :=
  repeat match goal with
  | H : IsLinear ?A |- _ => first [rewrite (proj1 H) | rewrite (proj2 H)]
  end.
Ltac ipn :=
  unfold nsq, vsub in *; rewrite ?vopp_scale in *; lin_push;
  repeat first
    [ rewrite ip_add_l | rewrite ip_add_r | rewrite ip_scale_l | rewrite ip_scale_r
    | rewrite ip_0_l | rewrite ip_0_r ].
(** generalise every inner product (normalising symmetry) so that lra / nra / field see reals *)
Ltac ip_atoms :=
  repeat match goal with
  | |- context [ip ?a ?b] =>
      tryif constr_eq a b then idtac else rewrite ?(ip_sym b a);
      let r := fresh "r" in generalize (ip a b); intro r
  end.

(** scalar literals of the generated code at R *)
Lemma klit_2_R : @klit R Num_R 2 1 = 2. Proof. unfold klit, kofZ, kofpos, k2. cbn. lra. Qed.
Lemma klit_4_R : @klit R Num_R 4 1 = 4. Proof. unfold klit, kofZ, kofpos, k2. cbn. lra. Qed.
Lemma klit_half_R : @klit R Num_R 1 2 = / 2. Proof. unfold klit, kofZ, kofpos, k2. cbn. lra. Qed.

Ltac pos :=
  first [ assumption | lra
        | apply Rinv_0_lt_compat; pos | apply Rmult_lt_0_compat; pos | apply Rdiv_lt_0_compat; pos ].

(** a vector identity, by expansion against an arbitrary test vector *)
Ltac vec_eq := apply eq_by_ip; let w := fresh "w" in intros w; ipn; ip_atoms; try ring; try (field; lra).

(** rewrite one prox call of the oracle [F] into its fixed point [p]; leaves the certificate *)
Ltac fix_prox F p dom f :=
  match goal with
  | |- context [fprox F ?v ?lam] =>
      let H := fresh "Hp" in
      assert (H : fprox F v lam = p);
      [ apply (prox_fix dom f); [assumption | assumption | pos | ] | rewrite H; clear H ]
  end.

(** A concrete inner-product space (the real line) and trivial data: witnesses that the
    hypotheses of the C03 theorems are jointly satisfiable (non-vacuity). *)
Local Obligation Tactic := idtac.
Program Definition R_space : InnerSpace := {|
  E := R; vzero := 0; vadd := Rplus; vopp := Ropp; vscale := Rmult; ip := Rmult |}.
Next Obligation. intros; lra. Qed.
Next Obligation. intros; lra. Qed.
Next Obligation. intros; lra. Qed.
Next Obligation. intros; lra. Qed.
Next Obligation. intros; lra. Qed.
Next Obligation. intros; lra. Qed.
Next Obligation. intros; lra. Qed.
Next Obligation. intros; lra. Qed.
Next Obligation. intros; lra. Qed.
Next Obligation. intros; lra. Qed.
Next Obligation. intros; lra. Qed.
Next Obligation. intros; nra. Qed.
Next Obligation. intros x H. nra. Qed.

Definition zero_func : Func R (@E R_space) := mkFunc (fun _ => 0) (fun v _ => v) (fun _ => 0).
Lemma zero_convex : Convex (S:=R_space) (fun _ => True) (fun _ => 0).
Proof. intros x y t _ _ _. split; [exact I | lra]. Qed.
Lemma zero_prox_oracle : ProxOracle (S:=R_space) (fun _ => True) (fun _ => 0) zero_func.
Proof.
  intros v lam Hl. split; [exact I|]. intros x _. unfold obj, zero_func, nsq, vsub. cbn.
  pose proof (Rle_0_sqr (x + - v)) as H. unfold Rsqr in H.
  replace ((v + - v) * (v + - v)) with 0 by ring. lra.
Qed.
Lemma zero_subgrad x : Subgrad (S:=R_space) (fun _ => True) (fun _ => 0) x 0.
Proof. split; [exact I|]. intros z _. cbn. lra. Qed.
