(** Row-major n-d arrays as flat lists, multi-indices, and sparse-row operator models.
    An operator model is, for every output position, a list of (integer coefficient, input
    position) pairs -- i.e. a sparse matrix; [apply_rows] evaluates it over any ring. *)
From Coq Require Import List Arith ZArith Lia Bool.
Import ListNotations.

Definition shape := list nat.
Fixpoint size (s : shape) : nat := match s with [] => 1 | n :: r => n * size r end.

(** multi-index of flat position k in a row-major array of shape s *)
Fixpoint unravel (s : shape) (k : nat) : list nat :=
  match s with
  | [] => []
  | n :: r => (k / size r) mod n :: unravel r (k mod size r)
  end.
Fixpoint ravel (s : shape) (idx : list nat) : nat :=
  match s, idx with
  | n :: r, i :: ir => i * size r + ravel r ir
  | _, _ => 0
  end.

Definition all_midx (s : shape) : list (list nat) := map (unravel s) (seq 0 (size s)).

Lemma size_pos_div_mod r k : size r <> 0 -> k = (k / size r) * size r + k mod size r.
Proof. intros H. rewrite Nat.mul_comm. apply Nat.div_mod. exact H. Qed.

(** ravel (unravel k) = k for every position of the array *)
Lemma ravel_unravel : forall s k, k < size s -> ravel s (unravel s k) = k.
Proof.
  induction s as [|n r IH]; intros k Hk; cbn in *.
  - lia.
  - destruct (Nat.eq_dec (size r) 0) as [E|E].
    + rewrite E in Hk. lia.
    + assert (Hq : k / size r < n).
      { apply Nat.div_lt_upper_bound; auto. lia. }
      rewrite Nat.mod_small by exact Hq.
      rewrite IH by (apply Nat.mod_upper_bound; exact E).
      symmetry. apply size_pos_div_mod. exact E.
Qed.

Fixpoint set_nth {A} (l : list A) (i : nat) (v : A) : list A :=
  match l, i with
  | [], _ => []
  | _ :: r, O => v :: r
  | x :: r, S j => x :: set_nth r j v
  end.
Fixpoint remove_nth {A} (l : list A) (i : nat) : list A :=
  match l, i with
  | [], _ => []
  | _ :: r, O => r
  | x :: r, S j => x :: remove_nth r j
  end.
Fixpoint insert_nth {A} (l : list A) (i : nat) (v : A) : list A :=
  match i, l with
  | O, _ => v :: l
  | S j, x :: r => x :: insert_nth r j v
  | S j, [] => [v]
  end.
Lemma remove_insert {A} (l : list A) : forall i v, i <= length l -> remove_nth (insert_nth l i v) i = l.
Proof.
  induction l as [|x l IH]; intros [|i] v H; cbn in *; auto; try lia.
  f_equal. apply IH. lia.
Qed.

(** sparse rows *)
Definition row := list (Z * nat).
Definition rows := list row.

Section Apply.
  Variable K : Type.
  Variables (k0 : K) (kadd kmul : K -> K -> K) (ofZ : Z -> K).
  Definition apply_row (r : row) (x : list K) : K :=
    fold_right (fun p acc => kadd (kmul (ofZ (fst p)) (nth (snd p) x k0)) acc) k0 r.
  Definition apply_rows (R : rows) (x : list K) : list K := map (fun r => apply_row r x) R.
  (** dense matrix with [n] columns *)
  Definition dense_row (n : nat) (r : row) : list K :=
    map (fun j => fold_right (fun p acc => if Nat.eqb (snd p) j then kadd (ofZ (fst p)) acc else acc) k0 r) (seq 0 n).
  Definition dense (n : nat) (R : rows) : list (list K) := map (dense_row n) R.
End Apply.

(** operator models: for each output multi-index the sparse row *)
Definition model (out_shape in_shape : shape) (f : list nat -> list (Z * list nat)) : rows :=
  map (fun k => map (fun p => (fst p, ravel in_shape (snd p))) (f k)) (all_midx out_shape).

Definition in_range (s : shape) (idx : list nat) : bool :=
  Nat.eqb (length s) (length idx) && forallb (fun p => Nat.ltb (snd p) (fst p)) (combine s idx).
