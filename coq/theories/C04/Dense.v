(** The dense matrix of a sparse-row model acts as the rows say:
    (c_dense n R) x = [ sum over (c, j) in row of c * x[j] ]  whenever every column index is < n. *)
From Coq Require Import List Arith Lia Bool QArith Qcanon Ring.
From SV Require Import LinAlg.Mat LinAlg.CQ LinAlg.CQExpr C04.Arr C04.Models C04.Theorems.
Import ListNotations.
Local Open Scope nat_scope.

Lemma cmul_c0_l a : cmul c0 a = c0.
Proof. destruct a; unfold cmul, c0; cbn. f_equal; ring. Qed.
Lemma cmul_add_l a b c : cmul (cadd a b) c = cadd (cmul a c) (cmul b c).
Proof. destruct a, b, c; unfold cmul, cadd; cbn. f_equal; ring. Qed.

(** one-hot row: coefficient c at column j *)
Definition onehot (n j : nat) (c : CQ) (s : nat) : cvec :=
  map (fun t => if Nat.eqb j t then c else c0) (seq s n).

Lemma dot_onehot c (x : cvec) : forall n s j, s <= j < s + n ->
  c_dot (onehot n j c s) (skipn s x) = cmul c (nth j x c0).
Proof.
  unfold c_dot, onehot. induction n as [|n IH]; intros s j H; [lia|].
  cbn [seq map].
  destruct (skipn s x) as [|y ys] eqn:E.
  - (* x is too short: everything is zero *)
    assert (Hl : length x <= s).
    { destruct (le_lt_dec (length x) s); auto.
      assert (length (skipn s x) = length x - s) by apply skipn_length. rewrite E in H0. cbn in H0. lia. }
    rewrite nth_overflow by lia. rewrite dot_nil_r.
    destruct c; unfold cmul, c0; cbn. f_equal; ring.
  - assert (Hy : y = nth s x c0 /\ ys = skipn (S s) x).
    { clear -E. revert x E. induction s as [|s IHs]; intros [|a x] E; cbn in *; try discriminate.
      - inversion E; auto.
      - apply IHs in E. exact E. }
    destruct Hy as [-> ->]. cbn [dot].
    destruct (Nat.eqb_spec j s) as [->|Hne].
    + assert (Hz : forall m t, s < t ->
                dot CQ c0 cadd cmul (map (fun u => if Nat.eqb s u then c else c0) (seq t m)) (skipn t x) = c0).
      { induction m as [|m IHm]; intros t Ht; cbn; auto.
        destruct (skipn t x) as [|z zs] eqn:Ez; auto.
        replace (Nat.eqb s t) with false by (symmetry; apply Nat.eqb_neq; lia).
        assert (zs = skipn (S t) x).
        { clear -Ez. revert x Ez. induction t as [|t IHt]; intros [|a x] Ez; cbn in *; try discriminate.
          - inversion Ez; auto.
          - apply IHt in Ez. exact Ez. }
        subst zs. rewrite IHm by lia. rewrite cmul_c0_l. apply cadd_c0_l. }
      rewrite Hz by lia. apply cadd_c0_r.
    + rewrite cmul_c0_l, cadd_c0_l. apply IH. lia.
Qed.

Lemma dense_row_cons n p r :
  c_dense_row n (p :: r) = vadd CQ cadd (onehot n (snd p) (fst p) 0) (c_dense_row n r).
Proof.
  unfold c_dense_row, onehot. generalize 0 as s. induction n as [|n IH]; intros s; cbn; auto.
  rewrite IH. f_equal. destruct (Nat.eqb (snd p) s); auto. symmetry. apply cadd_c0_l.
Qed.

Lemma dense_row_nil_dot n x : c_dot (c_dense_row n []) x = c0.
Proof.
  unfold c_dense_row, c_dot. generalize 0 as s. revert x. induction n as [|n IH]; intros [|y x] s; cbn; auto.
  rewrite IH. rewrite cmul_c0_l. apply cadd_c0_l.
Qed.

Lemma dense_row_length n r : length (c_dense_row n r) = n.
Proof. unfold c_dense_row. now rewrite map_length, seq_length. Qed.

Theorem dense_row_acts (n : nat) (r : crow) (x : cvec) :
  length x = n -> Forall (fun p => snd p < n) r ->
  c_dot (c_dense_row n r) x = c_apply_row r x.
Proof.
  intros Hx. induction r as [|p r IH]; intros Hr.
  - cbn [c_apply_row fold_right]. apply dense_row_nil_dot.
  - apply Forall_cons_iff in Hr as [Hp Hr].
    rewrite dense_row_cons. unfold c_dot.
    rewrite (dot_vadd_l CQ c0 c1 cadd cmul csub copp CQ_ring).
    2:{ unfold onehot. rewrite map_length, seq_length, dense_row_length. reflexivity. }
    fold (c_dot (c_dense_row n r) x). rewrite IH by auto.
    pose proof (dot_onehot (fst p) x n 0 (snd p)) as H. cbn [skipn] in H.
    unfold c_dot in H. rewrite H by lia. reflexivity.
Qed.

(** the dense matrix of a model applied to x equals the sparse semantics of the model *)
Theorem dense_acts (n : nat) (R : crows) (x : cvec) :
  length x = n -> Forall (fun r => Forall (fun p => snd p < n) r) R ->
  c_mv (c_dense n R) x = c_apply R x.
Proof.
  intros Hx HR. unfold c_mv, mv, c_dense, c_apply. rewrite map_map.
  apply map_ext_in. intros r Hr. rewrite Forall_forall in HR.
  apply dense_row_acts; auto.
Qed.
