(** Link between the sparse finite-difference stencil (from which the dense model matrix is
    built) and the reference semantics [fd1] (for which the documented banded matrices are proved
    entry-wise): for every length, boundary option and row, the stencil row applied to x is the
    corresponding entry of [fd1]. *)
From Coq Require Import List Arith ZArith Lia Bool QArith Qcanon Ring.
From SV Require Import LinAlg.Mat LinAlg.CQ LinAlg.CQExpr C04.Arr C04.Models C04.Theorems C04.Dense.
Import ListNotations.
Local Open Scope nat_scope.

Definition zrow (r : list (Z * nat)) : crow := map (fun p => (cz (fst p), snd p)) r.

Lemma cz_1 : cz 1 = c1.
Proof. unfold cz, c1. f_equal. Qed.
Lemma cmul_c1_l a : cmul c1 a = a.
Proof. destruct a; unfold cmul, c1; cbn. f_equal; ring. Qed.
Lemma cz_opp z : cz (- z) = copp (cz z).
Proof.
  unfold cz, copp; cbn [fst snd].
  assert (H : Q2Qc (inject_Z (- z)) = (- Q2Qc (inject_Z z))%Qc).
  { apply Qc_is_canon. unfold Qcopp, Q2Qc. cbn [this]. rewrite !Qred_correct. unfold Qeq, inject_Z, Qopp; cbn. lia. }
  rewrite H. f_equal.
Qed.
Lemma cmul_copp_l a b : cmul (copp a) b = copp (cmul a b).
Proof. destruct a, b; unfold cmul, copp; cbn. f_equal; ring. Qed.

Lemma apply_row_app r1 r2 x : c_apply_row (r1 ++ r2) x = cadd (c_apply_row r1 x) (c_apply_row r2 x).
Proof.
  unfold c_apply_row. induction r1 as [|p r1 IH]; cbn.
  - symmetry. apply cadd_c0_l.
  - rewrite IH. apply cadd_assoc.
Qed.
Lemma apply_row_neg r x :
  c_apply_row (zrow (map (fun p => (Z.opp (fst p), snd p)) r)) x = copp (c_apply_row (zrow r) x).
Proof.
  unfold c_apply_row, zrow. induction r as [|p r IH]; cbn.
  - unfold copp, c0; cbn. f_equal; ring.
  - rewrite IH, cz_opp, cmul_copp_l.
    generalize (cmul (cz (fst p)) (nth (snd p) x c0)) (fold_right (fun p acc => cadd (cmul (fst p) (nth (snd p) x c0)) acc) c0
      (map (fun p0 : Z * nat => (cz (fst p0), snd p0)) r)).
    intros [a b] [c d]. unfold cadd, copp; cbn. f_equal; ring.
Qed.

(** the extended array  pre ++ x ++ apd  of the reference semantics *)
Definition ext (pre apd : option nat) (circ : bool) (x : cvec) : cvec :=
  let x0 := hd c0 x in let xl := last x c0 in
  (match pre with None => [] | Some 0 => [x0] | Some _ => [c0] end)
  ++ x ++ (if circ then [x0] else match apd with None => [] | Some 0 => [xl] | Some _ => [c0] end).

Lemma fd1_is_adjdiff_ext pre apd circ x :
  fd1 CQ c0 csub pre apd circ x = adjdiff CQ csub (ext pre apd circ x).
Proof. reflexivity. Qed.

Lemma hd_nth0 (x : cvec) : hd c0 x = nth 0 x c0.
Proof. destruct x; reflexivity. Qed.
Lemma last_nth (x : cvec) : x <> [] -> last x c0 = nth (length x - 1) x c0.
Proof.
  induction x as [|a [|b r] IH]; intros H; cbn in *; auto; try congruence.
  rewrite IH by discriminate. cbn. now rewrite Nat.sub_0_r.
Qed.

(** value picked by the source list of position e of the extended array *)
Lemma ext_src_value pre apd circ (x : cvec) e : x <> [] -> e < length (ext pre apd circ x) ->
  c_apply_row (zrow (ext_src pre apd circ (length x) e)) x = nth e (ext pre apd circ x) c0.
Proof.
  intros Hx He.
  assert (Hn : 0 < length x) by (destruct x; cbn; [congruence|lia]).
  assert (one : forall j, c_apply_row (zrow [(1%Z, j)]) x = nth j x c0).
  { intros j. unfold c_apply_row, zrow; cbn. rewrite cz_1, cmul_c1_l. apply cadd_c0_r. }
  assert (none : c_apply_row (zrow []) x = c0) by reflexivity.
  unfold ext_src, ext in *.
  set (prl := match pre with None => [] | Some 0 => [hd c0 x] | Some _ => [c0] end) in *.
  set (apl := if circ then [hd c0 x] else match apd with None => [] | Some 0 => [last x c0] | Some _ => [c0] end) in *.
  set (p := match pre with None => 0 | Some _ => 1 end).
  assert (Hp : length prl = p) by (unfold prl, p; destruct pre as [[|k]|]; reflexivity).
  cbv zeta.
  destruct (Nat.ltb_spec e p) as [Hlt|Hge].
  - (* inside the prepended element *)
    rewrite app_nth1 by lia.
    unfold prl, p in *. destruct pre as [[|k]|]; cbn in Hlt; try lia.
    + replace e with 0 by lia. rewrite one. cbn. symmetry. apply hd_nth0.
    + replace e with 0 by lia. rewrite none. reflexivity.
  - rewrite app_nth2 by lia. rewrite Hp.
    destruct (Nat.ltb_spec (e - p) (length x)) as [Hin|Hout].
    + rewrite one. rewrite app_nth1 by lia. reflexivity.
    + rewrite app_nth2 by lia.
      rewrite !app_length, Hp in He.
      assert (Hz : e - p - length x = 0) by (unfold apl in He; destruct circ; [cbn in He; lia|destruct apd as [[|a]|]; cbn in He; lia]).
      rewrite Hz. unfold apl in *. destruct circ.
      * rewrite one. cbn. symmetry. apply hd_nth0.
      * destruct apd as [[|a]|]; cbn in He.
        -- rewrite one. cbn. symmetry. now apply last_nth.
        -- rewrite none. reflexivity.
        -- lia.
Qed.

(** row i of the stencil applied to x = entry i of the reference finite difference *)
Theorem fd_stencil_row_is_fd1_entry pre apd circ (x : cvec) i :
  x <> [] -> S i < length (ext pre apd circ x) ->
  c_apply_row (zrow (fd_stencil pre apd circ (length x) i)) x
  = nth i (fd1 CQ c0 csub pre apd circ x) c0.
Proof.
  intros Hx Hi. rewrite fd1_is_adjdiff_ext.
  rewrite (adjdiff_nth CQ c0 csub) by exact Hi.
  unfold fd_stencil, zrow. rewrite map_app, apply_row_app.
  fold (zrow (ext_src pre apd circ (length x) (S i))).
  rewrite ext_src_value by (auto; lia).
  change (map (fun p : Z * nat => (cz (fst p), snd p))
            (map (fun p : Z * nat => ((- fst p)%Z, snd p)) (ext_src pre apd circ (length x) i)))
    with (zrow (map (fun p => (Z.opp (fst p), snd p)) (ext_src pre apd circ (length x) i))).
  rewrite apply_row_neg, ext_src_value by (auto; lia).
  reflexivity.
Qed.
