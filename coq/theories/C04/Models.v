(** C04: the documented maps of the built-in operators as executable sparse-row models.
    Every model is a function of the constructor configuration only (shapes, axes, flags, filter
    values), defined for all sizes; [dense_model] turns it into the matrix compared (inside Coq)
    with the matrix extracted from the implementation at a sampled configuration. *)
From Coq Require Import List Arith ZArith Lia Bool QArith Qcanon.
From SV Require Import LinAlg.Mat LinAlg.CQ LinAlg.CQExpr C04.Arr.
Import ListNotations.
Local Open Scope nat_scope.

(** rows with Gaussian-rational coefficients *)
Definition crow := list (CQ * nat).
Definition crows := list crow.
Definition cz (z : Z) : CQ := (Q2Qc (inject_Z z), 0%Qc).

Definition c_dense_row (n : nat) (r : crow) : cvec :=
  map (fun j => fold_right (fun p acc => if Nat.eqb (snd p) j then cadd (fst p) acc else acc) c0 r) (seq 0 n).
Definition c_dense (n : nat) (R : crows) : cmat := map (c_dense_row n) R.
Definition c_apply_row (r : crow) (x : cvec) : CQ :=
  fold_right (fun p acc => cadd (cmul (fst p) (nth (snd p) x c0)) acc) c0 r.
Definition c_apply (R : crows) (x : cvec) : cvec := map (fun r => c_apply_row r x) R.

Definition cmodel (out_shape in_shape : shape) (f : list nat -> list (CQ * list nat)) : crows :=
  map (fun k => map (fun p => (fst p, ravel in_shape (snd p))) (f k)) (all_midx out_shape).
Definition dense_model (out_shape in_shape : shape) f : cmat :=
  c_dense (size in_shape) (cmodel out_shape in_shape f).

(** ** finite differences (scico/linop/_diff.py) *)
(** 1-D stencil.  [pre], [app]: None | Some 0 | Some 1 as in the constructor; the extended array
    is  pre ++ x ++ app  and  y[i] = ext[i+1] - ext[i]. *)
Definition ext_src (pre app : option nat) (circ : bool) (n : nat) (e : nat) : list (Z * nat) :=
  let p := match pre with None => 0 | Some _ => 1 end in
  if Nat.ltb e p then
    match pre with Some 0 => [(1%Z, 0)] | _ => [] end       (* copy of x[0]  |  a zero *)
  else if Nat.ltb (e - p) n then [(1%Z, e - p)]
  else if circ then [(1%Z, 0)]                              (* copy of x[0] at the end *)
  else match app with Some 0 => [(1%Z, n - 1)] | _ => [] end.
Definition fd_len (pre app : option nat) (circ : bool) (n : nat) : nat :=
  n + (match pre with None => 0 | Some _ => 1 end)
    + (if circ then 1 else match app with None => 0 | Some _ => 1 end) - 1.
Definition fd_stencil (pre app : option nat) (circ : bool) (n : nat) (i : nat) : list (Z * nat) :=
  ext_src pre app circ n (S i) ++ map (fun p => (Z.opp (fst p), snd p)) (ext_src pre app circ n i).

(** 1-D reference semantics: build the extended list, take adjacent differences *)
Section FD1.
  Variable K : Type.
  Variables (k0 : K) (ksub : K -> K -> K).
  Fixpoint adjdiff (l : list K) : list K :=
    match l with
    | a :: ((b :: _) as r) => ksub b a :: adjdiff r
    | _ => []
    end.
  Definition fd1 (pre app : option nat) (circ : bool) (x : list K) : list K :=
    let x0 := hd k0 x in let xl := last x k0 in
    let pr := match pre with None => [] | Some 0 => [x0] | Some _ => [k0] end in
    let ap := if circ then [x0] else match app with None => [] | Some 0 => [xl] | Some _ => [k0] end in
    adjdiff (pr ++ x ++ ap).

  Lemma adjdiff_length l : length (adjdiff l) = length l - 1.
  Proof.
    induction l as [|a [|b r] IH]; cbn in *; auto. rewrite IH. cbn. lia.
  Qed.
  Lemma adjdiff_nth : forall l i, S i < length l ->
    nth i (adjdiff l) k0 = ksub (nth (S i) l k0) (nth i l k0).
  Proof.
    induction l as [|a [|b r] IH]; intros i Hi; cbn in *; try lia.
    destruct i as [|i]; auto. apply (IH i). cbn. lia.
  Qed.
  (** output length = N + [prepend] + [append] - 1 (documented shape rule) *)
  Lemma fd1_length pre app circ x : x <> [] ->
    length (fd1 pre app circ x) = fd_len pre app circ (length x).
  Proof.
    intros Hx. unfold fd1, fd_len. rewrite adjdiff_length, !app_length.
    destruct pre as [[|?]|], app as [[|?]|], circ; cbn; lia.
  Qed.
End FD1.

(** n-d operator along [axis] *)
Definition fd_model (in_shape : shape) (axis : nat) (pre app : option nat) (circ : bool) : shape * cmat :=
  let n := nth axis in_shape 0 in
  let out_shape := set_nth in_shape axis (fd_len pre app circ n) in
  (out_shape,
   dense_model out_shape in_shape
     (fun k => map (fun p => (cz (fst p), set_nth k axis (snd p))) (fd_stencil pre app circ n (nth axis k 0)))).

(** FiniteDifference: vertical stack over the axes (block output) *)
Definition fdn_model (in_shape : shape) (axes : list nat) (pre app : option nat) (circ : bool) : cmat :=
  concat (map (fun ax => snd (fd_model in_shape ax pre app circ)) axes).

(** ** wrapped array functions (scico/linop/_func.py) *)
Definition one (idx : list nat) : list (CQ * list nat) := [(c1, idx)].

Definition pad_model (in_shape : shape) (before after : list nat) : shape * cmat :=
  let out_shape := map (fun t => fst (fst t) + snd (fst t) + snd t) (combine (combine in_shape before) after) in
  (out_shape,
   dense_model out_shape in_shape
     (fun k => let ok := forallb (fun t => Nat.leb (snd (fst t)) (fst (fst t)) && Nat.ltb (fst (fst t) - snd (fst t)) (snd t))
                                  (combine (combine k before) in_shape) in
               if ok then one (map (fun t => fst t - snd t) (combine k before)) else [])).

Definition crop_model (in_shape : shape) (before after : list nat) : shape * cmat :=
  let out_shape := map (fun t => fst (fst t) - snd (fst t) - snd t) (combine (combine in_shape before) after) in
  (out_shape,
   dense_model out_shape in_shape (fun k => one (map (fun t => fst t + snd t) (combine k before)))).

(** basic indexing: per input axis either an integer index (axis dropped) or start/step/count
    (the triple is produced from the Python slice by the model of slice.indices in C12) *)
Inductive axsel := AInt (j : nat) | ARange (start : Z) (step : Z) (count : nat).
Fixpoint slice_src (sel : list axsel) (k : list nat) : list nat :=
  match sel with
  | [] => []
  | AInt j :: r => j :: slice_src r k
  | ARange st sp _ :: r =>
      match k with
      | [] => []
      | ki :: kr => Z.to_nat (st + sp * Z.of_nat ki) :: slice_src r kr
      end
  end.
Definition slice_out_shape (sel : list axsel) : shape :=
  flat_map (fun s => match s with AInt _ => [] | ARange _ _ c => [c] end) sel.
Definition slice_model (in_shape : shape) (sel : list axsel) : shape * cmat :=
  let out_shape := slice_out_shape sel in
  (out_shape, dense_model out_shape in_shape (fun k => one (slice_src sel k))).

Definition find_pos (j : nat) (perm : list nat) : nat :=
  (fix go (l : list nat) (i : nat) := match l with [] => 0 | x :: r => if Nat.eqb x j then i else go r (S i) end) perm 0.
Definition transpose_model (in_shape : shape) (perm : list nat) : shape * cmat :=
  let out_shape := map (fun p => nth p in_shape 0) perm in
  (out_shape,
   dense_model out_shape in_shape
     (fun k => one (map (fun j => nth (find_pos j perm) k 0) (seq 0 (length in_shape))))).

Definition reshape_model (in_shape out_shape : shape) : cmat :=
  dense_model out_shape in_shape (fun k => one (unravel in_shape (ravel out_shape k))).

Definition sum_axis_model (in_shape : shape) (axis : nat) : shape * cmat :=
  let out_shape := remove_nth in_shape axis in
  (out_shape,
   dense_model out_shape in_shape
     (fun k => map (fun t => (c1, insert_nth k axis t)) (seq 0 (nth axis in_shape 0)))).
Definition sum_all_model (in_shape : shape) : cmat :=
  [c_dense_row (size in_shape) (map (fun j => (c1, j)) (seq 0 (size in_shape)))].

(** ** convolutions *)
(** values of an n-d filter as a flat list with its shape *)
Definition filt := (shape * cvec)%type.
Definition fval (h : filt) (j : list nat) : CQ := nth (ravel (fst h) j) (snd h) c0.

(** circular convolution over the trailing [length hshape] axes, integer centre [c]:
    y[b, k] = sum_j h[j] x[b, (k - j + c) mod N]   (scico/linop/_circconv.py) *)
Definition zmodn (a : Z) (n : nat) : nat := Z.to_nat (Z.modulo a (Z.of_nat n)).
Definition circconv_model (in_shape : shape) (h : filt) (centre : list Z) : cmat :=
  let nb := length in_shape - length (fst h) in
  let cshape := skipn nb in_shape in
  dense_model in_shape in_shape
    (fun k =>
       let kb := firstn nb k in let kc := skipn nb k in
       map (fun j => (fval h j,
                      kb ++ map (fun t => zmodn (Z.of_nat (fst (fst (fst t))) - Z.of_nat (snd (fst (fst t))) + snd t) (snd (fst t)))
                                (combine (combine (combine kc j) cshape) centre)))
           (all_midx (fst h))).

(** linear convolution, "full" output: y[k] = sum_j h[j] x[k - j] *)
Definition conv_full_row (in_shape : shape) (h : filt) (k : list Z) : list (CQ * list nat) :=
  flat_map (fun j =>
     let src := map (fun t => (fst t - Z.of_nat (snd t))%Z) (combine k j) in
     if forallb (fun t => Z.leb 0 (fst t) && Z.ltb (fst t) (Z.of_nat (snd t))) (combine src in_shape)
     then [(fval h j, map Z.to_nat src)] else [])
   (all_midx (fst h)).
(** mode: 0 full, 1 valid, 2 same = shape of the operator's argument (Convolve: first input of
    scipy-style convolve), 3 same = shape of the fixed array (ConvolveByX: the fixed array is the
    first input); centred with offset (second input length - 1) / 2 *)
Definition conv_out_shape (mode : nat) (in_shape hshape : shape) : shape :=
  map (fun t => match mode with
                | 0 => fst t + snd t - 1
                | 1 => Nat.max (fst t) (snd t) - Nat.min (fst t) (snd t) + 1
                | 2 => fst t
                | _ => snd t
                end) (combine in_shape hshape).
Definition conv_offset (mode : nat) (in_shape hshape : shape) : list Z :=
  map (fun t => match mode with
                | 0 => 0%Z
                | 1 => Z.of_nat (Nat.min (fst t) (snd t) - 1)
                | 2 => Z.of_nat ((snd t - 1) / 2)
                | _ => Z.of_nat ((fst t - 1) / 2)
                end) (combine in_shape hshape).
Definition conv_model (mode : nat) (in_shape : shape) (h : filt) : shape * cmat :=
  let out_shape := conv_out_shape mode in_shape (fst h) in
  let off := conv_offset mode in_shape (fst h) in
  (out_shape,
   dense_model out_shape in_shape
     (fun k => conv_full_row in_shape h (map (fun t => (Z.of_nat (fst t) + snd t)%Z) (combine k off)))).

(** ** DFT on axes whose length divides 4 (exact roots of unity), with axes_shape cropping /
    zero padding at the end of the axis and the three normalisations *)
Definition ipow (t : nat) : CQ :=     (* (-i)^t *)
  match t mod 4 with
  | 0 => (1%Qc, 0%Qc) | 1 => (0%Qc, (- (1))%Qc) | 2 => ((- (1))%Qc, 0%Qc) | _ => (0%Qc, 1%Qc)
  end.
(** per axis: (is transformed, output length M along that axis) ; w^{k n} with w = exp(-2 pi i / M) *)
Fixpoint zip3 (k : list nat) (al : list (bool * nat)) (nidx : list nat) : list (nat * bool * nat * nat) :=
  match k, al, nidx with
  | ki :: kr, (fl, m) :: ar, ni :: nr => (ki, fl, m, ni) :: zip3 kr ar nr
  | _, _, _ => []
  end.
Definition dft_model (in_shape : shape) (axes_len : list (bool * nat)) (scale : CQ) : shape * cmat :=
  let out_shape := map (fun t : nat * (bool * nat) => if fst (snd t) then snd (snd t) else fst t)
                       (combine in_shape axes_len) in
  (out_shape,
   dense_model out_shape in_shape
     (fun k =>
        flat_map (fun nidx =>
           let z := zip3 k axes_len nidx in
           (* untransformed coordinates must agree; transformed input coordinates beyond the
              output length are cropped (numpy `s` semantics) *)
           let ok := forallb (fun t : nat * bool * nat * nat =>
                                let '(ki, fl, m, ni) := t in if fl then Nat.ltb ni m else Nat.eqb ni ki) z in
           if ok then
             [(fold_right (fun (t : nat * bool * nat * nat) acc =>
                             let '(ki, fl, m, ni) := t in
                             if fl then cmul (ipow (ki * ni * (4 / m))) acc else acc) scale z, nidx)]
           else [])
         (all_midx in_shape))).

(** ** projected gradient without coordinates: stack of forward differences with the last
    difference along each axis set to zero (append of the last value) *)
Definition diffstack_model (in_shape : shape) (axes : list nat) : cmat :=
  fdn_model in_shape axes None (Some 0) false.

(** ** X-ray transform (2-D), given the bin indices and weights the implementation computed:
    every pixel p adds im[p]*w to bin inds[p] and im[p]*(1-w) to bin inds[p]+1 of its view;
    out-of-range bins (negative or >= ny) are dropped. *)
Definition xray2d_model (npix ny : nat) (views : list (list (Z * CQ))) : cmat :=
  (* rows indexed by (view, bin); columns by pixel *)
  flat_map (fun vw =>
     map (fun b =>
        map (fun p =>
               let '(ind, w) := p in
               cadd (if Z.eqb ind (Z.of_nat b) then w else c0)
                    (if Z.eqb (ind + 1) (Z.of_nat b) && Z.leb 0 ind then csub c1 w else c0))
            vw)
      (seq 0 ny))
   views.

(** mass conservation: a scatter of (w, 1-w) into in-range bins preserves the total.
    Stated on the column sums of the model: every pixel whose bins are in range has column sum 1. *)
Definition col_sum (M : cmat) (j : nat) : CQ := fold_right (fun r acc => cadd (nth j r c0) acc) c0 M.

(** shape comparison and the checker used by the harness *)
Definition shape_eqb (a b : shape) : bool := list_eqb Nat.eqb a b.
Definition model_case_ok (c : option Q * (shape * cmat) * shape * cmat) : bool :=
  let '(tol, m, oshape, R) := c in shape_eqb (fst m) oshape && cmat_cmp tol (snd m) R.
