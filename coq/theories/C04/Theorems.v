(** C04 theorems about the models: finite differences are the documented banded matrices
    (entry-wise, every boundary option, every length); X-ray scatter conserves mass. *)
From Coq Require Import List Arith ZArith Lia Bool QArith Qcanon Ring.
From SV Require Import LinAlg.Mat LinAlg.CQ LinAlg.CQExpr C04.Arr C04.Models.
Import ListNotations.
Local Open Scope nat_scope.

Section FDdoc.
  Variable K : Type.
  Variables (k0 : K) (ksub : K -> K -> K) (kopp : K -> K).
  Hypothesis ksub_self : forall a, ksub a a = k0.
  Hypothesis ksub_0_r : forall a, ksub a k0 = a.
  Hypothesis ksub_0_l : forall a, ksub k0 a = kopp a.

  Notation fd1 := (fd1 K k0 ksub).
  Notation adjdiff := (adjdiff K ksub).

  Lemma nth_last (x : list K) : x <> [] -> nth (length x - 1) x k0 = last x k0.
  Proof.
    induction x as [|a [|b r] IH]; intros H; cbn in *; auto; try congruence.
    rewrite <- IH by discriminate. cbn. now rewrite Nat.sub_0_r.
  Qed.

  (** interior rows: -1 at column i, +1 at column i+1 (all variants without prepend) *)
  Theorem fd_interior apd circ x i : S i < length x ->
    nth i (fd1 None apd circ x) k0 = ksub (nth (S i) x k0) (nth i x k0).
  Proof.
    intros Hi. unfold Models.fd1. cbn [app].
    rewrite (adjdiff_nth K k0 ksub) by (rewrite app_length; lia).
    rewrite !app_nth1 by lia. reflexivity.
  Qed.

  (** with a prepended element the interior rows are shifted down by one *)
  Theorem fd_interior_prepend p apd circ x i : S i < length x ->
    nth (S i) (fd1 (Some p) apd circ x) k0 = ksub (nth (S i) x k0) (nth i x k0).
  Proof.
    intros Hi. unfold Models.fd1.
    destruct p as [|p]; cbn [app];
      (rewrite (adjdiff_nth K k0 ksub) by (cbn; rewrite app_length; lia));
      cbn [nth]; rewrite !app_nth1 by lia; reflexivity.
  Qed.

  (** first row: prepend = 0 gives a zero row, prepend = 1 gives the row (1 0 ... 0) *)
  Theorem fd_first_prepend0 apd circ x : x <> [] -> nth 0 (fd1 (Some 0) apd circ x) k0 = k0.
  Proof.
    intros Hx. destruct x as [|a r]; [congruence|]. unfold Models.fd1. cbn. apply ksub_self.
  Qed.
  Theorem fd_first_prepend1 apd circ x : x <> [] -> nth 0 (fd1 (Some 1) apd circ x) k0 = nth 0 x k0.
  Proof.
    intros Hx. destruct x as [|a r]; [congruence|]. unfold Models.fd1. cbn. apply ksub_0_r.
  Qed.

  (** last row without prepend: circular -> x[0] - x[N-1]; append = 0 -> zero row;
      append = 1 -> (0 ... 0 -1) *)
  Lemma fd_last_generic (ap : K) x : x <> [] ->
    nth (length x - 1) (adjdiff (x ++ [ap])) k0 = ksub ap (last x k0).
  Proof.
    intros Hx. assert (Hl : 0 < length x) by (destruct x; cbn; [congruence|lia]).
    rewrite (adjdiff_nth K k0 ksub) by (rewrite app_length; cbn; lia).
    replace (S (length x - 1)) with (length x) by lia.
    rewrite app_nth2 by lia. rewrite Nat.sub_diag. cbn [nth].
    rewrite app_nth1 by lia. now rewrite nth_last.
  Qed.
  Theorem fd_last_circular x : x <> [] ->
    nth (length x - 1) (fd1 None None true x) k0 = ksub (nth 0 x k0) (last x k0).
  Proof.
    intros Hx. unfold Models.fd1. cbn [app]. rewrite fd_last_generic by auto.
    destruct x; [congruence|reflexivity].
  Qed.
  Theorem fd_last_append0 x : x <> [] -> nth (length x - 1) (fd1 None (Some 0) false x) k0 = k0.
  Proof.
    intros Hx. unfold Models.fd1. cbn [app]. rewrite fd_last_generic by auto. apply ksub_self.
  Qed.
  Theorem fd_last_append1 x : x <> [] ->
    nth (length x - 1) (fd1 None (Some 1) false x) k0 = kopp (last x k0).
  Proof.
    intros Hx. unfold Models.fd1. cbn [app]. rewrite fd_last_generic by auto. apply ksub_0_l.
  Qed.
End FDdoc.

(** X-ray: every pixel whose two bins are inside the detector contributes its whole weight --
    the column of the model matrix sums to 1 (mass conservation per view). *)
Lemma cadd_assoc a b c : cadd a (cadd b c) = cadd (cadd a b) c.
Proof. destruct a, b, c; unfold cadd; cbn; f_equal; ring. Qed.
Lemma cadd_comm a b : cadd a b = cadd b a.
Proof. destruct a, b; unfold cadd; cbn; f_equal; ring. Qed.

Lemma sum_indicator (w : CQ) : forall ny s a, s <= a < s + ny ->
  fold_right (fun b acc => cadd (if Nat.eqb a b then w else c0) acc) c0 (seq s ny) = w.
Proof.
  induction ny as [|ny IH]; intros s a H; [lia|]. cbn [seq fold_right].
  destruct (Nat.eqb a s) eqn:E.
  - apply Nat.eqb_eq in E. subst s.
    assert (Hz : forall m t, a < t -> fold_right (fun b acc => cadd (if Nat.eqb a b then w else c0) acc) c0 (seq t m) = c0).
    { induction m as [|m IHm]; intros t Ht; cbn; auto.
      replace (Nat.eqb a t) with false by (symmetry; apply Nat.eqb_neq; lia).
      rewrite IHm by lia. apply cadd_c0_l. }
    rewrite Hz by lia. apply cadd_c0_r.
  - apply Nat.eqb_neq in E. rewrite IH by lia. apply cadd_c0_l.
Qed.

Lemma fold_cadd_split (f g : nat -> CQ) l :
  fold_right (fun b acc => cadd (cadd (f b) (g b)) acc) c0 l =
  cadd (fold_right (fun b acc => cadd (f b) acc) c0 l) (fold_right (fun b acc => cadd (g b) acc) c0 l).
Proof.
  induction l as [|b l IH]; cbn.
  - symmetry. apply cadd_c0_l.
  - rewrite IH. rewrite <- !cadd_assoc. f_equal.
    rewrite !cadd_assoc. f_equal. apply cadd_comm.
Qed.

(** column sum of one view of [xray2d_model] for a pixel with in-range bins *)
Theorem xray_mass_conservation (ny : nat) (ind : Z) (w : CQ) :
  (0 <= ind)%Z -> (ind + 1 < Z.of_nat ny)%Z ->
  fold_right (fun b acc =>
     cadd (cadd (if Z.eqb ind (Z.of_nat b) then w else c0)
                (if Z.eqb (ind + 1) (Z.of_nat b) && Z.leb 0 ind then csub c1 w else c0)) acc)
    c0 (seq 0 ny) = c1.
Proof.
  intros H0 H1.
  rewrite (fold_cadd_split (fun b => if Z.eqb ind (Z.of_nat b) then w else c0)
                           (fun b => if Z.eqb (ind + 1) (Z.of_nat b) && Z.leb 0 ind then csub c1 w else c0)).
  assert (E1 : forall l, fold_right (fun b acc => cadd (if Z.eqb ind (Z.of_nat b) then w else c0) acc) c0 l =
                         fold_right (fun b acc => cadd (if Nat.eqb (Z.to_nat ind) b then w else c0) acc) c0 l).
  { induction l as [|b l IH]; cbn; auto. rewrite IH. f_equal.
    destruct (Z.eqb_spec ind (Z.of_nat b)); destruct (Nat.eqb_spec (Z.to_nat ind) b); auto; lia. }
  assert (E2 : forall l, fold_right (fun b acc => cadd (if Z.eqb (ind + 1) (Z.of_nat b) && Z.leb 0 ind then csub c1 w else c0) acc) c0 l =
                         fold_right (fun b acc => cadd (if Nat.eqb (Z.to_nat (ind + 1)) b then csub c1 w else c0) acc) c0 l).
  { induction l as [|b l IH]; cbn; auto. rewrite IH. f_equal.
    replace (Z.leb 0 ind) with true by (symmetry; apply Z.leb_le; lia). rewrite andb_true_r.
    destruct (Z.eqb_spec (ind + 1) (Z.of_nat b)); destruct (Nat.eqb_spec (Z.to_nat (ind + 1)) b); auto; lia. }
  rewrite E1, E2, !sum_indicator by lia.
  destruct w as [w1 w2]. unfold cadd, csub, copp, c1; cbn. f_equal; ring.
Qed.
