(** C07 -- argument selection plumbing.

    scico/function.py  Function.jvp / vjp / jacobian:
        var_arg  = args[index]
        fix_args = args[0:index] + args[(index + 1):]
        F = self.slice(index, *fix_args)     # pfunc(v) = _eval applied to fix_args[0:index] + (v,) + fix_args[index:]
    scico/_autograd.py  cvjp(fun, *primals, jidx):
        fixidx = tuple(range(0, jidx)) + tuple(range(jidx + 1, len(primals)))
        fixprm = primals[0:jidx] + primals[jidx + 1:]
        pfun   = scico.util.partial(fun, fixidx, fixprm...)       # loop over positions, see [fill]
        jax.vjp(pfun, primals[jidx])
    Arguments are modelled as a list over one type (only positions matter here). *)
From Coq Require Import List Arith Lia Bool.
Import ListNotations.

Section ArgSel.
  Variable A : Type.
  Variable dflt : A.

  (** Python slices args[0:i] + args[i+1:]  and  l[0:i] + (x,) + l[i:] *)
  Definition remove_at (i : nat) (l : list A) : list A := firstn i l ++ skipn (S i) l.
  Definition insert_at (i : nat) (x : A) (l : list A) : list A := firstn i l ++ x :: skipn i l.
  (** the argument list with position i replaced *)
  Definition update_at (i : nat) (x : A) (l : list A) : list A := firstn i l ++ x :: skipn (S i) l.

  Lemma firstn_remove_at i l : firstn i (remove_at i l) = firstn i l.
  Proof.
    unfold remove_at. destruct (le_lt_dec (length l) i) as [H|H].
    - rewrite (skipn_all2 l) by lia. rewrite app_nil_r. rewrite firstn_firstn. f_equal. lia.
    - rewrite firstn_app. rewrite firstn_length, Nat.min_l by lia.
      rewrite Nat.sub_diag. cbn. rewrite app_nil_r, firstn_firstn. f_equal. lia.
  Qed.
  Lemma skipn_remove_at i l : skipn i (remove_at i l) = skipn (S i) l.
  Proof.
    unfold remove_at. destruct (le_lt_dec (length l) i) as [H|H].
    - rewrite (skipn_all2 l (n := S i)) by lia. rewrite app_nil_r.
      apply skipn_all2. rewrite firstn_length. lia.
    - rewrite skipn_app. rewrite firstn_length, Nat.min_l by lia.
      rewrite Nat.sub_diag. cbn [skipn]. rewrite (skipn_all2 (firstn i l)); [reflexivity|].
      rewrite firstn_length. lia.
  Qed.

  Theorem insert_remove_is_update i x l :
    insert_at i x (remove_at i l) = update_at i x l.
  Proof. unfold insert_at, update_at. now rewrite firstn_remove_at, skipn_remove_at. Qed.

  Lemma nth_split_at i l : i < length l -> l = firstn i l ++ nth i l dflt :: skipn (S i) l.
  Proof.
    revert i. induction l as [|a l IH]; intros i H; cbn in H; [lia|].
    destruct i; cbn; [reflexivity|]. f_equal. apply IH. lia.
  Qed.

  (** Function.jvp/vjp/jacobian evaluate the slice at args[index]: the original argument list *)
  Theorem insert_remove_nth i l :
    i < length l -> insert_at i (nth i l dflt) (remove_at i l) = l.
  Proof. intros H. rewrite insert_remove_is_update. unfold update_at. symmetry. now apply nth_split_at. Qed.

  Theorem nth_update_same i x l : i < length l -> nth i (update_at i x l) dflt = x.
  Proof.
    intros H. unfold update_at. rewrite app_nth2; rewrite firstn_length, Nat.min_l by lia; [|lia].
    now rewrite Nat.sub_diag.
  Qed.
  Theorem nth_update_other i j x l : j <> i -> i < length l -> nth j (update_at i x l) dflt = nth j l dflt.
  Proof.
    intros Hj H. rewrite (nth_split_at i l H) at 2. unfold update_at.
    destruct (lt_dec j i) as [Hl|Hl].
    - rewrite !app_nth1 by (rewrite firstn_length; lia). reflexivity.
    - rewrite !app_nth2 by (rewrite firstn_length; lia). rewrite firstn_length, Nat.min_l by lia.
      destruct (j - i) eqn:E; [lia|]. reflexivity.
  Qed.
  Theorem length_update i x l : i < length l -> length (update_at i x l) = length l.
  Proof.
    intros H. unfold update_at. rewrite app_length, firstn_length, Nat.min_l by lia.
    cbn [length]. rewrite skipn_length. lia.
  Qed.
  Theorem length_remove i l : i < length l -> length (remove_at i l) = length l - 1.
  Proof.
    intros H. unfold remove_at. rewrite app_length, firstn_length, Nat.min_l by lia.
    rewrite skipn_length. lia.
  Qed.

  (** Function.slice / the selection in jvp, vjp, jacobian *)
  Variable B : Type.
  Definition fn_slice (eval : list A -> B) (index : nat) (fix_args : list A) : A -> B :=
    fun var_arg => eval (insert_at index var_arg fix_args).
  Definition fn_select (index : nat) (args : list A) : A * list A :=
    (nth index args dflt, remove_at index args).

  Theorem fn_slice_select eval index args :
    index < length args ->
    let '(var_arg, fix_args) := fn_select index args in
    fn_slice eval index fix_args var_arg = eval args /\
    forall v, fn_slice eval index fix_args v = eval (update_at index v args).
  Proof.
    intros H. cbn. unfold fn_slice. split.
    - now rewrite insert_remove_nth.
    - intros v. now rewrite insert_remove_is_update.
  Qed.

  (** scico.util.partial: the loop over k in range(numargs) *)
  Fixpoint fill (n k : nat) (indices : list nat) (fixargs freeargs : list A) : list A :=
    match n with
    | O => []
    | S n' =>
        if existsb (Nat.eqb k) indices
        then hd dflt fixargs :: fill n' (S k) indices (tl fixargs) freeargs
        else hd dflt freeargs :: fill n' (S k) indices fixargs (tl freeargs)
    end.
  Definition partial (func : list A -> B) (indices : list nat) (fixargs : list A) : list A -> B :=
    fun freeargs => func (fill (length fixargs + length freeargs) 0 indices fixargs freeargs).

  Lemma fill_all_fixed idx post free : forall k,
    (forall j, k <= j < k + length post -> existsb (Nat.eqb j) idx = true) ->
    fill (length post) k idx post free = post.
  Proof.
    induction post as [|a post IH]; intros k H; cbn; [reflexivity|].
    rewrite H by (cbn; lia). cbn. f_equal. apply IH. intros j Hj. apply H. cbn. lia.
  Qed.

  Lemma fill_one_free idx p x post : forall pre k,
    k + length pre = p ->
    (forall j, j < p + S (length post) -> existsb (Nat.eqb j) idx = negb (j =? p)) ->
    fill (length pre + S (length post)) k idx (pre ++ post) [x] = pre ++ x :: post.
  Proof.
    induction pre as [|a pre IH]; intros k Hk H.
    - assert (k = p) by (cbn in Hk; lia). subst k. clear Hk. cbn [length plus fill app].
      rewrite H by lia. rewrite Nat.eqb_refl. cbn. f_equal.
      apply fill_all_fixed. intros j Hj. rewrite H by lia.
      destruct (j =? p) eqn:E; [apply Nat.eqb_eq in E; lia|reflexivity].
    - cbn [length plus fill app]. cbn in Hk.
      rewrite H by lia. destruct (k =? p) eqn:E; [apply Nat.eqb_eq in E; lia|]. cbn.
      f_equal. apply IH; [lia|exact H].
  Qed.

  Definition cvjp_fixidx (jidx n : nat) : list nat := seq 0 jidx ++ seq (S jidx) (n - S jidx).

  Lemma cvjp_fixidx_mem jidx n j :
    j < n -> existsb (Nat.eqb j) (cvjp_fixidx jidx n) = negb (j =? jidx).
  Proof.
    intros Hj. unfold cvjp_fixidx. rewrite existsb_app.
    destruct (j =? jidx) eqn:E; cbn.
    - apply Nat.eqb_eq in E. subst j.
      apply orb_false_intro; apply not_true_is_false; intros Hc; apply existsb_exists in Hc;
        destruct Hc as [y [Hy Hy2]]; apply in_seq in Hy; apply Nat.eqb_eq in Hy2; lia.
    - apply Nat.eqb_neq in E. apply orb_true_iff.
      destruct (lt_dec j jidx).
      + left. apply existsb_exists. exists j. split; [apply in_seq; lia|apply Nat.eqb_refl].
      + right. apply existsb_exists. exists j. split; [apply in_seq; lia|apply Nat.eqb_refl].
  Qed.

  (** cvjp with jidx: the partial function evaluates fun with primals[jidx] replaced *)
  Theorem cvjp_partial_plumbing (func : list A -> B) jidx primals x :
    jidx < length primals ->
    partial func (cvjp_fixidx jidx (length primals)) (remove_at jidx primals) [x]
    = func (update_at jidx x primals).
  Proof.
    intros H. unfold partial. f_equal.
    rewrite length_remove by exact H. cbn [length].
    unfold remove_at, update_at.
    set (pre := firstn jidx primals). set (post := skipn (S jidx) primals).
    assert (Hpre : length pre = jidx) by (unfold pre; rewrite firstn_length; lia).
    assert (Hpost : length post = length primals - S jidx) by (unfold post; now rewrite skipn_length).
    replace (length primals - 1 + 1) with (length pre + S (length post)) by lia.
    apply (fill_one_free _ jidx); [lia|].
    intros j Hj. apply cvjp_fixidx_mem. lia.
  Qed.
  Corollary cvjp_partial_at_primal (func : list A -> B) jidx primals :
    jidx < length primals ->
    partial func (cvjp_fixidx jidx (length primals)) (remove_at jidx primals) [nth jidx primals dflt]
    = func primals.
  Proof.
    intros H. rewrite cvjp_partial_plumbing by exact H. f_equal.
    unfold update_at. symmetry. now apply nth_split_at.
  Qed.
End ArgSel.
