(** C07 -- spaces used by the autodiff wrapper models.

    - [ProdSpace S1 S2]: product of two real inner-product spaces (a two-block block array;
      nest it for more blocks).
    - [ConjSpace]: a real inner-product space with a "complex conjugation": a linear isometric
      involution [cj].  Three instances cover every JAX array SCICO passes around:
        [RealC S]   real arrays,            cj = id
        [CplxC S]   complex arrays as pairs (re, im) over S with Re<.,.>,  cj (a, b) = (a, -b)
        [ProdC X Y] block arrays / argument tuples, cj block-wise (this is [tree_map conj]).
    - [bil a b = ip (cj a) b]: the real part of the *unconjugated* bilinear pairing
      Re(sum a_k b_k); in [CplxC] it is <re a, re b> - <im a, im b>. *)
From Coq Require Import Reals Lra.
From SV Require Import Base.InnerSpace.
Open Scope R_scope.

Section MoreFacts.
  Context {S : InnerSpace}.
  Lemma vopp_invol (x : E) : vopp (vopp x) = x.
  Proof. rewrite !vopp_scale, vscale_scale. replace (-1 * -1) with 1 by lra. apply vscale_1. Qed.
  Lemma vopp_add (x y : E) : vopp (vadd x y) = vadd (vopp x) (vopp y).
  Proof. rewrite !vopp_scale. apply vscale_add_r. Qed.
  Lemma vopp_vscale a (x : E) : vopp (vscale a x) = vscale a (vopp x).
  Proof. rewrite !vopp_scale, !vscale_scale. f_equal. lra. Qed.
  Lemma vopp_0 : vopp (vzero : E) = vzero.
  Proof. rewrite <- (vadd_0_l (vopp vzero)). apply vadd_opp_r. Qed.
  Lemma vscale_0_r a : vscale a (vzero : E) = vzero.
  Proof. rewrite <- (vscale_0_l vzero), vscale_scale. f_equal. lra. Qed.
  Lemma lin_opp {S2 : InnerSpace} (A : @E S -> @E S2) : IsLinear A -> forall x, A (vopp x) = vopp (A x).
  Proof. intros [_ Hs] x. rewrite !vopp_scale. apply Hs. Qed.
  Lemma lin_sub {S2 : InnerSpace} (A : @E S -> @E S2) :
    IsLinear A -> forall x y, A (vsub x y) = vsub (A x) (A y).
  Proof. intros HA x y. unfold vsub. rewrite (proj1 HA), (lin_opp A HA). reflexivity. Qed.
  Lemma lin_0 {S2 : InnerSpace} (A : @E S -> @E S2) : IsLinear A -> A vzero = vzero.
  Proof. intros [_ Hs]. rewrite <- (vscale_0_l (vzero : @E S)), Hs. apply vscale_0_l. Qed.
  Lemma ip_ext (a b : @E S) : (forall z, ip z a = ip z b) -> a = b.
  Proof.
    intros H. apply vsub_eq_0, nsq_0. unfold nsq. rewrite ip_sub_r. rewrite !H. lra.
  Qed.
  (** a map that has an adjoint is linear *)
  Lemma adj_linear {S2 : InnerSpace} (A : @E S -> @E S2) (B : @E S2 -> @E S) :
    IsAdj A B -> IsLinear B.
  Proof.
    intros H. split; intros; apply ip_ext; intros z.
    - rewrite ip_add_r, <- !H, ip_add_r. reflexivity.
    - rewrite ip_scale_r, <- !H, ip_scale_r. reflexivity.
  Qed.
End MoreFacts.

(** * Product space *)
Section Prod.
  Variables S1 S2 : InnerSpace.
  Let E1 := @E S1.
  Let E2 := @E S2.
  Definition pzero : E1 * E2 := (vzero, vzero).
  Definition padd (x y : E1 * E2) : E1 * E2 := (vadd (fst x) (fst y), vadd (snd x) (snd y)).
  Definition popp (x : E1 * E2) : E1 * E2 := (vopp (fst x), vopp (snd x)).
  Definition pscale (a : R) (x : E1 * E2) : E1 * E2 := (vscale a (fst x), vscale a (snd x)).
  Definition pip (x y : E1 * E2) : R := ip (fst x) (fst y) + ip (snd x) (snd y).

  Definition ProdSpace : InnerSpace.
  Proof.
    refine (@Build_InnerSpace (E1 * E2)%type pzero padd popp pscale pip _ _ _ _ _ _ _ _ _ _ _ _ _);
      unfold pzero, padd, popp, pscale, pip.
    - intros [a b] [c d]; cbn. f_equal; apply vadd_comm.
    - intros [a b] [c d] [e f]; cbn. f_equal; apply vadd_assoc.
    - intros [a b]; cbn. f_equal; apply vadd_0_r.
    - intros [a b]; cbn. f_equal; apply vadd_opp_r.
    - intros [a b]; cbn. f_equal; apply vscale_1.
    - intros p q [a b]; cbn. f_equal; apply vscale_scale.
    - intros p [a b] [c d]; cbn. f_equal; apply vscale_add_r.
    - intros p q [a b]; cbn. f_equal; apply vscale_add_l.
    - intros [a b] [c d]; cbn. rewrite (ip_sym a), (ip_sym b). reflexivity.
    - intros [a b] [c d] [e f]; cbn. rewrite !ip_add_l. lra.
    - intros p [a b] [c d]; cbn. rewrite !ip_scale_l. lra.
    - intros [a b]; cbn. pose proof (ip_pos a). pose proof (ip_pos b). lra.
    - intros [a b]; cbn. intros H. pose proof (ip_pos a) as Ha. pose proof (ip_pos b) as Hb.
      f_equal; apply ip_def; lra.
  Defined.
End Prod.

(** * Spaces with conjugation *)
Class ConjSpace := {
  cs : InnerSpace;
  cj : @E cs -> @E cs;
  cj_invol : forall x, cj (cj x) = x;
  cj_ip : forall x y, ip (cj x) (cj y) = ip x y;
  cj_add : forall x y, cj (vadd x y) = vadd (cj x) (cj y);
  cj_scale : forall a x, cj (vscale a x) = vscale a (cj x)
}.
Notation CE X := (@E (@cs X)).

Section ConjFacts.
  Context {X : ConjSpace}.
  Definition bil (a b : CE X) : R := ip (cj a) b.
  Lemma cj_ip_l (a b : CE X) : ip (cj a) b = ip a (cj b).
  Proof. rewrite <- (cj_ip a (cj b)), cj_invol. reflexivity. Qed.
  Lemma bil_sym (a b : CE X) : bil a b = bil b a.
  Proof. unfold bil. rewrite cj_ip_l. apply ip_sym. Qed.
  Lemma bil_cj_r (a b : CE X) : bil a (cj b) = ip a b.
  Proof. unfold bil. apply cj_ip. Qed.
  Lemma cj_linear : IsLinear (cj : CE X -> CE X).
  Proof. split; [apply cj_add | apply cj_scale]. Qed.
End ConjFacts.

(** real arrays: conjugation is the identity ([jnp.conj] of a real array) *)
Definition RealC (S : InnerSpace) : ConjSpace.
Proof. refine (@Build_ConjSpace S (fun x => x) _ _ _ _); reflexivity. Defined.

(** complex arrays: pairs (re, im); ip = Re<.,.>; cj (a, b) = (a, -b) *)
Definition cconj {S : InnerSpace} (z : @E S * @E S) : @E S * @E S := (fst z, vopp (snd z)).
(** multiplication by the imaginary unit *)
Definition cmulI {S : InnerSpace} (z : @E S * @E S) : @E S * @E S := (vopp (snd z), fst z).

Definition CplxC (S : InnerSpace) : ConjSpace.
Proof.
  refine (@Build_ConjSpace (ProdSpace S S) (@cconj S) _ _ _ _); unfold cconj.
  - intros [a b]; cbn. now rewrite vopp_invol.
  - intros [a b] [c d]; cbn. unfold pip; cbn. rewrite ip_opp_l, ip_opp_r. lra.
  - intros [a b] [c d]; cbn. unfold padd; cbn. now rewrite vopp_add.
  - intros p [a b]; cbn. unfold pscale; cbn. now rewrite vopp_vscale.
Defined.

(** block arrays / tuples of arguments: [tree_map conj] acts on each block *)
Definition ProdC (X Y : ConjSpace) : ConjSpace.
Proof.
  refine (@Build_ConjSpace (ProdSpace (@cs X) (@cs Y))
            (fun z => (cj (fst z), cj (snd z))) _ _ _ _).
  - intros [a b]; cbn. now rewrite !cj_invol.
  - intros [a b] [c d]; cbn. unfold pip; cbn. now rewrite !cj_ip.
  - intros [a b] [c d]; cbn. unfold padd; cbn. now rewrite !cj_add.
  - intros p [a b]; cbn. unfold pscale; cbn. now rewrite !cj_scale.
Defined.

(** In [CplxC S]: ip is Re<z, w> = <re z, re w> + <im z, im w>, and multiplication by i is
    an isometry with <i z, w> = - <z, i w>; so "for every complex direction" is meaningful:
    d and i*d are independent real directions. *)
Lemma cplx_ip {S : InnerSpace} (z w : CE (CplxC S)) :
  ip z w = @ip S (fst z) (fst w) + @ip S (snd z) (snd w).
Proof. reflexivity. Qed.
Lemma cplx_bil {S : InnerSpace} (z w : CE (CplxC S)) :
  bil z w = @ip S (fst z) (fst w) - @ip S (snd z) (snd w).
Proof. unfold bil. destruct z, w; cbn. unfold pip; cbn. rewrite ip_opp_l. lra. Qed.
Lemma cplx_ip_mulI {S : InnerSpace} (z w : CE (CplxC S)) :
  ip (cmulI z : CE (CplxC S)) w = - ip z (cmulI w : CE (CplxC S)).
Proof. destruct z, w; cbn. unfold pip, cmulI; cbn. rewrite ip_opp_l, ip_opp_r. lra. Qed.

(** the real line as an inner-product space (used for non-vacuity examples and witnesses) *)
Definition RSpace : InnerSpace.
Proof.
  refine (@Build_InnerSpace R 0 Rplus Ropp Rmult Rmult _ _ _ _ _ _ _ _ _ _ _ _ _); intros; try lra.
  - nra.
  - nra.
Defined.
