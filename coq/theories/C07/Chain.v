(** C07 -- chain rule for a loss composed with a (possibly non-linear) operator:
      L(x) = scale * f(A(x) - y),   grad L(x) = scale * [J_A(x)]^H grad f(A(x) - y)
    with the operator's vjp (conjugate=True) as the adjoint of its Jacobian.
    Frechet derivatives, epsilon-delta, standard library only. *)
From Coq Require Import Reals Lra Psatz.
From SV Require Import Base.InnerSpace C07.CSpace.
Open Scope R_scope.

Section NormFacts.
  Context {S : InnerSpace}.
  Lemma norm_triangle (a b : @E S) : norm (vadd a b) <= norm a + norm b.
  Proof.
    pose proof (norm_pos a) as Ha. pose proof (norm_pos b) as Hb. pose proof (norm_pos (vadd a b)) as Hab.
    pose proof (norm_sq (vadd a b)) as H. rewrite nsq_add in H.
    pose proof (norm_sq a) as H1. pose proof (norm_sq b) as H2.
    pose proof (cauchy_schwarz_norm a b) as Hc.
    assert (norm (vadd a b) * norm (vadd a b) <= (norm a + norm b) * (norm a + norm b)) by nra.
    nra.
  Qed.
  Lemma norm_opp (a : @E S) : norm (vopp a) = norm a.
  Proof. unfold norm, nsq. rewrite ip_opp_l, ip_opp_r. f_equal. lra. Qed.
  Lemma ip_abs_le (a b : @E S) : Rabs (ip a b) <= norm a * norm b.
  Proof.
    apply Rabs_le. split.
    - pose proof (cauchy_schwarz_norm (vopp a) b) as H. rewrite ip_opp_l, norm_opp in H. lra.
    - apply cauchy_schwarz_norm.
  Qed.
  Lemma norm_scale (t : R) (a : @E S) : norm (vscale t a) = Rabs t * norm a.
  Proof.
    unfold norm. rewrite nsq_scale. rewrite sqrt_mult_alt by nra.
    f_equal. replace (t * t) with (Rsqr t) by (unfold Rsqr; lra). apply sqrt_Rsqr_abs.
  Qed.
  Lemma norm_vzero : norm (vzero : @E S) = 0.
  Proof. unfold norm. rewrite nsq_vzero. apply sqrt_0. Qed.
End NormFacts.

Section Frechet.
  Context {S1 S2 : InnerSpace}.

  (** f : E -> R is Frechet differentiable at z with gradient g *)
  Definition FDiff {S : InnerSpace} (f : @E S -> R) (z g : @E S) : Prop :=
    forall eps, 0 < eps -> exists del, 0 < del /\
      forall k, norm k < del -> Rabs (f (vadd z k) - f z - ip g k) <= eps * norm k.

  (** A : E1 -> E2 is Frechet differentiable at x with bounded derivative DA *)
  Definition FDiffOp (A : @E S1 -> @E S2) (x : @E S1) (DA : @E S1 -> @E S2) : Prop :=
    (exists M, 0 <= M /\ forall h, norm (DA h) <= M * norm h) /\
    forall eps, 0 < eps -> exists del, 0 < del /\
      forall h, norm h < del ->
        norm (vsub (vsub (A (vadd x h)) (A x)) (DA h)) <= eps * norm h.

  Variable A : @E S1 -> @E S2.
  Variable DA : @E S1 -> @E S1 -> @E S2.        (* DA x = Jacobian-vector product at x *)
  Variable VJ : @E S1 -> @E S2 -> @E S1.        (* VJ x = vjp(x, conjugate=True)[1] *)
  Variable f : @E S2 -> R.

  Theorem chain_rule x g :
    FDiff f (A x) g -> FDiffOp A x (DA x) -> IsAdj (DA x) (VJ x) ->
    FDiff (fun x' => f (A x')) x (VJ x g).
  Proof.
    intros Hf [[M [HM0 HM]] HA] Hadj eps Heps.
    pose proof (norm_pos g) as HG.
    assert (He1 : 0 < eps / (2 * (M + 1))) by (apply Rdiv_lt_0_compat; lra).
    destruct (Hf _ He1) as [d1 [Hd1 Hf1]].
    assert (He2 : 0 < Rmin 1 (eps / (2 * (norm g + 1)))).
    { apply Rmin_pos; [lra|apply Rdiv_lt_0_compat; lra]. }
    destruct (HA _ He2) as [d2 [Hd2 HA2]].
    assert (Hd : 0 < Rmin d2 (d1 / (M + 1))).
    { apply Rmin_pos; [lra|apply Rdiv_lt_0_compat; lra]. }
    exists (Rmin d2 (d1 / (M + 1))). split; [exact Hd|]. intros h Hh.
    pose proof (norm_pos h) as Hh0.
    assert (Hh2 : norm h < d2) by (eapply Rlt_le_trans; [exact Hh|apply Rmin_l]).
    assert (Hh1 : norm h < d1 / (M + 1)) by (eapply Rlt_le_trans; [exact Hh|apply Rmin_r]).
    set (k := vsub (A (vadd x h)) (A x)).
    specialize (HA2 h Hh2). fold k in HA2.
    assert (Hkeq : vadd (A x) k = A (vadd x h)).
    { unfold k, vsub. rewrite (vadd_comm (A (vadd x h))), vadd_assoc, vadd_opp_r. apply vadd_0_l. }
    (* norm k <= (M + 1) norm h *)
    assert (Hk : norm k <= (M + 1) * norm h).
    { replace k with (vadd (vsub k (DA x h)) (DA x h)).
      2:{ unfold vsub. rewrite <- vadd_assoc, vadd_opp_l. apply vadd_0_r. }
      eapply Rle_trans; [apply norm_triangle|].
      specialize (HM h).
      assert (Rmin 1 (eps / (2 * (norm g + 1))) <= 1) by apply Rmin_l. nra. }
    assert (Hkd : norm k < d1).
    { eapply Rle_lt_trans; [exact Hk|].
      apply (Rmult_lt_compat_l (M + 1)) in Hh1; [|lra].
      replace ((M + 1) * (d1 / (M + 1))) with d1 in Hh1 by (field; lra). exact Hh1. }
    specialize (Hf1 k Hkd). rewrite Hkeq in Hf1.
    rewrite (ip_sym (VJ x g) h), <- (Hadj h g), (ip_sym (DA x h) g).
    replace (f (A (vadd x h)) - f (A x) - ip g (DA x h))
      with ((f (A (vadd x h)) - f (A x) - ip g k) + ip g (vsub k (DA x h)))
      by (rewrite ip_sub_r; lra).
    eapply Rle_trans; [apply Rabs_triang|].
    pose proof (ip_abs_le g (vsub k (DA x h))) as Hip.
    assert (Hb1 : eps / (2 * (M + 1)) * norm k <= eps / 2 * norm h).
    { assert (eps / (2 * (M + 1)) * ((M + 1) * norm h) = eps / 2 * norm h) by (field; lra).
      assert (0 < eps / (2 * (M + 1))) by exact He1. nra. }
    assert (Hb2 : norm g * (Rmin 1 (eps / (2 * (norm g + 1))) * norm h) <= eps / 2 * norm h).
    { assert (Rmin 1 (eps / (2 * (norm g + 1))) <= eps / (2 * (norm g + 1))) by apply Rmin_r.
      assert (norm g * (eps / (2 * (norm g + 1))) <= eps / 2).
      { assert (norm g * (eps / (2 * (norm g + 1))) = eps / 2 * (norm g / (norm g + 1))) by (field; lra).
        assert (norm g / (norm g + 1) <= 1).
        { apply (Rmult_le_reg_r (norm g + 1)); [lra|]. unfold Rdiv. rewrite Rmult_assoc, Rinv_l; lra. }
        nra. }
      assert (Hm0 : 0 <= Rmin 1 (eps / (2 * (norm g + 1)))) by lra.
      set (m := Rmin 1 (eps / (2 * (norm g + 1)))) in *.
      assert (Hgm : norm g * m <= eps / 2).
      { eapply Rle_trans; [apply Rmult_le_compat_l; [exact HG|eassumption]|assumption]. }
      rewrite <- Rmult_assoc. apply Rmult_le_compat_r; assumption. }
    assert (norm g * norm (vsub k (DA x h)) <= norm g * (Rmin 1 (eps / (2 * (norm g + 1))) * norm h)) by nra.
    lra.
  Qed.
End Frechet.

(** Loss.__call__ with a general operator: scale * f(A(x) - y) *)
Section LossNonlinear.
  Context {S1 S2 : InnerSpace}.
  Variable A : @E S1 -> @E S2.
  Variable DA : @E S1 -> @E S1 -> @E S2.
  Variable VJ : @E S1 -> @E S2 -> @E S1.
  Variable f : @E S2 -> R.
  Variable y : @E S2.

  Lemma FDiff_scale {S : InnerSpace} (h : @E S -> R) z g c :
    FDiff h z g -> FDiff (fun z' => c * h z') z (vscale c g).
  Proof.
    intros H eps Heps.
    destruct (H (eps / (Rabs c + 1))) as [del [Hdel Hb]].
    { apply Rdiv_lt_0_compat; [lra|]. pose proof (Rabs_pos c). lra. }
    exists del. split; [exact Hdel|]. intros k Hk. specialize (Hb k Hk).
    rewrite ip_scale_l.
    replace (c * h (vadd z k) - c * h z - c * ip g k) with (c * (h (vadd z k) - h z - ip g k)) by lra.
    rewrite Rabs_mult. pose proof (Rabs_pos c) as Hc. pose proof (norm_pos k) as Hn.
    pose proof (Rabs_pos (h (vadd z k) - h z - ip g k)) as Hp.
    assert (Rabs c * (eps / (Rabs c + 1)) <= eps).
    { assert (Rabs c * (eps / (Rabs c + 1)) = eps * (Rabs c / (Rabs c + 1))) by (field; lra).
      assert (Rabs c / (Rabs c + 1) <= 1).
      { apply (Rmult_le_reg_r (Rabs c + 1)); [lra|]. unfold Rdiv. rewrite Rmult_assoc, Rinv_l; lra. }
      nra. }
    assert (Rabs c * Rabs (h (vadd z k) - h z - ip g k) <= Rabs c * (eps / (Rabs c + 1) * norm k)) by nra.
    nra.
  Qed.

  Lemma FDiffOp_translate x :
    FDiffOp A x (DA x) -> FDiffOp (fun x' => vsub (A x') y) x (DA x).
  Proof.
    intros [Hb H]. split; [exact Hb|]. intros eps Heps. destruct (H eps Heps) as [del [Hdel Hd]].
    exists del. split; [exact Hdel|]. intros h Hh. specialize (Hd h Hh).
    replace (vsub (vsub (A (vadd x h)) y) (vsub (A x) y)) with (vsub (A (vadd x h)) (A x)); [exact Hd|].
    apply ip_ext. intros z. rewrite !ip_sub_r. lra.
  Qed.

  Theorem loss_operator_gradient scale x g :
    FDiff f (vsub (A x) y) g -> FDiffOp A x (DA x) -> IsAdj (DA x) (VJ x) ->
    FDiff (fun x' => scale * f (vsub (A x') y)) x (vscale scale (VJ x g)).
  Proof.
    intros Hf HA Hadj. apply FDiff_scale.
    apply (chain_rule (fun x' => vsub (A x') y) DA VJ f x g Hf (FDiffOp_translate x HA) Hadj).
  Qed.
End LossNonlinear.
