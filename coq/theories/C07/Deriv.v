(** C07 -- true derivatives (Coquelicot [is_derive]) of the non-polynomial functionals, in an
    abstract real inner-product space (R^n, C^n with Re<.,.>, block arrays).

    [has_grad f x g] : for EVERY direction d, t |-> f (x + t d) is differentiable at t = 0
    with derivative <g, d>   (Re<g, d> in the complex instance).

    Closed-form gradients proved here:
      squared l2 norm                          g = 2 x
      Huber, non-separable  (everywhere, including ||x|| = delta and x = 0)
                                               g = x             if ||x|| <= delta
                                                   delta x / ||x|| otherwise
      Huber, separable (sum over components, each component real or complex)
      Poisson loss on A x > 0                  g = alpha A^T (1 - y / (A x))
    and the calculus used by ScaledFunctional, FunctionalSum and Loss with a linear operator. *)
From Coquelicot Require Import Coquelicot.
From Coq Require Import Reals Lra List.
From SV Require Import Base.InnerSpace C07.CSpace C07.Chain.
Import ListNotations.
Open Scope R_scope.

Section Deriv.
  Context {S : InnerSpace}.

  Definition line (x d : @E S) (t : R) : @E S := vadd x (vscale t d).
  Definition dir_deriv (f : @E S -> R) (x d : @E S) (l : R) : Prop :=
    is_derive (fun t : R => f (line x d t)) 0 l.
  Definition has_grad (f : @E S -> R) (x g : @E S) : Prop :=
    forall d, dir_deriv f x d (ip g d).

  Lemma line_0 x d : line x d 0 = x.
  Proof. unfold line. now rewrite vscale_0_l, vadd_0_r. Qed.

  Lemma nsq_line x d t : nsq (line x d t) = nsq x + 2 * ip x d * t + nsq d * t * t.
  Proof. unfold line. rewrite nsq_add, nsq_scale, ip_scale_r. lra. Qed.

  Lemma is_derive_nsq_line x d : is_derive (fun t => nsq (line x d t)) 0 (2 * ip x d).
  Proof.
    apply (is_derive_ext (fun t => nsq x + 2 * ip x d * t + nsq d * t * t)).
    - intros t. now rewrite nsq_line.
    - auto_derive; [exact I|]. ring.
  Qed.

  (** ** calculus: ScaledFunctional, FunctionalSum, translation *)
  Theorem has_grad_scale f x g c :
    has_grad f x g -> has_grad (fun x' => c * f x') x (vscale c g).
  Proof.
    intros H d. unfold dir_deriv. rewrite ip_scale_l.
    apply (is_derive_scal (fun t => f (line x d t)) 0 c (ip g d)). apply H.
  Qed.
  Theorem has_grad_sum f1 f2 x g1 g2 :
    has_grad f1 x g1 -> has_grad f2 x g2 -> has_grad (fun x' => f1 x' + f2 x') x (vadd g1 g2).
  Proof.
    intros H1 H2 d. unfold dir_deriv. rewrite ip_add_l.
    apply (is_derive_plus (fun t => f1 (line x d t)) (fun t => f2 (line x d t)) 0 (ip g1 d) (ip g2 d));
      [apply H1 | apply H2].
  Qed.

  (** ** squared l2 norm *)
  Theorem has_grad_nsq x : has_grad nsq x (vscale 2 x).
  Proof. intros d. unfold dir_deriv. rewrite ip_scale_l. apply is_derive_nsq_line. Qed.

  (** ** Huber, non-separable form: _call_nonsep
         xl2 = norm(x);  cond(xl2 <= delta, 0.5 * xl2**2, delta * (xl2 - delta / 2)) *)
  Variable delta : R.
  Hypothesis delta_pos : 0 < delta.

  Definition huber (x : @E S) : R :=
    if Rle_dec (norm x) delta then 0.5 * (norm x * norm x) else delta * (norm x - delta / 2).
  Definition huber_grad (x : @E S) : @E S :=
    if Rle_dec (norm x) delta then x else vscale (delta / norm x) x.

  (** gluing two smooth pieces that agree to first order *)
  Lemma is_derive_glue (f P Q : R -> R) l :
    (forall t, f t = P t \/ f t = Q t) -> P 0 = Q 0 ->
    is_derive P 0 l -> is_derive Q 0 l -> is_derive f 0 l.
  Proof.
    intros Hpq H0 HP HQ. apply is_derive_Reals. apply is_derive_Reals in HP, HQ.
    intros eps Heps. destruct (HP eps Heps) as [d1 H1]. destruct (HQ eps Heps) as [d2 H2].
    assert (Hm : 0 < Rmin d1 d2) by (apply Rmin_pos; [apply d1|apply d2]).
    exists (mkposreal _ Hm). intros h Hh Hlt. cbn in Hlt.
    assert (Hf0 : f 0 = P 0) by (destruct (Hpq 0) as [E|E]; rewrite E; [reflexivity|now rewrite H0]).
    replace (f (0 + 0)) with (f 0) in * by (f_equal; lra).
    destruct (Hpq (0 + h)) as [E|E]; rewrite E, Hf0.
    - apply H1; [exact Hh|]. eapply Rlt_le_trans; [exact Hlt|apply Rmin_l].
    - rewrite H0. apply H2; [exact Hh|]. eapply Rlt_le_trans; [exact Hlt|apply Rmin_r].
  Qed.

  Lemma sqrt_le_delta s : 0 <= s -> (sqrt s <= delta <-> s <= delta * delta).
  Proof.
    intros Hs. split; intros H.
    - rewrite <- (sqrt_sqrt s Hs). pose proof (sqrt_pos s). nra.
    - rewrite <- (sqrt_square delta) by lra. apply sqrt_le_1_alt. exact H.
  Qed.

  (** the two pieces along a line, as functions of t *)
  Let P x d (t : R) := 0.5 * nsq (line x d t).
  Let Q x d (t : R) := delta * (sqrt (nsq (line x d t)) - delta / 2).

  Lemma huber_line_cases x d t :
    huber (line x d t) = P x d t \/ huber (line x d t) = Q x d t.
  Proof.
    unfold huber, P, Q, norm. destruct (Rle_dec _ _); [left|right; reflexivity].
    now rewrite sqrt_sqrt by apply nsq_pos.
  Qed.
  Lemma is_derive_P x d : is_derive (P x d) 0 (ip x d).
  Proof.
    unfold P. replace (ip x d) with (0.5 * (2 * ip x d)) by lra.
    apply (is_derive_scal (fun t => nsq (line x d t)) 0 0.5). apply is_derive_nsq_line.
  Qed.
  Lemma is_derive_Q x d : 0 < nsq x -> is_derive (Q x d) 0 (delta / norm x * ip x d).
  Proof.
    intros Hx. unfold Q.
    replace (delta / norm x * ip x d) with (delta * (2 * ip x d / (2 * sqrt (nsq (line x d 0))) - 0)).
    2:{ rewrite line_0. unfold norm. field. apply Rgt_not_eq. now apply sqrt_lt_R0. }
    apply (is_derive_scal (fun t => sqrt (nsq (line x d t)) - delta / 2) 0 delta).
    apply (is_derive_minus (fun t => sqrt (nsq (line x d t))) (fun _ => delta / 2) 0).
    - apply (is_derive_sqrt (fun t => nsq (line x d t)) 0 (2 * ip x d)).
      + apply is_derive_nsq_line.
      + now rewrite line_0.
    - apply @is_derive_const.
  Qed.

  Lemma continuous_nsq_line x d : continuous (fun t => nsq (line x d t)) 0.
  Proof. apply (ex_derive_continuous (fun t => nsq (line x d t)) 0). eexists. apply is_derive_nsq_line. Qed.

  Theorem huber_has_grad x : has_grad huber x (huber_grad x).
  Proof.
    intros d. unfold dir_deriv.
    pose proof (nsq_pos x) as Hnx.
    pose proof (sqrt_le_delta (nsq x) Hnx) as Hiff. fold (norm x) in Hiff.
    destruct (Rtotal_order (nsq x) (delta * delta)) as [Hlt|[Heq|Hgt]].
    - (* inside: ||x|| < delta *)
      unfold huber_grad. destruct (Rle_dec (norm x) delta) as [_|Hn]; [|exfalso; apply Hn, Hiff; lra].
      apply (is_derive_ext_loc (P x d)); [|apply is_derive_P].
      pose proof (continuous_nsq_line x d) as Hc.
      assert (Hl : locally (nsq (line x d 0)) (fun s => s < delta * delta)).
      { apply (open_lt (delta * delta)). now rewrite line_0. }
      specialize (Hc _ Hl). unfold filtermap in Hc. revert Hc. apply filter_imp. intros t Ht.
      unfold huber, P, norm. destruct (Rle_dec _ _) as [_|Hn].
      + now rewrite sqrt_sqrt by apply nsq_pos.
      + exfalso. apply Hn. apply sqrt_le_delta; [apply nsq_pos|lra].
    - (* on the sphere ||x|| = delta: still differentiable *)
      unfold huber_grad. destruct (Rle_dec (norm x) delta) as [_|Hn]; [|exfalso; apply Hn, Hiff; lra].
      assert (Hpos : 0 < nsq x) by nra.
      assert (Hnorm : norm x = delta).
      { unfold norm. rewrite Heq. apply sqrt_square. lra. }
      apply (is_derive_glue _ (P x d) (Q x d)).
      + intros t. apply huber_line_cases.
      + unfold P, Q. rewrite line_0. fold (norm x). rewrite Hnorm, Heq. lra.
      + apply is_derive_P.
      + replace (ip x d) with (delta / norm x * ip x d); [now apply is_derive_Q|].
        rewrite Hnorm. field. lra.
    - (* outside: ||x|| > delta *)
      unfold huber_grad. destruct (Rle_dec (norm x) delta) as [Hn|_]; [apply Hiff in Hn; lra|].
      rewrite ip_scale_l.
      assert (Hpos : 0 < nsq x) by nra.
      apply (is_derive_ext_loc (Q x d)); [|now apply is_derive_Q].
      pose proof (continuous_nsq_line x d) as Hc.
      assert (Hl : locally (nsq (line x d 0)) (fun s => delta * delta < s)).
      { apply (open_gt (delta * delta)). now rewrite line_0. }
      specialize (Hc _ Hl). unfold filtermap in Hc. revert Hc. apply filter_imp. intros t Ht.
      unfold huber, Q, norm. destruct (Rle_dec _ _) as [Hn|_]; [|reflexivity].
      exfalso. apply sqrt_le_delta in Hn; [lra|apply nsq_pos].
  Qed.

  (** at the kink-free junction the two closed forms of the gradient coincide *)
  Lemma huber_grad_junction x : norm x = delta -> vscale (delta / norm x) x = x.
  Proof. intros H. rewrite H. replace (delta / delta) with 1 by (field; lra). apply vscale_1. Qed.

  (** ** Huber, separable form: _call_sep = sum_i h(|x_i|); a component x_i is an element of S
         (S = the real line for real arrays, the plane for complex arrays) *)
  Fixpoint huber_sep (xs : list (@E S)) : R :=
    match xs with [] => 0 | x :: r => huber x + huber_sep r end.
  Fixpoint lines (xs ds : list (@E S)) (t : R) : list (@E S) :=
    match xs, ds with x :: xr, d :: dr => line x d t :: lines xr dr t | _, _ => [] end.
  Fixpoint ips (gs ds : list (@E S)) : R :=
    match gs, ds with g :: gr, d :: dr => ip g d + ips gr dr | _, _ => 0 end.

  Theorem huber_sep_has_grad : forall xs ds,
    is_derive (fun t => huber_sep (lines xs ds t)) 0 (ips (map huber_grad xs) ds).
  Proof.
    induction xs as [|x xr IH]; intros ds.
    - cbn. apply @is_derive_const.
    - destruct ds as [|d dr]; [cbn; apply @is_derive_const|].
      cbn [lines huber_sep map ips].
      apply (is_derive_plus (fun t => huber (line x d t)) (fun t => huber_sep (lines xr dr t)) 0
               (ip (huber_grad x) d) (ips (map huber_grad xr) dr)).
      + apply huber_has_grad.
      + apply IH.
  Qed.
End Deriv.

(** ** Loss with a linear operator:  L(x) = scale * f(A x - y)   (Loss.__call__) *)
Section LossLinear.
  Context {S1 S2 : InnerSpace}.
  Variable A : @E S1 -> @E S2.
  Variable AH : @E S2 -> @E S1.
  Hypothesis A_lin : IsLinear A.
  Hypothesis A_adj : IsAdj A AH.

  Theorem has_grad_loss_linear (f : @E S2 -> R) (y : @E S2) (scale : R) x g :
    has_grad f (vsub (A x) y) g ->
    has_grad (fun x' => scale * f (vsub (A x') y)) x (vscale scale (AH g)).
  Proof.
    intros H. apply has_grad_scale. intros d. unfold dir_deriv.
    rewrite (ip_sym (AH g) d), <- (A_adj d g), (ip_sym (A d) g).
    apply (is_derive_ext (fun t => f (line (vsub (A x) y) (A d) t))); [|apply H].
    intros t. f_equal. unfold line, vsub. rewrite (proj1 A_lin), (proj2 A_lin).
    rewrite <- !vadd_assoc. f_equal. apply vadd_comm.
  Qed.
End LossLinear.

(** ** Poisson loss  alpha * sum_i ((A x)_i - y_i log (A x)_i + c_i),  (A x)_i = <a_i, x>,
       on the open set A x > 0.  Rows are triples (a_i, y_i, c_i). *)
Section Poisson.
  Context {S : InnerSpace}.
  Definition row := (@E S * R * R)%type.
  Fixpoint poisson_sum (rows : list row) (x : @E S) : R :=
    match rows with
    | [] => 0
    | (a, y, c) :: r => (ip a x - y * ln (ip a x) + c) + poisson_sum r x
    end.
  Definition poisson (alpha : R) rows x := alpha * poisson_sum rows x.
  Fixpoint poisson_gsum (rows : list row) (x : @E S) : @E S :=
    match rows with
    | [] => vzero
    | (a, y, c) :: r => vadd (vscale (1 - y / ip a x) a) (poisson_gsum r x)
    end.
  Definition poisson_grad (alpha : R) rows x := vscale alpha (poisson_gsum rows x).
  Fixpoint all_pos (rows : list row) (x : @E S) : Prop :=
    match rows with [] => True | (a, _, _) :: r => 0 < ip a x /\ all_pos r x end.

  Lemma poisson_sum_has_grad rows x :
    all_pos rows x -> has_grad (poisson_sum rows) x (poisson_gsum rows x).
  Proof.
    induction rows as [|[[a y] c] r IH]; intros Hp d; unfold dir_deriv.
    - cbn. rewrite ip_0_l. apply @is_derive_const.
    - cbn [poisson_sum poisson_gsum]. destruct Hp as [Hpa Hpr].
      rewrite ip_add_l, ip_scale_l.
      apply (is_derive_plus (fun t => ip a (line x d t) - y * ln (ip a (line x d t)) + c)
               (fun t => poisson_sum r (line x d t)) 0); [|apply IH; exact Hpr].
      apply (is_derive_ext (fun t => (ip a x + t * ip a d) - y * ln (ip a x + t * ip a d) + c)).
      + intros t. unfold line. rewrite ip_add_r, ip_scale_r. reflexivity.
      + auto_derive.
        * rewrite Rmult_0_l, Rplus_0_r. exact Hpa.
        * rewrite Rmult_0_l, Rplus_0_r. field. lra.
  Qed.

  Theorem poisson_has_grad alpha rows x :
    all_pos rows x -> has_grad (poisson alpha rows) x (poisson_grad alpha rows x).
  Proof. intros Hp. unfold poisson, poisson_grad. now apply has_grad_scale, poisson_sum_has_grad. Qed.
End Poisson.

(** ** Frechet differentiability (Chain.v) implies [has_grad]; so the chain rule for a loss
       composed with a non-linear operator yields a gradient in the sense used above. *)
Section FrechetGateaux.
  Context {S : InnerSpace}.
  Theorem FDiff_has_grad (f : @E S -> R) x g : FDiff f x g -> has_grad f x g.
  Proof.
    intros H d. unfold dir_deriv. apply is_derive_Reals. intros eps Heps.
    pose proof (norm_pos d) as Hnd.
    assert (He : 0 < eps / (2 * (norm d + 1))) by (apply Rdiv_lt_0_compat; lra).
    destruct (H _ He) as [del [Hdel Hb]].
    assert (Hd' : 0 < del / (norm d + 1)) by (apply Rdiv_lt_0_compat; lra).
    exists (mkposreal _ Hd'). intros h Hh Hlt. cbn in Hlt.
    replace (line x d 0) with x by (symmetry; apply line_0).
    replace (0 + h) with h by lra. unfold line.
    set (k := vscale h d).
    assert (Hnk : norm k = Rabs h * norm d) by apply norm_scale.
    assert (Hh0 : 0 < Rabs h) by (apply Rabs_pos_lt; exact Hh).
    assert (Hk : norm k < del).
    { rewrite Hnk. apply (Rmult_lt_compat_r (norm d + 1)) in Hlt; [|lra].
      replace (del / (norm d + 1) * (norm d + 1)) with del in Hlt by (field; lra). nra. }
    specialize (Hb k Hk).
    replace ((f (vadd x k) - f x) / h - ip g d) with ((f (vadd x k) - f x - ip g k) / h).
    2:{ unfold k. rewrite ip_scale_r. field. exact Hh. }
    unfold Rdiv. rewrite Rabs_mult, Rabs_inv.
    apply (Rmult_lt_reg_r (Rabs h)); [exact Hh0|].
    rewrite Rmult_assoc, Rinv_l by lra. rewrite Rmult_1_r.
    eapply Rle_lt_trans; [exact Hb|]. rewrite Hnk.
    assert (eps / (2 * (norm d + 1)) * norm d <= eps / 2).
    { assert (eps / (2 * (norm d + 1)) * norm d = eps / 2 * (norm d / (norm d + 1))) by (field; lra).
      assert (norm d / (norm d + 1) <= 1).
      { apply (Rmult_le_reg_r (norm d + 1)); [lra|]. unfold Rdiv. rewrite Rmult_assoc, Rinv_l; lra. }
      nra. }
    nra.
  Qed.
End FrechetGateaux.

Section LossNonlinearGateaux.
  Context {S1 S2 : InnerSpace}.
  Theorem loss_operator_has_grad (A : @E S1 -> @E S2) DA VJ (f : @E S2 -> R) y scale x g :
    FDiff f (vsub (A x) y) g -> FDiffOp A x (DA x) -> IsAdj (DA x) (VJ x) ->
    has_grad (fun x' => scale * f (vsub (A x') y)) x (vscale scale (VJ x g)).
  Proof. intros Hf HA Hadj. apply FDiff_has_grad. now apply (loss_operator_gradient A DA VJ f y). Qed.
End LossNonlinearGateaux.
