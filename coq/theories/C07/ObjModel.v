(** C07 -- object model of derived loss copies (scico/loss.py:126-145,
    scico/functional/_functional.py:38-39,119-125).

        Functional.__init__ :  self._grad = scico.grad(self.__call__)     # bound method of self
        Functional.grad(x)  :  return self._grad(x)
        Loss.__call__(x)    :  return self.scale * self.f(self.A(x) - self.y)
        Loss.__mul__(c)     :  new = copy(self); new._grad = scico.grad(new.__call__);
                               new.set_scale(self.scale * c); return new
        Loss.__truediv__(c) :  the same with self.scale / c
        Loss.set_scale(s)   :  self.scale = s

    Heap: object ids are naturals; an object has the mutable field [scale] and the field
    [gtarget] = the object whose bound [__call__] its [_grad] closure differentiates (the
    closure reads that object's scale when it is CALLED).  [copy] is shallow: the new object
    gets the same [scale] and the same closure, i.e. the same [gtarget].  The immutable data
    (y, A, f) is shared by all copies and is summarised by the unscaled loss [base] and its
    gradient [gbase].  S (JAX): differentiating  x |-> c * base x  gives  c * gbase x. *)
From Coq Require Import Reals Lra Arith Lia.
From SV Require Import Base.InnerSpace C07.CSpace.
Open Scope R_scope.

Section Heap.
  Context {S : InnerSpace}.
  Variable X : Type.
  Variable base : X -> R.
  Variable gbase : X -> @E S.
  Variable grad_of : (X -> R) -> X -> @E S.
  Hypothesis grad_of_scaled : forall c x, grad_of (fun x' => c * base x') x = vscale c (gbase x).

  Record obj := mkobj { scale : R; gtarget : nat }.
  Record heap := mkheap { objs : nat -> obj; next : nat }.

  Definition upd (f : nat -> obj) (k : nat) (v : obj) : nat -> obj :=
    fun j => if Nat.eqb j k then v else f j.

  Definition call (h : heap) (o : nat) (x : X) : R := scale (objs h o) * base x.
  (** self._grad(x): gradient, at x, of the bound method captured at construction/re-binding *)
  Definition grad (h : heap) (o : nat) (x : X) : @E S :=
    grad_of (fun x' => call h (gtarget (objs h o)) x') x.

  Definition copy (h : heap) (o : nat) : heap * nat :=
    (mkheap (upd (objs h) (next h) (objs h o)) (Datatypes.S (next h)), next h).
  Definition rebind (h : heap) (n : nat) : heap :=
    mkheap (upd (objs h) n (mkobj (scale (objs h n)) n)) (next h).
  Definition set_scale (h : heap) (n : nat) (s : R) : heap :=
    mkheap (upd (objs h) n (mkobj s (gtarget (objs h n)))) (next h).

  Definition loss_mul (h : heap) (o : nat) (c : R) : heap * nat :=
    let '(h1, n) := copy h o in
    let h2 := rebind h1 n in
    (set_scale h2 n (scale (objs h o) * c), n).
  Definition loss_div (h : heap) (o : nat) (c : R) : heap * nat :=
    let '(h1, n) := copy h o in
    let h2 := rebind h1 n in
    (set_scale h2 n (scale (objs h o) / c), n).
  (** the mutation: the re-binding line removed *)
  Definition loss_mul_stale (h : heap) (o : nat) (c : R) : heap * nat :=
    let '(h1, n) := copy h o in
    (set_scale h1 n (scale (objs h o) * c), n).

  (** an object built by a constructor: its closure is bound to itself *)
  Definition wf (h : heap) (o : nat) : Prop := gtarget (objs h o) = o /\ (o < next h)%nat.

  Lemma grad_wf h o x : wf h o -> grad h o x = vscale (scale (objs h o)) (gbase x).
  Proof. intros [Ht _]. unfold grad, call. rewrite Ht. apply grad_of_scaled. Qed.

  Lemma upd_same f k v : upd f k v k = v.
  Proof. unfold upd. now rewrite Nat.eqb_refl. Qed.
  Lemma upd_other f k v j : j <> k -> upd f k v j = f j.
  Proof. intros H. unfold upd. destruct (Nat.eqb j k) eqn:E; [apply Nat.eqb_eq in E; lia|reflexivity]. Qed.

  Theorem loss_mul_spec h o c :
    wf h o ->
    let '(h', n) := loss_mul h o c in
    n <> o /\ wf h' n /\ wf h' o /\
    objs h' o = objs h o /\                                   (* the original is unchanged *)
    (forall x, call h' n x = c * call h o x) /\
    (forall x, grad h' n x = vscale c (grad h o x)) /\
    (forall x, grad h' o x = grad h o x) /\
    (forall k, (k < next h)%nat -> objs h' k = objs h k).
  Proof.
    intros Hwf. destruct Hwf as [Ht Hlt]. unfold loss_mul, copy. cbn.
    assert (Hne : next h <> o) by lia.
    assert (Hold : forall k, (k < next h)%nat ->
              upd (upd (upd (objs h) (next h) (objs h o)) (next h)
                     (mkobj (scale (upd (objs h) (next h) (objs h o) (next h))) (next h)))
                  (next h)
                  (mkobj (scale (objs h o) * c)
                     (gtarget (upd (upd (objs h) (next h) (objs h o)) (next h)
                        (mkobj (scale (upd (objs h) (next h) (objs h o) (next h))) (next h)) (next h))))
                  k = objs h k).
    { intros k Hk. rewrite !upd_other by lia. reflexivity. }
    split; [exact Hne|].
    split; [split; cbn; [rewrite upd_same; cbn; rewrite upd_same; reflexivity|lia]|].
    split; [split; cbn; [rewrite Hold by lia; exact Ht|lia]|].
    split; [apply Hold; lia|].
    split; [intros x; unfold call; cbn; rewrite upd_same; cbn; lra|].
    split.
    - intros x. unfold grad at 1. cbn. rewrite upd_same. cbn. rewrite upd_same. cbn.
      unfold call at 1. cbn. rewrite upd_same. cbn.
      rewrite grad_of_scaled. rewrite (grad_wf h o x (conj Ht Hlt)), vscale_scale.
      f_equal. lra.
    - split; [|exact Hold].
      intros x. unfold grad. cbn. rewrite Hold by lia. rewrite Ht.
      unfold call. cbn. rewrite Hold by lia. reflexivity.
  Qed.

  Theorem loss_div_spec h o c :
    wf h o -> c <> 0 ->
    let '(h', n) := loss_div h o c in
    n <> o /\ wf h' n /\ wf h' o /\ objs h' o = objs h o /\
    (forall x, call h' n x = call h o x / c) /\
    (forall x, grad h' n x = vscale (/ c) (grad h o x)) /\
    (forall x, grad h' o x = grad h o x).
  Proof.
    intros Hwf Hc. destruct Hwf as [Ht Hlt]. unfold loss_div, copy. cbn.
    assert (Hne : next h <> o) by lia.
    split; [exact Hne|].
    split; [split; cbn; [rewrite upd_same; cbn; rewrite upd_same; reflexivity|lia]|].
    split; [split; cbn; [rewrite !upd_other by lia; exact Ht|lia]|].
    split; [rewrite !upd_other by lia; reflexivity|].
    split; [intros x; unfold call; cbn; rewrite upd_same; cbn; field; exact Hc|].
    split.
    - intros x. unfold grad at 1. cbn. rewrite upd_same. cbn. rewrite upd_same. cbn.
      unfold call at 1. cbn. rewrite upd_same. cbn.
      rewrite grad_of_scaled. rewrite (grad_wf h o x (conj Ht Hlt)), vscale_scale.
      f_equal. field. exact Hc.
    - intros x. unfold grad. cbn. rewrite !upd_other by lia. rewrite Ht.
      unfold call. cbn. rewrite !upd_other by lia. reflexivity.
  Qed.

  (** (c * L) * d : copies of copies stay well-formed, so the law iterates *)
  Corollary loss_mul_mul h o c d :
    wf h o ->
    let '(h1, n1) := loss_mul h o c in
    let '(h2, n2) := loss_mul h1 n1 d in
    (forall x, grad h2 n2 x = vscale (c * d) (grad h o x)) /\
    (forall x, grad h2 n1 x = vscale c (grad h o x)) /\
    (forall x, grad h2 o x = grad h o x).
  Proof.
    intros Hwf. pose proof (loss_mul_spec h o c Hwf) as H1.
    destruct (loss_mul h o c) as [h1 n1].
    destruct H1 as (Hne1 & Hwf1 & Hwfo1 & Ho1 & Hc1 & Hg1 & Hgo1 & Hold1).
    pose proof (loss_mul_spec h1 n1 d Hwf1) as H2.
    destruct (loss_mul h1 n1 d) as [h2 n2].
    destruct H2 as (Hne2 & Hwf2 & Hwfn1 & Hn1 & Hc2 & Hg2 & Hgn1 & Hold2).
    split; [|split].
    - intros x. rewrite Hg2, Hg1, vscale_scale. f_equal. lra.
    - intros x. rewrite Hgn1. apply Hg1.
    - intros x. rewrite <- Hgo1.
      assert (E : objs h2 o = objs h1 o) by (apply Hold2; apply Hwfo1).
      unfold grad, call. rewrite E. destruct Hwfo1 as [Hto _]. rewrite Hto, E. reflexivity.
  Qed.

  (** set_scale on an object follows through to its own gradient (the closure is lazy) *)
  Theorem set_scale_spec h o s :
    wf h o -> forall x, grad (set_scale h o s) o x = vscale s (gbase x) /\
                        call (set_scale h o s) o x = s * base x.
  Proof.
    intros [Ht Hlt] x. unfold grad, call, set_scale. cbn. rewrite upd_same. cbn. rewrite Ht.
    rewrite upd_same. cbn. split; [apply grad_of_scaled|reflexivity].
  Qed.

  (** WITHOUT the re-binding the copy returns the gradient of the ORIGINAL object *)
  Theorem loss_mul_stale_returns_unscaled h o c :
    wf h o ->
    let '(h', n) := loss_mul_stale h o c in
    (forall x, call h' n x = c * call h o x) /\ (forall x, grad h' n x = grad h o x).
  Proof.
    intros [Ht Hlt]. unfold loss_mul_stale, copy. cbn.
    assert (Hne : o <> next h) by lia.
    split.
    - intros x. unfold call. cbn. rewrite upd_same. cbn. lra.
    - intros x. unfold grad. cbn. rewrite upd_same. cbn. rewrite upd_same. rewrite Ht.
      unfold call. cbn. rewrite !upd_other by lia. reflexivity.
  Qed.
End Heap.

(** The stale-closure variant violates  grad (c * L) = c * grad L : concrete witness on the
    real line (base x = x, gradient 1, differentiation of a linear map = its value at 1). *)
Theorem loss_mul_stale_refuted :
  exists (h : heap) (o : nat) (c : R) (x : R),
    @wf h o /\
    let '(h', n) := loss_mul_stale h o c in
    @grad RSpace R (fun x => x) (fun f _ => f 1) h' n x <>
    @vscale RSpace c (@grad RSpace R (fun x => x) (fun f _ => f 1) h o x).
Proof.
  exists (mkheap (fun _ => mkobj 1 0) 1), 0%nat, 2, 0.
  split; [split; cbn; [reflexivity|lia]|].
  cbn. unfold grad, call, upd; cbn. lra.
Qed.

(** ... while the hypothesis of the heap section is satisfiable by that same instance *)
Lemma heap_instance_ok :
  forall c x : R, (fun (f : R -> R) (_ : R) => f 1) (fun x' => c * (fun x => x) x') x
                  = @vscale RSpace c ((fun _ => 1) x).
Proof. intros. cbn. reflexivity. Qed.
