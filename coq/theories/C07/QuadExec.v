(** C07 -- executable (Qc) instance of the quadratic-loss model used by the correspondence
    harness.  Complex numbers are pairs; a real array has zero imaginary parts.

      term  = (alpha, w, y, M)   denotes  alpha * sum_k w_k |y_k - (M x)_k|^2
      qf    = sum of terms       (SquaredL2Loss, SquaredL2Norm, scaled copies, sums, loss(A=..))

    For a quadratic f the exact directional derivative is the central difference
    (f(x + d) - f(x - d)) / 2  (Quadratic.qloss_central_difference, proved for every
    inner-product space), which is what [dd] evaluates -- from the definition of f only.
    No Reals here: the case files load in a fraction of a second. *)
From Coq Require Import List QArith Qcanon Bool.
Import ListNotations.
Open Scope Qc_scope.

Definition C := (Qc * Qc)%type.
Definition cq (a b : Q) : C := (Q2Qc a, Q2Qc b).
Definition cadd (a b : C) : C := (fst a + fst b, snd a + snd b).
Definition csub (a b : C) : C := (fst a - fst b, snd a - snd b).
Definition cmul (a b : C) : C := (fst a * fst b - snd a * snd b, fst a * snd b + snd a * fst b).
Definition cconj (a : C) : C := (fst a, - snd a).
Definition cabs2 (a : C) : Qc := fst a * fst a + snd a * snd a.
Definition c0 : C := (0, 0).

Fixpoint map2 {A B D} (f : A -> B -> D) (l : list A) (m : list B) : list D :=
  match l, m with a :: l', b :: m' => f a b :: map2 f l' m' | _, _ => [] end.
Definition qsum (l : list Qc) : Qc := fold_right Qcplus 0 l.
Definition csum (l : list C) : C := fold_right cadd c0 l.
Definition cdot (r x : list C) : C := csum (map2 cmul r x).          (* unconjugated *)
Definition mv (M : list (list C)) (x : list C) : list C := map (fun r => cdot r x) M.
(** Re<g, d> = sum (re g re d + im g im d) *)
Definition re_ip (g d : list C) : Qc := qsum (map2 (fun a b => fst a * fst b + snd a * snd b) g d).
(** Re sum g_k d_k (unconjugated) *)
Definition re_bil (g d : list C) : Qc := qsum (map2 (fun a b => fst a * fst b - snd a * snd b) g d).

Definition term := (Qc * list Qc * list C * list (list C))%type.
Definition term_val (t : term) (x : list C) : Qc :=
  let '(alpha, w, y, M) := t in
  alpha * qsum (map2 (fun wk r => wk * cabs2 r) w (map2 csub y (mv M x))).
Definition qf (ts : list term) (x : list C) : Qc := qsum (map (fun t => term_val t x) ts).

(** exact directional derivative of the quadratic qf at x along d *)
Definition dd (ts : list term) (x d : list C) : Qc :=
  (qf ts (map2 cadd x d) - qf ts (map2 csub x d)) / (Q2Qc 2).

(** closed-form gradient 2 alpha M^H W (M x - y), used for the Hessian / gradient entries *)
Definition mH (n : nat) (M : list (list C)) : list (list C) :=
  map (fun j => map (fun r => cconj (nth j r c0)) M) (seq 0 n).
Definition cscale (a : Qc) (z : C) : C := (a * fst z, a * snd z).
Definition term_grad (n : nat) (t : term) (x : list C) : list C :=
  let '(alpha, w, y, M) := t in
  map (cscale (Q2Qc 2 * alpha)) (mv (mH n M) (map2 cscale w (map2 csub (mv M x) y))).
Definition term_hess (n : nat) (t : term) (d : list C) : list C :=
  let '(alpha, w, y, M) := t in
  map (cscale (Q2Qc 2 * alpha)) (mv (mH n M) (map2 cscale w (mv M d))).
Definition vzero (n : nat) : list C := repeat c0 n.
Definition qgrad (n : nat) (ts : list term) (x : list C) : list C :=
  fold_right (map2 cadd) (vzero n) (map (fun t => term_grad n t x) ts).
Definition qhess (n : nat) (ts : list term) (d : list C) : list C :=
  fold_right (map2 cadd) (vzero n) (map (fun t => term_hess n t d) ts).

(** comparisons: |a - b| <= tol * max(1, |b|) *)
Definition qabs (a : Qc) : Qc := if Qle_bool 0 (this a) then a else - a.
Definition close (tol a b : Qc) : bool :=
  let m := if Qle_bool 1 (this (qabs b)) then qabs b else 1 in
  Qle_bool (this (qabs (a - b))) (this (tol * m)).
Definition cclose (tol : Qc) (a b : C) : bool := close tol (fst a) (fst b) && close tol (snd a) (snd b).
Fixpoint all2 {A} (f : A -> A -> bool) (l m : list A) : bool :=
  match l, m with
  | [], [] => true
  | a :: l', b :: m' => f a b && all2 f l' m'
  | _, _ => false
  end.
Definition vnorm1 (v : list C) : Qc := qsum (map (fun z => qabs (fst z) + qabs (snd z)) v).
(** entrywise |a - b| <= tol * max(1, ||b||_1) *)
Definition vclose (tol : Qc) (a b : list C) : bool :=
  let m := if Qle_bool 1 (this (vnorm1 b)) then vnorm1 b else 1 in
  all2 (fun p q => Qle_bool (this (qabs (fst p - fst q))) (this (tol * m)) &&
                   Qle_bool (this (qabs (snd p - snd q))) (this (tol * m))) a b.

Definition tol30 : Qc := Q2Qc (1 # 1073741824).

(** one gradient case: (terms, x, d, implementation's f(x), implementation's g) *)
Definition grad_case := (list term * list C * list C * Q * list C)%type.
Definition grad_case_ok (c : grad_case) : bool :=
  let '(ts, x, d, fx, g) := c in
  Nat.eqb (length g) (length x) && Nat.eqb (length d) (length x) &&
  close tol30 (Q2Qc fx) (qf ts x) &&
  close tol30 (re_ip g d) (dd ts x d).
(** the model's own closed form agrees with the model's exact derivative (sanity of the
    closed form on the same data; exact, no tolerance) *)
Definition grad_closed_form_ok (c : grad_case) : bool :=
  let '(ts, x, d, fx, g) := c in
  Qc_eq_bool (re_ip (qgrad (length x) ts x) d) (dd ts x d).

(** one Hessian case: (terms, d, implementation's H d) *)
Definition hess_case := (list term * list C * list C)%type.
Definition hess_case_ok (c : hess_case) : bool :=
  let '(ts, d, hd) := c in vclose tol30 hd (qhess (length d) ts d).

Fixpoint bad_idx {A} (f : A -> bool) (l : list A) (i : nat) : list nat :=
  match l with [] => [] | x :: r => if f x then bad_idx f r (S i) else i :: bad_idx f r (S i) end.

(** adjointness through full matrices: J (jvp on a basis) and JH (vjp conjugate=True on a basis),
    JT (conjugate=False); all given as lists of columns *)
Definition cols_to_rows (m : nat) (cols : list (list C)) : list (list C) :=
  map (fun i => map (fun c => nth i c c0) cols) (seq 0 m).
Definition mat_close (tol : Qc) (A B : list (list C)) : bool := all2 (vclose tol) A B.

(** real matrices (lists of rows) for the Jacobian adjointness checks: J is m x n (jvp on the
    real basis of the input), V is n x m (vjp on the real basis of the output).  A complex
    array of size k contributes 2k real coordinates (re block, then im block).
    [sx], [sy] are the coordinate signs of the conjugations: all 1 for the Hermitian adjoint
    (conjugate=True: V = J^T), and +1 / -1 on re / im coordinates for the plain transpose
    (conjugate=False: V = Cx J^T Cy). *)
Definition rmat := list (list Qc).
Definition rnth (M : rmat) (i j : nat) : Qc := nth j (nth i M []) 0.
Definition rmaxabs (M : rmat) : Qc :=
  fold_right (fun r acc => fold_right (fun a acc' => if Qle_bool (this acc') (this (qabs a)) then qabs a else acc') acc r) 0 M.
Definition transpose_close (tol : Qc) (m n : nat) (J V : rmat) (sx sy : list Qc) : bool :=
  let bound := tol * (if Qle_bool 1 (this (rmaxabs J)) then rmaxabs J else 1) in
  Nat.eqb (length J) m && Nat.eqb (length V) n &&
  forallb (fun j => forallb (fun i =>
     Qle_bool (this (qabs (rnth V j i - nth j sx 1 * rnth J i j * nth i sy 1))) (this bound))
     (seq 0 m)) (seq 0 n).
Definition adj_case := (nat * nat * rmat * rmat * rmat * list Qc * list Qc)%type.
Definition adj_case_ok (c : adj_case) : bool :=
  let '(m, n, J, V, T, sx, sy) := c in
  transpose_close tol30 m n J V (repeat 1 n) (repeat 1 m) && transpose_close tol30 m n J T sx sy.
