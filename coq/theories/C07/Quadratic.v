(** C07 -- closed forms for the weighted squared-l2 loss (scico/loss.py SquaredL2Loss),
    in an abstract real inner-product space (so for R^n, for C^n with Re<.,.>, for block
    arrays), no limits needed:

      __call__ : f(x)   = alpha * sum(W.diagonal * |y - A x|^2)  = alpha <y - A x, W (y - A x)>
      grad     : g(x)   = 2 alpha A^H W (A x - y)
      hessian  : H(d)   = 2 * scale * A.adj(W(A(d)))     (eval_fn and adj_fn are this same map)

    A is linear with adjoint AH (for a complex-linear A the adjoint in Re<.,.> is the Hermitian
    adjoint); W is linear and self-adjoint in Re<.,.> (a Diagonal with real weights). *)
From Coq Require Import Reals Lra.
From SV Require Import Base.InnerSpace C07.CSpace.
Open Scope R_scope.

Section Quadratic.
  Context {S1 S2 : InnerSpace}.
  Let E1 := @E S1.
  Let E2 := @E S2.
  Variable A : E1 -> E2.
  Variable AH : E2 -> E1.
  Variable W : E2 -> E2.
  Variable y : E2.
  Variable alpha : R.
  Hypothesis A_lin : IsLinear A.
  Hypothesis A_adj : IsAdj A AH.
  Hypothesis W_lin : IsLinear W.
  Hypothesis W_self : IsAdj W W.

  Definition nsqW (r : E2) : R := ip r (W r).
  Definition qloss (x : E1) : R := alpha * nsqW (vsub y (A x)).
  Definition qgrad (x : E1) : E1 := vscale (2 * alpha) (AH (W (vsub (A x) y))).
  Definition qhess (d : E1) : E1 := vscale (2 * alpha) (AH (W (A d))).

  Lemma W_sym a b : ip a (W b) = ip b (W a).
  Proof. rewrite (ip_sym a), (W_self b a). reflexivity. Qed.

  Lemma nsqW_expand r t e :
    nsqW (vsub r (vscale t e)) = nsqW r - 2 * t * ip e (W r) + t * t * nsqW e.
  Proof.
    unfold nsqW. rewrite (lin_sub W W_lin), (proj2 W_lin).
    rewrite ip_sub_l, !ip_sub_r, !ip_scale_l, !ip_scale_r. rewrite (W_sym r e). lra.
  Qed.

  (** f(x + t d) = f(x) + t <g, d> + t^2 alpha ||A d||_W^2   for every real t *)
  Theorem qloss_expand x d t :
    qloss (vadd x (vscale t d)) = qloss x + t * ip (qgrad x) d + t * t * (alpha * nsqW (A d)).
  Proof.
    unfold qloss, qgrad.
    replace (vsub y (A (vadd x (vscale t d)))) with (vsub (vsub y (A x)) (vscale t (A d))).
    2:{ rewrite (proj1 A_lin), (proj2 A_lin). unfold vsub. rewrite vopp_add, vadd_assoc. reflexivity. }
    rewrite nsqW_expand. rewrite ip_scale_l. rewrite (ip_sym (AH _) d), <- (A_adj d).
    rewrite (lin_sub W W_lin (A x) y), (lin_sub W W_lin y (A x)). rewrite !ip_sub_r. lra.
  Qed.

  (** hence the exact directional derivative is a central difference (used by the harness) *)
  Corollary qloss_central_difference x d :
    (qloss (vadd x d) - qloss (vsub x d)) / 2 = ip (qgrad x) d.
  Proof.
    pose proof (qloss_expand x d 1) as H1. pose proof (qloss_expand x d (-1)) as H2.
    rewrite vscale_1 in H1. rewrite <- vopp_scale in H2. unfold vsub. rewrite H1, H2. lra.
  Qed.

  (** g is the gradient: the remainder is quadratic in t *)
  Corollary qloss_grad_remainder x d t :
    qloss (vadd x (vscale t d)) - qloss x - t * ip (qgrad x) d = t * t * (alpha * nsqW (A d)).
  Proof. rewrite qloss_expand. lra. Qed.

  (** the Hessian operator is self-adjoint (adj_fn = eval_fn is justified) *)
  Theorem qhess_self_adjoint : IsAdj qhess qhess.
  Proof.
    intros a b. unfold qhess. rewrite ip_scale_l, ip_scale_r.
    rewrite (ip_sym (AH _) b), <- (A_adj b), <- (A_adj a), (W_sym (A b) (A a)). reflexivity.
  Qed.
  Theorem qhess_linear : IsLinear qhess.
  Proof.
    assert (HAH : IsLinear AH) by exact (adj_linear A AH A_adj).
    split; intros; unfold qhess.
    - rewrite (proj1 A_lin), (proj1 W_lin), (proj1 HAH). apply vscale_add_r.
    - rewrite (proj2 A_lin), (proj2 W_lin), (proj2 HAH), !vscale_scale. f_equal. lra.
  Qed.

  (** the Hessian is the derivative of the gradient: g is affine with linear part H *)
  Theorem qgrad_affine x d : qgrad (vadd x d) = vadd (qgrad x) (qhess d).
  Proof.
    unfold qgrad, qhess. rewrite <- vscale_add_r. f_equal.
    apply ip_ext; intros z. rewrite ip_add_r, <- !(A_adj z).
    rewrite (proj1 A_lin), !(lin_sub W W_lin), (proj1 W_lin). rewrite !ip_sub_r, !ip_add_r. lra.
  Qed.
  Corollary qgrad_along_line x d t : qgrad (vadd x (vscale t d)) = vadd (qgrad x) (vscale t (qhess d)).
  Proof. rewrite qgrad_affine. f_equal. apply (proj2 qhess_linear). Qed.

  (** second-order term of the expansion is the Hessian form *)
  Corollary qloss_expand_hessian x d t :
    qloss (vadd x (vscale t d)) = qloss x + t * ip (qgrad x) d + t * t / 2 * ip (qhess d) d.
  Proof.
    rewrite qloss_expand. unfold qhess, nsqW. rewrite ip_scale_l, (ip_sym (AH _) d), <- (A_adj d). lra.
  Qed.
End Quadratic.

(** Scaled copies of a quadratic loss: c * L has scale c * alpha, hence gradient c * g *)
Lemma qgrad_scale {S1 S2 : InnerSpace} (A : @E S1 -> @E S2) AH W y alpha c x :
  qgrad A AH W y (c * alpha) x = vscale c (qgrad A AH W y alpha x).
Proof. unfold qgrad. rewrite vscale_scale. f_equal. lra. Qed.
