(** C07 -- the conjugating wrappers of scico/_autograd.py, Operator.jvp/vjp
    (scico/operator/_operator.py), linop.jacobian (scico/linop/_util.py), transcribed over
    the spaces of [CSpace.v].

    JAX is *not* modelled: each JAX entry point is a Section variable and the convention it
    follows is a Section hypothesis (each one is exercised directly by vf/props/C07.py):

      (G)  jax.grad f            = gx - i gy   where D f(x)[d] = <gx, Re d> + <gy, Im d>
                                  (abstractly: cj of the Riesz representer of D f(x) in Re<.,.>)
      (J)  jax.jvp F (u,) (v,)   = (F u, DF(u)[v]),  DF(u) real-linear
      (V)  jax.vjp F u           = (F u, T) with T the plain (unconjugated, real-bilinear)
                                  transpose of DF(u):  Re sum (DF(u) v)_k w_k = Re sum v_k (T w)_k
      (L)  jax.linear_transpose h = the same plain transpose of a (real-)linear h
      (M)  tree_map conj          acts block-wise (definition of [cj] on [ProdC]).

    What is proved is what SCICO adds: where it conjugates, and that the result is the gradient /
    Hermitian adjoint with respect to the real inner product Re<.,.>. *)
From Coq Require Import Reals Lra.
From SV Require Import Base.InnerSpace C07.CSpace.
Open Scope R_scope.

(** * scico.grad / value_and_grad / jacrev : explicit complex model (pairs) *)
Section GradComplex.
  Context {S : InnerSpace}.
  Let V := @E S.
  Let CV := (V * V)%type.              (* complex array = (re, im) *)
  Variable f : CV -> R.
  (** the real-linear derivative of f at x, given by two real vectors gx, gy *)
  Variable Df : CV -> CV -> R.
  Variables gx gy : CV -> V.
  Hypothesis Df_repr : forall x d, Df x d = ip (gx x) (fst d) + ip (gy x) (snd d).
  (** (G) *)
  Variable jax_grad : CV -> CV.
  Hypothesis jax_grad_conv : forall x, jax_grad x = (gx x, vopp (gy x)).

  (** scico.grad(fun)(x) = tree_map(conj, jax.grad(fun)(x)) *)
  Definition scico_grad_c (x : CV) : CV := cconj (jax_grad x).

  Theorem scico_grad_c_is_gradient :
    forall x d, Df x d = @ip (ProdSpace S S) (scico_grad_c x) d.
  Proof.
    intros x d. unfold scico_grad_c. rewrite jax_grad_conv, Df_repr. unfold cconj; cbn.
    unfold pip; cbn. now rewrite vopp_invol.
  Qed.

  (** in particular for the purely real and the purely imaginary part of a direction *)
  Corollary scico_grad_c_real_dir x (d : V) :
    Df x (d, vzero) = ip (fst (scico_grad_c x)) d.
  Proof. rewrite scico_grad_c_is_gradient. cbn. unfold pip; cbn. rewrite ip_0_r. lra. Qed.
  Corollary scico_grad_c_imag_dir x (d : V) :
    Df x (vzero, d) = ip (snd (scico_grad_c x)) d.
  Proof. rewrite scico_grad_c_is_gradient. cbn. unfold pip; cbn. rewrite ip_0_r. lra. Qed.

  (** the JAX gradient itself is NOT the gradient unless gy = 0: the conjugation matters *)
  Lemma jax_grad_c_pairing x d :
    @ip (ProdSpace S S) (jax_grad x) d = Df x (cconj d).
  Proof.
    rewrite jax_grad_conv, Df_repr. unfold cconj; cbn. unfold pip; cbn.
    rewrite ip_opp_l, ip_opp_r. lra.
  Qed.
End GradComplex.

(** * The same wrappers over an arbitrary [ConjSpace] (real, complex, blocks, tuples) *)
Section GradAbstract.
  Context {X : ConjSpace}.
  Variable A : Type.                        (* type of the auxiliary output *)
  Variable f : CE X -> R.
  Variable aux : CE X -> A.
  Variable Df : CE X -> CE X -> R.
  Variable g : CE X -> CE X.                (* Riesz representer: the true gradient *)
  Hypothesis Df_repr : forall x d, Df x d = ip (g x) d.
  (** (G): JAX returns the conjugate of the representer *)
  Variable jax_grad : CE X -> CE X.
  Hypothesis jax_grad_conv : forall x, jax_grad x = cj (g x).
  Variable jax_grad_aux : CE X -> CE X * A.
  Hypothesis jax_grad_aux_conv : forall x, jax_grad_aux x = (cj (g x), aux x).
  Variable jax_val_grad : CE X -> R * CE X.
  Hypothesis jax_val_grad_conv : forall x, jax_val_grad x = (f x, cj (g x)).
  Variable jax_val_grad_aux : CE X -> (R * A) * CE X.
  Hypothesis jax_val_grad_aux_conv : forall x, jax_val_grad_aux x = ((f x, aux x), cj (g x)).

  (** grad: conjugated_grad / conjugated_grad_aux *)
  Definition scico_grad (x : CE X) : CE X := cj (jax_grad x).
  Definition scico_grad_aux (x : CE X) : CE X * A :=
    let '(jg, a) := jax_grad_aux x in (cj jg, a).
  (** value_and_grad: conjugated_value_and_grad / ..._aux *)
  Definition scico_val_grad (x : CE X) : R * CE X :=
    let '(value, jg) := jax_val_grad x in (value, cj jg).
  Definition scico_val_grad_aux (x : CE X) : (R * A) * CE X :=
    let '((value, a), jg) := jax_val_grad_aux x in ((value, a), cj jg).

  Theorem scico_grad_is_gradient : forall x d, Df x d = ip (scico_grad x) d.
  Proof. intros. unfold scico_grad. now rewrite jax_grad_conv, cj_invol, Df_repr. Qed.
  Theorem scico_grad_aux_spec :
    forall x, snd (scico_grad_aux x) = aux x /\ forall d, Df x d = ip (fst (scico_grad_aux x)) d.
  Proof.
    intros. unfold scico_grad_aux. rewrite jax_grad_aux_conv; cbn. split; [reflexivity|].
    intros. now rewrite cj_invol, Df_repr.
  Qed.
  Theorem scico_val_grad_spec :
    forall x, fst (scico_val_grad x) = f x /\ forall d, Df x d = ip (snd (scico_val_grad x)) d.
  Proof.
    intros. unfold scico_val_grad. rewrite jax_val_grad_conv; cbn. split; [reflexivity|].
    intros. now rewrite cj_invol, Df_repr.
  Qed.
  Theorem scico_val_grad_aux_spec :
    forall x, fst (scico_val_grad_aux x) = (f x, aux x) /\
              forall d, Df x d = ip (snd (scico_val_grad_aux x)) d.
  Proof.
    intros. unfold scico_val_grad_aux. rewrite jax_val_grad_aux_conv; cbn. split; [reflexivity|].
    intros. now rewrite cj_invol, Df_repr.
  Qed.
End GradAbstract.

(** block arguments: the gradient is the block array of per-block gradients *)
Section GradBlocks.
  Context {X Y : ConjSpace}.
  Let XY := ProdC X Y.
  Variable Df : CE XY -> CE XY -> R.
  Variable g : CE XY -> CE XY.
  Hypothesis Df_repr : forall x d, Df x d = ip (g x) d.
  Variable jax_grad : CE XY -> CE XY.
  Hypothesis jax_grad_conv : forall x, jax_grad x = @cj XY (g x).

  Theorem scico_grad_blockwise :
    forall x, @scico_grad XY jax_grad x = (cj (fst (jax_grad x)), cj (snd (jax_grad x))) /\
      (forall d1, Df x (d1, vzero) = ip (fst (@scico_grad XY jax_grad x)) d1) /\
      (forall d2, Df x (vzero, d2) = ip (snd (@scico_grad XY jax_grad x)) d2).
  Proof.
    intros x. split; [reflexivity|].
    pose proof (@scico_grad_is_gradient XY Df g Df_repr jax_grad jax_grad_conv x) as H.
    split; intros d; rewrite H; cbn; unfold pip; cbn; rewrite ip_0_r; lra.
  Qed.
End GradBlocks.

(** jacrev: F maps into real arrays indexed by K; row k of the Jacobian *)
Section Jacrev.
  Context {X : ConjSpace}.
  Variable K : Type.
  Variable DF : CE X -> CE X -> K -> R.
  Variable G : CE X -> K -> CE X.
  Hypothesis DF_repr : forall x d k, DF x d k = ip (G x k) d.
  Variable jax_jacrev : CE X -> K -> CE X.
  Hypothesis jax_jacrev_conv : forall x k, jax_jacrev x k = cj (G x k).
  (** tree_map(conj, jax.jacrev(fun)(x)): conj of the Jacobian array = conj of every row *)
  Definition scico_jacrev (x : CE X) (k : K) : CE X := cj (jax_jacrev x k).
  Theorem scico_jacrev_rows : forall x d k, DF x d k = ip (scico_jacrev x k) d.
  Proof. intros. unfold scico_jacrev. now rewrite jax_jacrev_conv, cj_invol, DF_repr. Qed.
End Jacrev.

(** * Operator.jvp / Operator.vjp / cvjp / linop.jacobian *)
Section OpJacobian.
  Context {X Y : ConjSpace}.
  Variable F : CE X -> CE Y.
  Variable DF : CE X -> CE X -> CE Y.
  (** (J) *)
  Variable jax_jvp : CE X -> CE X -> CE Y * CE Y.
  Hypothesis jax_jvp_conv : forall u v, jax_jvp u v = (F u, DF u v).
  (** (V): the 1-tuple returned by the vjp function is identified with its element *)
  Variable jax_vjp : CE X -> CE Y * (CE Y -> CE X).
  Hypothesis jax_vjp_val : forall u, fst (jax_vjp u) = F u.
  Hypothesis jax_vjp_conv : forall u v w, bil (DF u v) w = bil v (snd (jax_vjp u) w).

  (** Operator.jvp: return jax.jvp(self, (u,), (v,)) *)
  Definition op_jvp (u v : CE X) : CE Y * CE Y := jax_jvp u v.
  (** Operator.vjp: Fu, G = jax.vjp(self, u); Gmap = conj . G . conj  or  G *)
  Definition op_vjp (u : CE X) (conjugate : bool) : CE Y * (CE Y -> CE X) :=
    let '(Fu, G) := jax_vjp u in
    (Fu, if conjugate then (fun v => cj (G (cj v))) else (fun v => G v)).
  (** scico.cvjp (jidx = None): conj_vjp tangent = tree_map conj (fun_vjp (tangent.conj())).
      With several primals X is a [ProdC] and tree_map conj is its [cj]. *)
  Definition cvjp (u : CE X) : CE Y * (CE Y -> CE X) :=
    let '(out, fun_vjp) := jax_vjp u in (out, fun t => cj (fun_vjp (cj t))).

  Lemma op_vjp_fst u c : fst (op_vjp u c) = F u.
  Proof. unfold op_vjp. rewrite <- jax_vjp_val. now destruct (jax_vjp u). Qed.
  Lemma op_jvp_fst u v : fst (op_jvp u v) = F u.
  Proof. unfold op_jvp. now rewrite jax_jvp_conv. Qed.
  Lemma op_jvp_snd u v : snd (op_jvp u v) = DF u v.
  Proof. unfold op_jvp. now rewrite jax_jvp_conv. Qed.

  (** conjugate=True: Hermitian adjoint of the Jacobian-vector product in Re<.,.> *)
  Theorem op_vjp_conj_is_adjoint :
    forall u, IsAdj (fun v => snd (op_jvp u v)) (snd (op_vjp u true)).
  Proof.
    intros u v w. rewrite op_jvp_snd. unfold op_vjp.
    pose proof (jax_vjp_conv u) as H. destruct (jax_vjp u) as [Fu G]; cbn in *.
    rewrite <- (bil_cj_r (DF u v) w), H. unfold bil. apply cj_ip_l.
  Qed.
  (** conjugate=False: the plain transpose *)
  Theorem op_vjp_plain_is_transpose :
    forall u v w, bil (snd (op_jvp u v)) w = bil v (snd (op_vjp u false) w).
  Proof.
    intros u v w. rewrite op_jvp_snd. unfold op_vjp.
    pose proof (jax_vjp_conv u) as H. destruct (jax_vjp u) as [Fu G]; cbn in *. apply H.
  Qed.
  Theorem cvjp_is_adjoint :
    forall u, fst (cvjp u) = F u /\ IsAdj (DF u) (snd (cvjp u)).
  Proof.
    intros u. split.
    - unfold cvjp. rewrite <- jax_vjp_val. now destruct (jax_vjp u).
    - intros v w. unfold cvjp.
      pose proof (jax_vjp_conv u) as H. destruct (jax_vjp u) as [Fu G]; cbn in *.
      rewrite <- (bil_cj_r (DF u v) w), H. unfold bil. apply cj_ip_l.
  Qed.

  (** linop.jacobian(F, u, include_eval) *)
  Definition jac_eval (u v : CE X) : CE Y := snd (op_jvp u v).
  Definition jac_adj (u : CE X) : CE Y -> CE X := snd (op_vjp u true).
  Definition jac_eval_ie (u v : CE X) : CE Y * CE Y := op_jvp u v.    (* blockarray(F.jvp(u, v)) *)
  Definition jac_adj_ie (u : CE X) (w : CE Y) : CE Y * CE X :=
    let '(Fu, G) := op_vjp u true in (Fu, G w).                      (* blockarray((Fu, G(v))) *)

  Theorem jacobian_adjoint_pair : forall u, IsAdj (jac_eval u) (jac_adj u).
  Proof. intros u. apply op_vjp_conj_is_adjoint. Qed.
  Theorem jacobian_eval_is_DF : forall u v, jac_eval u v = DF u v.
  Proof. intros. apply op_jvp_snd. Qed.
  Theorem jacobian_include_eval :
    forall u, (forall v, fst (jac_eval_ie u v) = F u) /\ (forall w, fst (jac_adj_ie u w) = F u) /\
              IsAdj (fun v => snd (jac_eval_ie u v)) (fun w => snd (jac_adj_ie u w)).
  Proof.
    intros u. split; [|split].
    - intros v. apply op_jvp_fst.
    - intros w. unfold jac_adj_ie. rewrite <- (op_vjp_fst u true). now destruct (op_vjp u true).
    - intros v w. unfold jac_eval_ie, jac_adj_ie.
      pose proof (op_vjp_conj_is_adjoint u v w) as H. destruct (op_vjp u true); exact H.
  Qed.
  (** the Jacobian operator is linear when DF(u) is *)
  Theorem jacobian_linear : forall u, IsLinear (DF u) -> IsLinear (jac_eval u).
  Proof.
    intros u [Ha Hs]. split; intros; unfold jac_eval; rewrite !op_jvp_snd; [apply Ha|apply Hs].
  Qed.
End OpJacobian.

(** * scico.linear_adjoint *)
Section LinearAdjoint.
  Context {X Y : ConjSpace}.
  (** (L) *)
  Variable jax_linear_transpose : (CE X -> CE Y) -> (CE Y -> CE X).
  Hypothesis jax_lt_conv :
    forall h, IsLinear h -> forall v w, bil (h v) w = bil v (jax_linear_transpose h w).

  (** conj_fun = conj . fun . conj.  The three branches of the code differ only in which
      conjugations are skipped because they are identities on real arrays:
        complex primals      : _fun = conj_fun  (the primals passed on are only shape/dtype)
        real -> complex      : _fun = conj_fun  (conj of the real primal = itself)
        real -> real         : _fun = fun. *)
  Definition conj_fun (h : CE X -> CE Y) : CE X -> CE Y := fun p => cj (h (cj p)).
  Definition linear_adjoint (h : CE X -> CE Y) : CE Y -> CE X :=
    jax_linear_transpose (conj_fun h).

  Lemma conj_fun_linear h : IsLinear h -> IsLinear (conj_fun h).
  Proof.
    intros [Ha Hs]. split; intros; unfold conj_fun.
    - now rewrite cj_add, Ha, cj_add.
    - now rewrite cj_scale, Hs, cj_scale.
  Qed.

  Theorem linear_adjoint_is_adjoint :
    forall h, IsLinear h -> IsAdj h (linear_adjoint h).
  Proof.
    intros h Hl v w. unfold linear_adjoint.
    pose proof (jax_lt_conv (conj_fun h) (conj_fun_linear h Hl) (cj v) w) as H.
    unfold conj_fun, bil in H. rewrite !cj_invol in H. exact H.
  Qed.
End LinearAdjoint.

(** real -> real branch: no conjugation at all, and [conj_fun h = h] there *)
Section LinearAdjointReal.
  Context {S1 S2 : InnerSpace}.
  Variable jax_linear_transpose : (@E S1 -> @E S2) -> (@E S2 -> @E S1).
  Hypothesis jax_lt_conv :
    forall h, IsLinear h -> forall v w, ip (h v) w = ip v (jax_linear_transpose h w).
  Definition linear_adjoint_rr (h : @E S1 -> @E S2) := jax_linear_transpose h.
  Theorem linear_adjoint_rr_is_adjoint : forall h, IsLinear h -> IsAdj h (linear_adjoint_rr h).
  Proof. intros h Hl v w. now apply jax_lt_conv. Qed.
  Lemma conj_fun_real h : @conj_fun (RealC S1) (RealC S2) h = h.
  Proof. reflexivity. Qed.
End LinearAdjointReal.
