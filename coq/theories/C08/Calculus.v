(** C08: functional expressions, what they denote, and faithful models of what scico's
    ScaledFunctional / SeparableFunctional / FunctionalSum / Loss / SquaredL2Loss do
    (scico/functional/_functional.py, scico/loss.py): [gen_prox], [gen_eval] (None = the call
    raises NotImplementedError) and the capability flags [gen_has_prox], [gen_has_eval] as
    computed by each __init__.

    Main theorem (induction over all nestings): for a well-formed expression (positive
    scales; the operator tagged Identity is the identity map; the SquaredL2Loss solver solves
    the system it is handed), whenever [gen_has_prox e = true], [gen_prox e lam v] returns a
    point that is IsProx of [deval e]; whenever the flag is false the call raises.  Positivity
    of the scales is the one hypothesis where the flag of the unchanged code is not truthful
    (Findings/C08_flags.v). *)
From Coq Require Import Reals Lra Psatz Bool List.
From SV Require Import Base.Num Base.InnerSpace Prox.ProxTheory C02.Basics C02.Norms C02.Losses C08.WLS.
Import ListNotations.
Open Scope R_scope.

(** a base functional: its domain/value, what its prox method returns, its class flags, and
    (from C02) the fact that the prox method is a prox when the class says has_prox *)
Record basefun (S : InnerSpace) := {
  bdom : @E S -> Prop;
  bf : @E S -> R;
  bprox : R -> @E S -> @E S;
  b_has_eval : bool;
  b_has_prox : bool;
  b_ok : b_has_prox = true -> forall lam v, 0 < lam -> IsProx bdom bf lam v (bprox lam v)
}.
Arguments bdom {S}. Arguments bf {S}. Arguments bprox {S}.
Arguments b_has_eval {S}. Arguments b_has_prox {S}. Arguments b_ok {S}.

(** forward-operator classes that the flag logic distinguishes *)
Inductive fwd := FIdentity | FScaledIdentity | FDiagonal | FLinear | FNonlinear | FCallable.
Definition is_identity (c : fwd) : bool := match c with FIdentity => true | _ => false end.
Definition is_diagonal (c : fwd) : bool :=      (* isinstance(A, linop.Diagonal) *)
  match c with FIdentity | FScaledIdentity | FDiagonal => true | _ => false end.
Definition is_linop (c : fwd) : bool :=         (* isinstance(A, linop.LinearOperator) *)
  match c with FNonlinear | FCallable => false | _ => true end.

Inductive fexpr : InnerSpace -> Type :=
| Base : forall S, basefun S -> fexpr S
| Scaled : forall S, R -> fexpr S -> fexpr S
| SepNil : fexpr UnitSpace
| SepCons : forall S1 S2, fexpr S1 -> fexpr S2 -> fexpr (ProdSpace S1 S2)
| Sum : forall S, fexpr S -> fexpr S -> fexpr S
| LossOf : forall S, fwd -> (@E S -> @E S) -> fexpr S -> @E S -> R -> fexpr S   (* Loss(y, A, f, scale) *)
| LossNone : forall S, fwd -> (@E S -> @E S) -> @E S -> R -> fexpr S            (* Loss(y, A, f=None, scale) *)
| SqL2Loss : forall S1 S2, fwd -> (@E S1 -> @E S2) -> (@E S2 -> @E S1) -> (@E S2 -> @E S2) ->
             @E S2 -> R -> (R -> @E S1 -> @E S1) -> fexpr S1.
(* SqL2Loss cls A A^H W y alpha solver: [solver lam v] is what the diagonal closed form /
   the CG call returns *)

(** what an expression denotes *)
Fixpoint ddom {S} (e : fexpr S) : @E S -> Prop :=
  match e in fexpr S return @E S -> Prop with
  | Base _ b => bdom b
  | Scaled _ _ e => ddom e
  | SepNil => fun _ => True
  | SepCons _ _ e1 e2 => fun x => ddom e1 (fst x) /\ ddom e2 (snd x)
  | Sum _ e1 e2 => fun x => ddom e1 x /\ ddom e2 x
  | LossOf _ _ A f y _ => fun x => ddom f (vsub (A x) y)
  | LossNone _ _ _ _ _ => fun _ => True
  | SqL2Loss _ _ _ _ _ _ _ _ _ => fun _ => True
  end.
Fixpoint deval {S} (e : fexpr S) : @E S -> R :=
  match e in fexpr S return @E S -> R with
  | Base _ b => bf b
  | Scaled _ c e => fun x => c * deval e x
  | SepNil => fun _ => 0
  | SepCons _ _ e1 e2 => fun x => deval e1 (fst x) + deval e2 (snd x)
  | Sum _ e1 e2 => fun x => deval e1 x + deval e2 x
  | LossOf _ _ A f y c => fun x => c * deval f (vsub (A x) y)
  | LossNone _ _ _ _ _ => fun _ => 0
  | SqL2Loss _ _ _ A _ W y c _ => fun x => c * wfun A W y x
  end.

(** the flags, as each __init__ computes them *)
Fixpoint gen_has_eval {S} (e : fexpr S) : bool :=
  match e with
  | Base _ b => b_has_eval b
  | Scaled _ _ e => gen_has_eval e                         (* functional.has_eval *)
  | SepNil => true
  | SepCons _ _ e1 e2 => gen_has_eval e1 && gen_has_eval e2 (* all(fi.has_eval) *)
  | Sum _ e1 e2 => gen_has_eval e1 && gen_has_eval e2
  | LossOf _ _ _ f _ _ => gen_has_eval f                   (* True if f is None else bool(f.has_eval) *)
  | LossNone _ _ _ _ _ => true
  | SqL2Loss _ _ _ _ _ _ _ _ _ => true
  end.
Fixpoint gen_has_prox {S} (e : fexpr S) : bool :=
  match e with
  | Base _ b => b_has_prox b
  | Scaled _ _ e => gen_has_prox e                         (* functional.has_prox *)
  | SepNil => true
  | SepCons _ _ e1 e2 => gen_has_prox e1 && gen_has_prox e2
  | Sum _ _ _ => false                                     (* FunctionalSum.has_prox = False *)
  | LossOf _ cls _ f _ _ => gen_has_prox f && is_identity cls
                                       (* f is not None and f.has_prox and isinstance(A, Identity) *)
  | LossNone _ _ _ _ _ => false
  | SqL2Loss _ _ cls _ _ _ _ _ _ => is_linop cls           (* isinstance(A, LinearOperator) *)
  end.

(** the operations; None = raises NotImplementedError *)
Fixpoint gen_eval {S} (e : fexpr S) : @E S -> option R :=
  match e in fexpr S return @E S -> option R with
  | Base _ b => fun x => if b_has_eval b then Some (bf b x) else None
  | Scaled _ c e => fun x => option_map (Rmult c) (gen_eval e x)
  | SepNil => fun _ => Some 0
  | SepCons _ _ e1 e2 => fun x =>
      match gen_eval e1 (fst x), gen_eval e2 (snd x) with
      | Some a, Some b => Some (a + b) | _, _ => None end
  | Sum _ e1 e2 => fun x =>
      match gen_eval e1 x, gen_eval e2 x with Some a, Some b => Some (a + b) | _, _ => None end
  | LossOf _ _ A f y c => fun x => option_map (Rmult c) (gen_eval f (vsub (A x) y))
  | LossNone _ _ _ _ _ => fun _ => None
  | SqL2Loss _ _ _ A _ W y c _ => fun x => Some (c * wfun A W y x)
  end.
Fixpoint gen_prox {S} (e : fexpr S) : R -> @E S -> option (@E S) :=
  match e in fexpr S return R -> @E S -> option (@E S) with
  | Base _ b => fun lam v => if b_has_prox b then Some (bprox b lam v) else None
  | Scaled _ c e => fun lam v => gen_prox e (lam * c) v     (* functional.prox(v, lam*scale) *)
  | SepNil => fun _ v => Some v
  | SepCons _ _ e1 e2 => fun lam v =>
      match gen_prox e1 lam (fst v), gen_prox e2 lam (snd v) with
      | Some p1, Some p2 => Some (p1, p2) | _, _ => None end
  | Sum _ _ _ => fun _ _ => None
  | LossOf _ cls _ f y c => fun lam v =>    (* if not self.has_prox: raise; f.prox(v - y, scale*lam) + y *)
      if gen_has_prox f && is_identity cls
      then option_map (fun q => vadd q y) (gen_prox f (c * lam) (vsub v y)) else None
  | LossNone _ _ _ _ _ => fun _ _ => None
  | SqL2Loss _ _ cls _ _ _ _ _ sol => fun lam v => if is_linop cls then Some (sol lam v) else None
  end.

(** well-formedness: the documented / implicit preconditions *)
Fixpoint wf {S} (e : fexpr S) : Prop :=
  match e with
  | Base _ _ => True
  | Scaled _ c e => 0 < c /\ wf e
  | SepNil => True
  | SepCons _ _ e1 e2 => wf e1 /\ wf e2
  | Sum _ e1 e2 => wf e1 /\ wf e2
  | LossOf _ cls A f _ c =>
      0 < c /\ wf f /\ (is_identity cls = true -> forall x, A x = x)
  | LossNone _ _ _ _ _ => True
  | SqL2Loss _ _ cls A B W y c sol =>
      0 <= c /\ (is_linop cls = true ->
        IsLinear A /\ IsLinear B /\ IsLinear W /\ IsAdj A B /\
        (forall a b, ip (W a) b = ip a (W b)) /\ (forall a, 0 <= ip (W a) a) /\
        (* the closed form / an exact CG solve returns a solution of the system *)
        forall lam v, 0 < lam -> cg_lhs A B W c lam (sol lam v) = cg_rhs B W c lam y v)
  end.

(** ** has_prox is truthful on well-formed expressions, for every nesting *)
Theorem gen_prox_correct : forall S (e : fexpr S), wf e -> gen_has_prox e = true ->
  forall lam v, 0 < lam ->
    exists p, gen_prox e lam v = Some p /\ IsProx (ddom e) (deval e) lam v p.
Proof.
  induction e as [S b | S c e IHe | | S1 S2 e1 IHe1 e2 IHe2 | S e1 IHe1 e2 IHe2 | S cls A f IHf y c | S cls A y c | S1 S2 cls A B W y c sol]; intros Hwf Hflag lam v Hlam; cbn in *.
  - (* Base *) rewrite Hflag. eexists; split; [reflexivity|]. now apply b_ok.
  - (* Scaled *) destruct Hwf as [Hc Hwf].
    destruct (IHe Hwf Hflag (lam * c) v ltac:(nra)) as [p [Hp Hpr]].
    exists p; split; auto. apply prox_scale. now rewrite Rmult_comm.
  - (* SepNil *) exists v; split; auto. apply unit_prox.
  - (* SepCons *) destruct Hwf as [H1 H2]. apply andb_true_iff in Hflag as [F1 F2].
    destruct v as [v1 v2].
    destruct (IHe1 H1 F1 lam v1 Hlam) as [p1 [E1 P1]].
    destruct (IHe2 H2 F2 lam v2 Hlam) as [p2 [E2 P2]].
    cbn [fst snd]. rewrite E1, E2. eexists; split; [reflexivity|].
    now apply (prox_separable S1 S2).
  - (* Sum *) discriminate.
  - (* LossOf *) destruct Hwf as [Hc [Hwf Hid]]. rewrite Hflag.
    apply andb_true_iff in Hflag as [Hf Hcls]. pose proof (Hid Hcls) as HA.
    destruct (IHf Hwf Hf (c * lam) (vsub v y) ltac:(nra)) as [q [Eq Pq]].
    rewrite Eq. cbn [option_map]. eexists; split; [reflexivity|].
    pose proof (loss_translate_prox (ddom f) (deval f) c y lam v q Pq) as H.
    destruct H as [Hd Hm]. split.
    + now rewrite HA.
    + intros x Hx. rewrite HA in Hx. specialize (Hm x Hx). unfold obj in *. now rewrite !HA.
  - (* LossNone *) discriminate.
  - (* SqL2Loss *) destruct Hwf as [Hc Hwf]. rewrite Hflag.
    destruct (Hwf Hflag) as [HA [HB [HW [Hadj [Hs [Hp Hsol]]]]]].
    eexists; split; [reflexivity|].
    apply (cg_solution_is_prox A B W c lam y v (sol lam v) HA HB HW Hadj Hs Hp); [nra|].
    now apply Hsol.
Qed.

(** flag false => the call raises (for every expression, no well-formedness needed) *)
Theorem gen_prox_unavailable : forall S (e : fexpr S), gen_has_prox e = false ->
  forall lam v, gen_prox e lam v = None.
Proof.
  induction e as [S b | S c e IHe | | S1 S2 e1 IHe1 e2 IHe2 | S e1 IHe1 e2 IHe2 | S cls A f IHf y c | S cls A y c | S1 S2 cls A B W y c sol]; intros Hflag lam v; cbn in *; try reflexivity; try discriminate.
  - now rewrite Hflag.
  - now apply IHe.
  - apply andb_false_iff in Hflag as [F|F].
    + now rewrite (IHe1 F).
    + rewrite (IHe2 F). now destruct (gen_prox e1 lam (fst v)).
  - now rewrite Hflag.
  - now rewrite Hflag.
Qed.

(** ** has_eval.  The only hypothesis left: the expression contains no abstract Loss(y, f=None)
    (documented: "__call__ and prox must be defined in a derived class"; its has_eval is True) *)
Fixpoint wf_eval {S} (e : fexpr S) : Prop :=
  match e with
  | Base _ _ => True
  | Scaled _ _ e => wf_eval e
  | SepNil => True
  | SepCons _ _ e1 e2 => wf_eval e1 /\ wf_eval e2
  | Sum _ e1 e2 => wf_eval e1 /\ wf_eval e2
  | LossOf _ _ _ f _ _ => wf_eval f
  | LossNone _ _ _ _ _ => False
  | SqL2Loss _ _ _ _ _ _ _ _ _ => True
  end.

Theorem gen_eval_correct : forall S (e : fexpr S), wf_eval e -> gen_has_eval e = true ->
  forall x, gen_eval e x = Some (deval e x).
Proof.
  induction e as [S b | S c e IHe | | S1 S2 e1 IHe1 e2 IHe2 | S e1 IHe1 e2 IHe2 | S cls A f IHf y c | S cls A y c | S1 S2 cls A B W y c sol]; intros Hwf Hflag x; cbn in *; try reflexivity.
  - now rewrite Hflag.
  - now rewrite (IHe Hwf Hflag).
  - destruct Hwf as [H1 H2]. apply andb_true_iff in Hflag as [F1 F2].
    now rewrite (IHe1 H1 F1), (IHe2 H2 F2).
  - destruct Hwf as [H1 H2]. apply andb_true_iff in Hflag as [F1 F2].
    now rewrite (IHe1 H1 F1), (IHe2 H2 F2).
  - now rewrite (IHf Hwf Hflag).
  - contradiction.
Qed.

Theorem gen_eval_unavailable : forall S (e : fexpr S), gen_has_eval e = false ->
  forall x, gen_eval e x = None.
Proof.
  induction e as [S b | S c e IHe | | S1 S2 e1 IHe1 e2 IHe2 | S e1 IHe1 e2 IHe2 | S cls A f IHf y c | S cls A y c | S1 S2 cls A B W y c sol]; intros Hflag x; cbn in *; try discriminate.
  - now rewrite Hflag.
  - now rewrite (IHe Hflag).
  - apply andb_false_iff in Hflag as [F|F].
    + now rewrite (IHe1 F).
    + rewrite (IHe2 F). now destruct (gen_eval e1 (fst x)).
  - apply andb_false_iff in Hflag as [F|F].
    + now rewrite (IHe1 F).
    + rewrite (IHe2 F). now destruct (gen_eval e1 x).
  - now rewrite (IHf Hflag).
Qed.

(** ** Flags of the loss classes by finite case analysis over the forward-operator classes *)
Definition all_fwd : list fwd := [FIdentity; FScaledIdentity; FDiagonal; FLinear; FNonlinear; FCallable].
Lemma all_fwd_complete c : In c all_fwd.
Proof. destruct c; cbn; tauto. Qed.

(** Loss(y, A, f): has_prox <-> A is an Identity; SquaredL2Loss: has_prox <-> A is a
    LinearOperator, and its prox takes the closed-form branch exactly for Diagonal classes *)
Theorem loss_flags_table :
  map is_identity all_fwd = [true; false; false; false; false; false] /\
  map is_linop all_fwd = [true; true; true; true; false; false] /\
  map is_diagonal all_fwd = [true; true; true; false; false; false] /\
  (forall c, is_diagonal c = true -> is_linop c = true) /\
  (forall c, is_identity c = true -> is_diagonal c = true).
Proof. repeat split; try reflexivity; intros []; cbn; congruence. Qed.

(** ** conj_prox: v - lam * prox(v/lam, 1/lam) is a prox of the conjugate (Moreau) *)
Section ConjProx.
  Context {S : InnerSpace}.
  Variable dom : E -> Prop.
  Variable f : E -> R.
  Variable domc : E -> Prop.
  Variable fc : E -> R.
  Hypothesis f_convex : Convex dom f.
  Hypothesis fenchel_young : forall x s, dom x -> domc s -> ip x s <= f x + fc s.
  Hypothesis fenchel_eq : forall x s, dom x ->
    (forall z, dom z -> f x + ip s (vsub z x) <= f z) -> domc s /\ ip x s = f x + fc s.
  Variable prox : R -> E -> E.                   (* f.prox(v, lam) *)
  Hypothesis prox_ok : forall lam v, 0 < lam -> IsProx dom f lam v (prox lam v).

  Definition conj_prox_model (lam : R) (v : E) : E :=
    vsub v (vscale lam (prox (/ lam) (vscale (/ lam) v))).

  Theorem conj_prox_correct lam v : 0 < lam -> IsProx domc fc lam v (conj_prox_model lam v).
  Proof.
    intros Hlam. unfold conj_prox_model.
    assert (Hi : 0 < / lam) by now apply Rinv_0_lt_compat.
    apply (moreau dom f domc fc fenchel_young fenchel_eq lam v _ Hlam).
    apply prox_subcert; auto.
  Qed.

  (** Moreau identity: v = prox_{lam f*}(v) + lam * prox_{f/lam}(v/lam) *)
  Corollary moreau_identity lam v :
    v = vadd (conj_prox_model lam v) (vscale lam (prox (/ lam) (vscale (/ lam) v))).
  Proof. unfold conj_prox_model. now rewrite vadd_sub_cancel. Qed.
End ConjProx.
