(** C08 executable side: the flag logic on plain syntax trees (what the harness sends), proved
    equal to the flags / definedness of [C08.Calculus] on every expression; and the exact
    residual of the diagonal SquaredL2Loss system at Qc. *)
From Coq Require Import QArith Qabs Qcanon Reals Bool List.
From SV Require Import Base.Num Base.InnerSpace C02.Basics C02.Models C02.Exec C08.Calculus.
Import ListNotations.

Inductive fshape :=
| SBase (he hp : bool)
| SScaled (e : fshape)
| SSepNil
| SSepCons (e1 e2 : fshape)
| SSum (e1 e2 : fshape)
| SLoss (cls : fwd) (f : fshape)
| SLossNone (cls : fwd)
| SSqL2 (cls : fwd).

Fixpoint sh_has_eval (s : fshape) : bool :=
  match s with
  | SBase he _ => he | SScaled e => sh_has_eval e | SSepNil => true
  | SSepCons a b | SSum a b => sh_has_eval a && sh_has_eval b
  | SLoss _ f => sh_has_eval f
  | SLossNone _ | SSqL2 _ => true
  end.
Fixpoint sh_has_prox (s : fshape) : bool :=
  match s with
  | SBase _ hp => hp | SScaled e => sh_has_prox e | SSepNil => true
  | SSepCons a b => sh_has_prox a && sh_has_prox b
  | SSum _ _ => false
  | SLoss cls f => sh_has_prox f && is_identity cls | SLossNone _ => false | SSqL2 cls => is_linop cls
  end.
(** does the call return (true) or raise NotImplementedError (false) *)
Fixpoint sh_eval_defined (s : fshape) : bool :=
  match s with
  | SBase he _ => he | SScaled e => sh_eval_defined e | SSepNil => true
  | SSepCons a b | SSum a b => sh_eval_defined a && sh_eval_defined b
  | SLoss _ f => sh_eval_defined f | SLossNone _ => false | SSqL2 _ => true
  end.
Fixpoint sh_prox_defined (s : fshape) : bool :=
  match s with
  | SBase _ hp => hp | SScaled e => sh_prox_defined e | SSepNil => true
  | SSepCons a b => sh_prox_defined a && sh_prox_defined b
  | SSum _ _ => false
  | SLoss cls f => (sh_has_prox f && is_identity cls) && sh_prox_defined f
  | SLossNone _ => false | SSqL2 cls => is_linop cls
  end.

Fixpoint shape_of {S} (e : fexpr S) : fshape :=
  match e with
  | Base _ b => SBase (b_has_eval b) (b_has_prox b)
  | Scaled _ _ e => SScaled (shape_of e)
  | SepNil => SSepNil
  | SepCons _ _ a b => SSepCons (shape_of a) (shape_of b)
  | Sum _ a b => SSum (shape_of a) (shape_of b)
  | LossOf _ cls _ f _ _ => SLoss cls (shape_of f)
  | LossNone _ cls _ _ _ => SLossNone cls
  | SqL2Loss _ _ cls _ _ _ _ _ _ => SSqL2 cls
  end.

Lemma shape_has_eval S (e : fexpr S) : gen_has_eval e = sh_has_eval (shape_of e).
Proof. induction e; cbn; congruence. Qed.
Lemma shape_has_prox S (e : fexpr S) : gen_has_prox e = sh_has_prox (shape_of e).
Proof. induction e; cbn; congruence. Qed.

Definition is_some {A} (o : option A) : bool := match o with Some _ => true | None => false end.
Lemma shape_prox_defined S (e : fexpr S) : forall lam v,
  is_some (gen_prox e lam v) = sh_prox_defined (shape_of e).
Proof.
  induction e as [S b | S c e IHe | | S1 S2 e1 IHe1 e2 IHe2 | S e1 IHe1 e2 IHe2 | S cls A f IHf y c | S cls A y c | S1 S2 cls A B W y c sol]; intros lam v; cbn; auto.
  - now destruct (b_has_prox b).
  - rewrite <- (IHe1 lam (fst v)), <- (IHe2 lam (snd v)).
    destruct (gen_prox e1 lam (fst v)), (gen_prox e2 lam (snd v)); reflexivity.
  - rewrite <- shape_has_prox. destruct (gen_has_prox f && is_identity cls); cbn; auto.
    rewrite <- (IHf (c * lam)%R (vsub v y)).
    now destruct (gen_prox f (c * lam) (vsub v y)).
  - now destruct (is_linop cls).
Qed.
Lemma shape_eval_defined S (e : fexpr S) : forall x,
  is_some (gen_eval e x) = sh_eval_defined (shape_of e).
Proof.
  induction e as [S b | S c e IHe | | S1 S2 e1 IHe1 e2 IHe2 | S e1 IHe1 e2 IHe2 | S cls A f IHf y c | S cls A y c | S1 S2 cls A B W y c sol]; intros x; cbn; auto.
  - now destruct (b_has_eval b).
  - rewrite <- (IHe x). now destruct (gen_eval e x).
  - rewrite <- (IHe1 (fst x)), <- (IHe2 (snd x)).
    destruct (gen_eval e1 (fst x)), (gen_eval e2 (snd x)); reflexivity.
  - rewrite <- (IHe1 x), <- (IHe2 x).
    destruct (gen_eval e1 x), (gen_eval e2 x); reflexivity.
  - rewrite <- (IHf (vsub (A x) y)). now destruct (gen_eval f (vsub (A x) y)).
Qed.

(** With Loss.__init__ propagating the flags of f, has_prox is set EXACTLY when prox is
    available, for every expression and with no side condition; has_eval likewise for every
    expression without an abstract Loss(y, f=None). *)
Lemma sh_prox_flag_exact s : sh_prox_defined s = sh_has_prox s.
Proof.
  induction s; cbn; auto.
  - now rewrite IHs1, IHs2.
  - rewrite IHs. now destruct (sh_has_prox s), (is_identity cls).
Qed.
Theorem has_prox_exact S (e : fexpr S) lam v : is_some (gen_prox e lam v) = gen_has_prox e.
Proof. now rewrite shape_prox_defined, sh_prox_flag_exact, shape_has_prox. Qed.

Theorem has_eval_exact S (e : fexpr S) : wf_eval e -> forall x, is_some (gen_eval e x) = gen_has_eval e.
Proof.
  intros Hwf x. destruct (gen_has_eval e) eqn:F.
  - now rewrite (gen_eval_correct S e Hwf F).
  - now rewrite (gen_eval_unavailable S e F).
Qed.

(** a flag case: (shape, (has_eval, has_prox) of the real object, (eval works, prox works)) *)
Definition flag_case := (fshape * (bool * bool) * (bool * bool))%type.
Definition flag_ok (c : flag_case) : bool :=
  let '(s, (he, hp), (ew, pw)) := c in
  Bool.eqb (sh_has_eval s) he && Bool.eqb (sh_has_prox s) hp
  && Bool.eqb (sh_eval_defined s) ew && Bool.eqb (sh_prox_defined s) pw.

(** exact residual of (I + c w conj(a) a) x = v + c w conj(a) y, c = 2*alpha*lam, at Qc, for
    the implementation's x; row = [vr;vi;ar;ai;w;yr;yi], out = [xr;xi] *)
Local Open Scope nat_scope.
Definition diag_row_ok (alpha lam : Qc) (r : list Qc) (o : list Q) : bool :=
  let x := nthq r in
  let c := (k2 * alpha * lam * x 4)%num in
  let a := (x 2, x 3) in
  let xo := (qc (nth 0 o 0%Q), qc (nth 1 o 0%Q)) in
  let lhs := kcadd xo (kcscale c (kcmul (kcconj a) (kcmul a xo))) in
  let rhs := kcadd (x 0, x 1) (kcscale c (kcmul (kcconj a) (x 5, x 6))) in
  Qclose tol_val (this (fst lhs)) (this (fst rhs)) && Qclose tol_val (this (snd lhs)) (this (snd rhs)).
Definition diag_case_ok (c : Qc * Qc * list (list Qc * list Q)) : bool :=
  let '(alpha, lam, rows) := c in forallb (fun r => diag_row_ok alpha lam (fst r) (snd r)) rows.
