(** C08: weighted least squares in abstract inner-product spaces.
    x minimises 1/2||x - v||^2 + mu <W(Ax - y), Ax - y>   (mu = lam*alpha >= 0)
      <->  (I + 2 mu A^H W A) x = v + 2 mu A^H W y,
    for A linear with adjoint B = A^H, W linear, self-adjoint, positive semi-definite; the
    solution is unique.  Real, complex (Re<.,.>) and block arrays are instances.
    Then: the model of SquaredL2Loss.prox -- the diagonal closed form as the code computes it
    and the lhs/rhs handed to CG in the general branch -- are exactly this system. *)
From Coq Require Import Reals Lra Psatz.
From SV Require Import Base.Num Base.InnerSpace Prox.ProxTheory C02.Basics C02.Models C02.Norms C02.Losses.
Open Scope R_scope.

Section VecId.
  Context {S : InnerSpace}.
  Lemma vopp_add (a b : E) : vopp (vadd a b) = vadd (vopp a) (vopp b).
  Proof. rewrite !vopp_scale. apply vscale_add_r. Qed.
  Lemma vadd4 (a b c d : E) : vadd (vadd a b) (vadd c d) = vadd (vadd a c) (vadd b d).
  Proof.
    rewrite <- !vadd_assoc. f_equal. rewrite !vadd_assoc. f_equal. apply vadd_comm.
  Qed.
  Lemma vscale_opp c (a : E) : vscale c (vopp a) = vopp (vscale c a).
  Proof. rewrite !vopp_scale, !vscale_scale. f_equal. ring. Qed.
  Lemma vscale_sub c (a b : E) : vscale c (vsub a b) = vsub (vscale c a) (vscale c b).
  Proof. unfold vsub. now rewrite vscale_add_r, vscale_opp. Qed.
  Lemma vsub_0_iff (a b : E) : vsub a b = vzero <-> a = b.
  Proof. split; [apply vsub_eq_0 | intros ->; apply vsub_self]. Qed.
End VecId.

Lemma lin_sub {S1 S2 : InnerSpace} (L : @E S1 -> @E S2) : IsLinear L ->
  forall a b, L (vsub a b) = vsub (L a) (L b).
Proof.
  intros [Ha Hs] a b. unfold vsub. now rewrite Ha, !vopp_scale, Hs.
Qed.

Section WLS.
  Context {S1 S2 : InnerSpace}.
  Variable A : @E S1 -> @E S2.
  Variable B : @E S2 -> @E S1.
  Variable W : @E S2 -> @E S2.
  Hypothesis A_lin : IsLinear A.
  Hypothesis B_lin : IsLinear B.
  Hypothesis W_lin : IsLinear W.
  Hypothesis AB_adj : IsAdj A B.
  Hypothesis W_self : forall a b, ip (W a) b = ip a (W b).
  Hypothesis W_psd : forall a, 0 <= ip (W a) a.
  Variable y : @E S2.
  Variable v : @E S1.
  Variable mu : R.
  Hypothesis mu_pos : 0 <= mu.

  Definition wres (x : @E S1) : @E S2 := vsub (A x) y.
  Definition wfun (x : @E S1) : R := ip (W (wres x)) (wres x).          (* ||Ax - y||_W^2 *)
  Definition wobj (x : @E S1) : R := / 2 * nsq (vsub x v) + mu * wfun x.
  Definition sys_lhs (x : @E S1) : @E S1 := vadd x (vscale (2 * mu) (B (W (A x)))).
  Definition sys_rhs : @E S1 := vadd v (vscale (2 * mu) (B (W y))).
  Definition wgrad (x : @E S1) : @E S1 := vadd (vsub x v) (vscale (2 * mu) (B (W (wres x)))).

  Lemma wgrad_sys x : wgrad x = vsub (sys_lhs x) sys_rhs.
  Proof.
    unfold wgrad, sys_lhs, sys_rhs, wres.
    rewrite (lin_sub W W_lin), (lin_sub B B_lin), vscale_sub.
    unfold vsub. rewrite vopp_add. apply vadd4.
  Qed.

  Lemma wres_add x d : wres (vadd x d) = vadd (wres x) (A d).
  Proof.
    unfold wres. destruct A_lin as [Ha _]. rewrite Ha. unfold vsub.
    rewrite <- !vadd_assoc. f_equal. apply vadd_comm.
  Qed.

  Lemma wobj_expand x d :
    wobj (vadd x d) = wobj x + ip (wgrad x) d + / 2 * nsq d + mu * ip (W (A d)) (A d).
  Proof.
    unfold wobj, wfun, wgrad. rewrite wres_add. destruct W_lin as [Hw _]. rewrite Hw.
    set (r := wres x). set (e := A d).
    assert (H1 : ip (W e) r = ip (W r) e) by (rewrite W_self; apply ip_sym).
    assert (H2 : ip (B (W r)) d = ip (W r) e).
    { rewrite ip_sym. unfold e. symmetry. rewrite ip_sym. apply AB_adj. }
    replace (vsub (vadd x d) v) with (vadd (vsub x v) d).
    2:{ unfold vsub. rewrite <- !vadd_assoc. f_equal. apply vadd_comm. }
    rewrite nsq_add. rewrite !ip_add_l, !ip_add_r, ip_scale_l, H1, H2. unfold nsq. field.
  Qed.

  Theorem wls_sufficient x : sys_lhs x = sys_rhs -> forall z, wobj x <= wobj z.
  Proof.
    intros Hs z. assert (Hg : wgrad x = vzero) by (rewrite wgrad_sys; now apply vsub_0_iff).
    replace z with (vadd x (vsub z x)).
    2:{ unfold vsub. rewrite (vadd_comm z), vadd_assoc, vadd_opp_r. apply vadd_0_l. }
    rewrite wobj_expand, Hg, ip_0_l.
    pose proof (nsq_pos (vsub z x)). pose proof (W_psd (A (vsub z x))).
    assert (0 <= mu * ip (W (A (vsub z x))) (A (vsub z x))) by (apply Rmult_le_pos; auto). lra.
  Qed.

  Theorem wls_necessary x : (forall z, wobj x <= wobj z) -> sys_lhs x = sys_rhs.
  Proof.
    intros Hm. apply vsub_0_iff. rewrite <- wgrad_sys. apply nsq_0.
    set (g := wgrad x). pose proof (nsq_pos g) as Hp.
    cut (0 <= - nsq g); [lra|].
    apply lim_step with (b := / 2 * nsq g + mu * ip (W (A g)) (A g)).
    intros t Ht. specialize (Hm (vadd x (vscale (- t) g))). rewrite wobj_expand in Hm. fold g in Hm.
    destruct A_lin as [_ Has]. destruct W_lin as [_ Hws].
    rewrite Has, Hws, nsq_scale, !ip_scale_l, !ip_scale_r in Hm. fold (nsq g) in Hm.
    assert (Hk : 0 <= t * (- nsq g + t * (/ 2 * nsq g + mu * ip (W (A g)) (A g)))) by nra.
    destruct Ht as [Ht0 Ht1]. apply Rmult_le_reg_l with t; auto. lra.
  Qed.

  Theorem wls_iff x : (forall z, wobj x <= wobj z) <-> sys_lhs x = sys_rhs.
  Proof. split; [apply wls_necessary | apply wls_sufficient]. Qed.

  (** I + 2 mu A^H W A is positive definite, so the solution is unique *)
  Theorem wls_unique x1 x2 : sys_lhs x1 = sys_rhs -> sys_lhs x2 = sys_rhs -> x1 = x2.
  Proof.
    intros H1 H2. pose proof (wls_sufficient x1 H1 x2) as Ha. pose proof (wls_sufficient x2 H2 x1) as Hb.
    assert (Hg : wgrad x1 = vzero) by (rewrite wgrad_sys; now apply vsub_0_iff).
    replace x2 with (vadd x1 (vsub x2 x1)) in Hb at 1.
    2:{ unfold vsub. rewrite (vadd_comm x2), vadd_assoc, vadd_opp_r. apply vadd_0_l. }
    rewrite wobj_expand, Hg, ip_0_l in Hb.
    pose proof (W_psd (A (vsub x2 x1))).
    assert (0 <= mu * ip (W (A (vsub x2 x1))) (A (vsub x2 x1))) by (apply Rmult_le_pos; auto).
    symmetry. apply veq_by_ip. lra.
  Qed.

  (** as a statement about IsProx of the loss alpha*||Ax - y||_W^2 with mu = alpha*lam *)
  Theorem wls_prox alpha lam x : mu = alpha * lam ->
    sys_lhs x = sys_rhs -> IsProx Tr (fun x => alpha * wfun x) lam v x.
  Proof.
    intros Hmu Hs. split; [exact I|]. intros z _. pose proof (wls_sufficient x Hs z) as H.
    unfold obj, wobj in *. rewrite Hmu in H. lra.
  Qed.
End WLS.

(** ** The general branch of SquaredL2Loss.prox: what is handed to CG.
    hessian = 2*alpha*A.adj(W(A(x))); lhs = Identity + lam*hessian; rhs = v + 2*lam*alpha*A.adj(W(y)) *)
Section CGBranch.
  Context {S1 S2 : InnerSpace}.
  Variable A : @E S1 -> @E S2.
  Variable B : @E S2 -> @E S1.
  Variable W : @E S2 -> @E S2.
  Definition hessian_model (alpha : R) (x : @E S1) : @E S1 := vscale (2 * alpha) (B (W (A x))).
  Definition cg_lhs (alpha lam : R) (x : @E S1) : @E S1 := vadd x (vscale lam (hessian_model alpha x)).
  Definition cg_rhs (alpha lam : R) (y : @E S2) (v : @E S1) : @E S1 :=
    vadd v (vscale (2 * lam * alpha) (B (W y))).

  Theorem cg_system_is_wls alpha lam y v x :
    cg_lhs alpha lam x = sys_lhs A B W (alpha * lam) x /\
    cg_rhs alpha lam y v = sys_rhs B W y v (alpha * lam).
  Proof.
    unfold cg_lhs, cg_rhs, hessian_model, sys_lhs, sys_rhs. rewrite vscale_scale. split; do 2 f_equal; ring.
  Qed.

  (** an exact solution of the system handed to CG is the prox *)
  Corollary cg_solution_is_prox alpha lam y v x :
    IsLinear A -> IsLinear B -> IsLinear W -> IsAdj A B ->
    (forall a b, ip (W a) b = ip a (W b)) -> (forall a, 0 <= ip (W a) a) ->
    0 <= alpha * lam ->
    cg_lhs alpha lam x = cg_rhs alpha lam y v ->
    IsProx Tr (fun x => alpha * wfun A W y x) lam v x.
  Proof.
    intros HA HB HW Hadj Hs Hp Hmu Hsol.
    destruct (cg_system_is_wls alpha lam y v x) as [E1 E2]. rewrite E1, E2 in Hsol.
    apply (wls_prox A B W HA HB HW Hadj Hs Hp y v (alpha * lam) Hmu alpha lam x eq_refl Hsol).
  Qed.
End CGBranch.

(** ** The diagonal branch: entries in C, A = multiplication by a, A^H by conj a, W by w >= 0.
    The closed form (c conj(a) w y + v)/(c conj(a) w a + 1), c = 2 alpha lam, solves the system;
    the denominator is >= 1. *)
Lemma cmul_linear a : @IsLinear CSpace CSpace (cmul a).
Proof. split; intros; [apply cmul_add | apply cmul_scale]. Qed.
Lemma cmul_isadj a : @IsAdj CSpace CSpace (cmul a) (cmul (cconj a)).
Proof. intros x y. apply cmul_adj. Qed.
Lemma wscale_linear (w : R) : @IsLinear CSpace CSpace (@vscale CSpace w).
Proof.
  split; intros; [apply vscale_add_r|]. rewrite !vscale_scale. f_equal. ring.
Qed.

Theorem diag_denominator_pos alpha lam w (a : R * R) : 0 <= alpha -> 0 <= lam -> 0 <= w ->
  1 <= 2 * alpha * lam * w * cabs2 a + 1.
Proof.
  intros. assert (0 <= cabs2 a) by (unfold cabs2; nra).
  assert (0 <= alpha * lam * w) by (apply Rmult_le_pos; [apply Rmult_le_pos|]; assumption). nra.
Qed.

Theorem diag_closed_form_solves_system alpha lam w (a y v : R * R) :
  0 <= alpha -> 0 <= lam -> 0 <= w ->
  let x := csql2loss_code alpha a w y lam v in
  @sys_lhs CSpace CSpace (cmul a) (cmul (cconj a)) (@vscale CSpace w) (alpha * lam) x
  = @sys_rhs CSpace CSpace (cmul (cconj a)) (@vscale CSpace w) y v (alpha * lam).
Proof.
  intros Ha Hl Hw. pose proof (diag_denominator_pos alpha lam w a Ha Hl Hw) as Hden.
  destruct a as [a1 a2], y as [y1 y2], v as [v1 v2].
  unfold sys_lhs, sys_rhs, csql2loss_code, kcadd, kcscale, kcmul, kcconj, cmul, cconj, cabs2, CSpace in *.
  cbn [vadd vscale RSpace ProdSpace fst snd] in *. rsimp.
  f_equal; field; nra.
Qed.

Corollary diag_closed_form_is_prox alpha lam w (a y v : R * R) :
  0 <= alpha -> 0 <= lam -> 0 <= w ->
  @IsProx CSpace Tr (fun x => alpha * @wfun CSpace CSpace (cmul a) (@vscale CSpace w) y x) lam v
    (csql2loss_code alpha a w y lam v).
Proof.
  intros Ha Hl Hw.
  apply (@wls_prox CSpace CSpace (cmul a) (cmul (cconj a)) (@vscale CSpace w)
           (cmul_linear a) (cmul_linear _) (wscale_linear w) (cmul_isadj a)) with (mu := alpha * lam); auto.
  - intros p q. rewrite ip_scale_l, ip_scale_r. reflexivity.
  - intros p. rewrite ip_scale_l. apply Rmult_le_pos; auto. apply ip_pos.
  - apply Rmult_le_pos; auto.
  - now apply diag_closed_form_solves_system.
Qed.
