(** C09 -- shared vocabulary of the functional / loss / metric models.

    Everything is generic over the scalar class [Num K] of Base/Num.v and executable
    (instance [Qc] is run by [vm_compute] against the implementation, instance [R] is what
    the theorems of [Thm.v] are about).

    - complex numbers are pairs [(re, im)]; a real array is an array whose imaginary parts
      are all [0]; [|z|^2 = re^2 + im^2];
    - an array is a shape ([list nat]) plus its row-major flat data; a block array is a list
      of arrays;
    - [+inf] is an explicit constructor of the extended value type [ext];
    - the square root is a parameter [rt : K -> K] of every definition that needs one
      ([sqrt] at [R]; a checked 2^-64 approximation at [Qc], see [Exec.v]). *)
From Coq Require Import List Bool Arith ZArith.
From SV Require Import Base.Num.
Import ListNotations.

Set Implicit Arguments.

(** extended values *)
Inductive ext (K : Type) : Type := Fin (a : K) | PInf.
Arguments Fin {K} a.
Arguments PInf {K}.

Section Gen.
  Context {K : Type} {NK : Num K}.
  Variable rt : K -> K.
  Local Open Scope num_scope.

  (** ** extended arithmetic (the scale factor of [ext_scale] is meant to be > 0) *)
  Definition ext_add (a b : ext K) : ext K :=
    match a, b with Fin x, Fin y => Fin (x + y) | _, _ => PInf end.
  Definition ext_scale (c : K) (a : ext K) : ext K :=
    match a with Fin x => Fin (c * x) | PInf => PInf end.
  Definition ext_sum (l : list (ext K)) : ext K := fold_right ext_add (Fin k0) l.
  Definition ext_isinf (a : ext K) : bool := match a with PInf => true | _ => false end.

  (** ** complex numbers *)
  Definition cx : Type := (K * K)%type.
  Definition c0 : cx := (k0, k0).
  Definition cre (z : cx) : K := fst z.
  Definition cim (z : cx) : K := snd z.
  Definition cadd (a b : cx) : cx := (fst a + fst b, snd a + snd b).
  Definition csub (a b : cx) : cx := (fst a - fst b, snd a - snd b).
  Definition cmul (a b : cx) : cx :=
    (fst a * fst b - snd a * snd b, fst a * snd b + snd a * fst b).
  Definition cconj (a : cx) : cx := (fst a, - snd a).
  Definition cscale (r : K) (a : cx) : cx := (r * fst a, r * snd a).
  Definition cofre (r : K) : cx := (r, k0).
  Definition cabs2 (z : cx) : K := fst z * fst z + snd z * snd z.
  Definition czerob (z : cx) : bool := (fst z =? k0) && (snd z =? k0).
  (** modulus: computed without a square root on real entries (so that the [Qc] instance is
      exact there); [Thm.cmod_R] shows it is [sqrt (re^2+im^2)] in every case. *)
  Definition cmod (z : cx) : K :=
    if snd z =? k0 then kabs (fst z) else rt (cabs2 z).

  (** ** sums over lists *)
  Definition ksum (l : list K) : K := fold_right kadd k0 l.
  Definition csum (l : list cx) : cx := fold_right cadd c0 l.
  Definition sumsq (d : list cx) : K := ksum (map cabs2 d).
  Definition klen (A : Type) (l : list A) : K := kofnat (length l).

  Fixpoint map2 (A B C : Type) (f : A -> B -> C) (l1 : list A) (l2 : list B) : list C :=
    match l1, l2 with
    | a :: t1, b :: t2 => f a b :: map2 f t1 t2
    | _, _ => []
    end.

  Definition vsub (x y : list cx) : list cx := map2 csub x y.

  (** ** arrays *)
  Record arr := mkarr { ashape : list nat; adata : list cx }.
  Definition flat (blocks : list arr) : list cx := concat (map adata blocks).

  (** all multi-indices of a shape in row-major order *)
  Fixpoint idxs (shape : list nat) : list (list nat) :=
    match shape with
    | [] => [[]]
    | n :: s => flat_map (fun i => map (cons i) (idxs s)) (seq 0 n)
    end.
  Definition in_axes (axes : list nat) (k : nat) : bool := existsb (Nat.eqb k) axes.
  (** the part of a multi-index that survives a reduction over [axes] *)
  Definition mask (axes : list nat) (idx : list nat) : list nat :=
    map (fun p => if in_axes axes (fst p) then 0 else snd p) (combine (seq 0 (length idx)) idx).
  Definition rshape (axes : list nat) (shape : list nat) : list nat :=
    map (fun p => if in_axes axes (fst p) then 1 else snd p) (combine (seq 0 (length shape)) shape).
  Fixpoint nl_eqb (a b : list nat) : bool :=
    match a, b with
    | [], [] => true
    | x :: a', y :: b' => Nat.eqb x y && nl_eqb a' b'
    | _, _ => false
    end.
  (** [groups shape axes d]: for every index [n] of the remaining axes (row-major), the list
      of the entries [A_{m,n}], [m] ranging over the reduced axes: the index sets of
      "sum over [axes], one result per remaining index".  With [axes] = all axes there is a
      single group (the whole array). *)
  Definition groups (A : Type) (shape axes : list nat) (d : list A) : list (list A) :=
    let tagged := combine (map (mask axes) (idxs shape)) d in
    map (fun key => map snd (filter (fun p => nl_eqb (fst p) key) tagged))
        (idxs (rshape axes shape)).
  Definition all_axes (shape : list nat) : list nat := seq 0 (length shape).

  (** [on_axis f shape k d]: apply the length-preserving 1-d map [f] to every 1-d fibre of
      the array along axis [k] (entry (o,i,r) sits at flat index (o*n+i)*inner+r). *)
  Definition prod (l : list nat) : nat := fold_right Nat.mul 1 l.
  Definition fibre (d : list cx) (n inner o r : nat) : list cx :=
    map (fun i => nth ((o * n + i) * inner + r) d c0) (seq 0 n).
  Definition on_axis (f : list cx -> list cx) (shape : list nat) (k : nat) (d : list cx) : list cx :=
    let outer := prod (firstn k shape) in
    let n := nth k shape 1 in
    let inner := prod (skipn (S k) shape) in
    flat_map (fun o =>
      flat_map (fun i =>
        map (fun r => nth i (f (fibre d n inner o r)) c0) (seq 0 inner)) (seq 0 n)) (seq 0 outer).

  (** dense matrices (list of rows) acting on complex vectors; real matrix on complex vector *)
  Definition cdot (row : list cx) (x : list cx) : cx := csum (map2 cmul row x).
  Definition matvec (M : list (list cx)) (x : list cx) : list cx := map (fun row => cdot row x) M.
  Definition rdot (row : list K) (x : list cx) : cx := csum (map2 cscale row x).

  (** mean / variance (complex mean, |.|^2 deviations) *)
  Definition cmean (d : list cx) : cx := cscale (kinv (klen d)) (csum d).
  Definition kmean (l : list K) : K := ksum l / klen l.
  Definition var (d : list cx) : K :=
    let mu := cmean d in kmean (map (fun z => cabs2 (csub z mu)) d).

  Definition kmaxl (l : list K) : K :=
    match l with [] => k0 | a :: t => fold_left kmax t a end.
  Definition kminl (l : list K) : K :=
    match l with [] => k0 | a :: t => fold_left kmin t a end.
End Gen.

Arguments c0 {K NK}.
