(** C09 -- the executable ([Qc]) instance used by the correspondence check
    (vf/props/C09.py): literals, a checked approximate square root, oracle tables for
    log / gammaln / svd, comparison rules.  No theorem depends on this file. *)
From Coq Require Import List Bool Arith ZArith QArith Qcanon.
From SV Require Import Base.Num C09.Defs C09.Spec C09.Impl.
Import ListNotations.

Definition q (a : Q) : Qc := Q2Qc a.
Definition LK (l : list Q) : list Qc := map Q2Qc l.
Definition L (l : list (Q * Q)) : list (Qc * Qc) := map (fun p => (Q2Qc (fst p), Q2Qc (snd p))) l.
Definition LR (l : list Q) : list (Qc * Qc) := map (fun a => (Q2Qc a, 0%Qc)) l.
Definition A (shape : list nat) (d : list (Qc * Qc)) : arr (K:=Qc) := mkarr shape d.
Definition F (a : Q) : ext Qc := Fin (Q2Qc a).

(** floor (sqrt s * 2^64) / 2^64, and the same with its defining bracket re-checked at run
    time: [qrt s] is either within 2^-64 below the true square root or the sentinel -1
    (which makes every comparison fail). *)
Definition sqrt_bits : Z := 64.
Definition qsqrt_raw (s : Qc) : Qc :=
  let x := this s in
  if Qle_bool x 0 then 0%Qc
  else Q2Qc (Z.sqrt ((Qnum x * 2 ^ (2 * sqrt_bits)) / Zpos (Qden x)) # (2 ^ 64)).
Definition sqrt_eps : Qc := Q2Qc (1 # (2 ^ 64)).
Definition qrt (s : Qc) : Qc :=
  let v := qsqrt_raw s in
  if (Qc_leb 0 v && Qc_leb (v * v) s && negb (Qc_leb ((v + sqrt_eps) * (v + sqrt_eps)) s))%bool
  then v else (- (1))%Qc.

Definition Qc_abs (a : Qc) : Qc := kabs a.
Definition tol : Qc := Q2Qc (1 # (2 ^ 40)).
(** |v - s| <= 2^-40 max(1, |s|) *)
Definition close (v s : Qc) : bool :=
  Qc_leb (Qc_abs (v - s)) (tol * kmax 1%Qc (Qc_abs s)).
(** |k - a| <= 2^-40 |a|  (keys of oracle tables) *)
Definition keyclose (k a : Qc) : bool := Qc_leb (Qc_abs (k - a)) (tol * Qc_abs a).
Definition sentinel : Qc := Q2Qc (2 ^ 200 # 1).
(** oracle table: reference values of a library function (log10, log, gammaln) computed by
    the harness with math/numpy at float arguments; an entry is used only if its key agrees
    with the exactly computed argument to relative 2^-40; a missing entry gives the sentinel *)
Fixpoint tab (t : list (Q * Q)) (a : Qc) : Qc :=
  match t with
  | [] => sentinel
  | (k, v) :: r => if keyclose (Q2Qc k) a then Q2Qc v else tab r a
  end.
(** svd oracle: the reference singular values, accepted only if their squares sum to the
    squared Frobenius norm (relative 2^-40) *)
Definition svd_oracle (sv : list Q) (a : arr (K:=Qc)) : list Qc :=
  let s := LK sv in
  if close (ksum (map (fun x => x * x)%Qc s)) (sumsq (adata a)) && forallb (Qc_leb 0) s
  then s else [sentinel].

Definition code (bs bi : bool) : nat := (if bs then 0 else 1) + (if bi then 0 else 2).
Definition chk_exact (v spec impl : Qc) : nat := code (Qc_eqb v spec) (Qc_eqb v impl).
Definition chk_close (v spec impl : Qc) : nat := code (close v spec) (close v impl).
Definition ext_eqb (cmp : Qc -> Qc -> bool) (a b : ext Qc) : bool :=
  match a, b with
  | Fin x, Fin y => cmp x y
  | PInf, PInf => true
  | _, _ => false
  end.
Definition chkx_exact (v spec impl : ext Qc) : nat := code (ext_eqb Qc_eqb v spec) (ext_eqb Qc_eqb v impl).
Definition chkx_close (v spec impl : ext Qc) : nat := code (ext_eqb close v spec) (ext_eqb close v impl).
Definition chko_close (v spec : ext Qc) (impl : option (ext Qc)) : nat :=
  code (ext_eqb close v spec) (match impl with Some i => ext_eqb close v i | None => false end).

(** failing cases as 4 * index + code  (code 1: differs from Spec, 2: differs from the Impl
    model, 3: both) *)
Fixpoint report (l : list nat) (i : nat) : list nat :=
  match l with
  | [] => []
  | c :: r => if Nat.eqb c 0 then report r (S i) else (4 * i + c)%nat :: report r (S i)
  end.

(** projections used for SetDistance cases *)
Definition proj_nonneg (d : list (Qc * Qc)) : list (Qc * Qc) := map (fun z => (kmax 0%Qc (fst z), 0%Qc)) d.
Definition proj_const (c : list (Qc * Qc)) (d : list (Qc * Qc)) : list (Qc * Qc) := c.
Definition proj_box (lo hi : Qc) (d : list (Qc * Qc)) : list (Qc * Qc) :=
  map (fun z => (kmin hi (kmax lo (fst z)), 0%Qc)) d.
