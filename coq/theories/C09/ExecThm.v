(** C09 -- what the executable square root of [Exec.v] returns: either the sentinel -1 (never
    on a correct [Z.sqrt]; it makes every comparison of the harness fail) or a value within
    2^-64 below the real square root of its argument. *)
From Coq Require Import List Bool Arith Reals Lra Lia QArith Qcanon.
From SV Require Import Base.Num C09.Defs C09.Exec.
Open Scope R_scope.

Lemma Qc_leb_R a b : Qc_leb a b = true <-> inj a <= inj b.
Proof. rewrite inj_leb. apply R_leb_true. Qed.

Theorem qrt_bracket (s : Qc) :
  qrt s = (- (1))%Qc \/
  (0 <= inj (qrt s) /\ inj (qrt s) <= sqrt (inj s) /\ sqrt (inj s) < inj (qrt s) + inj sqrt_eps).
Proof.
  unfold qrt. set (v := qsqrt_raw s).
  destruct (Qc_leb 0 v && Qc_leb (v * v) s && negb (Qc_leb ((v + sqrt_eps) * (v + sqrt_eps)) s))%bool eqn:E;
    [right|left; reflexivity].
  apply andb_prop in E. destruct E as [E E3]. apply andb_prop in E. destruct E as [E1 E2].
  apply Qc_leb_R in E1. apply Qc_leb_R in E2. rewrite inj_0 in E1. rewrite inj_mul in E2.
  apply negb_true_iff in E3.
  assert (H3 : inj s < (inj v + inj sqrt_eps) * (inj v + inj sqrt_eps)).
  { destruct (Rlt_le_dec (inj s) ((inj v + inj sqrt_eps) * (inj v + inj sqrt_eps))) as [H|H]; [exact H|].
    exfalso. assert (Qc_leb ((v + sqrt_eps) * (v + sqrt_eps)) s = true); [|congruence].
    apply Qc_leb_R. rewrite inj_mul, inj_add. exact H. }
  assert (Heps : 0 < inj sqrt_eps).
  { rewrite <- inj_0. apply inj_lt. reflexivity. }
  assert (Hs : 0 <= inj s) by nra.
  split; [exact E1|]. split.
  - rewrite <- (sqrt_square (inj v) E1). apply sqrt_le_1_alt. exact E2.
  - rewrite <- (sqrt_square (inj v + inj sqrt_eps)) by lra. apply sqrt_lt_1_alt. split; [exact Hs|exact H3].
Qed.
