(** C09 -- tie of scico/metric.py to the model: the definitions py2coq regenerates from the source
    on every run (coq/gen/C09_Metric.v), instantiated with the array operations of C09/Impl.v,
    are the hand-transcribed [*_impl] functions the correspondence check executes, for all
    inputs and sizes; composed with C09/Thm.v they equal the documented definitions (Spec). *)
From Coq Require Import List Bool Reals Lra QArith Qcanon.
From SV Require Import Base.Num C11.Overload C09.Defs C09.Spec C09.Impl C09.GenSig C09.Thm.
From SVGen Require Import C09_Metric.
From SVGen Require C09_L0 C09_L1 C09_SqL2 C09_L2 C09_L1mL2 C09_SqL2Loss C09_SqL2AbsLoss C09_SqL2SqAbsLoss C09_Scaled C09_FSum C09_Zero.
Import ListNotations.

Section Tie.
  Context {K : Type} {NK : Num K}.
  Variable rt lg10 : K -> K.
  Local Notation cx := (cx (K:=K)).

  (** the library routines metric.py calls, as modelled in Impl.v *)
  #[local] Instance MS_impl : MetricSig K (list cx) (list K) := {|
    m_sub := vsub; m_abs := a_abs rt; m_sqr := fun a b => map2 kmul a b;
    m_mean := a_mean; m_var := a_var; m_log10 := lg10; m_norm := a_norm rt;
    m_amax := fun r => kmaxl (a_real r); m_amin := fun r => kminl (a_real r);
    m_max := kmax; m_ravelC := fun x => x; m_ravelR := fun x => x |}.

  Lemma map2_self (l : list K) : map2 kmul l l = a_sqr l.
  Proof. unfold a_sqr. induction l as [|a l IH]; cbn; [reflexivity | now rewrite IH]. Qed.

  (** the only non-syntactic step: the literal 10.0 *)
  Hypothesis ten : klit 10 1 = kofnat 10.

  Lemma gen_mae r c : mae_gen r c = mae_impl rt r c.
  Proof. reflexivity. Qed.
  Lemma gen_mse r c : mse_gen r c = mse_impl rt r c.
  Proof. unfold mse_gen, mse_impl. cbn [hmul HMul_mR m_sqr MS_impl ravel_ Ravel_mR m_ravelR]. now rewrite map2_self. Qed.
  Lemma gen_snr r c : snr_gen r c = snr_impl rt lg10 r c.
  Proof. unfold snr_gen, snr_impl. rewrite gen_mse, ten. reflexivity. Qed.
  Lemma gen_psnr range r c : psnr_gen__signal_range r c range = psnr_impl rt lg10 range r c.
  Proof. unfold psnr_gen__signal_range, psnr_impl. rewrite gen_mse, ten. reflexivity. Qed.
  Lemma gen_psnr_none r c : psnr_gen__none r c = psnr_impl rt lg10 (range_impl r) r c.
  Proof. unfold psnr_gen__none, psnr_impl. rewrite gen_mse, ten. reflexivity. Qed.
  Lemma gen_isnr r d s : isnr_gen r d s = isnr_impl rt lg10 r d s.
  Proof. unfold isnr_gen, isnr_impl. rewrite !gen_mse, ten. reflexivity. Qed.
  Lemma gen_bsnr b n : bsnr_gen b n = bsnr_impl lg10 b n.
  Proof. unfold bsnr_gen, bsnr_impl. rewrite ten. reflexivity. Qed.
  Lemma gen_relres ax b : rel_res_gen ax b = relres_impl rt ax b.
  Proof. reflexivity. Qed.
End Tie.

(** at the real instance the literal hypothesis is a fact *)
Lemma ten_R : @klit R _ 10 1 = kofnat 10.
Proof. cbn. lra. Qed.

Local Notation cxR := (cx (K:=R)).

(** source-generated metric.py = documented definition, for all arrays (over R) *)
Theorem gen_metric_spec (lg : R -> R) :
  (forall r c : list cxR, mae_gen (MS:=MS_impl sqrt lg) r c = mae_spec sqrt r c) /\
  (forall r c : list cxR, mse_gen (MS:=MS_impl sqrt lg) r c = mse_spec r c) /\
  (forall r c : list cxR, snr_gen (MS:=MS_impl sqrt lg) r c = snr_spec lg r c) /\
  (forall range (r c : list cxR), psnr_gen__signal_range (MS:=MS_impl sqrt lg) r c range = psnr_spec lg range r c) /\
  (forall r c : list cxR, psnr_gen__none (MS:=MS_impl sqrt lg) r c = psnr_spec lg (range_of r) r c) /\
  (forall r d s : list cxR, isnr_gen (MS:=MS_impl sqrt lg) r d s = isnr_spec lg r d s) /\
  (forall b n : list cxR, bsnr_gen (MS:=MS_impl sqrt lg) b n = bsnr_spec lg b n) /\
  (forall ax b : list cxR, rel_res_gen (MS:=MS_impl sqrt lg) ax b = relres_spec sqrt ax b).
Proof.
  split; [intros; exact (eq_trans (gen_mae sqrt lg r c) (mae_ok r c))|].
  split; [intros; exact (eq_trans (gen_mse sqrt lg r c) (mse_ok r c))|].
  split; [intros; exact (eq_trans (gen_snr sqrt lg ten_R r c) (snr_ok lg r c))|].
  split; [intros; exact (eq_trans (gen_psnr sqrt lg ten_R range r c) (psnr_ok lg range r c))|].
  split; [intros; refine (eq_trans (gen_psnr_none sqrt lg ten_R r c) _); rewrite psnr_range_ok; apply psnr_ok|].
  split; [intros; exact (eq_trans (gen_isnr sqrt lg ten_R r d s) (isnr_ok lg r d s))|].
  split; [intros; exact (eq_trans (gen_bsnr sqrt lg ten_R b n) (bsnr_ok lg b n))|].
  intros; exact (eq_trans (gen_relres sqrt lg ax b) (relres_ok ax b)).
Qed.

(** ... and at the executable instance [Qc] the correspondence check runs *)
Lemma ten_Qc : @klit Qc _ 10 1 = kofnat 10.
Proof. apply Qc_is_canon. vm_compute. reflexivity. Qed.

Local Notation cxQ := (cx (K:=Qc)).

(** the [*_impl] functions the harness executes against the implementation ARE the source-generated
    definitions, for every input (so a disagreement between scico and [*_impl] is a disagreement
    between scico's metric.py text and its own behaviour under the modelled array routines) *)
Theorem gen_metric_exec (rt lg : Qc -> Qc) :
  (forall r c : list cxQ, mae_impl rt r c = mae_gen (MS:=MS_impl rt lg) r c) /\
  (forall r c : list cxQ, mse_impl rt r c = mse_gen (MS:=MS_impl rt lg) r c) /\
  (forall r c : list cxQ, snr_impl rt lg r c = snr_gen (MS:=MS_impl rt lg) r c) /\
  (forall range (r c : list cxQ), psnr_impl rt lg range r c = psnr_gen__signal_range (MS:=MS_impl rt lg) r c range) /\
  (forall r c : list cxQ, psnr_impl rt lg (range_impl r) r c = psnr_gen__none (MS:=MS_impl rt lg) r c) /\
  (forall r d s : list cxQ, isnr_impl rt lg r d s = isnr_gen (MS:=MS_impl rt lg) r d s) /\
  (forall b n : list cxQ, bsnr_impl lg b n = bsnr_gen (MS:=MS_impl rt lg) b n) /\
  (forall ax b : list cxQ, relres_impl rt ax b = rel_res_gen (MS:=MS_impl rt lg) ax b).
Proof.
  split; [intros; exact (eq_sym (gen_mae rt lg r c))|].
  split; [intros; exact (eq_sym (gen_mse rt lg r c))|].
  split; [intros; exact (eq_sym (gen_snr rt lg ten_Qc r c))|].
  split; [intros; exact (eq_sym (gen_psnr rt lg ten_Qc range r c))|].
  split; [intros; exact (eq_sym (gen_psnr_none rt lg ten_Qc r c))|].
  split; [intros; exact (eq_sym (gen_isnr rt lg ten_Qc r d s))|].
  split; [intros; exact (eq_sym (gen_bsnr rt lg ten_Qc b n))|].
  intros; exact (eq_sym (gen_relres rt lg ax b)).
Qed.

(** ** scico/functional/_norm.py: the [__call__] methods regenerated from the source *)
Section NormTie.
  Context {K : Type} {NK : Num K}.
  Variable rt : K -> K.
  Local Notation cx := (cx (K:=K)).

  #[local] Instance NS_impl : NormSig K (list cx) (list K) := {|
    n_abs := a_abs rt; n_sqr := fun a b => map2 kmul a b; n_sum := a_sum; n_norm := a_norm rt;
    n_count := fun d => a_sum (map (fun z => if czerob z then k0 else k1) d) |}.

  Lemma gen_l0 d : C09_L0.call_gen d = l0_impl d.
  Proof. reflexivity. Qed.
  Lemma gen_l1 d : C09_L1.call_gen d = l1_impl rt d.
  Proof. reflexivity. Qed.
  Lemma gen_sql2 d : C09_SqL2.call_gen d = sql2_impl rt d.
  Proof. unfold C09_SqL2.call_gen, sql2_impl. cbn [hmul HMul_nR n_sqr NS_impl]. now rewrite map2_self. Qed.
  Lemma gen_l2 d : C09_L2.call_gen d = l2_impl rt d.
  Proof. reflexivity. Qed.
  Lemma gen_l1ml2 beta d : C09_L1mL2.call_gen (C09_L1mL2.mk_st beta) d = l1ml2_impl rt beta d.
  Proof. reflexivity. Qed.
End NormTie.

(** source-generated [__call__] = documented norm, for all arrays (over R) *)
Theorem gen_norm_spec :
  (forall d : list cxR, C09_L0.call_gen (NS:=NS_impl sqrt) d = l0_spec d) /\
  (forall d : list cxR, C09_L1.call_gen (NS:=NS_impl sqrt) d = l1_spec sqrt d) /\
  (forall d : list cxR, C09_SqL2.call_gen (NS:=NS_impl sqrt) d = sql2_spec d) /\
  (forall d : list cxR, C09_L2.call_gen (NS:=NS_impl sqrt) d = l2_spec sqrt d) /\
  (forall (beta : R) (d : list cxR), C09_L1mL2.call_gen (NS:=NS_impl sqrt) (C09_L1mL2.mk_st beta) d = l1ml2_spec sqrt beta d).
Proof.
  split; [intros; exact (eq_trans (gen_l0 sqrt d) (l0_ok d))|].
  split; [intros; exact (eq_trans (gen_l1 sqrt d) (l1_ok d))|].
  split; [intros; exact (eq_trans (gen_sql2 sqrt d) (sql2_ok d))|].
  split; [intros; exact (eq_trans (gen_l2 sqrt d) (l2_ok d))|].
  intros; exact (eq_trans (gen_l1ml2 sqrt beta d) (l1ml2_ok beta d)).
Qed.

(** and the executed [*_impl] functions are the generated ones (at Qc, for every input) *)
Theorem gen_norm_exec (rt : Qc -> Qc) :
  (forall d : list cxQ, l0_impl d = C09_L0.call_gen (NS:=NS_impl rt) d) /\
  (forall d : list cxQ, l1_impl rt d = C09_L1.call_gen (NS:=NS_impl rt) d) /\
  (forall d : list cxQ, sql2_impl rt d = C09_SqL2.call_gen (NS:=NS_impl rt) d) /\
  (forall d : list cxQ, l2_impl rt d = C09_L2.call_gen (NS:=NS_impl rt) d) /\
  (forall (beta : Qc) (d : list cxQ), l1ml2_impl rt beta d = C09_L1mL2.call_gen (NS:=NS_impl rt) (C09_L1mL2.mk_st beta) d).
Proof.
  split; [intros; exact (eq_sym (gen_l0 rt d))|].
  split; [intros; exact (eq_sym (gen_l1 rt d))|].
  split; [intros; exact (eq_sym (gen_sql2 rt d))|].
  split; [intros; exact (eq_sym (gen_l2 rt d))|].
  intros; exact (eq_sym (gen_l1ml2 rt beta d)).
Qed.

(** ** scico/loss.py: [__call__] of the three quadratic losses regenerated from the source
    ([A] an arbitrary forward map, [w] the diagonal of [W]) *)
Section LossTie.
  Context {K : Type} {NK : Num K}.
  Variable rt : K -> K.
  Local Notation cx := (cx (K:=K)).

  #[local] Instance LS_impl : LossSig (list cx) (list K) := {|
    l_sub := vsub; l_subR := fun y r => vsub y (map (@cofre K NK) r) |}.
  Local Existing Instance NS_impl.

  Lemma gen_sql2loss alpha w y A x :
    C09_SqL2Loss.call_gen (NS:=NS_impl rt) w (C09_SqL2Loss.mk_st alpha y A) x = sql2loss_impl rt alpha w y (A x).
  Proof. unfold C09_SqL2Loss.call_gen, sql2loss_impl, a_mul. cbn. now rewrite map2_self. Qed.
  Lemma gen_sql2abs alpha w y A x :
    C09_SqL2AbsLoss.call_gen (NS:=NS_impl rt) w (C09_SqL2AbsLoss.mk_st alpha y A) x = sql2abs_impl rt alpha w y (A x).
  Proof. unfold C09_SqL2AbsLoss.call_gen, sql2abs_impl, a_mul. cbn. now rewrite map2_self. Qed.
  Lemma gen_sql2sqabs alpha w y A x :
    C09_SqL2SqAbsLoss.call_gen (NS:=NS_impl rt) w (C09_SqL2SqAbsLoss.mk_st alpha y A) x = sql2sqabs_impl rt alpha w y (A x).
  Proof. unfold C09_SqL2SqAbsLoss.call_gen, sql2sqabs_impl, a_mul. cbn. now rewrite !map2_self. Qed.
End LossTie.

(** source-generated loss value = documented formula, for all data, weights, scales and forward maps (over R) *)
Theorem gen_loss_spec :
  (forall alpha (w : list R) (y : list cxR) (A : list cxR -> list cxR) x,
     C09_SqL2Loss.call_gen (NS:=NS_impl sqrt) (LS:=LS_impl) w (C09_SqL2Loss.mk_st alpha y A) x = sql2loss_spec alpha w y (A x)) /\
  (forall alpha (w : list R) (y : list cxR) (A : list cxR -> list cxR) x,
     C09_SqL2AbsLoss.call_gen (NS:=NS_impl sqrt) (LS:=LS_impl) w (C09_SqL2AbsLoss.mk_st alpha y A) x = sql2abs_spec sqrt alpha w y (A x)) /\
  (forall alpha (w : list R) (y : list cxR) (A : list cxR -> list cxR) x,
     C09_SqL2SqAbsLoss.call_gen (NS:=NS_impl sqrt) (LS:=LS_impl) w (C09_SqL2SqAbsLoss.mk_st alpha y A) x = sql2sqabs_spec alpha w y (A x)).
Proof.
  split; [intros; exact (eq_trans (gen_sql2loss sqrt alpha w y A x) (sql2loss_ok alpha w y (A x)))|].
  split; [intros; exact (eq_trans (gen_sql2abs sqrt alpha w y A x) (sql2abs_ok alpha w y (A x)))|].
  intros; exact (eq_trans (gen_sql2sqabs sqrt alpha w y A x) (sql2sqabs_ok alpha w y (A x))).
Qed.

Theorem gen_loss_exec (rt : Qc -> Qc) :
  (forall alpha (w : list Qc) (y : list cxQ) (A : list cxQ -> list cxQ) x,
     sql2loss_impl rt alpha w y (A x) = C09_SqL2Loss.call_gen (NS:=NS_impl rt) (LS:=LS_impl) w (C09_SqL2Loss.mk_st alpha y A) x) /\
  (forall alpha (w : list Qc) (y : list cxQ) (A : list cxQ -> list cxQ) x,
     sql2abs_impl rt alpha w y (A x) = C09_SqL2AbsLoss.call_gen (NS:=NS_impl rt) (LS:=LS_impl) w (C09_SqL2AbsLoss.mk_st alpha y A) x) /\
  (forall alpha (w : list Qc) (y : list cxQ) (A : list cxQ -> list cxQ) x,
     sql2sqabs_impl rt alpha w y (A x) = C09_SqL2SqAbsLoss.call_gen (NS:=NS_impl rt) (LS:=LS_impl) w (C09_SqL2SqAbsLoss.mk_st alpha y A) x).
Proof.
  split; [intros; exact (eq_sym (gen_sql2loss rt alpha w y A x))|].
  split; [intros; exact (eq_sym (gen_sql2abs rt alpha w y A x))|].
  intros; exact (eq_sym (gen_sql2sqabs rt alpha w y A x)).
Qed.

(** ** scico/functional/_functional.py: [__call__] of ScaledFunctional, FunctionalSum, ZeroFunctional
    regenerated from the source; the component functionals are arbitrary maps into extended values *)
Section ExtTie.
  Context {K : Type} {NK : Num K}.
  #[local] Instance ES_impl : ExtSig K (ext K) := {| e_scale := ext_scale; e_add := ext_add |}.

  Lemma gen_scaled (X : Type) c (f : X -> ext K) x :
    C09_Scaled.call_gen (C09_Scaled.mk_st c f) x = scaled_impl c (f x).
  Proof. reflexivity. Qed.
  Lemma gen_fsum (X : Type) (f g : X -> ext K) x :
    C09_FSum.call_gen (C09_FSum.mk_st f g) x = fsum_impl (f x) (g x).
  Proof. reflexivity. Qed.
  Lemma gen_zero (d : list (cx (K:=K))) : C09_Zero.call_gen d = zero_impl d.
  Proof. reflexivity. Qed.
End ExtTie.

Theorem gen_algebra_spec :
  (forall (X : Type) (c : R) (f : X -> ext R) x,
     C09_Scaled.call_gen (ES:=ES_impl) (C09_Scaled.mk_st c f) x = scaled_spec c (f x)) /\
  (forall (X : Type) (f g : X -> ext R) x,
     C09_FSum.call_gen (ES:=ES_impl) (C09_FSum.mk_st f g) x = fsum_spec (f x) (g x)) /\
  (forall d : list cxR, C09_Zero.call_gen d = zero_spec d).
Proof.
  split; [intros; exact (eq_trans (gen_scaled X c f x) (scaled_ok c (f x)))|].
  split; [intros; exact (eq_trans (gen_fsum X f g x) (fsum_ok (f x) (g x)))|].
  intros; exact (eq_trans (gen_zero d) (zero_ok d)).
Qed.

Theorem gen_algebra_exec :
  (forall (X : Type) (c : Qc) (f : X -> ext Qc) x,
     scaled_impl c (f x) = C09_Scaled.call_gen (ES:=ES_impl) (C09_Scaled.mk_st c f) x) /\
  (forall (X : Type) (f g : X -> ext Qc) x,
     fsum_impl (f x) (g x) = C09_FSum.call_gen (ES:=ES_impl) (C09_FSum.mk_st f g) x) /\
  (forall d : list cxQ, zero_impl d = C09_Zero.call_gen d).
Proof.
  split; [intros; exact (eq_sym (gen_scaled X c f x))|].
  split; [intros; exact (eq_sym (gen_fsum X f g x))|].
  intros; exact (eq_sym (gen_zero d)).
Qed.
