(** C09 -- signature the source-generated scico/metric.py (coq/gen/C09_Metric.v, written by
    tools/py2coq.py on every run) is generic over.  [C]: (complex) arrays the metrics receive,
    [R]: the real arrays [snp.abs] returns, [K]: Python floats.  The fields are exactly the
    library routines metric.py calls; their meaning is fixed by the instance in C09/Gen.v
    (the array operations of C09/Impl.v). *)
From SV Require Import Base.Num C11.Overload.

Class HAbs (A B : Type) := habs : A -> B.             (* snp.abs *)
#[global] Hint Mode HAbs ! - : typeclass_instances.
Class Ravel (A : Type) := ravel_ : A -> A.            (* x.ravel() *)
#[global] Hint Mode Ravel ! : typeclass_instances.

Class MetricSig (K C R : Type) := {
  m_sub : C -> C -> C;          (* reference - comparison *)
  m_abs : C -> R;               (* snp.abs on an array *)
  m_sqr : R -> R -> R;          (* r ** 2, emitted as r * r *)
  m_mean : R -> K;              (* snp.mean *)
  m_var : C -> K;               (* snp.var *)
  m_log10 : K -> K;             (* snp.log10 *)
  m_norm : C -> K;              (* snp.linalg.norm *)
  m_amax : C -> K;              (* snp.max(reference) *)
  m_amin : C -> K;              (* snp.min(reference) *)
  m_max : K -> K -> K;          (* builtin max *)
  m_ravelC : C -> C;            (* .ravel(): flat data already *)
  m_ravelR : R -> R;
}.

Section Instances.
  Context {K C R : Type} {NK : Num K} {MS : MetricSig K C R}.
  #[global] Instance HSub_mC : HSub C C C := m_sub.
  #[global] Instance HMul_mR : HMul R R R := m_sqr.
  #[global] Instance HAbs_mC : HAbs C R := m_abs.
  #[global] Instance HAbs_mK : HAbs K K := kabs.
  #[global] Instance Ravel_mC : Ravel C := m_ravelC.
  #[global] Instance Ravel_mR : Ravel R := m_ravelR.
End Instances.

(** signature of the [__call__] methods of scico/functional/_norm.py (coq/gen/C09_{L0,L1,SqL2,L2,L1mL2}.v) *)
Class NormSig (K C R : Type) := {
  n_abs : C -> R;               (* snp.abs *)
  n_sqr : R -> R -> R;          (* r ** 2, emitted as r * r *)
  n_sum : R -> K;               (* snp.sum *)
  n_norm : C -> K;              (* norm / snp.linalg.norm *)
  n_count : C -> K;             (* count_nonzero *)
}.

Section NormInstances.
  Context {K C R : Type} {NK : Num K} {NS : NormSig K C R}.
  #[global] Instance HAbs_nC : HAbs C R := n_abs.
  #[global] Instance HMul_nR : HMul R R R := n_sqr.
End NormInstances.

(** extra operations of the quadratic losses of scico/loss.py (coq/gen/C09_SqL2*Loss.v) *)
Class LossSig (C R : Type) := {
  l_sub : C -> C -> C;          (* self.y - self.A(x) *)
  l_subR : C -> R -> C;         (* self.y - snp.abs(...): a real array subtracted from the (complex) data *)
}.
Section LossInstances.
  Context {C R : Type} {LS : LossSig C R}.
  #[global] Instance HSub_lC : HSub C C C := l_sub.
  #[global] Instance HSub_lR : HSub C R C := l_subR.
End LossInstances.

(** extended values ([+inf] allowed) of the functional algebra of _functional.py (coq/gen/C09_{Scaled,FSum,Zero}.v) *)
Class ExtSig (K E : Type) := {
  e_scale : K -> E -> E;        (* self.scale * self.functional(x) *)
  e_add : E -> E -> E;          (* self.functional1(x) + self.functional2(x) *)
}.
Section ExtInstances.
  Context {K E : Type} {ES : ExtSig K E}.
  #[global] Instance HMul_eK : HMul K E E := e_scale.
  #[global] Instance HAdd_eE : HAdd E E E := e_add.
End ExtInstances.
