(** C09 layer B -- how the code computes each [__call__] / metric: the sequence of array
    operations, modelled on flat data (shape-dependent steps go through [Defs.groups] /
    [Defs.on_axis], the axis semantics of numpy reductions / [diff] along an axis).

    Library behaviour used (jax 0.4.33):
    - [snp.abs] = modulus, [**2] = elementwise square, [snp.sum] with no axis on a block array
      = sum of the concatenation of the ravelled blocks ([add_full_reduction]), same for
      [count_nonzero], [any], [linalg.norm];
    - [jnp.linalg.norm(x)] (ord None) = sqrt (sum (real (x * conj x)));
    - [jnp.var] = sum (real (c * conj c)) / N  with  c = x - mean x;  [jnp.mean] = sum / N;
    - [jax.lax.cond p a b] = if p then a else b. *)
From Coq Require Import List Bool Arith.
From SV Require Import Base.Num C09.Defs C09.Spec.
Import ListNotations.

Set Implicit Arguments.

Section Impl.
  Context {K : Type} {NK : Num K}.
  Variable rt : K -> K.
  Variable lg10 : K -> K.
  Variable ln : K -> K.
  Variable lgam : K -> K.
  Variable svd : arr (K:=K) -> list K.
  Local Open Scope num_scope.
  Local Notation cx := (cx (K:=K)).
  Local Notation arr := (arr (K:=K)).

  (** array operations *)
  Definition a_abs (d : list cx) : list K := map (cmod rt) d.          (* snp.abs *)
  Definition a_sqr (l : list K) : list K := map (fun a => a * a) l.    (* ** 2 *)
  Definition a_rabs (l : list K) : list K := map kabs l.               (* snp.abs on reals *)
  Definition a_sqrt (l : list K) : list K := map rt l.                 (* snp.sqrt *)
  Definition a_mul (l1 l2 : list K) : list K := map2 kmul l1 l2.
  Definition a_sum (l : list K) : K := ksum l.                         (* snp.sum *)
  Definition a_mean (l : list K) : K := ksum l / klen l.               (* snp.mean *)
  Definition a_real (d : list cx) : list K := map (@cre K) d.
  Definition a_norm (d : list cx) : K :=                               (* linalg.norm *)
    rt (a_sum (map (fun z => cre (cmul z (cconj z))) d)).
  Definition a_var (d : list cx) : K :=                                (* snp.var *)
    let mu := cscale (kinv (klen d)) (csum d) in
    a_sum (map (fun z => let c := csub z mu in cre (cmul c (cconj c))) d) / klen d.

  (** *** _functional.py: ZeroFunctional.__call__ returns 0.0 *)
  Definition zero_impl (d : list cx) : K := k0.

  (** *** _norm.py *)
  (* count_nonzero(x) = sum (x != 0) *)
  Definition l0_impl (d : list cx) : K := a_sum (map (fun z => if czerob z then k0 else k1) d).
  (* snp.sum(snp.abs(x)) *)
  Definition l1_impl (d : list cx) : K := a_sum (a_abs d).
  (* snp.sum(snp.abs(x) ** 2) *)
  Definition sql2_impl (d : list cx) : K := a_sum (a_sqr (a_abs d)).
  (* norm(x) *)
  Definition l2_impl (d : list cx) : K := a_norm d.
  (* l2 = sqrt((abs(x)**2).sum(axis=l2_axis)); sum(abs(l2)) *)
  Definition l21_impl_groups (gs : list (list cx)) : K :=
    a_sum (a_rabs (a_sqrt (map (fun g => a_sum (a_sqr (a_abs g))) gs))).
  Definition l21_impl (axes : list nat) (a : arr) : K :=
    l21_impl_groups (groups (ashape a) axes (adata a)).
  (* block array, l2_axis None: BlockArray.sum maps over the blocks *)
  Definition l21_block_impl (blocks : list arr) : K := l21_impl_groups (map (@adata K) blocks).
  (* snp.sum(snp.abs(x)) - self.beta * norm(x) *)
  Definition l1ml2_impl (beta : K) (d : list cx) : K := a_sum (a_abs d) - beta * a_norm d.
  (* xabs = abs(x); where(xabs <= delta, 0.5*xabs**2, delta*(xabs - delta/2.0)); sum *)
  Definition huber_sep_impl (delta : K) (d : list cx) : K :=
    a_sum (map (fun xa => if xa <=? delta then khalf * (xa * xa) else delta * (xa - delta / k2))
               (a_abs d)).
  (* xl2 = norm(x); cond(xl2 <= delta, 0.5*xl2**2, delta*(xl2 - delta/2.0)) *)
  Definition huber_nonsep_impl (delta : K) (d : list cx) : K :=
    let xl2 := a_norm d in
    if xl2 <=? delta then khalf * (xl2 * xl2) else delta * (xl2 - delta / k2).
  (* snp.sum(svd(x, compute_uv=False)) *)
  Definition nuclear_impl (a : arr) : K := a_sum (svd a).

  (** *** _indicator.py *)
  (* cond(any(x < 0), inf, 0.0) *)
  Definition nonneg_impl (d : list cx) : ext K :=
    if existsb (fun z => cre z <? k0) d then PInf else Fin k0.
  (* cond(norm(x) > radius, inf, 0.0) *)
  Definition l2ball_impl (r : K) (d : list cx) : ext K :=
    if r <? a_norm d then PInf else Fin k0.

  (** *** _dist.py *)
  Definition setdist_impl (proj : list cx -> list cx) (d : list cx) : K := a_norm (vsub d (proj d)).
  Definition sqsetdist_impl (proj : list cx -> list cx) (d : list cx) : K :=
    let n := a_norm (vsub d (proj d)) in khalf * (n * n).

  (** *** _functional.py, _proxavg.py *)
  Definition scaled_impl (c : K) (f : ext K) : ext K := ext_scale c f.
  Definition fsum_impl (f g : ext K) : ext K := ext_add f g.
  (* len check, then snp.sum(snp.array([fi(xi) ...])); None models the ValueError *)
  Definition separable_impl (A : Type) (fs : list (A -> ext K)) (xs : list A) : option (ext K) :=
    if Nat.eqb (length xs) (length fs)
    then Some (ext_sum (map (fun p => fst p (snd p)) (combine fs xs)))
    else None.
  (* __init__: alpha_sum = sum(alpha_list); if alpha_sum != 1.0: alpha / alpha_sum *)
  Definition proxavg_alphas (alphas : list K) : list K :=
    let s := ksum alphas in
    if s =? k1 then alphas else map (fun a => a / s) alphas.
  (* default: [1.0 / N] * N *)
  Definition proxavg_default_alphas (n : nat) : list K := repeat (k1 / kofnat n) n.
  (* [alpha * f(x) ...]; filter(not isinf); sum *)
  Definition proxavg_call (no_inf : bool) (alpha_list : list K) (vals : list (ext K)) : ext K :=
    let w := map (fun p => ext_scale (fst p) (snd p)) (combine alpha_list vals) in
    ext_sum (if no_inf then filter (fun v => negb (ext_isinf v)) w else w).
  Definition proxavg_impl (no_inf : bool) (alphas : list K) (vals : list (ext K)) : ext K :=
    proxavg_call no_inf (proxavg_alphas alphas) vals.

  (** *** loss.py ([ax] = A(x) already evaluated) *)
  (* self.scale * self.f(self.A(x) - self.y) *)
  Definition loss_impl (f : list cx -> ext K) (alpha : K) (y ax : list cx) : ext K :=
    ext_scale alpha (f (vsub ax y)).
  (* self.scale * snp.sum(self.W.diagonal * snp.abs(self.y - self.A(x)) ** 2) *)
  Definition sql2loss_impl (alpha : K) (w : list K) (y ax : list cx) : K :=
    alpha * a_sum (a_mul w (a_sqr (a_abs (vsub y ax)))).
  (* Ax = A(x); scale * sum(Ax - y * log(Ax) + gammaln(y + 1.0)) *)
  Definition poisson_impl (alpha : K) (y ax : list cx) : K :=
    alpha * a_sum (map2 (fun yi ai => cre ai - cre yi * ln (cre ai) + lgam (cre yi + k1)) y ax).
  (* scale * sum(W * abs(y - abs(Ax)) ** 2) *)
  Definition sql2abs_impl (alpha : K) (w : list K) (y ax : list cx) : K :=
    alpha * a_sum (a_mul w (a_sqr (a_abs (vsub y (map (@cofre K NK) (a_abs ax)))))).
  (* scale * sum(W * abs(y - abs(Ax) ** 2) ** 2) *)
  Definition sql2sqabs_impl (alpha : K) (w : list K) (y ax : list cx) : K :=
    alpha * a_sum (a_mul w (a_sqr (a_abs (vsub y (map (@cofre K NK) (a_sqr (a_abs ax))))))).

  (** *** _tvnorm.py: norm(G @ x), G = FiniteDifference(axes, circular, append = None/0)
      SingleAxisFiniteDifference._eval: snp.diff(x, axis, append = first slab (circular) or
      last slab (append=0)); VerticalStack stacks the results on a new axis 0. *)
  Definition adjdiff (l : list cx) : list cx := map2 (@csub K NK) (tl l) l.     (* np.diff *)
  Definition diff_impl (circ : bool) (x : list cx) : list cx :=
    adjdiff (x ++ [if circ then hd c0 x else last x c0]).
  Definition G_axis (circ : bool) (shape : list nat) (k : nat) (d : list cx) : list cx :=
    on_axis (diff_impl circ) shape k d.
  Definition G_stack (circ : bool) (axes : list nat) (a : arr) : arr :=
    mkarr (length axes :: ashape a)
          (concat (map (fun k => G_axis circ (ashape a) k (adata a)) axes)).
  Definition tv_impl (nrm : arr -> K) (circ : bool) (axes : list nat) (a : arr) : K :=
    nrm (G_stack circ axes a).
  Definition atv_impl := tv_impl (fun a => l1_impl (adata a)).
  Definition itv_impl := tv_impl (l21_impl [0]).

  (** *** metric.py *)
  Definition mae_impl (r c : list cx) : K := a_mean (a_abs (vsub r c)).
  Definition mse_impl (r c : list cx) : K := a_mean (a_sqr (a_abs (vsub r c))).
  Definition snr_impl (r c : list cx) : K := kofnat 10 * lg10 (a_var r / mse_impl r c).
  Definition range_impl (r : list cx) : K := kabs (kmaxl (a_real r) - kminl (a_real r)).
  Definition psnr_impl (range : K) (r c : list cx) : K :=
    kofnat 10 * lg10 (range * range / mse_impl r c).
  Definition isnr_impl (r deg rst : list cx) : K :=
    kofnat 10 * lg10 (mse_impl r deg / mse_impl r rst).
  Definition bsnr_impl (blurry noisy : list cx) : K :=
    kofnat 10 * lg10 (a_var blurry / a_var (vsub noisy blurry)).
  Definition relres_impl (ax b : list cx) : K :=
    let nrm := kmax (a_norm ax) (a_norm b) in
    if nrm =? k0 then k0 else a_norm (vsub b ax) / nrm.
End Impl.
