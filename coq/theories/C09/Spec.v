(** C09 layer A -- the DOCUMENTED formula of every functional, loss and metric, transcribed
    from the docstrings of scico/functional/*.py, scico/loss.py, scico/metric.py and
    docs/source/include/functional.rst.  Nothing here looks at how the code computes.

    Notes on the documentation:
    - [L1Norm]'s docstring reads  ||x||_1 = sum_i |x_i|^2 ; the exponent is an obvious typo
      (the same formula is given for [SquaredL2Norm]); the standard definition
      sum_i |x_i| is used.
    - [scico.metric] gives names, not formulas, for mae/mse/snr/psnr/isnr/bsnr; the standard
      definitions are used (mean absolute error, mean squared error, 10 log10 of
      var(ref)/mse, range^2/mse, mse(ref,deg)/mse(ref,rst), var(blurry)/var(noisy-blurry));
      [rel_res] is documented: ||b - Ax|| / max(||Ax||, ||b||), and 0 when both vanish.
    - [Loss]: "If defined, the loss function is alpha f(y - A(x))". *)
From Coq Require Import List Bool Arith.
From SV Require Import Base.Num C09.Defs.
Import ListNotations.

Set Implicit Arguments.

Section Spec.
  Context {K : Type} {NK : Num K}.
  Variable rt : K -> K.          (* square root *)
  Variable lg10 : K -> K.        (* log10   (metrics) *)
  Variable ln : K -> K.          (* natural logarithm (PoissonLoss) *)
  Variable lgam : K -> K.        (* gammaln (PoissonLoss: log(y!) = gammaln(y+1)) *)
  Variable svd : arr (K:=K) -> list K.  (* singular values of a 2-d array *)
  Local Open Scope num_scope.
  Local Notation cx := (cx (K:=K)).
  Local Notation arr := (arr (K:=K)).
  Local Notation cmod := (cmod rt).

  (** *** norms (flat data: the value does not depend on the shape) *)
  (** ZeroFunctional: f(x) = 0 for any input *)
  Definition zero_spec (d : list cx) : K := k0.
  (** l0: number of non-zero elements *)
  Definition l0_spec (d : list cx) : K := kofnat (length (filter (fun z => negb (czerob z)) d)).
  (** l1: sum_i |x_i| *)
  Definition l1_spec (d : list cx) : K := ksum (map cmod d).
  (** squared l2: sum_i |x_i|^2   (no factor 1/2 in the documentation) *)
  Definition sql2_spec (d : list cx) : K := sumsq d.
  (** l2: sqrt (sum_i |x_i|^2) *)
  Definition l2_spec (d : list cx) : K := rt (sumsq d).
  (** l2,1: l2 norm along [axes], then the sum over all remaining axes:
      sum_n sqrt (sum_m |A_{m,n}|^2) *)
  Definition l21_of_groups (gs : list (list cx)) : K := ksum (map (fun g => rt (sumsq g)) gs).
  Definition l21_spec (axes : list nat) (a : arr) : K :=
    l21_of_groups (groups (ashape a) axes (adata a)).
  (** block arrays (l2_axis = None): "the l2 norm is computed over each block" *)
  Definition l21_block_spec (blocks : list arr) : K := l21_of_groups (map (@adata K) blocks).
  (** ||x||_1 - beta ||x||_2 *)
  Definition l1ml2_spec (beta : K) (d : list cx) : K := l1_spec d - beta * l2_spec d.
  (** Huber *)
  Definition huber_h (delta a : K) : K :=
    if a <=? delta then khalf * (a * a) else delta * (a - delta / k2).
  Definition huber_sep_spec (delta : K) (d : list cx) : K :=
    ksum (map (fun z => huber_h delta (cmod z)) d).
  Definition huber_nonsep_spec (delta : K) (d : list cx) : K :=
    if l2_spec d <=? delta then khalf * sumsq d else delta * (l2_spec d - delta / k2).
  (** nuclear norm: sum of the singular values *)
  Definition nuclear_spec (a : arr) : K := ksum (svd a).

  (** *** indicators *)
  (** 0 if x_i >= 0 for all i, +inf otherwise (real arrays) *)
  Definition nonneg_spec (d : list cx) : ext K :=
    if forallb (fun z => k0 <=? cre z) d then Fin k0 else PInf.
  (** 0 if ||x||_2 <= r, +inf otherwise *)
  Definition l2ball_spec (r : K) (d : list cx) : ext K :=
    if l2_spec d <=? r then Fin k0 else PInf.
  (** the same set without a square root (executable exactly; [Thm.l2ball_spec_exec]) *)
  Definition l2ball_exec (r : K) (d : list cx) : ext K :=
    if (k0 <=? r) && (sumsq d <=? r * r) then Fin k0 else PInf.

  (** *** distances to a set given its projection [proj] *)
  Definition setdist_spec (proj : list cx -> list cx) (d : list cx) : K :=
    rt (sumsq (vsub d (proj d))).
  Definition sqsetdist_spec (proj : list cx -> list cx) (d : list cx) : K :=
    khalf * sumsq (vsub d (proj d)).

  (** *** functional calculus *)
  Definition scaled_spec (c : K) (f : ext K) : ext K := ext_scale c f.       (* c f(x) *)
  Definition fsum_spec (f g : ext K) : ext K := ext_add f g.                 (* f(x) + g(x) *)
  (** f(x) = f_1(x_1) + ... + f_N(x_N) *)
  Definition separable_spec (A : Type) (fs : list (A -> ext K)) (xs : list A) : ext K :=
    ext_sum (map2 (fun f x => f x) fs xs).
  (** weighted average, weights scaled so that they sum to one; with [no_inf_eval] infinite
      values are excluded from the sum *)
  Definition proxavg_spec (no_inf : bool) (alphas : list K) (vals : list (ext K)) : ext K :=
    let s := ksum alphas in
    let terms := map2 (fun a v => ext_scale (a / s) v) alphas vals in
    ext_sum (if no_inf then filter (fun v => negb (ext_isinf v)) terms else terms).

  (** *** losses  (A x is passed already evaluated: [ax]) *)
  (** alpha f(y - A(x)) *)
  Definition loss_spec (f : list cx -> ext K) (alpha : K) (y ax : list cx) : ext K :=
    ext_scale alpha (f (vsub y ax)).
  (** alpha (y - Ax)^H W (y - Ax), W diagonal with real entries [w] *)
  Definition sql2loss_spec (alpha : K) (w : list K) (y ax : list cx) : K :=
    let r := vsub y ax in
    alpha * cre (csum (map2 (fun wi ri => cmul (cconj ri) (cscale wi ri)) w r)).
  (** alpha sum_i ([Ax]_i - y_i log [Ax]_i + log(y_i !)) *)
  Definition poisson_spec (alpha : K) (y ax : list cx) : K :=
    alpha * ksum (map2 (fun yi ai => cre ai - cre yi * ln (cre ai) + lgam (cre yi + k1)) y ax).
  (** alpha (y - |Ax|)^T W (y - |Ax|) *)
  Definition sql2abs_spec (alpha : K) (w : list K) (y ax : list cx) : K :=
    sql2loss_spec alpha w y (map (fun z => cofre (cmod z)) ax).
  (** alpha (y - |Ax|^2)^T W (y - |Ax|^2) *)
  Definition sql2sqabs_spec (alpha : K) (w : list K) (y ax : list cx) : K :=
    sql2loss_spec alpha w y (map (fun z => cofre (cabs2 z)) ax).

  (** *** total variation: the stated norm of the finite differences.
      Documented difference matrix along one axis of length N (SingleAxisFiniteDifference):
      rows  -e_i + e_{i+1}; circular: the last row is e_0 - e_{N-1};
      append=0 (TVNorm with circular=False): the last row is zero. *)
  Definition dentry (circ : bool) (N i j : nat) : K :=
    if negb circ && Nat.eqb (S i) N then k0
    else (if Nat.eqb j (Nat.modulo (S i) N) then k1 else k0) - (if Nat.eqb j i then k1 else k0).
  Definition drow (circ : bool) (N i : nat) : list K := map (dentry circ N i) (seq 0 N).
  Definition dmat_apply (circ : bool) (x : list cx) : list cx :=
    map (fun i => rdot (drow circ (length x) i) x) (seq 0 (length x)).
  (** D along axis [k] of an array; the differences for the requested axes stacked on a new
      leading axis (FiniteDifference = VerticalStack of the single-axis operators) *)
  Definition D_axis (circ : bool) (shape : list nat) (k : nat) (d : list cx) : list cx :=
    on_axis (dmat_apply circ) shape k d.
  Definition D_stack (circ : bool) (axes : list nat) (a : arr) : arr :=
    mkarr (length axes :: ashape a)
          (concat (map (fun k => D_axis circ (ashape a) k (adata a)) axes)).
  (** anisotropic: l1 norm of D x; isotropic: l2,1 norm of D x, l2 over the stacking axis;
      generic TVNorm: any norm of D x *)
  Definition tv_spec (nrm : arr -> K) (circ : bool) (axes : list nat) (a : arr) : K :=
    nrm (D_stack circ axes a).
  Definition atv_spec := tv_spec (fun a => l1_spec (adata a)).
  Definition itv_spec := tv_spec (l21_spec [0]).

  (** *** metrics *)
  Definition mae_spec (r c : list cx) : K := kmean (map cmod (vsub r c)).
  Definition mse_spec (r c : list cx) : K := kmean (map (@cabs2 K NK) (vsub r c)).
  Definition db (ratio : K) : K := kofnat 10 * lg10 ratio.
  Definition snr_spec (r c : list cx) : K := db (var r / mse_spec r c).
  Definition psnr_spec (range : K) (r c : list cx) : K := db (range * range / mse_spec r c).
  (** default signal range: max - min of the (real) reference *)
  Definition range_of (r : list cx) : K :=
    kabs (kmaxl (map (@cre K) r) - kminl (map (@cre K) r)).
  Definition isnr_spec (r deg rst : list cx) : K := db (mse_spec r deg / mse_spec r rst).
  Definition bsnr_spec (blurry noisy : list cx) : K := db (var blurry / var (vsub noisy blurry)).
  Definition relres_spec (ax b : list cx) : K :=
    let nrm := kmax (l2_spec ax) (l2_spec b) in
    if nrm =? k0 then k0 else l2_spec (vsub b ax) / nrm.
End Spec.
