(** C09 -- theorems: the Impl layer equals the Spec layer, for all inputs / sizes / parameters,
    at the real instance ([rt := sqrt]); indicator facts with their transfer to [Qc]. *)
From Coq Require Import List Bool Arith Reals Lra Lia QArith Qcanon FinFun.
From SV Require Import Base.Num C09.Defs C09.Spec C09.Impl.
Import ListNotations.
Open Scope R_scope.

Ltac rsimp := cbn [k0 k1 kadd kmul kopp ksub kinv kdiv kleb keqb Num_R fst snd] in *.

Local Notation cxR := (cx (K:=R)).
Local Notation arrR := (arr (K:=R)).

(** ** scalars, complex numbers *)
Lemma kabs_R a : kabs a = Rabs a.
Proof.
  unfold kabs; rsimp. unfold Rabs. destruct (Rcase_abs a); rcases; lra.
Qed.

Lemma cabs2_nonneg (z : cxR) : 0 <= cabs2 z.
Proof.
  unfold cabs2; rsimp. pose proof (Rle_0_sqr (fst z)) as H1. pose proof (Rle_0_sqr (snd z)) as H2.
  unfold Rsqr in *. lra.
Qed.

Lemma sumsq_nonneg (d : list cxR) : 0 <= sumsq d.
Proof.
  unfold sumsq, ksum. induction d as [|z d IH]; cbn [map fold_right]; rsimp; [lra|].
  pose proof (cabs2_nonneg z). lra.
Qed.

(** the modulus of Defs is the modulus *)
Lemma cmod_R (z : cxR) : cmod sqrt z = sqrt (cabs2 z).
Proof.
  unfold cmod, cabs2; rsimp. rcases; [|reflexivity].
  rewrite Heq, Rmult_0_r, Rplus_0_r, kabs_R.
  symmetry. apply sqrt_Rsqr_abs.
Qed.

Lemma cmod_nonneg (z : cxR) : 0 <= cmod sqrt z.
Proof. rewrite cmod_R. apply sqrt_pos. Qed.

Lemma cmod_sq (z : cxR) : cmod sqrt z * cmod sqrt z = cabs2 z.
Proof. rewrite cmod_R. apply sqrt_sqrt, cabs2_nonneg. Qed.

Lemma re_mul_conj (z : cxR) : cre (cmul z (cconj z)) = cabs2 z.
Proof. unfold cre, cmul, cconj, cabs2; rsimp. ring. Qed.

Lemma ksum_app (a b : list R) : ksum (a ++ b) = ksum a + ksum b.
Proof.
  unfold ksum. induction a as [|x a IH]; cbn [app fold_right]; rsimp; [lra|].
  rewrite IH. lra.
Qed.

Lemma ksum_map_ext (A : Type) (f g : A -> R) l :
  (forall x, f x = g x) -> ksum (map f l) = ksum (map g l).
Proof. intros E. f_equal. apply map_ext. exact E. Qed.

(** ** _norm.py *)
Theorem l0_ok (d : list cxR) : l0_impl d = l0_spec d.
Proof.
  unfold l0_impl, l0_spec, a_sum, ksum.
  induction d as [|z d IH]; cbn [map filter fold_right length kofnat]; [reflexivity|].
  destruct (czerob z); cbn [negb length kofnat]; rsimp; rewrite IH; lra.
Qed.

Theorem l1_ok (d : list cxR) : l1_impl sqrt d = l1_spec sqrt d.
Proof. reflexivity. Qed.

Lemma sqr_abs_sumsq (d : list cxR) : a_sum (a_sqr (a_abs sqrt d)) = sumsq d.
Proof.
  unfold a_sum, a_sqr, a_abs, sumsq. rewrite map_map.
  apply ksum_map_ext. intros z. rsimp. apply cmod_sq.
Qed.

Theorem sql2_ok (d : list cxR) : sql2_impl sqrt d = sql2_spec d.
Proof. apply sqr_abs_sumsq. Qed.

Lemma a_norm_ok (d : list cxR) : a_norm sqrt d = l2_spec sqrt d.
Proof.
  unfold a_norm, l2_spec, a_sum, sumsq. f_equal.
  apply ksum_map_ext. apply re_mul_conj.
Qed.

Theorem l2_ok (d : list cxR) : l2_impl sqrt d = l2_spec sqrt d.
Proof. apply a_norm_ok. Qed.

Lemma l21_groups_ok (gs : list (list cxR)) : l21_impl_groups sqrt gs = l21_of_groups sqrt gs.
Proof.
  unfold l21_impl_groups, l21_of_groups, a_sum, a_rabs, a_sqrt. rewrite !map_map.
  apply ksum_map_ext. intros g.
  change (ksum (a_sqr (a_abs sqrt g))) with (a_sum (a_sqr (a_abs sqrt g))).
  rewrite sqr_abs_sumsq, kabs_R. apply Rabs_pos_eq, sqrt_pos.
Qed.

(** every [l2_axis] (any list of axes), every shape *)
Theorem l21_ok (axes : list nat) (a : arrR) : l21_impl sqrt axes a = l21_spec sqrt axes a.
Proof. apply l21_groups_ok. Qed.

(** block arrays with l2_axis = None: the documented block-wise rule *)
Theorem l21_block_ok (blocks : list arrR) : l21_block_impl sqrt blocks = l21_block_spec sqrt blocks.
Proof. apply l21_groups_ok. Qed.

Theorem l21_block_is_sum_of_block_l2 (blocks : list arrR) :
  l21_block_spec sqrt blocks = ksum (map (fun b => l2_spec sqrt (adata b)) blocks).
Proof. unfold l21_block_spec, l21_of_groups. rewrite map_map. reflexivity. Qed.

Theorem l1ml2_ok beta (d : list cxR) : l1ml2_impl sqrt beta d = l1ml2_spec sqrt beta d.
Proof. unfold l1ml2_impl, l1ml2_spec. rewrite a_norm_ok. reflexivity. Qed.

Theorem huber_sep_ok delta (d : list cxR) : huber_sep_impl sqrt delta d = huber_sep_spec sqrt delta d.
Proof. unfold huber_sep_impl, huber_sep_spec, a_sum, a_abs. rewrite map_map. reflexivity. Qed.

Theorem huber_nonsep_ok delta (d : list cxR) :
  huber_nonsep_impl sqrt delta d = huber_nonsep_spec sqrt delta d.
Proof.
  unfold huber_nonsep_impl, huber_nonsep_spec. rewrite a_norm_ok.
  destruct (kleb (l2_spec sqrt d) delta); [|reflexivity].
  unfold l2_spec. rsimp. rewrite sqrt_sqrt by apply sumsq_nonneg. reflexivity.
Qed.

(** Huber at the threshold: both branches agree, so the value at |x| = delta is delta^2/2 *)
Theorem huber_tie delta : 0 <= delta -> huber_h delta delta = delta * delta / 2
                                        /\ delta * (delta - delta / k2) = delta * delta / 2.
Proof.
  intros Hd. unfold huber_h, khalf, k2. rsimp. split.
  - rcases; lra.
  - lra.
Qed.

Theorem nuclear_ok svd (a : arrR) : nuclear_impl svd a = nuclear_spec svd a.
Proof. reflexivity. Qed.

(** ** _indicator.py *)
Section AnyK.
  Context {K : Type} {NK : Num K}.
  Theorem nonneg_ok (d : list (cx (K:=K))) : nonneg_impl d = nonneg_spec d.
  Proof.
    unfold nonneg_impl, nonneg_spec.
    induction d as [|z d IH]; cbn [existsb forallb]; [reflexivity|].
    unfold kltb at 1. destruct (kleb k0 (cre z)); cbn [negb orb andb]; [exact IH|reflexivity].
  Qed.

  Theorem nonneg_range (d : list (cx (K:=K))) : nonneg_spec d = Fin k0 \/ nonneg_spec d = PInf.
  Proof. unfold nonneg_spec. destruct (forallb _ d); auto. Qed.

  Theorem l2ball_range rt r (d : list (cx (K:=K))) :
    l2ball_spec rt r d = Fin k0 \/ l2ball_spec rt r d = PInf.
  Proof. unfold l2ball_spec. destruct (kleb _ r); auto. Qed.

  Theorem l2ball_exec_range r (d : list (cx (K:=K))) :
    l2ball_exec r d = Fin k0 \/ l2ball_exec r d = PInf.
  Proof. unfold l2ball_exec. destruct (_ && _)%bool; auto. Qed.
End AnyK.

Theorem nonneg_zero_iff (d : list cxR) :
  nonneg_spec d = Fin 0 <-> Forall (fun z => 0 <= cre z) d.
Proof.
  unfold nonneg_spec. rsimp.
  destruct (forallb (fun z : cxR => R_leb 0 (cre z)) d) eqn:E.
  - split; [intros _|reflexivity]. rewrite forallb_forall in E.
    apply Forall_forall. intros z Hz. apply R_leb_true. apply E. exact Hz.
  - split; [discriminate|]. intros HF. exfalso.
    assert (forallb (fun z : cxR => R_leb 0 (cre z)) d = true); [|congruence].
    apply forallb_forall. intros z Hz. apply R_leb_true.
    rewrite Forall_forall in HF. apply HF. exact Hz.
Qed.

Theorem l2ball_ok r (d : list cxR) : l2ball_impl sqrt r d = l2ball_spec sqrt r d.
Proof.
  unfold l2ball_impl, l2ball_spec, kltb. rewrite a_norm_ok.
  destruct (kleb (l2_spec sqrt d) r); reflexivity.
Qed.

Theorem l2ball_zero_iff r (d : list cxR) :
  l2ball_spec sqrt r d = Fin 0 <-> sqrt (sumsq d) <= r.
Proof.
  unfold l2ball_spec, l2_spec. rsimp. rcases; split; intros; try reflexivity; try discriminate; lra.
Qed.

(** the boundary ||x|| = r belongs to the set *)
Theorem l2ball_boundary r (d : list cxR) : sqrt (sumsq d) = r -> l2ball_spec sqrt r d = Fin 0.
Proof. intros E. apply l2ball_zero_iff. lra. Qed.

Lemma sqrt_le_iff s r : 0 <= s -> (sqrt s <= r <-> 0 <= r /\ s <= r * r).
Proof.
  intros Hs. split.
  - intros H. pose proof (sqrt_pos s) as Hp. split; [lra|].
    rewrite <- (sqrt_sqrt s Hs). nra.
  - intros [Hr H]. rewrite <- (sqrt_square r Hr). apply sqrt_le_1_alt. exact H.
Qed.

(** the square-root-free form run at [Qc] decides the same set *)
Theorem l2ball_spec_exec r (d : list cxR) : l2ball_spec sqrt r d = l2ball_exec r d.
Proof.
  unfold l2ball_spec, l2ball_exec, l2_spec. rsimp.
  pose proof (sqrt_le_iff (sumsq d) r (sumsq_nonneg d)) as [H1 H2].
  rcases; cbn [andb]; try reflexivity; exfalso;
    try (destruct (H1 ltac:(assumption)); lra);
    try (assert (sqrt (sumsq d) <= r) by (apply H2; split; lra); lra).
Qed.

(** *** transfer to the executable instance *)
Definition injc (z : cx (K:=Qc)) : cxR := (inj (fst z), inj (snd z)).

Lemma inj_ksum (l : list Qc) : inj (ksum l) = ksum (map inj l).
Proof.
  unfold ksum. induction l as [|a l IH]; cbn [map fold_right].
  - apply inj_0.
  - cbn [kadd k0 Num_Qc Num_R] in *. rewrite inj_add, IH. reflexivity.
Qed.

Lemma inj_sumsq (d : list (cx (K:=Qc))) : inj (sumsq d) = sumsq (map injc d).
Proof.
  unfold sumsq. rewrite inj_ksum, !map_map. f_equal. apply map_ext. intros z.
  unfold cabs2, injc. inj_push. reflexivity.
Qed.

Lemma forallb_map' (A B : Type) (f : B -> bool) (g : A -> B) l :
  forallb f (map g l) = forallb (fun x => f (g x)) l.
Proof. induction l as [|a l IH]; cbn [map forallb]; [reflexivity|]. rewrite IH. reflexivity. Qed.
Lemma forallb_ext' (A : Type) (f g : A -> bool) l :
  (forall x, f x = g x) -> forallb f l = forallb g l.
Proof. intros E. induction l as [|a l IH]; cbn [forallb]; [reflexivity|]. rewrite IH, E. reflexivity. Qed.

Theorem nonneg_transfer (d : list (cx (K:=Qc))) :
  nonneg_spec d = Fin 0%Qc <-> nonneg_spec (map injc d) = Fin 0.
Proof.
  unfold nonneg_spec. rewrite forallb_map'.
  assert (E : forallb (fun z : cx (K:=Qc) => kleb k0 (cre z)) d
              = forallb (fun z => kleb k0 (cre (injc z))) d).
  { apply forallb_ext'. intros z. unfold cre, injc. cbn [fst kleb k0 Num_Qc Num_R].
    rewrite inj_leb, inj_0. reflexivity. }
  rewrite E. clear E. destruct (forallb _ d); split; intros HH; try reflexivity; try discriminate HH; try (exfalso; congruence).
Qed.

Theorem l2ball_transfer r (d : list (cx (K:=Qc))) :
  l2ball_exec r d = Fin 0%Qc <-> l2ball_exec (inj r) (map injc d) = Fin 0.
Proof.
  unfold l2ball_exec. rewrite <- inj_sumsq.
  cbn [k0 kleb kmul Num_Qc Num_R].
  rewrite <- inj_mul, <- inj_0, <- !inj_leb.
  destruct (Qc_leb 0 r && Qc_leb (sumsq d) (r * r)%Qc)%bool; split; intros HH; try reflexivity; try discriminate HH; try (exfalso; congruence).
Qed.

(** the executed indicator is 0 exactly on the real ball *)
Corollary l2ball_exec_Qc_iff r (d : list (cx (K:=Qc))) :
  l2ball_exec r d = Fin 0%Qc <-> sqrt (sumsq (map injc d)) <= inj r.
Proof. rewrite l2ball_transfer, <- l2ball_spec_exec. apply l2ball_zero_iff. Qed.

(** ** _dist.py *)
Theorem setdist_ok proj (d : list cxR) : setdist_impl sqrt proj d = setdist_spec sqrt proj d.
Proof. unfold setdist_impl, setdist_spec. apply a_norm_ok. Qed.

Theorem sqsetdist_ok proj (d : list cxR) : sqsetdist_impl sqrt proj d = sqsetdist_spec proj d.
Proof.
  unfold sqsetdist_impl, sqsetdist_spec. rewrite a_norm_ok. unfold l2_spec. rsimp.
  rewrite sqrt_sqrt by apply sumsq_nonneg. reflexivity.
Qed.

(** ** functional calculus *)
Theorem scaled_ok c (v : ext R) : scaled_impl c v = scaled_spec c v.
Proof. reflexivity. Qed.
Theorem scaled_fin c a : scaled_impl c (Fin a) = Fin (c * a).
Proof. reflexivity. Qed.
Theorem fsum_ok (u v : ext R) : fsum_impl u v = fsum_spec u v.
Proof. reflexivity. Qed.
Theorem fsum_fin a b : fsum_impl (Fin a) (Fin b) = Fin (a + b).
Proof. reflexivity. Qed.

Lemma map_combine_map2 (A B C : Type) (f : A -> B -> C) l1 l2 :
  map (fun p => f (fst p) (snd p)) (combine l1 l2) = map2 f l1 l2.
Proof.
  revert l2. induction l1 as [|a l1 IH]; intros [|b l2]; cbn [combine map map2 fst snd]; try reflexivity.
  rewrite IH. reflexivity.
Qed.

Theorem separable_ok (A : Type) (fs : list (A -> ext R)) (xs : list A) :
  length xs = length fs -> separable_impl fs xs = Some (separable_spec fs xs).
Proof.
  intros E. unfold separable_impl, separable_spec. rewrite E, Nat.eqb_refl.
  rewrite (map_combine_map2 _ _ _ (fun f x => f x)). reflexivity.
Qed.

Theorem separable_mismatch (A : Type) (fs : list (A -> ext R)) (xs : list A) :
  length xs <> length fs -> separable_impl fs xs = None.
Proof.
  intros E. unfold separable_impl. apply Nat.eqb_neq in E. rewrite E. reflexivity.
Qed.

Lemma ext_scale_ext c1 c2 (v : ext R) : c1 = c2 -> ext_scale c1 v = ext_scale c2 v.
Proof. intros ->. reflexivity. Qed.

Lemma scale_map2_one (s : R) al (vals : list (ext R)) :
  s = 1 -> map2 (fun a v => ext_scale a v) al vals = map2 (fun a v => ext_scale (a / s) v) al vals.
Proof.
  intros Hs. revert vals. induction al as [|a al IH]; intros [|v vl]; cbn [map2]; try reflexivity.
  rewrite IH. f_equal. apply ext_scale_ext. rewrite Hs. field.
Qed.
Lemma scale_map2_div (s : R) al (vals : list (ext R)) :
  map2 (fun a v => ext_scale a v) (map (fun a => a / s) al) vals
  = map2 (fun a v => ext_scale (a / s) v) al vals.
Proof.
  revert vals. induction al as [|a al IH]; intros [|v vl]; cbn [map map2]; try reflexivity.
  rewrite IH. reflexivity.
Qed.

Theorem proxavg_ok no_inf (alphas : list R) (vals : list (ext R)) :
  proxavg_impl no_inf alphas vals = proxavg_spec no_inf alphas vals.
Proof.
  unfold proxavg_impl, proxavg_spec, proxavg_call, proxavg_alphas.
  rewrite (map_combine_map2 _ _ _ (fun a v => ext_scale a v)).
  rsimp. rcases.
  - rewrite (scale_map2_one (ksum alphas)) by exact Heq. reflexivity.
  - rewrite scale_map2_div. reflexivity.
Qed.

Lemma ksum_repeat_1 n : ksum (repeat (k1 : R) n) = kofnat n.
Proof. unfold ksum. induction n as [|n IH]; cbn [repeat fold_right kofnat]; [reflexivity|]. rewrite IH. reflexivity. Qed.

(** default weights [1/N]*N = equal weights summing to one *)
Theorem proxavg_default_ok no_inf n (vals : list (ext R)) :
  proxavg_call no_inf (proxavg_default_alphas n) vals = proxavg_spec no_inf (repeat k1 n) vals.
Proof.
  unfold proxavg_call, proxavg_spec, proxavg_default_alphas. rewrite ksum_repeat_1.
  rewrite (map_combine_map2 _ _ _ (fun a v => ext_scale a v)).
  assert (E : forall m (vl : list (ext R)),
             map2 (fun a v => ext_scale a v) (repeat (kdiv k1 (kofnat n)) m) vl
             = map2 (fun a v => ext_scale (kdiv a (kofnat n)) v) (repeat k1 m) vl).
  { induction m as [|m IH]; intros [|v vl]; cbn [repeat map2]; try reflexivity. rewrite IH. reflexivity. }
  rewrite E. reflexivity.
Qed.

(** ** loss.py *)
Definition cneg (z : cxR) : cxR := (- fst z, - snd z).

Lemma vsub_antisym (x y : list cxR) : vsub x y = map cneg (vsub y x).
Proof.
  unfold vsub. revert y. induction x as [|a x IH]; intros [|b y]; cbn [map2 map]; try reflexivity.
  rewrite IH. f_equal. unfold csub, cneg; rsimp. f_equal; lra.
Qed.

(** the code evaluates f(Ax - y), the documentation says f(y - Ax): equal for even f *)
Theorem loss_ok_even (f : list cxR -> ext R) alpha y ax :
  (forall v, f (map cneg v) = f v) -> loss_impl f alpha y ax = loss_spec f alpha y ax.
Proof.
  intros Hev. unfold loss_impl, loss_spec. rewrite (vsub_antisym ax y), Hev. reflexivity.
Qed.

Lemma cre_csum_cons (a : cxR) l : cre (csum (a :: l)) = cre a + cre (csum l).
Proof. reflexivity. Qed.

Theorem sql2loss_ok alpha (w : list R) (y ax : list cxR) :
  sql2loss_impl sqrt alpha w y ax = sql2loss_spec alpha w y ax.
Proof.
  unfold sql2loss_impl, sql2loss_spec. f_equal.
  generalize (vsub y ax) as r. clear. intros r. revert r.
  induction w as [|wi w IH]; intros [|ri r]; try reflexivity.
  unfold a_mul, a_sqr, a_abs, a_sum, ksum in *. cbn [map map2 fold_right].
  rewrite cre_csum_cons, <- IH. rsimp. rewrite cmod_sq.
  unfold cre, cmul, cconj, cscale, cabs2; rsimp. ring.
Qed.

Theorem poisson_ok ln lgam alpha (y ax : list cxR) :
  poisson_impl ln lgam alpha y ax = poisson_spec ln lgam alpha y ax.
Proof. reflexivity. Qed.

Theorem sql2abs_ok alpha (w : list R) (y ax : list cxR) :
  sql2abs_impl sqrt alpha w y ax = sql2abs_spec sqrt alpha w y ax.
Proof.
  unfold sql2abs_impl, sql2abs_spec. rewrite <- sql2loss_ok. unfold sql2loss_impl, a_abs at 2.
  rewrite map_map. reflexivity.
Qed.

Theorem sql2sqabs_ok alpha (w : list R) (y ax : list cxR) :
  sql2sqabs_impl sqrt alpha w y ax = sql2sqabs_spec alpha w y ax.
Proof.
  unfold sql2sqabs_impl, sql2sqabs_spec. rewrite <- sql2loss_ok. unfold sql2loss_impl.
  do 6 f_equal. unfold a_sqr, a_abs. rewrite !map_map. apply map_ext. intros z.
  rsimp. rewrite cmod_sq. reflexivity.
Qed.

(** ** metric.py *)
Theorem mae_ok (r c : list cxR) : mae_impl sqrt r c = mae_spec sqrt r c.
Proof. reflexivity. Qed.

Theorem mse_ok (r c : list cxR) : mse_impl sqrt r c = mse_spec r c.
Proof.
  unfold mse_impl, mse_spec, a_mean, kmean, klen.
  replace (length (a_sqr (a_abs sqrt (vsub r c)))) with (length (map (@cabs2 R _) (vsub r c)))
    by (unfold a_sqr, a_abs; rewrite !map_length; reflexivity).
  f_equal. apply sqr_abs_sumsq.
Qed.

Lemma var_ok (d : list cxR) : a_var d = var d.
Proof.
  unfold a_var, var, kmean, cmean, a_sum, klen. rewrite map_length. f_equal.
  apply ksum_map_ext. intros z. apply re_mul_conj.
Qed.

Theorem snr_ok lg (r c : list cxR) : snr_impl sqrt lg r c = snr_spec lg r c.
Proof. unfold snr_impl, snr_spec, db. rewrite var_ok, mse_ok. reflexivity. Qed.

Theorem psnr_ok lg range (r c : list cxR) : psnr_impl sqrt lg range r c = psnr_spec lg range r c.
Proof. unfold psnr_impl, psnr_spec, db. rewrite mse_ok. reflexivity. Qed.

Theorem psnr_range_ok (r : list cxR) : range_impl r = range_of r.
Proof. reflexivity. Qed.

Theorem isnr_ok lg (r deg rst : list cxR) : isnr_impl sqrt lg r deg rst = isnr_spec lg r deg rst.
Proof. unfold isnr_impl, isnr_spec, db. rewrite !mse_ok. reflexivity. Qed.

Theorem bsnr_ok lg (b n : list cxR) : bsnr_impl lg b n = bsnr_spec lg b n.
Proof. unfold bsnr_impl, bsnr_spec, db. rewrite !var_ok. reflexivity. Qed.

Theorem relres_ok (ax b : list cxR) : relres_impl sqrt ax b = relres_spec sqrt ax b.
Proof. unfold relres_impl, relres_spec. rewrite !a_norm_ok. reflexivity. Qed.

(** rel_res = 0 when both norms vanish *)
Theorem relres_zero (ax b : list cxR) :
  l2_spec sqrt ax = 0 -> l2_spec sqrt b = 0 -> relres_spec sqrt ax b = 0.
Proof.
  intros E1 E2. unfold relres_spec. rewrite E1, E2. unfold kmax. rsimp.
  rcases; try reflexivity; lra.
Qed.

(** ** block arrays: the code maps the element-wise steps over the blocks and reduces the
    concatenation of the ravelled blocks; the value is the Spec on the concatenation. *)
Section Blocks.
  Variable blocks : list arrR.
  Let bd := map (@adata R) blocks.

  (* snp.sum(snp.abs(x)): abs per block, then full reduction *)
  Theorem l1_block : a_sum (concat (map (a_abs sqrt) bd)) = l1_spec sqrt (flat blocks).
  Proof. unfold a_abs, l1_spec, flat. fold bd. rewrite <- concat_map. reflexivity. Qed.

  Theorem sql2_block : a_sum (concat (map (fun b => a_sqr (a_abs sqrt b)) bd)) = sql2_spec (flat blocks).
  Proof.
    unfold sql2_spec, flat. fold bd. rewrite <- sqr_abs_sumsq. unfold a_sqr, a_abs.
    rewrite !concat_map, map_map. reflexivity.
  Qed.

  Theorem l0_block :
    a_sum (concat (map (map (fun z : cxR => if czerob z then k0 else k1)) bd)) = l0_spec (flat blocks).
  Proof. rewrite <- l0_ok. unfold l0_impl, flat. fold bd. rewrite <- concat_map. reflexivity. Qed.

  (* norm(x) concatenates first *)
  Theorem l2_block : a_norm sqrt (concat bd) = l2_spec sqrt (flat blocks).
  Proof. apply a_norm_ok. Qed.

  Theorem huber_sep_block delta :
    a_sum (concat (map (fun b => map (fun xa => if kleb xa delta then khalf * (xa * xa)
                                               else delta * (xa - delta / k2)) (a_abs sqrt b)) bd))
    = huber_sep_spec sqrt delta (flat blocks).
  Proof.
    rewrite <- huber_sep_ok. unfold huber_sep_impl, flat, a_abs. fold bd.
    rewrite !concat_map, !map_map. reflexivity.
  Qed.

  (* any(x < 0): comparison per block, any over the concatenation *)
  Theorem nonneg_block :
    (if existsb (fun b : bool => b) (concat (map (map (fun z : cxR => kltb (cre z) k0)) bd))
     then PInf else Fin k0) = nonneg_spec (flat blocks).
  Proof.
    rewrite <- nonneg_ok. unfold nonneg_impl, flat. fold bd. rewrite <- concat_map.
    replace (existsb (fun b : bool => b) (map (fun z : cxR => kltb (cre z) k0) (concat bd)))
      with (existsb (fun z : cxR => kltb (cre z) k0) (concat bd)); [reflexivity|].
    generalize (concat bd). intros l. induction l as [|z l IH]; cbn [map existsb]; [reflexivity|].
    rewrite IH. reflexivity.
  Qed.
End Blocks.

(** ** _tvnorm.py: the code's differences (np.diff with the first / last slab appended) are
    the documented difference matrix applied along the axis. *)
Lemma csub_self (z : cxR) : csub z z = c0.
Proof. unfold csub, c0; rsimp. f_equal; lra. Qed.

Lemma rdot_nil_r (row : list R) : rdot row (@nil cxR) = c0.
Proof. destruct row; reflexivity. Qed.

Lemma rdot_cons (a : R) row (z : cxR) x : rdot (a :: row) (z :: x) = cadd (cscale a z) (rdot row x).
Proof. reflexivity. Qed.

Lemma rdot_delta (x : list cxR) : forall s a,
  rdot (map (fun j => if Nat.eqb j a then 1 else 0) (seq s (length x))) x
  = if (Nat.leb s a && Nat.ltb a (s + length x))%bool then nth (a - s) x c0 else c0.
Proof.
  induction x as [|z x IH]; intros s a.
  - cbn [length seq map]. rewrite rdot_nil_r, Nat.add_0_r.
    destruct (Nat.leb s a) eqn:E1, (Nat.ltb a s) eqn:E2; cbn [andb]; try reflexivity.
    apply Nat.leb_le in E1. apply Nat.ltb_lt in E2. lia.
  - cbn [length seq map]. rewrite rdot_cons, IH.
    destruct (Nat.eqb s a) eqn:Es.
    + apply Nat.eqb_eq in Es. subst a.
      assert (H1 : Nat.leb (S s) s = false) by (apply Nat.leb_gt; lia).
      assert (H2 : Nat.leb s s = true) by (apply Nat.leb_le; lia).
      assert (H3 : Nat.ltb s (s + S (length x)) = true) by (apply Nat.ltb_lt; lia).
      rewrite H1, H2, H3, Nat.sub_diag. cbn [andb nth].
      unfold cadd, cscale, c0; rsimp. destruct z as [u v]; cbn [fst snd]. f_equal; lra.
    + apply Nat.eqb_neq in Es.
      destruct (Nat.leb (S s) a) eqn:E1.
      * apply Nat.leb_le in E1.
        assert (H2 : Nat.leb s a = true) by (apply Nat.leb_le; lia).
        rewrite H2. cbn [andb].
        replace (Nat.ltb a (s + S (length x))) with (Nat.ltb a (S s + length x))
          by (f_equal; lia).
        destruct (Nat.ltb a (S s + length x)).
        -- replace (a - s)%nat with (S (a - S s)) by lia. cbn [nth].
           unfold cadd, cscale, c0; rsimp. destruct (nth (a - S s) x (0, 0)) as [u v]; cbn [fst snd].
           f_equal; lra.
        -- unfold cadd, cscale, c0; rsimp. f_equal; lra.
      * apply Nat.leb_gt in E1.
        assert (H2 : Nat.leb s a = false) by (apply Nat.leb_gt; lia).
        rewrite H2. cbn [andb]. unfold cadd, cscale, c0; rsimp. f_equal; lra.
Qed.

Lemma rdot_sub (e1 e2 : nat -> R) l : forall (x : list cxR),
  rdot (map (fun j => e1 j - e2 j) l) x = csub (rdot (map e1 l) x) (rdot (map e2 l) x).
Proof.
  induction l as [|j l IH]; intros [|z x]; cbn [map]; rewrite ?rdot_nil_r;
    try (unfold csub, c0; rsimp; f_equal; lra).
  - unfold rdot. cbn [map2 csum fold_right]. unfold csub, c0; rsimp. f_equal; lra.
  - rewrite !rdot_cons, IH. unfold csub, cadd, cscale; rsimp. f_equal; ring.
Qed.

Lemma rdot_zero l : forall (x : list cxR), rdot (map (fun _ : nat => 0) l) x = c0.
Proof.
  induction l as [|j l IH]; intros [|z x]; cbn [map]; rewrite ?rdot_nil_r; try reflexivity.
  rewrite rdot_cons, IH. unfold cadd, cscale, c0; rsimp. f_equal; lra.
Qed.

(** entry i of D x, from the documented rows *)
Lemma dmat_entry circ (x : list cxR) i : (i < length x)%nat ->
  rdot (drow circ (length x) i) x
  = if (negb circ && Nat.eqb (S i) (length x))%bool then c0
    else csub (nth (Nat.modulo (S i) (length x)) x c0) (nth i x c0).
Proof.
  intros Hi. unfold drow, dentry.
  destruct (negb circ && Nat.eqb (S i) (length x))%bool eqn:E.
  - apply rdot_zero.
  - rsimp. rewrite (rdot_sub (fun j => if Nat.eqb j (Nat.modulo (S i) (length x)) then 1 else 0)
                             (fun j => if Nat.eqb j i then 1 else 0)).
    rewrite !rdot_delta.
    assert (Hm : (Nat.modulo (S i) (length x) < length x)%nat) by (apply Nat.mod_upper_bound; lia).
    replace (Nat.ltb (Nat.modulo (S i) (length x)) (0 + length x)) with true
      by (symmetry; apply Nat.ltb_lt; lia).
    replace (Nat.ltb i (0 + length x)) with true by (symmetry; apply Nat.ltb_lt; lia).
    replace (Nat.leb 0 (Nat.modulo (S i) (length x))) with true by (symmetry; apply Nat.leb_le; lia).
    replace (Nat.leb 0 i) with true by (symmetry; apply Nat.leb_le; lia).
    cbn [andb]. rewrite !Nat.sub_0_r. reflexivity.
Qed.

Lemma adjdiff_length (l : list cxR) : length (adjdiff l) = (length l - 1)%nat.
Proof.
  unfold adjdiff. destruct l as [|a l]; [reflexivity|]. cbn [tl length]. replace (S (length l) - 1)%nat with (length l) by lia.
  revert a. induction l as [|b l IH]; intros a; [reflexivity|].
  cbn [map2 length]. rewrite IH. reflexivity.
Qed.

Lemma adjdiff_nth (l : list cxR) i : (S i < length l)%nat ->
  nth i (adjdiff l) c0 = csub (nth (S i) l c0) (nth i l c0).
Proof.
  unfold adjdiff. revert i. destruct l as [|a l]; cbn [length]; [lia|]. cbn [tl].
  revert a. induction l as [|b l IH]; intros a i Hi; cbn [length] in Hi; [lia|].
  destruct i as [|i]; [reflexivity|].
  cbn [map2]. change (nth (S i) (csub b a :: map2 (@csub R _) l (b :: l)) c0)
    with (nth i (map2 (@csub R _) l (b :: l)) c0).
  rewrite IH by (cbn [length]; lia). reflexivity.
Qed.

Lemma last_nth (x : list cxR) : last x c0 = nth (length x - 1) x c0.
Proof.
  induction x as [|a x IH]; [reflexivity|]. destruct x as [|b x]; [reflexivity|].
  change (last (a :: b :: x) c0) with (last (b :: x) c0). rewrite IH.
  cbn [length]. replace (S (S (length x)) - 1)%nat with (S (length x)) by lia.
  replace (S (length x) - 1)%nat with (length x) by lia. reflexivity.
Qed.

Lemma nth_map_seq (F : nat -> cxR) N i : (i < N)%nat -> nth i (map F (seq 0 N)) c0 = F i.
Proof.
  intros Hi. rewrite nth_indep with (d' := F 0%nat) by (rewrite map_length, seq_length; lia).
  rewrite map_nth, seq_nth by lia. reflexivity.
Qed.

(** 1-d: for every vector (every length), circular or append=0 *)
Theorem diff_is_D circ (x : list cxR) : diff_impl circ x = dmat_apply circ x.
Proof.
  unfold dmat_apply.
  apply (nth_ext _ _ c0 c0).
  - unfold diff_impl. rewrite adjdiff_length, app_length, map_length, seq_length. cbn [length]. lia.
  - intros i Hi. unfold diff_impl in *.
    rewrite adjdiff_length, app_length in Hi. cbn [length] in Hi.
    assert (Hi' : (i < length x)%nat) by lia.
    rewrite adjdiff_nth by (rewrite app_length; cbn [length]; lia).
    rewrite (nth_map_seq (fun i => rdot (drow circ (length x) i) x)) by exact Hi'.
    rewrite dmat_entry by exact Hi'.
    rewrite (app_nth1 x _ c0 Hi').
    destruct (Nat.eqb (S i) (length x)) eqn:E.
    + apply Nat.eqb_eq in E.
      rewrite app_nth2 by lia. replace (S i - length x)%nat with 0%nat by lia. cbn [nth].
      rewrite E, Nat.mod_same by lia.
      destruct circ; cbn [negb andb].
      * destruct x; reflexivity.
      * rewrite last_nth. replace (length x - 1)%nat with i by lia. apply csub_self.
    + apply Nat.eqb_neq in E. rewrite Bool.andb_false_r.
      rewrite app_nth1 by lia. rewrite Nat.mod_small by lia. reflexivity.
Qed.

Lemma on_axis_ext f g shape k (d : list cxR) :
  (forall v, f v = g v) -> on_axis f shape k d = on_axis g shape k d.
Proof.
  intros E. unfold on_axis. apply flat_map_ext. intros o. apply flat_map_ext. intros i.
  apply map_ext. intros r. rewrite E. reflexivity.
Qed.

(** nd: G (code) = D (documented matrix along each requested axis), any shape, any axes *)
Theorem G_is_D circ axes (a : arrR) : G_stack circ axes a = D_stack circ axes a.
Proof.
  unfold G_stack, D_stack, G_axis, D_axis. f_equal. f_equal. apply map_ext. intros k.
  apply on_axis_ext. apply diff_is_D.
Qed.

Theorem tv_ok (ni ns : arrR -> R) circ axes a :
  (forall b, ni b = ns b) -> tv_impl ni circ axes a = tv_spec ns circ axes a.
Proof. intros E. unfold tv_impl, tv_spec. rewrite G_is_D. apply E. Qed.

Theorem atv_ok circ axes (a : arrR) : atv_impl sqrt circ axes a = atv_spec sqrt circ axes a.
Proof. apply tv_ok. intros b. apply l1_ok. Qed.

Theorem itv_ok circ axes (a : arrR) : itv_impl sqrt circ axes a = itv_spec sqrt circ axes a.
Proof. apply tv_ok. intros b. apply l21_ok. Qed.

(** ** bundled statements used by Properties/C09.v *)
Theorem fsum_full (u v : ext R) a b :
  fsum_impl u v = fsum_spec u v /\ fsum_impl (Fin a) (Fin b) = Fin (a + b) /\
  fsum_impl PInf v = PInf /\ fsum_impl u PInf = PInf.
Proof. repeat split; try reflexivity. destruct u; reflexivity. Qed.

Theorem block_values (blocks : list arrR) delta :
  let bd := map (@adata R) blocks in
  a_sum (concat (map (map (fun z : cxR => if czerob z then k0 else k1)) bd)) = l0_spec (flat blocks) /\
  a_sum (concat (map (a_abs sqrt) bd)) = l1_spec sqrt (flat blocks) /\
  a_sum (concat (map (fun b => a_sqr (a_abs sqrt b)) bd)) = sql2_spec (flat blocks) /\
  a_norm sqrt (concat bd) = l2_spec sqrt (flat blocks) /\
  a_sum (concat (map (fun b => map (fun xa => if kleb xa delta then khalf * (xa * xa)
                                              else delta * (xa - delta / k2)) (a_abs sqrt b)) bd))
    = huber_sep_spec sqrt delta (flat blocks) /\
  (if existsb (fun b : bool => b) (concat (map (map (fun z : cxR => kltb (cre z) k0)) bd))
   then PInf else Fin k0) = nonneg_spec (flat blocks).
Proof.
  intros bd. repeat split.
  - apply l0_block. - apply l1_block. - apply sql2_block. - apply l2_block.
  - apply huber_sep_block. - apply nonneg_block.
Qed.

(** ** l2_axis = None on an array (all axes reduced): a single group, the whole array *)
Lemma in_axes_seq n k : (k < n)%nat -> in_axes (seq 0 n) k = true.
Proof.
  intros Hk. unfold in_axes. apply existsb_exists. exists k. split.
  - apply in_seq. lia.
  - apply Nat.eqb_refl.
Qed.

Lemma mask_all_gen n (idx : list nat) : forall s, (s + length idx <= n)%nat ->
  map (fun p : nat * nat => if in_axes (seq 0 n) (fst p) then 0%nat else snd p)
      (combine (seq s (length idx)) idx) = repeat 0%nat (length idx).
Proof.
  induction idx as [|i idx IH]; intros s Hs; [reflexivity|].
  cbn [length] in *. cbn [seq combine map repeat fst snd].
  rewrite in_axes_seq by lia. rewrite IH by lia. reflexivity.
Qed.

Lemma mask_all n idx : length idx = n -> mask (seq 0 n) idx = repeat 0%nat n.
Proof. intros E. subst n. unfold mask. apply mask_all_gen. lia. Qed.

Lemma rshape_all_gen n (shape : list nat) : forall s, (s + length shape <= n)%nat ->
  map (fun p : nat * nat => if in_axes (seq 0 n) (fst p) then 1%nat else snd p)
      (combine (seq s (length shape)) shape) = repeat 1%nat (length shape).
Proof.
  induction shape as [|i shape IH]; intros s Hs; [reflexivity|].
  cbn [length] in *. cbn [seq combine map repeat fst snd].
  rewrite in_axes_seq by lia. rewrite IH by lia. reflexivity.
Qed.

Lemma idxs_ones n : idxs (repeat 1%nat n) = [repeat 0%nat n].
Proof.
  induction n as [|n IH]; [reflexivity|].
  cbn [repeat idxs seq flat_map]. rewrite IH. reflexivity.
Qed.

Lemma idxs_each shape : forall idx, In idx (idxs shape) -> length idx = length shape.
Proof.
  induction shape as [|n s IH]; intros idx Hin.
  - cbn [idxs] in Hin. destruct Hin as [<-|[]]. reflexivity.
  - cbn [idxs] in Hin. apply in_flat_map in Hin. destruct Hin as [i [_ Hin]].
    apply in_map_iff in Hin. destruct Hin as [t [<- Ht]]. cbn [length]. rewrite (IH t Ht). reflexivity.
Qed.

Lemma flat_map_length_const (A B : Type) (f : A -> list B) m l :
  (forall a, length (f a) = m) -> length (flat_map f l) = (length l * m)%nat.
Proof.
  intros E. induction l as [|a l IH]; [reflexivity|].
  cbn [flat_map length]. rewrite app_length, IH, E. lia.
Qed.

Lemma idxs_length shape : length (idxs shape) = prod shape.
Proof.
  induction shape as [|n s IH]; [reflexivity|].
  cbn [idxs prod fold_right].
  rewrite (flat_map_length_const _ _ _ (prod s)).
  - rewrite seq_length. reflexivity.
  - intros a. rewrite map_length. exact IH.
Qed.

Lemma nl_eqb_refl l : nl_eqb l l = true.
Proof. induction l as [|a l IH]; [reflexivity|]. cbn [nl_eqb]. rewrite Nat.eqb_refl, IH. reflexivity. Qed.

Lemma filter_all (A : Type) (f : A -> bool) l : (forall x, In x l -> f x = true) -> filter f l = l.
Proof.
  induction l as [|a l IH]; intros H; [reflexivity|].
  cbn [filter]. rewrite (H a (or_introl eq_refl)). rewrite IH; [reflexivity|].
  intros x Hx. apply H. right. exact Hx.
Qed.

Lemma map_snd_combine (A B : Type) (l : list A) : forall (d : list B),
  length l = length d -> map snd (combine l d) = d.
Proof.
  induction l as [|a l IH]; intros [|b d] E; cbn [length] in E; try reflexivity; try discriminate E.
  cbn [combine map snd]. rewrite IH by lia. reflexivity.
Qed.

Lemma groups_all_axes (A : Type) shape (d : list A) :
  length d = prod shape -> groups shape (all_axes shape) d = [d].
Proof.
  intros E. unfold groups, all_axes, rshape.
  rewrite (rshape_all_gen (length shape) shape 0) by lia.
  rewrite idxs_ones. cbn [map]. f_equal.
  rewrite filter_all.
  - apply map_snd_combine. rewrite map_length, idxs_length. symmetry. exact E.
  - intros [k v] Hin. cbn [fst]. apply in_combine_l in Hin. apply in_map_iff in Hin.
    destruct Hin as [idx [<- Hidx]]. rewrite mask_all by (apply idxs_each; exact Hidx).
    apply nl_eqb_refl.
Qed.

Theorem l21_all_axes (a : arrR) :
  length (adata a) = prod (ashape a) ->
  l21_spec sqrt (all_axes (ashape a)) a = l2_spec sqrt (adata a).
Proof.
  intros E. unfold l21_spec. rewrite groups_all_axes by exact E.
  unfold l21_of_groups, l2_spec, ksum. cbn [map fold_right]. rsimp. lra.
Qed.

Theorem zero_ok (d : list cxR) : zero_impl d = zero_spec d.
Proof. reflexivity. Qed.

(** ** reduction over the leading axis of a stack of slabs: the groups are the columns *)
Lemma in_axes_0 k : in_axes [0%nat] (S k) = false.
Proof. reflexivity. Qed.

Lemma mask0_tail (t : list nat) : forall s,
  map (fun p : nat * nat => if in_axes [0%nat] (fst p) then 0%nat else snd p)
      (combine (seq (S s) (length t)) t) = t.
Proof.
  induction t as [|i t IH]; intros s; [reflexivity|].
  cbn [length seq combine map fst snd]. rewrite in_axes_0, IH. reflexivity.
Qed.

Lemma mask0_cons i t : mask [0%nat] (i :: t) = 0%nat :: t.
Proof. unfold mask. cbn [length seq combine map fst snd]. rewrite (mask0_tail t 0). reflexivity. Qed.

Lemma rshape0_tail (t : list nat) : forall s,
  map (fun p : nat * nat => if in_axes [0%nat] (fst p) then 1%nat else snd p)
      (combine (seq (S s) (length t)) t) = t.
Proof.
  induction t as [|i t IH]; intros s; [reflexivity|].
  cbn [length seq combine map fst snd]. rewrite in_axes_0, IH. reflexivity.
Qed.

Lemma rshape0_cons n shape : rshape [0%nat] (n :: shape) = 1%nat :: shape.
Proof. unfold rshape. cbn [length seq combine map fst snd]. rewrite (rshape0_tail shape 0). reflexivity. Qed.

Lemma nl_eqb_eq a : forall b, nl_eqb a b = true -> a = b.
Proof.
  induction a as [|x a IH]; intros [|y b] H; cbn [nl_eqb] in H; try reflexivity; try discriminate H.
  apply andb_prop in H. destruct H as [H1 H2]. apply Nat.eqb_eq in H1. subst y. f_equal. apply IH. exact H2.
Qed.

Lemma combine_app (A B : Type) (l1 l2 : list A) (s1 s2 : list B) :
  length l1 = length s1 -> combine (l1 ++ l2) (s1 ++ s2) = combine l1 s1 ++ combine l2 s2.
Proof.
  revert s1. induction l1 as [|a l1 IH]; intros [|b s1] E; cbn [length] in E; try discriminate E; [reflexivity|].
  cbn [app combine]. rewrite IH by lia. reflexivity.
Qed.

Lemma filter_concat (A : Type) (f : A -> bool) (l : list (list A)) :
  filter f (concat l) = concat (map (filter f) l).
Proof. induction l as [|a l IH]; [reflexivity|]. cbn [concat map]. rewrite filter_app, IH. reflexivity. Qed.

Lemma concat_singletons (A B : Type) (g : A -> B) (l : list A) :
  concat (map (fun s => [g s]) l) = map g l.
Proof. induction l as [|a l IH]; [reflexivity|]. cbn [map concat app]. rewrite IH. reflexivity. Qed.

Lemma map_as_seq (A B : Type) (F : A -> B) (d : A) (l : list A) :
  map F l = map (fun j => F (nth j l d)) (seq 0 (length l)).
Proof.
  induction l as [|a l IH]; [reflexivity|].
  cbn [length seq map nth]. f_equal. rewrite <- seq_shift, map_map. exact IH.
Qed.

(** picking the entry tagged with the j-th of pairwise distinct tags *)
Lemma pick_by_tag (A : Type) (z : A) (T : list (list nat)) : NoDup T ->
  forall (s : list A) j d, length s = length T -> (j < length T)%nat ->
  map snd (filter (fun p : list nat * A => nl_eqb (fst p) (nth j T d)) (combine T s)) = [nth j s z].
Proof.
  induction 1 as [|a T Hnotin Hnd IH]; intros s j d Hlen Hj; cbn [length] in *; [lia|].
  destruct s as [|b s]; cbn [length] in Hlen; [discriminate Hlen|].
  cbn [combine filter fst].
  assert (Hnone : forall key, ~ In key T -> forall (s' : list A),
             filter (fun p : list nat * A => nl_eqb (fst p) key) (combine T s') = []).
  { intros key Hk. clear -Hk. induction T as [|t T IHT]; intros [|c s']; try reflexivity.
    cbn [combine filter fst]. destruct (nl_eqb t key) eqn:E.
    - apply nl_eqb_eq in E. subst t. exfalso. apply Hk. left. reflexivity.
    - apply IHT. intros Hin. apply Hk. right. exact Hin. }
  destruct j as [|j]; cbn [nth].
  - rewrite nl_eqb_refl. cbn [map snd]. rewrite Hnone by exact Hnotin. reflexivity.
  - destruct (nl_eqb a (nth j T d)) eqn:E.
    + apply nl_eqb_eq in E. exfalso. apply Hnotin. rewrite E. apply nth_In. lia.
    + apply IH; lia.
Qed.

Lemma NoDup_app_intro (A : Type) (l1 l2 : list A) :
  NoDup l1 -> NoDup l2 -> (forall x, In x l1 -> ~ In x l2) -> NoDup (l1 ++ l2).
Proof.
  induction 1 as [|a l1 Ha Hnd IH]; intros H2 Hd; [exact H2|].
  cbn [app]. constructor.
  - intros Hin. apply in_app_or in Hin. destruct Hin as [Hin|Hin]; [exact (Ha Hin)|].
    apply (Hd a); [left; reflexivity|exact Hin].
  - apply IH; [exact H2|]. intros x Hx. apply Hd. right. exact Hx.
Qed.

Lemma NoDup_flat_map (A B : Type) (f : A -> list B) (l : list A) :
  NoDup l -> (forall a, In a l -> NoDup (f a)) ->
  (forall a a' b, In a l -> In a' l -> In b (f a) -> In b (f a') -> a = a') ->
  NoDup (flat_map f l).
Proof.
  induction 1 as [|a l Ha Hnd IH]; intros Hf Hd; [constructor|].
  cbn [flat_map]. apply NoDup_app_intro.
  - apply Hf. left. reflexivity.
  - apply IH.
    + intros x Hx. apply Hf. right. exact Hx.
    + intros x x' b Hx Hx'. apply Hd; right; assumption.
  - intros b Hb Hin. apply in_flat_map in Hin. destruct Hin as [a' [Ha' Hb']].
    assert (a = a') by (apply (Hd a a' b); [left; reflexivity|right; exact Ha'|exact Hb|exact Hb']).
    subst a'. exact (Ha Ha').
Qed.

Lemma idxs_NoDup shape : NoDup (idxs shape).
Proof.
  induction shape as [|n s IH].
  - cbn [idxs]. constructor; [intros []|constructor].
  - cbn [idxs]. apply NoDup_flat_map.
    + apply seq_NoDup.
    + intros i _. apply Injective_map_NoDup; [|exact IH]. intros x y E. injection E. auto.
    + intros i i' b _ _ Hb Hb'. apply in_map_iff in Hb. apply in_map_iff in Hb'.
      destruct Hb as [t [<- _]]. destruct Hb' as [t' [E _]]. injection E. auto.
Qed.

(** all slabs have the size of [shape]; z is any default element *)
Theorem groups_axis0 (A : Type) (z : A) shape (slabs : list (list A)) :
  Forall (fun s => length s = prod shape) slabs ->
  groups (length slabs :: shape) [0%nat] (concat slabs)
  = map (fun j => map (fun s => nth j s z) slabs) (seq 0 (prod shape)).
Proof.
  intros Hall. unfold groups. rewrite rshape0_cons.
  set (T0 := map (cons 0%nat) (idxs shape)).
  assert (HT0 : idxs (1%nat :: shape) = T0).
  { cbn [idxs seq flat_map]. apply app_nil_r. }
  assert (HT0len : length T0 = prod shape) by (unfold T0; rewrite map_length; apply idxs_length).
  assert (HT0nd : NoDup T0).
  { unfold T0. apply Injective_map_NoDup; [|apply idxs_NoDup]. intros x y E. injection E. auto. }
  rewrite HT0.
  (* the masked tags are T0 repeated once per slab *)
  assert (Htags : forall n s, map (mask [0%nat]) (flat_map (fun i => map (cons i) (idxs shape)) (seq s n))
                         = concat (repeat T0 n)).
  { induction n as [|n IHn]; intros s; [reflexivity|].
    cbn [seq flat_map repeat concat]. rewrite map_app, IHn. f_equal.
    unfold T0. rewrite !map_map. apply map_ext. intros t. apply mask0_cons. }
  cbn [idxs]. rewrite Htags.
  assert (Hcomb : combine (concat (repeat T0 (length slabs))) (concat slabs)
                  = concat (map (combine T0) slabs)).
  { clear -Hall HT0len. induction Hall as [|s slabs Hs Hall IH]; [reflexivity|].
    cbn [length repeat concat map]. rewrite combine_app by lia. rewrite IH. reflexivity. }
  rewrite Hcomb.
  rewrite (map_as_seq _ _ _ (@nil nat) T0), HT0len.
  apply map_ext_in. intros j Hj. apply in_seq in Hj.
  rewrite filter_concat, concat_map, !map_map.
  rewrite <- (concat_singletons _ _ (fun s => nth j s z)).
  f_equal. apply map_ext_in. intros s Hs.
  rewrite Forall_forall in Hall.
  apply pick_by_tag; [exact HT0nd|rewrite (Hall s Hs); lia|lia].
Qed.


(** the documented M x N formula: sum_n sqrt (sum_m |A_{m,n}|^2), rows given one by one *)
Theorem l21_matrix_default (N : nat) (rows : list (list cxR)) :
  Forall (fun r => length r = N) rows ->
  l21_spec sqrt [0%nat] (mkarr [length rows; N] (concat rows))
  = ksum (map (fun n => sqrt (ksum (map (fun r => cabs2 (nth n r c0)) rows))) (seq 0 N)).
Proof.
  intros Hall. unfold l21_spec. cbn [ashape adata].
  rewrite (groups_axis0 _ c0 [N] rows).
  - unfold l21_of_groups. rewrite map_map. cbn [prod fold_right]. rewrite Nat.mul_1_r.
    f_equal. apply map_ext. intros n. unfold sumsq. rewrite map_map. reflexivity.
  - apply Forall_forall. intros r Hr. rewrite Forall_forall in Hall. rewrite (Hall r Hr).
    unfold prod. cbn [fold_right]. lia.
Qed.

Lemma prod_app l1 l2 : prod (l1 ++ l2) = (prod l1 * prod l2)%nat.
Proof.
  unfold prod. induction l1 as [|a l1 IH]; cbn [app fold_right].
  - rewrite Nat.mul_1_l. reflexivity.
  - rewrite IH. rewrite Nat.mul_assoc. reflexivity.
Qed.

Lemma skipn_nth_cons (l : list nat) : forall k, (k < length l)%nat ->
  skipn k l = nth k l 1%nat :: skipn (S k) l.
Proof.
  induction l as [|a l IH]; intros k Hk; cbn [length] in Hk; [lia|].
  destruct k as [|k]; [reflexivity|]. cbn [skipn nth]. apply IH. lia.
Qed.

Lemma on_axis_length f shape k (d : list cxR) : (k < length shape)%nat ->
  length (on_axis f shape k d) = prod shape.
Proof.
  intros Hk. unfold on_axis.
  rewrite (flat_map_length_const _ _ _ (nth k shape 1%nat * prod (skipn (S k) shape))%nat).
  - rewrite seq_length. rewrite <- (firstn_skipn k shape) at 4. rewrite prod_app.
    rewrite (skipn_nth_cons shape k Hk). cbn [prod fold_right]. reflexivity.
  - intros o. rewrite (flat_map_length_const _ _ _ (prod (skipn (S k) shape))).
    + rewrite seq_length. reflexivity.
    + intros i. rewrite map_length, seq_length. reflexivity.
Qed.

(** isotropic TV, pixel by pixel: sum_j sqrt (sum_{axes} |(D_axis x)_j|^2) *)
Theorem itv_pixelwise circ axes (a : arrR) :
  Forall (fun k => (k < length (ashape a))%nat) axes ->
  itv_spec sqrt circ axes a
  = ksum (map (fun j => sqrt (ksum (map (fun k => cabs2 (nth j (D_axis circ (ashape a) k (adata a)) c0)) axes)))
              (seq 0 (prod (ashape a)))).
Proof.
  intros Hax. unfold itv_spec, tv_spec, l21_spec, D_stack. cbn [ashape adata].
  rewrite <- (map_length (fun k => D_axis circ (ashape a) k (adata a)) axes).
  rewrite (groups_axis0 _ c0).
  - unfold l21_of_groups. rewrite map_map. f_equal. apply map_ext. intros j.
    unfold sumsq. rewrite !map_map. reflexivity.
  - apply Forall_forall. intros s Hs. apply in_map_iff in Hs. destruct Hs as [k [<- Hk]].
    rewrite Forall_forall in Hax. apply on_axis_length. apply Hax. exact Hk.
Qed.
