(** C10 (4a): CircularConvolveSolver at operator level.

    Section hypothesis (the "all operators are shift invariant" assumption of the class, which
    the code states it does not check): there is ONE invertible linear transform [F] (the DFT
    over the convolution axes) into a transform domain [T] with a pointwise product such that
    every [C_i^H C_i], and [A^H W A], acts as a pointwise multiplication after [F]:
          G x = Finv (h .* F x).
    Then the division in the transform domain by the transform-domain symbol of the whole
    left-hand operator solves system (1).

    The code (_admmaux.py 434-446, 457-460) divides by
          sum_i rho_i symbol(C_i^H C_i) + 2 alpha symbol(A^H A)
    -- [A.gram_op], without the weights W -- while compute_rhs carries W.  So the code's
    x solves system (1) with W dropped on the left: it is system (1) when W = I
    ([circ_code_solves_system1_unweighted], the restricted property); for W <> I see
    FreqDomain.circ_code_system_iff and Findings/C10_circ_weights.v.

    [x.real] at the end of solve (real problems) is the projection that removes the zero
    imaginary part of the inverse DFT; here [Finv] lands in [X] directly. *)
From Coq Require Import Reals Lra List.
From SV Require Import Base.InnerSpace C10.NormalEq C10.SolverModels.
Import ListNotations.
Open Scope R_scope.

Section Circulant.
  Context {X : InnerSpace}.
  Local Notation EX := (@E X).

  (** transform domain: a real vector space with a pointwise product and division *)
  Variable T : Type.
  Variable tadd : T -> T -> T.
  Variable tscale : R -> T -> T.
  Variable tmul : T -> T -> T.
  Variable tdiv : T -> T -> T.
  Hypothesis tmul_add_l : forall h1 h2 t, tmul (tadd h1 h2) t = tadd (tmul h1 t) (tmul h2 t).
  Hypothesis tmul_scale_l : forall a h t, tmul (tscale a h) t = tscale a (tmul h t).

  Variable F : EX -> T.
  Variable Finv : T -> EX.
  Hypothesis Finv_F : forall x, Finv (F x) = x.
  Hypothesis F_Finv : forall t, F (Finv t) = t.
  Hypothesis F_add : forall x y, F (vadd x y) = tadd (F x) (F y).
  Hypothesis F_scale : forall a x, F (vscale a x) = tscale a (F x).

  Lemma Finv_add s t : Finv (tadd s t) = vadd (Finv s) (Finv t).
  Proof. rewrite <- (Finv_F (vadd (Finv s) (Finv t))), F_add, !F_Finv. reflexivity. Qed.
  Lemma Finv_scale a t : Finv (tscale a t) = vscale a (Finv t).
  Proof. rewrite <- (Finv_F (vscale a (Finv t))), F_scale, F_Finv. reflexivity. Qed.

  (** [Diag G h]: the operator G is "F^-1 diag(h) F" *)
  Definition Diag (G : EX -> EX) (h : T) : Prop := forall x, G x = Finv (tmul h (F x)).

  Lemma Diag_add G1 h1 G2 h2 : Diag G1 h1 -> Diag G2 h2 -> Diag (op_add G1 G2) (tadd h1 h2).
  Proof. intros H1 H2 x. unfold op_add. now rewrite H1, H2, tmul_add_l, Finv_add. Qed.
  Lemma Diag_scale a G h : Diag G h -> Diag (op_scale a G) (tscale a h).
  Proof. intros H x. unfold op_scale. now rewrite H, tmul_scale_l, Finv_scale. Qed.

  (** from_operator(gram_op) per block, as a list of symbols parallel to the block list *)
  Fixpoint symbols_ok (bs : list (@Block X)) (cs : list T) : Prop :=
    match bs, cs with
    | [], [] => True
    | b :: r, c :: cr => Diag (gram_op b) c /\ symbols_ok r cr
    | _, _ => False
    end.

  (** reduce(+, [rho_i * CircularConvolve.from_operator(C_i.gram_op)]).h_dft *)
  Definition rho_symbols (bs : list (@Block X)) (cs : list T) : list T :=
    map (fun bc => tscale (brho (fst bc)) (snd bc)) (combine bs cs).
  Definition treduce_add (l : list T) : option T :=
    match l with [] => None | a :: r => Some (fold_left tadd r a) end.

  Lemma reduce_Diag_gen (ops : list Op) (hs : list T) (a : Op) (h : T) :
    Diag a h -> Forall2 Diag ops hs -> Diag (fold_left op_add ops a) (fold_left tadd hs h).
  Proof.
    intros Ha H. revert a h Ha. induction H as [|o s ops' hs' Hos _ IH]; intros a h Ha; cbn [fold_left].
    - exact Ha.
    - apply IH. now apply Diag_add.
  Qed.

  Lemma symbols_Forall2 bs cs : symbols_ok bs cs -> Forall2 Diag (rho_grams bs) (rho_symbols bs cs).
  Proof.
    revert cs. induction bs as [|b r IH]; intros [|c cr] H; cbn in *; try contradiction; try constructor.
    - apply Diag_scale, H.
    - apply IH, H.
  Qed.

  Lemma csum_Diag bs cs Cs hs : symbols_ok bs cs ->
    reduce_add (rho_grams bs) = Some Cs -> treduce_add (rho_symbols bs cs) = Some hs -> Diag Cs hs.
  Proof.
    intros Hs HC Hh. pose proof (symbols_Forall2 bs cs Hs) as H2.
    destruct H2 as [|o s ops hs' Hos Hrest]; cbn in HC, Hh; [discriminate|].
    injection HC as <-. injection Hh as <-. now apply reduce_Diag_gen.
  Qed.

  Section Solve.
    Variable d : @DataTerm X.
    Variable bs : list (@Block X).
    Variable cs : list T.
    Hypothesis Hd : data_ok d.
    Hypothesis Hsym : symbols_ok bs cs.

    (** transform-domain division x = ifft(fft(rhs) / h) *)
    Definition circ_solve (h : T) : EX := Finv (tdiv (F (compute_rhs_model (Some d) bs)) h).

    (** *** Theorem 4 (general, correct denominator): if [aw] is the symbol of A^H W A and the
        division by h = sum_i rho_i c_i + 2 alpha aw is exact, the division solves system (1) *)
    Theorem circ_division_solves_system1 Cs hs aw :
      reduce_add (rho_grams bs) = Some Cs -> treduce_add (rho_symbols bs cs) = Some hs ->
      Diag (fun x => dAH d (dW d (dA d x))) aw ->
      let h := tadd hs (tscale (2 * dalpha d) aw) in
      (forall t, tmul h (tdiv t h) = t) ->
      sys_lhs (Some d) bs (circ_solve h) = sys_rhs (Some d) bs.
    Proof.
      intros HC Hh Haw h Hdiv.
      assert (Hne : bs <> []) by (intros E0; rewrite E0 in HC; cbn in HC; discriminate).
      destruct (lhs_op_model_spec (Some d) bs Hne) as (L & HL & HLx).
      assert (HD : Diag L h).
      { unfold lhs_op_model in HL. rewrite HC in HL. injection HL as <-.
        apply Diag_add; [eapply csum_Diag; eauto|].
        apply (Diag_scale (2 * dalpha d) (fun x => dAH d (dW d (dA d x))) aw Haw). }
      rewrite <- HLx, HD. unfold circ_solve. rewrite F_Finv, Hdiv, Finv_F.
      apply compute_rhs_model_spec.
    Qed.

    (** *** the code: the denominator is built from [A.gram_op] (no W) *)
    Theorem circ_code_solves_unweighted_lhs Cs hs a :
      reduce_add (rho_grams bs) = Some Cs -> treduce_add (rho_symbols bs cs) = Some hs ->
      Diag (fun x => dAH d (dA d x)) a ->
      let h := tadd hs (tscale (2 * dalpha d) a) in      (* A_lhs.h_dft *)
      (forall t, tmul h (tdiv t h) = t) ->
      vadd (vscale (2 * dalpha d) (dAH d (dA d (circ_solve h)))) (blocks_lhs bs (circ_solve h))
      = sys_rhs (Some d) bs.
    Proof.
      intros HC Hh Ha h Hdiv.
      assert (Hne : bs <> []) by (intros E0; rewrite E0 in HC; cbn in HC; discriminate).
      destruct (reduce_add_spec bs Hne) as (Cs' & HCs' & Hx).
      rewrite HC in HCs'. injection HCs' as <-.
      assert (HD : Diag (op_add Cs (op_scale (2 * dalpha d) (fun x => dAH d (dA d x)))) h).
      { apply Diag_add; [eapply csum_Diag; eauto|]. now apply Diag_scale. }
      rewrite vadd_comm, <- Hx.
      change (op_add Cs (op_scale (2 * dalpha d) (fun x => dAH d (dA d x))) (circ_solve h)
              = sys_rhs (Some d) bs).
      rewrite HD. unfold circ_solve. rewrite F_Finv, Hdiv, Finv_F.
      apply compute_rhs_model_spec.
    Qed.

    (** *** restricted property: unit weights => the code's x solves system (1), hence is the
        minimiser *)
    Theorem circ_code_solves_system1_unweighted Cs hs a :
      (forall v, dW d v = v) ->
      reduce_add (rho_grams bs) = Some Cs -> treduce_add (rho_symbols bs cs) = Some hs ->
      Diag (fun x => dAH d (dA d x)) a ->
      let h := tadd hs (tscale (2 * dalpha d) a) in
      (forall t, tmul h (tdiv t h) = t) ->
      sys_lhs (Some d) bs (circ_solve h) = sys_rhs (Some d) bs.
    Proof.
      intros HW HC Hh Ha h Hdiv.
      pose proof (circ_code_solves_unweighted_lhs Cs hs a HC Hh Ha Hdiv) as H.
      unfold sys_lhs. cbn [data_lhs]. unfold data_lhs0. rewrite HW. exact H.
    Qed.
  End Solve.

  (** f = None: A_lhs is the sum of the block symbols only *)
  Theorem circ_code_solves_system1_no_f bs cs Cs hs :
    symbols_ok bs cs ->
    reduce_add (rho_grams bs) = Some Cs -> treduce_add (rho_symbols bs cs) = Some hs ->
    (forall t, tmul hs (tdiv t hs) = t) ->
    let x := Finv (tdiv (F (compute_rhs_model None bs)) hs) in
    sys_lhs None bs x = sys_rhs None bs.
  Proof.
    intros Hs HC Hh Hdiv x.
    assert (Hne : bs <> []) by (intros E0; rewrite E0 in HC; cbn in HC; discriminate).
    destruct (lhs_op_model_spec None bs Hne) as (L & HL & HLx).
    unfold lhs_op_model in HL. rewrite HC in HL. injection HL as <-.
    rewrite <- HLx, (csum_Diag bs cs Cs hs Hs HC Hh). unfold x.
    rewrite F_Finv, Hdiv, Finv_F. apply compute_rhs_model_spec.
  Qed.
End Circulant.
