(** C10: executable instance of system (1) of NormalEq.v in C^n (Gaussian rationals, exact),
    used by the correspondence harness: the residual of

      (2 alpha A^H W A + sum_i rho_i C_i^H C_i) x = 2 alpha A^H W y + sum_i rho_i C_i^H (z_i - u_i)

    at the x returned by the implementation is evaluated HERE, by [vm_compute], from the dense
    matrices of A and the C_i, the weights, y, z, u, rho, alpha.  Real problems are the
    special case of zero imaginary parts.  [mH] is the conjugate transpose, i.e. the adjoint
    for Re<.,.> (the inner product of the C^n instance of InnerSpace). *)
From Coq Require Import List Bool QArith Qcanon.
Import ListNotations.
Open Scope Qc_scope.

Definition C := (Qc * Qc)%type.
Definition c0 : C := (0, 0).
Definition cadd (a b : C) : C := (fst a + fst b, snd a + snd b).
Definition csub (a b : C) : C := (fst a - fst b, snd a - snd b).
Definition cmul (a b : C) : C := (fst a * fst b - snd a * snd b, fst a * snd b + snd a * fst b).
Definition cconj (a : C) : C := (fst a, - snd a).
Definition cscale (r : Qc) (a : C) : C := (r * fst a, r * snd a).
Definition cabs2 (a : C) : Qc := fst a * fst a + snd a * snd a.

Definition vec := list C.
Definition mat := list (list C).   (* rows *)

Fixpoint vadd (a b : vec) : vec :=
  match a, b with x :: r, y :: s => cadd x y :: vadd r s | _, _ => [] end.
Fixpoint vsub (a b : vec) : vec :=
  match a, b with x :: r, y :: s => csub x y :: vsub r s | _, _ => [] end.
Definition vscale (r : Qc) (a : vec) : vec := map (cscale r) a.
Fixpoint wmul (w : list Qc) (a : vec) : vec :=
  match w, a with x :: r, y :: s => cscale x y :: wmul r s | _, _ => [] end.
Definition nsq (a : vec) : Qc := fold_left (fun acc x => acc + cabs2 x) a 0.
Fixpoint dot (a b : vec) : C :=
  match a, b with x :: r, y :: s => cadd (cmul x y) (dot r s) | _, _ => c0 end.
Definition zeros (n : nat) : vec := repeat c0 n.

(** M x *)
Definition mv (M : mat) (x : vec) : vec := map (fun row => dot row x) M.
(** M^H y  (n = number of columns) *)
Fixpoint mHv (n : nat) (M : mat) (y : vec) : vec :=
  match M, y with
  | row :: r, yi :: s => vadd (map (fun m => cmul (cconj m) yi) row) (mHv n r s)
  | _, _ => zeros n
  end.

(** the problem *)
Record data := mkdata { dA : mat; dW : list Qc; dy : vec; dalpha : Qc }.
Record block := mkblock { bC : mat; brho : Qc; bz : vec; bu : vec }.
Record problem := mkprob { pn : nat; pf : option data; pbs : list block }.

Definition two : Qc := 1 + 1.

Definition data_lhs (n : nat) (f : option data) (x : vec) : vec :=
  match f with
  | Some d => vscale (two * dalpha d) (mHv n (dA d) (wmul (dW d) (mv (dA d) x)))
  | None => zeros n end.
Definition data_rhs (n : nat) (f : option data) : vec :=
  match f with
  | Some d => vscale (two * dalpha d) (mHv n (dA d) (wmul (dW d) (dy d)))
  | None => zeros n end.
Fixpoint blocks_lhs (n : nat) (bs : list block) (x : vec) : vec :=
  match bs with
  | [] => zeros n
  | b :: r => vadd (vscale (brho b) (mHv n (bC b) (mv (bC b) x))) (blocks_lhs n r x) end.
Fixpoint blocks_rhs (n : nat) (bs : list block) : vec :=
  match bs with
  | [] => zeros n
  | b :: r => vadd (vscale (brho b) (mHv n (bC b) (vsub (bz b) (bu b)))) (blocks_rhs n r) end.

Definition sys_lhs (p : problem) (x : vec) : vec :=
  vadd (data_lhs (pn p) (pf p) x) (blocks_lhs (pn p) (pbs p) x).
Definition sys_rhs (p : problem) : vec :=
  vadd (data_rhs (pn p) (pf p)) (blocks_rhs (pn p) (pbs p)).

(** G0BlockCircularConvolveSolver.compute_rhs (model of the code): first block times 2 omega *)
Definition g0_rhs (p : problem) (omega : Qc) : vec :=
  match pbs p with
  | [] => zeros (pn p)
  | b :: r => vadd (vscale (two * omega * brho b) (mHv (pn p) (bC b) (vsub (bz b) (bu b))))
                   (blocks_rhs (pn p) r) end.

Definition Qc_leb (a b : Qc) : bool := Qle_bool (this a) (this b).

(** squared relative residual of system (1) at x *)
Definition resid_sq (p : problem) (x : vec) : Qc := nsq (vsub (sys_lhs p x) (sys_rhs p)).
Definition rhs_sq (p : problem) : Qc := nsq (sys_rhs p).

(** ||r|| <= tol ||rhs|| *)
Definition resid_ok (p : problem) (x : vec) (tol : Qc) : bool :=
  Qc_leb (resid_sq p x) (tol * tol * rhs_sq p).

(** |a - b| <= tol * max(1, |b|) *)
Definition vec_close (a b : vec) (tol : Qc) : bool :=
  Nat.eqb (length a) (length b) &&
  (let nb := nsq b in
   Qc_leb (nsq (vsub a b)) (tol * tol * (if Qc_leb 1 nb then nb else 1))).

(** the reported number [acc] is the true relative residual s = ||r||/||rhs|| up to
    |acc - s| <= atol + rtol * s; decided on squares (no square root needed) *)
Definition acc_ok (p : problem) (x : vec) (acc atol rtol : Qc) : bool :=
  let rr := resid_sq p x in
  let bb := rhs_sq p in
  (* s <= (acc + atol) / (1 - rtol)   <=>  rr (1-rtol)^2 <= (acc+atol)^2 bb *)
  Qc_leb (rr * (1 - rtol) * (1 - rtol)) ((acc + atol) * (acc + atol) * bb)
  &&
  (* s >= (acc - atol) / (1 + rtol) when acc > atol *)
  (if Qc_leb acc atol then true
   else Qc_leb ((acc - atol) * (acc - atol) * bb) (rr * (1 + rtol) * (1 + rtol))).

(** ||x1 - x2|| <= ktol ||x1|| *)
Definition agree_ok (x1 x2 : vec) (ktol : Qc) : bool :=
  Nat.eqb (length x1) (length x2) && Qc_leb (nsq (vsub x1 x2)) (ktol * ktol * nsq x1).

(** *** the transcribed models of the defective solvers (FreqDomain.v / Circulant.v /
    SolverModels.v say what the code computes; checked against the implementation too) *)
(** Circular / FBlock solver: system (1) with W dropped on the LEFT only *)
Definition data_lhs_noW (n : nat) (f : option data) (x : vec) : vec :=
  match f with
  | Some d => vscale (two * dalpha d) (mHv n (dA d) (mv (dA d) x))
  | None => zeros n end.
Definition resid_noW_ok (p : problem) (x : vec) (tol : Qc) : bool :=
  Qc_leb (nsq (vsub (vadd (data_lhs_noW (pn p) (pf p) x) (blocks_lhs (pn p) (pbs p) x)) (sys_rhs p)))
         (tol * tol * rhs_sq p).
(** G0 solver: rho_1 replaced by c * rho_1 (c = 2 g_1.scale) on both sides *)
Definition scale_rho1 (c : Qc) (p : problem) : problem :=
  match pbs p with
  | b :: r => mkprob (pn p) (pf p) (mkblock (bC b) (c * brho b) (bz b) (bu b) :: r)
  | [] => p end.

Inductive check :=
| ChkResid (x : vec) (tol : Qc)
| ChkAcc (x : vec) (acc atol rtol : Qc)
| ChkAgree (x1 x2 : vec) (ktol : Qc)
| ChkRhs (rhs_impl : vec) (tol : Qc)                 (* compute_rhs() = sys_rhs *)
| ChkLhs (probe lhs_impl : vec) (tol : Qc)           (* lhs_op(probe) = sys_lhs probe *)
| ChkG0Rhs (omega : Qc) (rhs_impl : vec) (tol : Qc)  (* G0 compute_rhs() = its model *)
| ChkResidNoW (x : vec) (tol : Qc)                   (* code model of the circulant / F-block solver *)
| ChkResidRho1 (c : Qc) (x : vec) (tol : Qc).        (* code model of the G0 solver *)

Definition run_check (p : problem) (c : check) : bool :=
  match c with
  | ChkResid x tol => Nat.eqb (length x) (pn p) && resid_ok p x tol
  | ChkAcc x acc atol rtol => acc_ok p x acc atol rtol
  | ChkAgree x1 x2 ktol => agree_ok x1 x2 ktol
  | ChkRhs r tol => vec_close r (sys_rhs p) tol
  | ChkLhs x l tol => vec_close l (sys_lhs p x) tol
  | ChkG0Rhs om r tol => vec_close r (g0_rhs p om) tol
  | ChkResidNoW x tol => resid_noW_ok p x tol
  | ChkResidRho1 c x tol => resid_ok (scale_rho1 c p) x tol
  end.

(** failing checks, encoded as 100 * case + check index *)
Fixpoint bad_checks (p : problem) (cs : list check) (base k : nat) : list nat :=
  match cs with
  | [] => []
  | c :: r => (if run_check p c then [] else [(base + k)%nat]) ++ bad_checks p r base (S k)
  end.
Fixpoint bad_cases (l : list (problem * list check)) (i : nat) : list nat :=
  match l with
  | [] => []
  | (p, cs) :: r => bad_checks p cs (100 * i)%nat 0%nat ++ bad_cases r (S i)
  end.

(** literals *)
Definition cq (a b : Q) : C := (Q2Qc a, Q2Qc b).
Definition rv (l : list Q) : vec := map (fun q => (Q2Qc q, 0)) l.
Definition cv (l : list (Q * Q)) : vec := map (fun q => (Q2Qc (fst q), Q2Qc (snd q))) l.
Definition rm (l : list (list Q)) : mat := map rv l.
Definition cm (l : list (list (Q * Q))) : mat := map cv l.
Definition qv (l : list Q) : list Qc := map Q2Qc l.
