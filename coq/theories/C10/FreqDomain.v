(** C10 (4b, 5): the transform-domain arithmetic of the three DFT-based x-update solvers,
    transcribed per frequency over an ABSTRACT FIELD [K] of transform-domain scalars
    (complex numbers in the code; the executable instance used by the Findings is [Qc]).
    [conj] is not needed as an operation: the conjugate of a transform coefficient is a
    separate variable ([ac] next to [a]), so every statement holds in particular when
    [ac = conj a].

    - [ConvATADSolver] (solver.py 903-958): Sherman-Morrison over the channel axis.
    - [FBlockCircularConvolveSolver] (_admmaux.py 578-622): D and rhs divided by 2*alpha.
    - [G0BlockCircularConvolveSolver] (_admmaux.py 748-826): D and rhs divided by
      2*omega*rho_1, first rhs term multiplied by 2*omega.
    - [CircularConvolveSolver] (_admmaux.py 406-464): division by the DFT of
      sum_i rho_i C_i^H C_i + 2 alpha A^H A  -- the weights W are not in it.

    No axioms; [field]/[ring] over the Section field. *)
From Coq Require Import List Ring Field.
Import ListNotations.

Section FreqDomain.
  Variable K : Type.
  Variables (k0 k1 : K) (kadd kmul ksub : K -> K -> K) (kopp : K -> K)
            (kdiv : K -> K -> K) (kinv : K -> K).
  Hypothesis Kfield : field_theory k0 k1 kadd kmul ksub kopp kdiv kinv (@eq K).
  Add Field Kf : Kfield.

  Local Notation "0" := k0.
  Local Notation "1" := k1.
  Local Infix "+" := kadd.
  Local Infix "*" := kmul.
  Local Infix "-" := ksub.
  Local Infix "/" := kdiv.
  Local Notation two := (kadd k1 k1).

  (** ** ConvATADSolver, one frequency; a channel is (a, ac, d, b) =
         (Ahat_k, conj Ahat_k, Dhat_k, bhat_k) *)
  Definition chan := (K * K * K * K)%type.
  Definition ch_a (t : chan) := fst (fst (fst t)).
  Definition ch_ac (t : chan) := snd (fst (fst t)).
  Definition ch_d (t : chan) := snd (fst t).
  Definition ch_b (t : chan) := snd t.

  Fixpoint ksum (l : list K) : K := match l with [] => 0 | x :: r => x + ksum r end.

  (** snp.sum(Ahat * (Ahat.conj() / Dhat), axis=sum_axis) *)
  Definition S1 (l : list chan) : K := ksum (map (fun t => ch_a t * (ch_ac t / ch_d t)) l).
  (** snp.sum(Ahat * bhat / Dhat, axis=sum_axis) *)
  Definition S2 (l : list chan) : K := ksum (map (fun t => (ch_a t * ch_b t) / ch_d t) l).
  (** AHEinv = Ahat.conj() / (1 + S1);  xhat = (bhat - AHEinv * S2) / Dhat *)
  Definition convatad_x (l : list chan) (t : chan) : K :=
    (ch_b t - (ch_ac t / (1 + S1 l)) * S2 l) / ch_d t.
  (** (A x)^ at this frequency: sum over channels of Ahat_j xhat_j *)
  Definition Ax (l : list chan) (x : chan -> K) : K := ksum (map (fun t => ch_a t * x t) l).

  Lemma Ax_affine (l : list chan) (c : K) : Forall (fun t => ch_d t <> 0) l ->
    ksum (map (fun t => ch_a t * ((ch_b t - ch_ac t * c) / ch_d t)) l) = S2 l - c * S1 l.
  Proof.
    unfold S1, S2. induction 1 as [|t r Ht _ IH]; cbn [map ksum].
    - ring.
    - rewrite IH. field. exact Ht.
  Qed.

  (** Sherman-Morrison: for every channel k, conj(Ahat_k) * (A x)^ + Dhat_k xhat_k = bhat_k,
      i.e. (A^H A + D) x = b at this frequency, for any number of channels. *)
  Theorem convatad_solves (l : list chan) :
    Forall (fun t => ch_d t <> 0) l -> 1 + S1 l <> 0 ->
    forall t, In t l -> ch_ac t * Ax l (convatad_x l) + ch_d t * convatad_x l t = ch_b t.
  Proof.
    intros Hd Hs t Hin.
    assert (HAx : Ax l (convatad_x l) = S2 l / (1 + S1 l)).
    { unfold Ax, convatad_x.
      rewrite (map_ext_in _ (fun t => ch_a t * ((ch_b t - ch_ac t * (S2 l / (1 + S1 l))) / ch_d t))).
      - rewrite Ax_affine by exact Hd. field. exact Hs.
      - intros u Hu. assert (Hu' : ch_d u <> 0) by (rewrite Forall_forall in Hd; auto).
        field. split; assumption. }
    rewrite HAx. unfold convatad_x.
    assert (Ht : ch_d t <> 0) by (rewrite Forall_forall in Hd; auto).
    field. split; assumption.
  Qed.

  (** ** FBlockCircularConvolveSolver: D = (sum_i rho_i c_i) / (2 alpha), rhs / (2 alpha).
      [s] = (A x)^, [csum] = (sum_i rho_i C_i^H C_i)^, [rhs] = compute_rhs()^ (per channel). *)
  Theorem fblock_scaling (two_alpha ac s x csum rhs : K) : two_alpha <> 0 ->
    (ac * s + (csum / two_alpha) * x = rhs / two_alpha
     <-> two_alpha * (ac * s) + csum * x = rhs).
  Proof.
    intros H2. split; intros H.
    - assert (E : rhs = two_alpha * (rhs / two_alpha)) by (field; exact H2).
      rewrite E, <- H. field. exact H2.
    - assert (E : rhs / two_alpha = (two_alpha * (ac * s) + csum * x) / two_alpha) by now rewrite H.
      rewrite E. field. exact H2.
  Qed.

  (** ** G0BlockCircularConvolveSolver: D = (sum_{i>=2} rho_i c_i) / (2 omega rho_1),
      rhs = (2 omega rho_1 r1 + rest) / (2 omega rho_1).
      [r1] = (C_1^H (z_1 - u_1))^, [rest] = (sum_{i>=2} rho_i C_i^H (z_i - u_i))^.
      What the code solves is (2 omega rho_1 C_1^H C_1 + sum_{i>=2} ...) x = 2 omega rho_1 r1 + rest. *)
  Theorem g0_scaling (omega rho1 ac s x csum rest r1 : K) : two * omega * rho1 <> 0 ->
    (ac * s + (csum / (two * omega * rho1)) * x = (two * omega * rho1 * r1 + rest) / (two * omega * rho1)
     <-> (two * omega * rho1) * (ac * s) + csum * x = (two * omega * rho1) * r1 + rest).
  Proof.
    intros H2. pose proof (fblock_scaling (two * omega * rho1) ac s x csum
                             (two * omega * rho1 * r1 + rest) H2) as H. exact H.
  Qed.

  (** the system of the property for this problem (f = 0): rho_1 C_1^H C_1 + ... with rho_1, NOT
      2 omega rho_1.  The code's x satisfies it iff (2 omega - 1) rho_1 (conj(a) (Ax)^ - r1) = 0. *)
  Theorem g0_system_iff (omega rho1 ac s x csum rest r1 : K) :
    (two * omega * rho1) * (ac * s) + csum * x = (two * omega * rho1) * r1 + rest ->
    (rho1 * (ac * s) + csum * x = rho1 * r1 + rest
     <-> (two * omega - 1) * rho1 * (ac * s - r1) = 0).
  Proof.
    intros H. split; intros H'.
    - assert (E : (two * omega - 1) * rho1 * (ac * s - r1)
                  = ((two * omega * rho1) * (ac * s) + csum * x) - (rho1 * (ac * s) + csum * x)
                    - ((two * omega * rho1) * r1 + rest) + (rho1 * r1 + rest)) by ring.
      rewrite E, H, H'. ring.
    - assert (E : rho1 * (ac * s) + csum * x
                  = ((two * omega * rho1) * (ac * s) + csum * x) - (two * omega - 1) * rho1 * (ac * s - r1)
                    - (two * omega * rho1) * r1 + rho1 * r1) by ring.
      rewrite E, H, H'. ring.
  Qed.

  Corollary g0_correct_when_scale_half (omega rho1 ac s x csum rest r1 : K) :
    two * omega = 1 ->
    (two * omega * rho1) * (ac * s) + csum * x = (two * omega * rho1) * r1 + rest ->
    rho1 * (ac * s) + csum * x = rho1 * r1 + rest.
  Proof.
    intros Hw H. apply (g0_system_iff omega rho1 ac s x csum rest r1 H). rewrite Hw. ring.
  Qed.

  (** ** CircularConvolveSolver, one frequency, scalar weights W = w I.
      A block is (rho_i, g_i, r_i) = (rho_i, (C_i^H C_i)^, (C_i^H (z_i - u_i))^);
      [ga] = (A^H A)^, [ay] = (A^H y)^. *)
  Definition cblock := (K * K * K)%type.
  Definition circ_csum (bs : list cblock) : K := ksum (map (fun b => fst (fst b) * snd (fst b)) bs).
  Definition circ_rsum (bs : list cblock) : K := ksum (map (fun b => fst (fst b) * snd b) bs).

  (** compute_rhs()^ : the weights ARE in it *)
  Definition circ_rhs (two_alpha w ay : K) (bs : list cblock) : K := two_alpha * (w * ay) + circ_rsum bs.
  (** A_lhs.h_dft = sum_i rho_i g_i + 2 alpha ga : the weights are NOT in it *)
  Definition circ_den_code (two_alpha ga : K) (bs : list cblock) : K := circ_csum bs + two_alpha * ga.
  Definition circ_x_code (two_alpha w ga ay : K) (bs : list cblock) : K :=
    circ_rhs two_alpha w ay bs / circ_den_code two_alpha ga bs.
  (** system (1) at this frequency *)
  Definition circ_system (two_alpha w ga ay : K) (bs : list cblock) (x : K) : Prop :=
    (two_alpha * (w * ga) + circ_csum bs) * x = circ_rhs two_alpha w ay bs.

  (** what the code's x satisfies: the system with W dropped on the left *)
  Theorem circ_code_solves_unweighted_lhs two_alpha w ga ay bs :
    circ_den_code two_alpha ga bs <> 0 ->
    (two_alpha * ga + circ_csum bs) * circ_x_code two_alpha w ga ay bs = circ_rhs two_alpha w ay bs.
  Proof. intros H. unfold circ_x_code. unfold circ_den_code in *. field. exact H. Qed.

  (** restricted property: with unit weights the code solves system (1) *)
  Theorem circ_code_correct_unweighted two_alpha ga ay bs :
    circ_den_code two_alpha ga bs <> 0 ->
    circ_system two_alpha 1 ga ay bs (circ_x_code two_alpha 1 ga ay bs).
  Proof.
    intros H. unfold circ_system. rewrite <- (circ_code_solves_unweighted_lhs two_alpha 1 ga ay bs H).
    ring.
  Qed.

  (** full property <-> the missing term vanishes *)
  Theorem circ_code_system_iff two_alpha w ga ay bs :
    circ_den_code two_alpha ga bs <> 0 ->
    (circ_system two_alpha w ga ay bs (circ_x_code two_alpha w ga ay bs)
     <-> two_alpha * ((w - 1) * ga) * circ_x_code two_alpha w ga ay bs = 0).
  Proof.
    intros H. unfold circ_system.
    pose proof (circ_code_solves_unweighted_lhs two_alpha w ga ay bs H) as Hc.
    set (x := circ_x_code two_alpha w ga ay bs) in *.
    split; intros H'.
    - assert (E : two_alpha * ((w - 1) * ga) * x
                  = (two_alpha * (w * ga) + circ_csum bs) * x - (two_alpha * ga + circ_csum bs) * x) by ring.
      rewrite E, H', Hc. ring.
    - assert (E : (two_alpha * (w * ga) + circ_csum bs) * x
                  = (two_alpha * ga + circ_csum bs) * x + two_alpha * ((w - 1) * ga) * x) by ring.
      rewrite E, H', Hc. ring.
  Qed.

  (** the repaired denominator (2 alpha w ga + csum) does solve system (1) *)
  Theorem circ_fixed_correct two_alpha w ga ay bs :
    two_alpha * (w * ga) + circ_csum bs <> 0 ->
    circ_system two_alpha w ga ay bs
      (circ_rhs two_alpha w ay bs / (two_alpha * (w * ga) + circ_csum bs)).
  Proof. intros H. unfold circ_system. field. exact H. Qed.

  (** ** FBlock solver with scalar weights: rhs carries w, the ConvATAD system does not *)
  Theorem fblock_system_iff (two_alpha w ac s x csum ay rsum : K) :
    two_alpha * (ac * s) + csum * x = two_alpha * (w * ay) + rsum ->
    (two_alpha * (w * (ac * s)) + csum * x = two_alpha * (w * ay) + rsum
     <-> two_alpha * ((w - 1) * (ac * s)) = 0).
  Proof.
    intros H. split; intros H'.
    - assert (E : two_alpha * ((w - 1) * (ac * s))
                  = (two_alpha * (w * (ac * s)) + csum * x) - (two_alpha * (ac * s) + csum * x)) by ring.
      rewrite E, H, H'. ring.
    - assert (E : two_alpha * (w * (ac * s)) + csum * x
                  = (two_alpha * (ac * s) + csum * x) + two_alpha * ((w - 1) * (ac * s))) by ring.
      rewrite E, H, H'. ring.
  Qed.

  (** ** The two block solvers end to end at one frequency (any number of channels):
      channel data -> scaled ConvATAD channel -> Sherman-Morrison -> unscaled system. *)
  Lemma div_nonzero (c sc : K) : sc <> 0 -> c <> 0 -> c / sc <> 0.
  Proof.
    intros Hs Hc E. apply Hc.
    assert (E2 : c = sc * (c / sc)) by (field; exact Hs). rewrite E2, E. ring.
  Qed.

  (** F-solver channel: (a, ac, csum, rhs) with csum = (sum_i rho_i C_i^H C_i)^, rhs = compute_rhs()^ *)
  Definition fchan := (K * K * K * K)%type.
  Definition fblock_chan (two_alpha : K) (t : fchan) : chan :=
    (ch_a t, ch_ac t, ch_d t / two_alpha, ch_b t / two_alpha).
  Definition fblock_x_code (two_alpha : K) (l : list fchan) (t : fchan) : K :=
    convatad_x (map (fblock_chan two_alpha) l) (fblock_chan two_alpha t).
  Definition fblock_Ax_code (two_alpha : K) (l : list fchan) : K :=
    Ax (map (fblock_chan two_alpha) l) (convatad_x (map (fblock_chan two_alpha) l)).

  Theorem fblock_code_solves two_alpha (l : list fchan) :
    two_alpha <> 0 -> Forall (fun t => ch_d t <> 0) l ->
    1 + S1 (map (fblock_chan two_alpha) l) <> 0 ->
    forall t, In t l ->
      two_alpha * (ch_ac t * fblock_Ax_code two_alpha l) + ch_d t * fblock_x_code two_alpha l t = ch_b t.
  Proof.
    intros H2 Hd Hs t Hin.
    assert (Hd' : Forall (fun t => ch_d t <> 0) (map (fblock_chan two_alpha) l)).
    { rewrite Forall_forall in *. intros u Hu. apply in_map_iff in Hu. destruct Hu as (v & <- & Hv).
      unfold fblock_chan, ch_d; cbn [fst snd]. specialize (Hd v Hv). unfold ch_d in Hd.
      now apply div_nonzero. }
    pose proof (convatad_solves _ Hd' Hs (fblock_chan two_alpha t) (in_map _ _ _ Hin)) as H.
    apply (fblock_scaling two_alpha (ch_ac t) (fblock_Ax_code two_alpha l)
             (fblock_x_code two_alpha l t) (ch_d t) (ch_b t) H2). exact H.
  Qed.

  (** G0-solver channel: (a, ac, csum, (r1, rest)) *)
  Definition gchan := (K * K * K * (K * K))%type.
  Definition g0_chan (omega rho1 : K) (t : gchan) : chan :=
    let s := two * omega * rho1 in
    (fst (fst (fst t)), snd (fst (fst t)), snd (fst t) / s, (s * fst (snd t) + snd (snd t)) / s).
  Definition g0_x_code (omega rho1 : K) (l : list gchan) (t : gchan) : K :=
    convatad_x (map (g0_chan omega rho1) l) (g0_chan omega rho1 t).
  Definition g0_Ax_code (omega rho1 : K) (l : list gchan) : K :=
    Ax (map (g0_chan omega rho1) l) (convatad_x (map (g0_chan omega rho1) l)).
  (** system (1) of the problem at this frequency, channel t *)
  Definition g0_system1 (rho1 : K) (t : gchan) (s x : K) : Prop :=
    rho1 * (snd (fst (fst t)) * s) + snd (fst t) * x = rho1 * fst (snd t) + snd (snd t).

  Theorem g0_code_solves omega rho1 (l : list gchan) :
    two * omega * rho1 <> 0 -> Forall (fun t => snd (fst t) <> 0) l ->
    1 + S1 (map (g0_chan omega rho1) l) <> 0 ->
    forall t, In t l ->
      (two * omega * rho1) * (snd (fst (fst t)) * g0_Ax_code omega rho1 l)
        + snd (fst t) * g0_x_code omega rho1 l t
      = (two * omega * rho1) * fst (snd t) + snd (snd t).
  Proof.
    intros H2 Hd Hs t Hin.
    assert (Hd' : Forall (fun t => ch_d t <> 0) (map (g0_chan omega rho1) l)).
    { rewrite Forall_forall in *. intros u Hu. apply in_map_iff in Hu. destruct Hu as (v & <- & Hv).
      unfold g0_chan, ch_d; cbn [fst snd]. specialize (Hd v Hv).
      now apply div_nonzero. }
    pose proof (convatad_solves _ Hd' Hs (g0_chan omega rho1 t) (in_map _ _ _ Hin)) as H.
    apply (g0_scaling omega rho1 (snd (fst (fst t))) (g0_Ax_code omega rho1 l)
             (g0_x_code omega rho1 l t) (snd (fst t)) (snd (snd t)) (fst (snd t)) H2). exact H.
  Qed.

  (** restricted property: g_1.scale = 1/2 => the code's x solves system (1) *)
  Theorem g0_code_correct_when_scale_half omega rho1 (l : list gchan) :
    two * omega = 1 -> rho1 <> 0 -> Forall (fun t => snd (fst t) <> 0) l ->
    1 + S1 (map (g0_chan omega rho1) l) <> 0 ->
    forall t, In t l -> g0_system1 rho1 t (g0_Ax_code omega rho1 l) (g0_x_code omega rho1 l t).
  Proof.
    intros Hw Hr Hd Hs t Hin.
    assert (H2 : two * omega * rho1 <> 0).
    { rewrite Hw. intros E. apply Hr. rewrite <- E. ring. }
    pose proof (g0_code_solves omega rho1 l H2 Hd Hs t Hin) as H.
    unfold g0_system1. eapply g0_correct_when_scale_half; eauto.
  Qed.
End FreqDomain.
