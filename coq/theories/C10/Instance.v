(** The real line as a one-dimensional inner-product space: used for the non-vacuity
    examples of Properties/C10.v (all hypotheses of the C10 theorems are satisfiable). *)
From Coq Require Import Reals Lra Psatz.
From SV Require Import Base.InnerSpace.
Open Scope R_scope.

Local Obligation Tactic := idtac.
Program Definition RSpace : InnerSpace := {|
  E := R; vzero := 0; vadd := Rplus; vopp := Ropp; vscale := Rmult; ip := Rmult |}.
Next Obligation. intros; lra. Qed.
Next Obligation. intros; lra. Qed.
Next Obligation. intros; lra. Qed.
Next Obligation. intros; lra. Qed.
Next Obligation. intros; lra. Qed.
Next Obligation. intros; lra. Qed.
Next Obligation. intros; lra. Qed.
Next Obligation. intros; lra. Qed.
Next Obligation. intros; lra. Qed.
Next Obligation. intros; lra. Qed.
Next Obligation. intros; lra. Qed.
Next Obligation. intros; cbn; nra. Qed.
Next Obligation. intros x H; cbn in *; nra. Qed.
