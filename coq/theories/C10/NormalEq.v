(** C10 (1): the ADMM x-update sub-problem and its normal equations.

    In an abstract real inner-product space [X] (C^n is one, with Re<.,.>), for a data term
    [alpha * <W (A x - y), A x - y>] (A with adjoint AH, W self-adjoint PSD, alpha >= 0;
    optional: [f = None]) and ANY NUMBER of blocks [rho_i/2 * ||z_i - u_i - C_i x||^2]
    (each block lives in its own space, C_i with adjoint CH_i, rho_i >= 0):

      x minimises the objective
        <->  (2 alpha AH W A + sum_i rho_i CH_i C_i) x = 2 alpha AH W y + sum_i rho_i CH_i (z_i - u_i)

    (both directions, induction over the block list), uniqueness when the left-hand operator
    is definite, and a stability bound (approximate solutions of the system are close). *)
From Coq Require Import Reals Lra Psatz List.
From SV Require Import Base.InnerSpace.
Import ListNotations.
Open Scope R_scope.

(** ** Vector-space and adjoint facts not in the shared base *)
Section VecFacts.
  Context {S : InnerSpace}.

  Lemma vadd_vsub_cancel x y : vadd x (vsub y x) = y.
  Proof.
    unfold vsub. rewrite (vadd_comm y), vadd_assoc, vadd_opp_r. apply vadd_0_l.
  Qed.

  Lemma ip_ext x y : (forall w, ip x w = ip y w) -> x = y.
  Proof.
    intros H. apply vsub_eq_0, ip_def.
    rewrite ip_sub_l. rewrite (H (vsub x y)). lra.
  Qed.

  Lemma vsub_eq_iff a b : vsub a b = vzero <-> a = b.
  Proof. split; [apply vsub_eq_0 | intros ->; apply vsub_self]. Qed.

  Lemma vsub_vadd_swap a b c d : vadd (vsub a b) (vsub c d) = vsub (vadd a c) (vadd b d).
  Proof.
    apply ip_ext; intros w. ip_expand. lra.
  Qed.

  Lemma vscale_0_r a : vscale a vzero = (vzero : E).
  Proof. apply ip_ext; intros w. ip_expand. lra. Qed.

  Lemma vscale_vsub a x y : vscale a (vsub x y) = vsub (vscale a x) (vscale a y).
  Proof. apply ip_ext; intros w. ip_expand. lra. Qed.

  Lemma vscale_inv_cancel a x : a <> 0 -> vscale a (vscale (/ a) x) = x.
  Proof. intros Ha. rewrite vscale_scale. replace (a * / a) with 1 by (field; exact Ha). apply vscale_1. Qed.

  Lemma vscale_inj a x y : a <> 0 -> vscale a x = vscale a y -> x = y.
  Proof.
    intros Ha H. rewrite <- (vscale_1 x), <- (vscale_1 y).
    replace 1 with (/ a * a) by (field; exact Ha).
    rewrite <- !vscale_scale. now rewrite H.
  Qed.
End VecFacts.

Section AdjFacts.
  Context {S1 S2 : InnerSpace}.
  Variable A : @E S1 -> @E S2.
  Variable B : @E S2 -> @E S1.
  Hypothesis HA : IsAdj A B.

  Lemma adj_sym : IsAdj B A.
  Proof. intros y x. rewrite ip_sym, <- HA, ip_sym. reflexivity. Qed.

  (** a map that has an adjoint is linear *)
  Lemma adj_linear : IsLinear A.
  Proof.
    split.
    - intros x y. apply ip_ext; intros w. rewrite HA. ip_expand. now rewrite <- !HA.
    - intros a x. apply ip_ext; intros w. rewrite HA. ip_expand. now rewrite <- !HA.
  Qed.
End AdjFacts.

Section LinFacts.
  Context {S1 S2 : InnerSpace}.
  Variable A : @E S1 -> @E S2.
  Hypothesis HL : IsLinear A.

  Lemma lin_add x y : A (vadd x y) = vadd (A x) (A y).
  Proof. apply HL. Qed.
  Lemma lin_scale a x : A (vscale a x) = vscale a (A x).
  Proof. apply HL. Qed.
  Lemma lin_opp x : A (vopp x) = vopp (A x).
  Proof. rewrite !vopp_scale. apply lin_scale. Qed.
  Lemma lin_sub x y : A (vsub x y) = vsub (A x) (A y).
  Proof. unfold vsub. now rewrite lin_add, lin_opp. Qed.
  Lemma lin_zero : A vzero = vzero.
  Proof. rewrite <- (vscale_0_l vzero), lin_scale. apply vscale_0_l. Qed.
End LinFacts.

(** ** Quadratic functionals: value, gradient map, quadratic part *)
Section Quad.
  Context {X : InnerSpace}.

  Record IsQuad (Q : E -> R) (g : E -> E) (q : E -> R) : Prop := {
    quad_expand : forall x d, Q (vadd x d) = Q x + ip (g x) d + q d;
    quad_pos : forall d, 0 <= q d;
    quad_hom : forall t d, q (vscale t d) = t * t * q d }.

  Lemma small_nonpos n c : (forall t, 0 < t -> n <= t * c) -> n <= 0.
  Proof.
    intros H. destruct (Rle_dec n 0) as [|Hn]; auto. exfalso. apply Rnot_le_lt in Hn.
    destruct (Rle_dec c 0) as [Hc|Hc].
    - specialize (H 1 ltac:(lra)). lra.
    - apply Rnot_le_lt in Hc.
      assert (Ht : 0 < n / (2 * c)).
      { unfold Rdiv. apply Rmult_lt_0_compat; [lra | apply Rinv_0_lt_compat; lra]. }
      specialize (H _ Ht). replace (n / (2 * c) * c) with (n / 2) in H by (field; lra). lra.
  Qed.

  Theorem quad_min_iff Q g q : IsQuad Q g q ->
    forall x, (forall x', Q x <= Q x') <-> g x = vzero.
  Proof.
    intros [Hex Hpos Hhom] x. split.
    - intros Hmin. apply ip_def.
      pose proof (ip_pos (g x)) as Hn.
      cut (ip (g x) (g x) <= 0); [lra|].
      apply small_nonpos with (c := q (g x)). intros t Ht.
      specialize (Hmin (vadd x (vscale (- t) (g x)))).
      rewrite Hex, Hhom, ip_scale_r in Hmin.
      assert (H1 : 0 <= t * (t * q (g x) - ip (g x) (g x))) by lra.
      apply Rmult_le_reg_l with t; auto. lra.
    - intros Hg x'. rewrite <- (vadd_vsub_cancel x x'), Hex, Hg, ip_0_l.
      pose proof (Hpos (vsub x' x)). lra.
  Qed.

  Lemma quad_zero : IsQuad (fun _ => 0) (fun _ => vzero) (fun _ => 0).
  Proof. split; intros; rewrite ?ip_0_l; lra. Qed.

  Lemma quad_sum Q1 g1 q1 Q2 g2 q2 : IsQuad Q1 g1 q1 -> IsQuad Q2 g2 q2 ->
    IsQuad (fun x => Q1 x + Q2 x) (fun x => vadd (g1 x) (g2 x)) (fun d => q1 d + q2 d).
  Proof.
    intros [E1 P1 H1] [E2 P2 H2]. split.
    - intros x d. rewrite E1, E2, ip_add_l. lra.
    - intros d. specialize (P1 d). specialize (P2 d). lra.
    - intros t d. rewrite H1, H2. lra.
  Qed.

  Local Notation EX := (@E X).

  (** data term  alpha * <W (A x - y), A x - y> *)
  Section Data.
    Variable Y : InnerSpace.
    Variable A : EX -> @E Y.
    Variable AH : @E Y -> EX.
    Variable W : @E Y -> @E Y.
    Variable y : @E Y.
    Variable alpha : R.
    Hypothesis HA : IsAdj A AH.
    Hypothesis HW : IsAdj W W.
    Hypothesis HWpos : forall v, 0 <= ip (W v) v.
    Hypothesis Halpha : 0 <= alpha.

    Definition data_obj0 (x : EX) : R := alpha * ip (W (vsub (A x) y)) (vsub (A x) y).
    Definition data_lhs0 (x : EX) : EX := vscale (2 * alpha) (AH (W (A x))).
    Definition data_rhs0 : EX := vscale (2 * alpha) (AH (W y)).

    Lemma data_quad : IsQuad data_obj0 (fun x => vsub (data_lhs0 x) data_rhs0)
                                   (fun d => alpha * ip (W (A d)) (A d)).
    Proof.
      pose proof (adj_linear A AH HA) as LA.
      pose proof (adj_linear W W HW) as LW.
      pose proof (adj_sym A AH HA) as HAs.
      split.
      - intros x d. unfold data_obj0, data_lhs0, data_rhs0.
        rewrite (lin_add A LA).
        unfold vsub. rewrite !(lin_add W LW), !(lin_opp W LW).
        ip_expand. rewrite !HAs.
        rewrite (HW (A d) (A x)), (ip_sym (A d) (W (A x))).
        rewrite (HW (A d) y), (ip_sym (A d) (W y)).
        rewrite (HW (A x) y), (ip_sym (A x) (W y)).
        generalize (ip (W (A x)) (A x)) (ip (W (A x)) (A d)) (ip (W (A d)) (A d))
                   (ip (W y) (A x)) (ip (W y) (A d)) (ip (W y) y).
        intros. lra.
      - intros d. pose proof (HWpos (A d)). nra.
      - intros t d. rewrite (lin_scale A LA), (lin_scale W LW). ip_expand. lra.
    Qed.
  End Data.

  (** one block  rho/2 * || v - C x ||^2 *)
  Section OneBlock.
    Variable Z : InnerSpace.
    Variable C : EX -> @E Z.
    Variable CH : @E Z -> EX.
    Variable rho : R.
    Variable v : @E Z.
    Hypothesis HC : IsAdj C CH.
    Hypothesis Hrho : 0 <= rho.

    Definition block_obj0 (x : EX) : R := rho / 2 * nsq (vsub v (C x)).
    Definition block_lhs0 (x : EX) : EX := vscale rho (CH (C x)).
    Definition block_rhs0 : EX := vscale rho (CH v).

    Lemma block_quad : IsQuad block_obj0 (fun x => vsub (block_lhs0 x) block_rhs0)
                                    (fun d => rho / 2 * nsq (C d)).
    Proof.
      pose proof (adj_linear C CH HC) as LC.
      pose proof (adj_sym C CH HC) as HCs.
      split.
      - intros x d. unfold block_obj0, block_lhs0, block_rhs0.
        rewrite (lin_add C LC). ip_expand. rewrite !HCs.
        rewrite (ip_sym (C d) (C x)), (ip_sym (C x) v), (ip_sym (C d) v).
        generalize (ip v v) (ip v (C x)) (ip v (C d)) (ip (C x) (C x)) (ip (C x) (C d)) (ip (C d) (C d)).
        intros. lra.
      - intros d. pose proof (nsq_pos (C d)). nra.
      - intros t d. rewrite (lin_scale C LC), nsq_scale. lra.
    Qed.
  End OneBlock.

  (** ** The sub-problem with an optional data term and a list of blocks *)
  Record Block := mkBlock {
    bS : InnerSpace;
    bC : EX -> @E bS;
    bCH : @E bS -> EX;
    brho : R;
    bz : @E bS;
    bu : @E bS }.

  Record DataTerm := mkData {
    dS : InnerSpace;
    dA : EX -> @E dS;
    dAH : @E dS -> EX;
    dW : @E dS -> @E dS;
    dy : @E dS;
    dalpha : R }.

  Definition bv (b : Block) : @E (bS b) := vsub (bz b) (bu b).

  Definition block_ok (b : Block) : Prop := IsAdj (bC b) (bCH b) /\ 0 <= brho b.
  Definition data_ok (f : DataTerm) : Prop :=
    IsAdj (dA f) (dAH f) /\ IsAdj (dW f) (dW f) /\ (forall v, 0 <= ip (dW f v) v) /\ 0 <= dalpha f.
  Definition odata_ok (f : option DataTerm) : Prop :=
    match f with Some d => data_ok d | None => True end.

  Definition block_obj (b : Block) := block_obj0 (bS b) (bC b) (brho b) (bv b).
  Definition block_lhs (b : Block) := block_lhs0 (bS b) (bC b) (bCH b) (brho b).
  Definition block_rhs (b : Block) := block_rhs0 (bS b) (bCH b) (brho b) (bv b).

  Definition data_obj (f : option DataTerm) (x : EX) : R :=
    match f with Some d => data_obj0 (dS d) (dA d) (dW d) (dy d) (dalpha d) x | None => 0 end.
  Definition data_lhs (f : option DataTerm) (x : EX) : EX :=
    match f with Some d => data_lhs0 (dS d) (dA d) (dAH d) (dW d) (dalpha d) x | None => vzero end.
  Definition data_rhs (f : option DataTerm) : EX :=
    match f with Some d => data_rhs0 (dS d) (dAH d) (dW d) (dy d) (dalpha d) | None => vzero end.
  Definition data_q (f : option DataTerm) (d : EX) : R :=
    match f with Some t => dalpha t * ip (dW t (dA t d)) (dA t d) | None => 0 end.

  Fixpoint blocks_obj (bs : list Block) (x : EX) : R :=
    match bs with [] => 0 | b :: r => block_obj b x + blocks_obj r x end.
  Fixpoint blocks_lhs (bs : list Block) (x : EX) : EX :=
    match bs with [] => vzero | b :: r => vadd (block_lhs b x) (blocks_lhs r x) end.
  Fixpoint blocks_rhs (bs : list Block) : EX :=
    match bs with [] => vzero | b :: r => vadd (block_rhs b) (blocks_rhs r) end.
  Fixpoint blocks_q (bs : list Block) (d : EX) : R :=
    match bs with [] => 0 | b :: r => brho b / 2 * nsq (bC b d) + blocks_q r d end.

  (** f(x) + sum_i rho_i/2 ||z_i - u_i - C_i x||^2 *)
  Definition sub_obj f bs (x : EX) : R := data_obj f x + blocks_obj bs x.
  (** (2 alpha A^H W A + sum_i rho_i C_i^H C_i) x *)
  Definition sys_lhs f bs (x : EX) : EX := vadd (data_lhs f x) (blocks_lhs bs x).
  (** 2 alpha A^H W y + sum_i rho_i C_i^H (z_i - u_i) *)
  Definition sys_rhs f bs : EX := vadd (data_rhs f) (blocks_rhs bs).
  Definition sys_q f bs (d : EX) : R := data_q f d + blocks_q bs d.

  Lemma blocks_quad bs : Forall block_ok bs ->
    IsQuad (blocks_obj bs) (fun x => vsub (blocks_lhs bs x) (blocks_rhs bs)) (blocks_q bs).
  Proof.
    induction 1 as [|b r [Hb1 Hb2] _ IH]; cbn [blocks_obj blocks_lhs blocks_rhs blocks_q].
    - destruct quad_zero as [E0 P0 H0]. split; intros; rewrite ?vsub_self, ?ip_0_l; lra.
    - pose proof (quad_sum _ _ _ _ _ _ (block_quad (bS b) (bC b) (bCH b) (brho b) (bv b) Hb1 Hb2) IH)
        as [E1 P1 H1].
      split; auto. intros x d. rewrite <- vsub_vadd_swap. apply E1.
  Qed.

  Lemma data_quad_opt f : odata_ok f ->
    IsQuad (data_obj f) (fun x => vsub (data_lhs f x) (data_rhs f)) (data_q f).
  Proof.
    destruct f as [d|]; cbn [data_obj data_lhs data_rhs data_q odata_ok].
    - intros (H1 & H2 & H3 & H4). apply data_quad; auto.
    - intros _. split; intros; unfold data_obj, data_q, data_lhs, data_rhs; rewrite ?vsub_self, ?ip_0_l; lra.
  Qed.

  Lemma sub_quad f bs : odata_ok f -> Forall block_ok bs ->
    IsQuad (sub_obj f bs) (fun x => vsub (sys_lhs f bs x) (sys_rhs f bs)) (sys_q f bs).
  Proof.
    intros Hf Hbs.
    pose proof (quad_sum _ _ _ _ _ _ (data_quad_opt f Hf) (blocks_quad bs Hbs)) as [E1 P1 H1].
    split; auto. intros x d. unfold sys_lhs, sys_rhs. rewrite <- vsub_vadd_swap. apply E1.
  Qed.

  (** *** Theorem 1: minimiser <-> normal equations, any number of blocks *)
  Theorem subproblem_min_iff_system f bs : odata_ok f -> Forall block_ok bs ->
    forall x, (forall x', sub_obj f bs x <= sub_obj f bs x') <-> sys_lhs f bs x = sys_rhs f bs.
  Proof.
    intros Hf Hbs x. rewrite (quad_min_iff _ _ _ (sub_quad f bs Hf Hbs) x). apply vsub_eq_iff.
  Qed.

  (** exact excess of the objective over its minimum: the quadratic form of the difference *)
  Theorem subproblem_excess f bs : odata_ok f -> Forall block_ok bs ->
    forall x x', sys_lhs f bs x = sys_rhs f bs ->
      sub_obj f bs x' = sub_obj f bs x + sys_q f bs (vsub x' x).
  Proof.
    intros Hf Hbs x x' Hx. destruct (sub_quad f bs Hf Hbs) as [E1 _ _].
    rewrite <- (vadd_vsub_cancel x x') at 1. rewrite E1.
    apply vsub_eq_iff in Hx. rewrite Hx, ip_0_l. lra.
  Qed.

  (** *** The left-hand operator: linear, self-adjoint, energy identity *)
  Lemma blocks_lhs_linear bs : Forall block_ok bs -> IsLinear (blocks_lhs bs).
  Proof.
    induction 1 as [|b r [Hb1 Hb2] _ [IHa IHs]]; cbn [blocks_lhs].
    - split; intros; [now rewrite vadd_0_r | now rewrite vscale_0_r].
    - pose proof (adj_linear _ _ Hb1) as LC. pose proof (adj_linear _ _ (adj_sym _ _ Hb1)) as LH.
      split; intros; unfold block_lhs, block_lhs0.
      + rewrite IHa, (lin_add _ LC), (lin_add _ LH), vscale_add_r.
        apply ip_ext; intros w. ip_expand. lra.
      + rewrite IHs, (lin_scale _ LC), (lin_scale _ LH), !vscale_scale, vscale_add_r, vscale_scale.
        f_equal. f_equal. lra.
  Qed.

  Lemma data_lhs_linear f : odata_ok f -> IsLinear (data_lhs f).
  Proof.
    destruct f as [d|]; cbn [data_obj data_lhs data_rhs data_q odata_ok].
    - intros (H1 & H2 & _ & _).
      pose proof (adj_linear _ _ H1) as LA. pose proof (adj_linear _ _ (adj_sym _ _ H1)) as LH.
      pose proof (adj_linear _ _ H2) as LW.
      split; intros; unfold data_lhs, data_lhs0.
      + now rewrite (lin_add _ LA), (lin_add _ LW), (lin_add _ LH), vscale_add_r.
      + rewrite (lin_scale _ LA), (lin_scale _ LW), (lin_scale _ LH), !vscale_scale. f_equal. lra.
    - intros _. split; intros; unfold data_lhs; [now rewrite vadd_0_r | now rewrite vscale_0_r].
  Qed.

  Lemma sys_lhs_linear f bs : odata_ok f -> Forall block_ok bs -> IsLinear (sys_lhs f bs).
  Proof.
    intros Hf Hbs. destruct (data_lhs_linear f Hf) as [Da Ds].
    destruct (blocks_lhs_linear bs Hbs) as [Ba Bs]. unfold sys_lhs. split; intros.
    - rewrite Da, Ba. apply ip_ext; intros w. ip_expand. lra.
    - now rewrite Ds, Bs, vscale_add_r.
  Qed.

  (** <L d, d> = 2 * (quadratic part) = 2 alpha <W A d, A d> + sum_i rho_i ||C_i d||^2 *)
  Lemma sys_lhs_energy f bs : odata_ok f -> Forall block_ok bs ->
    forall d, ip (sys_lhs f bs d) d = 2 * sys_q f bs d.
  Proof.
    intros Hf Hbs d. unfold sys_lhs, sys_q. rewrite ip_add_l.
    assert (Hd : ip (data_lhs f d) d = 2 * data_q f d).
    { destruct f as [t|]; cbn [data_obj data_lhs data_rhs data_q odata_ok] in *; [|rewrite ip_0_l; lra].
      destruct Hf as (H1 & _). unfold data_lhs0. rewrite ip_scale_l.
      rewrite (adj_sym _ _ H1). lra. }
    assert (Hb : ip (blocks_lhs bs d) d = 2 * blocks_q bs d).
    { clear Hd. induction Hbs as [|b r [Hb1 Hb2] _ IH]; cbn [blocks_lhs blocks_q].
      - rewrite ip_0_l. lra.
      - rewrite ip_add_l, IH. unfold block_lhs, block_lhs0. rewrite ip_scale_l.
        rewrite (adj_sym _ _ Hb1). unfold nsq. lra. }
    lra.
  Qed.

  Definition Definite (L : E -> E) : Prop := forall d, ip (L d) d <= 0 -> d = vzero.

  (** *** Theorem: uniqueness -- every two solutions of the system coincide when the
      left-hand operator is definite; hence all solvers applicable to one problem return
      the same x. *)
  Theorem system_solution_unique f bs : odata_ok f -> Forall block_ok bs ->
    Definite (sys_lhs f bs) ->
    forall x1 x2, sys_lhs f bs x1 = sys_rhs f bs -> sys_lhs f bs x2 = sys_rhs f bs -> x1 = x2.
  Proof.
    intros Hf Hbs Hdef x1 x2 H1 H2. apply vsub_eq_0, Hdef.
    rewrite (lin_sub _ (sys_lhs_linear f bs Hf Hbs)), H1, H2, vsub_self, ip_0_l. lra.
  Qed.

  Corollary minimiser_unique f bs : odata_ok f -> Forall block_ok bs ->
    Definite (sys_lhs f bs) ->
    forall x1 x2, (forall x', sub_obj f bs x1 <= sub_obj f bs x') ->
                  (forall x', sub_obj f bs x2 <= sub_obj f bs x') -> x1 = x2.
  Proof.
    intros Hf Hbs Hdef x1 x2 H1 H2.
    apply (system_solution_unique f bs Hf Hbs Hdef); apply subproblem_min_iff_system; auto.
  Qed.

  (** a block with an injective-from-below operator (e.g. the identity) and rho > 0 makes the
      system definite *)
  Lemma definite_of_block f bs b : odata_ok f -> Forall block_ok bs -> In b bs ->
    0 < brho b -> (forall d, nsq d <= nsq (bC b d)) -> Definite (sys_lhs f bs).
  Proof.
    intros Hf Hbs Hin Hrho Hinj d Hd. rewrite sys_lhs_energy in Hd by auto.
    apply nsq_0. pose proof (nsq_pos d) as Hn.
    assert (Hq : 0 <= data_q f d).
    { destruct f as [t|]; cbn [data_obj data_lhs data_rhs data_q odata_ok] in *; [|lra]. destruct Hf as (_ & _ & Hp & Ha).
      pose proof (Hp (dA t d)). nra. }
    assert (Hb : brho b / 2 * nsq d <= blocks_q bs d).
    { clear Hd Hq. induction Hbs as [|c r [Hc1 Hc2] Hr IH]; [destruct Hin|].
      cbn [blocks_q].
      assert (Hr0 : 0 <= blocks_q r d).
      { clear IH Hin. induction Hr as [|e r' [He1 He2] _ IH']; cbn [blocks_q]; [lra|].
        pose proof (nsq_pos (bC e d)). nra. }
      destruct Hin as [->|Hin].
      - specialize (Hinj d). nra.
      - specialize (IH Hin). pose proof (nsq_pos (bC c d)). nra. }
    unfold sys_q in Hd. nra.
  Qed.

  (** *** Stability: an approximate solution of the system (residual r) is within
      ||r|| / mu of the exact one when <L d, d> >= mu ||d||^2.  This is what "solves the
      system to the solver's accuracy" buys, and why solvers agree up to their accuracies. *)
  Theorem system_stability f bs mu : odata_ok f -> Forall block_ok bs -> 0 < mu ->
    (forall d, mu * nsq d <= ip (sys_lhs f bs d) d) ->
    forall xs x, sys_lhs f bs xs = sys_rhs f bs ->
      mu * norm (vsub x xs) <= norm (vsub (sys_lhs f bs x) (sys_rhs f bs)).
  Proof.
    intros Hf Hbs Hmu Hco xs x Hxs.
    set (d := vsub x xs). set (r := vsub (sys_lhs f bs x) (sys_rhs f bs)).
    assert (Hr : sys_lhs f bs d = r).
    { unfold d, r. rewrite (lin_sub _ (sys_lhs_linear f bs Hf Hbs)), Hxs. reflexivity. }
    pose proof (Hco d) as H1. rewrite Hr in H1.
    pose proof (cauchy_schwarz_norm r d) as H2.
    pose proof (norm_pos d) as Hd. pose proof (norm_pos r) as Hrr.
    rewrite <- norm_sq in H1.
    destruct (Req_dec (norm d) 0) as [H0|H0]; [rewrite H0; lra|].
    assert (0 < norm d) by lra. nra.
  Qed.
End Quad.
