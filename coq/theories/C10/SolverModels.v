(** C10 (2), (3), (5-operator level): faithful models of what the sub-problem solvers of
    scico/optimize/_admmaux.py assemble, in the operator calculus of scico
    (operator + operator, scalar * operator, C.gram_op, functools.reduce), and theorems that
    the assembled left-hand operator / right-hand side are exactly the two sides of the
    normal equations [sys_lhs] / [sys_rhs] of NormalEq.v, for arbitrary z, u, rho, alpha, W.

    Transcribed code:
      LinearSubproblemSolver.internal_init  (199-223)
          lhs_op = reduce(+, [rho_i * C_i.gram_op]);  if f: lhs_op += f.hessian
      SquaredL2Loss.hessian (loss.py 239-256)   x -> 2 * scale * A.adj(W(A(x)))
      LinearSubproblemSolver.compute_rhs    (225-250)
          rhs = 0; if f: rhs += 2.0 * scale * A.adj(W.diagonal * y)
          for i: rhs += rho_i * C_i.adj(z_i - u_i)
      MatrixSubproblemSolver.internal_init  (341-351)
          W' = 2.0 * scale * W ; Csum = reduce(+, [rho_i * C_i.gram_op]);
          MatrixATADSolver(A, Csum, W')      -- solves (A^H W' A + Csum) x = b
      FBlockCircularConvolveSolver          (599-618)
          D = reduce(+, [rho_i * gram_i]) / (2.0 * scale); ConvATADSolver(A, D)
          rhs = compute_rhs() / (2.0 * scale)           -- solves (A^H A + D) x = rhs
      G0BlockCircularConvolveSolver         (771-821)
          D = reduce(+, [rho_i * gram_i, i >= 2]) / (2.0 * g_1.scale * rho_1)
          compute_rhs: rhs = sum_i omega_i rho_i C_i^H (z_i - u_i), omega = [2 g_1.scale, 1, 1, ..]
          rhs / (2.0 * g_1.scale * rho_1)               -- solves (C_1^H C_1 + D) x = rhs *)
From Coq Require Import Reals Lra Psatz List.
From SV Require Import Base.InnerSpace C10.NormalEq C10.Woodbury.
Import ListNotations.
Open Scope R_scope.

Section Models.
  Context {X : InnerSpace}.
  Local Notation EX := (@E X).

  Definition Op := EX -> EX.
  Definition op_add (a b : Op) : Op := fun x => vadd (a x) (b x).       (* operator + operator *)
  Definition op_scale (c : R) (a : Op) : Op := fun x => vscale c (a x). (* scalar * operator *)
  Definition op_div (a : Op) (c : R) : Op := fun x => vscale (/ c) (a x). (* operator / scalar *)
  Definition gram_op (b : @Block X) : Op := fun x => bCH b (bC b x).      (* C.gram_op *)

  (** functools.reduce(lambda a, b: a + b, L): left fold; raises on the empty list *)
  Definition reduce_add (l : list Op) : option Op :=
    match l with [] => None | a :: r => Some (fold_left op_add r a) end.

  Definition rho_grams (bs : list (@Block X)) : list Op :=
    map (fun b => op_scale (brho b) (gram_op b)) bs.

  Definition hessian (f : @DataTerm X) : Op :=
    fun x => vscale (2 * dalpha f) (dAH f (dW f (dA f x))).

  Definition lhs_op_model (f : option (@DataTerm X)) (bs : list (@Block X)) : option Op :=
    match reduce_add (rho_grams bs) with
    | None => None
    | Some l => Some (match f with Some d => op_add l (hessian d) | None => l end)
    end.

  Definition compute_rhs_model (f : option (@DataTerm X)) (bs : list (@Block X)) : EX :=
    let rhs0 := vzero in
    let rhs1 := match f with
                | Some d => vadd rhs0 (vscale (2 * dalpha d) (dAH d (dW d (dy d))))
                | None => rhs0 end in
    fold_left (fun rhs b => vadd rhs (vscale (brho b) (bCH b (vsub (bz b) (bu b))))) bs rhs1.

  (** *** sums *)
  Fixpoint vsum (l : list EX) : EX := match l with [] => vzero | a :: r => vadd a (vsum r) end.

  Lemma fold_left_vadd {T} (t : T -> EX) (l : list T) (a : EX) :
    fold_left (fun acc b => vadd acc (t b)) l a = vadd a (vsum (map t l)).
  Proof.
    revert a. induction l as [|b r IH]; intros a; cbn [fold_left map vsum].
    - now rewrite vadd_0_r.
    - rewrite IH. now rewrite vadd_assoc.
  Qed.

  Lemma fold_left_op_add (l : list Op) (a : Op) x :
    fold_left op_add l a x = vadd (a x) (vsum (map (fun o => o x) l)).
  Proof.
    revert a. induction l as [|b r IH]; intros a; cbn [fold_left map vsum].
    - now rewrite vadd_0_r.
    - rewrite IH. unfold op_add. now rewrite vadd_assoc.
  Qed.

  Lemma blocks_lhs_vsum bs x :
    blocks_lhs bs x = vsum (map (fun o => o x) (rho_grams bs)).
  Proof. induction bs as [|b r IH]; cbn; [reflexivity|]. now rewrite IH. Qed.

  Lemma blocks_rhs_vsum bs :
    blocks_rhs bs = vsum (map (fun b => vscale (brho b) (bCH b (vsub (bz b) (bu b)))) bs).
  Proof. induction bs as [|b r IH]; cbn; [reflexivity|]. now rewrite IH. Qed.

  Lemma reduce_add_spec bs : bs <> [] ->
    exists Cs, reduce_add (rho_grams bs) = Some Cs /\ forall x, Cs x = blocks_lhs bs x.
  Proof.
    destruct bs as [|b r]; [congruence|]. intros _. cbn [rho_grams map reduce_add].
    eexists. split; [reflexivity|]. intros x.
    rewrite fold_left_op_add. cbn [blocks_lhs]. now rewrite blocks_lhs_vsum.
  Qed.

  (** *** Theorem 2a: the assembled [lhs_op] is the left-hand operator of system (1) *)
  Theorem lhs_op_model_spec f bs : bs <> [] ->
    exists L, lhs_op_model f bs = Some L /\ forall x, L x = sys_lhs f bs x.
  Proof.
    intros Hne. destruct (reduce_add_spec bs Hne) as (Cs & HCs & Hx).
    unfold lhs_op_model. rewrite HCs. eexists. split; [reflexivity|].
    intros x. unfold sys_lhs. destruct f as [d|]; cbn [data_lhs].
    - unfold op_add, hessian, data_lhs0. rewrite Hx. apply vadd_comm.
    - rewrite Hx. now rewrite vadd_0_l.
  Qed.

  (** *** Theorem 2b: [compute_rhs] is the right-hand side of system (1)
      -- with the loss scale alpha AND the weights W *)
  Theorem compute_rhs_model_spec f bs : compute_rhs_model f bs = sys_rhs f bs.
  Proof.
    unfold compute_rhs_model, sys_rhs. rewrite fold_left_vadd, <- blocks_rhs_vsum.
    destruct f as [d|]; cbn [data_rhs]; [|reflexivity].
    unfold data_rhs0. now rewrite vadd_0_l.
  Qed.

  (** *** LinearSubproblemSolver: an exact solve of the assembled system returns the minimiser;
      the residual of the assembled system is the residual of system (1). *)
  Theorem linear_solver_exact_is_minimiser f bs L x :
    odata_ok f -> Forall block_ok bs -> lhs_op_model f bs = Some L ->
    L x = compute_rhs_model f bs ->
    forall x', sub_obj f bs x <= sub_obj f bs x'.
  Proof.
    intros Hf Hbs HL Hx. apply subproblem_min_iff_system; auto.
    assert (Hne : bs <> []).
    { intros ->. unfold lhs_op_model in HL. cbn in HL. discriminate. }
    destruct (lhs_op_model_spec f bs Hne) as (L' & HL' & Hs).
    rewrite HL in HL'. injection HL' as <-. rewrite <- Hs, Hx. apply compute_rhs_model_spec.
  Qed.

  Theorem linear_solver_residual f bs L x :
    lhs_op_model f bs = Some L ->
    vsub (compute_rhs_model f bs) (L x) = vsub (sys_rhs f bs) (sys_lhs f bs x).
  Proof.
    intros HL.
    assert (Hne : bs <> []).
    { intros ->. unfold lhs_op_model in HL. cbn in HL. discriminate. }
    destruct (lhs_op_model_spec f bs Hne) as (L' & HL' & Hs).
    rewrite HL in HL'. injection HL' as <-. now rewrite Hs, compute_rhs_model_spec.
  Qed.

  (** *** MatrixSubproblemSolver *)
  Section Matrix.
    Variable d : @DataTerm X.
    Variable bs : list (@Block X).
    Hypothesis Hd : data_ok d.

    (** W' = 2.0 * scale * W *)
    Definition Wscaled : @E (dS d) -> @E (dS d) := fun v => vscale (2 * dalpha d) (dW d v).

    (** the system MatrixATADSolver(A, Csum, W') is constructed for, with b = compute_rhs() *)
    Definition matrix_system (Cs : Op) (x : EX) : Prop :=
      vadd (dAH d (Wscaled (dA d x))) (Cs x) = compute_rhs_model (Some d) bs.

    Lemma matrix_lhs_eq Cs x : (forall x, Cs x = blocks_lhs bs x) ->
      vadd (dAH d (Wscaled (dA d x))) (Cs x) = sys_lhs (Some d) bs x.
    Proof.
      intros HCs. destruct Hd as (H1 & _).
      pose proof (adj_linear _ _ (adj_sym _ _ H1)) as LH.
      unfold sys_lhs, Wscaled. cbn [data_lhs]. unfold data_lhs0.
      now rewrite (lin_scale _ LH), HCs.
    Qed.

    (** Theorem 3a: it is system (1) *)
    Theorem matrix_system_is_system1 Cs x :
      reduce_add (rho_grams bs) = Some Cs ->
      (matrix_system Cs x <-> sys_lhs (Some d) bs x = sys_rhs (Some d) bs).
    Proof.
      intros HCs. unfold matrix_system.
      assert (Hne : bs <> []) by (intros ->; cbn in HCs; discriminate).
      destruct (reduce_add_spec bs Hne) as (Cs' & HCs' & Hx).
      rewrite HCs in HCs'. injection HCs' as <-.
      rewrite (matrix_lhs_eq Cs x Hx), compute_rhs_model_spec. reflexivity.
    Qed.

    (** Theorem 3b: the Woodbury path (wide A, diagonal Csum).  [Dinv] is the elementwise
        division by the diagonal of Csum, [Winv] the division by the diagonal of W',
        [fact_solve] JAX's lu_solve / cho_solve for the factorised G. *)
    Variable Cs : Op.
    Variable Dinv : Op.
    Variable Winv : @E (dS d) -> @E (dS d).
    Variable fact_solve : @E (dS d) -> @E (dS d).
    Hypothesis HCs : reduce_add (rho_grams bs) = Some Cs.
    Hypothesis Dinv_add : forall a b, Dinv (vsub a b) = vsub (Dinv a) (Dinv b).
    Hypothesis D_Dinv : forall a, Cs (Dinv a) = a.
    Hypothesis W_Winv : forall a, Wscaled (Winv a) = a.
    Hypothesis fact_ok : forall u,
      vadd (Winv (fact_solve u)) (dA d (Dinv (dAH d (fact_solve u)))) = u.

    Definition matrix_woodbury_x : EX :=
      woodbury_solve EX (@E (dS d)) vadd vopp (dA d) (dAH d) Dinv fact_solve
                     (compute_rhs_model (Some d) bs).

    Theorem matrix_woodbury_solves_system1 :
      sys_lhs (Some d) bs matrix_woodbury_x = sys_rhs (Some d) bs.
    Proof.
      apply (matrix_system_is_system1 Cs _ HCs). unfold matrix_system, matrix_woodbury_x.
      destruct Hd as (H1 & _). pose proof (adj_linear _ _ H1) as LA.
      apply (woodbury_solve_correct EX (@E (dS d)) vadd vopp vzero vadd vopp vzero
               vadd_comm vadd_assoc vadd_0_r vadd_opp_r vadd_assoc vadd_0_r vadd_opp_r
               (dA d) (dAH d) Wscaled Winv Cs Dinv fact_solve).
      - intros a b. apply (lin_sub _ LA).
      - exact Dinv_add.
      - exact D_Dinv.
      - exact W_Winv.
      - exact fact_ok.
    Qed.

    Corollary matrix_woodbury_is_minimiser : Forall block_ok bs ->
      forall x', sub_obj (Some d) bs matrix_woodbury_x <= sub_obj (Some d) bs x'.
    Proof.
      intros Hbs. apply subproblem_min_iff_system; auto. apply matrix_woodbury_solves_system1.
    Qed.

    (** Theorem 3c: [accuracy] = rel_res(A^H W' A x + D x, b) is the relative residual of
        system (1).  [Cs x] is the APPLICATION of D = sum_i rho_i C_i^H C_i to x, for both
        representations the code keeps: a 1-D D (all C_i diagonal) acts as [D * x], a 2-D D
        (MatrixOperator C_i) as [D @ x] (solver.py accuracy(), since fix 25e555b; before it
        the 2-D case used the element-wise product and reported O(1) for an exact solution --
        the stream "all C_i MatrixOperator, check_solve=True" of vf/props/C10.py keeps checking
        the reported number against the exact relative residual). *)
    Definition rel_res (ax b : EX) : R := norm (vsub b ax) / norm b.
    Definition matrix_accuracy_model (x : EX) : R :=
      rel_res (vadd (dAH d (Wscaled (dA d x))) (Cs x)) (compute_rhs_model (Some d) bs).

    Theorem matrix_accuracy_is_relative_residual x :
      matrix_accuracy_model x = rel_res (sys_lhs (Some d) bs x) (sys_rhs (Some d) bs).
    Proof.
      unfold matrix_accuracy_model.
      assert (Hne : bs <> []) by (intros E0; rewrite E0 in HCs; cbn in HCs; discriminate).
      destruct (reduce_add_spec bs Hne) as (Cs' & HCs' & Hx).
      rewrite HCs in HCs'. injection HCs' as <-.
      now rewrite (matrix_lhs_eq Cs x Hx), compute_rhs_model_spec.
    Qed.
  End Matrix.

  (** *** FBlockCircularConvolveSolver, operator level: the scalings by 2*alpha *)
  Section FBlock.
    Variable d : @DataTerm X.
    Variable bs : list (@Block X).
    Hypothesis Hd : data_ok d.
    Hypothesis Halpha : 2 * dalpha d <> 0.

    (** what ConvATADSolver(f.A, D).solve(compute_rhs() / (2 alpha)) solves *)
    Definition fblock_system (Cs : Op) (x : EX) : Prop :=
      vadd (dAH d (dA d x)) (op_div Cs (2 * dalpha d) x)
      = vscale (/ (2 * dalpha d)) (compute_rhs_model (Some d) bs).

    (** it is the system with the weights missing on the left ... *)
    Theorem fblock_system_iff Cs x : reduce_add (rho_grams bs) = Some Cs ->
      (fblock_system Cs x <->
       vadd (vscale (2 * dalpha d) (dAH d (dA d x))) (blocks_lhs bs x) = sys_rhs (Some d) bs).
    Proof.
      intros HCs. unfold fblock_system, op_div.
      assert (Hne : bs <> []) by (intros ->; cbn in HCs; discriminate).
      destruct (reduce_add_spec bs Hne) as (Cs' & HCs' & Hx).
      rewrite HCs in HCs'. injection HCs' as <-.
      rewrite Hx, compute_rhs_model_spec.
      set (t := 2 * dalpha d) in *. split; intros H.
      - apply (f_equal (vscale t)) in H.
        rewrite vscale_add_r, !vscale_inv_cancel in H by exact Halpha. exact H.
      - apply (vscale_inj t); [exact Halpha|].
        rewrite vscale_add_r, !vscale_inv_cancel by exact Halpha. exact H.
    Qed.

    (** ... hence system (1) when W is the identity (the restricted property) *)
    Theorem fblock_system_is_system1_unweighted Cs x :
      (forall v, dW d v = v) -> reduce_add (rho_grams bs) = Some Cs ->
      (fblock_system Cs x <-> sys_lhs (Some d) bs x = sys_rhs (Some d) bs).
    Proof.
      intros HW HCs. rewrite (fblock_system_iff Cs x HCs).
      unfold sys_lhs. cbn [data_lhs]. unfold data_lhs0. rewrite HW. reflexivity.
    Qed.
  End FBlock.

  (** *** G0BlockCircularConvolveSolver, operator level *)
  Section G0.
    Variable b1 : @Block X.            (* C_1 = A (Sum o CircularConvolve), rho_1, z_1, u_1 *)
    Variable rest : list (@Block X).   (* the other blocks *)
    Variable omega : R.                (* g_1.scale *)
    Hypothesis Hscale : 2 * omega * brho b1 <> 0.

    (** G0's own compute_rhs: omega_list = [2 omega, 1, 1, ...] *)
    Definition g0_compute_rhs_model : EX :=
      let omegas := (2 * omega) :: map (fun _ => 1) rest in
      fold_left (fun rhs ob => vadd rhs (vscale (fst ob * brho (snd ob))
                                          (bCH (snd ob) (vsub (bz (snd ob)) (bu (snd ob))))))
                (combine omegas (b1 :: rest)) vzero.

    Definition g0_system (Cs : Op) (x : EX) : Prop :=
      vadd (gram_op b1 x) (op_div Cs (2 * omega * brho b1) x)
      = vscale (/ (2 * omega * brho b1)) g0_compute_rhs_model.

    Lemma g0_rhs_spec :
      g0_compute_rhs_model
      = vadd (vscale (2 * omega * brho b1) (bCH b1 (bv b1))) (blocks_rhs rest).
    Proof.
      unfold g0_compute_rhs_model. cbn [combine fold_left fst snd].
      rewrite vadd_0_l.
      assert (H : forall l a,
        fold_left (fun rhs ob => vadd rhs (vscale (fst ob * brho (snd ob))
                                   (bCH (snd ob) (vsub (bz (snd ob)) (bu (snd ob))))))
                  (combine (map (fun _ => 1) l) l) a
        = vadd a (blocks_rhs l)).
      { induction l as [|c r IH]; intros a; cbn [map combine fold_left blocks_rhs fst snd].
        - now rewrite vadd_0_r.
        - rewrite IH, Rmult_1_l. unfold block_rhs, block_rhs0, bv. now rewrite vadd_assoc. }
      rewrite H. reflexivity.
    Qed.

    (** what the code solves: (2 omega rho_1 C_1^H C_1 + sum_{i>=2} rho_i C_i^H C_i) x
                               = 2 omega rho_1 C_1^H v_1 + sum_{i>=2} rho_i C_i^H v_i *)
    Theorem g0_system_iff Cs x : reduce_add (rho_grams rest) = Some Cs ->
      (g0_system Cs x <->
       vadd (vscale (2 * omega * brho b1) (gram_op b1 x)) (blocks_lhs rest x)
       = vadd (vscale (2 * omega * brho b1) (bCH b1 (bv b1))) (blocks_rhs rest)).
    Proof.
      intros HCs. unfold g0_system, op_div.
      assert (Hne : rest <> []) by (intros ->; cbn in HCs; discriminate).
      destruct (reduce_add_spec rest Hne) as (Cs' & HCs' & Hx).
      rewrite HCs in HCs'. injection HCs' as <-.
      rewrite Hx, g0_rhs_spec.
      set (t := 2 * omega * brho b1) in *. split; intros H.
      - apply (f_equal (vscale t)) in H.
        rewrite vscale_add_r, !vscale_inv_cancel in H by exact Hscale. exact H.
      - apply (vscale_inj t); [exact Hscale|].
        rewrite vscale_add_r, !vscale_inv_cancel by exact Hscale. exact H.
    Qed.

    (** restricted property: with g_1.scale = 1/2 this is system (1) of the problem
        (f = 0, blocks b1 :: rest) *)
    Theorem g0_system_is_system1_when_scale_half Cs x :
      2 * omega = 1 -> reduce_add (rho_grams rest) = Some Cs ->
      (g0_system Cs x <-> sys_lhs None (b1 :: rest) x = sys_rhs None (b1 :: rest)).
    Proof.
      intros Hw HCs. rewrite (g0_system_iff Cs x HCs).
      unfold sys_lhs, sys_rhs. cbn [data_lhs data_rhs blocks_lhs blocks_rhs].
      rewrite !vadd_0_l. unfold block_lhs, block_lhs0, block_rhs, block_rhs0, gram_op.
      rewrite Hw, Rmult_1_l. reflexivity.
    Qed.
  End G0.
End Models.
