(** C10 (3): the Woodbury path of [scico.solver.MatrixATADSolver], algebraically.

    Vectors of the two sides live in two arbitrary abelian groups [V] (unknowns, size of D)
    and [U] (measurements, size of W); the matrices are additive maps between them, i.e. this
    is the statement in the (rectangular) ring of operators -- no scalars, no dimension, no
    commutativity are used, so it holds for real and complex matrices of every shape, and
    for matrix right-hand sides column by column.

    Code (solver.py):
      __init__  (N < M and D.ndim == 1):  G = diag(1/W) + A @ (A^H / D)      ; factor G
      solve     :  w = fact_solve(A @ (b / D)) ;  x = (b - A^H @ w) / D
      otherwise :  G = A^H W A + D ; x = fact_solve(b)

    [fact_solve] (LU / Cholesky solve of JAX) is a Section variable with the contract
    "G (fact_solve u) = u".  No axioms. *)

Section Woodbury.
  Variables V U : Type.
  Variable vplus : V -> V -> V.
  Variable vneg : V -> V.
  Variable v0 : V.
  Variable uplus : U -> U -> U.
  Variable uneg : U -> U.
  Variable u0 : U.
  Hypothesis vplus_comm : forall a b, vplus a b = vplus b a.
  Hypothesis vplus_assoc : forall a b c, vplus a (vplus b c) = vplus (vplus a b) c.
  Hypothesis vplus_0 : forall a, vplus a v0 = a.
  Hypothesis vplus_neg : forall a, vplus a (vneg a) = v0.
  Hypothesis uplus_comm : forall a b, uplus a b = uplus b a.
  Hypothesis uplus_assoc : forall a b c, uplus a (uplus b c) = uplus (uplus a b) c.
  Hypothesis uplus_0 : forall a, uplus a u0 = a.
  Hypothesis uplus_neg : forall a, uplus a (uneg a) = u0.

  Definition vminus a b := vplus a (vneg b).
  Definition uminus a b := uplus a (uneg b).

  Variable A : V -> U.          (* A *)
  Variable AH : U -> V.         (* A^H *)
  Variable W Winv : U -> U.     (* W and 1/W *)
  Variable D Dinv : V -> V.     (* D and 1/D (diagonal on this path) *)
  Variable fact_solve : U -> U. (* lu_solve / cho_solve with the stored factorisation *)

  Hypothesis A_sub : forall a b, A (vminus a b) = uminus (A a) (A b).
  Hypothesis Dinv_sub : forall a b, Dinv (vminus a b) = vminus (Dinv a) (Dinv b).
  Hypothesis D_Dinv : forall a, D (Dinv a) = a.
  Hypothesis W_Winv : forall a, W (Winv a) = a.

  (** the matrix the code factorises on the Woodbury path *)
  Definition G (u : U) : U := uplus (Winv u) (A (Dinv (AH u))).
  Hypothesis fact_solve_ok : forall u, G (fact_solve u) = u.

  (** the code's [solve] on the Woodbury path *)
  Definition woodbury_solve (b : V) : V :=
    let w := fact_solve (A (Dinv b)) in
    Dinv (vminus b (AH w)).

  Lemma vplus_minus_cancel a b : vplus a (vminus b a) = b.
  Proof.
    unfold vminus. rewrite (vplus_comm b), vplus_assoc, vplus_neg, vplus_comm. apply vplus_0.
  Qed.
  Lemma uplus_minus_r p q : uminus (uplus p q) q = p.
  Proof. unfold uminus. rewrite <- uplus_assoc, uplus_neg. apply uplus_0. Qed.

  (** (A^H W A + D) x = b  for the x returned on the Woodbury path *)
  Theorem woodbury_solve_correct b :
    vplus (AH (W (A (woodbury_solve b)))) (D (woodbury_solve b)) = b.
  Proof.
    unfold woodbury_solve. set (w := fact_solve (A (Dinv b))).
    assert (HG : uplus (Winv w) (A (Dinv (AH w))) = A (Dinv b)) by apply fact_solve_ok.
    rewrite D_Dinv.
    rewrite Dinv_sub, A_sub, <- HG, uplus_minus_r, W_Winv.
    apply vplus_minus_cancel.
  Qed.

  (** the direct path (tall A or full D): G' = A^H W A + D itself is factorised and
      x = fact_solve b, so (A^H W A + D) x = b is literally the contract of fact_solve. *)
End Woodbury.
