(** Case checkers for the C11 / C03 correspondence: documented step / initial state / accessor
    expressions ([Spec_*]) instantiated at the executable signature ([Exec]) and compared with
    what the real optimiser object did.  Each checker returns the list of failing component
    codes [100 * case + component]. *)
From Coq Require Import List Bool ZArith QArith Qcanon.
From SV Require Import Base.Num C11.Overload C11.Exec.
From SV Require C11.Spec_LADMM C11.Spec_PADMM C11.Spec_NLPADMM C11.Spec_PDHG C11.Spec_PGM C11.Spec_ADMM.
From SVGen Require C11_Ladmm C11_Padmm C11_Nlpadmm C11_Pdhg C11_Pgm C11_Apgm C11_Admm.
Import ListNotations.
Local Open Scope nat_scope.

Definition ovec (o : option vec) (b : vec) : bool := match o with Some a => vclose a b | None => true end.

(** components: 1.. state after step; 11 objective(), 12 objective(args), 13 primal(),
    14 primal(args) vs documented, 15 primal(args) vs value at the current iterate,
    16 dual vs documented, 17 dual vs alternative expression; 31.. initial state *)
Module LA.
  Import C11_Ladmm Spec_LADMM.
  Notation st := (st Qc vec vec).
  Definition check (case : nat) (x0 : option vec) (ini pre post : st)
             (obj0 : Qc) (ax : vec) (az : vec) (obj1 : Qc) (pr0 pr1 du : Qc) : list nat :=
    let s' := step_spec pre in
    let i := init_spec (la_f pre) (la_g pre) (la_C pre) (la_mu pre) (la_nu pre) x0 in
    fails case
      [(1, vclose (la_x s') (la_x post)); (2, vclose (la_z s') (la_z post));
       (3, vclose (la_z_old s') (la_z_old post)); (4, vclose (la_u s') (la_u post));
       (11, qclose (objective_doc post (la_x post) (la_z post)) obj0);
       (12, qclose (objective_doc post ax az) obj1);
       (13, qclose (primal_residual_doc post (la_x post)) pr0);
       (14, qclose (primal_residual_doc post ax) pr1);
       (15, qclose (primal_residual_doc post (la_x post)) pr1);
       (16, qclose (dual_residual_doc post) du);
       (17, qclose (dual_residual_impl post) du);
       (31, vclose (la_x i) (la_x ini)); (32, vclose (la_z i) (la_z ini));
       (33, vclose (la_z_old i) (la_z_old ini)); (34, vclose (la_u i) (la_u ini))].
End LA.

Module PA.
  Import C11_Padmm Spec_PADMM.
  Notation st := (st Qc vec vec).
  (** [dB], [dc]: were B / c passed to the constructor?  [ini] is the object after __init__ *)
  Definition check (case : nat) (x0 z0 u0 : option vec) (dB dc : bool) (ini pre post : st)
             (obj0 : Qc) (ax az : vec) (obj1 pr0 pr1 du : Qc) : list nat :=
    let s' := step_spec pre in
    let i0 := init_ABc_spec pre (pa_A pre) (if dB then Some (pa_B pre) else None)
                            (if dc then Some (pa_c pre) else None) in
    let i := init_base_spec i0 (pa_f pre) (pa_g pre) (pa_rho pre) (pa_mu pre) (pa_nu pre) x0 z0 u0
                            (pa_fast_dual_residual pre) in
    let probe := ax in
    fails case
      [(1, vclose (pa_x s') (pa_x post)); (2, vclose (pa_z s') (pa_z post));
       (3, vclose (pa_z_old s') (pa_z_old post)); (4, vclose (pa_u s') (pa_u post));
       (5, vclose (pa_u_old s') (pa_u_old post));
       (11, qclose (objective_doc post (pa_x post) (pa_z post)) obj0);
       (12, qclose (objective_doc post ax az) obj1);
       (13, qclose (primal_residual_doc post (pa_x post) (pa_z post)) pr0);
       (14, qclose (primal_residual_doc post ax az) pr1);
       (16, qclose (dual_residual_doc post) du);
       (31, vclose (pa_x i) (pa_x ini)); (32, vclose (pa_z i) (pa_z ini));
       (33, vclose (pa_z_old i) (pa_z_old ini)); (34, vclose (pa_u i) (pa_u ini));
       (35, vclose (pa_u_old i) (pa_u_old ini));
       (* default B = -I, c = 0: compare the operators' action on a probe vector *)
       (36, vclose (fwd (pa_B i) az) (fwd (pa_B ini) az) && vclose (adj (pa_B i) az) (adj (pa_B ini) az));
       (37, vclose (pa_c i) (pa_c ini))].
End PA.

Module NL.
  Import C11_Nlpadmm Spec_NLPADMM.
  Notation st := (st Qc vec vec vec).
  Definition check (case : nat) (x0 z0 u0 : option vec) (ini pre post : st)
             (obj0 : Qc) (ax az : vec) (obj1 pr0 pr1 du : Qc) : list nat :=
    let s' := step_spec pre in
    let i := init_base_spec pre (nl_f pre) (nl_g pre) (nl_rho pre) (nl_mu pre) (nl_nu pre) x0 z0 u0
                            (nl_fast_dual_residual pre) in
    fails case
      [(1, vclose (nl_x s') (nl_x post)); (2, vclose (nl_z s') (nl_z post));
       (3, vclose (nl_z_old s') (nl_z_old post)); (4, vclose (nl_u s') (nl_u post));
       (5, vclose (nl_u_old s') (nl_u_old post));
       (11, qclose (objective_doc post (nl_x post) (nl_z post)) obj0);
       (12, qclose (objective_doc post ax az) obj1);
       (13, qclose (primal_residual_doc post (nl_x post) (nl_z post)) pr0);
       (14, qclose (primal_residual_doc post ax az) pr1);
       (16, qclose (dual_residual_doc post) du);
       (31, vclose (nl_x i) (nl_x ini)); (32, vclose (nl_z i) (nl_z ini));
       (33, vclose (nl_z_old i) (nl_z_old ini)); (34, vclose (nl_u i) (nl_u ini));
       (35, vclose (nl_u_old i) (nl_u_old ini))].
End NL.

Module PD.
  Import C11_Pdhg Spec_PDHG.
  Notation st := (st Qc vec vec).
  Definition check (case : nat) (x0 z0 : option vec) (ini pre post : st)
             (obj0 : Qc) (ax : vec) (obj1 pr0 du : Qc) : list nat :=
    let s' := step_spec pre in
    let i := init_spec (pd_f pre) (pd_g pre) (pd_C pre) (pd_tau pre) (pd_sigma pre) (pd_alpha pre) x0 z0 in
    fails case
      [(1, vclose (pd_x s') (pd_x post)); (2, vclose (pd_x_old s') (pd_x_old post));
       (3, vclose (pd_z s') (pd_z post)); (4, vclose (pd_z_old s') (pd_z_old post));
       (11, qclose (objective_doc post (pd_x post)) obj0);
       (12, qclose (objective_doc post ax) obj1);
       (13, qclose (primal_residual_doc post) pr0);
       (16, qclose (dual_residual_doc post) du);
       (31, vclose (pd_x i) (pd_x ini)); (32, vclose (pd_x_old i) (pd_x_old ini));
       (33, vclose (pd_z i) (pd_z ini)); (34, vclose (pd_z_old i) (pd_z_old ini))].
End PD.

Module PG.
  Import C11_Pgm Spec_PGM.
  Notation st := (st Qc vec).
  Definition check (case : nat) (pre post : st) (obj0 : Qc) (ax ay : vec) (aL : Qc)
             (obj1 quad res : Qc) : list nat :=
    let s' := pgm_step_spec pre in
    fails case
      [(1, vclose (pg_x s') (pg_x post)); (2, qclose (pg_L s') (pg_L post));
       (3, qclose (pg_fixed_point_residual s') (pg_fixed_point_residual post));
       (11, qclose (pgm_objective_doc post (pg_x post)) obj0);
       (12, qclose (pgm_objective_doc post ax) obj1);
       (13, qclose (quad_approx_doc post ax ay aL) quad);
       (14, qclose (pg_fixed_point_residual s') res)].
End PG.

Module AP.
  Import C11_Apgm Spec_PGM.
  Notation st := (st Qc vec).
  Definition check (case : nat) (x0 : vec) (ini pre post : st) (obj0 : Qc) (ax : vec)
             (obj1 res : Qc) : list nat :=
    let s' := apgm_step_spec pre in
    let i := init_vt_gen ini x0 in
    fails case
      [(1, vclose (ap_x s') (ap_x post)); (2, vclose (ap_v s') (ap_v post));
       (3, qclose (ap_t s') (ap_t post)); (4, qclose (ap_L s') (ap_L post));
       (5, qclose (ap_fixed_point_residual s') (ap_fixed_point_residual post));
       (11, qclose (apgm_objective_doc post (ap_x post)) obj0);
       (12, qclose (apgm_objective_doc post ax) obj1);
       (14, qclose (ap_fixed_point_residual s') res);
       (31, vclose x0 (ap_v ini)); (32, qclose 1%Qc (ap_t ini)); (33, vclose x0 (ap_x ini))].
End AP.

Module AD.
  Import C11_Admm Spec_ADMM.
  Notation st := (st Qc vec vec).
  (** the x-update is the implementation's own (oracle): [pre]'s solver returns it *)
  Definition check (case : nat) (x0 : option vec) (ini pre post : st)
             (obj0 : Qc) (ax : vec) (azl : list vec) (obj1 pr0 pr1 du : Qc) : list nat :=
    let s' := step_spec pre in
    let i := init_spec pre x0 in
    fails case
      [(1, vclose (ad_x s') (ad_x post)); (2, lclose (ad_z_list s') (ad_z_list post));
       (3, lclose (ad_z_list_old s') (ad_z_list_old post)); (4, lclose (ad_u_list s') (ad_u_list post));
       (11, qclose (objective_doc post (ad_x post) (ad_z_list post)) obj0);
       (12, qclose (objective_doc post ax azl) obj1);
       (13, qclose (primal_residual_doc post (ad_x post)) pr0);
       (14, qclose (primal_residual_doc post ax) pr1);
       (15, qclose (primal_residual_doc post (ad_x post)) pr1);
       (16, qclose (dual_residual_doc post) du);
       (31, vclose (ad_x i) (ad_x ini)); (32, lclose (ad_z_list i) (ad_z_list ini));
       (33, lclose (ad_z_list_old i) (ad_z_list_old ini)); (34, lclose (ad_u_list i) (ad_u_list ini))].
End AD.
