(** Executable instance of the generated/specified optimiser steps: scalars Qc, vectors
    list Qc (complex vectors interleaved re/im, block arrays concatenated), dense matrices,
    closed-form proxes.  Used by vf/props/C11.py and C03.py: the state of the REAL optimiser
    before a step is fed to [step_spec] and the result compared (with a tolerance, since the
    implementation rounds and sqrt is approximated here) with the state after the real step. *)
From Coq Require Import List Bool ZArith QArith Qcanon.
From SV Require Import Base.Num C11.Overload.
Import ListNotations.

Definition vec := list Qc.
Definition q (n : Z) (d : positive) : Qc := Q2Qc (n # d).

(** list vectors; a shorter vector is implicitly zero-padded, so [] is the zero of any shape *)
Fixpoint vzip (f : Qc -> Qc -> Qc) (a b : vec) : vec :=
  match a, b with
  | [], _ => map (f 0%Qc) b
  | _, [] => map (fun x => f x 0%Qc) a
  | x :: a', y :: b' => f x y :: vzip f a' b'
  end.
Fixpoint vdotq (a b : vec) : Qc :=
  match a, b with x :: a', y :: b' => (x * y + vdotq a' b')%Qc | _, _ => 0%Qc end.
#[export] Instance VecOps_Qc : VecOps Qc vec := {|
  vz := []; vadd_ := vzip Qcplus; vsub_ := vzip Qcminus; vneg_ := map Qcopp;
  vscale_ := fun a => map (Qcmult a); vdot_ := vdotq |}.

(** sqrt to ~2^-40: floor(sqrt(n d 4^40)) / (d 2^40) *)
Definition qsqrt (a : Qc) : Qc :=
  let n := Qnum (this a) in let d := Qden (this a) in
  if (n <=? 0)%Z then 0%Qc
  else Q2Qc (Z.sqrt (n * Zpos d * 2 ^ 80) # (d * 2 ^ 40)).
#[export] Instance Sqrt_Qc : Sqrt Qc := qsqrt.

(** dense matrices (list of rows) *)
Definition matrix := list vec.
Definition matvec (M : matrix) (x : vec) : vec := map (fun r => vdotq r x) M.
Fixpoint transpose_aux (n : nat) (M : matrix) : matrix :=
  match n with
  | O => []
  | S k => map (fun r => hd 0%Qc r) M :: transpose_aux k (map (fun r => tl r) M)
  end.
Definition transpose (M : matrix) : matrix := transpose_aux (length (hd [] M)) M.
Definition vmul (a b : vec) : vec := vzip Qcmult a b.

(** operators: matrix M (linear), or the quadratic map x |-> M (x + d.x.x) (non-linear) *)
Definition op_mat (M : matrix) : Op vec vec :=
  let MT := transpose M in
  mkOp (matvec M) (matvec MT) (fun _ => matvec MT) true.
Definition op_quad (M : matrix) (d : vec) : Op vec vec :=
  let MT := transpose M in
  mkOp (fun x => matvec M (vadd_ x (vmul d (vmul x x))))
       (fun _ => [])
       (fun x z => vmul (vadd_ (map (fun _ => 1%Qc) x) (vscale_ (q 2 1) (vmul d x))) (matvec MT z))
       false.

(** H(x, z) = M (x + d.x.x) - (z + e.z.z)  (NonLinearPADMM test function) *)
Definition fun2_quad (M : matrix) (d e : vec) : Fun2 vec vec vec :=
  let MT := transpose M in
  mkFun2 (fun x z => vsub_ (matvec M (vadd_ x (vmul d (vmul x x)))) (vadd_ z (vmul e (vmul z z))))
         (fun x _ w => vmul (vadd_ (map (fun _ => 1%Qc) x) (vscale_ (q 2 1) (vmul d x))) (matvec MT w))
         (fun _ z w => vneg_ (vmul (vadd_ (map (fun _ => 1%Qc) z) (vscale_ (q 2 1) (vmul e z))) w)).

(** derivative oracles, exact for maps of degree <= 2: J(p) u = (F(p+u) - F(p-u)) / 2 *)
Definition jvp_fd (F : vec -> vec) (p u : vec) : vec :=
  vscale_ (q 1 2) (vsub_ (F (vadd_ p u)) (F (vsub_ p u))).
Fixpoint basis (n i : nat) : vec :=
  match n with O => [] | S k => (match i with O => 1%Qc | _ => 0%Qc end) :: basis k (pred i) end.
Definition unit_vec (n i : nat) : vec := map (fun j => if Nat.eqb i j then 1%Qc else 0%Qc) (seq 0 n).
Definition cvjp_fd (F : vec -> vec) (p w : vec) : vec :=
  map (fun j => vdotq (jvp_fd F p (unit_vec (length p) j)) w) (seq 0 (length p)).
#[export] Instance Jvp_Qc : JvpOracle vec vec := jvp_fd.
#[export] Instance Cvjp_Qc : CvjpOracle vec vec := cvjp_fd.

(** functionals with closed-form prox (lam > 0) *)
Definition qabs (a : Qc) : Qc := if Qc_leb 0%Qc a then a else (- a)%Qc.
Definition soft (lam a : Qc) : Qc :=
  if Qc_leb a (- lam)%Qc then (a + lam)%Qc else if Qc_leb lam a then (a - lam)%Qc else 0%Qc.
Fixpoint pairs_map (f : Qc -> Qc -> Qc * Qc) (v : vec) : vec :=
  match v with a :: b :: r => let '(a', b') := f a b in a' :: b' :: pairs_map f r | _ => v end.
Fixpoint pairs_sum (f : Qc -> Qc -> Qc) (v : vec) : Qc :=
  match v with a :: b :: r => (f a b + pairs_sum f r)%Qc | _ => 0%Qc end.
Definition csoft (lam a b : Qc) : Qc * Qc :=
  let r := qsqrt (a * a + b * b) in
  if Qc_leb r lam then (0%Qc, 0%Qc) else let s := (1 - lam / r)%Qc in ((s * a)%Qc, (s * b)%Qc).
Definition vsumq (v : vec) : Qc := fold_left Qcplus v 0%Qc.

Inductive fspec :=
| FZero
| FSqL2 (c : Qc)                       (* c ||x||^2 *)
| FLossD (a : Qc) (d y : vec)          (* a || y - d.x ||^2, real diagonal d *)
| FLossM (a : Qc) (M : matrix) (y : vec)   (* a || y - M x ||^2 : eval and grad only *)
| FL1 (c : Qc)                         (* c ||x||_1, real entries *)
| FL1C (c : Qc)                        (* c sum |x_j|, complex entries interleaved *)
| FNonNeg
| FBall (r : Qc).                      (* indicator of the l2 ball of radius r (exact projection) *)

Definition f_eval (f : fspec) (x : vec) : Qc :=
  match f with
  | FZero | FNonNeg | FBall _ => 0%Qc
  | FSqL2 c => (c * vdotq x x)%Qc
  | FLossD a d y => let r := vsub_ y (vmul d x) in (a * vdotq r r)%Qc
  | FLossM a M y => let r := vsub_ y (matvec M x) in (a * vdotq r r)%Qc
  | FL1 c => (c * vsumq (map qabs x))%Qc
  | FL1C c => (c * pairs_sum (fun a b => qsqrt (a * a + b * b)) x)%Qc
  end.
Definition f_prox (f : fspec) (v : vec) (lam : Qc) : vec :=
  match f with
  | FZero => v
  | FSqL2 c => vscale_ (1 / (1 + q 2 1 * c * lam))%Qc v
  | FLossD a d y =>
      let c := (q 2 1 * a * lam)%Qc in
      vzip Qcdiv (vadd_ (vscale_ c (vmul d y)) v) (vadd_ (vscale_ c (vmul d d)) (map (fun _ => 1%Qc) v))
  | FLossM _ _ _ => v                  (* not used through prox *)
  | FL1 c => map (soft (c * lam)%Qc) v
  | FL1C c => pairs_map (csoft (c * lam)%Qc) v
  | FNonNeg => map (fun a => if Qc_leb 0%Qc a then a else 0%Qc) v
  | FBall r => let n := qsqrt (vdotq v v) in if Qc_leb n r then v else vscale_ (r / n)%Qc v
  end.
Definition f_grad (f : fspec) (x : vec) : vec :=
  match f with
  | FSqL2 c => vscale_ (q 2 1 * c)%Qc x
  | FLossD a d y => vscale_ (q 2 1 * a)%Qc (vmul d (vsub_ (vmul d x) y))
  | FLossM a M y => vscale_ (q 2 1 * a)%Qc (matvec (transpose M) (vsub_ (matvec M x) y))
  | _ => []
  end.
Definition mkF (f : fspec) : Func Qc vec := mkFunc (f_eval f) (f_prox f) (f_grad f).

(** comparison with the implementation's floats *)
Definition tol : Qc := q 1 (2 ^ 30).
Definition qclose (a b : Qc) : bool := Qc_leb (qabs (a - b)) (tol * (1 + qabs b))%Qc.
Fixpoint vclose (a b : vec) : bool :=
  match a, b with
  | [], _ => forallb (fun y => qclose 0%Qc y) b
  | _, [] => forallb (fun x => qclose x 0%Qc) a
  | x :: a', y :: b' => qclose x y && vclose a' b'
  end.
Fixpoint lclose (a b : list vec) : bool :=
  match a, b with
  | [], [] => true
  | x :: a', y :: b' => vclose x y && lclose a' b'
  | _, _ => false
  end.

(** report: a list of codes  100 * case + component  for every failing component *)
Definition fails (case : nat) (checks : list (nat * bool)) : list nat :=
  map (fun c => (100 * case + fst c)%nat) (filter (fun c => negb (snd c)) checks).
