(** Notation used by the hand-written specifications (update equations transcribed from the
    class docstrings).  Deliberately NOT the overloaded notations of the generated code:
    the specs name the vector-space operations directly. *)
From Coq Require Import List Bool ZArith.
From SV Require Import Base.Num C11.Overload.
Import ListNotations.

Declare Scope spec_scope.
Delimit Scope spec_scope with spec.
Infix "+v" := vadd_ (at level 50, left associativity) : spec_scope.
Infix "-v" := vsub_ (at level 50, left associativity) : spec_scope.
Infix "*v" := vscale_ (at level 40, left associativity) : spec_scope.
Infix "+k" := kadd (at level 50, left associativity) : spec_scope.
Infix "-k" := ksub (at level 50, left associativity) : spec_scope.
Infix "*k" := kmul (at level 40, left associativity) : spec_scope.
Infix "/k" := kdiv (at level 40, left associativity) : spec_scope.

(** prox_{lam f}(v): scico's [f.prox(v, lam)] *)
Notation "'prox[' lam ',' f ']' v" := (fprox f v lam) (at level 10, v at level 9) : spec_scope.

(** n-fold histories agree when one step agrees *)
Lemma history_agrees {A} (f g : A -> A) :
  (forall a, f a = g a) -> forall n a, iter f n a = iter g n a.
Proof. exact (iter_ext f g). Qed.

(** invariant-restricted version: steps agree on states satisfying [P], and [g] preserves [P] *)
Lemma history_agrees_inv {A} (P : A -> Prop) (f g : A -> A) :
  (forall a, P a -> f a = g a) -> (forall a, P a -> P (g a)) ->
  forall n a, P a -> iter f n a = iter g n a.
Proof.
  intros H Hp n. induction n; intros a Pa; cbn; [reflexivity|].
  rewrite (H a Pa). apply IHn. apply Hp. exact Pa.
Qed.
