(** ADMM: update equations of the class docstring (scico/optimize/_admm.py), N blocks

      x+   = argmin_x f(x) + sum_i rho_i/2 || z_i - u_i - C_i x ||^2     (sub-problem solver)
      z_i+ = prox_{g_i / rho_i}( C_i x+ + u_i )
      u_i+ = u_i + C_i x+ - z_i+

    with relaxation (alpha <> 1: C_i x+ is replaced by alpha C_i x+ + (1 - alpha) z_i;
    "no relaxation for default 1.0").  The x-update is an abstract solver that reads the
    current z_list / u_list (C10 is about the solvers).  The generated [step] is a fold over
    enumerate(zip(...)) that writes list items in place; the spec is a map over the blocks.
    They agree on every state whose per-block lists have equal lengths (the constructor
    rejects other inputs, z/u are created from C_list, and a step preserves the lengths). *)
From Coq Require Import List Bool ZArith Lia.
From SV Require Import Base.Num C11.Overload C11.SpecBase.
From SVGen Require Import C11_Admm.
Import ListNotations.
Local Open Scope spec_scope.

Section ListFacts.
  Context {T A B : Type}.
  Lemma fold_left_ext {S I} (f g : S -> I -> S) :
    (forall a i, f a i = g a i) -> forall l a, fold_left f l a = fold_left g l a.
  Proof. intros H l. induction l; intros a0; cbn; [reflexivity|]. rewrite H. apply IHl. Qed.

  Lemma upd_nth_app {C} (pre : list C) a b r : upd_nth (length pre) a (pre ++ b :: r) = pre ++ a :: r.
  Proof. induction pre; cbn; [reflexivity|]. now rewrite IHpre. Qed.

  Variable F : T -> A * B.
  Definition upd_body (acc : list A * list B) (it : nat * T) : list A * list B :=
    (upd_nth (fst it) (fst (F (snd it))) (fst acc), upd_nth (fst it) (snd (F (snd it))) (snd acc)).

  Lemma fold_upd_nth : forall items pre1 mid1 post1 pre2 mid2 post2,
    length mid1 = length items -> length mid2 = length items -> length pre1 = length pre2 ->
    fold_left upd_body (combine (seq (length pre1) (length items)) items)
              (pre1 ++ mid1 ++ post1, pre2 ++ mid2 ++ post2)
    = (pre1 ++ map (fun t => fst (F t)) items ++ post1, pre2 ++ map (fun t => snd (F t)) items ++ post2).
  Proof.
    induction items as [|t r IH]; intros pre1 mid1 post1 pre2 mid2 post2 H1 H2 Hp.
    - destruct mid1; [|discriminate]. destruct mid2; [|discriminate]. reflexivity.
    - destruct mid1 as [|m1 mid1]; [discriminate|]. destruct mid2 as [|m2 mid2]; [discriminate|].
      cbn [length seq combine fold_left]. unfold upd_body at 2. cbn [fst snd app].
      rewrite upd_nth_app. rewrite Hp at 2. rewrite upd_nth_app.
      replace (pre1 ++ fst (F t) :: mid1 ++ post1) with ((pre1 ++ [fst (F t)]) ++ mid1 ++ post1)
        by (rewrite <- app_assoc; reflexivity).
      replace (pre2 ++ snd (F t) :: mid2 ++ post2) with ((pre2 ++ [snd (F t)]) ++ mid2 ++ post2)
        by (rewrite <- app_assoc; reflexivity).
      replace (S (length pre1)) with (length (pre1 ++ [fst (F t)])) by (rewrite app_length; cbn; lia).
      rewrite IH.
      + cbn [map]. rewrite <- !app_assoc. reflexivity.
      + cbn in H1. lia.
      + cbn in H2. lia.
      + rewrite !app_length. cbn. lia.
  Qed.

  Corollary fold_upd_nth_all : forall items (za : list A) (ub : list B),
    length za = length items -> length ub = length items ->
    fold_left upd_body (enumerate items) (za, ub)
    = (map (fun t => fst (F t)) items, map (fun t => snd (F t)) items).
  Proof.
    intros items za ub H1 H2. unfold enumerate.
    pose proof (fold_upd_nth items [] za [] [] ub [] H1 H2 eq_refl) as H.
    cbn [length app] in H. rewrite !app_nil_r in H. exact H.
  Qed.
End ListFacts.

Section Spec.
  Context {K : Type} {NK : Num K} {SK : Sqrt K} {X : Type} {VX : VecOps K X} {Z : Type} {VZ : VecOps K Z}.
  Notation st := (st K X Z).
  Notation block := (K * (Func K Z * (Op X Z * (Z * Z))))%type.

  Definition blocks (s : st) : list block :=
    combine (ad_rho_list s) (combine (ad_g_list s) (combine (ad_C_list s) (combine (ad_z_list s) (ad_u_list s)))).

  Definition relaxed (alpha : K) (Cx z : Z) : Z :=
    if keqb alpha k1 then Cx else alpha *v Cx +v (k1 -k alpha) *v z.

  Definition block_update (alpha : K) (x' : X) (b : block) : Z * Z :=
    let '(rho, (g, (C, (z, u)))) := b in
    let Cx := relaxed alpha (fwd C x') z in
    let z' := prox[k1 /k rho, g] (Cx +v u) in
    (z', u +v Cx -v z').

  Definition step_spec (s : st) : st :=
    let x' := ad_subproblem_solver s (ad_z_list s) (ad_u_list s) (ad_x s) in
    let zu := map (block_update (ad_alpha s) x') (blocks s) in
    mk_st x' (map fst zu) (ad_z_list s) (map snd zu) (ad_f s) (ad_has_f s) (ad_g_list s) (ad_C_list s)
          (ad_rho_list s) (ad_alpha s) (ad_subproblem_solver s).

  (** class invariant: one g, C, rho, z, u per block *)
  Definition WF (s : st) : Prop :=
    let n := length (ad_z_list s) in
    length (ad_u_list s) = n /\ length (ad_g_list s) = n /\ length (ad_C_list s) = n /\
    length (ad_rho_list s) = n.

  Lemma blocks_length s : WF s -> length (blocks s) = length (ad_z_list s).
  Proof. intros (H1 & H2 & H3 & H4). unfold blocks. rewrite !combine_length. lia. Qed.

  Theorem step_follows_doc : forall s, WF s -> step_gen s = step_spec s.
  Proof.
    intros s W. unfold step_gen, step_spec.
    set (x' := ad_subproblem_solver s (ad_z_list s) (ad_u_list s) (ad_x s)).
    rewrite (fold_left_ext _ (upd_body (block_update (ad_alpha s) x'))).
    - fold (blocks s). rewrite fold_upd_nth_all.
      + rewrite !map_map. reflexivity.
      + symmetry. apply blocks_length, W.
      + rewrite blocks_length by exact W. apply W.
    - intros [zl ul] [i [rho [g [C [z u]]]]]. unfold upd_body, block_update, relaxed. cbn [fst snd].
      destruct (keqb (ad_alpha s) k1); reflexivity.
  Qed.

  Lemma step_preserves_WF s : WF s -> WF (step_spec s).
  Proof.
    intros W. pose proof (blocks_length s W) as Hb. destruct W as (H1 & H2 & H3 & H4).
    unfold WF, step_spec. cbn. rewrite !map_length. rewrite Hb. auto.
  Qed.

  Corollary history_follows_doc : forall n s, WF s -> iter step_gen n s = iter step_spec n s.
  Proof. apply history_agrees_inv; [apply step_follows_doc | apply step_preserves_WF]. Qed.

  (** initial state: z_i = C_i x0 (z_list_old a copy), u_i = 0; establishes the invariant *)
  Definition init_spec (s : st) (x0 : option X) : st :=
    let x := match x0 with Some x => x | None => vz end in
    let z := map (fun C => fwd C x) (ad_C_list s) in
    mk_st x z z (map (fun _ => vz) (ad_C_list s)) (ad_f s) (ad_has_f s) (ad_g_list s) (ad_C_list s)
          (ad_rho_list s) (ad_alpha s) (ad_subproblem_solver s).
  Theorem init_follows_doc : forall s Cl x0,
    init_gen__x0 s Cl x0 = init_spec s (Some x0) /\ init_gen__none s Cl = init_spec s None.
  Proof. split; reflexivity. Qed.
  Theorem init_establishes_WF : forall s x0,
    length (ad_g_list s) = length (ad_C_list s) -> length (ad_rho_list s) = length (ad_C_list s) ->
    WF (init_spec s x0).
  Proof. intros s x0 Hg Hr. unfold WF, init_spec. cbn. rewrite !map_length. auto. Qed.

  (** accessors *)
  Definition ksum (l : list K) : K := fold_left kadd l k0.
  Definition objective_doc (s : st) (x : X) (zl : list Z) : K :=
    fold_left (fun a gz => a +k feval (fst gz) (snd gz)) (combine (ad_g_list s) zl)
              (if ad_has_f s then k0 +k feval (ad_f s) x else k0).
  (** sqrt( sum_i rho_i || C_i x - z_i ||^2 ) *)
  Definition primal_residual_doc (s : st) (x : X) : K :=
    ksqrt (fold_left (fun a b => a +k fst b *k vnsq_ (fwd (fst (snd b)) x -v snd (snd b)))
                     (combine (ad_rho_list s) (combine (ad_C_list s) (ad_z_list s))) k0).
  (** || sum_i rho_i C_i^T (z_i - z_i_old) || *)
  Definition dual_residual_doc (s : st) : K :=
    vnorm_ (fold_left (fun a b => a +v fst b *v adj (snd (snd (snd b))) (fst (snd b) -v fst (snd (snd b))))
                      (combine (ad_rho_list s) (combine (ad_z_list s) (combine (ad_z_list_old s) (ad_C_list s)))) vz).

  Theorem objective_follows_doc : forall s,
    objective_gen__none s = objective_doc s (ad_x s) (ad_z_list s) /\
    (forall x zl, objective_gen__x_z_list s x zl = objective_doc s x zl) /\
    objective_gen__x__raises = tt /\ objective_gen__z_list__raises = tt.
  Proof.
    intros s. unfold objective_gen__none, objective_gen__x_z_list, objective_doc.
    repeat split; intros; destruct (ad_has_f s); apply fold_left_ext; intros a [g z]; reflexivity.
  Qed.

  (** norm_primal_residual(): sqrt(sum_i rho_i ||C_i x - z_i||^2) at the current iterate;
      norm_primal_residual(x): at the argument, for EVERY x (repaired by /repo 51ad458). *)
  Theorem primal_residual_follows_doc : forall s,
    norm_primal_residual_gen__none s = primal_residual_doc s (ad_x s) /\
    (forall x, norm_primal_residual_gen__x s x = primal_residual_doc s x).
  Proof.
    intros s. unfold norm_primal_residual_gen__none, norm_primal_residual_gen__x, primal_residual_doc.
    split; [|intros x]; f_equal; apply fold_left_ext; intros a [r [C z]]; reflexivity.
  Qed.

  Theorem dual_residual_follows_doc : forall s, norm_dual_residual_gen s = dual_residual_doc s.
  Proof.
    intros s. unfold norm_dual_residual_gen, dual_residual_doc. f_equal.
    apply fold_left_ext. intros a [r [z [zo C]]]. reflexivity.
  Qed.
  Theorem minimizer_is_x : forall s : st, minimizer_gen s = ad_x s.
  Proof. reflexivity. Qed.
End Spec.
