(** LinearizedADMM: update equations of the class docstring (scico/optimize/_ladmm.py)

      x+ = prox_{mu f}( x - (mu/nu) C^T (C x - z + u) )
      z+ = prox_{nu g}( C x+ + u )
      u+ = u + C x+ - z+

    and the documented accessor expressions; theorems: the definitions generated from the
    source (SVGen.C11_Ladmm) equal them for all states. *)
From Coq Require Import List Bool ZArith.
From SV Require Import Base.Num C11.Overload C11.SpecBase.
From SVGen Require Import C11_Ladmm.
Local Open Scope spec_scope.

Section Spec.
  Context {K : Type} {NK : Num K} {SK : Sqrt K} {X : Type} {VX : VecOps K X} {Z : Type} {VZ : VecOps K Z}.
  Notation st := (st K X Z).

  Definition step_spec (s : st) : st :=
    let C := la_C s in let mu := la_mu s in let nu := la_nu s in
    let x' := prox[mu, la_f s] (la_x s -v (mu /k nu) *v adj C (fwd C (la_x s) -v la_z s +v la_u s)) in
    let z' := prox[nu, la_g s] (fwd C x' +v la_u s) in
    let u' := la_u s +v fwd C x' -v z' in
    mk_st x' z' (la_z s) u' (la_f s) (la_g s) C mu nu.

  Theorem step_follows_doc : forall s, step_gen s = step_spec s.
  Proof. reflexivity. Qed.

  Corollary history_follows_doc : forall n s, iter step_gen n s = iter step_spec n s.
  Proof. apply history_agrees, step_follows_doc. Qed.

  (** initial state: z = z_old = C x0, u = 0; x0 defaults to zeros *)
  Definition init_spec (f : Func K X) (g : Func K Z) (C : Op X Z) (mu nu : K) (x0 : option X) : st :=
    let x := match x0 with Some x => x | None => vz end in
    mk_st x (fwd C x) (fwd C x) vz f g C mu nu.

  Theorem init_follows_doc : forall s f g C mu nu x0,
    init_gen__x0 s f g C mu nu x0 = init_spec f g C mu nu (Some x0) /\
    init_gen__none s f g C mu nu = init_spec f g C mu nu None.
  Proof. split; reflexivity. Qed.

  (** accessors, as functions of their arguments *)
  Definition objective_doc (s : st) (x : X) (z : Z) : K := feval (la_f s) x +k feval (la_g s) z.
  Definition primal_residual_doc (s : st) (x : X) : K := vnorm_ (fwd (la_C s) x -v la_z s).
  (** the class documents  || z - z_old ||_2 ; the code computes || C^H (z - z_old) ||_2 *)
  Definition dual_residual_doc (s : st) : K := vnorm_ (la_z s -v la_z_old s).
  Definition dual_residual_impl (s : st) : K := vnorm_ (adj (la_C s) (la_z s -v la_z_old s)).

  Theorem objective_follows_doc : forall s,
    objective_gen__none s = objective_doc s (la_x s) (la_z s) /\
    (forall x z, objective_gen__x_z s x z = objective_doc s x z) /\
    objective_gen__x__raises = tt /\ objective_gen__z__raises = tt.
  Proof. repeat split. Qed.

  (** norm_primal_residual(): the documented expression at the current iterate;
      norm_primal_residual(x): at the argument, for EVERY x (repaired by /repo 51ad458). *)
  Theorem primal_residual_follows_doc : forall s,
    norm_primal_residual_gen__none s = primal_residual_doc s (la_x s) /\
    (forall x, norm_primal_residual_gen__x s x = primal_residual_doc s x).
  Proof. split; reflexivity. Qed.

  (** Full statement (REFUTED, Findings/C11_ladmm_dual_residual.v): norm_dual_residual_gen s = dual_residual_doc s.
      It holds when C^H preserves the norm of z - z_old (e.g. C = I). *)
  Theorem dual_residual_is : forall s, norm_dual_residual_gen s = dual_residual_impl s.
  Proof. reflexivity. Qed.
  Theorem dual_residual_restricted : forall s,
    vnorm_ (adj (la_C s) (la_z s -v la_z_old s)) = vnorm_ (la_z s -v la_z_old s) ->
    norm_dual_residual_gen s = dual_residual_doc s.
  Proof. intros s H. exact H. Qed.

  Theorem minimizer_is_x : forall s : st, minimizer_gen s = la_x s.
  Proof. reflexivity. Qed.
End Spec.
