(** NonLinearPADMM: update equations of the class docstring (scico/optimize/_padmm.py)

      A  = J_x H(x, z)          x+ = prox_{rho^-1 mu^-1 f}( x - mu^-1 A^T (2 u - u_old) )
      B  = J_z H(x+, z)         z+ = prox_{rho^-1 nu^-1 g}( z - nu^-1 B^T (H(x+, z) + u) )
                                u+ = u + H(x+, z+)

    The Jacobian adjoints are the [vjp0]/[vjp1] components of the [Fun2] record (oracles for
    jax.vjp); jax.jvp / scico.cvjp on closures are the [JvpOracle]/[CvjpOracle] instances. *)
From Coq Require Import List Bool ZArith.
From SV Require Import Base.Num C11.Overload C11.SpecBase.
From SVGen Require Import C11_Nlpadmm.
Local Open Scope spec_scope.

Section Spec.
  Context {K : Type} {NK : Num K} {SK : Sqrt K} {X : Type} {VX : VecOps K X} {Z : Type} {VZ : VecOps K Z}
          {U : Type} {VU : VecOps K U} {jvpZ : JvpOracle Z U} {cvjpX : CvjpOracle X U}.
  Notation st := (st K X Z U).

  Definition step_spec (s : st) : st :=
    let H := nl_H s in let rho := nl_rho s in let mu := nl_mu s in let nu := nl_nu s in
    let AT := vjp0 H (nl_x s) (nl_z s) in
    let x' := prox[k1 /k (rho *k mu), nl_f s]
                (nl_x s -v (k1 /k mu) *v AT (klit 2 1 *v nl_u s -v nl_u_old s)) in
    let BT := vjp1 H x' (nl_z s) in
    let z' := prox[k1 /k (rho *k nu), nl_g s]
                (nl_z s -v (k1 /k nu) *v BT (f2 H x' (nl_z s) +v nl_u s)) in
    let u' := nl_u s +v f2 H x' z' in
    mk_st x' z' (nl_z s) u' (nl_u s) (nl_f s) (nl_g s) H rho mu nu (nl_fast_dual_residual s).

  Theorem step_follows_doc : forall s, step_gen s = step_spec s.
  Proof. reflexivity. Qed.
  Corollary history_follows_doc : forall n s, iter step_gen n s = iter step_spec n s.
  Proof. apply history_agrees, step_follows_doc. Qed.

  Definition dflt {V} `{VecOps K V} (o : option V) : V := match o with Some v => v | None => vz end.
  Definition init_base_spec (s : st) f g rho mu nu (x0 : option X) (z0 : option Z) (u0 : option U) fdr : st :=
    mk_st (dflt x0) (dflt z0) (dflt z0) (dflt u0) (dflt u0) f g (nl_H s) rho mu nu fdr.
  Theorem init_base_follows_doc : forall s f g rho mu nu x0 z0 u0 fdr a b c d e h,
    init_base_gen__none s f g rho mu nu a b c d e h fdr = init_base_spec s f g rho mu nu None None None fdr /\
    init_base_gen__x0 s f g rho mu nu a b c d e h x0 fdr = init_base_spec s f g rho mu nu (Some x0) None None fdr /\
    init_base_gen__z0 s f g rho mu nu a b c d e h z0 fdr = init_base_spec s f g rho mu nu None (Some z0) None fdr /\
    init_base_gen__u0 s f g rho mu nu a b c d e h u0 fdr = init_base_spec s f g rho mu nu None None (Some u0) fdr /\
    init_base_gen__x0_z0 s f g rho mu nu a b c d e h x0 z0 fdr = init_base_spec s f g rho mu nu (Some x0) (Some z0) None fdr /\
    init_base_gen__x0_u0 s f g rho mu nu a b c d e h x0 u0 fdr = init_base_spec s f g rho mu nu (Some x0) None (Some u0) fdr /\
    init_base_gen__z0_u0 s f g rho mu nu a b c d e h z0 u0 fdr = init_base_spec s f g rho mu nu None (Some z0) (Some u0) fdr /\
    init_base_gen__x0_z0_u0 s f g rho mu nu a b c d e h x0 z0 u0 fdr = init_base_spec s f g rho mu nu (Some x0) (Some z0) (Some u0) fdr.
  Proof. repeat split. Qed.

  Definition objective_doc (s : st) (x : X) (z : Z) : K := feval (nl_f s) x +k feval (nl_g s) z.
  Definition primal_residual_doc (s : st) (x : X) (z : Z) : K := vnorm_ (f2 (nl_H s) x z).
  (** A = J_x H(x, z), B = J_z H(x, z) at the current iterate; || A^T B (z - z_old) || *)
  Definition dual_residual_doc (s : st) : K :=
    if nl_fast_dual_residual s then vnorm_ (nl_z s -v nl_z_old s)
    else let B := jvp_ (fun z => f2 (nl_H s) (nl_x s) z) (nl_z s) in
         let AT := cvjp_ (fun x => f2 (nl_H s) x (nl_z s)) (nl_x s) in
         vnorm_ (AT (B (nl_z s -v nl_z_old s))).

  Theorem objective_follows_doc : forall s,
    objective_gen__none s = objective_doc s (nl_x s) (nl_z s) /\
    (forall x z, objective_gen__x_z s x z = objective_doc s x z) /\
    objective_gen__x__raises = tt /\ objective_gen__z__raises = tt.
  Proof. repeat split. Qed.
  Theorem primal_residual_follows_doc : forall s,
    norm_primal_residual_gen__none s = primal_residual_doc s (nl_x s) (nl_z s) /\
    (forall x z, norm_primal_residual_gen__x_z s x z = primal_residual_doc s x z) /\
    norm_primal_residual_gen__x__raises = tt /\ norm_primal_residual_gen__z__raises = tt.
  Proof. repeat split. Qed.
  Theorem dual_residual_follows_doc : forall s, norm_dual_residual_gen s = dual_residual_doc s.
  Proof. intros s. unfold norm_dual_residual_gen, dual_residual_doc. destruct (nl_fast_dual_residual s); reflexivity. Qed.
  Theorem minimizer_is_x : forall s : st, minimizer_gen s = nl_x s.
  Proof. reflexivity. Qed.
End Spec.
