(** ProximalADMM: update equations of the class docstring (scico/optimize/_padmm.py)

      x+ = prox_{rho^-1 mu^-1 f}( x - mu^-1 A^T (2 u - u_old) )
      z+ = prox_{rho^-1 nu^-1 g}( z - nu^-1 B^T (A x+ + B z - c + u) )
      u+ = u + A x+ + B z+ - c

    with B = -I and c = 0 by default.  (The model takes the u-space equal to the z-space,
    which the default B = -I requires anyway.) *)
From Coq Require Import List Bool ZArith.
From SV Require Import Base.Num C11.Overload C11.SpecBase.
From SVGen Require Import C11_Padmm.
Local Open Scope spec_scope.

Section Spec.
  Context {K : Type} {NK : Num K} {SK : Sqrt K} {X : Type} {VX : VecOps K X} {Z : Type} {VZ : VecOps K Z}.
  Notation st := (st K X Z).

  Definition step_spec (s : st) : st :=
    let A := pa_A s in let B := pa_B s in let c := pa_c s in
    let rho := pa_rho s in let mu := pa_mu s in let nu := pa_nu s in
    let x' := prox[k1 /k (rho *k mu), pa_f s]
                (pa_x s -v (k1 /k mu) *v adj A (klit 2 1 *v pa_u s -v pa_u_old s)) in
    let z' := prox[k1 /k (rho *k nu), pa_g s]
                (pa_z s -v (k1 /k nu) *v adj B (fwd A x' +v fwd B (pa_z s) -v c +v pa_u s)) in
    let u' := pa_u s +v fwd A x' +v fwd B z' -v c in
    mk_st x' z' (pa_z s) u' (pa_u s) (pa_f s) (pa_g s) A B c rho mu nu (pa_fast_dual_residual s).

  Theorem step_follows_doc : forall s, step_gen s = step_spec s.
  Proof. reflexivity. Qed.
  Corollary history_follows_doc : forall n s, iter step_gen n s = iter step_spec n s.
  Proof. apply history_agrees, step_follows_doc. Qed.

  (** __init__: B defaults to -I, c to 0; x, z, u default to zeros; *_old are copies *)
  Definition neg_identity : Op Z Z :=
    mkOp (fun z => vneg_ z) (fun z => vneg_ z) (fun _ z => vneg_ z) true.
  Definition init_ABc_spec (s : st) (A : Op X Z) (B : option (Op Z Z)) (c : option Z) : st :=
    mk_st (pa_x s) (pa_z s) (pa_z_old s) (pa_u s) (pa_u_old s) (pa_f s) (pa_g s) A
          (match B with Some B => B | None => neg_identity end)
          (match c with Some c => c | None => vz end)
          (pa_rho s) (pa_mu s) (pa_nu s) (pa_fast_dual_residual s).
  Theorem init_ABc_follows_doc : forall s A B c,
    init_ABc_gen__none s A = init_ABc_spec s A None None /\
    init_ABc_gen__B s A B = init_ABc_spec s A (Some B) None /\
    init_ABc_gen__c s A c = init_ABc_spec s A None (Some c) /\
    init_ABc_gen__B_c s A B c = init_ABc_spec s A (Some B) (Some c).
  Proof. repeat split. Qed.

  Definition dflt {V} `{VecOps K V} (o : option V) : V := match o with Some v => v | None => vz end.
  Definition init_base_spec (s : st) f g rho mu nu (x0 : option X) (z0 u0 : option Z) fdr : st :=
    mk_st (dflt x0) (dflt z0) (dflt z0) (dflt u0) (dflt u0) f g (pa_A s) (pa_B s) (pa_c s) rho mu nu fdr.
  Theorem init_base_follows_doc : forall s f g rho mu nu x0 z0 u0 fdr a b c d e h,
    init_base_gen__none s f g rho mu nu a b c d e h fdr = init_base_spec s f g rho mu nu None None None fdr /\
    init_base_gen__x0 s f g rho mu nu a b c d e h x0 fdr = init_base_spec s f g rho mu nu (Some x0) None None fdr /\
    init_base_gen__z0 s f g rho mu nu a b c d e h z0 fdr = init_base_spec s f g rho mu nu None (Some z0) None fdr /\
    init_base_gen__u0 s f g rho mu nu a b c d e h u0 fdr = init_base_spec s f g rho mu nu None None (Some u0) fdr /\
    init_base_gen__x0_z0 s f g rho mu nu a b c d e h x0 z0 fdr = init_base_spec s f g rho mu nu (Some x0) (Some z0) None fdr /\
    init_base_gen__x0_u0 s f g rho mu nu a b c d e h x0 u0 fdr = init_base_spec s f g rho mu nu (Some x0) None (Some u0) fdr /\
    init_base_gen__z0_u0 s f g rho mu nu a b c d e h z0 u0 fdr = init_base_spec s f g rho mu nu None (Some z0) (Some u0) fdr /\
    init_base_gen__x0_z0_u0 s f g rho mu nu a b c d e h x0 z0 u0 fdr = init_base_spec s f g rho mu nu (Some x0) (Some z0) (Some u0) fdr.
  Proof. repeat split. Qed.

  (** accessors *)
  Definition objective_doc (s : st) (x : X) (z : Z) : K := feval (pa_f s) x +k feval (pa_g s) z.
  Definition primal_residual_doc (s : st) (x : X) (z : Z) : K :=
    vnorm_ (fwd (pa_A s) x +v fwd (pa_B s) z -v pa_c s).
  Definition dual_residual_doc (s : st) : K :=
    if pa_fast_dual_residual s then vnorm_ (pa_z s -v pa_z_old s)
    else vnorm_ (adj (pa_A s) (fwd (pa_B s) (pa_z s -v pa_z_old s))).

  Theorem objective_follows_doc : forall s,
    objective_gen__none s = objective_doc s (pa_x s) (pa_z s) /\
    (forall x z, objective_gen__x_z s x z = objective_doc s x z) /\
    objective_gen__x__raises = tt /\ objective_gen__z__raises = tt.
  Proof. repeat split. Qed.
  Theorem primal_residual_follows_doc : forall s,
    norm_primal_residual_gen__none s = primal_residual_doc s (pa_x s) (pa_z s) /\
    (forall x z, norm_primal_residual_gen__x_z s x z = primal_residual_doc s x z) /\
    norm_primal_residual_gen__x__raises = tt /\ norm_primal_residual_gen__z__raises = tt.
  Proof. repeat split. Qed.
  Theorem dual_residual_follows_doc : forall s, norm_dual_residual_gen s = dual_residual_doc s.
  Proof. intros s. unfold norm_dual_residual_gen, dual_residual_doc. destruct (pa_fast_dual_residual s); reflexivity. Qed.
  Theorem minimizer_is_x : forall s : st, minimizer_gen s = pa_x s.
  Proof. reflexivity. Qed.
End Spec.
