(** PDHG: update equations of the class docstring (scico/optimize/_primaldual.py)

      x+ = prox_{tau f}( x - tau C^T z )           (C linear)
      x+ = prox_{tau f}( x - tau [J_x C(x)]^T z )  (C non-linear)
      z+ = prox_{sigma g*}( z + sigma C((1 + alpha) x+ - alpha x) )

    prox_{sigma g*} is Functional.conj_prox, documented (and generated from
    scico/functional/_functional.py) as the extended Moreau decomposition
      prox_{lam g*}(v) = v - lam prox_{g/lam}(v/lam);
    that this is the prox of the conjugate is C03 (ProxTheory.moreau). *)
From Coq Require Import List Bool ZArith.
From SV Require Import Base.Num C11.Overload C11.SpecBase.
From SVGen Require Import C11_Functional C11_Pdhg.
Local Open Scope spec_scope.

Section Spec.
  Context {K : Type} {NK : Num K} {SK : Sqrt K} {X : Type} {VX : VecOps K X} {Z : Type} {VZ : VecOps K Z}.
  Notation st := (st K X Z).

  (** documented formula of Functional.conj_prox *)
  Definition conj_prox_doc {V} `{VecOps K V} (g : Func K V) (v : V) (lam : K) : V :=
    v -v lam *v prox[k1 /k lam, g] ((k1 /k lam) *v v).
  Theorem conj_prox_follows_doc : forall {V} `{VecOps K V} (g : Func K V) v lam,
    conj_prox_gen g v lam = conj_prox_doc g v lam.
  Proof. reflexivity. Qed.

  Definition step_spec (s : st) : st :=
    let C := pd_C s in let tau := pd_tau s in let sigma := pd_sigma s in let alpha := pd_alpha s in
    let CTz := if is_linear C then adj C (pd_z s) else vjp C (pd_x s) (pd_z s) in
    let x' := prox[tau, pd_f s] (pd_x s -v tau *v CTz) in
    let z' := conj_prox_doc (pd_g s)
                (pd_z s +v sigma *v fwd C ((k1 +k alpha) *v x' -v alpha *v pd_x s)) sigma in
    mk_st x' (pd_x s) z' (pd_z s) (pd_f s) (pd_g s) C tau sigma alpha.

  Theorem step_follows_doc : forall s, step_gen s = step_spec s.
  Proof. intros s. unfold step_gen, step_spec. destruct (is_linear (pd_C s)); reflexivity. Qed.
  Corollary history_follows_doc : forall n s, iter step_gen n s = iter step_spec n s.
  Proof. apply history_agrees, step_follows_doc. Qed.

  Definition dflt {V} `{VecOps K V} (o : option V) : V := match o with Some v => v | None => vz end.
  Definition init_spec f g C tau sigma alpha (x0 : option X) (z0 : option Z) : st :=
    mk_st (dflt x0) (dflt x0) (dflt z0) (dflt z0) f g C tau sigma alpha.
  Theorem init_follows_doc : forall s f g C tau sigma alpha x0 z0,
    init_gen__none s f g C tau sigma alpha = init_spec f g C tau sigma alpha None None /\
    init_gen__x0 s f g C tau sigma alpha x0 = init_spec f g C tau sigma alpha (Some x0) None /\
    init_gen__z0 s f g C tau sigma alpha z0 = init_spec f g C tau sigma alpha None (Some z0) /\
    init_gen__x0_z0 s f g C tau sigma alpha x0 z0 = init_spec f g C tau sigma alpha (Some x0) (Some z0).
  Proof. repeat split. Qed.

  Definition objective_doc (s : st) (x : X) : K := feval (pd_f s) x +k feval (pd_g s) (fwd (pd_C s) x).
  Definition primal_residual_doc (s : st) : K := vnorm_ (pd_x s -v pd_x_old s) /k pd_tau s.
  Definition dual_residual_doc (s : st) : K := vnorm_ (pd_z s -v pd_z_old s) /k pd_sigma s.
  Theorem objective_follows_doc : forall s,
    objective_gen__none s = objective_doc s (pd_x s) /\ (forall x, objective_gen__x s x = objective_doc s x).
  Proof. split; reflexivity. Qed.
  Theorem residuals_follow_doc : forall s,
    norm_primal_residual_gen s = primal_residual_doc s /\ norm_dual_residual_gen s = dual_residual_doc s.
  Proof. split; reflexivity. Qed.
  Theorem minimizer_is_x : forall s : st, minimizer_gen s = pd_x s.
  Proof. reflexivity. Qed.
End Spec.
