(** PGM / AcceleratedPGM (scico/optimize/_pgm.py).  With step size 1/L:

      PGM    x+ = prox_{g/L}( x - grad f(x) / L ),  L = policy.update(x)
      APGM   x+ = prox_{g/L}( v - grad f(v) / L ),  L = policy.update(v)  (BB policies receive x)
             t+ = (1 + sqrt(1 + 4 t^2)) / 2
             v+ = x+ + ((t - 1) / t+) (x+ - x)
      (robust line search policy: x+ = policy.Z, t and v left to the policy)
      fixed_point_residual = || x - x+ ||  (PGM),  || x+ - v ||  (APGM)

    The policy is a pure [StepSize] record here; PGMStepSize.update (generated from
    _pgmaux.py) returns the solver's L unchanged. *)
From Coq Require Import List Bool ZArith.
From SV Require Import Base.Num C11.Overload C11.SpecBase.
From SVGen Require C11_Pgm C11_Apgm.
Local Open Scope spec_scope.

Section Spec.
  Context {K : Type} {NK : Num K} {SK : Sqrt K} {X : Type} {VX : VecOps K X}.

  Definition pg_point (f g : Func K X) (v : X) (L : K) : X :=
    prox[k1 /k L, g] (v -v (k1 /k L) *v fgrad f v).

  (** the fixed policy *)
  Definition fixed_policy : StepSize K X := mkStepSize false false (fun L _ => L) vz.
  Theorem fixed_update_follows_doc : forall (L : K) (v : X), C11_Pgm.fixed_update_gen L v = L.
  Proof. reflexivity. Qed.

  Section PGM.
    Import C11_Pgm.
    Notation st := (st K X).
    Definition pgm_step_spec (s : st) : st :=
      let L' := ss_update (pg_step_size s) (pg_L s) (pg_x s) in
      let x' := pg_point (pg_f s) (pg_g s) (pg_x s) L' in
      mk_st x' L' (vnorm_ (pg_x s -v x')) (pg_f s) (pg_g s) (pg_step_size s).
    Theorem pgm_x_step_follows_doc : forall (s : st) v L, x_step_gen s v L = pg_point (pg_f s) (pg_g s) v L.
    Proof. reflexivity. Qed.
    Theorem pgm_step_follows_doc : forall s, step_gen s = pgm_step_spec s.
    Proof. reflexivity. Qed.
    Corollary pgm_history_follows_doc : forall n s, iter step_gen n s = iter pgm_step_spec n s.
    Proof. apply history_agrees, pgm_step_follows_doc. Qed.
    (** fixed policy: L never changes *)
    Theorem pgm_fixed_L : forall s, pg_step_size s = fixed_policy -> pg_L (step_gen s) = pg_L s.
    Proof. intros s H. cbn. rewrite H. reflexivity. Qed.

    Definition pgm_objective_doc (s : st) (x : X) : K := feval (pg_f s) x +k feval (pg_g s) x.
    (** f(y) + Re<grad f(y), x - y> + (L/2) ||x - y||^2 *)
    Definition quad_approx_doc (s : st) (x y : X) (L : K) : K :=
      feval (pg_f s) y +k vdot_ (fgrad (pg_f s) y) (x -v y) +k (klit 1 2 *k L) *k vnsq_ (x -v y).
    Theorem pgm_accessors_follow_doc : forall s : st,
      objective_gen__none s = pgm_objective_doc s (pg_x s) /\
      (forall x, objective_gen__x s x = pgm_objective_doc s x) /\
      (forall x y L, f_quad_approx_gen s x y L = quad_approx_doc s x y L) /\
      norm_residual_gen s = pg_fixed_point_residual s /\ minimizer_gen s = pg_x s.
    Proof. repeat split. Qed.
  End PGM.

  Section APGM.
    Import C11_Apgm.
    Notation st := (st K X).
    Definition apgm_step_spec (s : st) : st :=
      let pol := ap_step_size s in
      let L' := ss_update pol (ap_L s) (if ss_bb pol then ap_x s else ap_v s) in
      if ss_robust pol then
        let x' := ss_Z pol in
        mk_st x' (ap_v s) (ap_t s) L' (vnorm_ (x' -v ap_x s)) (ap_f s) (ap_g s) pol
      else
        let x' := pg_point (ap_f s) (ap_g s) (ap_v s) L' in
        let t' := klit 1 2 *k (k1 +k ksqrt (k1 +k klit 4 1 *k (ap_t s *k ap_t s))) in
        let v' := x' +v ((ap_t s -k k1) /k t') *v (x' -v ap_x s) in
        mk_st x' v' t' L' (vnorm_ (x' -v ap_v s)) (ap_f s) (ap_g s) pol.
    Theorem apgm_step_follows_doc : forall s, step_gen s = apgm_step_spec s.
    Proof.
      intros s. unfold step_gen, apgm_step_spec.
      destruct (ss_bb (ap_step_size s)); destruct (ss_robust (ap_step_size s)); reflexivity.
    Qed.
    Corollary apgm_history_follows_doc : forall n s, iter step_gen n s = iter apgm_step_spec n s.
    Proof. apply history_agrees, apgm_step_follows_doc. Qed.
    (** __init__: v = x0, t = 1 *)
    Theorem apgm_init_follows_doc : forall (s : st) x0,
      ap_v (init_vt_gen s x0) = x0 /\ ap_t (init_vt_gen s x0) = k1 /\ ap_x (init_vt_gen s x0) = ap_x s.
    Proof. repeat split. Qed.
    Definition apgm_objective_doc (s : st) (x : X) : K := feval (ap_f s) x +k feval (ap_g s) x.
    Theorem apgm_accessors_follow_doc : forall s : st,
      objective_gen__none s = apgm_objective_doc s (ap_x s) /\
      (forall x, objective_gen__x s x = apgm_objective_doc s x) /\
      norm_residual_gen s = ap_fixed_point_residual s /\ minimizer_gen s = ap_x s.
    Proof. repeat split. Qed.
  End APGM.
End Spec.
