(** C12 -- comparison functions evaluated (vm_compute) by the correspondence harness. *)
From Coq Require Import List Bool ZArith.
From SV Require Import C12.Slice C12.Shape C12.Expr C12.ExprSpec C12.FiniteDiff.
Import ListNotations.
Open Scope Z_scope.

Definition oav_eqb (a b : option av) : bool :=
  match a, b with
  | Some (s, d), Some (s', d') => nshape_eqb s s' && dt_eqb d d'
  | None, None => true
  | _, _ => false
  end.

(** observation of the implementation: declared metadata + matrix_shape ([None]: the
    constructor raised), result of __call__ ([None]: raised), result of adj *)
Definition obs := (option (meta * (Z * Z)) * option av * option av)%type.

(** bits: 1 declared (model vs impl), 2 call, 4 adj, 8 declared differs from the documented
    calculus, 16 the calculus rejects the expression but the implementation built it *)
Definition code (c : ox * option av * option av * bool * obs) : nat :=
  let '(e, xin, yin, cmpadj, o) := c in
  let '(od, oc, oa) := o in
  let sb := match spec e with
            | Some sm => match od with Some mm => if meta_eqb sm (fst mm) then 0 else 8 | None => 8 end
            | None => match od with Some _ => 16 | None => 0 end
            end%nat in
  let mb := match build e with
            | None => match od with None => 0 | Some _ => 1 end
            | Some v =>
                match od with
                | None => 1
                | Some mm =>
                    let m := fst mm in
                    let ms := snd mm in
                    let mv := o_m v in
                    let x := odflt xin (ish mv, idt mv) in
                    let y := odflt yin (osh mv, odt mv) in
                    (if meta_eqb mv m && (fst ms =? size (osh mv))%Z && (snd ms =? size (ish mv))%Z then 0 else 1)
                    + (if oav_eqb (o_call v x) oc then 0 else 2)
                    + (if cmpadj then (if oav_eqb (o_adj v y) oa then 0 else 4) else 0)
                end
            end%nat in
  (mb + sb)%nat.

Definition codes (l : list (ox * option av * option av * bool * obs)) : list nat := map code l.

(* ---------------------------------------------------------------- slices *)

Definition oz_eqb (a b : option Z) : bool :=
  match a, b with Some x, Some y => x =? y | None, None => true | _, _ => false end.

Definition slres_code (r : slres) : Z * Z :=
  match r with SLErr => (0, 0) | SLNone => (1, 0) | SLLen l => (2, l) end.

(** one slice case: n, slice, Python's slice.indices(n), len(range(...)), the elements
    list(range(n))[s], and the implementation's slice_length (as [slres_code]).
    bits: 1 slice_indices model, 2 range_len model, 4 enumerated elements, 8 slice_length model *)
Definition slice_code (c : Z * pslice * (Z * Z * Z) * Z * list Z * (Z * Z)) : nat :=
  let '(n, s, ind, len, elems, impl) := c in
  ((match slice_indices n s with
    | Some (a, b, k) => let '(a', b', k') := ind in if ((a =? a') && (b =? b') && (k =? k'))%Z then 0 else 1
    | None => 1
    end)
   + (if oz_eqb (slice_len_spec n s) (Some len) then 0 else 2)
   + (match slice_elems n s with Some l => if shape_eqb l elems then 0 else 4 | None => 4 end)
   + (let '(t, l) := slres_code (slice_length n (ISlice s)) in
      if ((t =? fst impl) && (l =? snd impl))%Z then 0 else 8))%nat.

Definition oshape_eqb (a b : option shape) : bool :=
  match a, b with Some x, Some y => shape_eqb x y | None, None => true | _, _ => false end.

(** one indexing case: shape, index tuple, implementation's indexed_shape, NumPy's shape.
    bits: 1 indexed_shape model vs impl, 2 np_index_shape model vs NumPy *)
Definition index_code (c : shape * list aidx * option shape * option shape) : nat :=
  let '(sh, idx, impl, np) := c in
  ((if oshape_eqb (indexed_shape sh idx) impl then 0 else 1)
   + (if oshape_eqb (np_index_shape sh idx) np then 0 else 2))%nat.

(* ---------------------------------------------------------------- shapes *)

(** collapse_shapes: 1 model vs impl *)
Definition onb_eqb (a b : option (nshape * bool)) : bool :=
  match a, b with
  | Some (s, x), Some (s', y) => nshape_eqb s s' && Bool.eqb x y
  | None, None => true
  | _, _ => false
  end.
Definition collapse_code (c : list nshape * bool * option (nshape * bool) * bool * bool) : nat :=
  let '(l, allow, impl, coll, blk) := c in
  ((if onb_eqb (collapse_shapes l allow) impl then 0 else 1)
   + (if Bool.eqb (is_collapsible l) coll then 0 else 2)
   + (if Bool.eqb (is_blockable l) blk then 0 else 4))%nat.

Definition onshape_eqb (a b : option nshape) : bool :=
  match a, b with Some x, Some y => nshape_eqb x y | None, None => true | _, _ => false end.
Definition bcast_code (c : nshape * nshape * option nshape * Z * Z) : nat :=
  let '(a, b, impl, sa, sb) := c in
  ((if onshape_eqb (broadcast_nested a b) impl then 0 else 1)
   + (if ((size a =? sa) && (size b =? sb))%Z then 0 else 2))%nat.

(* ---------------------------------------------------------------- finite differences, DFT *)

(** SingleAxisFiniteDifference: shape, axis, prepend, append, circular, declared output shape
    ([None]: constructor raised), shape of the evaluation.  bits: 1 declared, 2 actual *)
Definition safd_code (c : shape * Z * option Z * option Z * bool * option shape * option shape) : nat :=
  let '(s, ax, p, a, circ, decl, act) := c in
  ((if oshape_eqb (safd_declared s ax p a circ) decl then 0 else 1)
   + (if oshape_eqb (safd_actual s ax p a circ) act then 0 else 2))%nat.

(** FiniteDifference: declared (collapsed or block) output shape *)
Definition fd_code (c : shape * option (list Z) * option Z * option Z * bool * option nshape) : nat :=
  let '(s, axes, p, a, circ, decl) := c in
  if onshape_eqb (fd_declared s axes p a circ) decl then 0%nat else 1%nat.

(** DFT: declared output shape, shape of inv on the declared output shape *)
Definition dft_code (c : shape * option (list Z) * option (list Z) * option shape * option shape) : nat :=
  let '(s, axes, ash, decl, inv) := c in
  ((if oshape_eqb (dft_declared s axes ash) decl then 0 else 1)
   + (match decl with
      | Some o => if oshape_eqb (dft_inv_shape s o axes ash) inv then 0 else 2
      | None => 0
      end))%nat.
