(** C12 -- operator expressions: what scico *declares* for each operator / derived operator
    and what evaluating it *actually yields* (shape and dtype only; values are abstracted).

    An operator object is modelled as the record [opv]: class tag (which decides how
    T / H / conj / gram_op / + / - / scalar * / composition dispatch), the declared metadata,
    and the two closures [__call__] and [adj] acting on abstract arrays [av = shape * dtype]
    ([None] = an exception is raised).  Every constructor below transcribes the
    corresponding Python constructor / method of /repo/scico (file:line in the comments).

    [build : ox -> option opv] interprets an expression tree as the sequence of Python
    constructor calls it stands for ([None] = construction raises).  *)
From Coq Require Import List Bool ZArith Lia.
From SV Require Import C12.Shape.
Import ListNotations.
Open Scope Z_scope.

Record meta := mkmeta { ish : nshape; osh : nshape; idt : dt; odt : dt }.
Definition av := (nshape * dt)%type.

Definition meta_eqb (a b : meta) : bool :=
  nshape_eqb (ish a) (ish b) && nshape_eqb (osh a) (osh b) && dt_eqb (idt a) (idt b) && dt_eqb (odt a) (odt b).

Inductive cls :=
| KOp                                   (* scico.operator.Operator *)
| KLin                                  (* LinearOperator, ComposedLinearOperator, stacks, linop_from_function ... *)
| KDiag (dsh : nshape) (ddt : dt)       (* Diagonal: shape and dtype of .diagonal *)
| KSId (sdt : dt)                       (* ScaledIdentity: dtype of the 0-d ._diagonal *)
| KId                                   (* Identity *)
| KMat (r c cols : Z) (adt : dt).       (* MatrixOperator: A.shape = (r, c), input_cols, A.dtype *)

Record opv := mkop { o_cls : cls; o_m : meta; o_call : av -> option av; o_adj : av -> option av }.

Definition is_lin (v : opv) : bool := match o_cls v with KOp => false | _ => true end.

Definition obind {A B} (x : option A) (f : A -> option B) : option B :=
  match x with Some a => f a | None => None end.
Definition odflt {A} (o : option A) (d : A) : A := match o with Some a => a | None => d end.

(* ------------------------------------------------------------------ *)
(** * array arithmetic on abstract arrays *)

(** [a * b], [a + b], [a - b] of jax arrays / BlockArrays: broadcasting + dtype promotion *)
Definition av_bin (a b : av) : option av :=
  option_map (fun s => (s, join (snd a) (snd b))) (broadcast_nested (fst a) (fst b)).
Definition av_scal (s : scal) (a : av) : av := (fst a, rt_scal (snd a) s).

(** iterating over an array / BlockArray ([zip(ops, x)]) *)
Definition unstack (x : av) : option (list av) :=
  match fst x with
  | Plain [] => None
  | Plain (n :: s) => Some (repeat (Plain s, snd x) (Z.to_nat n))
  | Block ss => Some (map (fun s => (Plain s, snd x)) ss)
  end.

Fixpoint joins (d : dt) (l : list dt) : dt :=
  match l with [] => d | x :: t => joins (join d x) t end.

(** snp.stack(list of arrays): equal plain shapes required *)
Definition av_stack (l : list av) : option av :=
  match l with
  | [] => None
  | (Plain s, d) :: t =>
      if forallb (fun y => nshape_eqb (Plain s) (fst y)) t
      then Some (Plain (Z.of_nat (length l) :: s), joins d (map snd t)) else None
  | _ => None
  end.

(** BlockArray(list of arrays): plain blocks, homogeneous dtype (_blockarray.py:57) *)
Definition av_block (l : list av) : option av :=
  match l with
  | [] => None
  | (_, d) :: t =>
      if forallb (fun y => dt_eqb d (snd y)) t
      then option_map (fun ss => (Block ss, d)) (mapo (fun y => plain_of (fst y)) l) else None
  end.

(** Python [sum(list)] = 0 + l0 + l1 + ... *)
Fixpoint av_sum_from (acc : av) (l : list av) : option av :=
  match l with
  | [] => Some acc
  | x :: t => obind (av_bin acc x) (fun a => av_sum_from a t)
  end.
Definition av_sum (l : list av) : option av :=
  match l with [] => None | x :: t => av_sum_from x t end.

(** [A @ x] for a 2-D [A] of shape (r, c): numpy matmul *)
Definition matmul_shape (r c : Z) (s : shape) : option shape :=
  match rev s with
  | [] => None
  | [n] => if n =? c then Some [r] else None
  | k :: n :: pre => if n =? c then Some (rev pre ++ [r; k]) else None
  end.
Definition av_matmul (r c : Z) (adt : dt) (x : av) : option av :=
  match fst x with
  | Plain s => option_map (fun s' => (Plain s', join adt (snd x))) (matmul_shape r c s)
  | Block _ => None
  end.

(* ------------------------------------------------------------------ *)
(** * Operator.__init__ / LinearOperator.__init__ *)

(** Operator.__call__ on an array (_operator.py:214-220): shape test, no dtype test *)
Definition chk_call (i : nshape) (f : av -> option av) : av -> option av :=
  fun x => if nshape_eqb i (fst x) then f x else None.

(** LinearOperator.adj on an array (_linop.py:318-326): dtype test, shape test *)
Definition chk_adj (o : nshape) (od : dt) (f : av -> option av) : av -> option av :=
  fun y => if dt_eqb od (snd y) then (if nshape_eqb o (fst y) then f y else None) else None.

(** _set_adjoint: jax.linear_transpose of __call__ at zeros(input_shape, input_dtype): the
    cotangent must have exactly the shape and dtype [call] produces there; the result has
    the primal's shape and dtype *)
Definition auto_adj (i : nshape) (id : dt) (call : av -> option av) : av -> option av :=
  fun y => match call (i, id) with
           | Some (s, d) => if nshape_eqb s (fst y) && dt_eqb d (snd y) then Some (i, id) else None
           | None => None
           end.

(** _operator.py:139-176 and _linop.py:166-186.  [o], [od] = None: inferred by evaluating
    on zeros(input_shape, input_dtype) *)
Definition mk_generic (k : cls) (i : nshape) (o : option nshape) (id : dt) (od : option dt)
           (ev : av -> option av) (adjf : option (av -> option av)) : option opv :=
  let call := chk_call i ev in
  let probe := match o, od with
               | Some o', Some od' => Some (o', od')
               | _, _ => call (i, id)
               end in
  match probe with
  | None => None
  | Some (ps, pd) =>
      let o' := odflt o ps in
      let od' := odflt od pd in
      let a := match k with
               | KOp => (fun _ => None)
               | _ => chk_adj o' od' (match adjf with Some a => a | None => auto_adj i id call end)
               end in
      Some (mkop k (mkmeta i o' id od') call a)
  end.

(* ------------------------------------------------------------------ *)
(** * leaves *)

(** how the forward map of a generic leaf treats dtypes *)
Inductive fkind :=
| FPromote (pd : dt)      (* result_type(x.dtype, pd): multiplication by / addition of an array of dtype pd;
                             pd = F32 for dtype-preserving maps *)
| FReal.                  (* abs / real part: complex -> matching real dtype *)
Definition fdt (fk : fkind) (d : dt) : dt :=
  match fk with FPromote pd => join d pd | FReal => real_of d end.

Inductive akind := AAuto | APromote (pd : dt).

(** a generic Operator / LinearOperator whose _eval maps input_shape to [o] *)
Definition mk_leaf (lin : bool) (i o : nshape) (declared_o : bool) (id : dt) (od : option dt)
           (fk : fkind) (ak : akind) : option opv :=
  mk_generic (if lin then KLin else KOp) i (if declared_o then Some o else None) id od
             (fun x => Some (o, fdt fk (snd x)))
             (match ak with AAuto => None | APromote pd => Some (fun y => Some (i, join (snd y) pd)) end).

(** Diagonal.__init__ (_diag.py:30-72) *)
Definition same_kind (a b : nshape) : bool := Bool.eqb (is_nested a) (is_nested b).
Definition mk_diag (dsh : nshape) (ddt : dt) (i : option nshape) (id : option dt) : option opv :=
  let i' := odflt i dsh in
  let id' := odflt id ddt in
  if negb (same_kind i' dsh) then None else
  obind (broadcast_nested i' dsh) (fun o =>
    mk_generic (KDiag dsh ddt) i' (Some o) id' (Some id') (fun x => av_bin (dsh, ddt) x) None).

(** ScaledIdentity.__init__ (_diag.py:159-181): the diagonal is a 0-d array (one per block) *)
Definition unit_shape (i : nshape) : nshape :=
  match i with Plain _ => Plain [] | Block ss => Block (map (fun _ => []) ss) end.
Definition mk_sid (sdt : dt) (i : nshape) (id : dt) : option opv :=
  obind (broadcast_nested i (unit_shape i)) (fun o =>
    mk_generic (KSId sdt) i (Some o) id (Some id) (fun x => av_bin (unit_shape i, sdt) x) None).
Definition mk_sid_scalar (s : scal) (i : nshape) (id : dt) : option opv := mk_sid (rt_scal id s) i id.

(** Identity (_diag.py:272-310): _eval returns x *)
Definition mk_id (i : nshape) (id : dt) : option opv :=
  obind (broadcast_nested i (unit_shape i)) (fun o =>
    mk_generic KId i (Some o) id (Some id) (fun x => Some x) None).

(** MatrixOperator (_matrix.py): __call__ and adj are overridden and test nothing *)
Definition mk_mat (r c cols : Z) (adt : dt) : option opv :=
  let i := if cols =? 0 then Plain [c] else Plain [c; cols] in
  let o := if cols =? 0 then Plain [r] else Plain [r; cols] in
  (* output dtype inferred by self(zeros(input_shape, A.dtype)) *)
  match av_matmul r c adt (i, adt) with
  | None => None
  | Some (_, pd) =>
      Some (mkop (KMat r c cols adt) (mkmeta i o adt pd) (av_matmul r c adt) (av_matmul c r adt))
  end.

(** the [.diagonal] property of the Diagonal family: (shape, dtype) *)
Definition diag_of (v : opv) : option av :=
  match o_cls v with
  | KDiag dsh ddt => Some (dsh, ddt)
  | KSId sdt => Some (ish (o_m v), join sdt (idt (o_m v)))
  | KId => Some (ish (o_m v), idt (o_m v))
  | _ => None
  end.
(** the [._diagonal] attribute of ScaledIdentity / Identity: dtype *)
Definition sdiag_of (v : opv) : option dt :=
  match o_cls v with
  | KSId sdt => Some sdt
  | KId => Some (idt (o_m v))
  | _ => None
  end.

(* ------------------------------------------------------------------ *)
(** * derived operators *)

Definition m_shape_eqb (a b : meta) : bool := nshape_eqb (ish a) (ish b) && nshape_eqb (osh a) (osh b).

(** LinearOperator.H (_linop.py:377-384) *)
Definition lin_H (v : opv) : option opv :=
  let m := o_m v in
  mk_generic KLin (osh m) (Some (ish m)) (odt m) (Some (idt m)) (o_adj v) (Some (o_call v)).

(** LinearOperator.T (_linop.py:343-359); x.conj() keeps shape and dtype *)
Definition lin_T (v : opv) : option opv :=
  let m := o_m v in
  if is_cplx (idt m)
  then mk_generic KLin (osh m) (Some (ish m)) (idt m) (Some (odt m)) (o_adj v) (Some (o_call v))
  else lin_H v.

(** LinearOperator.conj (_linop.py:393-400) *)
Definition lin_conj (v : opv) : option opv :=
  let m := o_m v in
  mk_generic KLin (ish m) (Some (osh m)) (idt m) (Some (odt m)) (o_call v) (Some (o_adj v)).

(** LinearOperator.gram_op (_linop.py:412-419) *)
Definition lin_gram (v : opv) : option opv :=
  let m := o_m v in
  let g := fun x => obind (o_call v x) (o_adj v) in
  mk_generic KLin (ish m) (Some (ish m)) (idt m) (Some (odt m)) g (Some g).

Definition op_T (v : opv) : option opv :=
  match o_cls v with
  | KOp => None
  | KLin => lin_T v
  | KDiag _ _ | KSId _ | KId => Some v                                  (* _diag.py:80-82 *)
  | KMat r c _ adt => mk_mat c r 0 adt                                   (* MatrixOperator(A.T) *)
  end.

Definition op_conj (v : opv) : option opv :=
  match o_cls v with
  | KOp => None
  | KLin => lin_conj v
  | KDiag dsh ddt => mk_diag dsh ddt (Some (ish (o_m v))) None            (* _diag.py:86, after fix 440704b *)
  | KSId sdt => mk_sid sdt (ish (o_m v)) (idt (o_m v))                   (* _diag.py:189: the scalar is a 0-d array of dtype sdt: rt = join idt sdt *)
  | KId => Some v
  | KMat r c _ adt => mk_mat r c 0 adt
  end.
(** ScaledIdentity(scalar = 0-d array of dtype sdt, ...): diagonal = scalar * ones((), idt) *)
Definition mk_sid_arr (sdt : dt) (i : nshape) (id : dt) : option opv := mk_sid (join sdt id) i id.

Definition op_conj' (v : opv) : option opv :=
  match o_cls v with
  | KSId sdt => mk_sid_arr sdt (ish (o_m v)) (idt (o_m v))
  | _ => op_conj v
  end.

Definition op_H (v : opv) : option opv :=
  match o_cls v with
  | KOp => None
  | KLin => lin_H v
  | KDiag _ _ | KSId _ | KId => op_conj' v                               (* _diag.py:91 *)
  | KMat r c _ adt => mk_mat c r 0 adt
  end.

Definition op_gram (v : opv) : option opv :=
  match o_cls v with
  | KOp => None
  | KLin => lin_gram v
  | KDiag dsh ddt => mk_diag dsh ddt (Some (ish (o_m v))) None            (* _diag.py:100, after fix 440704b *)
  | KSId sdt => mk_sid_arr sdt (ish (o_m v)) (idt (o_m v))               (* _diag.py:196 *)
  | KId => Some v
  | KMat r c _ adt => mk_mat c c 0 adt                                   (* MatrixOperator(A^H A) *)
  end.

(** scalar * A, A * scalar, A / scalar, -A *)
Definition gen_scal (s : scal) (v : opv) : option opv :=
  let m := o_m v in
  mk_generic (if is_lin v then KLin else KOp) (ish m) (Some (osh m)) (idt m) (Some (rt_scal (odt m) s))
             (fun x => option_map (av_scal s) (o_call v x))
             (Some (fun y => option_map (av_scal s) (o_adj v y))).

Definition op_scal (s : scal) (v : opv) : option opv :=
  match o_cls v with
  | KOp | KLin => gen_scal s v
  | KDiag dsh ddt => mk_diag dsh (rt_scal ddt s) (Some (ish (o_m v))) None (* _diag.py:116, after fix 440704b *)
  | KSId _ | KId =>                                                      (* _diag.py:224 *)
      obind (sdiag_of v) (fun sd => mk_sid_arr (rt_scal sd s) (ish (o_m v)) (idt (o_m v)))
  | KMat r c _ adt => mk_mat r c 0 (rt_scal adt s)                       (* MatrixOperator(other * A) *)
  end.

(** A + B, A - B (after the shape test of the wrappers) *)
Definition gen_add (a b : opv) : option opv :=
  let m := o_m a in
  let lin := is_lin a && is_lin b in
  mk_generic (if lin then KLin else KOp) (ish m) (Some (osh m)) (idt m) (Some (join (odt m) (odt (o_m b))))
             (fun x => obind (o_call a x) (fun p => obind (o_call b x) (av_bin p)))
             (Some (fun y => obind (o_adj a y) (fun p => obind (o_adj b y) (av_bin p)))).

Definition is_sid (v : opv) : bool := match o_cls v with KSId _ | KId => true | _ => false end.
Definition is_diagfam (v : opv) : bool := match o_cls v with KDiag _ _ | KSId _ | KId => true | _ => false end.

Definition op_add (a b : opv) : option opv :=
  if negb (m_shape_eqb (o_m a) (o_m b)) then None else
  match o_cls a, o_cls b with
  | KMat r c _ adt, KMat _ _ _ bdt => mk_mat r c 0 (join adt bdt)        (* _matrix.py wrapper *)
  | _, _ =>
      if is_sid a && is_sid b then                                        (* _diag.py:204-210 *)
        obind (sdiag_of a) (fun sa => obind (sdiag_of b) (fun sb =>
          mk_sid_arr (join sa sb) (ish (o_m a)) (idt (o_m a))))
      else if is_diagfam a && is_diagfam b then                           (* _diag.py:104-106 *)
        obind (diag_of a) (fun da => obind (diag_of b) (fun db =>
          if nshape_eqb (fst da) (fst db) then mk_diag (fst da) (join (snd da) (snd db)) (Some (ish (o_m a))) None
          else None))
      else gen_add a b
  end.

(** A(B): Operator.__call__ (_operator.py:202-212), LinearOperator.__call__ (_linop.py:290),
    ComposedLinearOperator (_linop.py:478-496), MatrixOperator.__call__ *)
Definition comp_call (a b : opv) : av -> option av := fun z => obind (o_call b z) (o_call a).

Definition op_comp_generic (a b : opv) : option opv :=
  if negb (nshape_eqb (ish (o_m a)) (osh (o_m b))) then None else
  mk_generic KOp (ish (o_m b)) (Some (osh (o_m a))) (idt (o_m a)) (Some (odt (o_m b))) (comp_call a b) None.

Definition op_comp_lin (a b : opv) : option opv :=
  if negb (nshape_eqb (ish (o_m a)) (osh (o_m b))) then None else
  if negb (dt_eqb (idt (o_m a)) (odt (o_m b))) then None else
  mk_generic KLin (ish (o_m b)) (Some (osh (o_m a))) (idt (o_m b)) (Some (odt (o_m a))) (comp_call a b)
             (Some (fun z => obind (o_adj a z) (o_adj b))).

Definition op_comp (a b : opv) : option opv :=
  match o_cls a with
  | KOp => op_comp_generic a b
  | KMat r c cols adt =>
      if negb (is_lin b) then None else
      if negb (nshape_eqb (ish (o_m a)) (osh (o_m b))) then None else
      match o_cls b with
      | KId => Some a
      | KMat r' c' _ bdt => mk_mat r c' 0 (join adt bdt)
      | _ => mk_generic KLin (ish (o_m b)) (Some (osh (o_m a))) adt None (comp_call a b) None
      end
  | _ => if is_lin b then op_comp_lin a b else op_comp_generic a b
  end.

(* ------------------------------------------------------------------ *)
(** * stacks (operator/_stack.py, linop/_stack.py) *)

Definition all_eqb {A} (eqb : A -> A -> bool) (l : list A) : bool :=
  match l with [] => true | x :: t => forallb (eqb x) t end.

Definition op_vstack (ops : list opv) (collapse : bool) : option opv :=
  match ops with
  | [] => None
  | op0 :: _ =>
      let ms := map o_m ops in
      if negb (all_eqb nshape_eqb (map ish ms)) then None else
      if negb (all_eqb dt_eqb (map idt ms)) then None else
      if existsb is_nested (map osh ms) then None else
      (* np.all(<generator>) is always true: no test of the output dtypes (l.140-142) *)
      let lin := forallb is_lin ops in
      let coll := is_collapsible (map osh ms) && collapse in
      obind (if coll then collapsed (map osh ms) else option_map Block (mapo plain_of (map osh ms))) (fun o =>
      let ev := fun x => obind (mapo (fun v => o_call v x) ops) (if coll then av_stack else av_block) in
      let ad := fun y => obind (unstack y) (fun ys =>
                   obind (map2o (fun v yk => o_adj v yk) ops ys) av_sum) in
      mk_generic (if lin then KLin else KOp) (ish (o_m op0)) (Some o) (idt (o_m op0)) (Some (odt (o_m op0)))
                 ev (if lin then Some ad else None))
  end.

Definition op_dstack (ops : list opv) (ci co : bool) : option opv :=
  match ops with
  | [] => None
  | op0 :: _ =>
      let ms := map o_m ops in
      if existsb is_nested (map osh ms) then None else
      let lin := forallb is_lin ops in
      obind (collapse_shapes (map ish ms) ci) (fun ic =>
      obind (collapse_shapes (map osh ms) co) (fun oc =>
      let ev := fun x => obind (unstack x) (fun xs =>
                   obind (map2o (fun v xk => o_call v xk) ops xs) (if snd oc then av_stack else av_block)) in
      (* _adj uses op.adj(y_n) (linop/_stack.py:144, after fix 061343e) *)
      let ad := fun y => obind (unstack y) (fun ys =>
                   obind (map2o (fun v yk => o_adj v yk) ops ys)
                         (if snd ic then av_stack else av_block)) in
      mk_generic (if lin then KLin else KOp) (fst ic) (Some (fst oc)) (idt (o_m op0)) (Some (odt (o_m op0)))
                 ev (if lin then Some ad else None)))
  end.

(** jax.vmap(f, in_axes = ia, out_axes = oa) on shapes *)
Definition vmap_shape (f : av -> option av) (ia oa : nat) (x : av) : option av :=
  match fst x with
  | Plain s =>
      if (length s <=? ia)%nat then None else
      let r := nth ia s 0 in
      obind (f (Plain (remove_at ia s), snd x)) (fun y =>
        match fst y with
        | Plain t => if (length t <? oa)%nat then None else Some (Plain (insert_at oa r t), snd y)
        | Block _ => None
        end)
  | Block _ => None
  end.

Definition op_drep (v : opv) (n : Z) (ia oa : nat) : option opv :=
  match ish (o_m v), osh (o_m v) with
  | Plain si, Plain so =>
      if (length si <? ia)%nat then None else
      let i := Plain (insert_at ia n si) in
      let o := Plain (insert_at oa n so) in
      mk_generic (if is_lin v then KLin else KOp) i (Some o) (idt (o_m v)) (Some (odt (o_m v)))
                 (vmap_shape (o_call v) ia oa)
                 (if is_lin v then Some (vmap_shape (o_adj v) oa ia) else None)   (* linop/_stack.py:224, after fix 4f99721 *)
  | _, _ => None
  end.

(** axis arguments as the user gives them (operator/_stack.py:297-316, after fix 20c9a7e):
    a negative axis counts from the end of the *replicated* shape ([rank + 1 + a]); an axis
    outside [0, rank] is a ValueError ([None]) *)
Definition norm_axis (rank : nat) (a : Z) : option nat :=
  let a' := if a <? 0 then Z.of_nat rank + 1 + a else a in
  if (a' <? 0) || (Z.of_nat rank <? a') then None else Some (Z.to_nat a').

(** [output_axis = None] means "the (normalised) input axis"; like an explicit axis it must
    not exceed the operand's output rank (ValueError, after fix 760899e) *)
Definition drep_axes (ri ro : nat) (ia : Z) (oa : option Z) : option (nat * nat) :=
  match norm_axis ri ia with
  | None => None
  | Some ki =>
      match oa with
      | None => if (ro <? ki)%nat then None else Some (ki, ki)
      | Some z => option_map (fun ko => (ki, ko)) (norm_axis ro z)
      end
  end.

Definition op_drep_z (v : opv) (n : Z) (ia : Z) (oa : option Z) : option opv :=
  match ish (o_m v), osh (o_m v) with
  | Plain si, Plain so =>
      match drep_axes (length si) (length so) ia oa with
      | None => None
      | Some (ki, ko) => op_drep v n ki ko
      end
  | _, _ => None
  end.

(** Operator.freeze (_operator.py:360-409): the new Operator is created with the default
    input dtype float32 and probes on zeros of that dtype; the frozen value has dtype [vd] *)
Definition op_freeze (v : opv) (argnum : nat) (vd : dt) : option opv :=
  match ish (o_m v) with
  | Plain _ => None
  | Block ss =>
      if (length ss <=? argnum)%nat then None else
      let rest := firstn argnum ss ++ skipn (S argnum) ss in
      let i := match rest with [s] => Plain s | _ => Block rest end in
      let ev := fun x : av =>
        (* concat_args: blockarray with the frozen value in place *)
        let blocks := match fst x with Plain s => Some [s] | Block l => Some l end in
        obind blocks (fun bl =>
          if dt_eqb (snd x) vd   (* heterogeneous dtypes are rejected by BlockArray *)
          then o_call v (Block (firstn argnum bl ++ nth argnum ss [] :: skipn argnum bl), vd)
          else None) in
      (* after fix 6709411: input_dtype / output_dtype of the frozen operator are passed on *)
      mk_generic KOp i (Some (osh (o_m v))) (idt (o_m v)) (Some (odt (o_m v))) ev None
  end.

(* ------------------------------------------------------------------ *)
(** * expressions *)

Inductive ox :=
| XLeaf (lin : bool) (i o : nshape) (declared_o : bool) (id : dt) (od : option dt) (fk : fkind) (ak : akind)
| XDiag (dsh : nshape) (ddt : dt) (i : option nshape) (id : option dt)
| XSId (s : scal) (i : nshape) (id : dt)
| XId (i : nshape) (id : dt)
| XMat (r c cols : Z) (adt : dt)
| XT (e : ox) | XH (e : ox) | XConj (e : ox) | XGram (e : ox)
| XScal (s : scal) (e : ox)
| XAdd (a b : ox)                       (* also A - B: same metadata rules *)
| XComp (a b : ox)
| XVStack (a b : ox) (collapse : bool)
| XDStack (a b : ox) (ci co : bool)
| XDRep (e : ox) (n : Z) (ia : Z) (oa : option Z)
| XFreeze (e : ox) (argnum : nat) (vd : dt).

Fixpoint build (e : ox) : option opv :=
  match e with
  | XLeaf lin i o dcl id od fk ak => mk_leaf lin i o dcl id od fk ak
  | XDiag dsh ddt i id => mk_diag dsh ddt i id
  | XSId s i id => mk_sid_scalar s i id
  | XId i id => mk_id i id
  | XMat r c cols adt => mk_mat r c cols adt
  | XT e => obind (build e) op_T
  | XH e => obind (build e) op_H
  | XConj e => obind (build e) op_conj'
  | XGram e => obind (build e) op_gram
  | XScal s e => obind (build e) (op_scal s)
  | XAdd a b => obind (build a) (fun x => obind (build b) (op_add x))
  | XComp a b => obind (build a) (fun x => obind (build b) (op_comp x))
  | XVStack a b c => obind (build a) (fun x => obind (build b) (fun y => op_vstack [x; y] c))
  | XDStack a b ci co => obind (build a) (fun x => obind (build b) (fun y => op_dstack [x; y] ci co))
  | XDRep e n ia oa => obind (build e) (fun x => op_drep_z x n ia oa)
  | XFreeze e k vd => obind (build e) (fun x => op_freeze x k vd)
  end.

(** what scico declares *)
Definition declared (e : ox) : option meta := option_map o_m (build e).

(** what evaluating on an array of the declared input shape and dtype actually yields *)
Definition actual (e : ox) : option (option av) :=
  option_map (fun v => o_call v (ish (o_m v), idt (o_m v))) (build e).
Definition actual_adj (e : ox) : option (option av) :=
  option_map (fun v => o_adj v (osh (o_m v), odt (o_m v))) (build e).

(** the property, for one operator object *)
Definition conforms (v : opv) : Prop :=
  o_call v (ish (o_m v), idt (o_m v)) = Some (osh (o_m v), odt (o_m v)).
Definition conforms_adj (v : opv) : Prop :=
  is_lin v = true -> o_adj v (osh (o_m v), odt (o_m v)) = Some (ish (o_m v), idt (o_m v)).
Definition rejects (v : opv) : Prop :=
  forall x, fst x <> ish (o_m v) -> o_call v x = None.

(** observation record compared with the implementation by the correspondence harness:
    declared metadata, sizes, result of evaluating on a conforming input, result of adj *)
Definition observe (e : ox) : option (meta * (Z * Z) * option av * option av) :=
  option_map (fun v => (o_m v, matrix_shape (osh (o_m v)) (ish (o_m v)),
                        o_call v (ish (o_m v), idt (o_m v)),
                        if is_lin v then o_adj v (osh (o_m v), odt (o_m v)) else None)) (build e).
