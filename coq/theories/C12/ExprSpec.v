(** C12 -- the documented operator calculus ([spec]) and the well-formedness side conditions
    ([wfx]) under which scico's declared metadata equal the actual behaviour. *)
From Coq Require Import List Bool ZArith Lia.
From SV Require Import C12.Shape C12.Expr.
Import ListNotations.
Open Scope Z_scope.

Definition swap (m : meta) : meta := mkmeta (osh m) (ish m) (odt m) (idt m).

Definition stack2 (a b : nshape) (collapse : bool) : option nshape :=
  match a, b with
  | Plain sa, Plain sb =>
      if shape_eqb sa sb && collapse then Some (Plain (2 :: sa)) else Some (Block [sa; sb])
  | _, _ => None
  end.

(** metadata the documentation promises for each form: shapes and dtypes of the map the
    expression denotes ([None]: the expression is ill-typed and must be rejected) *)
Fixpoint spec (e : ox) : option meta :=
  match e with
  | XLeaf lin i o dcl id od fk ak => Some (mkmeta i o id (fdt fk id))
  | XDiag dsh ddt i id =>
      let i' := odflt i dsh in
      let id' := odflt id ddt in
      if negb (same_kind i' dsh) then None else
      option_map (fun o => mkmeta i' o id' (join id' ddt)) (broadcast_nested i' dsh)
  | XSId s i id => Some (mkmeta i i id (rt_scal id s))
  | XId i id => Some (mkmeta i i id id)
  | XMat r c cols adt =>
      Some (if cols =? 0 then mkmeta (Plain [c]) (Plain [r]) adt adt
            else mkmeta (Plain [c; cols]) (Plain [r; cols]) adt adt)
  | XT e | XH e => option_map swap (spec e)
  | XConj e => spec e
  | XGram e => option_map (fun m => mkmeta (ish m) (ish m) (idt m) (idt m)) (spec e)
  | XScal s e => option_map (fun m => mkmeta (ish m) (osh m) (idt m) (rt_scal (odt m) s)) (spec e)
  | XAdd a b =>
      match spec a, spec b with
      | Some ma, Some mb =>
          if m_shape_eqb ma mb && dt_eqb (idt ma) (idt mb)
          then Some (mkmeta (ish ma) (osh ma) (idt ma) (join (odt ma) (odt mb))) else None
      | _, _ => None
      end
  | XComp a b =>
      match spec a, spec b with
      | Some ma, Some mb =>
          if nshape_eqb (ish ma) (osh mb) && dt_eqb (idt ma) (odt mb)
          then Some (mkmeta (ish mb) (osh ma) (idt mb) (odt ma)) else None
      | _, _ => None
      end
  | XVStack a b c =>
      match spec a, spec b with
      | Some ma, Some mb =>
          if nshape_eqb (ish ma) (ish mb) && dt_eqb (idt ma) (idt mb) && dt_eqb (odt ma) (odt mb)
          then option_map (fun o => mkmeta (ish ma) o (idt ma) (odt ma)) (stack2 (osh ma) (osh mb) c)
          else None
      | _, _ => None
      end
  | XDStack a b ci co =>
      match spec a, spec b with
      | Some ma, Some mb =>
          if dt_eqb (idt ma) (idt mb) && dt_eqb (odt ma) (odt mb)
          then match stack2 (ish ma) (ish mb) ci, stack2 (osh ma) (osh mb) co with
               | Some i, Some o => Some (mkmeta i o (idt ma) (odt ma))
               | _, _ => None
               end
          else None
      | _, _ => None
      end
  | XDRep e n ia oa =>
      (* the replicate axis is inserted at the normalised input / output position; a defaulted
         output axis (= the input position) must exist in the operand's output, like an explicit one *)
      match spec e with
      | Some m =>
          match ish m, osh m with
          | Plain si, Plain so =>
              match drep_axes (length si) (length so) ia oa with
              | Some (ki, ko) =>
                  Some (mkmeta (Plain (insert_at ki n si)) (Plain (insert_at ko n so)) (idt m) (odt m))
              | None => None
              end
          | _, _ => None
          end
      | None => None
      end
  | XFreeze e k vd =>
      match spec e with
      | Some m =>
          match ish m with
          | Block ss =>
              if (length ss <=? k)%nat || negb (dt_eqb vd (idt m)) then None else
              let rest := firstn k ss ++ skipn (S k) ss in
              Some (mkmeta (match rest with [s] => Plain s | _ => Block rest end) (osh m) (idt m) (odt m))
          | Plain _ => None
          end
      | None => None
      end
  end.

(** ** operator objects on which the property holds *)

Definition generic (v : opv) : Prop := o_cls v = KOp \/ o_cls v = KLin.

Definition good (v : opv) : Prop :=
  generic v /\ conforms v /\ conforms_adj v /\ rejects v.

Definition same_dt (v : opv) : Prop := idt (o_m v) = odt (o_m v).

(** side conditions (in terms of the operands' declared metadata) under which the derived
    form is guaranteed to conform; outside them scico's declarations can be wrong -- see
    Findings/C12_*.v for witnesses *)
Fixpoint wfx (e : ox) : Prop :=
  match e with
  | XLeaf lin i o dcl id od fk ak =>
      (od = None \/ od = Some (fdt fk id)) /\
      match ak with AAuto => True | APromote pd => join (fdt fk id) pd = id end
  | XT e' => wfx e' /\ (forall v, build e' = Some v -> is_lin v = true /\ (is_cplx (idt (o_m v)) = true -> same_dt v))
  | XH e' | XConj e' => wfx e' /\ (forall v, build e' = Some v -> is_lin v = true)
  | XGram e' => wfx e' /\ (forall v, build e' = Some v -> is_lin v = true /\ same_dt v)
  | XScal s e' =>
      wfx e' /\ (forall v, build e' = Some v -> is_lin v = true ->
                           rt_scal (odt (o_m v)) s = odt (o_m v) /\ rt_scal (idt (o_m v)) s = idt (o_m v))
  | XAdd a b =>
      wfx a /\ wfx b /\
      (forall va vb, build a = Some va -> build b = Some vb ->
                     idt (o_m va) = idt (o_m vb) /\ odt (o_m va) = odt (o_m vb))
  | XComp a b =>
      wfx a /\ wfx b /\
      (forall va vb, build a = Some va -> build b = Some vb ->
                     idt (o_m va) = odt (o_m vb) /\
                     (is_lin va && is_lin vb = false -> same_dt va /\ same_dt vb))
  | XVStack a b c =>
      wfx a /\ wfx b /\
      (forall va vb, build a = Some va -> build b = Some vb -> odt (o_m va) = odt (o_m vb))
  | _ => False
  end.
