From Coq Require Import List Bool ZArith Lia.
From SV Require Import C12.Shape C12.Expr C12.ExprSpec.
Import ListNotations.
Open Scope Z_scope.

(** C12 -- declared metadata = actual behaviour for every well-formed operator expression. *)

(* ------------------------------------------------------------------ *)
(** * the argument checks of __call__ / adj *)

Lemma chk_call_same i f d : chk_call i f (i, d) = f (i, d).
Proof. unfold chk_call. simpl. rewrite nshape_eqb_refl. reflexivity. Qed.

Lemma chk_call_rej i f x : fst x <> i -> chk_call i f x = None.
Proof.
  intros H. unfold chk_call. destruct (nshape_eqb i (fst x)) eqn:E; [|reflexivity].
  apply nshape_eqb_eq in E. congruence.
Qed.

Lemma chk_adj_same o od f : chk_adj o od f (o, od) = f (o, od).
Proof. unfold chk_adj. simpl. rewrite dt_eqb_refl, nshape_eqb_refl. reflexivity. Qed.

Lemma auto_adj_ok i id call o od :
  call (i, id) = Some (o, od) -> auto_adj i id call (o, od) = Some (i, id).
Proof.
  intros H. unfold auto_adj. rewrite H. simpl. rewrite nshape_eqb_refl, dt_eqb_refl. reflexivity.
Qed.

(** the object [mk_generic] returns when output shape and dtype are both given *)
Definition gen_op (k : cls) (i o : nshape) (id od : dt) (ev a : av -> option av) : opv :=
  mkop k (mkmeta i o id od) (chk_call i ev)
       (match k with KOp => (fun _ => None) | _ => chk_adj o od a end).

Lemma mk_generic_SS k i o id od ev adjf :
  mk_generic k i (Some o) id (Some od) ev adjf =
  Some (gen_op k i o id od ev
               (match adjf with Some a => a | None => auto_adj i id (chk_call i ev) end)).
Proof. reflexivity. Qed.

Lemma gen_op_conf k i o id od ev a :
  ev (i, id) = Some (o, od) -> (k <> KOp -> a (o, od) = Some (i, id)) ->
  conforms (gen_op k i o id od ev a) /\ conforms_adj (gen_op k i o id od ev a) /\
  rejects (gen_op k i o id od ev a).
Proof.
  intros E A. unfold conforms, conforms_adj, rejects, gen_op, is_lin.
  cbn [o_cls o_m o_call o_adj ish osh idt odt].
  split; [rewrite chk_call_same; exact E|]. split.
  - intros L. destruct k; try discriminate; rewrite chk_adj_same; apply A; discriminate.
  - intros x Hx. apply chk_call_rej. exact Hx.
Qed.

Lemma gen_op_good k i o id od ev a :
  (k = KOp \/ k = KLin) -> ev (i, id) = Some (o, od) -> (k = KLin -> a (o, od) = Some (i, id)) ->
  good (gen_op k i o id od ev a).
Proof.
  intros K E A. split; [exact K|]. apply gen_op_conf; [exact E|].
  intros N. apply A. destruct K as [->| ->]; [congruence|reflexivity].
Qed.

(* ------------------------------------------------------------------ *)
(** * broadcasting facts *)

Lemma map2o_bc_idem ss : map2o broadcast ss ss = Some ss.
Proof. induction ss as [|s ss IH]; simpl; [reflexivity|]. rewrite broadcast_idem, IH. reflexivity. Qed.

Lemma broadcast_nested_idem s : broadcast_nested s s = Some s.
Proof.
  destruct s; simpl; [rewrite broadcast_idem|rewrite map2o_bc_idem]; reflexivity.
Qed.

Lemma broadcast_scalar_l a : broadcast [] a = Some a.
Proof. rewrite broadcast_comm. apply broadcast_scalar. Qed.

Lemma map2o_bc_unit_r ss : map2o broadcast ss (map (fun _ => []) ss) = Some ss.
Proof.
  induction ss as [|s ss IH]; cbn [map map2o]; [reflexivity|]. rewrite broadcast_scalar, IH. reflexivity.
Qed.

Lemma map2o_bc_unit_l ss : map2o broadcast (map (fun _ : shape => []) ss) ss = Some ss.
Proof.
  induction ss as [|s ss IH]; cbn [map map2o]; [reflexivity|]. rewrite broadcast_scalar_l, IH. reflexivity.
Qed.

Lemma bn_unit_r i : broadcast_nested i (unit_shape i) = Some i.
Proof.
  destruct i; cbn [broadcast_nested unit_shape]; [rewrite broadcast_scalar|rewrite map2o_bc_unit_r]; reflexivity.
Qed.

Lemma bn_unit_l i : broadcast_nested (unit_shape i) i = Some i.
Proof.
  destruct i; cbn [broadcast_nested unit_shape]; [rewrite broadcast_scalar_l|rewrite map2o_bc_unit_l]; reflexivity.
Qed.

Lemma map2o_bc_comm xs : forall ys, map2o broadcast xs ys = map2o broadcast ys xs.
Proof.
  induction xs as [|x xs IH]; destruct ys as [|y ys]; simpl; try reflexivity.
  rewrite broadcast_comm, IH. reflexivity.
Qed.

Lemma bn_comm_same_kind a b :
  same_kind a b = true -> broadcast_nested a b = broadcast_nested b a.
Proof.
  destruct a, b; simpl; try discriminate; intros _.
  - rewrite broadcast_comm. reflexivity.
  - rewrite map2o_bc_comm. reflexivity.
Qed.

(* ------------------------------------------------------------------ *)
(** * class-specific leaves *)

Theorem mk_id_conforms : forall i id v, mk_id i id = Some v ->
  conforms v /\ conforms_adj v /\ rejects v /\ o_m v = mkmeta i i id id.
Proof.
  intros i id v H. unfold mk_id in H. rewrite bn_unit_r in H. cbn [obind] in H.
  rewrite mk_generic_SS in H. injection H as <-.
  pose proof (gen_op_conf KId i i id id (fun x => Some x)
                (auto_adj i id (chk_call i (fun x => Some x)))) as G.
  destruct G as (G1 & G2 & G3); [reflexivity| |auto].
  intros _. apply auto_adj_ok. rewrite chk_call_same. reflexivity.
Qed.

Theorem mk_sid_conforms : forall s i id v, mk_sid_scalar s i id = Some v ->
  rt_scal id s = id -> conforms v /\ conforms_adj v /\ rejects v /\ o_m v = mkmeta i i id id.
Proof.
  intros s i id v H R. unfold mk_sid_scalar, mk_sid in H. rewrite bn_unit_r in H. cbn [obind] in H.
  rewrite mk_generic_SS in H. injection H as <-. rewrite R.
  assert (E : av_bin (unit_shape i, id) (i, id) = Some (i, id)).
  { unfold av_bin. cbn [fst snd]. rewrite bn_unit_l, join_idem. reflexivity. }
  pose proof (gen_op_conf (KSId id) i i id id (fun x => av_bin (unit_shape i, id) x)
                (auto_adj i id (chk_call i (fun x => av_bin (unit_shape i, id) x)))) as G.
  destruct G as (G1 & G2 & G3); [exact E| |auto].
  intros _. apply auto_adj_ok. rewrite chk_call_same. exact E.
Qed.

Theorem mk_diag_conforms : forall dsh ddt i id v, mk_diag dsh ddt i id = Some v ->
  join (odflt id ddt) ddt = odflt id ddt -> conforms v /\ conforms_adj v /\ rejects v.
Proof.
  intros dsh ddt i id v H J. unfold mk_diag in H.
  set (i' := odflt i dsh) in *. set (id' := odflt id ddt) in *.
  destruct (same_kind i' dsh) eqn:K; [|discriminate]. cbn [negb] in H.
  destruct (broadcast_nested i' dsh) as [o|] eqn:B; [|discriminate]. cbn [obind] in H.
  rewrite mk_generic_SS in H. injection H as <-.
  assert (E : av_bin (dsh, ddt) (i', id') = Some (o, id')).
  { unfold av_bin. cbn [fst snd]. rewrite <- (bn_comm_same_kind _ _ K), B.
    rewrite join_comm, J. reflexivity. }
  apply gen_op_conf; [exact E|].
  intros _. apply auto_adj_ok. rewrite chk_call_same. exact E.
Qed.

Lemma mk_mat_inv r c cols adt v : mk_mat r c cols adt = Some v ->
  v = mkop (KMat r c cols adt)
           (mkmeta (if cols =? 0 then Plain [c] else Plain [c; cols])
                   (if cols =? 0 then Plain [r] else Plain [r; cols]) adt adt)
           (av_matmul r c adt) (av_matmul c r adt).
Proof.
  unfold mk_mat, av_matmul. cbn [fst snd].
  destruct (cols =? 0); cbn [matmul_shape rev app]; rewrite Z.eqb_refl; cbn [option_map];
    rewrite join_idem; intros H; injection H as <-; reflexivity.
Qed.

Theorem mk_mat_conforms : forall r c cols adt v, mk_mat r c cols adt = Some v ->
  conforms v /\ conforms_adj v /\ spec (XMat r c cols adt) = Some (o_m v).
Proof.
  intros r c cols adt v H. apply mk_mat_inv in H. subst v.
  unfold conforms, conforms_adj, av_matmul.
  cbn [o_m o_call o_adj ish osh idt odt spec fst snd].
  destruct (cols =? 0); cbn [matmul_shape rev app]; rewrite !Z.eqb_refl; cbn [option_map];
    rewrite join_idem; auto.
Qed.

Theorem mat_T_cols0 : forall r c adt v w, mk_mat r c 0 adt = Some v -> op_T v = Some w ->
  o_m w = swap (o_m v).
Proof.
  intros r c adt v w H T. apply mk_mat_inv in H. subst v.
  unfold op_T in T. cbn [o_cls] in T. apply mk_mat_inv in T. subst w. reflexivity.
Qed.

Theorem mat_matrix_shape : forall r c cols adt v, mk_mat r c cols adt = Some v ->
  matrix_shape (osh (o_m v)) (ish (o_m v)) =
  if cols =? 0 then (r, c) else (r * cols, c * cols).
Proof.
  intros r c cols adt v H. apply mk_mat_inv in H. subst v.
  cbn [o_m ish osh]. unfold matrix_shape.
  destruct (cols =? 0); cbn [size prodZ fold_right]; f_equal; lia.
Qed.

(* ------------------------------------------------------------------ *)
(** * generic operator objects *)

Lemma good_lin_cls v : good v -> is_lin v = true -> o_cls v = KLin.
Proof.
  intros (G & _) L. unfold is_lin in L. destruct G as [G|G]; rewrite G in *; [discriminate|reflexivity].
Qed.

(** ** leaf *)
Lemma mk_leaf_good lin i o dcl id od fk ak v :
  (od = None \/ od = Some (fdt fk id)) ->
  match ak with AAuto => True | APromote pd => join (fdt fk id) pd = id end ->
  mk_leaf lin i o dcl id od fk ak = Some v ->
  good v /\ o_m v = mkmeta i o id (fdt fk id).
Proof.
  intros Hod Hak H.
  set (ev := fun x : av => Some (o, fdt fk (snd x))).
  set (k := if lin then KLin else KOp).
  set (a := match ak with
            | AAuto => auto_adj i id (chk_call i ev)
            | APromote pd => fun y : av => Some (i, join (snd y) pd)
            end).
  assert (V : v = gen_op k i o id (fdt fk id) ev a).
  { unfold mk_leaf, mk_generic in H. fold ev in H. fold k in H.
    destruct Hod as [->| ->]; destruct dcl; cbn [odflt] in H;
      try rewrite chk_call_same in H; unfold ev at 1 in H; cbn [snd odflt] in H;
      injection H as <-; unfold gen_op, a; destruct ak; reflexivity. }
  subst v. split; [|reflexivity].
  apply gen_op_good.
  - unfold k. destruct lin; auto.
  - reflexivity.
  - intros _. unfold a. destruct ak.
    + apply auto_adj_ok. rewrite chk_call_same. reflexivity.
    + cbn [snd]. rewrite Hak. reflexivity.
Qed.

(** ** H, T, conj, gram *)
Lemma op_H_good v w : good v -> is_lin v = true -> op_H v = Some w ->
  good w /\ o_m w = swap (o_m v).
Proof.
  intros G L H. pose proof (good_lin_cls v G L) as C.
  unfold op_H in H. rewrite C in H. unfold lin_H in H. rewrite mk_generic_SS in H.
  injection H as <-. destruct G as (_ & Gc & Ga & _). specialize (Ga L).
  split; [|reflexivity]. apply gen_op_good; auto.
Qed.

Lemma op_T_good v w : good v -> is_lin v = true ->
  (is_cplx (idt (o_m v)) = true -> same_dt v) -> op_T v = Some w ->
  good w /\ o_m w = swap (o_m v).
Proof.
  intros G L S H. pose proof (good_lin_cls v G L) as C.
  unfold op_T in H. rewrite C in H. unfold lin_T in H.
  destruct (is_cplx (idt (o_m v))) eqn:E.
  - specialize (S eq_refl). rewrite mk_generic_SS in H. injection H as <-.
    destruct G as (_ & Gc & Ga & _). specialize (Ga L). unfold same_dt in S.
    unfold conforms in Gc. unfold swap. rewrite <- S in *. split; [|reflexivity]. apply gen_op_good; auto.
  - apply op_H_good; auto. unfold op_H. rewrite C. exact H.
Qed.

Lemma op_conj_good v w : good v -> is_lin v = true -> op_conj' v = Some w ->
  good w /\ o_m w = o_m v.
Proof.
  intros G L H. pose proof (good_lin_cls v G L) as C.
  unfold op_conj', op_conj in H. rewrite C in H. unfold lin_conj in H. rewrite mk_generic_SS in H.
  injection H as <-. destruct G as (_ & Gc & Ga & _). specialize (Ga L).
  split; [|destruct v as [? [? ? ? ?] ? ?]; reflexivity]. apply gen_op_good; auto.
Qed.

Lemma op_gram_good v w : good v -> is_lin v = true -> same_dt v -> op_gram v = Some w ->
  good w /\ o_m w = mkmeta (ish (o_m v)) (ish (o_m v)) (idt (o_m v)) (idt (o_m v)).
Proof.
  intros G L S H. pose proof (good_lin_cls v G L) as C.
  unfold op_gram in H. rewrite C in H. unfold lin_gram in H. rewrite mk_generic_SS in H.
  injection H as <-. destruct G as (_ & Gc & Ga & _). specialize (Ga L).
  unfold same_dt in S. unfold conforms in Gc. rewrite <- S in *.
  split; [|reflexivity]. apply gen_op_good; auto.
  - rewrite Gc. cbn [obind]. exact Ga.
  - intros _. rewrite Gc. cbn [obind]. exact Ga.
Qed.

(** ** scalar multiple *)
Lemma op_scal_good s v w : good v ->
  (is_lin v = true -> rt_scal (odt (o_m v)) s = odt (o_m v) /\ rt_scal (idt (o_m v)) s = idt (o_m v)) ->
  op_scal s v = Some w ->
  good w /\ o_m w = mkmeta (ish (o_m v)) (osh (o_m v)) (idt (o_m v)) (rt_scal (odt (o_m v)) s).
Proof.
  intros G R H.
  assert (H' : gen_scal s v = Some w).
  { unfold op_scal in H. destruct G as ([C|C] & _); rewrite C in H; exact H. }
  clear H. unfold gen_scal in H'. rewrite mk_generic_SS in H'. injection H' as <-.
  split; [|reflexivity]. destruct G as (Gg & Gc & Ga & _). unfold conforms in Gc.
  apply gen_op_good.
  - destruct (is_lin v); auto.
  - rewrite Gc. reflexivity.
  - intros K. destruct (is_lin v) eqn:L; [|discriminate].
    destruct (R eq_refl) as [R1 R2]. rewrite R1, (Ga L). unfold av_scal. cbn [option_map fst snd].
    rewrite R2. reflexivity.
Qed.

(** ** sum *)
Lemma m_shape_eqb_true a b : m_shape_eqb a b = true -> ish a = ish b /\ osh a = osh b.
Proof.
  unfold m_shape_eqb. intros H. apply andb_true_iff in H as [H1 H2].
  apply nshape_eqb_eq in H1, H2. auto.
Qed.

Lemma av_bin_same s d : av_bin (s, d) (s, d) = Some (s, d).
Proof. unfold av_bin. cbn [fst snd]. rewrite broadcast_nested_idem, join_idem. reflexivity. Qed.

Lemma op_add_good a b w : good a -> good b ->
  idt (o_m a) = idt (o_m b) -> odt (o_m a) = odt (o_m b) ->
  op_add a b = Some w ->
  good w /\ m_shape_eqb (o_m a) (o_m b) = true /\
  o_m w = mkmeta (ish (o_m a)) (osh (o_m a)) (idt (o_m a)) (join (odt (o_m a)) (odt (o_m b))).
Proof.
  intros Ga Gb Ei Eo H. unfold op_add in H.
  destruct (m_shape_eqb (o_m a) (o_m b)) eqn:M; [|discriminate]. cbn [negb] in H.
  assert (H' : gen_add a b = Some w).
  { destruct Ga as ([Ca|Ca] & _), Gb as ([Cb|Cb] & _);
      unfold is_sid, is_diagfam in H; rewrite Ca, Cb in H; exact H. }
  clear H. unfold gen_add in H'. rewrite mk_generic_SS in H'. injection H' as <-.
  split; [|split; reflexivity].
  apply m_shape_eqb_true in M as [Mi Mo].
  destruct Ga as (Gga & Gca & Gaa & _), Gb as (Ggb & Gcb & Gab & _).
  unfold conforms, conforms_adj in *. rewrite <- Mi, <- Mo, <- Ei, <- Eo in *.
  rewrite join_idem.
  apply gen_op_good.
  - destruct (is_lin a && is_lin b); auto.
  - rewrite Gca. cbn [obind]. rewrite Gcb. cbn [obind]. apply av_bin_same.
  - intros K. destruct (is_lin a) eqn:La; [|discriminate]. destruct (is_lin b) eqn:Lb; [|discriminate].
    rewrite (Gaa eq_refl). cbn [obind]. rewrite (Gab eq_refl). cbn [obind]. apply av_bin_same.
Qed.

(** ** composition *)
Lemma op_comp_good a b w : good a -> good b ->
  idt (o_m a) = odt (o_m b) ->
  (is_lin a && is_lin b = false -> same_dt a /\ same_dt b) ->
  op_comp a b = Some w ->
  good w /\ ish (o_m a) = osh (o_m b) /\
  o_m w = mkmeta (ish (o_m b)) (osh (o_m a)) (idt (o_m b)) (odt (o_m a)).
Proof.
  intros Ga Gb E S H.
  destruct Ga as (Gga & Gca & Gaa & _), Gb as (Ggb & Gcb & Gab & _).
  unfold conforms, conforms_adj, same_dt in *.
  destruct (is_lin a && is_lin b) eqn:L.
  - apply andb_true_iff in L as [La Lb].
    assert (Ca : o_cls a = KLin).
    { unfold is_lin in La. destruct Gga as [C|C]; rewrite C in La; [discriminate|exact C]. }
    unfold op_comp in H. rewrite Ca, Lb in H. unfold op_comp_lin in H.
    destruct (nshape_eqb (ish (o_m a)) (osh (o_m b))) eqn:N; [|discriminate].
    apply nshape_eqb_eq in N. cbn [negb] in H.
    rewrite E, dt_eqb_refl in H. cbn [negb] in H. rewrite mk_generic_SS in H. injection H as <-.
    split; [|split; [exact N|reflexivity]].
    apply gen_op_good; auto.
    + unfold comp_call. rewrite Gcb. cbn [obind]. rewrite <- N, <- E. exact Gca.
    + intros _. rewrite (Gaa La). cbn [obind]. rewrite N, E. exact (Gab Lb).
  - destruct (S eq_refl) as [Sa Sb].
    assert (H' : op_comp_generic a b = Some w).
    { unfold op_comp in H. unfold is_lin in L.
      destruct Gga as [Ca|Ca], Ggb as [Cb|Cb]; rewrite Ca, Cb in L; try discriminate;
        rewrite Ca in H; unfold is_lin in H; try rewrite Cb in H; exact H. }
    clear H. unfold op_comp_generic in H'.
    destruct (nshape_eqb (ish (o_m a)) (osh (o_m b))) eqn:N; [|discriminate].
    apply nshape_eqb_eq in N. cbn [negb] in H'. rewrite mk_generic_SS in H'. injection H' as <-.
    assert (E1 : idt (o_m b) = idt (o_m a)) by congruence.
    assert (E2 : odt (o_m a) = odt (o_m b)) by congruence.
    split; [|split; [exact N|]].
    + apply gen_op_good; auto; [|discriminate].
      unfold comp_call. rewrite <- E1, Gcb. cbn [obind]. rewrite <- N, <- E, Gca. congruence.
    + unfold gen_op. cbn [o_m]. rewrite E1, E2. reflexivity.
Qed.

(** ** vertical stack of two operators *)

Lemma av_block2 sx sy d : av_block [(Plain sx, d); (Plain sy, d)] = Some (Block [sx; sy], d).
Proof. unfold av_block. cbn [forallb snd]. rewrite dt_eqb_refl. reflexivity. Qed.

Lemma av_stack2 sx d : av_stack [(Plain sx, d); (Plain sx, d)] = Some (Plain (2 :: sx), d).
Proof.
  unfold av_stack. cbn [forallb fst nshape_eqb]. rewrite shape_eqb_refl. cbn [andb map snd joins].
  rewrite join_idem. reflexivity.
Qed.

Lemma av_sum2 a : av_sum [a; a] = Some a.
Proof. destruct a as [s d]. cbn [av_sum av_sum_from]. rewrite av_bin_same. reflexivity. Qed.

Lemma op_vstack2_good x y c w : good x -> good y -> odt (o_m x) = odt (o_m y) ->
  op_vstack [x; y] c = Some w ->
  good w /\ ish (o_m x) = ish (o_m y) /\ idt (o_m x) = idt (o_m y) /\
  exists o, stack2 (osh (o_m x)) (osh (o_m y)) c = Some o /\
   o_m w = mkmeta (ish (o_m x)) o (idt (o_m x)) (odt (o_m x)).
Proof.
  intros Gx Gy Eo H.
  destruct x as [kx [ix ox idx odx] cx ax]. destruct y as [ky [iy oy idy ody] cy ay].
  unfold good, generic, conforms, conforms_adj, rejects, is_lin in Gx, Gy.
  cbn [o_cls o_m o_call o_adj ish osh idt odt] in *.
  destruct Gx as (Kx & Cx & Ax & _), Gy as (Ky & Cy & Ay & _).
  unfold op_vstack in H. cbn [map o_m ish osh idt odt all_eqb forallb existsb] in H.
  destruct (nshape_eqb ix iy) eqn:Ni; [|discriminate]. apply nshape_eqb_eq in Ni.
  destruct (dt_eqb idx idy) eqn:Di; [|discriminate]. apply dt_eqb_eq in Di.
  cbn [andb negb] in H.
  destruct ox as [sx|]; [|discriminate]. destruct oy as [sy|]; [|discriminate].
  cbn [is_nested orb] in H.
  assert (IC : is_collapsible [Plain sx; Plain sy] = shape_eqb sx sy).
  { cbn [is_collapsible forallb nshape_eqb]. rewrite shape_eqb_refl. cbn [andb]. apply andb_true_r. }
  rewrite IC in H. subst iy idy ody.
  split; [|split; [reflexivity|split; [reflexivity|]]].
  - destruct Kx as [->| ->], Ky as [->| ->]; unfold is_lin in H; cbn [o_cls andb] in H;
    (destruct (shape_eqb sx sy && c) eqn:Co;
     [ apply andb_true_iff in Co as [Co _]; apply shape_eqb_eq in Co; subst sy;
       cbn [collapsed obind] in H;
       change (Z.of_nat (length [Plain sx; Plain sx])) with 2 in H
     | cbn [mapo plain_of option_map obind] in H ];
     rewrite mk_generic_SS in H; injection H as <-;
     (apply gen_op_good;
      [ auto
      | cbn [mapo o_call]; rewrite Cx, Cy; cbn [obind]
      | intros K; try discriminate ])).
    all: try apply av_block2; try apply av_stack2.
    + cbn [unstack fst snd]. change (Z.to_nat 2) with 2%nat. cbn [repeat obind].
      rewrite (Ax eq_refl), (Ay eq_refl). cbn [obind]. apply av_sum2.
    + cbn [unstack fst snd map obind].
      rewrite (Ax eq_refl), (Ay eq_refl). cbn [obind]. apply av_sum2.
  - unfold stack2. destruct (shape_eqb sx sy && c) eqn:Co.
    + apply andb_true_iff in Co as [Co _]; apply shape_eqb_eq in Co; subst sy.
      cbn [collapsed obind] in H.
      change (Z.of_nat (length [Plain sx; Plain sx])) with 2 in H.
      rewrite mk_generic_SS in H; injection H as <-. eexists; split; reflexivity.
    + cbn [mapo plain_of option_map obind] in H.
      rewrite mk_generic_SS in H; injection H as <-. eexists; split; reflexivity.
Qed.

(* ------------------------------------------------------------------ *)
(** * main theorems *)

Lemma declared_actual_spec : forall (e : ox) (v : opv),
  wfx e -> build e = Some v -> good v /\ spec e = Some (o_m v).
Proof.
  induction e; intros v W B; cbn [wfx] in W; try contradiction; cbn [build] in B.
  - (* XLeaf *)
    destruct W as [W1 W2]. destruct (mk_leaf_good _ _ _ _ _ _ _ _ _ W1 W2 B) as [G M].
    split; [exact G|]. cbn [spec]. rewrite M. reflexivity.
  - (* XT *)
    destruct W as [W1 W2]. destruct (build e) as [u|] eqn:Bu; [|discriminate]. cbn [obind] in B.
    destruct (IHe u W1 eq_refl) as [Gu Su]. destruct (W2 u eq_refl) as [L S].
    destruct (op_T_good u v Gu L S B) as [G M].
    split; [exact G|]. cbn [spec]. rewrite Su, M. reflexivity.
  - (* XH *)
    destruct W as [W1 W2]. destruct (build e) as [u|] eqn:Bu; [|discriminate]. cbn [obind] in B.
    destruct (IHe u W1 eq_refl) as [Gu Su]. pose proof (W2 u eq_refl) as L.
    destruct (op_H_good u v Gu L B) as [G M].
    split; [exact G|]. cbn [spec]. rewrite Su, M. reflexivity.
  - (* XConj *)
    destruct W as [W1 W2]. destruct (build e) as [u|] eqn:Bu; [|discriminate]. cbn [obind] in B.
    destruct (IHe u W1 eq_refl) as [Gu Su]. pose proof (W2 u eq_refl) as L.
    destruct (op_conj_good u v Gu L B) as [G M].
    split; [exact G|]. cbn [spec]. rewrite Su, M. reflexivity.
  - (* XGram *)
    destruct W as [W1 W2]. destruct (build e) as [u|] eqn:Bu; [|discriminate]. cbn [obind] in B.
    destruct (IHe u W1 eq_refl) as [Gu Su]. destruct (W2 u eq_refl) as [L S].
    destruct (op_gram_good u v Gu L S B) as [G M].
    split; [exact G|]. cbn [spec]. rewrite Su, M. reflexivity.
  - (* XScal *)
    destruct W as [W1 W2]. destruct (build e) as [u|] eqn:Bu; [|discriminate]. cbn [obind] in B.
    destruct (IHe u W1 eq_refl) as [Gu Su].
    destruct (op_scal_good s u v Gu (W2 u eq_refl) B) as [G M].
    split; [exact G|]. cbn [spec]. rewrite Su, M. reflexivity.
  - (* XAdd *)
    destruct W as (W1 & W2 & W3).
    destruct (build e1) as [x|] eqn:Bx; [|discriminate]. cbn [obind] in B.
    destruct (build e2) as [y|] eqn:By; [|discriminate]. cbn [obind] in B.
    destruct (IHe1 x W1 eq_refl) as [Gx Sx]. destruct (IHe2 y W2 eq_refl) as [Gy Sy].
    destruct (W3 x y eq_refl eq_refl) as [Ei Eo].
    destruct (op_add_good x y v Gx Gy Ei Eo B) as (G & Ms & M).
    split; [exact G|]. cbn [spec]. rewrite Sx, Sy, Ms, Ei, dt_eqb_refl. cbn [andb].
    rewrite M, Ei. reflexivity.
  - (* XComp *)
    destruct W as (W1 & W2 & W3).
    destruct (build e1) as [x|] eqn:Bx; [|discriminate]. cbn [obind] in B.
    destruct (build e2) as [y|] eqn:By; [|discriminate]. cbn [obind] in B.
    destruct (IHe1 x W1 eq_refl) as [Gx Sx]. destruct (IHe2 y W2 eq_refl) as [Gy Sy].
    destruct (W3 x y eq_refl eq_refl) as [E S].
    destruct (op_comp_good x y v Gx Gy E S B) as (G & N & M).
    split; [exact G|]. cbn [spec]. rewrite Sx, Sy, N, nshape_eqb_refl, E, dt_eqb_refl. cbn [andb].
    rewrite M. reflexivity.
  - (* XVStack *)
    destruct W as (W1 & W2 & W3).
    destruct (build e1) as [x|] eqn:Bx; [|discriminate]. cbn [obind] in B.
    destruct (build e2) as [y|] eqn:By; [|discriminate]. cbn [obind] in B.
    destruct (IHe1 x W1 eq_refl) as [Gx Sx]. destruct (IHe2 y W2 eq_refl) as [Gy Sy].
    pose proof (W3 x y eq_refl eq_refl) as Eo.
    destruct (op_vstack2_good x y collapse v Gx Gy Eo B) as (G & Ei & Ed & o & St & M).
    split; [exact G|]. cbn [spec].
    rewrite Sx, Sy, <- Ei, nshape_eqb_refl, <- Ed, dt_eqb_refl, <- Eo, dt_eqb_refl. cbn [andb].
    rewrite St, M. reflexivity.
Qed.

(* main theorem: for every well-formed expression tree (by induction on the tree), what scico
   declares is what evaluation yields, for the operator, and for its adjoint when linear,
   and non-conforming shapes are rejected *)
Theorem declared_eq_actual : forall (e : ox) (v : opv),
  wfx e -> build e = Some v -> good v.
Proof. intros e v W B. exact (proj1 (declared_actual_spec e v W B)). Qed.

(* and the declared metadata are the ones the documented calculus promises *)
Theorem declared_eq_spec : forall (e : ox) (v : opv),
  wfx e -> build e = Some v -> spec e = Some (o_m v).
Proof. intros e v W B. exact (proj2 (declared_actual_spec e v W B)). Qed.

Corollary declared_actual_fn : forall (e : ox) (m : meta),
  wfx e -> declared e = Some m -> actual e = Some (Some (osh m, odt m)).
Proof.
  intros e m W D. unfold declared in D. unfold actual.
  destruct (build e) as [v|] eqn:B; [|discriminate]. cbn [option_map] in *. injection D as <-.
  destruct (declared_eq_actual e v W B) as (_ & C & _). rewrite C. reflexivity.
Qed.

Corollary declared_actual_adj_fn : forall (e : ox) (v : opv),
  wfx e -> build e = Some v -> is_lin v = true ->
  actual_adj e = Some (Some (ish (o_m v), idt (o_m v))).
Proof.
  intros e v W B L. unfold actual_adj. rewrite B. cbn [option_map].
  destruct (declared_eq_actual e v W B) as (_ & _ & A & _). rewrite (A L). reflexivity.
Qed.
