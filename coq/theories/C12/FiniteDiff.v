(** C12 -- shape models of the finite-difference constructors (scico/linop/_diff.py) and of
    DFT (scico/linop/_dft.py): declared output shape vs the shape the evaluation produces. *)
From Coq Require Import List Bool ZArith Lia.
From SV Require Import C12.Slice C12.Shape.
Import ListNotations.
Open Scope Z_scope.

Definition b2z (b : bool) : Z := if b then 1 else 0.
Definition given (o : option Z) : bool := match o with Some _ => true | None => false end.

(** prepend / append may be None, 0 or 1 (_diff.py:212-215) *)
Definition bval_ok (o : option Z) : bool :=
  match o with None => true | Some z => (z =? 0) || (z =? 1) end.

(** constructor argument test (_diff.py:208-215) *)
Definition fd_args_ok (p a : option Z) (circ : bool) : bool :=
  negb (circ && (given p || given a)) && bval_ok p && bval_ok a.

(** declared length of the difference axis (_diff.py:221-226): [is not None] tests *)
Definition fd_decl_len (n : Z) (p a : option Z) (circ : bool) : Z :=
  if circ then n else n + b2z (given p) + b2z (given a) - 1.

(** _eval (_diff.py:237-275): what is put in front of / behind the array before snp.diff:
    one slice / one zero for prepend, append in {0, 1} (the tests there are [== 0] / [== 1]),
    one slice for circular.  (The stored axis is never negative: the constructor rejects
    axes outside [-rank, rank), fix fdc6426.) *)
Definition fd_ext (o : option Z) : Z :=
  match o with
  | Some z => if (z =? 0) || (z =? 1) then 1 else 0
  | None => 0
  end.
(** snp.diff of an axis of length m has length max(m - 1, 0) *)
Definition fd_eval_len (n : Z) (p a : option Z) (circ : bool) : Z :=
  Z.max (n + (if circ then 1 else fd_ext p + fd_ext a) - 1) 0.

(** declared = actual on the difference axis, for every length >= 1 and every admissible
    (prepend, append, circular), in particular the falsy values prepend = 0 / append = 0 *)
Theorem fd_len_declared_eq_actual : forall n p a circ,
  1 <= n -> fd_args_ok p a circ = true -> fd_decl_len n p a circ = fd_eval_len n p a circ.
Proof.
  intros n p a circ Hn H. unfold fd_args_ok in H.
  apply andb_true_iff in H as [H Ha]. apply andb_true_iff in H as [Hc Hp].
  unfold fd_decl_len, fd_eval_len, fd_ext.
  destruct circ.
  - simpl in Hc. destruct p, a; simpl in Hc; try discriminate. simpl. lia.
  - destruct p as [zp|], a as [za|]; simpl in Hp, Ha; try rewrite Hp; try rewrite Ha; simpl; lia.
Qed.

(** axis normalisation of SingleAxisFiniteDifference (_diff.py:195-202, after fix fdc6426): a
    negative axis is shifted by the rank once, then the axis must lie in [0, rank) *)
Definition fd_axis (rank : nat) (ax : Z) : option Z :=
  let ax' := if ax <? 0 then Z.of_nat rank + ax else ax in
  if (ax' <? 0) || (Z.of_nat rank <=? ax') then None else Some ax'.

Fixpoint fd_shape_from (i : Z) (s : shape) (axis : Z) (p a : option Z) (circ : bool) : shape :=
  match s with
  | [] => []
  | x :: t => (if i =? axis then fd_decl_len x p a circ else x) :: fd_shape_from (i + 1) t axis p a circ
  end.

(** declared output shape; [None] = the constructor raises *)
Definition safd_declared (s : shape) (ax : Z) (p a : option Z) (circ : bool) : option shape :=
  match fd_axis (length s) ax with
  | None => None
  | Some k => if fd_args_ok p a circ then Some (if circ then s else fd_shape_from 0 s k p a circ) else None
  end.

(** the shape evaluation produces: snp.diff along [self.axis] *)
Fixpoint fd_eval_from (i : Z) (s : shape) (axis : Z) (p a : option Z) (circ : bool) : shape :=
  match s with
  | [] => []
  | x :: t => (if i =? axis then fd_eval_len x p a circ else x) :: fd_eval_from (i + 1) t axis p a circ
  end.
Definition safd_actual (s : shape) (ax : Z) (p a : option Z) (circ : bool) : option shape :=
  match fd_axis (length s) ax with
  | None => None
  | Some k => if fd_args_ok p a circ then Some (fd_eval_from 0 s k p a circ) else None
  end.

(** documented rule: axis in [-rank, rank), the length of that axis changes by
    [prepend is not None] + [append is not None] - 1 (0 when circular) *)
Definition safd_spec (s : shape) (ax : Z) (p a : option Z) (circ : bool) : option shape :=
  if (ax <? - Z.of_nat (length s)) || (Z.of_nat (length s) <=? ax) then None else
  if fd_args_ok p a circ
  then Some (fd_shape_from 0 s (if ax <? 0 then Z.of_nat (length s) + ax else ax) p a circ) else None.

Lemma fd_shape_from_circ i s k p a : fd_shape_from i s k p a true = s.
Proof. revert i. induction s as [|x t IH]; intros i; simpl; [reflexivity|]. rewrite IH. destruct (i =? k); reflexivity. Qed.

Lemma fd_from_eq i s k p a circ :
  Forall (fun d => 1 <= d) s -> fd_args_ok p a circ = true ->
  fd_shape_from i s k p a circ = fd_eval_from i s k p a circ.
Proof.
  intros Hs Hok. revert i. induction Hs as [|x t Hx Ht IH]; intros i; simpl; [reflexivity|].
  rewrite IH. destruct (i =? k); [|reflexivity]. rewrite fd_len_declared_eq_actual by assumption. reflexivity.
Qed.

(** For every shape with positive dimensions, EVERY axis and every boundary setting: declared
    output shape = documented rule = shape of the evaluation; axes outside [-rank, rank) and
    inadmissible settings are rejected by all three. *)
Theorem safd_declared_eq_spec_eq_actual : forall s ax p a circ,
  Forall (fun d => 1 <= d) s ->
  safd_declared s ax p a circ = safd_spec s ax p a circ /\
  safd_declared s ax p a circ = safd_actual s ax p a circ.
Proof.
  intros s ax p a circ Hs. unfold safd_declared, safd_spec, safd_actual, fd_axis. cbv zeta.
  destruct (ax <? 0) eqn:E3; [pose proof (proj1 (Z.ltb_lt _ _) E3) as E3p | pose proof (proj1 (Z.ltb_ge _ _) E3) as E3p].
  - destruct (ax <? - Z.of_nat (length s)) eqn:E1; [apply Z.ltb_lt in E1 | apply Z.ltb_ge in E1]; cbn [orb].
    + destruct (Z.of_nat (length s) + ax <? 0) eqn:E5; [|apply Z.ltb_ge in E5; lia]. cbn [orb]. split; reflexivity.
    + destruct (Z.of_nat (length s) <=? ax) eqn:E2; [apply Z.leb_le in E2; lia|].
      destruct (Z.of_nat (length s) + ax <? 0) eqn:E5; [apply Z.ltb_lt in E5; lia|].
      destruct (Z.of_nat (length s) <=? Z.of_nat (length s) + ax) eqn:E4; [apply Z.leb_le in E4; lia|]. cbn [orb].
      destruct (fd_args_ok p a circ) eqn:Hok; [|split; reflexivity].
      destruct circ; [rewrite fd_shape_from_circ; split; [reflexivity|]; rewrite <- fd_from_eq by assumption;
                      rewrite fd_shape_from_circ; reflexivity|].
      split; [reflexivity|]. rewrite fd_from_eq by assumption. reflexivity.
  - destruct (ax <? - Z.of_nat (length s)) eqn:E1; [apply Z.ltb_lt in E1; lia|]. rewrite E3. cbn [orb].
    destruct (Z.of_nat (length s) <=? ax) eqn:E2; [split; reflexivity|].
    destruct (fd_args_ok p a circ) eqn:Hok; [|split; reflexivity].
    destruct circ; [rewrite fd_shape_from_circ; split; [reflexivity|]; rewrite <- fd_from_eq by assumption;
                    rewrite fd_shape_from_circ; reflexivity|].
    split; [reflexivity|]. rewrite fd_from_eq by assumption. reflexivity.
Qed.

(** in particular: an axis outside [-rank, rank) is rejected at construction *)
Theorem safd_axis_out_of_range_rejected : forall s ax p a circ,
  ax < - Z.of_nat (length s) \/ Z.of_nat (length s) <= ax -> safd_declared s ax p a circ = None.
Proof.
  intros s ax p a circ H. unfold safd_declared, fd_axis. cbv zeta.
  destruct (ax <? 0) eqn:E3; [apply Z.ltb_lt in E3 | apply Z.ltb_ge in E3].
  - destruct (Z.of_nat (length s) + ax <? 0) eqn:E5; [reflexivity|]. apply Z.ltb_ge in E5. lia.
  - destruct (ax <? 0) eqn:E6; [apply Z.ltb_lt in E6; lia|].
    destruct (Z.of_nat (length s) <=? ax) eqn:E2; [reflexivity|]. apply Z.leb_gt in E2. lia.
Qed.

(** FiniteDifference = VerticalStack of the single-axis operators: collapse rule of _stack.py *)
Definition fd_stack_declared (s : shape) (axes : list Z) (p a : option Z) (circ : bool) : option nshape :=
  match mapo (fun ax => safd_declared s ax p a circ) axes with
  | None => None
  | Some outs => option_map fst (collapse_shapes (map Plain outs) true)
  end.

(** the element count of the stacked finite-difference output is the sum over the axes *)
Theorem fd_stack_size : forall s axes p a circ outs o,
  mapo (fun ax => safd_declared s ax p a circ) axes = Some outs ->
  fd_stack_declared s axes p a circ = Some o ->
  size o = sumZ (map prodZ outs).
Proof.
  intros s axes p a circ outs o Hm H. unfold fd_stack_declared in H. rewrite Hm in H.
  destruct (collapse_shapes (map Plain outs) true) as [[o' b]|] eqn:E; [|discriminate].
  simpl in H. injection H as <-. apply collapse_shapes_size in E. rewrite E, map_map. reflexivity.
Qed.

(** scico.numpy.util.normalize_axes as used by FiniteDifference (linop_over_axes): negative
    entries are shifted by the rank once, then every entry must lie in [0, rank) (fix fdc6426);
    duplicates rejected *)
Fixpoint has_dup (l : list Z) : bool :=
  match l with [] => false | x :: t => existsb (Z.eqb x) t || has_dup t end.
Definition norm_axes (rank : nat) (axes : option (list Z)) : option (list Z) :=
  match axes with
  | None => Some (map Z.of_nat (seq 0 rank))
  | Some l =>
      let l' := map (fun a => if a <? 0 then Z.of_nat rank + a else a) l in
      if existsb (fun a => (a <? 0) || (Z.of_nat rank <=? a)) l' then None
      else if has_dup l' then None else Some l'
  end.
Definition fd_declared (s : shape) (axes : option (list Z)) (p a : option Z) (circ : bool) : option nshape :=
  match norm_axes (length s) axes with
  | None => None
  | Some l => match l with [] => None | _ => fd_stack_declared s l p a circ end
  end.

(* ------------------------------------------------------------------ DFT *)

(** DFT.__init__ (_dft.py:50-67): output shape = input shape with the entries at [axes]
    (default: the trailing len(axes_shape) axes) replaced by [axes_shape]; Python list
    assignment ([py_set]: negative indices wrap, IndexError = [None]) *)
Fixpoint set_many (s : list Z) (l : list (Z * Z)) : option (list Z) :=
  match l with
  | [] => Some s
  | (i, v) :: t => match py_set s i v with Some s' => set_many s' t | None => None end
  end.

Definition trailing (rank k : nat) : list Z := map Z.of_nat (seq (rank - k) k).

Definition dft_declared (s : shape) (axes : option (list Z)) (ash : option (list Z)) : option shape :=
  match ash with
  | None => Some s
  | Some sh =>
      match axes with
      | Some ax => if negb (length ax =? length sh)%nat then None else set_many s (combine ax sh)
      | None => set_many s (combine (trailing (length s) (length sh)) sh)
      end
  end.

(** DFT.inv: ifftn(z, s = [input_shape[i] for i in axes], axes): the shape of [z] with the
    transformed axes set back to the input lengths (only when both axes and axes_shape were
    given or defaulted, _dft.py:69-72) *)
Definition dft_inv_shape (s o : shape) (axes : option (list Z)) (ash : option (list Z)) : option shape :=
  match ash with
  | None => Some o
  | Some sh =>
      let ax := match axes with Some ax => ax | None => trailing (length s) (length sh) end in
      match mapo (fun i => py_nth s i) ax with
      | Some vals => set_many o (combine ax vals)
      | None => None
      end
  end.

Lemma set_nth_length {A} (l : list A) k v : length (set_nth l k v) = length l.
Proof. revert k. induction l as [|x t IH]; intros [|k]; simpl; auto. Qed.

Lemma py_set_length {A} (l l' : list A) i v : py_set l i v = Some l' -> length l' = length l.
Proof.
  unfold py_set. destruct ((_ <? 0) || (_ <=? _)); [discriminate|].
  intros H. injection H as <-. apply set_nth_length.
Qed.

Lemma set_many_length s l s' : set_many s l = Some s' -> length s' = length s.
Proof.
  revert s. induction l as [|[i v] t IH]; intros s H; simpl in H.
  - injection H as <-. reflexivity.
  - destruct (py_set s i v) as [s1|] eqn:E; [|discriminate].
    apply IH in H. apply py_set_length in E. congruence.
Qed.

(** the DFT never changes the rank *)
Theorem dft_declared_rank : forall s axes ash o,
  dft_declared s axes ash = Some o -> length o = length s.
Proof.
  intros s axes ash o H. unfold dft_declared in H.
  destruct ash as [sh|]; [|injection H as <-; reflexivity].
  destruct axes as [ax|].
  - destruct (negb (length ax =? length sh)%nat); [discriminate|]. eapply set_many_length; eassumption.
  - eapply set_many_length; eassumption.
Qed.
