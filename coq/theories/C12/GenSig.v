(** Signature pieces for the code generated from scico/operator/_stack.py (SVGen.C12_Stack). *)
From Coq Require Import List ZArith.
From SV Require Import C12.Shape.
Import ListNotations.
(** shapes[0]; the generated code only evaluates it inside a loop over a non-empty list *)
Definition hd0_ (l : list nshape) : nshape := hd (Plain []) l.
