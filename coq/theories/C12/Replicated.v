(** C12 -- replicated stacks (DiagonalReplicated): axis normalisation and declared = actual
    for every admissible input / output axis, negative or not. *)
From Coq Require Import List Bool ZArith Lia.
From SV Require Import C12.Shape C12.Expr C12.ExprSpec.
Import ListNotations.
Open Scope Z_scope.

Lemma length_insert_at k r (s : shape) : length (insert_at k r s) = S (length s).
Proof.
  unfold insert_at. rewrite app_length. cbn [length].
  rewrite <- (firstn_skipn k s) at 3. rewrite app_length. lia.
Qed.

Lemma nth_insert_at k r (s : shape) : (k <= length s)%nat -> nth k (insert_at k r s) 0 = r.
Proof.
  intros H. unfold insert_at.
  rewrite app_nth2; rewrite firstn_length_le by assumption; [|lia].
  rewrite Nat.sub_diag. reflexivity.
Qed.

(** [norm_axis] accepts exactly the axes of range(-(rank+1), rank+1) and maps a negative
    axis to its position counted from the end of the replicated shape *)
Theorem norm_axis_spec : forall (rank : nat) (a : Z) (k : nat),
  norm_axis rank a = Some k <->
  (- (Z.of_nat rank + 1) <= a <= Z.of_nat rank /\
   Z.of_nat k = if a <? 0 then Z.of_nat rank + 1 + a else a).
Proof.
  intros rank a k. unfold norm_axis.
  destruct (a <? 0) eqn:E; [apply Z.ltb_lt in E | apply Z.ltb_ge in E].
  - destruct ((Z.of_nat rank + 1 + a <? 0) || (Z.of_nat rank <? Z.of_nat rank + 1 + a)) eqn:B.
    + apply orb_true_iff in B. split; [discriminate|]. intros [H1 H2].
      destruct B as [B|B]; apply Z.ltb_lt in B; lia.
    + apply orb_false_iff in B as [B1 B2]. apply Z.ltb_ge in B1, B2. split.
      * intros H. injection H as <-. rewrite Z2Nat.id by lia. lia.
      * intros [H1 H2]. f_equal. lia.
  - destruct ((a <? 0) || (Z.of_nat rank <? a)) eqn:B.
    + apply orb_true_iff in B. split; [discriminate|]. intros [H1 H2].
      destruct B as [B|B]; apply Z.ltb_lt in B; lia.
    + apply orb_false_iff in B as [B1 B2]. apply Z.ltb_ge in B1, B2. split.
      * intros H. injection H as <-. rewrite Z2Nat.id by lia. lia.
      * intros [H1 H2]. f_equal. lia.
Qed.

Lemma norm_axis_le rank a k : norm_axis rank a = Some k -> (k <= rank)%nat.
Proof.
  intros H. apply norm_axis_spec in H as [H1 H2].
  destruct (a <? 0) eqn:E; [apply Z.ltb_lt in E | apply Z.ltb_ge in E]; lia.
Qed.

(** both an explicit and a defaulted output axis are range-checked against the output rank;
    the default is the normalised input axis *)
Theorem drep_axes_spec : forall ri ro ia oa ki ko,
  drep_axes ri ro ia oa = Some (ki, ko) ->
  norm_axis ri ia = Some ki /\ (ko <= ro)%nat /\
  match oa with None => ko = ki | Some z => norm_axis ro z = Some ko end.
Proof.
  intros ri ro ia oa ki ko. unfold drep_axes.
  destruct (norm_axis ri ia) as [k|]; [|discriminate].
  destruct oa as [z|].
  - destruct (norm_axis ro z) as [k'|] eqn:E; simpl; [|discriminate].
    intros H. injection H as <- <-. apply norm_axis_le in E. auto.
  - destruct (ro <? k)%nat eqn:E; [discriminate|]. apply Nat.ltb_ge in E.
    intros H. injection H as <- <-. auto.
Qed.

(** a defaulted output axis beyond the operand's output rank is rejected at construction *)
Theorem drep_default_axis_rejected : forall (v : opv) (n ia : Z) (si so : shape) (ki : nat),
  ish (o_m v) = Plain si -> osh (o_m v) = Plain so ->
  norm_axis (length si) ia = Some ki -> (length so < ki)%nat ->
  op_drep_z v n ia None = None.
Proof.
  intros v n ia si so ki Hi Ho Hk Hlt. unfold op_drep_z. rewrite Hi, Ho. unfold drep_axes. rewrite Hk.
  destruct (length so <? ki)%nat eqn:E; [reflexivity|]. apply Nat.ltb_ge in E. lia.
Qed.

Lemma vmap_insert (f : av -> option av) (ka kb : nat) (n : Z) (sa sb : shape) (da db : dt) :
  (ka <= length sa)%nat -> (kb <= length sb)%nat ->
  f (Plain sa, da) = Some (Plain sb, db) ->
  vmap_shape f ka kb (Plain (insert_at ka n sa), da) = Some (Plain (insert_at kb n sb), db).
Proof.
  intros Ha Hb Hf. unfold vmap_shape. cbn [fst snd].
  rewrite length_insert_at.
  destruct (S (length sa) <=? ka)%nat eqn:E; [apply Nat.leb_le in E; lia|].
  rewrite nth_insert_at, remove_insert_at by assumption. rewrite Hf. cbn [obind fst snd].
  destruct (length sb <? kb)%nat eqn:E2; [apply Nat.ltb_lt in E2; lia|]. reflexivity.
Qed.

(** For every operand that conforms, every replicate count and every admissible pair of
    axes (negative or not, output axis explicit or defaulted; the constructor accepts them only
    when the output position exists):
    the declared shapes are the operand's shapes with the replicate count inserted at the
    normalised positions, evaluation on the declared input yields exactly the declared
    output, adj maps the declared output back to the declared input, other shapes are rejected. *)
Theorem drep_declared_eq_actual : forall (v w : opv) (n ia : Z) (oa : option Z) (si so : shape) (ki ko : nat),
  ish (o_m v) = Plain si -> osh (o_m v) = Plain so ->
  conforms v -> conforms_adj v ->
  drep_axes (length si) (length so) ia oa = Some (ki, ko) ->
  op_drep_z v n ia oa = Some w ->
  o_m w = mkmeta (Plain (insert_at ki n si)) (Plain (insert_at ko n so)) (idt (o_m v)) (odt (o_m v)) /\
  conforms w /\ conforms_adj w /\ rejects w.
Proof.
  intros v w n ia oa si so ki ko Hi Ho Hc Ha Hax H.
  pose proof (drep_axes_spec _ _ _ _ _ _ Hax) as [Hki [Hko _]]. apply norm_axis_le in Hki.
  unfold op_drep_z in H. rewrite Hi, Ho, Hax in H. unfold op_drep in H. rewrite Hi, Ho in H.
  destruct (length si <? ki)%nat eqn:E; [apply Nat.ltb_lt in E; lia|].
  unfold mk_generic in H. cbn [odflt] in H.
  unfold conforms in Hc. rewrite Hi, Ho in Hc.
  unfold conforms_adj in Ha. rewrite Hi, Ho in Ha.
  destruct (is_lin v) eqn:L.
  - specialize (Ha eq_refl). injection H as <-.
    split; [reflexivity|]. split; [|split].
    + unfold conforms. cbn [o_call o_m ish osh idt odt]. unfold chk_call. cbn [fst].
      rewrite nshape_eqb_refl. apply vmap_insert; assumption.
    + unfold conforms_adj. intros _. cbn [o_adj o_m ish osh idt odt]. unfold chk_adj. cbn [fst snd].
      rewrite dt_eqb_refl, nshape_eqb_refl. apply vmap_insert; assumption.
    + unfold rejects. intros x Hx. cbn [o_call o_m ish] in *. unfold chk_call.
      destruct (nshape_eqb (Plain (insert_at ki n si)) (fst x)) eqn:E2; [|reflexivity].
      apply nshape_eqb_eq in E2. congruence.
  - injection H as <-.
    split; [reflexivity|]. split; [|split].
    + unfold conforms. cbn [o_call o_m ish osh idt odt]. unfold chk_call. cbn [fst].
      rewrite nshape_eqb_refl. apply vmap_insert; assumption.
    + unfold conforms_adj. unfold is_lin. cbn [o_cls]. discriminate.
    + unfold rejects. intros x Hx. cbn [o_call o_m ish] in *. unfold chk_call.
      destruct (nshape_eqb (Plain (insert_at ki n si)) (fst x)) eqn:E2; [|reflexivity].
      apply nshape_eqb_eq in E2. congruence.
Qed.

(** every accepted pair of axes is in range of the respective ranks *)
Corollary drep_axes_in_range : forall ri ro ia oa ki ko,
  drep_axes ri ro ia oa = Some (ki, ko) -> (ki <= ri)%nat /\ (ko <= ro)%nat.
Proof.
  intros ri ro ia oa ki ko H. apply drep_axes_spec in H as [H1 [H2 _]]. apply norm_axis_le in H1. auto.
Qed.

(** the declared metadata are those of the documented rule *)
Theorem drep_declared_eq_spec : forall (e : ox) (v w : opv) (n ia : Z) (oa : option Z) (si so : shape) (ki ko : nat),
  build e = Some v -> spec e = Some (o_m v) ->
  ish (o_m v) = Plain si -> osh (o_m v) = Plain so ->
  drep_axes (length si) (length so) ia oa = Some (ki, ko) ->
  build (XDRep e n ia oa) = Some w ->
  spec (XDRep e n ia oa) = Some (o_m w).
Proof.
  intros e v w n ia oa si so ki ko Hb Hs Hi Ho Hax H.
  cbn [build] in H. rewrite Hb in H. cbn [obind] in H.
  cbn [spec]. rewrite Hs, Hi, Ho, Hax.
  unfold op_drep_z in H. rewrite Hi, Ho, Hax in H. unfold op_drep in H. rewrite Hi, Ho in H.
  pose proof (drep_axes_spec _ _ _ _ _ _ Hax) as [Hki _]. apply norm_axis_le in Hki.
  destruct (length si <? ki)%nat eqn:E1; [apply Nat.ltb_lt in E1; lia|].
  unfold mk_generic in H. cbn [odflt] in H. injection H as <-. reflexivity.
Qed.
